(* Props/C15.v -- property C15: the interpreter computes MLIR semantics for arithmetic.
   ONLY theorem statements closed by `exact`.  Every `run_*`, `to_signed`, `to_unsigned`, ...
   below is a definition GENERATED from /repo's working tree on this run
   (coq/Gen/C15_comparisons.v from xdsl/utils/comparisons.py, coq/Gen/C15_arith.v from
   xdsl/interpreters/arith.py); the specification (wrap, sgn, canon, signless, spec_*,
   binop_ok, cmpi_ok, cast_ok) is coq/C15/Spec.v.  All statements are for EVERY width w >= 1
   and all integers.  Values: a Python int x represents the bit pattern wrap w x = x mod 2^w. *)
From Coq Require Import ZArith Bool.
From XV Require Import C15.Py C15.Spec Gen.C15_comparisons Gen.C15_arith
                       C15.Model C15.ProofsOps C15.ProofsFindings C15.ProofsControl C15.Old C15.ProofsOld.
Local Open Scope Z_scope.

(* ------------------------------------------------------------------ xdsl.utils.comparisons *)
Theorem C15_to_unsigned_range : forall w x, 0 <= w ->
  exists r, to_unsigned x w = Some r /\ 0 <= r < 2 ^ w /\ r = wrap w x.
Proof. exact to_unsigned_range. Qed.
Print Assumptions C15_to_unsigned_range.

Theorem C15_to_signed_range : forall w x, 1 <= w ->
  exists r, to_signed x w = Some r /\ canon w r /\ wrap w r = wrap w x.
Proof. exact to_signed_range. Qed.
Print Assumptions C15_to_signed_range.

Theorem C15_signed_unsigned_inverse : forall w x, 1 <= w ->
  (canon w x -> exists u, to_unsigned x w = Some u /\ to_signed u w = Some x) /\
  (0 <= x < 2 ^ w -> exists s, to_signed x w = Some s /\ to_unsigned s w = Some x).
Proof. exact signed_unsigned_inverse. Qed.
Print Assumptions C15_signed_unsigned_inverse.

Theorem C15_value_ranges : forall w, 1 <= w ->
  unsigned_upper_bound w = Some (2 ^ w) /\
  signed_lower_bound w = Some (- 2 ^ (w - 1)) /\
  signed_upper_bound w = Some (2 ^ (w - 1)) /\
  unsigned_value_range w = Some (0, 2 ^ w) /\
  signed_value_range w = Some (- 2 ^ (w - 1), 2 ^ (w - 1)) /\
  signless_value_range w = Some (- 2 ^ (w - 1), 2 ^ w).
Proof. exact value_ranges. Qed.
Print Assumptions C15_value_ranges.

(* ------------------------------------------------------------------ FULL STRENGTH (current tree) *)
(* any integer operands (every representative, even out of range): no exception, canonical
   result, MLIR bit pattern *)
Theorem C15_addi : binop_ok anyrep canon run_addi spec_addi always. Proof. exact addi_ok. Qed.
Print Assumptions C15_addi.
Theorem C15_subi : binop_ok anyrep canon run_subi spec_subi always. Proof. exact subi_ok. Qed.
Print Assumptions C15_subi.
Theorem C15_muli : binop_ok anyrep canon run_muli spec_muli always. Proof. exact muli_ok. Qed.
Print Assumptions C15_muli.
Theorem C15_andi : binop_ok anyrep canon run_andi spec_andi always. Proof. exact andi_ok. Qed.
Print Assumptions C15_andi.
Theorem C15_ori : binop_ok anyrep canon run_ori spec_ori always. Proof. exact ori_ok. Qed.
Print Assumptions C15_ori.
Theorem C15_xori : binop_ok anyrep canon run_xori spec_xori always. Proof. exact xori_ok. Qed.
Print Assumptions C15_xori.

(* index_cast: truncation when narrowing, sign extension when widening, identity at equal widths *)
Theorem C15_index_cast : cast_ok signless signless run_index_cast spec_index_cast.
Proof. exact index_cast_ok_signless. Qed.
Print Assumptions C15_index_cast.
Theorem C15_index_cast_canonical : cast_ok canon canon run_index_cast spec_index_cast.
Proof. exact index_cast_ok_canon. Qed.
Print Assumptions C15_index_cast_canonical.

(* exceptions instead of values exactly where promised *)
Theorem C15_division_by_zero_raises : forall w a, 1 <= w ->
  run_divsi w a 0 = None /\ run_remsi w a 0 = None /\ run_floordivsi w a 0 = None.
Proof. exact division_by_zero_raises. Qed.
Print Assumptions C15_division_by_zero_raises.
Theorem C15_cmpi_unknown_predicate_raises : forall p w a b, (p < 0 \/ 9 < p) -> run_cmpi p w a b = None.
Proof. exact cmpi_unknown_predicate_raises. Qed.
Print Assumptions C15_cmpi_unknown_predicate_raises.

(* scf.for: the model's iteration count (Python's len(range(lb, ub, step)), hand-modelled in C15/Model.v
   and tied to ScfFunctions.run_for by the correspondence check) is MLIR's trip count for step > 0 *)
Theorem C15_scf_for_trip_count : forall lb ub step, 0 < step ->
  exists n, range_len lb ub step = Some n /\ 0 <= n /\
            forall k, 0 <= k -> (k < n <-> lb + k * step < ub).
Proof. exact range_len_trip_count. Qed.
Print Assumptions C15_scf_for_trip_count.

(* ---- operations repaired in /repo (fix commits 4351108 6674019 2cae97b e4f2eb2): every
        representative of the signless range in, no exception where MLIR defines the result,
        CANONICAL result with the MLIR bit pattern out *)
Theorem C15_shli : binop_ok signless canon run_shli spec_shli shift_defined. Proof. exact shli_ok. Qed.
Print Assumptions C15_shli.
Theorem C15_shrsi : binop_ok signless canon run_shrsi spec_shrsi shift_defined. Proof. exact shrsi_ok. Qed.
Print Assumptions C15_shrsi.
Theorem C15_divsi : binop_ok signless canon run_divsi spec_divsi sdiv_defined. Proof. exact divsi_ok. Qed.
Print Assumptions C15_divsi.
Theorem C15_remsi : binop_ok signless canon run_remsi spec_remsi sdiv_defined. Proof. exact remsi_ok. Qed.
Print Assumptions C15_remsi.
Theorem C15_floordivsi : binop_ok signless canon run_floordivsi spec_floordivsi sdiv_defined.
Proof. exact floordivsi_ok. Qed.
Print Assumptions C15_floordivsi.
(* cmpi eq ne slt sle sgt sge (predicates 0..5): the i1 result has the MLIR bit pattern for every
   representative of the operands (one lemma per predicate in C15/ProofsOps.v) *)
Theorem C15_cmpi_eq_ne_signed :
  cmpi_ok signless signless run_cmpi 0 /\ cmpi_ok signless signless run_cmpi 1 /\ cmpi_ok signless signless run_cmpi 2 /\
  cmpi_ok signless signless run_cmpi 3 /\ cmpi_ok signless signless run_cmpi 4 /\ cmpi_ok signless signless run_cmpi 5.
Proof. exact (conj cmpi_eq_ok (conj cmpi_ne_ok (conj cmpi_slt_ok (conj cmpi_sle_ok (conj cmpi_sgt_ok cmpi_sge_ok))))). Qed.
Print Assumptions C15_cmpi_eq_ne_signed.
(* cmpi still returns Python True = 1 while the canonical i1 true is -1 (a fact about the representation;
   unobservable since every consumer normalises, cf. C15_cmpi_eq_ne_signed at w = 1) *)
Theorem C15_cmpi_result_not_canonical :
  exists w a b r, 1 <= w /\ canon w a /\ canon w b /\ run_cmpi 2 w a b = Some r /\ ~ canon 1 r.
Proof. exact cmpi_result_not_canonical. Qed.
Print Assumptions C15_cmpi_result_not_canonical.

(* ================================================================== FINDINGS (current tree) ====
   cmpi ult ule ugt uge (predicates 6..9) still compare the python ints (known finding C15-kf-2; the
   repair contradicts a pinned test).  cmpi_refuted_on dom p := exists w a b r t, dom w a /\ dom w b /\
   run_cmpi p w a b = Some r /\ spec_cmpi p w (wrap w a) (wrap w b) = Some t /\ wrap 1 r <> b2z t.
   Wrong even on canonical operands; right when both operands have the same sign.  After a repair:
   full theorem in C15/ProofsFixed.v.disabled. *)
Theorem C15_cmpi_unsigned_refuted :
  cmpi_refuted_on canon 6 /\ cmpi_refuted_on canon 7 /\ cmpi_refuted_on canon 8 /\ cmpi_refuted_on canon 9.
Proof. exact (conj cmpi_ult_refuted (conj cmpi_ule_refuted (conj cmpi_ugt_refuted cmpi_uge_refuted))). Qed.
Print Assumptions C15_cmpi_unsigned_refuted.
Theorem C15_cmpi_unsigned_partial :
  cmpi_ok_same_sign 6 /\ cmpi_ok_same_sign 7 /\ cmpi_ok_same_sign 8 /\ cmpi_ok_same_sign 9.
Proof. exact (conj cmpi_ult_partial (conj cmpi_ule_partial (conj cmpi_ugt_partial cmpi_uge_partial))). Qed.
Print Assumptions C15_cmpi_unsigned_partial.
(* ================================================================== END FINDINGS *)

(* ---- recorded refutations of the PRE-REPAIR code (C15/Old.v = the definitions generated from the
        snapshot tree; known_findings.d/C15.json: fixed entries) *)
Theorem C15_shli_old_refuted :
  exists w a b r, 1 <= w /\ canon w a /\ canon w b /\ shift_defined w (wrap w a) (wrap w b) /\
                  run_shli_old w a b = Some r /\ ~ signless w r.
Proof. exact shli_old_refuted. Qed.
Print Assumptions C15_shli_old_refuted.
Theorem C15_signed_operand_ops_old_refuted :
  binop_old_refuted run_shrsi_old spec_shrsi shift_defined /\ binop_old_refuted run_divsi_old spec_divsi sdiv_defined /\
  binop_old_refuted run_remsi_old spec_remsi sdiv_defined /\ binop_old_refuted run_floordivsi_old spec_floordivsi sdiv_defined.
Proof. exact (conj shrsi_old_refuted (conj divsi_old_refuted (conj remsi_old_refuted floordivsi_old_refuted))). Qed.
Print Assumptions C15_signed_operand_ops_old_refuted.
Theorem C15_cmpi_eq_ne_signed_old_refuted :
  cmpi_old_refuted_on 0 /\ cmpi_old_refuted_on 1 /\ cmpi_old_refuted_on 2 /\
  cmpi_old_refuted_on 3 /\ cmpi_old_refuted_on 4 /\ cmpi_old_refuted_on 5.
Proof. exact cmpi_old_refuted. Qed.
Print Assumptions C15_cmpi_eq_ne_signed_old_refuted.
Theorem C15_cmpi_of_cmpi_old_refuted :
  exists a b r r2, canon 8 a /\ canon 8 b /\ run_cmpi_old 2 8 a b = Some r /\ canon 1 (-1) /\
                   wrap 1 r = wrap 1 (-1) /\ run_cmpi_old 0 1 r (-1) = Some r2 /\ wrap 1 r2 = 0.
Proof. exact cmpi_of_cmpi_old_refuted. Qed.
Print Assumptions C15_cmpi_of_cmpi_old_refuted.

(* non-vacuity: hypotheses are satisfiable and the statements say something on concrete values *)
Example C15_nonvacuous :
  run_addi 8 127 1 = Some (-128) /\
  (run_divsi 8 (-7) 2 = Some (-3) /\ sdiv_defined 8 (wrap 8 (-7)) (wrap 8 2)) /\
  (run_cmpi 6 8 (-3) (-2) = Some 1 /\ (-3 < 0 <-> -2 < 0)) /\
  run_shli 8 100 2 = Some (-112) /\ run_shrsi 8 255 1 = Some (-1) /\ run_cmpi 0 1 1 (-1) = Some 1.
Proof.
  split; [vm_compute; reflexivity|]. split; [|split].
  - split; [vm_compute; reflexivity|]. split; vm_compute; intros; intuition discriminate.
  - split; [vm_compute; reflexivity|]. split; intros; reflexivity.
  - repeat split; vm_compute; reflexivity.
Qed.
Print Assumptions C15_nonvacuous.
