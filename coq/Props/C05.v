(* Props/C05.v -- property C05: custom (declarative) assembly formats round-trip.
   ONLY theorem statements closed by `exact`.  Model: C05/Model.v (token-level interpreter of
   FormatProgram.print / FormatProgram.parse), checker: C05/Check.v, formats: Gen/C05_formats.v
   (regenerated from the registered operations of the working tree on every run).
   Hand-written print/parse overrides are NOT modelled and nothing is claimed about them here. *)
From Coq Require Import ZArith String Bool List.
From XV Require Import C05.Model C05.Check C05.ProofsBase C05.Proofs C05.ProofsWit Gen.C05_formats.
Import ListNotations.
Local Open Scope string_scope.

(* Soundness of the checker, for EVERY operation definition d and format f of the modelled directive
   subset, every instance i and every continuation `rest` of the token stream:
   if the format passes fmt_ok, the instance is well formed (inst_ok: sizes respect the definition
   kinds, type constraints hold, no duplicate keys, required definitions present), satisfies the
   side conditions (side_ok: see the refutations below) and what follows the operation is a token
   that can follow an operation (rest_ok), then printing succeeds, parsing the printed tokens followed
   by `rest` consumes exactly the printed tokens and yields an instance equivalent to i (same
   operands, operand types and result types; dictionaries equal up to declared default values).
   fx is the version of FunctionalTypeDirective.print (true: with the proposed repair). *)
Theorem C05_sound : forall fx d f i rest,
  fmt_ok d f = true -> inst_ok d i = true -> side_ok fx f i = true -> rest_ok d f rest = true ->
  exists ts i',
    print_fmt fx d i f = Some ts /\
    parse_fmt d f (ts ++ rest) = Some (i', rest) /\
    inst_equiv d i' i.
Proof. exact c05_sound. Qed.
Print Assumptions C05_sound.

(* The per-format obligations: every regenerated format passes the checker, except the listed ones
   (reported as formats_not_shown in the evidence; two of them are refuted below). *)
Theorem C05_formats_checked :
  forallb (fun x => mem (fst x) not_shown || fmt_ok (fst (snd x)) (snd (snd x))) all_formats = true.
Proof. exact formats_checked. Qed.
Print Assumptions C05_formats_checked.

(* Hence every registered operation whose declarative format is in the modelled subset and not in
   the list round-trips each of its well-formed instances. *)
Theorem C05_roundtrip_registered : forall name d f,
  In (name, (d, f)) all_formats -> ~ In name not_shown ->
  forall fx i rest,
    inst_ok d i = true -> side_ok fx f i = true -> rest_ok d f rest = true ->
    exists i', roundtrip fx d f i rest = Some (i', rest) /\ inst_equiv d i' i.
Proof. exact roundtrip_all. Qed.
Print Assumptions C05_roundtrip_registered.

(* The side conditions are necessary (each is a defect of the unchanged tree, known_findings.d/C05.json).
   d_call/f_call, d_return/f_return, d_fadd/f_fadd, d_replace/f_replace, d_declare/f_declare are literal
   copies (C05/ProofsWit.v) of the definitions and formats the translator generated from the unchanged
   tree for func.call, func.return, llvm.fadd, pdl.replace, smt.declare_fun.
   1. functional-type(...) prints a lone function-typed result without parentheses: func.call with such
      a result passes every other hypothesis and does not parse back; with the repair (fx = true) it does. *)
Theorem C05_funty_refuted :
  fmt_ok d_call f_call = true /\
  inst_ok d_call w_funty = true /\
  rest_ok d_call f_call closing = true /\
  side_ok false f_call w_funty = false /\
  roundtrip false d_call f_call w_funty closing = None /\
  side_ok true f_call w_funty = true /\
  roundtrip true d_call f_call w_funty closing = Some (w_funty, closing).
Proof. exact funty_refuted. Qed.
Print Assumptions C05_funty_refuted.

(* 2. a discardable attribute named operandSegmentSizes on func.return (no AttrSized option) is
      reserved by attr-dict but printed by no variable: the round trip succeeds and loses it. *)
Theorem C05_dropped_attr_refuted :
  fmt_ok d_return f_return = true /\
  inst_ok d_return w_dropped = true /\
  rest_ok d_return f_return closing = true /\
  side_ok true f_return w_dropped = false /\
  exists i', roundtrip true d_return f_return w_dropped closing = Some (i', closing)
             /\ lookup "operandSegmentSizes" (i_attrs i') = None
             /\ lookup "operandSegmentSizes" (i_attrs w_dropped) = Some (at_ 101).
Proof. exact dropped_attr_refuted. Qed.
Print Assumptions C05_dropped_attr_refuted.

(* 3. a discardable attribute named like a property that is printed inside attr-dict (llvm.fadd,
      fastmathFlags): printing raises. *)
Theorem C05_clash_refuted :
  fmt_ok d_fadd f_fadd = true /\
  inst_ok d_fadd w_clash = true /\
  side_ok true f_fadd w_clash = false /\
  print_fmt true d_fadd w_clash f_fadd = None.
Proof. exact clash_refuted. Qed.
Print Assumptions C05_clash_refuted.

(* Two formats rejected by the checker are genuinely ambiguous.
   4. pdl.replace ends with an optional operand: when it is absent and the next operation defines a
      value, that value is consumed as the operand (and `=` is left over); at the end of a block the
      same instance round-trips. *)
Theorem C05_trailing_optional_refuted :
  fmt_ok d_replace f_replace = false /\
  inst_ok d_replace w_replace = true /\
  rest_ok d_replace f_replace next_value = true /\
  roundtrip true d_replace f_replace w_replace next_value
    = Some (mkInst [[(0%Z, ty 1)]; [(999%Z, ty 1)]; [(1%Z, ty 100)]] [] [] [], [TLit "=" LNone]) /\
  roundtrip true d_replace f_replace w_replace closing = Some (w_replace, closing).
Proof. exact trailing_optional_refuted. Qed.
Print Assumptions C05_trailing_optional_refuted.

(* 5. smt.declare_fun: the optional generic attribute $namePrefix stands directly before attr-dict;
      without a prefix a non-empty dictionary is parsed as the prefix. *)
Theorem C05_optional_attr_before_dict_refuted :
  fmt_ok d_declare f_declare = false /\
  inst_ok d_declare w_declare = true /\
  roundtrip true d_declare f_declare w_declare closing = None.
Proof. exact optional_attr_before_dict_refuted. Qed.
Print Assumptions C05_optional_attr_before_dict_refuted.

(* Non-vacuity: the hypotheses of C05_sound hold for an instance of arith.addi (optional group,
   default-valued property in short syntax, inferred operand types, extra dictionary entry) followed
   by an operation that defines a value, and the round trip returns exactly that instance. *)
Theorem C05_sound_nonvacuous :
  fmt_ok (the_def "arith.addi") (the_fmt "arith.addi") = true /\
  inst_ok (the_def "arith.addi") w_addi = true /\
  side_ok false (the_fmt "arith.addi") w_addi = true /\
  rest_ok (the_def "arith.addi") (the_fmt "arith.addi") next_value = true /\
  roundtrip false (the_def "arith.addi") (the_fmt "arith.addi") w_addi next_value = Some (w_addi, next_value).
Proof. exact sound_nonvacuous. Qed.
Print Assumptions C05_sound_nonvacuous.
