(* Props/C09.v -- property C09: IRDL attribute constraints accept exactly what they describe.
   ONLY theorem statements closed by `exact` (+ Print Assumptions, + Examples by computation).
   Model: C09/Model.v.  Spec: `sat` (denotation), `wn` (well-named), `ctx_ok`, `le_env`,
   `valid_attr` in C09/Proofs.v; `good`, `hint_ok` in C09/ProofsGet.v.
   `final_leaf T` = a runtime-final class has no proper subclass. *)
From Coq Require Import List Arith ZArith Bool.
From XV Require Import Base.Show C09.Model C09.Proofs C09.ProofsGet C09.Enc C09.ProofsU.
Import ListNotations.

(* ---- verify accepts exactly the denotation -------------------------------------------------
   For every class table with final classes as leaves, every constraint tree whose AnyOf nodes
   passed their constructor checks and whose variable names each carry one inner constraint, every
   attribute and every consistent initial context: verify succeeds iff some assignment extending
   the context puts the attribute in the denotation; the context it returns extends the initial one,
   puts the attribute in the denotation, is consistent again, and is the LEAST such assignment. *)
Theorem C09_verify_denotes : forall T, final_leaf T -> forall G c a x,
  constructible T c = true -> wn G c -> ctx_ok T G x ->
  (verify_opt T c a x <> None <-> exists s, le_env (env_of x) s /\ sat T s c a) /\
  (forall x', verify_opt T c a x = Some x' ->
     le_env (env_of x) (env_of x') /\ sat T (env_of x') c a /\ ctx_ok T G x' /\
     forall s, le_env (env_of x) s -> sat T s c a -> le_env (env_of x') s).
Proof. exact verify_denotes. Qed.
Print Assumptions C09_verify_denotes.

(* from the empty context (AttrConstraint.verifies) *)
Theorem C09_verifies_denotes : forall T, final_leaf T -> forall G c a,
  constructible T c = true -> wn G c -> (verifies T c a = true <-> exists s, sat T s c a).
Proof. exact verifies_denotes. Qed.
Print Assumptions C09_verifies_denotes.

(* the two halves separately: completeness needs no naming discipline, soundness no constructor checks *)
Theorem C09_verify_complete : forall T, final_leaf T -> forall c, constructible T c = true ->
  forall a x s, le_env (env_of x) s -> sat T s c a ->
  exists x', verify T c a x = (true, x') /\ le_env (env_of x') s.
Proof. exact verify_complete. Qed.
Print Assumptions C09_verify_complete.

Theorem C09_verify_sound : forall T G c, wn G c -> forall a x x', ctx_ok T G x ->
  verify T c a x = (true, x') -> sat T (env_of x') c a /\ ctx_ok T G x'.
Proof. exact verify_sound. Qed.
Print Assumptions C09_verify_sound.

(* scope note: with one name carrying two different inner constraints the second one is never
   checked (the code only compares with the binding), so verify accepts outside the denotation *)
Theorem C09_verify_sound_needs_wellnamed : exists c a x',
  constructible U c = true /\ verify_opt U c a [] = Some x' /\ forall s, ~ sat U s c a.
Proof. exact illnamed_witness. Qed.
Print Assumptions C09_verify_sound_needs_wellnamed.

(* ---- get_bases ----------------------------------------------------------------------------- *)
Theorem C09_bases_sound : forall T, final_leaf T -> forall c s a b,
  sat T s c a -> bases T c = Some b -> In (cls a) b.
Proof. exact bases_sound. Qed.
Print Assumptions C09_bases_sound.

Theorem C09_bases_sound_verify : forall T, final_leaf T -> forall G c a x x' b,
  wn G c -> ctx_ok T G x -> verify_opt T c a x = Some x' -> bases T c = Some b -> In (cls a) b.
Proof. exact bases_sound_verify. Qed.
Print Assumptions C09_bases_sound_verify.

(* ---- constraint variables ------------------------------------------------------------------
   verify never changes or drops a binding (even when it fails); after a success every name in
   variables() is bound and every occurrence of a variable matched exactly the bound attribute
   (that is what `sat (env_of x')` says at CVar nodes). *)
Theorem C09_var_consistent : forall T G c a x,
  (forall b x', verify T c a x = (b, x') -> le_env (env_of x) (env_of x')) /\
  (wn G c -> ctx_ok T G x -> forall x', verify_opt T c a x = Some x' ->
     (forall n, In n (variables c) -> cget x' n <> None) /\ sat T (env_of x') c a).
Proof. exact var_consistent. Qed.
Print Assumptions C09_var_consistent.

(* ---- union simplification / merging --------------------------------------------------------
   AnyOf.get (flattening nested AnyOf, AnyAttr short-cut, relax_constraint merging of Eq/Set/Base/
   Param alternatives, final AnyOf constructor) and `|`: whenever they do not raise, the result
   denotes exactly the union of the alternatives; the model's loop fuel is never exhausted; the
   result's AnyOf nodes passed their constructor checks (so C09_verify_denotes applies to it). *)
Theorem C09_anyof_get_preserves : forall T cs r, anyof_get T cs = Ok r ->
  forall s a, sat T s r a <-> existsP (fun c => sat T s c a) cs.
Proof. exact anyof_get_sem. Qed.
Print Assumptions C09_anyof_get_preserves.

Theorem C09_or_preserves : forall T x y v, c_or T x y = Ok v ->
  forall s a, sat T s v a <-> sat T s x a \/ sat T s y a.
Proof. exact c_or_sem. Qed.
Print Assumptions C09_or_preserves.

Theorem C09_anyof_get_never_out_of_fuel : forall T cs, anyof_get T cs <> Err EFuel.
Proof. exact anyof_get_fuel. Qed.
Print Assumptions C09_anyof_get_never_out_of_fuel.

Theorem C09_anyof_get_constructible : forall T cs r,
  (forall c, In c cs -> constructible T c = true) -> anyof_get T cs = Ok r -> constructible T r = true.
Proof. exact constructible_get. Qed.
Print Assumptions C09_anyof_get_constructible.

(* ParamAttrConstraint.get (all-Eq -> EqAttrConstraint of the built attribute, all-Any -> BaseAttr):
   same denotation on every attribute whose instances of the class have as many parameters as
   there are constraints *)
Theorem C09_param_get_preserves : forall T,
  final_leaf T -> (forall k, sub T k k = true) ->
  forall k cs r, param_get T k cs = Ok r -> forall s a,
  (inst T a k = true -> exists k' ps, a = Par k' ps /\ length ps = length cs) ->
  (sat T s r a <-> sat T s (CParam k cs) a).
Proof. exact param_get_sem. Qed.
Print Assumptions C09_param_get_preserves.

(* ---- can_infer / infer ---------------------------------------------------------------------
   Full statement "can_infer -> the inferred attribute verifies" is REFUTED by the faithful model
   of the unchanged code (known findings C09-kf-1, C09-kf-2): *)
Theorem C09_infer_satisfies_refuted : exists c x v,
  constructible U c = true /\ can_infer U c (cdom x) = true /\
  infer U c x = Ok v /\ verify_opt U c v x = None.
Proof. exact infer_refuted_witness. Qed.
Print Assumptions C09_infer_satisfies_refuted.

Theorem C09_infer_raises_refuted : exists c x,
  constructible U c = true /\ can_infer U c (cdom x) = true /\ infer U c x = Err EVerify.
Proof. exact infer_raises_witness. Qed.
Print Assumptions C09_infer_raises_refuted.

(* strongest statement that holds: whenever SOME valid attribute satisfies the constraint under an
   assignment extending the context, infer returns exactly that attribute (so it is the only one)
   and verify accepts it *)
Theorem C09_infer_satisfies_partial : forall T, final_leaf T -> forall c x s a,
  constructible T c = true -> can_infer T c (cdom x) = true ->
  le_env (env_of x) s -> valid_attr T a -> sat T s c a ->
  infer T c x = Ok a /\ exists x', verify T c a x = (true, x').
Proof. exact infer_satisfies_partial. Qed.
Print Assumptions C09_infer_satisfies_partial.

(* the extra hypothesis is satisfiable (variable taken from the context, non-trivial class invariant) *)
Theorem C09_infer_partial_nonvacuous : exists c x a,
  constructible U c = true /\ can_infer U c (cdom x) = true /\ valid_attr U a /\
  sat U (env_of x) c a /\ infer U c x = Ok a.
Proof. exact infer_partial_witness. Qed.
Print Assumptions C09_infer_partial_nonvacuous.

(* ---- type hints ----------------------------------------------------------------------------
   irdl_to_attr_constraint(hint) (classes, unions, generic parametrized classes, Annotated) agrees
   with isa(attr, hint) whenever both return *)
Theorem C09_hint_agrees : forall T,
  final_leaf T -> (forall k, sub T k 0 = true) ->
  forall a h, hint_ok T h -> forall c b,
  hint_constr T h = Ok c -> isa T a h = Ok b -> verifies T c a = b.
Proof. exact hint_agrees. Qed.
Print Assumptions C09_hint_agrees.

(* ---- the class table of the correspondence check satisfies the hypotheses --------------------- *)
Theorem C09_table_hypotheses :
  final_leaf U /\ (forall k, sub U k k = true) /\ (forall k, sub U k 0 = true) /\
  (forall k, ntv U k <> 0 -> forallP (good U) (cdef U k)).
Proof. exact (conj U_final_leaf (conj U_refl (conj U_root U_generic_cdef_good))). Qed.
Print Assumptions C09_table_hypotheses.

(* ---- examples by computation ---------------------------------------------------------------- *)
(* Pair[Shape, IntAttr|StringAttr] with a variable shared between two positions *)
Example C09_ex_accept :
  verify_opt U (CAllOf [CParam 15 [CVar 0 (CBase 11); CAnyOf [CBase 3; CBase 4]];
                        CParam 15 [CVar 0 (CBase 11); CAny]])
             (Par 15 [Par 12 []; Data 4 1]) []
  = Some [(0, Par 12 [])].
Proof. vm_compute. reflexivity. Qed.
(* IntegerAttr[IntegerType] | IntegerAttr[IndexType] merges into one parametrized constraint *)
Example C09_ex_merge :
  anyof_get U [CParam 10 [CBase 3; CBase 9]; CParam 10 [CBase 3; CBase 6]]
  = Ok (CParam 10 [CBase 3; CAnyOf [CBase 9; CBase 6]]).
Proof. vm_compute. reflexivity. Qed.
(* TypeAttribute | IntegerType cannot be verified as disjoint: PyRDLError *)
Example C09_ex_pyrdl : anyof_get U [CBase 1; CBase 9] = Err EPyRDL.
Proof. vm_compute. reflexivity. Qed.
