(* Props/C14.v -- property C14: canonicalization, constant folding and CSE preserve program results.
   ONLY theorem statements closed by `exact` (+ Print Assumptions, + Examples by computation).

   (a) integer folds: statements about coq/Gen/C14_Arith.v, REGENERATED from /repo's working tree on every
       run (py_operation, is_right_unit, is_right_zero, normalized_value, IntegerAttr.__init__, fold, the
       integer/select/cmpi patterns).  Specification: C14/SpecInt.v (`sem`: MLIR semantics on bit patterns,
       None = undefined/poison).  All statements are for EVERY width w >= 1.
   (b) float folds: C14/ModelFloat.v against IEEE-754 (PrimFloat / SpecFloat).
   (c) CSE: C14/ModelCSE.v against the semantics C14/SpecCSE.v.
   Leave-in-place clause: models of constant-fold-interp and the test folding passes (C14/ModelInt.v). *)
From Coq Require Import ZArith Bool List PrimFloat SpecFloat FloatOps.
From XV Require Import C14.Pre Gen.C14_Arith C14.SpecInt C14.ModelInt C14.ProofsInt
                       C14.ModelFloat C14.ProofsFloat C14.ModelCSE C14.SpecCSE C14.ProofsCSE C14.SelCmpf.
Local Open Scope Z_scope.

(* ------------------------------------------------------------------ (a) integer folds *)

(* The constant produced by folding `o a b` (py_operation, then IntegerAttr(.., truncate_bits=True)) is the
   bit-exact MLIR result, for ANY integer representatives a, b of the operand bit patterns. *)
Theorem C14_fold_int : forall o w a b v, 1 <= w -> py_operation o a b = Some v ->
  sem o w (wrap w a) (wrap w b) = Some (wrap w v).
Proof. exact fold_int. Qed.
Print Assumptions C14_fold_int.

(* The stored attribute value has the folded bit pattern and is the signed representative. *)
Theorem C14_fold_int_attr : forall w v, 1 <= w ->
  wrap w (int_attr (TInt w) v true) = wrap w v /\
  - 2 ^ (w - 1) <= int_attr (TInt w) v true < 2 ^ (w - 1).
Proof. exact int_attr_trunc. Qed.
Print Assumptions C14_fold_int_attr.

(* unit / zero laws: whatever is_right_unit / is_right_zero accept is a unit / absorbing element of the MLIR
   operation (cases where the operation is undefined are excluded by `sem .. = Some r`) *)
Theorem C14_right_unit : forall o ty w a x r, 1 <= w -> ty_width ty w -> pattern_range w x ->
  is_right_unit o ty a = true -> sem o w x (wrap w a) = Some r -> r = x.
Proof. exact right_unit. Qed.
Print Assumptions C14_right_unit.

Theorem C14_left_unit : forall o ty w a x r, 1 <= w -> ty_width ty w -> pattern_range w x ->
  commutative o = true -> is_right_unit o ty a = true -> sem o w (wrap w a) x = Some r -> r = x.
Proof. exact left_unit. Qed.
Print Assumptions C14_left_unit.

Theorem C14_right_zero : forall o ty w a x r, 1 <= w -> ty_width ty w -> pattern_range w x ->
  is_right_zero o ty a = true -> sem o w x (wrap w a) = Some r -> r = wrap w a.
Proof. exact right_zero. Qed.
Print Assumptions C14_right_zero.

Theorem C14_commutative_trait_sound : forall o w x y, commutative o = true -> sem o w x y = sem o w y x.
Proof. exact sem_commutative. Qed.
Print Assumptions C14_commutative_trait_sound.

(* SignlessIntegerBinaryOperation.fold, ...ZeroOrUnitRight, ...ConstantProp: whenever they act, the value
   that replaces the result equals the value the operation would have computed. *)
Theorem C14_fold_sound : forall o ty w lhs_c rhs_c x y r, 1 <= w -> ty_width ty w ->
  pattern_range w x -> pattern_range w y -> is_const w lhs_c x -> is_const w rhs_c y ->
  sem o w x y = Some r ->
  fold o ty lhs_c rhs_c = NoChange \/ out_val w x y 0 (fold o ty lhs_c rhs_c) = Some r.
Proof. exact fold_sound. Qed.
Print Assumptions C14_fold_sound.

Theorem C14_zero_or_unit_right_sound : forall o ty w rhs_c x y r, 1 <= w -> ty_width ty w ->
  pattern_range w x -> pattern_range w y -> is_const w rhs_c y -> sem o w x y = Some r ->
  pat_zero_or_unit_right o ty rhs_c = NoChange \/ out_val w x y 0 (pat_zero_or_unit_right o ty rhs_c) = Some r.
Proof. exact zero_or_unit_right_sound. Qed.
Print Assumptions C14_zero_or_unit_right_sound.

Theorem C14_constant_prop_sound : forall o ty w lhs_c rhs_c x y r, 1 <= w -> ty_width ty w ->
  pattern_range w x -> pattern_range w y -> is_const w lhs_c x -> is_const w rhs_c y ->
  sem o w x y = Some r ->
  pat_constant_prop o ty lhs_c rhs_c = NoChange \/
  (pat_constant_prop o ty lhs_c rhs_c = NewSwapped /\ sem o w y x = Some r) \/
  out_val w x y 0 (pat_constant_prop o ty lhs_c rhs_c) = Some r.
Proof. exact constant_prop_sound. Qed.
Print Assumptions C14_constant_prop_sound.

(* select and cmpi patterns *)
Theorem C14_select_const_sound : forall a x y, i1_stored a ->
  out_val 1 x y (wrap 1 a) (pat_select_const (Some a)) = Some (select_sem (wrap 1 a) x y).
Proof. exact select_const_sound. Qed.
Print Assumptions C14_select_const_sound.

Theorem C14_select_true_false_sound : forall ty l r c, i1_stored l -> i1_stored r -> (c = 0 \/ c = 1) ->
  let o := pat_select_true_false ty (Some l) (Some r) in
  let s := select_sem c (wrap 1 l) (wrap 1 r) in
  o = NoChange \/ (o = ReplCond /\ s = c) \/ (o = NewXoriCondRhs /\ ty = TInt 1 /\ s = Z.lxor c (wrap 1 r)).
Proof. exact select_true_false_sound. Qed.
Print Assumptions C14_select_true_false_sound.

Theorem C14_select_same_sound : forall c x, out_val 1 x x c (pat_select_same true) = Some (select_sem c x x)
                                         /\ pat_select_same false = NoChange.
Proof. exact select_same_sound. Qed.
Print Assumptions C14_select_same_sound.

Theorem C14_cmpi_equal_operands_sound : forall pred w x b, 1 <= w -> cmpi_sem pred w x x = Some b ->
  exists v, pat_cmpi_equal_operands true pred = ReplConst v /\ i1_stored v /\ (negb (wrap 1 v =? 0)) = b.
Proof. exact cmpi_equal_operands_sound. Qed.
Print Assumptions C14_cmpi_equal_operands_sound.

(* a pattern that does not apply leaves the op alone; no pattern performs two actions on one op *)
Theorem C14_patterns_leave_in_place :
  pat_select_const None = NoChange /\
  (forall ty l r, (l = None \/ r = None) -> pat_select_true_false ty l r = NoChange) /\
  (forall pred, pat_cmpi_equal_operands false pred = NoChange) /\
  (forall o ty l r c s p,
     fold o ty l r <> Conflict /\ pat_zero_or_unit_right o ty r <> Conflict /\
     pat_constant_prop o ty l r <> Conflict /\ pat_select_const c <> Conflict /\
     pat_select_true_false ty l r <> Conflict /\ pat_select_same s <> Conflict /\
     pat_cmpi_equal_operands s p <> Conflict).
Proof.
  exact (conj select_const_nochange (conj select_true_false_nochange
          (conj cmpi_equal_operands_nochange no_conflict))).
Qed.
Print Assumptions C14_patterns_leave_in_place.

(* ------------------------------------------------------------------ (b) float folds *)

(* FULL STRENGTH (current code, after commit 3d73fc5): for ALL operands, signed zeros, infinities and NaN
   included, the folded binary64 constant is the IEEE-754 result bit for bit (Leibniz equality of primitive
   floats: signed zeros distinguished, one NaN) *)
Theorem C14_fold_f64 : forall op l r, fold_f64 op l r = ieee64 op l r.
Proof. exact fold_f64_full. Qed.
Print Assumptions C14_fold_f64.

Example C14_fold_f64_witnesses :
  fold_f64 FDiv 1 (-0) = neg_infinity /\ fold_f64 FDiv nan 0 = nan /\ fold_f64 FDiv (-1) 0 = neg_infinity /\
  fold_f64 FDiv (-1) (-0) = infinity.
Proof. exact fold_f64_fixed_witnesses. Qed.

(* binary32 (after commit 667d764): the fold never raises -- it is the binary64 result rounded to binary32 -- and
   is the correctly rounded binary32 result under the named double-rounding hypothesis *)
Theorem C14_fold_f32_total : forall op l r, fold_f32 op l r = round32 (Prim2SF (fold_f64 op l r)).
Proof. exact fold_f32_is_round. Qed.
Print Assumptions C14_fold_f32_total.

Theorem C14_fold_f32_partial :
  (forall op x y, valid32 x -> valid32 y ->
     round32 (Prim2SF (ieee64 op (f64_of_sf32 x) (f64_of_sf32 y))) = ieee32 op x y) ->
  forall op x y, valid32 x -> valid32 y -> fold_f32 op (f64_of_sf32 x) (f64_of_sf32 y) = ieee32 op x y.
Proof. exact fold_f32_full. Qed.
Print Assumptions C14_fold_f32_partial.

Example C14_fold_f32_overflow_witness :
  valid32 two127 /\ fold_f32 FAdd (f64_of_sf32 two127) (f64_of_sf32 two127) = S754_infinity false /\
  ieee32 FAdd two127 two127 = S754_infinity false.
Proof. exact fold_f32_fixed_witness. Qed.

(* recorded refutations of the code BEFORE the fixes (known_findings: fixed) *)
Theorem C14_fold_divf_old_refuted :
  (fold_f64_old FDiv 1 (-0) = infinity /\ (1 / (-0))%float = neg_infinity /\ infinity <> neg_infinity) /\
  (fold_f64_old FDiv nan 0 = infinity /\ (nan / 0)%float = nan /\ infinity <> nan).
Proof. exact (conj fold_f64_old_div_negzero_refuted fold_f64_old_div_nan_refuted). Qed.
Print Assumptions C14_fold_divf_old_refuted.

Theorem C14_fold_f32_overflow_old_refuted :
  valid32 two127 /\ fold_f32_old FAdd (f64_of_sf32 two127) (f64_of_sf32 two127) = None /\
  ieee32 FAdd two127 two127 = S754_infinity false.
Proof. exact fold_f32_old_overflow_refuted. Qed.
Print Assumptions C14_fold_f32_overflow_old_refuted.

(* SelectFoldCmpfPattern (select of a cmpf with fastmath nnan+nsz on the same operands IN THE SAME ORDER becomes
   maximumf / minimumf): for non-NaN operands the selected value is preserved up to the sign of a zero -- exactly
   the nnan / nsz contract; the pattern does nothing without both flags, on another condition, or when the select
   operands are in the other order (where the same rewrite would be wrong: last example) *)
Theorem C14_select_fold_cmpf_sound : forall is_cmpf nnan nsz pred x y b,
  x <> S754_nan -> y <> S754_nan -> cmpf_sem pred x y = Some b ->
  match pat_select_fold_cmpf is_cmpf nnan nsz true pred with
  | SCNoChange => True
  | SCMax => nsz_eq (fselect_sem b x y) (maximumf_sem x y)
  | SCMin => nsz_eq (fselect_sem b x y) (minimumf_sem x y)
  end.
Proof. exact select_fold_cmpf_sound. Qed.
Print Assumptions C14_select_fold_cmpf_sound.

Theorem C14_select_fold_cmpf_guards : forall pred so,
  pat_select_fold_cmpf false true true so pred = SCNoChange /\
  pat_select_fold_cmpf true false true so pred = SCNoChange /\
  pat_select_fold_cmpf true true false so pred = SCNoChange /\
  pat_select_fold_cmpf true true true false pred = SCNoChange.
Proof. exact select_fold_cmpf_guards. Qed.
Print Assumptions C14_select_fold_cmpf_guards.

Example C14_select_fold_cmpf_order_matters :
  let x := S754_finite false 1 0 in let y := S754_finite false 1 1 in
  cmpf_sem 2 x y = Some false /\ fselect_sem false y x = x /\ maximumf_sem y x = y /\ ~ nsz_eq x y /\
  pat_select_fold_cmpf true true true false 2 = SCNoChange.
Proof. exact select_fold_cmpf_swapped_would_be_wrong. Qed.

(* ------------------------------------------------------------------ (c) CSE *)

(* For every semantics of the operations that respects their declared memory-effect traits (sem_ok) and
   returns as many values as the op has results, every SSA-well-formed program returns the same values and
   leaves the same memory after CSE, from every environment, arguments and memory. *)
Theorem C14_cse_preserves :
  forall (val mem : Type)
         (osem : nat -> list val -> list (rden val mem) -> mem -> list val * mem)
         (mden : nat -> list val -> rden val mem)
         (eff_of : nat -> eff) (meff_of : nat -> effs) (req : regions -> regions -> bool),
    sem_ok val mem osem mden eff_of meff_of req ->
    forall arity : nat -> nat,
    (forall k a ds m, length (fst (osem k a ds m)) = arity k) ->
    forall (free : list vid) (r r' : region),
      wf_program free r = true -> arity_ok arity r = true ->
      cse eff_of meff_of req r = Some r' ->
      forall e vs m, den_region val mem osem mden r' e vs m = den_region val mem osem mden r e vs m.
Proof. exact cse_preserves. Qed.
Print Assumptions C14_cse_preserves.

(* the erasures committed at the end never fail (Rewriter.erase_op's "still has uses" ValueError) *)
Theorem C14_cse_never_raises :
  forall eff_of meff_of req (arity : nat -> nat) (free : list vid) (r : region),
    wf_program free r = true -> arity_ok arity r = true -> cse eff_of meff_of req r <> None.
Proof. exact cse_never_raises. Qed.
Print Assumptions C14_cse_never_raises.

(* non-vacuity: duplicates removed, the read after a write kept *)
Example C14_cse_nonvacuous :
  wf_program nil ex_p = true /\ arity_ok ex_arity ex_p = true /\ cse ex_eff ex_meff ex_req ex_p = Some ex_q.
Proof. exact cse_example. Qed.

(* ------------------------------------------------------------------ leave-in-place clause *)

(* FULL STRENGTH (current code: pass fix af5e19c + interpreter fixes 4351108, 6674019, 2cae97b): constant-fold-interp
   never aborts on a binary integer op with constant operands -- whatever the op, the type and the constants --
   and when it folds, the constant is the MLIR result *)
Theorem C14_leave_in_place : forall o ty a b e, cfi_binop o ty a b <> Raised e.
Proof. exact cfi_never_raises. Qed.
Print Assumptions C14_leave_in_place.

Theorem C14_cfi_value_sound : forall o w a b v r, 1 <= w -> canonical w a -> canonical w b ->
  cfi_binop o (TInt w) a b = Folded v -> sem o w (wrap w a) (wrap w b) = Some r -> wrap w v = r.
Proof. exact cfi_value_sound_new. Qed.
Print Assumptions C14_cfi_value_sound.

Example C14_leave_in_place_witnesses :
  cfi_binop ShLIOp (TInt 8) 100 2 = Folded (-112) /\ wrap 8 (-112) = 144 /\
  cfi_binop FloorDivSIOp (TInt 8) 7 0 = Unchanged /\
  cfi_binop ShLIOp (TInt 8) 1 (-1) = Unchanged /\ cfi_binop AddiOp (TInt 8) 100 100 = Folded (-56).
Proof. exact cfi_fixed_witnesses. Qed.

Theorem C14_cfi_cmpi_never_raises : forall pred ty a b e, cfi_cmpi pred ty a b <> Raised e.
Proof. exact cfi_cmpi_never_raises. Qed.
Print Assumptions C14_cfi_cmpi_never_raises.

(* after the interpreter fix e4f2eb2: cmpi eq / ne / signed predicates fold to the MLIR result for ANY stored
   representatives of the operand bit patterns *)
Theorem C14_cfi_cmpi_signed : forall pred w a b v r, 1 <= w -> pred < 6 ->
  cfi_cmpi pred (TInt w) a b = Folded v -> cmpi_sem pred w (wrap w a) (wrap w b) = Some r ->
  i1_stored v /\ negb (wrap 1 v =? 0) = r.
Proof. exact cfi_cmpi_signed_sound. Qed.
Print Assumptions C14_cfi_cmpi_signed.

(* STILL REFUTED (interpreter fix C15-5 not applied; known finding C14-kf-4): an unsigned predicate is folded
   by comparing the raw stored values *)
Theorem C14_cfi_cmpi_refuted :
  cfi_cmpi 6 (TInt 8) 100 (-3) = Folded 0 /\ cmpi_sem 6 8 (wrap 8 100) (wrap 8 (-3)) = Some true.
Proof. exact cfi_cmpi_refuted. Qed.
Print Assumptions C14_cfi_cmpi_refuted.

(* the strongest statement for the unsigned predicates: canonical constants of equal sign *)
Theorem C14_cfi_cmpi_partial : forall pred w a b v r, 1 <= w -> canonical w a -> canonical w b ->
  (pred < 6 \/ (0 <= a /\ 0 <= b) \/ (a < 0 /\ b < 0)) ->
  cfi_cmpi pred (TInt w) a b = Folded v -> cmpi_sem pred w (wrap w a) (wrap w b) = Some r ->
  i1_stored v /\ negb (wrap 1 v =? 0) = r.
Proof. exact cfi_cmpi_sound_partial. Qed.
Print Assumptions C14_cfi_cmpi_partial.

(* recorded: before e4f2eb2 eq compared representatives (index constants 2^64-1 and -1 have equal bits) *)
Example C14_cfi_cmpi_index_fixed :
  cfi_cmpi_old 0 18446744073709551615 (-1) = Folded 0 /\ cfi_cmpi 0 TIndex 18446744073709551615 (-1) = Folded (-1).
Proof. exact cfi_cmpi_index_fixed. Qed.

(* FULL STRENGTH (current code, after commit 20a3e4d): test-constant-folding never raises, leaves an addi with a
   non-constant operand alone, and folds two constants to the wrapped, canonical sum *)
Theorem C14_test_folding :
  (forall ty l r e, tcf_addi ty l r <> Raised e) /\
  (forall ty l r, (forall a, l <> OConst a) \/ (forall b, r <> OConst b) -> tcf_addi ty l r = Unchanged) /\
  (forall w a b, 1 <= w ->
     exists v, tcf_addi (TInt w) (OConst a) (OConst b) = Folded v /\ wrap w v = wrap w (a + b) /\ canonical w v).
Proof. exact (conj tcf_never_raises (conj tcf_leaves_non_constants tcf_value)). Qed.
Print Assumptions C14_test_folding.

(* STILL REFUTED (known finding C14-kf-6): the hand-specialised benchmark variant keeps its asserts *)
Theorem C14_test_specialised_folding_refuted :
  tscf_addi (OConst 100) OArg = Raised EXC_Other /\ tscf_addi OOp (OConst 1) = Raised EXC_Assertion.
Proof. exact tscf_refuted. Qed.
Print Assumptions C14_test_specialised_folding_refuted.

(* recorded refutations of the code BEFORE the fixes (known_findings: fixed), with the exact characterisation
   of when the old pass raised *)
Theorem C14_leave_in_place_old_refuted :
  (cfi_binop_old ShLIOp (TInt 8) 100 2 = Raised EXC_Verify /\ sem ShLIOp 8 (wrap 8 100) (wrap 8 2) = Some 144) /\
  cfi_binop_old FloorDivSIOp (TInt 8) 7 0 = Raised EXC_Assertion.
Proof. exact (conj cfi_shli_refuted cfi_floordivsi_refuted). Qed.
Print Assumptions C14_leave_in_place_old_refuted.

Theorem C14_leave_in_place_old_partial : forall o w a b, 1 <= w -> canonical w a -> canonical w b ->
  ((exists e, cfi_binop_old o (TInt w) a b = Raised e) <->
   (o = ShLIOp /\ (b < 0 \/ in_signless_range w (Z.shiftl a b) = false)) \/
   (o = ShRSIOp /\ b < 0) \/
   ((o = RemSIOp \/ o = FloorDivSIOp) /\ b = 0)).
Proof. exact cfi_raises_iff. Qed.
Print Assumptions C14_leave_in_place_old_partial.

Theorem C14_test_folding_old_refuted :
  tcf_addi_old (TInt 8) (OConst 100) OArg = Raised EXC_Other /\
  tcf_addi_old (TInt 8) (OConst 100) OOp = Raised EXC_Assertion /\
  tcf_addi_old (TInt 8) (OConst (-100)) (OConst (-100)) = Raised EXC_Verify.
Proof. exact tcf_refuted. Qed.
Print Assumptions C14_test_folding_old_refuted.
