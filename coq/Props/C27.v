(* Props/C27.v -- PDL patterns act the same interpreted or compiled to pdl_interp.
   Only statements closed by `exact`, the refutation witnesses of the code as found (vm_compute) and
   non-vacuity examples.  Definitions: C27/Model.v (executable model of interpreters/pdl.py, of the single-pattern
   conversion and of interpreters/pdl_interp.py); Spec: position semantics eval_pos / seq_eval in
   C27/ProofsChain.v, side conditions in C27/ProofsMatch.v and C27/Proofs.v. *)
From Coq Require Import ZArith List Bool.
From XV Require Import Base.Show C27.Model C27.Enc C27.ProofsChain C27.ProofsOrder C27.ProofsMatch C27.ProofsGuard C27.ProofsTotal C27.Proofs C27.ProofsEnv C27.ProofsRewrite C27.ProofsRewriteFull C27.ProofsRewriteTop.
Import ListNotations.
Local Open Scope Z_scope.

(* The matcher the conversion generates for ANY ordered predicate list and ANY list of positions used by the
   rewriter, run by the pdl_interp abstract machine from the root operation, computes exactly the sequential
   evaluation of the predicates under the position semantics (first false -> no match, first failed
   assertion -> raise, all true -> record_match with the denotations of the used positions). *)
Theorem C27_chain_is_sequential_evaluation : forall fx pl root preds used,
  run_matcher fx pl [(0, OOp root)] (gen_matcher preds used) = seq_eval fx pl root preds used.
Proof. exact chain_sound. Qed.
Print Assumptions C27_chain_is_sequential_evaluation.

(* The ordering step (frequency / depth / cost sort with de-duplication) keeps exactly the extracted predicates. *)
Theorem C27_ordering_keeps_predicates : forall preds x, In x (ordered preds) <-> In x preds.
Proof. exact ordered_In. Qed.
Print Assumptions C27_ordering_keeps_predicates.

(* C27_match_equiv, the strongest form that holds of the code as found and of every combination of the
   proposed repairs (fx).  Under Proofs.match_side_conditions, i.e.
     - every constant attribute constraint is truthy                    (or repair C27-1 is present)
     - no payload operation has one name in attributes and properties   (or repair C27-6)
     - the payload is well-formed SSA and every operation reached through pdl.result declares ONE result
                                                                         (or repair C27-2)
     - every pdl.operation / pdl.result value occurs once in the tree, no pdl.result value is re-used,
       every pdl.result index lies within the declared result types,
   the direct matcher never raises, it succeeds exactly when the converted matcher reaches record_match, and
   every pattern value it binds equals the denotation of the position the conversion recorded for it (these
   denotations are what record_match hands to the rewriter). *)
Theorem C27_match_equiv_partial : forall fx P pl x c,
  match_side_conditions fx P pl ->
  find_op pl (o_id x) = Some x ->
  compile fx P = Some c ->
  match pdl_match fx P pl x with
  | MOk e => (exists args, interp_match fx c pl x = IMatch args) /\
             (forall k v p, klookup e k = Some v -> klookup (snd (extract fx P)) k = Some p ->
                            eval_pos fx pl (o_id x) p = Some v)
  | MFail => forall args, interp_match fx c pl x <> IMatch args
  | MErr => False
  end.
Proof. exact match_equiv. Qed.
Print Assumptions C27_match_equiv_partial.

(* ... and with every proposed repair present only the static shape of the pattern remains as side condition. *)
Theorem C27_match_equiv_repaired : forall P pl x c seen',
  lin_op (p_root P) [] = Some seen' -> idx_op false (p_root P) ->
  find_op pl (o_id x) = Some x ->
  compile repaired P = Some c ->
  match pdl_match repaired P pl x with
  | MOk e => (exists args, interp_match repaired c pl x = IMatch args) /\
             (forall k v p, klookup e k = Some v -> klookup (snd (extract repaired P)) k = Some p ->
                            eval_pos repaired pl (o_id x) p = Some v)
  | MFail => forall args, interp_match repaired c pl x <> IMatch args
  | MErr => False
  end.
Proof. exact match_equiv_repaired. Qed.
Print Assumptions C27_match_equiv_repaired.

(* The converted matcher never raises: `compile_guarded` is an executable static check of the ordered chain
   (every get_operand / get_result / get_attribute / check_* on an operation and every get_value_type on a value
   comes after the is_not_null of that operation / value); the harness evaluates it on the model's compiled chain
   of every generated and corpus pattern (it has never been false), and a chain that passes it cannot raise on
   any payload.  Together with C27_match_equiv_partial: when the direct matcher fails, the converted one falls
   through to finalize (no match, no exception). *)
Theorem C27_matcher_never_raises : forall fx P pl x c,
  compile_guarded fx P = true -> find_op pl (o_id x) = Some x -> compile fx P = Some c ->
  interp_match fx c pl x <> IErr.
Proof. exact compile_guarded_no_raise. Qed.
Print Assumptions C27_matcher_never_raises.

(* C27_compile_total: the (modelled) conversion never fails on a pattern of the restricted language whose rewrite
   part only refers to values that exist -- locals defined by an earlier statement, constants, match-part values
   reached by the match tree (`rewrite_refs_ok`, executable).  The only failure of the real conversion in the
   language is the assertion "Expected value to be a pattern input". *)
Theorem C27_compile_total : forall fx P, rewrite_refs_ok fx P = true -> exists c, compile fx P = Some c.
Proof. exact compile_total. Qed.
Print Assumptions C27_compile_total.

(* C27_rewrite_equiv, partial form, for every configuration in which pdl_interp.erase is implemented and type
   ranges / result-type inference are handled (repairs C27-4, C27-5; the other repair flags arbitrary, with the
   side conditions of the match theorem).  Exact hypotheses:
     - the executable static check rewrite_static_ok: the conversion recorded all pattern values at pairwise
       different positions (none of them a rewrite-local value), the rewriter function has as many arguments as
       record_match hands over positions (evaluated by the harness on every generated and corpus pattern);
     - the direct application does not raise.
   Then: if the direct application rewrites the payload into plF, the converted matcher + rewriter produce exactly
   plF (new operations get the same ids in both models, so "up to fresh ids" is plain equality); and if the direct
   pattern does not match, neither does the converted one (and it does not raise).
   Not covered: the case in which the direct rewrite raises (ill-typed rewrites, where the converted path may go on:
   pdl.result index beyond the declared results, replacement with results for a root without results). *)
Theorem C27_rewrite_equiv_partial : forall fx P pl x c plF,
  fx_erase fx = true -> fx_range fx = true -> fx_infer fx = true ->
  match_side_conditions fx P pl -> rewrite_static_ok fx P = true ->
  find_op pl (o_id x) = Some x -> compile fx P = Some c ->
  pdl_apply fx P pl (o_id x) = ROk plF -> interp_apply fx c pl (o_id x) = ROk plF.
Proof. exact rewrite_equiv_partial. Qed.
Print Assumptions C27_rewrite_equiv_partial.

Theorem C27_no_match_equiv : forall fx P pl x c,
  match_side_conditions fx P pl -> compile_guarded fx P = true ->
  find_op pl (o_id x) = Some x -> compile fx P = Some c ->
  pdl_apply fx P pl (o_id x) = RNoMatch -> interp_apply fx c pl (o_id x) = RNoMatch.
Proof. exact apply_nomatch. Qed.
Print Assumptions C27_no_match_equiv.

(* ... and with every repair present (the current tree): only static, executable conditions on the pattern remain *)
Theorem C27_rewrite_equiv_repaired : forall P pl x c seen',
  lin_op (p_root P) [] = Some seen' -> idx_op false (p_root P) ->
  rewrite_static_ok repaired P = true -> compile_guarded repaired P = true ->
  find_op pl (o_id x) = Some x -> compile repaired P = Some c ->
  (forall plF, pdl_apply repaired P pl (o_id x) = ROk plF -> interp_apply repaired c pl (o_id x) = ROk plF) /\
  (pdl_apply repaired P pl (o_id x) = RNoMatch -> interp_apply repaired c pl (o_id x) = RNoMatch).
Proof. exact rewrite_equiv_repaired. Qed.
Print Assumptions C27_rewrite_equiv_repaired.

(* C27_rewrite_equiv in full (every outcome: rewritten payload, no match, exception) for the rewrites the executable
   check rewrite_frag_ok accepts: a pdl.result in the rewrite part only of a new operation whose result count
   (declared types, or inferred from the replaced root) covers the index; no empty replacement list; for a root
   without declared result types a replacement operation that has no results; every match-part value the rewrite
   reads is reached by the match tree; no pdl.result after the replace / erase.  What stays outside are ill-typed
   rewrites, on which the two paths differ on the real code as well (pdl.result index beyond the results of the new
   operation: IndexError vs null value; replacement with results for a root without results: ValueError vs erase);
   for those only C27_rewrite_equiv_partial (direction "the direct application rewrites") applies. *)
Theorem C27_rewrite_equiv : forall fx P pl x c,
  fx_erase fx = true -> fx_range fx = true -> fx_infer fx = true ->
  match_side_conditions fx P pl -> rewrite_static_ok fx P = true -> compile_guarded fx P = true ->
  rewrite_frag_ok fx P = true ->
  find_op pl (o_id x) = Some x -> compile fx P = Some c ->
  pdl_apply fx P pl (o_id x) = interp_apply fx c pl (o_id x).
Proof. exact rewrite_equiv_full. Qed.
Print Assumptions C27_rewrite_equiv.

(* the core of it: statement-by-statement simulation of the generated rewriter function against the direct rewrite,
   for ANY rewriter arguments that are the direct bindings of the values they translate *)
Theorem C27_rewriter_simulates_direct_rewrite :
  forall fx P inp rootpat pid e0 regs0 usedF,
  fx_erase fx = true -> fx_range fx = true -> fx_infer fx = true ->
  (forall l, klookup inp (KLocal l) = None) ->
  (forall k1 k2 p, klookup inp k1 = Some p -> klookup inp k2 = Some p -> k1 = k2) ->
  (forall k p j, klookup inp k = Some p -> znth usedF j = Some p ->
                 exists v, klookup e0 k = Some v /\ rrlookup regs0 (RA j) = Some v) ->
  (forall a c v, p_aconst P a = Some c -> klookup e0 (KAttr a) = Some v -> v = OAttr c) ->
  (forall t c v, p_tconst P t = Some c -> klookup e0 (KType t) = Some v -> v = OType c) ->
  klookup e0 (KOp (op_id rootpat)) = Some (OOp pid) ->
  forall l st stF code e regs pl plF,
  Inv inp e0 regs0 e st regs -> gen_stmts fx P inp rootpat st l = Some (stF, code) -> pre (rg_used stF) usedF ->
  RI rootpat pid pl ->
  run_rw fx pid l e pl = ROk plF ->
  run_rewriter fx pid (code ++ [RFinalize]) regs pl = ROk plF.
Proof. exact stmts_sim. Qed.
Print Assumptions C27_rewriter_simulates_direct_rewrite.

(* as found: the constant attribute 0 : i32 is dropped by the conversion; the converted matcher rewrites an operation the direct one rejects.  With the repairs both agree *)
Theorem C27_match_equiv_refuted_falsy_constant :
  exists P pl pid, outcome_pair as_found P pl pid = Some (0, 1) /\ same_result repaired P pl pid.
Proof.
  exists (Build_pattern (fun v => match v with | _ => None end) (fun v => match v with | 0 => Some 0 | _ => None end) (fun v => match v with | _ => None end) (Op 0 (Some 0) (cons (0, 0) nil) nil (cons 0 nil)) (cons (SType 0 1) (cons (SOp 1 1 nil nil (cons (TL 0) nil)) (cons (SReplaceOp 1) nil)))).
  exists (Build_payload nil (cons (mkop 0 0 nil (cons (0, 1) nil) nil (cons 0 nil)) nil)).
  exists 0. split; vm_compute; reflexivity.
Qed.
Print Assumptions C27_match_equiv_refuted_falsy_constant.

(* as found: the direct matcher accepts an operand that is result 0 where the pattern asks for result 1 of the operation *)
Theorem C27_match_equiv_refuted_result_index :
  exists P pl pid, outcome_pair as_found P pl pid = Some (1, 0) /\ same_result repaired P pl pid.
Proof.
  exists (Build_pattern (fun v => match v with | _ => None end) (fun v => match v with | _ => None end) (fun v => match v with | _ => None end) (Op 1 (Some 1) nil (cons (ORes 0 1 (Op 0 (Some 0) nil nil (cons 0 (cons 0 nil)))) nil) nil) (cons (SOp 0 2 (cons (VMr 0) nil) nil nil) (cons (SReplaceOp 0) nil))).
  exists (Build_payload nil (cons (mkop 0 0 nil nil nil (cons 0 (cons 0 nil))) (cons (mkop 1 1 (cons (VRes 0 0) nil) nil nil nil) nil))).
  exists 1. split; vm_compute; reflexivity.
Qed.
Print Assumptions C27_match_equiv_refuted_result_index.

(* as found: a pdl.result value used for two operands is compared by the direct matcher only *)
Theorem C27_match_equiv_refuted_result_reuse :
  exists P pl pid, outcome_pair as_found P pl pid = Some (0, 1) /\ same_result repaired P pl pid.
Proof.
  exists (Build_pattern (fun v => match v with | _ => None end) (fun v => match v with | _ => None end) (fun v => match v with | _ => None end) (Op 1 (Some 1) nil (cons (ORes 0 0 (Op 0 (Some 0) nil nil (cons 0 nil))) (cons (OReuse 0) nil)) (cons 1 nil)) (cons (SReplaceVals (cons (VMr 0) nil)) nil)).
  exists (Build_payload nil (cons (mkop 0 0 nil nil nil (cons 0 nil)) (cons (mkop 1 0 nil nil nil (cons 0 nil)) (cons (mkop 2 1 (cons (VRes 0 0) (cons (VRes 1 0) nil)) nil nil (cons 0 nil)) nil)))).
  exists 2. split; vm_compute; reflexivity.
Qed.
Print Assumptions C27_match_equiv_refuted_result_reuse.

(* as found: pdl_interp.erase has no implementation; the converted rewriter raises where the direct one erases *)
Theorem C27_rewrite_equiv_refuted_erase :
  exists P pl pid, outcome_pair as_found P pl pid = Some (1, 2) /\ same_result repaired P pl pid.
Proof.
  exists (Build_pattern (fun v => match v with | _ => None end) (fun v => match v with | 0 => Some 1 | _ => None end) (fun v => match v with | _ => None end) (Op 0 (Some 0) (cons (0, 0) nil) nil nil) (cons SErase nil)).
  exists (Build_payload nil (cons (mkop 0 0 nil (cons (0, 1) nil) nil nil) (cons (mkop 1 0 nil (cons (0, 2) nil) nil nil) nil))).
  exists 0. split; vm_compute; reflexivity.
Qed.
Print Assumptions C27_rewrite_equiv_refuted_erase.

(* as found: result types of a replacement operation without declared types are inferred through get_value_type of a range, which asserts *)
Theorem C27_rewrite_equiv_refuted_typeless_replacement :
  exists P pl pid, outcome_pair as_found P pl pid = Some (1, 2) /\ same_result repaired P pl pid.
Proof.
  exists (Build_pattern (fun v => match v with | _ => None end) (fun v => match v with | 0 => Some 0 | _ => None end) (fun v => match v with | _ => None end) (Op 0 (Some 0) (cons (0, 0) nil) nil nil) (cons (SAttr 0 1) (cons (SOp 1 0 nil (cons (0, AL 0) nil) nil) (cons (SReplaceOp 1) nil)))).
  exists (Build_payload nil (cons (mkop 0 0 nil (cons (0, 0) nil) nil nil) nil)).
  exists 0. split; vm_compute; reflexivity.
Qed.
Print Assumptions C27_rewrite_equiv_refuted_typeless_replacement.

(* as found: a name present in attributes and properties is read from different dictionaries by the two paths *)
Theorem C27_match_equiv_refuted_attr_and_prop :
  exists P pl pid, outcome_pair as_found P pl pid = Some (1, 0) /\ same_result repaired P pl pid.
Proof.
  exists (Build_pattern (fun v => match v with | _ => None end) (fun v => match v with | 0 => Some 1 | _ => None end) (fun v => match v with | _ => None end) (Op 0 (Some 0) (cons (2, 0) nil) nil (cons 0 nil)) (cons (SType 0 1) (cons (SOp 1 1 nil nil (cons (TL 0) nil)) (cons (SReplaceOp 1) nil)))).
  exists (Build_payload nil (cons (mkop 0 0 nil (cons (2, 2) nil) (cons (2, 1) nil) (cons 0 nil)) nil)).
  exists 0. split; vm_compute; reflexivity.
Qed.
Print Assumptions C27_match_equiv_refuted_attr_and_prop.

(* non-vacuity: a two-level pattern with a shared operand, a typed operand, attribute constraints and two
   results satisfies the side conditions of the code as found, matches, and both paths give the same IR *)
Definition ex_pattern : pattern :=
  Build_pattern (fun v => match v with 0 => Some 0 | _ => None end)
                (fun v => match v with 0 => Some 1 | _ => None end)
                (fun v => match v with 1 => Some 1 | _ => None end)
                (Op 1 (Some 1) (cons (0, 0) nil)
                    (cons (OFree 0) (cons (ORes 0 0 (Op 0 (Some 0) (cons (2, 1) nil) (cons (OFree 0) (cons (OFree 1) nil)) (cons 1 nil))) nil))
                    (cons 1 (cons 0 nil)))
                (cons (SType 0 1) (cons (SOp 1 2 (cons (VMo 0) (cons (VMr 0) nil)) (cons (0, AMa 0) nil) (cons (TMt 1) (cons (TL 0) nil)))
                 (cons (SReplaceOp 1) nil))).
Definition ex_payload : payload :=
  Build_payload (cons 2 (cons 3 nil))
    (cons (mkop 0 0 (cons (VArg 0) (cons (VArg 1) nil)) nil (cons (2, 5) nil) (cons 3 nil))
    (cons (mkop 1 1 (cons (VArg 0) (cons (VRes 0 0) nil)) (cons (0, 1) nil) nil (cons 3 (cons 0 nil)))
    (cons (mkop 2 3 (cons (VRes 1 0) (cons (VRes 1 1) nil)) nil nil nil) nil))).
Example C27_example_applies : outcome_pair as_found ex_pattern ex_payload 1 = Some (1, 1) /\ same_result as_found ex_pattern ex_payload 1.
Proof. split; vm_compute; reflexivity. Qed.
Print Assumptions C27_example_applies.
Example C27_example_side_conditions_static :
  (exists seen', lin_op (p_root ex_pattern) [] = Some seen') /\ idx_op true (p_root ex_pattern).
Proof. split; [eexists; vm_compute; reflexivity | vm_compute; intuition (try discriminate; try reflexivity)]. Qed.
Print Assumptions C27_example_side_conditions_static.
Example C27_example_guarded : compile_guarded as_found ex_pattern = true /\ compile_guarded repaired ex_pattern = true.
Proof. split; vm_compute; reflexivity. Qed.
Print Assumptions C27_example_guarded.
Example C27_example_refs_ok : rewrite_refs_ok as_found ex_pattern = true.
Proof. vm_compute. reflexivity. Qed.
Print Assumptions C27_example_refs_ok.
Example C27_example_rewrite_static_ok : rewrite_static_ok repaired ex_pattern = true /\ rewrite_static_ok as_found ex_pattern = true.
Proof. split; vm_compute; reflexivity. Qed.
Print Assumptions C27_example_rewrite_static_ok.
Example C27_example_frag_ok : rewrite_frag_ok repaired ex_pattern = true.
Proof. vm_compute. reflexivity. Qed.
Print Assumptions C27_example_frag_ok.
