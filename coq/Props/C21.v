(* Props/C21.v -- property C21: x86 backend code computes the source results and honours the SysV ABI.
   ONLY theorem statements closed by `exact` (+ Print Assumptions).
   Specs (C21/Spec.v): src_sem (two's complement semantics of the source function), sysv_* (SysV AMD64 facts
   written down independently of the generated tables).  Machine: C21/Model.v part 1.
   entry_ok / stack_args_ok / frame_hyps / body_ok: C21/ProofsAbi.v.  alloc_ok (the C19 hypothesis): Model.v. *)
From Coq Require Import ZArith List Bool.
From XV Require Import Gen.C21_tables C21.Model C21.Spec C21.ProofsMachine C21.ProofsLower C21.ProofsSim
  C21.ProofsAbi C21.ProofsRefute.
Import ListNotations.
Local Open Scope Z_scope.

(* the tables extracted from the source on this run are the SysV facts *)
Theorem C21_tables_match_sysv :
  c21_arg_regs = sysv_arg_regs /\ c21_ret_reg = sysv_ret_reg /\ c21_callee_saved = sysv_callee_saved
  /\ c21_stack_slot = 8 /\ c21_max_reg_args = 6 /\ c21_pop_reversed = true /\ c21_binop_copies_rhs = true.
Proof. exact tables_match_sysv. Qed.
Print Assumptions C21_tables_match_sysv.

(* ArithBinaryToX86: for every entry of X86_OP_BY_ARITH_BINARY_OP, at every width, for all register contents,
   `mov t, rhs ; op t, lhs` leaves lhs op rhs (mod 2^w) in t and changes nothing else *)
Theorem C21_binop_lowering_sound : forall o xo, lookup_binop o = Some xo ->
  forall w s a b t, t <> a ->
    exists s', exec [IMovRR w t b; xinstr xo w t a] s = Running s'
      /\ low w (regs s' t) = low w (bop_eval o (low w (regs s a)) (low w (regs s b)))
      /\ (forall r, r <> t -> regs s' r = regs s r) /\ mem s' = mem s.
Proof. exact binop_table_sound. Qed.
Print Assumptions C21_binop_lowering_sound.

(* guard: the copy-rhs scheme is wrong for subtraction (an entry SubiOp -> RS_SubOp would break the proof above) *)
Theorem C21_sub_scheme_unsound : ~ binop_sound BSub XSub.
Proof. exact sub_scheme_unsound. Qed.
Print Assumptions C21_sub_scheme_unsound.

(* dead source operations never influence the result (they are what the rewrite drivers erase) *)
Theorem C21_dead_code_irrelevant : forall p raw, src_sem p raw <> None -> src_sem (neutralize p) raw = src_sem p raw.
Proof. exact src_sem_neutralize. Qed.
Print Assumptions C21_dead_code_irrelevant.

(* LowerFuncOp + ArithConstantToX86 + ArithBinaryToX86 + RS_Add_Zero + dce: the x86 IR computes the source value
   (SSA level, before allocation), from any initial environment *)
Theorem C21_lowering_computes_source : forall q f raw e0 res,
  lower_strict q = Some f -> src_sem q raw = Some res -> vsem (sp_w q) raw e0 f = res.
Proof. exact lower_strict_sound. Qed.
Print Assumptions C21_lowering_computes_source.

(* THE PIPELINE.  For every program the modelled pipeline accepts, every allocation satisfying alloc_ok, every
   SysV entry state and every raw argument vector: the emitted instruction list returns to the caller's return
   address with rsp = entry rsp + 8, the low w bits of rax are the source result, and (64-bit values, or a
   prologue pass that recognises narrow register names) every callee-saved register is restored -- PROVIDED
   stack_args_ok: the pass rebases rsp-relative offsets, or no stack-passed argument is read, or nothing is pushed *)
Theorem C21_returns_source_value_partial : forall ver p f alloc raw entry_rsp ra s0 res,
  c21_lower p = Some f -> src_sem p raw = Some res -> alloc_ok alloc f = true ->
  entry_ok (sp_nargs p) raw entry_rsp ra s0 ->
  stack_args_ok ver (sp_w p) alloc f ->
  exists sf, exec (c21_finish ver (sp_w p) alloc f) s0 = Returned sf ra
    /\ regs sf RSP = entry_rsp + 8
    /\ (forall v, res = Some v -> low (sp_w p) (regs sf RAX) = v)
    /\ ((sp_w p = W64 \/ v_by_index ver = true) -> forall r, In r sysv_callee_saved -> regs sf r = regs s0 r).
Proof. exact pipeline_correct. Qed.
Print Assumptions C21_returns_source_value_partial.

(* the extra hypothesis is satisfiable by a program that pushes rbx (three arguments, five live values) *)
Example C21_partial_nonvacuous :
  let p := Enc.zprog 64 3 [Enc.ZC 5; Enc.ZB 1 0 1; Enc.ZB 2 4 2; Enc.ZB 1 5 3; Enc.ZB 1 6 0] 7 in
  let f := the_func p in
  let alloc := Enc.alloc_of f [1; 9; 8; 3; 9; 9; 8; 8; 3; 3; 1; 1] in
  c21_lower p = Some f /\ alloc_ok alloc f = true /\ pushed unrepaired W64 alloc f = [3]
  /\ has_stk (vf_defs f) = false.
Proof. vm_compute. repeat split. Qed.
Print Assumptions C21_partial_nonvacuous.

(* full statement for a prologue pass that rebases the offsets (the proposed repair C21-1) *)
Theorem C21_returns_source_value_repaired : forall ver p f alloc raw entry_rsp ra s0 v,
  v_shift ver = true ->
  c21_lower p = Some f -> src_sem p raw = Some (Some v) -> alloc_ok alloc f = true ->
  entry_ok (sp_nargs p) raw entry_rsp ra s0 ->
  exists sf, exec (c21_finish ver (sp_w p) alloc f) s0 = Returned sf ra
    /\ low (sp_w p) (regs sf RAX) = v /\ regs sf RSP = entry_rsp + 8.
Proof. exact returns_source_value_repaired. Qed.
Print Assumptions C21_returns_source_value_repaired.

(* REFUTED for the unrepaired pass: f(a..h) = (g+g)*h with the real allocation returns garbage *)
Theorem C21_returns_source_value_refuted :
  exists p f alloc raw entry_rsp ra s0 v,
    c21_lower p = Some f /\ src_sem p raw = Some (Some v) /\ alloc_ok alloc f = true
    /\ entry_ok (sp_nargs p) raw entry_rsp ra s0
    /\ exists sf, exec (c21_finish unrepaired (sp_w p) alloc f) s0 = Returned sf ra
                  /\ low (sp_w p) (regs sf RAX) <> v.
Proof. exact stack_args_refuted. Qed.
Print Assumptions C21_returns_source_value_refuted.

(* where stack-passed argument i is read after k pushes vs. where SysV puts it *)
Theorem C21_stack_args_offset : forall shift entry_rsp k i, 0 <= k ->
  (load_addr shift entry_rsp k i = sysv_stack_arg_addr entry_rsp i <-> shift = true \/ k = 0).
Proof. exact stack_args_offset. Qed.
Print Assumptions C21_stack_args_offset.

Theorem C21_stack_args_offset_refuted : forall entry_rsp k i,
  load_addr false entry_rsp k i = sysv_stack_arg_addr entry_rsp (i - k).
Proof. exact stack_args_offset_unshifted. Qed.
Print Assumptions C21_stack_args_offset_refuted.

(* the verdict for the prologue pass found in /repo on this run *)
Theorem C21_stack_args_offset_current :
  if c21_prologue_shifts
  then (forall entry_rsp k i, 0 <= k -> load_addr c21_prologue_shifts entry_rsp k i = sysv_stack_arg_addr entry_rsp i)
  else (forall entry_rsp k i, 0 < k -> load_addr c21_prologue_shifts entry_rsp k i <> sysv_stack_arg_addr entry_rsp i).
Proof. exact current_stack_args. Qed.
Print Assumptions C21_stack_args_offset_current.

(* prologue/epilogue, for EVERY list of pushed registers and ANY stack-balanced body that leaves the save area
   and the return slot alone: pushed registers are restored, untouched ones keep their value *)
Theorem C21_callee_saved_restored : forall ps body s sp ra, frame_hyps ps s sp ra ->
  exists s1, exec (map IPush ps) s = Running s1 /\
    forall sb, body_ok body s1 sb sp ->
      exists sf, exec (map IPush ps ++ body ++ map IPop (rev ps) ++ [IRet]) s = Returned sf ra
        /\ (forall r, In r ps -> regs sf r = regs s r)
        /\ (forall r, ~ In r ps -> r <> RSP -> regs sb r = regs s1 r -> regs sf r = regs s r).
Proof. exact callee_saved_restored. Qed.
Print Assumptions C21_callee_saved_restored.

(* ... and the function returns through the caller's return address with rsp = entry rsp + 8 *)
Theorem C21_rsp_restored : forall ps body s sp ra, frame_hyps ps s sp ra ->
  exists s1, exec (map IPush ps) s = Running s1 /\
    forall sb, body_ok body s1 sb sp ->
      exists sf, exec (map IPush ps ++ body ++ map IPop (rev ps) ++ [IRet]) s = Returned sf ra
        /\ regs sf RSP = sp + 8.
Proof. exact rsp_restored. Qed.
Print Assumptions C21_rsp_restored.

(* guard: popping in push order would swap saved registers (c21_pop_reversed = true is needed) *)
Theorem C21_pop_order_matters :
  exists s sf, exec (map IPush [3; 12] ++ map IPop [3; 12] ++ [IRet]) s = Returned sf 77 /\ regs sf 3 <> regs s 3.
Proof. exact pop_order_matters. Qed.
Print Assumptions C21_pop_order_matters.

(* REFUTED for narrow types on the unrepaired pass: ebx is written, rbx is never saved *)
Theorem C21_callee_saved_narrow_refuted :
  exists p f alloc raw entry_rsp ra s0 v,
    c21_lower p = Some f /\ src_sem p raw = Some (Some v) /\ alloc_ok alloc f = true
    /\ entry_ok (sp_nargs p) raw entry_rsp ra s0 /\ stack_args_ok unrepaired (sp_w p) alloc f
    /\ exists sf r, exec (c21_finish unrepaired (sp_w p) alloc f) s0 = Returned sf ra
                    /\ low (sp_w p) (regs sf RAX) = v
                    /\ In r sysv_callee_saved /\ regs sf r <> regs s0 r.
Proof. exact callee_saved_narrow_refuted. Qed.
Print Assumptions C21_callee_saved_narrow_refuted.

(* `imul` on 8-bit registers is emitted for i8 multiplication (by the lowering that does not refuse it:
   c21_lower_v false) and is not an instruction; every other width only yields encodable instructions *)
Theorem C21_imul8_not_encodable :
  exists p f alloc ver, c21_lower_v false p = Some f /\ alloc_ok alloc f = true
    /\ forallb encodable (c21_finish ver (sp_w p) alloc f) = false.
Proof. exact imul8_not_encodable. Qed.
Print Assumptions C21_imul8_not_encodable.

Theorem C21_encodable_partial : forall ver w alloc f, w <> W8 -> forallb encodable (c21_finish ver w alloc f) = true.
Proof. exact encodable_partial. Qed.
Print Assumptions C21_encodable_partial.
