(* Props/C12.v -- property C12: worklist, union-find, scoped dictionary follow
   their abstract models.  ONLY theorem statements closed by `exact`. *)
From Coq Require Import List Arith ZArith.
From XV Require Import C12.Model C12.ProofsWorklist C12.ProofsScoped C12.ProofsUF.
Import ListNotations.

(* Every history of push/pop/remove/bool calls on the tombstone worklist returns
   exactly what a LIFO stack without duplicates returns, and its live contents are
   that stack. *)
Theorem C12_worklist_refines : forall ops,
  snd (wl_run wl_empty ops) = snd (aw_run [] ops) /\
  absl (stack (fst (wl_run wl_empty ops))) = fst (aw_run [] ops) /\
  NoDup (fst (aw_run [] ops)).
Proof. exact worklist_refines_lifo_set. Qed.
Print Assumptions C12_worklist_refines.

(* pop of the abstract stack returns the most recently pushed item still present *)
Theorem C12_abstract_pop_is_last : forall l x l',
  aw_step l WPop = (l', OItem x) -> l = l' ++ [x].
Proof. exact aw_pop_is_last. Qed.
Print Assumptions C12_abstract_pop_is_last.

(* All lookup forms of a scoped dictionary resolve to the innermost defining scope. *)
Theorem C12_scoped_consistent : forall d k df,
  sd_getitem d k = innermost d k /\
  sd_get d k df = match innermost d k with Some v => v | None => df end /\
  (sd_contains d k = true <-> innermost d k <> None).
Proof. exact scoped_consistent. Qed.
Print Assumptions C12_scoped_consistent.

Theorem C12_scoped_set_get : forall sc ps k v k',
  innermost (sd_setitem (sc :: ps) k v) k' =
  if Nat.eqb k' k then Some v else innermost (sc :: ps) k'.
Proof. exact scoped_set_get. Qed.
Print Assumptions C12_scoped_set_get.

(* several ScopedDict objects alive at once: every lookup form on any scope of a forest
   resolves along that scope's own parent chain to the innermost defining scope *)
Theorem C12_scoped_forest_consistent : forall t s k df,
  sd_getitem (chain_of t s) k = innermost (chain_of t s) k /\
  sd_get (chain_of t s) k df = match innermost (chain_of t s) k with Some v => v | None => df end /\
  (sd_contains (chain_of t s) k = true <-> innermost (chain_of t s) k <> None).
Proof. exact (fun t s => scoped_consistent (chain_of t s)). Qed.
Print Assumptions C12_scoped_forest_consistent.

(* recorded refutation of the pre-fix code (known_findings.json: fixed) *)
Theorem C12_scoped_old_get_refuted :
  exists d k, sd_getitem d k = Some None /\ sd_get_old d k None = Some 5%Z.
Proof. exact scoped_old_get_refuted. Qed.
Print Assumptions C12_scoped_old_get_refuted.

(* Union-find (path compression, union by size, left-biased union), for every
   history from `IntDisjointSet(size=n)`: the fuel of the modelled while-loops is
   never exhausted (the loops terminate), `connected` decides exactly the
   equivalence closure of the unions performed (spec `equiv`/`unions_of` at the top
   of C12/ProofsUF.v), `find` returns a member of the class, left-biased union keeps
   the left representative, and `roots` lists exactly the representatives. *)
Theorem C12_uf_never_out_of_fuel : forall n ops, ~ In UFFuel (snd (uf_run (uf_init n) ops)).
Proof. exact uf_never_out_of_fuel. Qed.
Print Assumptions C12_uf_never_out_of_fuel.

Theorem C12_uf_partition : forall n ops a b,
  let u := fst (uf_run (uf_init n) ops) in
  let '(us, n') := unions_of n ops in
  length (parent u) = n' /\
  (a < n' -> b < n' ->
     (snd (uf_connected u a b) = UOk true <-> equiv n' us a b) /\
     (exists r, snd (uf_find u a) = UOk r /\ equiv n' us a r)).
Proof. exact uf_partition. Qed.
Print Assumptions C12_uf_partition.

Theorem C12_uf_union_left_keeps_left_rep : forall n ops a b r,
  let u := fst (uf_run (uf_init n) ops) in
  a < length (parent u) -> b < length (parent u) ->
  snd (uf_find u a) = UOk r ->
  snd (uf_find (fst (uf_union_left u a b)) a) = UOk r /\
  snd (uf_find (fst (uf_union_left u a b)) b) = UOk r.
Proof. exact uf_union_left_keeps_left_rep. Qed.
Print Assumptions C12_uf_union_left_keeps_left_rep.

Theorem C12_uf_roots_are_representatives : forall n ops r,
  let u := fst (uf_run (uf_init n) ops) in
  In r (uf_roots u) <-> (r < length (parent u) /\ snd (uf_find u r) = UOk r).
Proof. exact uf_roots_are_representatives. Qed.
Print Assumptions C12_uf_roots_are_representatives.

(* non-vacuity: a concrete history with tombstones in the middle of the stack *)
Example C12_nonvacuous :
  snd (wl_run wl_empty [WPush 1; WPush 2; WPush 3; WRemove 2; WPush 1; WPop; WPop; WPop; WBool])
  = [ONone; ONone; ONone; ONone; ONone; OItem 3; OItem 1; OIndexError; OBool false].
Proof. vm_compute. reflexivity. Qed.
