(* Props/C20.v -- property C20: parallel-move lowering performs a simultaneous assignment.
   ONLY theorem statements closed by `exact` (+ Examples by vm_compute).
   Specs (coq/C20/Spec.v): `wf` (what the op verifier guarantees + the explicit extra hypotheses),
   `simultaneous`, `frame`, `edge`/`on_cycle`, `fail_cause`; register machine `exec` (Model.v).
   `lower unchanged` is the faithful model of the pinned tree, `lower repaired` the model of the code with
   C20-1 + C20-2 applied (the tree as it is now), `lower repaired_all` the model of the code with
   build/proposed_fixes/C20-3.diff (moves into zero), C20-4.diff (counter keyed by register) and C20-5.diff
   (width per move) applied on top. *)
From Coq Require Import ZArith List.
From XV Require Import C20.Model C20.Spec C20.Proofs.
Import ListNotations.
Local Open Scope Z_scope.

(* ---- the repaired algorithm: full statements, every well-formed input ---- *)
Theorem C20_simultaneous : forall ms free is vs,
  wf ms free -> lower repaired ms free = Ok (is, vs) -> simultaneous ms is.
Proof. exact lower_repaired_simultaneous. Qed.
Print Assumptions C20_simultaneous.

Theorem C20_frame : forall ms free is vs,
  wf ms free -> lower repaired ms free = Ok (is, vs) -> frame ms free is.
Proof. exact lower_repaired_frame. Qed.
Print Assumptions C20_frame.

(* the loops never run out of fuel; the only exception is PassFailedException, and only for an
   unallocated register, an unsupported width, or a float cycle without a free float register *)
Theorem C20_failure_reported : forall ms free, wf ms free ->
  match lower repaired ms free with
  | Ok _ => True
  | Raise e => e = EPassFailed /\ fail_cause ms free
  | OutOfFuel => False
  end.
Proof. exact lower_repaired_failure. Qed.
Print Assumptions C20_failure_reported.

(* "when no correct sequence can be produced the pass reports failure": an unallocated register, or
   a float cycle without a designated free float register, always ends in PassFailedException *)
Theorem C20_fails_when_impossible : forall ms free, wf ms free ->
  (exists m, In m ms /\ (is_alloc (m_src m) = false \/ is_alloc (m_dst m) = false))
  \/ (exists d, on_cycle ms d /\ is_float d = true /\ forall f, In f free -> is_float f = false) ->
  lower repaired ms free = Raise EPassFailed.
Proof. exact lower_repaired_fails_when_impossible. Qed.
Print Assumptions C20_fails_when_impossible.

Theorem C20_success : forall ms free, wf ms free -> ~ fail_cause ms free ->
  exists is vs, lower repaired ms free = Ok (is, vs).
Proof. exact lower_repaired_success. Qed.
Print Assumptions C20_success.

(* ---- all repairs (C20-1 .. C20-5): the same statements under the weaker hypotheses `wf_all` =
   `wf` without wf_ssa and wf_width: several SSA values may live in one register and every operand has
   its own width.  PARTIAL with respect to `zero`: `wf_all` still demands distinct destinations and no
   move overwriting zero (wa_dsts, wa_zero); the repaired code also accepts `zero` as a repeated
   destination -- that part is covered by the exhaustive zero-register sweep and the Examples below. ---- *)
Theorem C20_all_simultaneous : forall ms free is vs,
  wf_all ms free -> lower repaired_all ms free = Ok (is, vs) -> simultaneous ms is.
Proof. exact lower_all_simultaneous. Qed.
Print Assumptions C20_all_simultaneous.

Theorem C20_all_frame : forall ms free is vs,
  wf_all ms free -> lower repaired_all ms free = Ok (is, vs) -> frame ms free is.
Proof. exact lower_all_frame. Qed.
Print Assumptions C20_all_frame.

Theorem C20_all_failure_reported : forall ms free, wf_all ms free ->
  match lower repaired_all ms free with
  | Ok _ => True
  | Raise e => e = EPassFailed /\ fail_cause ms free
  | OutOfFuel => False
  end.
Proof. exact lower_all_failure. Qed.
Print Assumptions C20_all_failure_reported.

Theorem C20_all_fails_when_impossible : forall ms free, wf_all ms free ->
  (exists m, In m ms /\ (is_alloc (m_src m) = false \/ is_alloc (m_dst m) = false))
  \/ (exists d, on_cycle ms d /\ is_float d = true /\ forall f, In f free -> is_float f = false) ->
  lower repaired_all ms free = Raise EPassFailed.
Proof. exact lower_all_fails_when_impossible. Qed.
Print Assumptions C20_all_fails_when_impossible.

Theorem C20_all_success : forall ms free, wf_all ms free -> ~ fail_cause ms free ->
  exists is vs, lower repaired_all ms free = Ok (is, vs).
Proof. exact lower_all_success. Qed.
Print Assumptions C20_all_success.

(* `wf` implies `wf_all`; `wf_all` is strictly weaker (the kf-5 witness satisfies it but not `wf`) *)
Theorem C20_wf_all_weaker : (forall ms free, wf ms free -> wf_all ms free)
  /\ (wf_all ms_shared [] /\ ~ wf ms_shared []).
Proof. exact (conj wf_wf_all wf_all_shared). Qed.
Print Assumptions C20_wf_all_weaker.

(* ---- the pinned tree: refutations of the full statements ---- *)
Theorem C20_frame_refuted : exists ms free is vs,
  wf ms free /\ lower unchanged ms free = Ok (is, vs) /\ ~ frame ms free is.
Proof. exact frame_refuted. Qed.
Print Assumptions C20_frame_refuted.

Theorem C20_simultaneous_refuted : exists ms free is vs,
  wf ms free /\ lower unchanged ms free = Ok (is, vs) /\ ~ simultaneous ms is.
Proof. exact simultaneous_refuted. Qed.
Print Assumptions C20_simultaneous_refuted.

(* ---- the pinned tree: the strongest statement that holds.  Extra hypothesis: every cycle of the
   move graph has a designated free register of its kind (true of every acyclic graph) ---- *)
Theorem C20_partial : forall ms free, wf ms free -> every_cycle_has_free ms free ->
  match lower unchanged ms free with
  | Ok (is, _) => simultaneous ms is /\ frame ms free is
  | Raise e => e = EPassFailed /\ fail_cause ms free
  | OutOfFuel => False
  end.
Proof. exact lower_unchanged_partial. Qed.
Print Assumptions C20_partial.

Theorem C20_partial_agrees : forall ms free, wf ms free -> every_cycle_has_free ms free ->
  lower unchanged ms free = lower repaired ms free.
Proof. exact lower_agree. Qed.
Print Assumptions C20_partial_agrees.

Theorem C20_partial_acyclic : forall ms free, (forall d, ~ on_cycle ms d) -> every_cycle_has_free ms free.
Proof. exact acyclic_has_free. Qed.
Print Assumptions C20_partial_acyclic.

(* ---- inputs outside `wf` that the verifier accepts (known findings kf-3 .. kf-6) ---- *)
Theorem C20_duplicate_zero_refuted :
  verify [mkM 0 ZERO s1 64; mkM 0 ZERO s2 64; mkM 1 s1 ZERO 32; mkM 2 s2 ZERO 64] = true
  /\ lower unchanged [mkM 0 ZERO s1 64; mkM 0 ZERO s2 64; mkM 1 s1 ZERO 32; mkM 2 s2 ZERO 64] [] = OutOfFuel
  /\ verify [mkM 0 s1 ZERO 32; mkM 1 s2 ZERO 32] = true
  /\ lower unchanged [mkM 0 s1 ZERO 32; mkM 1 s2 ZERO 32] [] = Raise EAssertion.
Proof. exact duplicate_zero_refuted. Qed.
Print Assumptions C20_duplicate_zero_refuted.

Theorem C20_zero_swap_refuted :
  exists is vs, lower unchanged [mkM 0 ZERO s2 64; mkM 1 s2 ZERO 64] [] = Ok (is, vs)
    /\ get (exec is rho0) s2 <> get rho0 ZERO.
Proof. exact zero_swap_refuted. Qed.
Print Assumptions C20_zero_swap_refuted.

Theorem C20_shared_register_refuted :
  verify [mkM 0 s2 s1 32; mkM 1 s1 s2 32; mkM 2 s1 s3 32] = true /\
  lower unchanged [mkM 0 s2 s1 32; mkM 1 s1 s2 32; mkM 2 s1 s3 32] [] = Raise EAssertion.
Proof. exact shared_register_refuted. Qed.
Print Assumptions C20_shared_register_refuted.

Theorem C20_mixed_width_refuted :
  exists is vs, lower unchanged [mkM 0 fs1 fs2 64; mkM 0 fs1 fs1 32] [] = Ok (is, vs)
    /\ get (exec is (fun _ => 5)) fs2 <> 5.
Proof. exact mixed_width_refuted. Qed.
Print Assumptions C20_mixed_width_refuted.

(* ---- non-vacuity ---- *)
(* the hypotheses of C20_partial are satisfiable by a cyclic graph: {s1<->s2, s3->s4} with the
   designated free register t0 (40); the emitted sequence is the one of the filecheck test *)
Example C20_partial_hypotheses_satisfiable :
  wf ms_cyc [40] /\ every_cycle_has_free ms_cyc [40] /\ on_cycle ms_cyc s1.
Proof. exact partial_hyps_satisfiable. Qed.
Example C20_partial_nonvacuous :
  lower unchanged ms_cyc [40] =
  Ok ([Mv s4 (mkV 2 s3); Mv 40 (mkV 0 s1); Mv s1 (mkV 1 s2); Mv s2 (mkV (-2) 40)],
      [mkV (-4) s2; mkV (-3) s1; mkV (-1) s4]).
Proof. vm_compute. reflexivity. Qed.
(* the repaired algorithm on the two refutation witnesses: every destination receives its source *)
Example C20_repaired_root : exists is vs, lower repaired ms_root [] = Ok (is, vs)
  /\ map (get (exec is rho0)) [s1; s2; s3; s4] = map (get rho0) [s1; s1; s4; s3].
Proof. exact repaired_root. Qed.
Example C20_repaired_rotation : exists is vs, lower repaired ms_rot [] = Ok (is, vs)
  /\ map (get (exec is rho0)) [s1; s2; s3] = map (get rho0) [s2; s3; s1].
Proof. exact repaired_rot. Qed.

(* all repairs on the witnesses of kf-5, kf-6, kf-3, kf-4 *)
Example C20_all_shared_register : exists is vs, lower repaired_all ms_shared [] = Ok (is, vs)
  /\ map (get (exec is rho0)) [s1; s2; s3] = map (get rho0) [s2; s1; s1].
Proof. exact all_shared. Qed.
Example C20_all_mixed_width : exists is vs, lower repaired_all [mkM 0 fs1 fs2 64; mkM 0 fs1 fs1 32] [] = Ok (is, vs)
  /\ get (exec is (fun _ => 5)) fs2 = 5.
Proof. exact all_mixed_width. Qed.
Example C20_all_duplicate_zero : exists is vs,
  lower repaired_all [mkM 0 ZERO s1 64; mkM 0 ZERO s2 64; mkM 1 s1 ZERO 32; mkM 2 s2 ZERO 64] [] = Ok (is, vs)
  /\ map (get (exec is rho0)) [s1; s2; ZERO; s3] = [0; 0; 0; get rho0 s3].
Proof. exact all_duplicate_zero. Qed.
Example C20_all_zero_swap : exists is vs, lower repaired_all [mkM 0 ZERO s2 64; mkM 1 s2 ZERO 64] [] = Ok (is, vs)
  /\ get (exec is rho0) s2 = 0.
Proof. exact all_zero_swap. Qed.
