(* Props/C11.v -- property C11: the greedy rewrite driver reaches a fixpoint and observes every IR
   change.  ONLY theorem statements closed by `exact` (+ Examples by vm_compute).
   `M : Sem` is any IR model (C11/Model.v); `cir_sem` is the heap model run against the real code
   (C11/IR.v).  FlagLaws is proved for cir_sem (cir_flag_laws), so the *_model corollaries are
   unconditional statements about the model that the correspondence check ties to xDSL. *)
From Coq Require Import List Arith Bool ZArith.
From XV Require Import C11.ProofsWL.
From XV Require Import Base.Show C11.Model C11.IR C11.Enc C11.Proofs C11.ProofsIR C11.ProofsEv C11.ProofsLive C11.ProofsInv C11.ProofsTree.
Arguments ws_c {M} _.
Arguments ws_inv {M} _.
Import ListNotations.

(* ---- has_done_action ---- *)
(* (the boolean after the model name selects the code version: true = current code, where
   PatternRewriter.create_block sets has_done_action, commit 5d0c2dd; false = the code before it) *)

(* A rewriter call that changes the IR sets has_done_action -- every method. *)
Theorem C11_flag_sound : forall (M : Sem), FlagLaws M -> forall a c r,
  apply M true a c r <> c -> sets_flag M true a c r = true.
Proof. exact flag_sound. Qed.
Print Assumptions C11_flag_sound.

Theorem C11_flag_sound_model : forall a c r,
  apply cir_sem true a c r <> c -> sets_flag cir_sem true a c r = true.
Proof. exact (flag_sound cir_sem cir_flag_laws). Qed.
Print Assumptions C11_flag_sound_model.

(* recorded refutation of the pre-fix code (known_findings.d/C11.json: fixed 5d0c2dd): create_block
   inherited from Builder inserted a block and left has_done_action False *)
Theorem C11_flag_sound_old_refuted :
  exists a, resolve (build w_ir) w_r0 (TCreateBlock 100 (BPAfter 1) []) = Some a /\
            dump (apply cir_sem false a (build w_ir) w_r0) <> dump (build w_ir) /\
            sets_flag cir_sem false a (build w_ir) w_r0 = false.
Proof. exact flag_sound_old_refuted. Qed.
Print Assumptions C11_flag_sound_old_refuted.

(* has_done_action is set whenever a match (single pattern or GreedyRewritePatternApplier with its
   DCE short-circuit) mutated the IR. *)
Theorem C11_match_flag_sound : forall (M : Sem), FlagLaws M -> forall recur m o c w,
  fst (fst (fst (run_match M true recur m o c w))) <> c ->
  flag (snd (fst (fst (run_match M true recur m o c w)))) = true.
Proof. exact match_flag_sound. Qed.
Print Assumptions C11_match_flag_sound.

(* ---- listener events ---- *)

(* Every operation that a rewriter call creates, erases, or whose operand list it changes is reported:
   by a modification event of the op, by the removal event of an op whose walk() holds it, or by the
   insertion event of the new op it was created with -- for every call except inline_block with
   arg_values. *)
Theorem C11_events_complete_partial : forall (M : Sem), EvLaws M -> forall a c r c1 r1 t o,
  no_silent_rewrite a -> exec M true a c r = (c1, r1, t) -> changed M c c1 o ->
  covered M (action_news a) t o.
Proof. exact events_complete. Qed.
Print Assumptions C11_events_complete_partial.

(* ... and unconditionally for the heap model that is run against xDSL (EvLaws is proved for it) *)
Theorem C11_events_complete_partial_model : forall a c r c1 r1 t o,
  no_silent_rewrite a -> exec cir_sem true a c r = (c1, r1, t) -> changed cir_sem c c1 o ->
  covered cir_sem (action_news a) t o.
Proof. exact (events_complete cir_sem cir_ev_laws). Qed.
Print Assumptions C11_events_complete_partial_model.

(* inline_block(block, ip, arg_values) rewrites the operands of the users of the block arguments
   and calls no listener at all. *)
Theorem C11_events_complete_refuted :
  exists a, resolve (build w_ir3) w_r1 (TInlineBlock 1 (IPBefore 1) [VRes 3 0]) = Some a /\
            changed cir_sem (build w_ir3) (apply cir_sem true a (build w_ir3) w_r1) 2 /\
            In 2 (alive cir_sem (build w_ir3)) /\
            ~ covered cir_sem [] (snd (exec cir_sem true a (build w_ir3) w_r1)) 2 /\
            sets_flag cir_sem true a (build w_ir3) w_r1 = true.
Proof. exact events_complete_refuted. Qed.
Print Assumptions C11_events_complete_refuted.

(* ---- no stale worklist entries ---- *)

(* For every pop policy, walk configuration and pattern set respecting the calls' preconditions,
   every operation a pattern is invoked on is alive (not erased) in the IR state of that moment. *)
Theorem C11_no_stale : forall (M : Sem) (wf : C M -> Prop) (ip_ok : C M -> ipoint -> Prop)
  (ins_ok : C M -> list newop -> Prop) (okp : prim -> Prop) (erase_ok : C M -> op -> Prop),
  LiveLaws M wf ip_ok ins_ok okp erase_ok ->
  forall n fuel cf m pick c s ret,
  matcher_pre M wf ip_ok ins_ok okp erase_ok m -> wf c ->
  rewrite_region M true n fuel cf m pick c = Some (s, ret) ->
  forall o c', In (o, c') (ws_inv s) -> In o (alive M c').
Proof. exact no_stale. Qed.
Print Assumptions C11_no_stale.

(* For the heap model (ProofsLive.v, ProofsInv.v): the structural laws hold for all thirteen primitives
   (only erase kills operations, and only those of op.walk(); a region-less op's walk is itself;
   inserted ops are alive), and so does the use-def half of the invariant: UInv = every use names a
   live user, a use (s,i) of v means operand i of s is v, use lists have no duplicates -- preserved
   by all thirteen primitives (insert: for operations with new identifiers). *)
Theorem C11_use_lists_name_live_users_model : forall okp erase_ok p c,
  UInv c -> prim_side cir_sem cir_ins_ok okp erase_ok p c ->
  UInv (run_prim cir_sem p c) /\
  (forall v u, In u (uses cir_sem c v) -> In (fst u) (alive cir_sem c)).
Proof. exact (fun okp eok p c Hi Hs => conj (uinv_prim okp eok p c Hi Hs) (ui_U c Hi)). Qed.
Print Assumptions C11_use_lists_name_live_users_model.

(* The tree half (ProofsTree.v): under TInv (parent pointers of live ops / blocks / regions agree with
   the child lists, children of live ops are live, the owner of the rewritten region is live) the
   region walk yields only live operations; TInv is preserved by erase (of a live op that does not
   enclose that owner) and by the eight primitives that do not touch the tree.  NOT done: insert,
   inline_block, inline_region, move_region_contents_to_new_regions, create_block. *)
Theorem C11_tree_invariant_model_partial : forall c, TInv c ->
  (forall rev rf o, In o (walk cir_sem rev rf c) -> In o (alive cir_sem c)) /\
  (forall p, tree_covered p -> erase_side p c -> TInv (run_prim cir_sem p c)).
Proof. exact (fun c T => conj (tinv_walk c T) (fun p Hc Hs => tinv_prim_covered p c Hc Hs T)). Qed.
Print Assumptions C11_tree_invariant_model_partial.

(* Hence, with NO law left as a hypothesis: for pattern sets that only call erase,
   replace_all_uses_with, replace_uses_with_if, replace_value_with_new_type, insert_block_argument,
   erase_block_argument and notify_op_modified (plus the greedy applier's DCE erase), every
   operation a pattern is invoked on is alive -- for the heap model that runs against xDSL. *)
Theorem C11_no_stale_model_covered : forall n fuel cf m pick c s ret,
  matcher_pre cir_sem (fun c => UInv c /\ TInv c) cir_ip_ok cir_ins_ok tree_covered cov_erase_ok m ->
  UInv c /\ TInv c ->
  rewrite_region cir_sem true n fuel cf m pick c = Some (s, ret) ->
  forall o c', In (o, c') (ws_inv s) -> In o (alive cir_sem c').
Proof.
  exact (no_stale cir_sem _ cir_ip_ok cir_ins_ok tree_covered cov_erase_ok
                  (live_laws_of cir_sem _ cir_ip_ok cir_ins_ok tree_covered cov_erase_ok
                                cir_struct_laws cir_inv_laws_covered)).
Qed.
Print Assumptions C11_no_stale_model_covered.

(* For arbitrary pattern sets (insert, replace, inline_block, ... included) the tree half remains the
   one hypothesis: some invariant `wfW` under which the region walk yields only live operations and
   which the primitives preserve (C01's subject). *)
Theorem C11_no_stale_model_partial : forall (wfW : cir -> Prop),
  (forall p c, wfW c -> prim_side cir_sem cir_ins_ok (fun _ => True) (fun _ _ => True) p c ->
               wfW (run_prim cir_sem p c)) ->
  (forall c rev rf o, wfW c -> In o (walk cir_sem rev rf c) -> In o (alive cir_sem c)) ->
  forall n fuel cf m pick c s ret,
  matcher_pre cir_sem (fun c => UInv c /\ wfW c) cir_ip_ok cir_ins_ok (fun _ => True) (fun _ _ => True) m ->
  UInv c /\ wfW c ->
  rewrite_region cir_sem true n fuel cf m pick c = Some (s, ret) ->
  forall o c', In (o, c') (ws_inv s) -> In o (alive cir_sem c').
Proof.
  exact (fun wfW Hp Hw =>
           no_stale cir_sem _ cir_ip_ok cir_ins_ok _ _
                    (live_laws_of cir_sem _ cir_ip_ok cir_ins_ok _ _ cir_struct_laws
                                  (cir_inv_laws _ _ wfW Hp Hw))).
Qed.
Print Assumptions C11_no_stale_model_partial.

(* ---- fixpoint ---- *)

(* When rewrite_region returns with apply_recursively, every operation of the region is quiescent:
   a match on it leaves the IR unchanged and has_done_action unset (whatever the worklist holds) --
   for every pattern set, pop policy and walk configuration. *)
Theorem C11_fixpoint : forall (M : Sem), FlagLaws M -> forall n fuel cf m pick c s ret,
  apply_recursively cf = true ->
  rewrite_region M true n fuel cf m pick c = Some (s, ret) ->
  forall o, In o (walk M (negb (walk_reverse cf)) (negb (walk_regions_first cf)) (ws_c s)) ->
            quiescent M true m (ws_c s) o.
Proof. exact fixpoint. Qed.
Print Assumptions C11_fixpoint.

Theorem C11_fixpoint_model : forall n fuel cf m pick c s ret,
  apply_recursively cf = true ->
  rewrite_region cir_sem true n fuel cf m pick c = Some (s, ret) ->
  forall o, In o (walk cir_sem (negb (walk_reverse cf)) (negb (walk_regions_first cf)) (ws_c s)) ->
            quiescent cir_sem true m (ws_c s) o.
Proof. exact (fixpoint cir_sem cir_flag_laws). Qed.
Print Assumptions C11_fixpoint_model.

(* recorded refutation of the pre-fix code: with create_block the walk returned False although the IR
   changed, and left an operation on which the pattern would still act *)
Theorem C11_fixpoint_and_return_old_refuted :
  let c := build w_ir in
  let m := MSingle cir_sem (script w_tb_cb) in
  exists s, rewrite_region cir_sem false 5 50 w_cf m lifo c = Some (s, false) /\
            dump (ws_c s) <> dump c /\
            In 1 (walk cir_sem true true (ws_c s)) /\
            ~ quiescent_old true m (ws_c s) 1.
Proof. exact walk_create_block_old_refuted. Qed.
Print Assumptions C11_fixpoint_and_return_old_refuted.

(* The listener callbacks alone do not re-enqueue enough: one populate + _process_worklist pass can
   end with an operation that is not quiescent (they re-enqueue inserted ops, modified ops, users of
   replaced results and single-use operand definers of erased ops -- not the ops whose match depends
   on a changed neighbour).  The fixpoint is due to the outer `while op_was_modified` loop. *)
Theorem C11_single_pass_refuted :
  let c := build w_ir2 in
  let m := MSingle cir_sem (script w_tb2) in
  exists s, one_pass cir_sem true 50 w_cf m lifo (st0 c) = Some s /\
            map fst (ws_inv s) = [1; 2; 2] /\
            In 1 (walk cir_sem true true (ws_c s)) /\
            ~ quiescent cir_sem true m (ws_c s) 1.
Proof. exact single_pass_refuted. Qed.
Print Assumptions C11_single_pass_refuted.

(* ---- returned bool ---- *)

(* rewrite_region returns True whenever the IR changed. *)
Theorem C11_returns_true_if_changed : forall (M : Sem), FlagLaws M ->
  forall n fuel cf m pick c s ret,
  rewrite_region M true n fuel cf m pick c = Some (s, ret) -> ws_c s <> c -> ret = true.
Proof. exact returns_true_if_changed. Qed.
Print Assumptions C11_returns_true_if_changed.

Theorem C11_returns_true_if_changed_model : forall n fuel cf m pick c s ret,
  rewrite_region cir_sem true n fuel cf m pick c = Some (s, ret) -> ws_c s <> c -> ret = true.
Proof. exact (returns_true_if_changed cir_sem cir_flag_laws). Qed.
Print Assumptions C11_returns_true_if_changed_model.

(* ---- links and non-vacuity ---- *)

(* the worklist of the model is C12's abstract set-stack; LIFO is its pop *)
Theorem C11_worklist_is_C12_set_stack : forall (w : list nat) (x : nat),
  XV.C11.Model.wl_push x w = fst (XV.C12.Model.aw_step w (XV.C12.Model.WPush x)) /\
  XV.C11.Model.wl_remove x w = fst (XV.C12.Model.aw_step w (XV.C12.Model.WRemove x)) /\
  (forall l k, w = l ++ [x] ->
     XV.C12.Model.aw_step w XV.C12.Model.WPop = (l, XV.C12.Model.OItem (popped lifo k w))).
Proof. exact worklist_is_c12_set_stack. Qed.
Print Assumptions C11_worklist_is_C12_set_stack.

(* the hypotheses are satisfiable: the laws hold for the heap model (FlagLaws) / for a minimal IR
   model (LiveLaws, EvLaws) *)
Theorem C11_flag_laws_hold_for_the_model : FlagLaws cir_sem.
Proof. exact cir_flag_laws. Qed.
Print Assumptions C11_flag_laws_hold_for_the_model.

Theorem C11_ev_laws_hold_for_the_model : EvLaws cir_sem.
Proof. exact cir_ev_laws. Qed.
Print Assumptions C11_ev_laws_hold_for_the_model.

Theorem C11_struct_laws_hold_for_the_model : StructLaws cir_sem cir_ip_ok.
Proof. exact cir_struct_laws. Qed.
Print Assumptions C11_struct_laws_hold_for_the_model.

(* the heap invariants hold for the empty module (the starting point of every generated IR) *)
Theorem C11_heap_invariants_hold_initially : UInv empty_module /\ TInv empty_module.
Proof. exact inv_empty_module. Qed.
Print Assumptions C11_heap_invariants_hold_initially.

Theorem C11_laws_satisfiable :
  FlagLaws toy_sem /\ LiveLaws toy_sem (fun _ => True) (fun _ _ => True) (fun _ _ => True) (fun _ => True) (fun _ _ => True) /\ EvLaws toy_sem.
Proof. exact (conj toy_flag_laws (conj toy_live_laws toy_ev_laws)). Qed.
Print Assumptions C11_laws_satisfiable.

(* the complete driver does reach the fixpoint on the single-pass counterexample: passes
   1,2,2 | 1,1,2 | 1,2 *)
Example C11_nonvacuous :
  exists s, rewrite_region cir_sem true 5 50 w_cf (MSingle cir_sem (script w_tb2)) lifo (build w_ir2) = Some (s, true) /\
            map fst (ws_inv s) = [1; 2; 2; 1; 1; 2; 1; 2].
Proof. exact single_pass_example_full_run. Qed.
Print Assumptions C11_nonvacuous.

(* the create_block walk that the pre-fix code got wrong, under the current code: visits
   1, 2 | 1, 1, 2 | 1, 2 and returns True *)
Example C11_create_block_walk_now :
  exists s, rewrite_region cir_sem true 5 50 w_cf (MSingle cir_sem (script w_tb_cb)) lifo (build w_ir) = Some (s, true) /\
            map fst (ws_inv s) = [1; 2; 1; 1; 2; 1; 2].
Proof. exact walk_create_block_now. Qed.
Print Assumptions C11_create_block_walk_now.
