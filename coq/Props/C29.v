(* Props/C29.v -- property C29: symbol lookup returns the operation the nesting rules designate.
   ONLY theorem statements closed by `exact` (+ Examples by vm_compute).
   Spec (top of C29/Proofs.v): `nearest_table t p q` -- q is the longest prefix of the start op's
   path p that is a symbol table (the op itself counts); `first_child_named o n i` -- child i of o
   is the first child carrying symbol name n; `resolve_nested` -- every further component is looked
   up inside the previous result, which must be a symbol table, and a private result is refused;
   `resolve_from t p sym r` -- the reference sym, looked up from the op at p, designates the op at r.
   Ops are identified by their path from the root of the tree t (C29/Model.v). *)
From Coq Require Import List Arith.
From XV Require Import C29.Model C29.Proofs C29.ProofsCached C29.ProofsTraits.
Import ListNotations.

(* ---- xdsl.utils.symbol_table: direct lookups = Spec; all trees, all references, all start ops *)
Theorem C29_nearest_table : forall t p o q, get t p = Some o ->
  (get_nearest_symbol_table t p = Some q <-> nearest_table t p q).
Proof. exact get_nearest_spec. Qed.
Print Assumptions C29_nearest_table.

(* lookup_nearest_symbol_from never raises and returns exactly the designated op, or None if none *)
Theorem C29_lookup_spec : forall t p o sym, get t p = Some o ->
  exists x, lookup_nearest_symbol_from t p sym = Val x /\
            forall r, x = Some r <-> resolve_from t p sym r.
Proof. exact lookup_nearest_spec. Qed.
Print Assumptions C29_lookup_spec.

(* lookup_symbol_in: AssertionError on an op that is not a symbol table, else the designated op *)
Theorem C29_lookup_in_spec : forall t q o sym, get t q = Some o ->
  (is_symbol_table o = false -> lookup_symbol_in t q sym = Raise AssertionError) /\
  (is_symbol_table o = true -> exists x, lookup_symbol_in t q sym = Val x /\
      forall r, x = Some r <-> resolve_in t q (sym_root sym) (sym_nested sym) r).
Proof. exact lookup_symbol_in_spec. Qed.
Print Assumptions C29_lookup_in_spec.

(* all_symbols=True: None exactly when the plain lookup is None; otherwise one op per component,
   the k-th being the resolution of the first k nested components, the last being the plain result *)
Theorem C29_lookup_all_symbols : forall t q o sym, get t q = Some o -> is_symbol_table o = true ->
  exists x, lookup_symbol_in_all t q sym = Val x /\
    (x = None <-> lookup_symbol_in t q sym = Val None) /\
    (forall l, x = Some l ->
       length l = S (length (sym_nested sym)) /\
       (exists r, lookup_symbol_in t q sym = Val (Some r) /\ last l [] = r) /\
       forall k r, nth_error l k = Some r ->
                   resolve_in t q (sym_root sym) (firstn k (sym_nested sym)) r).
Proof. exact lookup_symbol_in_all_spec. Qed.
Print Assumptions C29_lookup_all_symbols.

(* the Spec designates at most one op; with unique names per table "first child named n" is
   "the child named n" *)
Theorem C29_spec_functional : forall t p sym r r',
  resolve_from t p sym r -> resolve_from t p sym r' -> r = r'.
Proof. exact resolve_from_fun. Qed.
Print Assumptions C29_spec_functional.

Theorem C29_unique_first_is_only : forall o n i, NoDup (sym_names (children o)) ->
  (first_child_named o n i <-> exists c, nth_error (children o) i = Some c /\ named c n).
Proof. exact first_child_named_unique. Qed.
Print Assumptions C29_unique_first_is_only.

(* ---- cached SymbolTable / SymbolTableCollection *)
(* one table with unique names: SymbolTable(op).lookup(n) = the direct scan *)
Theorem C29_cached_table_agrees : forall t q o n, get t q = Some o -> is_symbol_table o = true ->
  NoDup (sym_names (children o)) ->
  exists d, symtab_init t q = Val d /\ symtab_lookup q d n = lookup_direct t q n.
Proof. exact cached_table_agrees. Qed.
Print Assumptions C29_cached_table_agrees.

(* every module with unique names per table (every verified module), every state of the cache
   reachable by lookups (coll_ok; the empty collection is coll_ok): the collection's lookups return
   what the direct lookups return -- including the AssertionError on a non-table -- and leave a
   valid cache, hence so does every sequence of lookups through one collection *)
Theorem C29_cached_agrees : forall t c q sym, unique_names t -> coll_ok t c ->
  exists c', coll_ok t c' /\ coll_lookup_symbol_in t c q sym = (c', lookup_symbol_in t q sym).
Proof. exact coll_lookup_symbol_in_agrees. Qed.
Print Assumptions C29_cached_agrees.

Theorem C29_cached_all_agrees : forall t c q sym, unique_names t -> coll_ok t c ->
  exists c', coll_ok t c' /\ coll_lookup_symbol_in_all t c q sym = (c', lookup_symbol_in_all t q sym).
Proof. exact coll_lookup_symbol_in_all_agrees. Qed.
Print Assumptions C29_cached_all_agrees.

Theorem C29_cached_nearest_agrees : forall t c p sym, unique_names t -> coll_ok t c ->
  exists c', coll_ok t c' /\
    coll_lookup_nearest_symbol_from t c p sym = (c', lookup_nearest_symbol_from t p sym).
Proof. exact coll_lookup_nearest_agrees. Qed.
Print Assumptions C29_cached_nearest_agrees.

Theorem C29_cached_empty_ok : forall t, coll_ok t [].
Proof. exact coll_ok_nil. Qed.
Print Assumptions C29_cached_empty_ok.

(* without the uniqueness hypothesis: the cached table returns the LAST op with the name (all
   trees), so on a table with a duplicated name (not a verified module) it differs from the direct
   lookup, which returns the first *)
Theorem C29_cached_table_last : forall t q o n, get t q = Some o -> is_symbol_table o = true ->
  exists d, symtab_init t q = Val d /\
    forall r, symtab_lookup q d n = Some r <-> exists i, last_child_named o n i /\ r = q ++ [i].
Proof. exact cached_table_last. Qed.
Print Assumptions C29_cached_table_last.

Theorem C29_cached_duplicates_refuted :
  exists t q sym, snd (coll_lookup_symbol_in t [] q sym) <> lookup_symbol_in t q sym.
Proof. exact coll_duplicates_differ. Qed.
Print Assumptions C29_cached_duplicates_refuted.

(* ---- traits.SymbolTable.lookup_symbol (unchanged tree): refuted, with the strongest partial results *)
(* module { @0 (not a table); @1 }: @0::@1 climbs back to the module and returns the top-level @1 *)
Theorem C29_traits_agrees_refuted : exists t p o0 sym r,
  get t p = Some o0 /\ traits_lookup_symbol t p sym = Val (Some r) /\ ~ resolve_from t p sym r.
Proof. exact traits_refuted_nontable. Qed.
Print Assumptions C29_traits_agrees_refuted.

(* module { module @0 { private @1 } }: @0::@1 returns the private symbol *)
Theorem C29_traits_private_refuted : exists t p o0 sym r,
  get t p = Some o0 /\ traits_lookup_symbol t p sym = Val (Some r) /\ ~ resolve_from t p sym r /\
  is_private_at t r = true.
Proof. exact traits_refuted_private. Qed.
Print Assumptions C29_traits_private_refuted.

(* it never misses: whenever the rules designate an op, that op is returned (all trees) *)
Theorem C29_traits_complete : forall t p o0 sym r, get t p = Some o0 ->
  resolve_from t p sym r -> traits_lookup_symbol t p sym = Val (Some r).
Proof. exact traits_complete. Qed.
Print Assumptions C29_traits_complete.

(* extra hypothesis traits_guard: every nested component is looked up inside a symbol table and
   names a non-private symbol.  Then: ValueError iff there is no enclosing symbol table, else Spec *)
Theorem C29_traits_agrees_partial : forall t p o0 sym, get t p = Some o0 -> traits_guard t p sym ->
  ((forall q, ~ nearest_table t p q) /\ traits_lookup_symbol t p sym = Raise ValueError) \/
  ((exists q, nearest_table t p q) /\
   exists x, traits_lookup_symbol t p sym = Val x /\ forall r, x = Some r <-> resolve_from t p sym r).
Proof. exact traits_partial. Qed.
Print Assumptions C29_traits_agrees_partial.

(* flat references (str / StringAttr / SymbolRefAttr without nested part): no hypothesis needed *)
Theorem C29_traits_flat : forall t p o0 sym, get t p = Some o0 -> sym_nested sym = [] ->
  ((forall q, ~ nearest_table t p q) /\ traits_lookup_symbol t p sym = Raise ValueError) \/
  ((exists q, nearest_table t p q) /\
   exists x, traits_lookup_symbol t p sym = Val x /\ forall r, x = Some r <-> resolve_from t p sym r).
Proof. exact traits_flat. Qed.
Print Assumptions C29_traits_flat.

(* the hypothesis is satisfiable by a three-component reference that resolves through two tables *)
Theorem C29_traits_guard_satisfiable :
  traits_guard wit_ok [] (SRef 0 [1; 2]) /\
  traits_lookup_symbol wit_ok [] (SRef 0 [1; 2]) = Val (Some [0; 0; 0]) /\
  lookup_nearest_symbol_from wit_ok [] (SRef 0 [1; 2]) = Val (Some [0; 0; 0]).
Proof. exact guard_satisfiable. Qed.
Print Assumptions C29_traits_guard_satisfiable.

(* the repair proposed in build/proposed_fixes/C29-1.diff (model: traits_lookup_symbol_fixed)
   satisfies the full statement: all trees, all references, all start ops *)
Theorem C29_traits_fixed_agrees : forall t p o0 sym, get t p = Some o0 ->
  ((forall q, ~ nearest_table t p q) /\ traits_lookup_symbol_fixed t p sym = Raise ValueError) \/
  ((exists q, nearest_table t p q) /\
   exists x, traits_lookup_symbol_fixed t p sym = Val x /\
             forall r, x = Some r <-> resolve_from t p sym r).
Proof. exact traits_fixed_agrees. Qed.
Print Assumptions C29_traits_fixed_agrees.

(* ---- non-vacuity / witnesses evaluated by the kernel *)
Example C29_nonvacuous :
  (* module { module @0 { private @1 ; nested @2 ; op { <start> } } ; func @1 } *)
  let t := Op None Public true
             [Op (Some 0) Public true
                 [Op (Some 1) Private false []; Op (Some 2) Nested false [];
                  Op None Public false [Op None Public false []]];
              Op (Some 1) Public false []] in
  get_nearest_symbol_table t [0; 2; 0] = Some [0] /\
  lookup_nearest_symbol_from t [0; 2; 0] (SFlat 1) = Val (Some [0; 0]) /\   (* private is visible locally *)
  lookup_nearest_symbol_from t [] (SFlat 1) = Val (Some [1]) /\
  lookup_nearest_symbol_from t [] (SRef 0 [2]) = Val (Some [0; 1]) /\
  lookup_nearest_symbol_from t [] (SRef 0 [1]) = Val None /\               (* private through nesting *)
  lookup_nearest_symbol_from t [] (SRef 1 [1]) = Val None /\               (* @1 is not a table *)
  lookup_symbol_in t [1] (SFlat 1) = Raise AssertionError /\
  traits_lookup_symbol t [] (SRef 0 [1]) = Val (Some [0; 0]) /\            (* defect: private returned *)
  traits_lookup_symbol t [] (SRef 1 [1]) = Val (Some [1]) /\               (* defect: climbs back *)
  traits_lookup_symbol_fixed t [] (SRef 0 [1]) = Val None /\
  traits_lookup_symbol_fixed t [] (SRef 1 [1]) = Val None.
Proof. vm_compute. repeat split; reflexivity. Qed.
