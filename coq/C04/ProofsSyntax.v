(* C04/ProofsSyntax.v -- M3: the token stream of a well-formed named tree parses back to the same tree. *)
From Coq Require Import ZArith List Bool Arith Lia.
From XV Require Import C04.Model C04.ProofsStr C04.ProofsGhost C04.ProofsPrint C04.ProofsParse C04.ProofsRound C04.ProofsTree.
Import ListNotations.

Lemma sep_by_length : forall (ls : list (list tok)), (forall x, In x ls -> x <> []) -> length ls <= length (sep_by ls).
Proof.
  induction ls as [|x ls IH]; intro H; [cbn; lia|].
  assert (Hx : 1 <= length x).
  { destruct x; [exfalso; apply (H []); [now left|reflexivity]|cbn; lia]. }
  destruct ls as [|y ls'].
  - cbn. lia.
  - change (sep_by (x :: y :: ls')) with (x ++ TComma :: sep_by (y :: ls')).
    rewrite app_length. cbn [length]. assert (length (y :: ls') <= length (sep_by (y :: ls'))) by (apply IH; intros; apply H; now right).
    cbn [length] in *. lia.
Qed.

(* ---------- generic list parsers ---------- *)
Section Lists.
Context {A : Type}.
Variable pe : list tok -> option (A * list tok).
Variable pr : A -> list tok.

Definition is_lb (t : tok) : bool := match t with TLB => true | _ => false end.
Definition is_lp (t : tok) : bool := match t with TLP => true | _ => false end.

Definition follows (close : tok -> bool) (rest : list tok) : Prop :=
  exists t r, rest = t :: r /\ (t = TComma \/ close t = true).

Lemma parse_commas_ok : forall close items c rest fuel,
  close c = true -> close TComma = false ->
  items <> [] ->
  (forall x, In x items -> forall rest', follows close rest' -> pe (pr x ++ rest') = Some (x, rest')) ->
  length items <= fuel ->
  parse_commas pe close fuel (sep_by (map pr items) ++ c :: rest) = Some (items, rest).
Proof.
  intros close items c rest. induction items as [|x items IH]; intros fuel Hc Hcc Hne Hpe Hf; [contradiction|].
  destruct fuel as [|f]; [cbn in Hf; lia|]. cbn [parse_commas].
  destruct items as [|y items'].
  - cbn [map sep_by]. rewrite Hpe; [|now left|exists c, rest; split; [reflexivity|now right]].
    destruct c; cbn in Hc, Hcc; try rewrite Hc; try reflexivity; congruence.
  - cbn [map sep_by]. rewrite <- app_assoc. cbn [app].
    rewrite Hpe; [|now left|eexists; eexists; split; [reflexivity|now left]].
    rewrite IH; [reflexivity|assumption|assumption|discriminate| |cbn in *; lia].
    intros z Hz. apply Hpe. now right.
Qed.

Lemma parse_list_ok : forall close items c rest,
  close c = true -> close TComma = false ->
  (forall x, In x items -> forall rest', follows close rest' -> pe (pr x ++ rest') = Some (x, rest')) ->
  (forall x, In x items -> exists t r, pr x = t :: r /\ close t = false) ->
  parse_list pe close (sep_by (map pr items) ++ c :: rest) = Some (items, rest).
Proof.
  intros close items c rest Hc Hcc Hpe Hne. destruct items as [|x items].
  - cbn. rewrite Hc. reflexivity.
  - unfold parse_list.
    destruct (Hne x (or_introl eq_refl)) as [t [r [E Ht]]].
    assert (Hd : exists r', sep_by (map pr (x :: items)) ++ c :: rest = t :: r').
    { cbn [map sep_by]. destruct (map pr items); rewrite E; cbn; eexists; reflexivity. }
    destruct Hd as [r' Er]. rewrite Er. rewrite Ht. rewrite <- Er.
    apply parse_commas_ok; try assumption; [discriminate|].
    (* each element has at least one token *)
    rewrite app_length. pose proof (sep_by_length (map pr (x :: items))) as G.
    rewrite map_length in G. assert (length (x :: items) <= length (sep_by (map pr (x :: items)))).
    { apply G. intros z Hz. apply in_map_iff in Hz. destruct Hz as [w [Hw1 Hw2]]. subst z.
      destruct (Hne w Hw2) as [t0 [r0 [E0 _]]]. rewrite E0. discriminate. }
    lia.
Qed.

Lemma parse_seq_step : forall start f ts t r a ts1,
  ts = t :: r -> start t = true -> pe ts = Some (a, ts1) ->
  parse_seq pe start (S f) ts =
  match parse_seq pe start f ts1 with Some (l, ts2) => Some (a :: l, ts2) | None => None end.
Proof. intros start f ts t r a ts1 E Ht Hp. cbn [parse_seq]. rewrite E at 1. rewrite Ht. rewrite Hp. reflexivity. Qed.

Lemma parse_seq_ok : forall start items rest fuel,
  (forall x, In x items -> (exists t r, pr x = t :: r /\ start t = true) /\
                           forall rest', pe (pr x ++ rest') = Some (x, rest')) ->
  (rest = [] \/ exists t r, rest = t :: r /\ start t = false) ->
  length items < fuel ->
  parse_seq pe start fuel (flat_map pr items ++ rest) = Some (items, rest).
Proof.
  intros start items rest. induction items as [|x items IH]; intros fuel Hpe Hr Hf.
  - destruct fuel as [|f]; [cbn in Hf; lia|]. cbn [flat_map app parse_seq].
    destruct Hr as [Hr|[t [r [Hr Ht]]]]; subst rest; [reflexivity|]. rewrite Ht. reflexivity.
  - destruct fuel as [|f]; [cbn in Hf; lia|]. cbn [flat_map]. rewrite <- app_assoc.
    destruct (Hpe x (or_introl eq_refl)) as [[t [r [E Ht]]] Hx].
    rewrite (parse_seq_step start f _ t (r ++ flat_map pr items ++ rest) x (flat_map pr items ++ rest)).
    + rewrite IH; [reflexivity| |exact Hr|cbn in Hf; lia]. intros z Hz. apply Hpe. now right.
    + rewrite E. reflexivity.
    + exact Ht.
    + apply Hx.
Qed.
End Lists.

(* ---------- well-formed named trees ---------- *)
Definition wf_entry (e : entry) : bool :=
  is_key_atom (fst e) && match snd e with Some v => is_val_atom v | None => true end.
Definition wf_dict (es : list entry) : bool := forallb wf_entry es && negb (dup_key es).

Fixpoint wf_op (o : ntree) : bool :=
  match o with
  | Op nm res args succs props regs attrs it ot =>
      (nm <? 100)%Z && (length args =? length it) && (match res with [] => true | _ => length res =? length ot end) &&
      wf_dict props && wf_dict attrs && forallb is_type_atom it && forallb is_type_atom ot &&
      forallb (fun r : list (block str str (option str)) =>
                 (fix blocks (bs : list (block str str (option str))) (first : bool) : bool :=
                    match bs with
                    | [] => true
                    | b :: bs' => wf_block b first && blocks bs' false
                    end) r true) regs
  end
with wf_block (b : block str str (option str)) (first : bool) : bool :=
  match b with
  | Bk lab bargs ops =>
      match lab with
      | Some _ => true
      | None => first && match bargs with [] => true | _ => false end && match ops with [] => false | _ => true end
      end && forallb (fun a => is_type_atom (snd a)) bargs && forallb wf_op ops
  end.

Fixpoint osize (o : ntree) : nat :=
  match o with
  | Op nm res args succs props regs attrs it ot =>
      S (list_sum (map (fun r : list (block str str (option str)) => list_sum (map bsize r)) regs))
  end
with bsize (b : block str str (option str)) : nat :=
  match b with Bk lab bargs ops => list_sum (map osize ops) end.

Lemma list_sum_in : forall {A} (f : A -> nat) l x, In x l -> f x <= list_sum (map f l).
Proof.
  induction l as [|y l IH]; intros x H; [contradiction|]. unfold list_sum in *. cbn [map fold_right].
  destruct H as [H|H]; [subst; lia|]. specialize (IH x H). lia.
Qed.

(* ---------- elements ---------- *)
Lemma tok_atom_inv : forall a, tok_atom (atom_tok a) = Some a.
Proof. intros [k|k|k]; reflexivity. Qed.
Lemma p_type_ok : forall a rest, is_type_atom a = true -> p_type (atom_tok a :: rest) = Some (a, rest).
Proof. intros a rest H. unfold p_type. rewrite tok_atom_inv. rewrite H. reflexivity. Qed.

Lemma p_entry_ok : forall e rest, wf_entry e = true ->
  (exists t r, rest = t :: r /\ t <> TEq) ->
  p_entry (toks_entry e ++ rest) = Some (e, rest).
Proof.
  intros [k [v|]] rest H [t [r [Er Ht]]]; unfold wf_entry in H; cbn in H; apply andb_true_iff in H; destruct H as [H1 H2].
  - cbn. rewrite tok_atom_inv. rewrite H1. rewrite tok_atom_inv. rewrite H2. reflexivity.
  - cbn. rewrite tok_atom_inv. rewrite H1. subst rest. destruct t; try reflexivity. congruence.
Qed.

Lemma atom_tok_not_close : forall a, is_rb (atom_tok a) = false /\ is_rp (atom_tok a) = false.
Proof. intros [k|k|k]; split; reflexivity. Qed.

Lemma p_dict_ok : forall es rest, wf_dict es = true -> p_dict (toks_dict es ++ rest) = Some (es, rest).
Proof.
  intros es rest H. unfold wf_dict in H. apply andb_true_iff in H. destruct H as [H1 H2]. apply negb_true_iff in H2.
  unfold toks_dict, p_dict. cbn [app]. rewrite <- app_assoc. cbn [app].
  rewrite (parse_list_ok p_entry toks_entry is_rb es TRB rest); [rewrite H2; reflexivity|reflexivity|reflexivity| |].
  - intros e He rest' [t [r [E Ht]]]. rewrite forallb_forall in H1. apply p_entry_ok; [apply H1; exact He|].
    exists t, r. split; [exact E|]. destruct Ht as [Ht|Ht]; [subst; discriminate|]. intro X. subst t. discriminate.
  - intros [k v] He. destruct v; cbn; eexists; eexists; (split; [reflexivity|apply atom_tok_not_close]).
Qed.

Lemma p_barg_ok : forall (a : str * atom) rest, is_type_atom (snd a) = true ->
  p_barg ([TPct (fst a); TColon; atom_tok (snd a)] ++ rest) = Some (a, rest).
Proof. intros [n t] rest H. cbn. unfold p_type. rewrite tok_atom_inv. cbn in H. rewrite H. reflexivity. Qed.

(* ---------- operations ---------- *)
Section Body.
Variable po : list tok -> option (ntree * list tok).

Lemma toks_op_head : forall o, exists t r, toks_op o = t :: r /\ op_start t = true.
Proof.
  intros [nm res args succs props regs attrs it ot]. cbn [toks_op]. destruct res as [|x res].
  - cbn. eexists; eexists; split; reflexivity.
  - cbn [map sep_by]. destruct (map (fun n => [TPct n]) res); cbn; eexists; eexists; split; reflexivity.
Qed.

Lemma p_ops_ok : forall ops rest,
  (forall o, In o ops -> forall rest', po (toks_op o ++ rest') = Some (o, rest')) ->
  (exists t r, rest = t :: r /\ op_start t = false) ->
  p_ops po (flat_map toks_op ops ++ rest) = Some (ops, rest).
Proof.
  intros ops rest H Hr. unfold p_ops. apply parse_seq_ok; [|right; exact Hr|].
  - intros o Ho. split; [apply toks_op_head|apply H; exact Ho].
  - (* every operation has at least one token *)
    assert (G : length ops <= length (flat_map toks_op ops)).
    { clear. induction ops as [|o ops IH]; [cbn; lia|]. cbn [flat_map]. rewrite app_length.
      destruct (toks_op_head o) as [t [r [E _]]]. rewrite E. cbn [length]. lia. }
    rewrite app_length. destruct Hr as [t [r [Hr _]]]. subst rest. cbn [length]. lia.
Qed.

Definition sub_ok (o : ntree) : Prop := forall rest', po (toks_op o ++ rest') = Some (o, rest').

Lemma p_block_ok : forall n bargs ops rest,
  forallb (fun a : str * atom => is_type_atom (snd a)) bargs = true ->
  (forall o, In o ops -> sub_ok o) ->
  (exists t r, rest = t :: r /\ op_start t = false) ->
  p_block po (toks_block (Bk (Some n) bargs ops) ++ rest) = Some (Bk (Some n) bargs ops, rest).
Proof.
  intros n bargs ops rest Ht Hs Hr. cbn [toks_block]. unfold p_block. cbn [app].
  destruct bargs as [|a bargs'].
  - cbn [app]. destruct (flat_map toks_op ops ++ rest) eqn:E; rewrite <- E; (rewrite p_ops_ok; [reflexivity|exact Hs|exact Hr]).
  - rewrite <- !app_assoc. cbn [app]. rewrite <- app_assoc. cbn [app].
    rewrite (parse_list_ok p_barg (fun a : str * atom => [TPct (fst a); TColon; atom_tok (snd a)]) is_rp (a :: bargs') TRP).
    + cbn [app]. rewrite p_ops_ok; [reflexivity|exact Hs|exact Hr].
    + reflexivity.
    + reflexivity.
    + intros x Hx rest' _. rewrite forallb_forall in Ht. apply p_barg_ok. apply Ht. exact Hx.
    + intros x _. eexists; eexists; split; reflexivity.
Qed.

Lemma toks_block_head : forall n bargs ops, exists r, toks_block (Bk (Some n) bargs ops) = TCaret n :: r.
Proof. intros. cbn [toks_block]. eexists. reflexivity. Qed.

(* the blocks of a region after the (possibly unlabeled) entry block *)
Lemma p_blocks_ok : forall bs rest,
  Forall (fun b => match b with
                   | Bk (Some _) bargs ops =>
                       forallb (fun a : str * atom => is_type_atom (snd a)) bargs = true /\ forall o, In o ops -> sub_ok o
                   | Bk None _ _ => False
                   end) bs ->
  parse_seq (p_block po) is_caret (length (flat_map toks_block bs ++ TRB :: rest)) (flat_map toks_block bs ++ TRB :: rest)
  = Some (bs, TRB :: rest).
Proof.
  intros bs rest H.
  assert (G : forall suffix, (exists t r, suffix = t :: r /\ op_start t = false /\ is_caret t = false) ->
            forall fuel, length bs < fuel ->
            parse_seq (p_block po) is_caret fuel (flat_map toks_block bs ++ suffix) = Some (bs, suffix)).
  { induction H as [|b bs Hb Hbs IH]; intros suffix [t [r [Es [Ht1 Ht2]]]] fuel Hf.
    - destruct fuel; [lia|]. cbn. subst suffix. rewrite Ht2. reflexivity.
    - destruct fuel as [|f]; [cbn in Hf; lia|]. cbn [flat_map]. rewrite <- app_assoc.
      destruct b as [[n|] bargs ops]; [|contradiction]. destruct Hb as [Hb1 Hb2].
      destruct (toks_block_head n bargs ops) as [r0 E0].
      rewrite (parse_seq_step (p_block po) is_caret f _ (TCaret n) (r0 ++ flat_map toks_block bs ++ suffix)
                 (Bk (Some n) bargs ops) (flat_map toks_block bs ++ suffix)).
      + rewrite IH; [reflexivity|exists t, r; tauto|cbn in Hf; lia].
      + rewrite E0. reflexivity.
      + reflexivity.
      + apply p_block_ok; [exact Hb1|exact Hb2|].
        destruct bs as [|b' bs'].
        * cbn. exists t, r. tauto.
        * inversion Hbs as [|? ? Hb' _]; subst. destruct b' as [[n'|] ba' op']; [|contradiction].
          destruct (toks_block_head n' ba' op') as [r1 E1]. cbn [flat_map]. rewrite E1. cbn. eexists; eexists; split; reflexivity. }
  apply G; [exists TRB, rest; repeat split|].
  rewrite app_length. cbn [length].
  assert (length bs <= length (flat_map toks_block bs)).
  { clear - H. induction H as [|b bs Hb _ IH]; [cbn; lia|]. cbn [flat_map]. rewrite app_length.
    destruct b as [[n|] bargs ops]; [|contradiction]. destruct (toks_block_head n bargs ops) as [r0 E0]. rewrite E0. cbn [length]. lia. }
  lia.
Qed.

Definition blk_ok (b : block str str (option str)) : Prop :=
  match b with Bk _ bargs ops =>
    forallb (fun a : str * atom => is_type_atom (snd a)) bargs = true /\ forall o, In o ops -> sub_ok o end.

Fixpoint labels_ok (bs : list (block str str (option str))) (first : bool) : Prop :=
  match bs with
  | [] => True
  | Bk lab bargs ops :: bs' =>
      match lab with
      | Some _ => True
      | None => first = true /\ bargs = [] /\ ops <> []
      end /\ labels_ok bs' false
  end.

Lemma labels_ok_tail : forall bs, labels_ok bs false ->
  Forall blk_ok bs ->
  Forall (fun b => match b with
                   | Bk (Some _) bargs ops =>
                       forallb (fun a : str * atom => is_type_atom (snd a)) bargs = true /\ forall o, In o ops -> sub_ok o
                   | Bk None _ _ => False
                   end) bs.
Proof.
  induction bs as [|[lab bargs ops] bs IH]; intros L F; [constructor|]. inversion F as [|? ? Fb Fbs]; subst.
  cbn in L. destruct L as [L1 L2]. constructor; [|apply IH; assumption].
  destruct lab as [n|]; [exact Fb|destruct L1 as [X _]; discriminate].
Qed.

Lemma toks_block_some_head : forall b bs, labels_ok (b :: bs) false -> exists n r, flat_map toks_block (b :: bs) = TCaret n :: r.
Proof.
  intros [lab bargs ops] bs L. cbn in L. destruct L as [L1 _]. destruct lab as [n|]; [|destruct L1; discriminate].
  cbn [flat_map toks_block]. eexists; eexists; reflexivity.
Qed.

Lemma p_region_ok : forall r rest, labels_ok r true -> Forall blk_ok r ->
  p_region po (TLB :: flat_map toks_block r ++ TRB :: rest) = Some (r, rest).
Proof.
  intros r rest L F. unfold p_region.
  destruct r as [|[lab bargs ops] bs].
  - cbn [flat_map app]. cbn [is_caret is_rb orb]. cbn [length parse_seq is_caret]. reflexivity.
  - inversion F as [|? ? Fb Fbs]; subst. cbn in L. destruct L as [L1 L2]. destruct Fb as [Fb1 Fb2].
    destruct lab as [n|].
    + (* labelled entry block *)
      assert (LT : labels_ok (Bk (Some n) bargs ops :: bs) false) by (cbn; tauto).
      pose proof (p_blocks_ok (Bk (Some n) bargs ops :: bs) rest (labels_ok_tail _ LT F)) as PB.
      destruct (toks_block_some_head _ _ LT) as [n' [r0 E0]]. rewrite E0 in *. cbn [app] in *. cbn [is_caret orb].
      rewrite PB. reflexivity.
    + (* the entry block without label: its operations come first *)
      destruct L1 as [_ [Eb Eo]]. subst bargs.
      cbn [flat_map toks_block app]. rewrite <- app_assoc.
      destruct ops as [|o ops']; [contradiction|].
      destruct (toks_op_head o) as [t [r0 [E0 Ht]]].
      assert (Hrest : exists t' r', flat_map toks_block bs ++ TRB :: rest = t' :: r' /\ op_start t' = false).
      { destruct bs as [|b' bs']; [cbn; eexists; eexists; split; reflexivity|].
        destruct (toks_block_some_head _ _ L2) as [n' [r1 E1]]. rewrite E1. cbn. eexists; eexists; split; reflexivity. }
      pose proof (p_ops_ok (o :: ops') _ Fb2 Hrest) as PO.
      cbn [flat_map] in *. rewrite <- app_assoc in *. rewrite E0 in *. cbn [app] in *.
      assert (Hc : is_caret t || is_rb t = false) by (destruct t; cbn in Ht; try discriminate; reflexivity).
      rewrite Hc. rewrite PO.
      rewrite (p_blocks_ok bs rest (labels_ok_tail _ L2 Fbs)). reflexivity.
Qed.

(* optional sections of an operation *)
Definition hd_is (P : tok -> bool) (l : list tok) : bool := match l with t :: _ => P t | [] => false end.

Lemma step_succ : forall succs T, hd_is (fun t => match t with TLS => true | _ => false end) T = false ->
  (match (match succs with [] => [] | _ => TLS :: sep_by (map (fun n => [TCaret n]) succs) ++ [TRS] end) ++ T with
   | TLS :: r' => parse_list p_caret is_rs r'
   | _ => Some ([], (match succs with [] => [] | _ => TLS :: sep_by (map (fun n => [TCaret n]) succs) ++ [TRS] end) ++ T)
   end) = Some (succs, T).
Proof.
  intros succs T H. destruct succs as [|s succs'].
  - cbn [app]. destruct T as [|t T']; [reflexivity|]. destruct t; try reflexivity. cbn in H. discriminate.
  - cbn [app]. rewrite <- app_assoc. cbn [app].
    apply (parse_list_ok p_caret (fun n => [TCaret n]) is_rs (s :: succs') TRS T); try reflexivity.
    intros x _. eexists; eexists; split; reflexivity.
Qed.

Lemma step_props : forall props T, wf_dict props = true ->
  hd_is (fun t => match t with TLT => true | _ => false end) T = false ->
  (match (match props with [] => [] | _ => TLT :: toks_dict props ++ [TGT] end) ++ T with
   | TLT :: r' => match p_dict r' with Some (ps, TGT :: r'') => Some (ps, r'') | _ => None end
   | _ => Some ([], (match props with [] => [] | _ => TLT :: toks_dict props ++ [TGT] end) ++ T)
   end) = Some (props, T).
Proof.
  intros props T W H. destruct props as [|e props'].
  - cbn [app]. destruct T as [|t T']; [reflexivity|]. destruct t; try reflexivity. cbn in H. discriminate.
  - cbn [app]. rewrite <- app_assoc. rewrite p_dict_ok by exact W. reflexivity.
Qed.

Lemma step_attrs : forall attrs T, wf_dict attrs = true ->
  hd_is is_lb T = false ->
  (match (match attrs with [] => [] | _ => toks_dict attrs end) ++ T with
   | TLB :: _ => p_dict ((match attrs with [] => [] | _ => toks_dict attrs end) ++ T)
   | _ => Some ([], (match attrs with [] => [] | _ => toks_dict attrs end) ++ T)
   end) = Some (attrs, T).
Proof.
  intros attrs T W H. destruct attrs as [|e attrs'].
  - cbn [app]. destruct T as [|t T']; [reflexivity|]. destruct t; try reflexivity. cbn in H. discriminate.
  - unfold toks_dict at 1. cbn [app]. change (TLB :: (sep_by (map toks_entry (e :: attrs')) ++ [TRB]) ++ T) with (toks_dict (e :: attrs') ++ T).
    apply p_dict_ok. exact W.
Qed.

Definition toks_regs (regs : list (list (block str str (option str)))) : list tok :=
  match regs with
  | [] => []
  | _ => TLP :: sep_by (map (fun r : list (block str str (option str)) => TLB :: flat_map toks_block r ++ [TRB]) regs) ++ [TRP]
  end.

Lemma step_regs : forall regs T,
  Forall (fun r => labels_ok r true /\ Forall blk_ok r) regs ->
  hd_is is_lp T = false ->
  (match toks_regs regs ++ T with
   | TLP :: r' => parse_list (p_region po) is_rp r'
   | _ => Some ([], toks_regs regs ++ T)
   end) = Some (regs, T).
Proof.
  intros regs T F H. destruct regs as [|r regs'].
  - cbn [toks_regs app]. destruct T as [|t T']; [reflexivity|]. destruct t; try reflexivity. cbn in H. discriminate.
  - unfold toks_regs. cbn [app]. rewrite <- app_assoc. cbn [app].
    apply (parse_list_ok (p_region po) (fun r0 : list (block str str (option str)) => TLB :: flat_map toks_block r0 ++ [TRB])
                         is_rp (r :: regs') TRP T); try reflexivity.
    + intros x Hx rest' _. rewrite Forall_forall in F. destruct (F x Hx) as [L B].
      cbn [app]. rewrite <- app_assoc. cbn [app]. apply p_region_ok; assumption.
    + intros x _. eexists; eexists; split; reflexivity.
Qed.

Lemma step_succ' : forall succs T X,
  X = (match succs with [] => [] | _ => TLS :: sep_by (map (fun n => [TCaret n]) succs) ++ [TRS] end) ++ T ->
  hd_is (fun t => match t with TLS => true | _ => false end) T = false ->
  (match X with TLS :: r' => parse_list p_caret is_rs r' | _ => Some ([], X) end) = Some (succs, T).
Proof. intros succs T X E H. subst X. apply step_succ. exact H. Qed.
Lemma step_props' : forall props T X,
  X = (match props with [] => [] | _ => TLT :: toks_dict props ++ [TGT] end) ++ T ->
  wf_dict props = true -> hd_is (fun t => match t with TLT => true | _ => false end) T = false ->
  (match X with
   | TLT :: r' => match p_dict r' with Some (ps, TGT :: r'') => Some (ps, r'') | _ => None end
   | _ => Some ([], X)
   end) = Some (props, T).
Proof. intros props T X E W H. subst X. apply step_props; assumption. Qed.
Lemma step_regs' : forall regs T X, X = toks_regs regs ++ T ->
  Forall (fun r => labels_ok r true /\ Forall blk_ok r) regs -> hd_is is_lp T = false ->
  (match X with TLP :: r' => parse_list (p_region po) is_rp r' | _ => Some ([], X) end) = Some (regs, T).
Proof. intros regs T X E F H. subst X. apply step_regs; assumption. Qed.
Lemma step_attrs' : forall attrs T X, X = (match attrs with [] => [] | _ => toks_dict attrs end) ++ T ->
  wf_dict attrs = true -> hd_is is_lb T = false ->
  (match X with TLB :: _ => p_dict X | _ => Some ([], X) end) = Some (attrs, T).
Proof. intros attrs T X E W H. subst X. apply step_attrs; assumption. Qed.

Definition res_part (res : list str) : list tok :=
  match res with [] => [] | _ => sep_by (map (fun n => [TPct n]) res) ++ [TEq] end.
Definition succ_part (succs : list str) : list tok :=
  match succs with [] => [] | _ => TLS :: sep_by (map (fun n => [TCaret n]) succs) ++ [TRS] end.
Definition props_part (props : list entry) : list tok :=
  match props with [] => [] | _ => TLT :: toks_dict props ++ [TGT] end.
Definition attrs_part (attrs : list entry) : list tok :=
  match attrs with [] => [] | _ => toks_dict attrs end.
Definition outs_part (ot : list atom) : list tok :=
  match ot with [t] => [atom_tok t] | _ => toks_types ot end.

Lemma toks_op_split : forall nm res args succs props regs attrs it ot rest,
  toks_op (Op nm res args succs props regs attrs it ot) ++ rest =
  res_part res ++ TStrL nm :: TLP :: sep_by (map (fun n => [TPct n]) args) ++ TRP ::
  succ_part succs ++ props_part props ++ toks_regs regs ++ attrs_part attrs ++
  TColon :: toks_types it ++ TArrow :: outs_part ot ++ rest.
Proof.
  intros. cbn [toks_op]. unfold res_part, succ_part, props_part, attrs_part, outs_part, toks_regs.
  rewrite <- !app_assoc. cbn [app]. reflexivity.
Qed.

Lemma toks_types_ok : forall l rest, forallb is_type_atom l = true ->
  parse_list p_type is_rp (sep_by (map (fun a => [atom_tok a]) l) ++ TRP :: rest) = Some (l, rest).
Proof.
  intros l rest H. apply (parse_list_ok p_type (fun a => [atom_tok a]) is_rp l TRP rest); try reflexivity.
  - intros a Ha rest' _. rewrite forallb_forall in H. cbn [app]. apply p_type_ok. apply H. exact Ha.
  - intros a _. eexists; eexists; split; [reflexivity|apply atom_tok_not_close].
Qed.

Lemma p_op_body_ok : forall nm res args succs props regs attrs it ot rest,
  (nm <? 100)%Z = true -> length args = length it -> (res = [] \/ length res = length ot) ->
  wf_dict props = true -> wf_dict attrs = true ->
  forallb is_type_atom it = true -> forallb is_type_atom ot = true ->
  Forall (fun r => labels_ok r true /\ Forall blk_ok r) regs ->
  p_op_body po (toks_op (Op nm res args succs props regs attrs it ot) ++ rest) =
  Some (Op nm res args succs props regs attrs it ot, rest).
Proof.
  intros nm res args succs props regs attrs it ot rest Hnm Ha Hr Wp Wa Wi Wo Hregs.
  rewrite toks_op_split.
  set (T4 := TColon :: toks_types it ++ TArrow :: outs_part ot ++ rest).
  set (T3 := attrs_part attrs ++ T4).
  set (T2 := toks_regs regs ++ T3).
  set (T1 := props_part props ++ T2).
  set (T0 := succ_part succs ++ T1).
  assert (H3 : hd_is is_lp T3 = false).
  { unfold T3, attrs_part, T4. destruct attrs; reflexivity. }
  assert (H2 : hd_is (fun t => match t with TLT => true | _ => false end) T2 = false).
  { unfold T2, toks_regs, T3, attrs_part, T4. destruct regs; [destruct attrs; reflexivity|reflexivity]. }
  assert (H1 : hd_is (fun t => match t with TLS => true | _ => false end) T1 = false).
  { unfold T1, props_part, T2, toks_regs, T3, attrs_part, T4.
    destruct props; [destruct regs; [destruct attrs; reflexivity|reflexivity]|reflexivity]. }
  assert (H4 : hd_is is_lb T4 = false) by reflexivity.
  unfold p_op_body. cbv zeta.
  (* results *)
  assert (AR : (match res_part res ++ TStrL nm :: TLP :: sep_by (map (fun n => [TPct n]) args) ++ TRP :: T0 with
                | TPct _ :: _ => parse_commas p_pct is_eq (length (res_part res ++ TStrL nm :: TLP :: sep_by (map (fun n => [TPct n]) args) ++ TRP :: T0))
                                   (res_part res ++ TStrL nm :: TLP :: sep_by (map (fun n => [TPct n]) args) ++ TRP :: T0)
                | _ => Some ([], res_part res ++ TStrL nm :: TLP :: sep_by (map (fun n => [TPct n]) args) ++ TRP :: T0)
                end) = Some (res, TStrL nm :: TLP :: sep_by (map (fun n => [TPct n]) args) ++ TRP :: T0)).
  { destruct res as [|x res'].
    - reflexivity.
    - unfold res_part. rewrite <- app_assoc. cbn [app].
      assert (Hd : exists r', sep_by (map (fun n => [TPct n]) (x :: res')) ++ TEq :: TStrL nm :: TLP :: sep_by (map (fun n => [TPct n]) args) ++ TRP :: T0 = TPct x :: r').
      { cbn [map sep_by]. destruct (map (fun n => [TPct n]) res'); cbn; eexists; reflexivity. }
      destruct Hd as [r' Er]. rewrite Er. rewrite <- Er.
      apply (parse_commas_ok p_pct (fun n => [TPct n]) is_eq (x :: res') TEq); try reflexivity; [discriminate|].
      rewrite app_length. pose proof (sep_by_length (map (fun n => [TPct n]) (x :: res'))) as G. rewrite map_length in G.
      assert (length (x :: res') <= length (sep_by (map (fun n => [TPct n]) (x :: res')))).
      { apply G. intros z Hz. apply in_map_iff in Hz. destruct Hz as [w [Hw _]]. subst z. discriminate. }
      lia. }
  rewrite AR. rewrite Hnm.
  rewrite (parse_list_ok p_pct (fun n => [TPct n]) is_rp args TRP T0); try reflexivity.
  2:{ intros x _. eexists; eexists; split; reflexivity. }
  rewrite (step_succ' succs T1 T0 eq_refl H1).
  rewrite (step_props' props T2 T1 eq_refl Wp H2).
  rewrite (step_regs' regs T3 T2 eq_refl Hregs H3).
  rewrite (step_attrs' attrs T4 T3 eq_refl Wa H4).
  unfold T4. unfold toks_types at 1. cbn [app]. rewrite <- app_assoc. cbn [app].
  rewrite (toks_types_ok it _ Wi).
  assert (AO : (match outs_part ot ++ rest with
                | TLP :: r6' => parse_list p_type is_rp r6'
                | _ => match p_type (outs_part ot ++ rest) with Some (a, r7) => Some ([a], r7) | None => None end
                end) = Some (ot, rest)).
  { unfold outs_part. destruct ot as [|t [|t2 ot']].
    - reflexivity.
    - cbn [app]. cbn in Wo. rewrite andb_true_r in Wo. rewrite (p_type_ok t rest Wo).
      destruct t as [k|k|k]; reflexivity.
    - unfold toks_types. cbn [app]. rewrite <- app_assoc. cbn [app]. apply toks_types_ok. exact Wo. }
  rewrite AO. rewrite Ha. rewrite Nat.eqb_refl. cbn [andb].
  destruct res as [|x res']; [reflexivity|]. destruct Hr as [Hr|Hr]; [discriminate|]. rewrite Hr. rewrite Nat.eqb_refl. reflexivity.
Qed.

End Body.

(* ---------- the theorem ---------- *)
Definition wf_blocks := fix blocks (bs : list (block str str (option str))) (first : bool) : bool :=
  match bs with
  | [] => true
  | b :: bs' => wf_block b first && blocks bs' false
  end.

Lemma wf_blocks_labels : forall bs first, wf_blocks bs first = true -> labels_ok bs first.
Proof.
  induction bs as [|[lab bargs ops] bs IH]; intros first H; [exact I|].
  cbn [wf_blocks] in H. apply andb_true_iff in H. destruct H as [H1 H2]. cbn [labels_ok]. split; [|apply IH; exact H2].
  cbn [wf_block] in H1. destruct lab as [n|]; [exact I|].
  apply andb_true_iff in H1. destruct H1 as [H1 _]. apply andb_true_iff in H1. destruct H1 as [H1 _].
  apply andb_true_iff in H1. destruct H1 as [H1 H3]. apply andb_true_iff in H1. destruct H1 as [H1 H4].
  split; [exact H1|]. split; [destruct bargs; [reflexivity|discriminate]|destruct ops; [discriminate|discriminate]].
Qed.
Lemma wf_blocks_each : forall bs first b, wf_blocks bs first = true -> In b bs -> exists fl, wf_block b fl = true.
Proof.
  induction bs as [|b0 bs IH]; intros first b H Hin; [contradiction|].
  cbn [wf_blocks] in H. apply andb_true_iff in H. destruct H as [H1 H2].
  destruct Hin as [Hin|Hin]; [subst; exists first; exact H1|eapply IH; eauto].
Qed.

Theorem parse_op_ok : forall o, wf_op o = true ->
  forall fuel, osize o <= fuel -> forall rest, parse_op fuel (toks_op o ++ rest) = Some (o, rest).
Proof.
  apply (op_ind2 (fun o => wf_op o = true -> forall fuel, osize o <= fuel -> forall rest,
                           parse_op fuel (toks_op o ++ rest) = Some (o, rest))
                 (fun b => forall first, wf_block b first = true -> forall f, bsize b <= f -> blk_ok (parse_op f) b)).
  - intros nm res args succs props regs attrs it ot IH W fuel Hf rest.
    destruct fuel as [|f]; [cbn in Hf; lia|]. cbn [parse_op].
    cbn [wf_op] in W. fold wf_blocks in W.
    repeat (apply andb_true_iff in W; let X := fresh "W" in destruct W as [W X]).
    apply p_op_body_ok; try assumption.
    + apply Nat.eqb_eq. assumption.
    + destruct res as [|x res']; [now left|right]. apply Nat.eqb_eq. assumption.
    + rewrite forallb_forall in W0. rewrite Forall_forall in IH |- *. intros r Hr. specialize (W0 r Hr).
      split; [apply wf_blocks_labels; exact W0|].
      rewrite Forall_forall. intros b Hb. specialize (IH r Hr). rewrite Forall_forall in IH.
      destruct (wf_blocks_each r true b W0 Hb) as [fl Wb].
      apply (IH b Hb fl Wb).
      cbn [osize] in Hf.
      pose proof (list_sum_in (fun r0 : list (block str str (option str)) => list_sum (map bsize r0)) regs r Hr) as S1.
      pose proof (list_sum_in bsize r b Hb) as S2. cbn beta in S1. lia.
  - intros lab bargs ops IH first W f Hf. cbn [wf_block] in W.
    apply andb_true_iff in W. destruct W as [W W2]. apply andb_true_iff in W. destruct W as [_ W1].
    cbn [blk_ok]. split; [exact W1|].
    intros o Ho rest'. rewrite Forall_forall in IH. rewrite forallb_forall in W2.
    apply (IH o Ho (W2 o Ho)). cbn [bsize] in Hf. pose proof (list_sum_in osize ops o Ho). lia.
Qed.

Lemma osize_le_length : forall o, osize o <= length (toks_op o).
Proof.
  apply (op_ind2 (fun o => osize o <= length (toks_op o)) (fun b => bsize b <= length (toks_block b))).
  - intros nm res args succs props regs attrs it ot IH. cbn [osize].
    rewrite <- (app_nil_r (toks_op _)). rewrite toks_op_split. repeat (progress (rewrite ?app_length; cbn [length])).
    assert (G : list_sum (map (fun r : list (block str str (option str)) => list_sum (map bsize r)) regs) <= length (toks_regs regs)).
    { unfold toks_regs. destruct regs as [|r0 regs0]; [cbn; lia|].
      cbn [length]. rewrite app_length.
      assert (G2 : forall rs, Forall (Forall (fun b => bsize b <= length (toks_block b))) rs ->
                 list_sum (map (fun r : list (block str str (option str)) => list_sum (map bsize r)) rs) <=
                 length (sep_by (map (fun r : list (block str str (option str)) => TLB :: flat_map toks_block r ++ [TRB]) rs))).
      { induction 1 as [|r rs Hr _ IHrs]; [cbn; lia|].
        assert (Hr' : list_sum (map bsize r) <= length (flat_map toks_block r)).
        { clear - Hr. induction Hr as [|b r Hb _ IHr]; [cbn; lia|]. cbn [map flat_map]. rewrite app_length.
          unfold list_sum in *. cbn [fold_right]. lia. }
        cbn [map]. unfold list_sum in *. cbn [fold_right]. destruct rs as [|r' rs'].
        - cbn [map sep_by fold_right]. cbn [length]. rewrite app_length. lia.
        - change (sep_by ((TLB :: flat_map toks_block r ++ [TRB]) :: map (fun r1 : list (block str str (option str)) => TLB :: flat_map toks_block r1 ++ [TRB]) (r' :: rs')))
            with ((TLB :: flat_map toks_block r ++ [TRB]) ++ TComma :: sep_by (map (fun r1 : list (block str str (option str)) => TLB :: flat_map toks_block r1 ++ [TRB]) (r' :: rs'))).
          rewrite app_length. cbn [length]. rewrite app_length. cbn [length]. lia. }
      specialize (G2 _ IH). lia. }
    lia.
  - intros lab bargs ops IH. cbn [bsize toks_block]. rewrite app_length.
    assert (G : list_sum (map osize ops) <= length (flat_map toks_op ops)).
    { induction IH as [|o os Ho _ IHos]; [cbn; lia|]. cbn [map flat_map]. rewrite app_length.
      unfold list_sum in *. cbn [fold_right]. lia. }
    lia.
Qed.

(* the text of a module parses back to the module *)
Theorem parse_toks_ok : forall res args succs props regs attrs it ot,
  let t := Op module_nm res args succs props regs attrs it ot in
  wf_op t = true -> parse_toks (toks_op t) = Some t.
Proof.
  intros res args succs props regs attrs it ot t W. unfold parse_toks.
  set (ts := toks_op t).
  assert (Hl : 2 <= length ts).
  { unfold ts, t. cbn [toks_op]. rewrite !app_length. cbn [length]. lia. }
  assert (Hp : parse_op (length ts) ts = Some (t, [])).
  { rewrite <- (app_nil_r ts) at 2. apply parse_op_ok; [exact W|apply osize_le_length]. }
  destruct (length ts) as [|f] eqn:El; [lia|]. cbn [parse_seq].
  destruct ts as [|t0 ts'] eqn:Ets; [cbn in El; lia|].
  rewrite Hp. destruct f as [|f']; [lia|]. cbn [parse_seq].
  unfold t. rewrite Z.eqb_refl. reflexivity.
Qed.

(* ---------- M1 and M3 together: the text of a skeleton ---------- *)
Fixpoint wf_skel (o : skel) : bool :=
  match o with
  | Op nm res args succs props regs attrs it ot =>
      (nm <? 100)%Z && (length args =? length it) && (match res with [] => true | _ => length res =? length ot end) &&
      wf_dict props && wf_dict attrs && forallb is_type_atom it && forallb is_type_atom ot &&
      forallb (fun r : list (block (Z * hint) Z (Z * hint)) => forallb wf_skel_block r) regs
  end
with wf_skel_block (b : block (Z * hint) Z (Z * hint)) : bool :=
  match b with
  | Bk lab bargs ops => forallb (fun a => is_type_atom (snd a)) bargs && forallb wf_skel ops
  end.

Lemma tmapP_block_eq : forall {V S L V' S' L'} (fr fa fb : V -> V') (fs : S -> S') (fl : bool -> L -> L') lab bargs ops pr,
  tmapP_block fr fa fb fs fl (Bk lab bargs ops) pr =
  Bk (fl pr lab) (map (fun a => (fb (fst a), snd a)) bargs) (map (tmapP fr fa fb fs fl) ops).
Proof. reflexivity. Qed.

Lemma forallb_map' : forall {A B} (f : A -> B) (g : B -> bool) l, forallb g (map f l) = forallb (fun x => g (f x)) l.
Proof. induction l as [|x l IH]; cbn; [reflexivity|]. rewrite IH. reflexivity. Qed.

Lemma wf_name_op : forall p ir, wf_skel ir = true -> wf_op (name_op p ir) = true.
Proof.
  intros p ir. rewrite name_op_tmapP. revert ir.
  set (TM := tmapP (nfv p) (nfv p) (nfv p) (bname_of p) (name_block_lab p)).
  set (TB := tmapP_block (nfv p) (nfv p) (nfv p) (bname_of p) (name_block_lab p)).
  apply (op_ind2 (fun o => wf_skel o = true -> wf_op (TM o) = true)
                 (fun b => forall first : bool, wf_skel_block b = true ->
                           wf_block (TB b (if first then entry_printed b else true)) first = true)).
  - intros nm res args succs props regs attrs it ot IH W. cbn [wf_skel] in W. unfold TM. rewrite tmapP_eq. cbn [wf_op]. fold wf_blocks.
    apply andb_true_iff in W. destruct W as [W WH]. apply andb_true_iff in W. destruct W as [W WG].
    apply andb_true_iff in W. destruct W as [W WF]. apply andb_true_iff in W. destruct W as [W WE].
    apply andb_true_iff in W. destruct W as [W WD]. apply andb_true_iff in W. destruct W as [W WC].
    apply andb_true_iff in W. destruct W as [WA WB].
    rewrite !map_length. rewrite WA, WB, WD, WE, WF, WG. cbn [andb].
    assert (E : (match map (nfv p) res with [] => true | _ :: _ => length res =? length ot end) = true).
    { destruct res; [reflexivity|exact WC]. }
    rewrite E. cbn [andb].
    rewrite forallb_forall in WH. apply forallb_forall. intros nr Hnr. apply in_map_iff in Hnr. destruct Hnr as [r [Er Hr]]. subst nr.
    specialize (WH r Hr). rewrite Forall_forall in IH. specialize (IH r Hr).
    assert (G : forall (r0 : list (block (Z * hint) Z (Z * hint))) (first : bool),
              forallb wf_skel_block r0 = true ->
              Forall (fun b => forall first : bool, wf_skel_block b = true ->
                               wf_block (TB b (if first then entry_printed b else true)) first = true) r0 ->
              wf_blocks (tmapP_blocks (nfv p) (nfv p) (nfv p) (bname_of p) (name_block_lab p) r0 first) first = true).
    { induction r0 as [|b r' IHr]; intros first W0 IH0; [reflexivity|].
      cbn [forallb] in W0. apply andb_true_iff in W0. destruct W0 as [Wb Wr]. inversion IH0 as [|? ? Hb Hr']; subst.
      cbn [tmapP_blocks wf_blocks]. fold TB. rewrite (Hb first Wb). cbn [andb]. apply IHr; assumption. }
    apply G; assumption.
  - intros lab bargs ops IH first W. cbn [wf_skel_block] in W. apply andb_true_iff in W. destruct W as [W1 W2].
    unfold TB. rewrite tmapP_block_eq. cbn [wf_block]. rewrite forallb_map'. cbn [snd]. rewrite W1.
    assert (E : forallb wf_op (map TM ops) = true).
    { rewrite forallb_forall in W2. apply forallb_forall. intros no Hno. apply in_map_iff in Hno. destruct Hno as [o [Eo Ho]]. subst no.
      rewrite Forall_forall in IH. apply IH; [exact Ho|apply W2; exact Ho]. }
    unfold TM in E. rewrite E. rewrite !andb_true_r.
    unfold name_block_lab. destruct first.
    + unfold entry_printed. destruct bargs as [|a bargs']; destruct ops as [|o ops']; cbn; reflexivity.
    + reflexivity.
Qed.

Theorem text_roundtrip : forall c res args succs props regs attrs it ot,
  let ir : skel := Op module_nm res args succs props regs attrs it ot in
  hints_ok c (sched ir) -> well_scoped c ir = true -> wf_skel ir = true ->
  exists ir', parse_ir c (print_ir c ir) = Ok ir' /\ skel_iso c ir ir' /\ print_ir c ir' = print_ir c ir.
Proof.
  intros c res args succs props regs attrs it ot ir Hh Hw Hs.
  destruct (roundtrip c ir Hh Hw) as [ir' [P [I R]]].
  exists ir'. unfold parse_ir, print_ir.
  assert (E : parse_toks (toks_op (print_names c ir)) = Some (print_names c ir)).
  { unfold print_names. unfold ir at 2 3. cbn [name_op].
    apply (parse_toks_ok). change (wf_op (name_op (runP c (sched ir) pst0) ir) = true). apply wf_name_op. exact Hs. }
  rewrite E. split; [exact P|]. split; [exact I|]. rewrite R. reflexivity.
Qed.
