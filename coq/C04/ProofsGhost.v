(* C04/ProofsGhost.v -- Spec: the well-scopedness of a schedule (`ws`), stated as a run of a small
   bookkeeping machine that knows nothing about names, and its invariants.

   The machine records
     g_hints   the values the printer has met so far, with the effective hint seen first
     g_frames  per active printer scope (enter_scope .. exit_scope), the values first met in it
     g_open    per open region (parser scope), the values defined in it so far
     g_pend    values the parser has resolved as forward references and not yet seen defined
     g_closed  values whose defining region has ended
     g_bseen   blocks met so far;  g_bopen  per open region: its blocks, whether the label of the
               entry block is printed, the blocks still to be labelled
   and rejects a schedule in which
     - a value is defined twice, or used / defined after the region that defines it has ended
       (SSA visibility by region nesting; the order inside a region is free: forward references are fine),
     - a value first printed inside an IsolatedFromAbove operation is not defined inside it
       (the IsolatedFromAbove verifier; with the pinned printer this also excludes an operand of the
        isolated operation that has not been printed before, see C04_iso_operand_refuted),
     - a value is met with two different hints, a block occurs in two regions, a successor is not a block
       of the enclosing region or is an entry block whose label is not printed, the labels do not follow
       the block list, a value is used and never defined. *)
From Coq Require Import ZArith List Bool Arith Lia.
From XV Require Import C04.Model C04.ProofsStr.
Import ListNotations.

Definition memZ (v : Z) (l : list Z) : bool := existsb (Z.eqb v) l.
Fixpoint removeZ (v : Z) (l : list Z) : list Z :=
  match l with [] => [] | x :: r => if Z.eqb v x then removeZ v r else x :: removeZ v r end.
Fixpoint nodupZ (l : list Z) : bool :=
  match l with [] => true | x :: r => negb (memZ x r) && nodupZ r end.
Definition hint_eqb (a b : option str) : bool :=
  match a, b with
  | None, None => true
  | Some x, Some y => str_eqb x y
  | _, _ => false
  end.

Record gst := G {
  g_hints : list (Z * option str);
  g_frames : list (list Z);
  g_open : list (list Z);
  g_pend : list Z;
  g_closed : list Z;
  g_bseen : list Z;
  g_bopen : list (list (Z * hint) * bool * list (Z * hint))
}.
Definition g0 : gst := G [] [[]] [[]] [] [] [] [].

Definition g_mention (v : Z) (h : hint) (g : gst) : option gst :=
  match lookupZ v (g_hints g) with
  | Some h0 => if hint_eqb h0 (eff_hint h) then Some g else None
  | None =>
      match g_frames g with
      | f :: fs => Some (G ((v, eff_hint h) :: g_hints g) ((v :: f) :: fs) (g_open g) (g_pend g)
                           (g_closed g) (g_bseen g) (g_bopen g))
      | [] => None
      end
  end.
Definition g_define (v : Z) (g : gst) : option gst :=
  match lookupZ v (g_hints g) with
  | None => None
  | Some _ =>
      if memZ v (concat (g_open g)) || memZ v (g_closed g) then None else
      match g_open g with
      | o :: os => Some (G (g_hints g) (g_frames g) ((v :: o) :: os) (removeZ v (g_pend g))
                           (g_closed g) (g_bseen g) (g_bopen g))
      | [] => None
      end
  end.
Definition g_use (v : Z) (g : gst) : option gst :=
  match lookupZ v (g_hints g) with
  | None => None
  | Some _ =>
      if memZ v (g_closed g) then None else
      if memZ v (concat (g_open g)) || memZ v (g_pend g) then Some g else
      Some (G (g_hints g) (g_frames g) (g_open g) (v :: g_pend g) (g_closed g) (g_bseen g) (g_bopen g))
  end.

Definition ws_step (c : cfg) (a : sact) (g : gst) : option gst :=
  match a with
  | Ares (v, h) | Aarg (v, h) => g_mention v h g
  | Apre (v, h) => if fx_iso_operands c then g_mention v h g else Some g
  | Aenter => Some (G (g_hints g) ([] :: g_frames g) (g_open g) (g_pend g) (g_closed g) (g_bseen g) (g_bopen g))
  | Aexit =>
      match g_frames g with
      | f :: f2 :: fs =>
          if forallb (fun v => memZ v (g_closed g)) f
          then Some (G (g_hints g) (f2 :: fs) (g_open g) (g_pend g) (g_closed g) (g_bseen g) (g_bopen g))
          else None
      | _ => None
      end
  | Asucc b =>
      match g_bopen g with
      | (ls, ep, _) :: _ =>
          if memZ b (map fst ls) && (ep || negb (match ls with x :: _ => Z.eqb b (fst x) | [] => false end))
          then Some g else None
      | [] => None
      end
  | Arbegin ls ep =>
      let ids := map fst ls in
      if nodupZ ids && forallb (fun b => negb (memZ b (g_bseen g))) ids
      then Some (G (g_hints g) (g_frames g) ([] :: g_open g) (g_pend g) (g_closed g) (ids ++ g_bseen g)
                   ((ls, ep, ls) :: g_bopen g))
      else None
  | Alabel (b, h) printed =>
      match g_bopen g with
      | (ls, ep, x :: rem) :: bs =>
          if Z.eqb b (fst x) && hint_eqb h (snd x) &&
             Bool.eqb printed (if length rem + 1 =? length ls then ep else true)
          then Some (G (g_hints g) (g_frames g) (g_open g) (g_pend g) (g_closed g) (g_bseen g)
                       ((ls, ep, rem) :: bs))
          else None
      | _ => None
      end
  | Abarg (v, h) => match g_mention v h g with Some g1 => g_define v g1 | None => None end
  | Arend =>
      match g_open g, g_bopen g with
      | o :: (o2 :: os), (ids, ep, []) :: bs =>
          Some (G (g_hints g) (g_frames g) (o2 :: os) (g_pend g) (o ++ g_closed g) (g_bseen g) bs)
      | _, _ => None
      end
  | Aarg_post (v, _) => g_use v g
  | Ares_post (v, _) => g_define v g
  end.

Fixpoint ws_run (c : cfg) (l : list sact) (g : gst) : option gst :=
  match l with
  | [] => Some g
  | a :: r => match ws_step c a g with Some g1 => ws_run c r g1 | None => None end
  end.

(* at the end: no pending forward reference, every region closed, every printed value defined *)
Definition ws_final (g : gst) : bool :=
  match g_pend g, g_bopen g with
  | [], [] => forallb (fun vh => memZ (fst vh) (concat (g_open g)) || memZ (fst vh) (g_closed g)) (g_hints g)
  | _, _ => false
  end.
Definition ws (c : cfg) (l : list sact) : bool :=
  match ws_run c l g0 with
  | Some g => ws_final g
  | None => false
  end.
Definition well_scoped (c : cfg) (ir : skel) : bool := ws c (sched ir).

Lemma ws_run_app : forall c l1 l2 g, ws_run c (l1 ++ l2) g =
  match ws_run c l1 g with Some g1 => ws_run c l2 g1 | None => None end.
Proof.
  induction l1 as [|a l1 IH]; intros l2 g; cbn; [reflexivity|].
  destruct (ws_step c a g); [apply IH|reflexivity].
Qed.

(* ---------- hints of a schedule ---------- *)
Definition vhint_ok (h : hint) : Prop := forall hs, eff_hint h = Some hs -> good_hint hs.
Definition bhint_ok (c : cfg) (h : hint) : Prop :=
  forall hs, eff_hint h = Some hs -> good_hint hs /\ (fx_block_default c = false -> is_default hs = false).
Definition act_hints_ok (c : cfg) (a : sact) : Prop :=
  match a with
  | Ares (v, h) | Aarg (v, h) | Apre (v, h) | Abarg (v, h) | Aarg_post (v, h) | Ares_post (v, h) => vhint_ok h
  | Arbegin ls ep =>
      Forall (fun l => bhint_ok c (snd l)) ls /\
      (fx_entry_hint c = false -> ep = false -> match ls with l :: _ => eff_hint (snd l) = None | [] => True end)
  | Alabel (b, h) _ => bhint_ok c h
  | _ => True
  end.
Definition hints_ok (c : cfg) (l : list sact) : Prop := Forall (act_hints_ok c) l.

(* ---------- list facts ---------- *)
Lemma memZ_In : forall v l, memZ v l = true <-> In v l.
Proof.
  intros v l. unfold memZ. rewrite existsb_exists. split.
  - intros [x [H1 H2]]. apply Z.eqb_eq in H2. subst. exact H1.
  - intro H. exists v. split; [exact H|apply Z.eqb_refl].
Qed.
Lemma memZ_false : forall v l, memZ v l = false <-> ~ In v l.
Proof.
  intros v l. split; intro H.
  - intro I. apply memZ_In in I. congruence.
  - destruct (memZ v l) eqn:E; [apply memZ_In in E; contradiction|reflexivity].
Qed.
Lemma removeZ_In : forall v x l, In x (removeZ v l) <-> In x l /\ x <> v.
Proof.
  induction l as [|y l IH]; cbn; [tauto|].
  destruct (Z.eqb_spec v y) as [E|E].
  - subst. rewrite IH. split; [tauto|]. intros [[H|H] N]; [congruence|tauto].
  - cbn. rewrite IH. split.
    + intros [H|[H1 H2]]; [subst; split; [now left|congruence]|tauto].
    + intros [[H|H] N]; [now left|right; tauto].
Qed.
Lemma removeZ_NoDup : forall v l, NoDup l -> NoDup (removeZ v l).
Proof.
  induction l as [|y l IH]; cbn; intro H; [constructor|].
  inversion H; subst. destruct (Z.eqb v y); [auto|].
  constructor; [|auto]. intro I. apply removeZ_In in I. tauto.
Qed.
Lemma removeZ_notin : forall v l, ~ In v l -> removeZ v l = l.
Proof.
  induction l as [|y l IH]; cbn; intro H; [reflexivity|].
  destruct (Z.eqb_spec v y); [subst; exfalso; apply H; now left|]. f_equal. apply IH. tauto.
Qed.
Lemma nodupZ_NoDup : forall l, nodupZ l = true <-> NoDup l.
Proof.
  induction l as [|x l IH]; cbn; [split; [constructor|reflexivity]|].
  rewrite andb_true_iff, negb_true_iff, memZ_false, IH. split.
  - intros [H1 H2]. constructor; assumption.
  - intro H. inversion H; tauto.
Qed.

Lemma NoDup_app_disj : forall {A} (a b : list A), NoDup (a ++ b) -> forall x, In x a -> In x b -> False.
Proof.
  induction a as [|y a IH]; cbn; intros b H x Ha Hb; [contradiction|].
  inversion H; subst. destruct Ha as [Ha|Ha].
  - subst. apply H2. apply in_or_app. now right.
  - exact (IH b H3 x Ha Hb).
Qed.
Lemma NoDup_app_intro : forall {A} (a b : list A), NoDup a -> NoDup b ->
  (forall x, In x a -> In x b -> False) -> NoDup (a ++ b).
Proof.
  induction a as [|y a IH]; cbn; intros b Ha Hb D; [exact Hb|].
  inversion Ha; subst. constructor.
  - intro X. apply in_app_or in X. destruct X as [X|X]; [contradiction|]. exact (D y (or_introl eq_refl) X).
  - apply IH; auto. intros x X1 X2. exact (D x (or_intror X1) X2).
Qed.

Lemma NoDup_app_remove_l : forall {A} (a b : list A), NoDup (a ++ b) -> NoDup b.
Proof. induction a as [|y a IH]; cbn; intros b H; [exact H|]. inversion H; subst. auto. Qed.
Lemma NoDup_app_remove_r : forall {A} (a b : list A), NoDup (a ++ b) -> NoDup a.
Proof.
  induction a as [|y a IH]; cbn; intros b H; [constructor|]. inversion H; subst. constructor.
  - intro X. apply H2. apply in_or_app. now left.
  - eauto.
Qed.

(* ---------- invariants of the bookkeeping ---------- *)
Definition live (g : gst) : list Z := concat (g_open g) ++ g_pend g.
Definition active (g : gst) : list Z := concat (g_frames g).

Record GInv (g : gst) : Prop := {
  gi_frames_nd : NoDup (active g);
  gi_printed : forall v, lookupZ v (g_hints g) <> None -> In v (active g) \/ In v (g_closed g);
  gi_active_printed : forall v, In v (active g) -> lookupZ v (g_hints g) <> None;
  gi_open_active : forall v, In v (concat (g_open g)) -> In v (active g);
  gi_pend_active : forall v, In v (g_pend g) -> In v (active g);
  gi_closed_open : forall v, In v (g_closed g) -> ~ In v (concat (g_open g));
  gi_closed_pend : forall v, In v (g_closed g) -> ~ In v (g_pend g);
  gi_open_nd : NoDup (concat (g_open g));
  gi_pend_nd : NoDup (g_pend g);
  gi_pend_open : forall v, In v (g_pend g) -> ~ In v (concat (g_open g))
}.

Lemma GInv_g0 : GInv g0.
Proof. constructor; cbn; try constructor; try tauto; try congruence. Qed.

Lemma g_mention_inv : forall v h g g1, GInv g -> g_mention v h g = Some g1 -> GInv g1.
Proof.
  intros v h g g1 I H. unfold g_mention in H.
  destruct (lookupZ v (g_hints g)) as [h0|] eqn:E.
  - destruct (hint_eqb h0 (eff_hint h)); inversion H; subst; exact I.
  - destruct (g_frames g) as [|f fs] eqn:Ef; [discriminate|]. inversion H; subst; clear H.
    destruct I as [I1 I2 I3 I4 I5 I6 I7 I8 I9 I10]. unfold active in *. rewrite Ef in *. cbn [concat app] in *.
    assert (Nv : ~ In v (f ++ concat fs)).
    { intro X. apply I3 in X. congruence. }
    constructor; unfold active, live; cbn [g_hints g_frames g_open g_pend g_closed concat app lookupZ].
    + constructor; assumption.
    + intros w Hw. destruct (Z.eqb_spec w v) as [Ev|Ev]; [left; now left|].
      destruct (I2 w Hw) as [X|X]; [left; now right|now right].
    + intros w [Hw|Hw]; [subst; rewrite Z.eqb_refl; discriminate|].
      destruct (Z.eqb_spec w v); [discriminate|apply I3; exact Hw].
    + intros w Hw. right. apply I4. exact Hw.
    + intros w Hw. right. apply I5. exact Hw.
    + exact I6.
    + exact I7.
    + exact I8.
    + exact I9.
    + exact I10.
Qed.

Lemma g_mention_hints : forall v h g g1, g_mention v h g = Some g1 ->
  lookupZ v (g_hints g1) = Some (eff_hint h) /\
  g_open g1 = g_open g /\ g_pend g1 = g_pend g /\ g_closed g1 = g_closed g /\ g_bopen g1 = g_bopen g /\
  g_bseen g1 = g_bseen g /\
  (forall w, lookupZ w (g_hints g) <> None -> lookupZ w (g_hints g1) = lookupZ w (g_hints g)).
Proof.
  intros v h g g1 H. unfold g_mention in H.
  destruct (lookupZ v (g_hints g)) as [h0|] eqn:E.
  - destruct (hint_eqb h0 (eff_hint h)) eqn:Eh; inversion H; subst.
    assert (h0 = eff_hint h).
    { destruct h0, (eff_hint h); cbn in Eh; try discriminate; [apply str_eqb_eq in Eh; congruence|reflexivity]. }
    subst. tauto.
  - destruct (g_frames g) as [|f fs]; [discriminate|]. inversion H; subst; clear H. cbn.
    rewrite Z.eqb_refl. repeat split; try reflexivity.
    intros w Hw. destruct (Z.eqb_spec w v); [subst; congruence|reflexivity].
Qed.

Lemma g_define_inv : forall v g g1, GInv g -> g_define v g = Some g1 -> GInv g1.
Proof.
  intros v g g1 I H. unfold g_define in H.
  destruct (lookupZ v (g_hints g)) as [h0|] eqn:E; [|discriminate].
  destruct (memZ v (concat (g_open g)) || memZ v (g_closed g)) eqn:Em; [discriminate|].
  apply orb_false_iff in Em. destruct Em as [Em1 Em2]. apply memZ_false in Em1. apply memZ_false in Em2.
  destruct (g_open g) as [|o os] eqn:Eo; [discriminate|]. inversion H; subst; clear H.
  destruct I as [I1 I2 I3 I4 I5 I6 I7 I8 I9 I10]. rewrite Eo in *. cbn [concat] in *.
  assert (Av : In v (active g)).
  { destruct (I2 v) as [X|X]; [congruence|exact X|contradiction]. }
  constructor; unfold active, live in *; cbn [g_hints g_frames g_open g_pend g_closed concat app].
  - exact I1.
  - exact I2.
  - exact I3.
  - intros w [Hw|Hw]; [subst; exact Av|apply I4; exact Hw].
  - intros w Hw. apply removeZ_In in Hw. apply I5. tauto.
  - intros w Hw [X|X]; [subst; contradiction|exact (I6 w Hw X)].
  - intros w Hw X. apply removeZ_In in X. exact (I7 w Hw (proj1 X)).
  - constructor; assumption.
  - apply removeZ_NoDup. exact I9.
  - intros w Hw [X|X].
    + subst. apply removeZ_In in Hw. tauto.
    + apply removeZ_In in Hw. exact (I10 w (proj1 Hw) X).
Qed.

Lemma g_use_inv : forall v g g1, GInv g -> g_use v g = Some g1 -> GInv g1.
Proof.
  intros v g g1 I H. unfold g_use in H.
  destruct (lookupZ v (g_hints g)) as [h0|] eqn:E; [|discriminate].
  destruct (memZ v (g_closed g)) eqn:Ec; [discriminate|]. apply memZ_false in Ec.
  destruct (memZ v (concat (g_open g)) || memZ v (g_pend g)) eqn:Em; inversion H; subst; clear H; [exact I|].
  apply orb_false_iff in Em. destruct Em as [Em1 Em2]. apply memZ_false in Em1. apply memZ_false in Em2.
  destruct I as [I1 I2 I3 I4 I5 I6 I7 I8 I9 I10].
  assert (Av : In v (active g)).
  { destruct (I2 v) as [X|X]; [congruence|exact X|contradiction]. }
  constructor; unfold active, live in *; cbn [g_hints g_frames g_open g_pend g_closed].
  - exact I1.
  - exact I2.
  - exact I3.
  - exact I4.
  - intros w [Hw|Hw]; [subst; exact Av|apply I5; exact Hw].
  - exact I6.
  - intros w Hw [X|X]; [subst; contradiction|exact (I7 w Hw X)].
  - exact I8.
  - constructor; assumption.
  - intros w [Hw|Hw]; [subst; exact Em1|apply I10; exact Hw].
Qed.

Lemma ws_step_inv : forall c a g g1, GInv g -> ws_step c a g = Some g1 -> GInv g1.
Proof.
  intros c a g g1 I H. destruct a as [[v h]|[v h]| |[v h]|b|ls ep|[b h] pr|[v h]| | |[v h]|[v h]]; cbn in H.
  - eapply g_mention_inv; eauto.
  - destruct (fx_iso_operands c); [eapply g_mention_inv; eauto|inversion H; subst; exact I].
  - inversion H; subst; clear H. destruct I. constructor; unfold active in *; cbn in *; assumption.
  - eapply g_mention_inv; eauto.
  - destruct (g_bopen g) as [|[[ids ep] rem] bs]; [discriminate|].
    destruct (_ && _); inversion H; subst; exact I.
  - destruct (_ && _); [|discriminate]. inversion H; subst; clear H.
    destruct I. constructor; unfold active in *; cbn in *; assumption.
  - destruct (g_bopen g) as [|[[ids ep] [|x rem]] bs]; try discriminate.
    destruct (_ && _); [|discriminate]. inversion H; subst; clear H.
    destruct I. constructor; unfold active in *; cbn in *; assumption.
  - destruct (g_mention v h g) as [g2|] eqn:E; [|discriminate].
    eapply g_define_inv; [|exact H]. eapply g_mention_inv; eauto.
  - destruct (g_open g) as [|o [|o2 os]] eqn:Eo; try discriminate.
    destruct (g_bopen g) as [|[[ids ep] [|x rem]] bs]; try discriminate.
    inversion H; subst; clear H.
    destruct I as [I1 I2 I3 I4 I5 I6 I7 I8 I9 I10]. rewrite Eo in *. cbn [concat] in *.
    constructor; unfold active in *; cbn [g_hints g_frames g_open g_pend g_closed concat].
    + exact I1.
    + intros w Hw. destruct (I2 w Hw) as [X|X]; [now left|right; apply in_or_app; now right].
    + exact I3.
    + intros w Hw. apply I4. apply in_or_app. now right.
    + exact I5.
    + intros w Hw X. apply in_app_or in Hw. destruct Hw as [Hw|Hw].
      * exact (NoDup_app_disj _ _ I8 w Hw X).
      * apply (I6 w Hw). apply in_or_app. now right.
    + intros w Hw X. apply in_app_or in Hw. destruct Hw as [Hw|Hw].
      * apply (I10 w X). apply in_or_app. now left.
      * exact (I7 w Hw X).
    + apply NoDup_app_remove_l in I8. exact I8.
    + exact I9.
    + intros w Hw X. apply (I10 w Hw). apply in_or_app. now right.
  - destruct (g_frames g) as [|f [|f2 fs]] eqn:Ef; try discriminate.
    destruct (forallb _ f) eqn:Ec; [|discriminate]. inversion H; subst; clear H.
    rewrite forallb_forall in Ec.
    destruct I as [I1 I2 I3 I4 I5 I6 I7 I8 I9 I10]. unfold active in *. rewrite Ef in *. cbn [concat] in *.
    assert (Hf : forall w, In w f -> In w (g_closed g)).
    { intros w Hw. apply memZ_In. apply Ec. exact Hw. }
    constructor; unfold active; cbn [g_hints g_frames g_open g_pend g_closed concat].
    + apply NoDup_app_remove_l in I1. exact I1.
    + intros w Hw. destruct (I2 w Hw) as [X|X]; [|now right].
      apply in_app_or in X. destruct X as [X|X]; [right; auto|now left].
    + intros w Hw. apply I3. apply in_or_app. now right.
    + intros w Hw. pose proof (I4 w Hw) as X. apply in_app_or in X. destruct X as [X|X]; [|exact X].
      exfalso. exact (I6 w (Hf w X) Hw).
    + intros w Hw. pose proof (I5 w Hw) as X. apply in_app_or in X. destruct X as [X|X]; [|exact X].
      exfalso. exact (I7 w (Hf w X) Hw).
    + exact I6.
    + exact I7.
    + exact I8.
    + exact I9.
    + exact I10.
  - eapply g_use_inv; eauto.
  - eapply g_define_inv; eauto.
Qed.

Lemma ws_run_inv : forall c l g g1, GInv g -> ws_run c l g = Some g1 -> GInv g1.
Proof.
  induction l as [|a l IH]; cbn; intros g g1 I H.
  - inversion H; subst; exact I.
  - destruct (ws_step c a g) as [g2|] eqn:E; [|discriminate].
    eapply IH; [|exact H]. eapply ws_step_inv; eauto.
Qed.

Lemma live_active : forall g v, GInv g -> In v (live g) -> In v (active g).
Proof.
  intros g v I H. unfold live in H. apply in_app_or in H. destruct H as [H|H].
  - apply (gi_open_active g I). exact H.
  - apply (gi_pend_active g I). exact H.
Qed.
Lemma live_nodup : forall g, GInv g -> NoDup (live g).
Proof.
  intros g I. unfold live. apply NoDup_app_intro.
  - apply (gi_open_nd g I).
  - apply (gi_pend_nd g I).
  - intros v H1 H2. exact (gi_pend_open g I v H2 H1).
Qed.
