(* C04/ProofsLex.v -- M2: names the IR API accepts vs names the lexer reads as one token.
   The regular expressions are the ones re-translated from the source on every run
   (Gen/C04_current.v); the statements are about CPython's backtracking matcher as modelled in
   C07/Regex.v (bt_fullmatch = Pattern.fullmatch, bt_match = Pattern.match at the current position). *)
From Coq Require Import ZArith List Bool Arith Lia.
From XV Require Import C07.Regex C07.RegexProofs C04.Model C04.ProofsStr.
Import ListNotations.

Section Lex.
Variable U : named -> Z -> bool.
Notation mem := (Regex.mem U).

Definition outc (x : Regex.res) : mres := snd x.

(* a greedy class star followed by a continuation that succeeds where the class stops *)
Lemma star_greedy : forall c k t rest fuel,
  forallb (mem c) t = true ->
  (rest = [] \/ exists y r', rest = y :: r' /\ mem c y = false) ->
  outc (k rest) <> MNone ->
  length (t ++ rest) < fuel ->
  outc (star_loop U (Chr c) k fuel (t ++ rest)) = outc (k rest).
Proof.
  intros c k. induction t as [|x t IH]; intros rest fuel Ht Hr Hk Hf.
  - cbn [app] in *. destruct fuel as [|f]; [lia|].
    assert (E : Regex.bt U (Chr c) rest (cont_of U (Chr c) k f rest) = (1, MNone)).
    { destruct Hr as [Hr|[y [r' [Hr Hm]]]]; subst rest; [apply chr_nil|apply chr_miss; exact Hm]. }
    rewrite (pair_eta (k rest)) in Hk |- *. cbn [outc snd] in *.
    rewrite (loop_fail U (Chr c) k f rest 1 (fst (k rest)) (snd (k rest)) E); [reflexivity|].
    rewrite <- pair_eta. reflexivity.
  - cbn [app forallb] in *. apply andb_true_iff in Ht. destruct Ht as [Hx Ht].
    destruct fuel as [|f]; [cbn in Hf; lia|].
    assert (Hc : cont_of U (Chr c) k f (x :: t ++ rest) (t ++ rest) = star_loop U (Chr c) k f (t ++ rest)).
    { unfold cont_of. cbn [length]. assert (L : length (t ++ rest) <? S (length (t ++ rest)) = true) by (apply Nat.ltb_lt; lia).
      rewrite L. reflexivity. }
    assert (IHo : outc (star_loop U (Chr c) k f (t ++ rest)) = outc (k rest)).
    { apply IH; try assumption. cbn in Hf. lia. }
    destruct (star_loop U (Chr c) k f (t ++ rest)) as [d o] eqn:Ey. cbn [outc snd] in IHo.
    assert (E : Regex.bt U (Chr c) (x :: t ++ rest) (cont_of U (Chr c) k f (x :: t ++ rest)) = (S d, o)).
    { apply chr_hit; [exact Hx|]. rewrite Hc. reflexivity. }
    rewrite (loop_succ U (Chr c) k f (x :: t ++ rest) (S d) o E); [cbn [outc snd]; exact IHo|].
    rewrite IHo. exact Hk.
Qed.

(* a class star that has to reach the end of the text: every character is in the class *)
Lemma star_full : forall c s fuel s',
  outc (star_loop U (Chr c) (at_end) fuel s) = MSome s' -> forallb (mem c) s = true /\ s' = [].
Proof.
  intros c. induction s as [|x s IH]; intros fuel s' H.
  - destruct fuel as [|f]; [cbn in H; discriminate|].
    assert (E : Regex.bt U (Chr c) [] (cont_of U (Chr c) at_end f []) = (1, MNone)) by apply chr_nil.
    rewrite (loop_fail U (Chr c) at_end f [] 1 1 (MSome []) E) in H by reflexivity.
    cbn in H. inversion H. split; reflexivity.
  - destruct fuel as [|f]; [cbn in H; discriminate|].
    destruct (mem c x) eqn:Hx.
    + assert (Hc : cont_of U (Chr c) at_end f (x :: s) s = star_loop U (Chr c) at_end f s).
      { unfold cont_of. cbn [length]. assert (L : length s <? S (length s) = true) by (apply Nat.ltb_lt; lia).
        rewrite L. reflexivity. }
      destruct (star_loop U (Chr c) at_end f s) as [d o] eqn:Ey.
      assert (E : Regex.bt U (Chr c) (x :: s) (cont_of U (Chr c) at_end f (x :: s)) = (S d, o)).
      { apply chr_hit; [exact Hx|]. rewrite Hc. reflexivity. }
      destruct o as [s''| |].
      * rewrite (loop_succ U (Chr c) at_end f (x :: s) (S d) (MSome s'') E) in H by discriminate.
        cbn in H. inversion H; subst s''. destruct (IH f s') as [A B]; [rewrite Ey; reflexivity|].
        cbn. rewrite Hx, A. tauto.
      * rewrite (loop_fail U (Chr c) at_end f (x :: s) (S d) 1 MNone E) in H by reflexivity. cbn in H. discriminate.
      * rewrite (loop_succ U (Chr c) at_end f (x :: s) (S d) MFuel E) in H by discriminate. cbn in H. discriminate.
    + assert (E : Regex.bt U (Chr c) (x :: s) (cont_of U (Chr c) at_end f (x :: s)) = (1, MNone)) by (apply chr_miss; exact Hx).
      rewrite (loop_fail U (Chr c) at_end f (x :: s) 1 1 MNone E) in H by reflexivity. cbn in H. discriminate.
Qed.

Lemma cat_chr_star : forall c0 c1 x t k,
  Regex.bt U (Cat (Chr c0) (Star (Chr c1))) (x :: t) k =
  if mem c0 x then (let '(d, o) := star_loop U (Chr c1) k (S (length t)) t in (S d, o)) else (1, MNone).
Proof. reflexivity. Qed.
Lemma cat_chr_star_nil : forall c0 c1 k, Regex.bt U (Cat (Chr c0) (Star (Chr c1))) [] k = (1, MNone).
Proof. reflexivity. Qed.

(* _VALUE_NAME_PATTERN has the shape  c0 c1*  *)
Lemma fullmatch_class_star : forall c0 c1 s,
  outc (bt_fullmatch U (Cat (Chr c0) (Star (Chr c1))) s) = MSome [] ->
  exists x t, s = x :: t /\ mem c0 x = true /\ forallb (mem c1) t = true.
Proof.
  intros c0 c1 s H. unfold bt_fullmatch in H.
  destruct s as [|x t]; [rewrite cat_chr_star_nil in H; discriminate|].
  rewrite cat_chr_star in H.
  destruct (mem c0 x) eqn:Hx; [|discriminate].
  exists x, t. split; [reflexivity|]. split; [exact Hx|].
  assert (H2 : outc (star_loop U (Chr c1) at_end (S (length t)) t) = MSome []).
  { destruct (star_loop U (Chr c1) at_end (S (length t)) t) as [d o]. exact H. }
  destruct (star_full c1 t (S (length t)) [] H2) as [A _]. exact A.
Qed.

(* mlir_lexer._suffix_id has the shape  d d* | e0 e1*  *)
Definition sep (c : cset) (rest : list Z) : Prop := rest = [] \/ exists y r', rest = y :: r' /\ mem c y = false.

Lemma suffix_id_ident : forall d e0 e1 x t rest,
  mem d x = false -> mem e0 x = true -> forallb (mem e1) t = true -> sep e1 rest ->
  outc (bt_match U (Alt (Cat (Chr d) (Star (Chr d))) (Cat (Chr e0) (Star (Chr e1)))) ((x :: t) ++ rest)) = MSome rest.
Proof.
  intros d e0 e1 x t rest Hd He0 He1 Hs. unfold bt_match. cbn [app].
  assert (A : Regex.bt U (Cat (Chr d) (Star (Chr d))) (x :: t ++ rest) accept = (1, MNone)).
  { rewrite cat_chr_star. rewrite Hd. reflexivity. }
  assert (B : outc (Regex.bt U (Cat (Chr e0) (Star (Chr e1))) (x :: t ++ rest) accept) = MSome rest).
  { rewrite cat_chr_star. rewrite He0.
    destruct (star_loop U (Chr e1) accept (S (length (t ++ rest))) (t ++ rest)) as [dd o] eqn:E. cbn [outc snd].
    pose proof (star_greedy e1 accept t rest (S (length (t ++ rest))) He1 Hs) as G.
    rewrite E in G. cbn [outc snd accept] in G. apply G; [discriminate|lia]. }
  destruct (Regex.bt U (Cat (Chr e0) (Star (Chr e1))) (x :: t ++ rest) accept) as [db ob] eqn:Eb.
  rewrite (alt_fail U _ _ _ _ 1 db ob A Eb). exact B.
Qed.
Lemma suffix_id_number : forall d e0 e1 x t rest,
  mem d x = true -> forallb (mem d) t = true -> sep d rest ->
  outc (bt_match U (Alt (Cat (Chr d) (Star (Chr d))) (Cat (Chr e0) (Star (Chr e1)))) ((x :: t) ++ rest)) = MSome rest.
Proof.
  intros d e0 e1 x t rest Hd Ht Hs. unfold bt_match. cbn [app].
  assert (B : outc (Regex.bt U (Cat (Chr d) (Star (Chr d))) (x :: t ++ rest) accept) = MSome rest).
  { rewrite cat_chr_star. rewrite Hd.
    destruct (star_loop U (Chr d) accept (S (length (t ++ rest))) (t ++ rest)) as [dd o] eqn:E. cbn [outc snd].
    pose proof (star_greedy d accept t rest (S (length (t ++ rest))) Ht Hs) as G.
    rewrite E in G. cbn [outc snd accept] in G. apply G; [discriminate|lia]. }
  destruct (Regex.bt U (Cat (Chr d) (Star (Chr d))) (x :: t ++ rest) accept) as [db ob] eqn:Eb.
  cbn [outc snd] in B. subst ob.
  rewrite (alt_succ U _ _ _ _ db (MSome rest) Eb); [reflexivity|discriminate].
Qed.

(* ---------- classes given as plain ASCII ranges agree with the hand model of Model.v ---------- *)
Definition plain_ascii (c : cset) : bool :=
  negb (cs_neg c) && match cs_named c with [] => true | _ => false end &&
  forallb (fun r => (0 <=? fst r)%Z && (snd r <=? 127)%Z) (cs_ranges c).
Definition agree_upto (c : cset) (p : Z -> bool) : bool :=
  forallb (fun n => Bool.eqb (existsb (in_range (Z.of_nat n)) (cs_ranges c)) (p (Z.of_nat n))) (seq 0 128).
Definition class_is (c : cset) (p : Z -> bool) : bool := plain_ascii c && agree_upto c p.

Lemma class_is_sound : forall c p, (forall x, (x < 0 \/ 127 < x)%Z -> p x = false) ->
  class_is c p = true -> forall x, mem c x = p x.
Proof.
  intros c p Hout H x. unfold class_is in H. apply andb_true_iff in H. destruct H as [H1 H2].
  unfold plain_ascii in H1. apply andb_true_iff in H1. destruct H1 as [H1 H3]. apply andb_true_iff in H1. destruct H1 as [H0 H1].
  unfold Regex.mem. apply negb_true_iff in H0. rewrite H0. destruct (cs_named c); [|discriminate]. cbn [existsb]. rewrite orb_false_r. cbn [xorb].
  destruct (Z_lt_dec x 0) as [L|L]; [|destruct (Z_lt_dec 127 x) as [G|G]].
  - rewrite Hout by lia. destruct (existsb (in_range x) (cs_ranges c)) eqn:E; [|reflexivity].
    apply existsb_exists in E. destruct E as [r [Hr Hi]]. rewrite forallb_forall in H3. specialize (H3 r Hr).
    unfold in_range in Hi. apply andb_true_iff in H3. apply andb_true_iff in Hi. destruct H3 as [A1 A2]. destruct Hi as [B1 B2].
    apply Z.leb_le in A1, A2, B1, B2. lia.
  - rewrite Hout by lia. destruct (existsb (in_range x) (cs_ranges c)) eqn:E; [|reflexivity].
    apply existsb_exists in E. destruct E as [r [Hr Hi]]. rewrite forallb_forall in H3. specialize (H3 r Hr).
    unfold in_range in Hi. apply andb_true_iff in H3. apply andb_true_iff in Hi. destruct H3 as [A1 A2]. destruct Hi as [B1 B2].
    apply Z.leb_le in A1, A2, B1, B2. lia.
  - unfold agree_upto in H2. rewrite forallb_forall in H2. specialize (H2 (Z.to_nat x)).
    rewrite Z2Nat.id in H2 by lia. assert (H2' : Bool.eqb (existsb (in_range x) (cs_ranges c)) (p x) = true) by (apply H2; apply in_seq; lia).
    apply eqb_prop in H2'. rewrite <- H2'. destruct (existsb (in_range x) (cs_ranges c)); reflexivity.
Qed.

Lemma is_digit_out : forall x, (x < 0 \/ 127 < x)%Z -> is_digit x = false.
Proof. intros x H. unfold is_digit. destruct (Z.leb_spec 48 x), (Z.leb_spec x 57); cbn; try reflexivity; lia. Qed.
Lemma id_start_out : forall x, (x < 0 \/ 127 < x)%Z -> id_start x = false.
Proof.
  intros x H. unfold id_start, is_alpha, is_punct.
  repeat match goal with
  | |- context [(?a <=? ?b)%Z] => destruct (Z.leb_spec a b)
  | |- context [(?a =? ?b)%Z] => destruct (Z.eqb_spec a b)
  end; cbn; try reflexivity; lia.
Qed.
Lemma id_cont_out : forall x, (x < 0 \/ 127 < x)%Z -> id_cont x = false.
Proof.
  intros x H. unfold id_cont. rewrite is_digit_out by exact H. unfold is_alpha, is_punct.
  repeat match goal with
  | |- context [(?a <=? ?b)%Z] => destruct (Z.leb_spec a b)
  | |- context [(?a =? ?b)%Z] => destruct (Z.eqb_spec a b)
  end; cbn; try reflexivity; lia.
Qed.

(* the checks evaluated on the regenerated regexes *)
Definition name_check (r : regex) : bool :=
  match r with
  | Cat (Chr c0) (Star (Chr c1)) => class_is c0 id_start && class_is c1 id_cont
  | _ => false
  end.
Definition lexer_check (r : regex) : bool :=
  match r with
  | Alt (Cat (Chr d) (Star (Chr d'))) (Cat (Chr e0) (Star (Chr e1))) =>
      class_is d is_digit && class_is d' is_digit && class_is e0 id_start && class_is e1 id_cont
  | _ => false
  end.

(* is_valid_name (fullmatch of a checked name pattern) implies the hand model's valid_name *)
Theorem name_pattern_valid : forall r s, name_check r = true ->
  outc (bt_fullmatch U r s) = MSome [] -> valid_name s = true.
Proof.
  intros r s Hc H. destruct r as [| |a b| | |]; try discriminate. destruct a as [|c0| | | |]; try discriminate.
  destruct b as [| | | |b|]; try discriminate. destruct b as [|c1| | | |]; try discriminate.
  cbn in Hc. apply andb_true_iff in Hc. destruct Hc as [H0 H1].
  destruct (fullmatch_class_star c0 c1 s H) as [x [t [E [Hx Ht]]]]. subst s. cbn.
  rewrite <- (class_is_sound c0 id_start id_start_out H0 x). rewrite Hx. cbn.
  rewrite forallb_forall in Ht. apply forallb_forall. intros y Hy.
  rewrite <- (class_is_sound c1 id_cont id_cont_out H1 y). apply Ht. exact Hy.
Qed.

(* a name the hand model calls lexable is consumed as one token by a checked lexer pattern *)
Theorem lexable_lexed : forall r s rest, lexer_check r = true -> lexable s = true ->
  (rest = [] \/ exists y r', rest = y :: r' /\ id_cont y = false) ->
  outc (bt_match U r (s ++ rest)) = MSome rest.
Proof.
  intros r s rest Hc Hl Hs.
  destruct r as [| | |a b| |]; try discriminate.
  destruct a as [| |a1 a2| | |]; try discriminate. destruct a1 as [|d| | | |]; try discriminate.
  destruct a2 as [| | | |a2|]; try discriminate. destruct a2 as [|d'| | | |]; try discriminate.
  destruct b as [| |b1 b2| | |]; try discriminate. destruct b1 as [|e0| | | |]; try discriminate.
  destruct b2 as [| | | |b2|]; try discriminate. destruct b2 as [|e1| | | |]; try discriminate.
  cbn in Hc. apply andb_true_iff in Hc. destruct Hc as [Hc H4]. apply andb_true_iff in Hc. destruct Hc as [Hc H3].
  apply andb_true_iff in Hc. destruct Hc as [H1 H2].
  pose proof (class_is_sound d is_digit is_digit_out H1) as Md.
  pose proof (class_is_sound d' is_digit is_digit_out H2) as Md'.
  pose proof (class_is_sound e0 id_start id_start_out H3) as Me0.
  pose proof (class_is_sound e1 id_cont id_cont_out H4) as Me1.
  assert (Edd : forall t, forallb (mem d') t = forallb is_digit t).
  { intro t. induction t as [|y t IH]; [reflexivity|]. cbn. rewrite Md', IH. reflexivity. }
  destruct s as [|x t]; [discriminate|]. cbn in Hl. apply orb_true_iff in Hl.
  destruct (is_digit x) eqn:Dx.
  - (* a number: first alternative (a digit is not an identifier start, so the disjunction resolves) *)
    destruct Hl as [Hl|Hl].
    2:{ apply andb_true_iff in Hl. destruct Hl as [Hl _]. rewrite is_digit_not_start in Hl by exact Dx. discriminate. }
    cbn in Hl.
    (* the model pattern has d = d' up to the check; use the number lemma on d with star over d' *)
    unfold bt_match. cbn [app].
    assert (B : outc (Regex.bt U (Cat (Chr d) (Star (Chr d'))) (x :: t ++ rest) accept) = MSome rest).
    { rewrite cat_chr_star. rewrite Md, Dx.
      destruct (star_loop U (Chr d') accept (S (length (t ++ rest))) (t ++ rest)) as [dd o] eqn:E. cbn [outc snd].
      assert (Hs' : rest = [] \/ exists y r', rest = y :: r' /\ mem d' y = false).
      { destruct Hs as [Hs|[y [r' [Hs Hy]]]]; [now left|right]. exists y, r'. split; [exact Hs|].
        rewrite Md'. destruct (is_digit y) eqn:Dy; [|reflexivity]. rewrite is_digit_cont in Hy by exact Dy. discriminate. }
      pose proof (star_greedy d' accept t rest (S (length (t ++ rest)))) as G.
      rewrite E in G. cbn [outc snd accept] in G. apply G; [rewrite Edd; exact Hl|exact Hs'|discriminate|lia]. }
    destruct (Regex.bt U (Cat (Chr d) (Star (Chr d'))) (x :: t ++ rest) accept) as [db ob] eqn:Eb.
    cbn [outc snd] in B. subst ob.
    rewrite (alt_succ U _ _ _ _ db (MSome rest) Eb); [reflexivity|discriminate].
  - destruct Hl as [Hl|Hl]; [cbn in Hl; discriminate|].
    apply andb_true_iff in Hl. destruct Hl as [Hx Ht].
    unfold bt_match. cbn [app].
    assert (A : Regex.bt U (Cat (Chr d) (Star (Chr d'))) (x :: t ++ rest) accept = (1, MNone)).
    { rewrite cat_chr_star. rewrite Md, Dx. reflexivity. }
    assert (B : outc (Regex.bt U (Cat (Chr e0) (Star (Chr e1))) (x :: t ++ rest) accept) = MSome rest).
    { rewrite cat_chr_star. rewrite Me0, Hx.
      destruct (star_loop U (Chr e1) accept (S (length (t ++ rest))) (t ++ rest)) as [dd o] eqn:E. cbn [outc snd].
      assert (Hs' : rest = [] \/ exists y r', rest = y :: r' /\ mem e1 y = false).
      { destruct Hs as [Hs|[y [r' [Hs Hy]]]]; [now left|right]. exists y, r'. rewrite Me1. tauto. }
      assert (Ht' : forallb (mem e1) t = true).
      { rewrite forallb_forall in Ht. apply forallb_forall. intros y Hy. rewrite Me1. apply Ht. exact Hy. }
      pose proof (star_greedy e1 accept t rest (S (length (t ++ rest))) Ht' Hs') as G.
      rewrite E in G. cbn [outc snd accept] in G. apply G; [discriminate|lia]. }
    destruct (Regex.bt U (Cat (Chr e0) (Star (Chr e1))) (x :: t ++ rest) accept) as [db ob] eqn:Eb.
    rewrite (alt_fail U _ _ _ _ 1 db ob A Eb). exact B.
Qed.

End Lex.
