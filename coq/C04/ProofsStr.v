(* C04/ProofsStr.v -- facts about printed names: decimal rendering, the uniquifying suffix, the suffix
   stripping of extract_valid_name, default block names, lexability. *)
From Coq Require Import ZArith List Bool Arith Lia.
From Coq Require Decimal DecimalNat DecimalFacts.
From XV Require Import C04.Model.
Import ListNotations.
Global Arguments dec : simpl never.
Global Arguments strip1 : simpl never.

(* ---------- str_eqb / lookup ---------- *)
Lemma str_eqb_eq : forall a b, str_eqb a b = true <-> a = b.
Proof.
  induction a as [|x a IH]; destruct b as [|y b]; cbn; split; intro H; try congruence; try reflexivity.
  - apply andb_true_iff in H. destruct H as [H1 H2]. apply Z.eqb_eq in H1. apply IH in H2. congruence.
  - inversion H; subst. rewrite Z.eqb_refl. cbn. apply IH. reflexivity.
Qed.
Lemma str_eqb_refl : forall a, str_eqb a a = true.
Proof. intro a. apply str_eqb_eq. reflexivity. Qed.
Lemma str_eqb_neq : forall a b, str_eqb a b = false <-> a <> b.
Proof.
  intros a b. split; intro H.
  - intro E. apply str_eqb_eq in E. congruence.
  - destruct (str_eqb a b) eqn:E; [apply str_eqb_eq in E; contradiction|reflexivity].
Qed.

Lemma lookup_None : forall {A} k (l : list (str * A)), lookup k l = None <-> ~ In k (map fst l).
Proof.
  induction l as [|[k' a] l IH]; cbn.
  - tauto.
  - destruct (str_eqb k k') eqn:E.
    + apply str_eqb_eq in E. subst. split; [discriminate|intro H; exfalso; apply H; now left].
    + apply str_eqb_neq in E. rewrite IH. split; intro H.
      * intros [H1|H1]; [congruence|contradiction].
      * intro H1. apply H. now right.
Qed.
Lemma lookup_In : forall {A} k (a : A) l, lookup k l = Some a -> In (k, a) l.
Proof.
  induction l as [|[k' a'] l IH]; cbn; [discriminate|].
  destruct (str_eqb k k') eqn:E; intro H.
  - apply str_eqb_eq in E. inversion H; subst. now left.
  - right. auto.
Qed.
Lemma lookupZ_None : forall {A} k (l : list (Z * A)), lookupZ k l = None <-> ~ In k (map fst l).
Proof.
  induction l as [|[k' a] l IH]; cbn.
  - tauto.
  - destruct (Z.eqb k k') eqn:E.
    + apply Z.eqb_eq in E. subst. split; [discriminate|intro H; exfalso; apply H; now left].
    + apply Z.eqb_neq in E. rewrite IH. split; intro H.
      * intros [H1|H1]; [congruence|contradiction].
      * intro H1. apply H. now right.
Qed.
Lemma lookupZ_In : forall {A} k (a : A) l, lookupZ k l = Some a -> In (k, a) l.
Proof.
  induction l as [|[k' a'] l IH]; cbn; [discriminate|].
  destruct (Z.eqb k k') eqn:E; intro H.
  - apply Z.eqb_eq in E. inversion H; subst. now left.
  - right. auto.
Qed.
Lemma lookupZ_Some_dom : forall {A} k (a : A) l, lookupZ k l = Some a -> In k (map fst l).
Proof. intros A k a l H. apply lookupZ_In in H. apply (in_map fst) in H. exact H. Qed.

(* ---------- decimal ---------- *)
Lemma uint_str_inj : forall u v, uint_str u = uint_str v -> u = v.
Proof.
  induction u as [|u IH|u IH|u IH|u IH|u IH|u IH|u IH|u IH|u IH|u IH];
    destruct v; cbn; intro H; try discriminate; try reflexivity;
    inversion H; f_equal; auto.
Qed.
Lemma uint_str_digits : forall u, forallb is_digit (uint_str u) = true.
Proof. induction u; cbn; auto. Qed.

Lemma dec_inj : forall n m, dec n = dec m -> n = m.
Proof. intros n m H. apply uint_str_inj in H. apply DecimalNat.Unsigned.to_uint_inj. exact H. Qed.
Lemma dec_digits : forall n, forallb is_digit (dec n) = true.
Proof. intro n. apply uint_str_digits. Qed.
Lemma dec_nonempty : forall n, dec n <> [].
Proof.
  intros n H. unfold dec in H.
  assert (E : Nat.to_uint n <> Decimal.Nil).
  { rewrite <- (DecimalNat.Unsigned.of_to n) at 1. rewrite DecimalNat.Unsigned.to_of.
    apply DecimalFacts.unorm_nonnil. }
  destruct (Nat.to_uint n); cbn in H; try discriminate. contradiction.
Qed.
Lemma dec_head_digit : forall n, exists c t, dec n = c :: t /\ is_digit c = true /\ forallb is_digit t = true.
Proof.
  intro n. pose proof (dec_nonempty n) as H1. pose proof (dec_digits n) as H2.
  destruct (dec n) as [|c t]; [contradiction|]. cbn in H2. apply andb_true_iff in H2.
  exists c, t. tauto.
Qed.

(* ---------- take_while / drop_while ---------- *)
Lemma take_drop_while : forall {A} (f : A -> bool) l, take_while f l ++ drop_while f l = l.
Proof. induction l as [|x l IH]; cbn; [reflexivity|]. destruct (f x); cbn; [f_equal; exact IH|reflexivity]. Qed.
Lemma take_while_app_stop : forall {A} (f : A -> bool) a x b,
  forallb f a = true -> f x = false -> take_while f (a ++ x :: b) = a.
Proof.
  induction a as [|y a IH]; cbn; intros x b Ha Hx.
  - rewrite Hx. reflexivity.
  - apply andb_true_iff in Ha. destruct Ha as [H1 H2]. rewrite H1. f_equal. apply IH; assumption.
Qed.
Lemma drop_while_app_stop : forall {A} (f : A -> bool) a x b,
  forallb f a = true -> f x = false -> drop_while f (a ++ x :: b) = x :: b.
Proof.
  induction a as [|y a IH]; cbn; intros x b Ha Hx.
  - rewrite Hx. reflexivity.
  - apply andb_true_iff in Ha. destruct Ha as [H1 H2]. rewrite H1. apply IH; assumption.
Qed.
Lemma forallb_rev : forall {A} (f : A -> bool) l, forallb f (rev l) = forallb f l.
Proof.
  induction l as [|x l IH]; cbn; [reflexivity|].
  rewrite forallb_app. cbn. rewrite IH. rewrite andb_true_r. apply andb_comm.
Qed.

(* ---------- the suffix ---------- *)
Lemma strip1_suffix : forall h k, strip1 (h ++ 95%Z :: dec k) = h.
Proof.
  intros h k. unfold strip1. rewrite rev_app_distr. cbn [rev]. rewrite <- app_assoc. cbn [app].
  assert (Hd : forallb is_digit (rev (dec k)) = true) by (rewrite forallb_rev; apply dec_digits).
  rewrite take_while_app_stop by (auto; reflexivity).
  rewrite drop_while_app_stop by (auto; reflexivity).
  destruct (rev (dec k)) eqn:E.
  - exfalso. apply (dec_nonempty k). rewrite <- (rev_involutive (dec k)). rewrite E. reflexivity.
  - cbn. apply rev_involutive.
Qed.

(* a name without a trailing _<digits> group *)
Definition sfree (s : str) : Prop := strip1 s = s.

Lemma strip1_shorter_or_same : forall s, strip1 s = s \/ length (strip1 s) < length s.
Proof.
  intro s. unfold strip1.
  destruct (take_while is_digit (rev s)) as [|d ds] eqn:Et; [now left|].
  destruct (drop_while is_digit (rev s)) as [|x rest] eqn:Ed; [now left|].
  destruct (Z.eqb_spec x 95) as [Hx|Hx]; [|now left].
  subst x. right.
  pose proof (take_drop_while is_digit (rev s)) as H. rewrite Et, Ed in H.
  apply (f_equal (@length Z)) in H. rewrite rev_length in H. rewrite app_length in H. cbn in H.
  rewrite rev_length. lia.
Qed.
Lemma strip1_length : forall s, length (strip1 s) <= length s.
Proof. intro s. destruct (strip1_shorter_or_same s) as [H|H]; [rewrite H|]; lia. Qed.

Lemma sfree_no_suffix : forall h k, ~ sfree (h ++ 95%Z :: dec k).
Proof.
  intros h k H. unfold sfree in H. rewrite strip1_suffix in H.
  apply (f_equal (@length Z)) in H. rewrite app_length in H. cbn in H. lia.
Qed.

Lemma render_inj : forall h1 k1 h2 k2, sfree h1 -> sfree h2 ->
  render h1 k1 = render h2 k2 -> h1 = h2 /\ k1 = k2.
Proof.
  intros h1 k1 h2 k2 F1 F2 H. destruct k1 as [|k1], k2 as [|k2]; cbn [render] in H.
  - tauto.
  - subst h1. exfalso. exact (sfree_no_suffix _ _ F1).
  - subst h2. exfalso. exact (sfree_no_suffix _ _ F2).
  - assert (E : h1 = h2).
    { rewrite <- (strip1_suffix h1 (S k1)), <- (strip1_suffix h2 (S k2)). rewrite H. reflexivity. }
    subst h2. apply app_inv_head in H. inversion H as [H1]. apply dec_inj in H1. tauto.
Qed.

(* ---------- strip_all ---------- *)
Lemma strip_n_fix : forall f s, strip1 s = s -> strip_n f s = s.
Proof.
  destruct f; cbn [strip_n]; intros s H; [reflexivity|]. rewrite H. rewrite Nat.ltb_irrefl. reflexivity.
Qed.
Lemma strip_n_sfree : forall f s, length s <= f -> sfree (strip_n f s).
Proof.
  induction f as [|f IH]; intros s Hl.
  - destruct s; [|cbn in Hl; lia]. cbn. reflexivity.
  - cbn [strip_n]. destruct (length (strip1 s) <? length s) eqn:E.
    + apply Nat.ltb_lt in E. apply IH. lia.
    + apply Nat.ltb_ge in E. destruct (strip1_shorter_or_same s) as [H|H]; [exact H|lia].
Qed.
Lemma strip_all_sfree : forall s, sfree (strip_all s).
Proof. intro s. apply strip_n_sfree. lia. Qed.
Lemma strip_n_step : forall f s, length s <= f -> length (strip1 s) < length s ->
  strip_n (S f) s = strip_n f (strip1 s).
Proof. intros f s _ H. cbn [strip_n]. apply Nat.ltb_lt in H. rewrite H. reflexivity. Qed.
Lemma strip_n_more : forall f g s, length s <= f -> length s <= g -> strip_n f s = strip_n g s.
Proof.
  induction f as [|f IH]; intros g s Hf Hg.
  - destruct s; [|cbn in Hf; lia]. destruct g; cbn; reflexivity.
  - destruct g as [|g].
    + destruct s; [|cbn in Hg; lia]. cbn. reflexivity.
    + cbn [strip_n]. destruct (length (strip1 s) <? length s) eqn:E; [|reflexivity].
      apply Nat.ltb_lt in E. apply IH; lia.
Qed.
Lemma strip_all_suffix : forall h k, sfree h -> strip_all (h ++ 95%Z :: dec k) = h.
Proof.
  intros h k F. unfold strip_all.
  remember (h ++ 95%Z :: dec k) as s eqn:Es.
  destruct (length s) as [|n] eqn:El.
  - subst s. rewrite app_length in El. cbn in El. lia.
  - cbn [strip_n]. subst s. rewrite strip1_suffix.
    assert (Hl : length h <? length (h ++ 95%Z :: dec k) = true).
    { apply Nat.ltb_lt. rewrite app_length. cbn. lia. }
    rewrite Hl. apply strip_n_fix. exact F.
Qed.
Lemma strip_all_fix : forall h, sfree h -> strip_all h = h.
Proof. intros h F. apply strip_n_fix. exact F. Qed.

Lemma strip_render : forall c h k, sfree h -> strip c (render h k) = h.
Proof.
  intros c h k F. unfold strip. destruct k as [|k]; cbn [render].
  - destruct (fx_strip_all c); [apply strip_all_fix; exact F|exact F].
  - destruct (fx_strip_all c); [apply strip_all_suffix; exact F|apply strip1_suffix].
Qed.

(* ---------- valid names, default block names, lexable names ---------- *)
Definition good_hint (h : str) : Prop := valid_name h = true /\ sfree h.

Lemma is_digit_not_start : forall c, is_digit c = true -> id_start c = false.
Proof.
  intros c H. unfold is_digit in H. unfold id_start, is_alpha, is_punct.
  apply andb_true_iff in H. destruct H as [H1 H2]. apply Z.leb_le in H1. apply Z.leb_le in H2.
  repeat match goal with
  | |- context [(?a <=? ?b)%Z] => destruct (Z.leb_spec a b)
  | |- context [(?a =? ?b)%Z] => destruct (Z.eqb_spec a b)
  end; cbn; try reflexivity; lia.
Qed.
Lemma is_digit_cont : forall c, is_digit c = true -> id_cont c = true.
Proof. intros c H. unfold id_cont. rewrite H. rewrite orb_true_r. reflexivity. Qed.
Lemma forallb_digit_cont : forall l, forallb is_digit l = true -> forallb id_cont l = true.
Proof.
  induction l as [|x l IH]; cbn; [reflexivity|]. intro H. apply andb_true_iff in H. destruct H.
  rewrite is_digit_cont by assumption. cbn. auto.
Qed.

Lemma valid_render : forall h k, valid_name h = true -> valid_name (render h k) = true.
Proof.
  intros h k H. destruct k as [|k]; [exact H|]. cbn [render].
  destruct h as [|c t]; [discriminate|]. cbn in *. apply andb_true_iff in H. destruct H as [H1 H2].
  rewrite H1. cbn. rewrite forallb_app. rewrite H2. cbn.
  rewrite forallb_digit_cont by apply dec_digits. reflexivity.
Qed.
Lemma valid_dec : forall n, valid_name (dec n) = false.
Proof.
  intro n. destruct (dec_head_digit n) as [c [t [E [H1 H2]]]]. rewrite E. cbn.
  rewrite is_digit_not_start by exact H1. reflexivity.
Qed.
Lemma valid_lexable : forall h, valid_name h = true -> lexable h = true.
Proof. intros [|c t] H; [discriminate|]. cbn in *. rewrite H. apply orb_true_r. Qed.
Lemma lexable_dec : forall n, lexable (dec n) = true.
Proof.
  intro n. destruct (dec_head_digit n) as [c [t [E [H1 H2]]]]. rewrite E. cbn. rewrite H1, H2. reflexivity.
Qed.
Lemma lexable_bb : forall i, lexable (bb_name i) = true.
Proof.
  intro i. unfold bb_name. cbn. rewrite forallb_digit_cont by apply dec_digits. reflexivity.
Qed.

Lemma dec_neq_render : forall n h k, valid_name h = true -> dec n <> render h k.
Proof.
  intros n h k H E. pose proof (valid_render h k H) as V. rewrite <- E in V. rewrite valid_dec in V. discriminate.
Qed.

Lemma is_default_bb : forall i, is_default (bb_name i) = true.
Proof.
  intro i. unfold bb_name, is_default. destruct (dec_head_digit i) as [c [t [E [H1 H2]]]]. rewrite E.
  cbn. rewrite H1, H2. reflexivity.
Qed.
Lemma bb_name_inj : forall i j, bb_name i = bb_name j -> i = j.
Proof. intros i j H. inversion H as [H1]. apply dec_inj in H1. exact H1. Qed.

Lemma is_digit_95 : is_digit 95%Z = false. Proof. reflexivity. Qed.

Lemma is_default_no95 : forall s, is_default s = true -> ~ In 95%Z s.
Proof.
  intros s H I. destruct s as [|a [|b [|c t]]]; cbn in H; try discriminate.
  apply andb_true_iff in H. destruct H as [H H3]. apply andb_true_iff in H. destruct H as [H1 H2].
  apply Z.eqb_eq in H1. apply Z.eqb_eq in H2. subst a b.
  destruct I as [I|[I|I]]; try discriminate.
  change (forallb is_digit (c :: t) = true) in H3.
  rewrite forallb_forall in H3. apply H3 in I. discriminate.
Qed.
Lemma is_default_render : forall h k, is_default h = false -> is_default (render h k) = false.
Proof.
  intros h k H. destruct k as [|k]; [exact H|]. cbn [render].
  destruct (is_default (h ++ 95%Z :: dec (S k))) eqn:E; [|reflexivity].
  exfalso. apply (is_default_no95 _ E). apply in_or_app. right. now left.
Qed.
Lemma bb_neq_render : forall i h k, is_default h = false -> bb_name i <> render h k.
Proof.
  intros i h k H E. pose proof (is_default_render h k H) as D. rewrite <- E in D.
  rewrite is_default_bb in D. discriminate.
Qed.

(* the hints the parser recovers from printed names *)
Lemma val_hint_render : forall c h k, good_hint h -> val_hint c (render h k) = Some h.
Proof.
  intros c h k [V F]. unfold val_hint. rewrite valid_render by exact V. rewrite strip_render by exact F. reflexivity.
Qed.
Lemma val_hint_dec : forall c n, val_hint c (dec n) = None.
Proof. intros c n. unfold val_hint. rewrite valid_dec. reflexivity. Qed.
Lemma blk_hint_render : forall c h k, good_hint h -> is_default h = false -> blk_hint c (render h k) = Some h.
Proof.
  intros c h k [V F] D. unfold blk_hint. rewrite valid_render by exact V.
  rewrite is_default_render by exact D. cbn. rewrite strip_render by exact F. reflexivity.
Qed.
Lemma blk_hint_bb : forall c i, blk_hint c (bb_name i) = None.
Proof. intros c i. unfold blk_hint. rewrite is_default_bb. rewrite andb_false_r. reflexivity. Qed.

(* with the repaired suffix rule every hint the API stores is good (or empty) *)
Lemma valid_prefix : forall a b, valid_name (a ++ b) = true -> a <> [] -> valid_name a = true.
Proof.
  intros [|c t] b H N; [contradiction|]. cbn in *. apply andb_true_iff in H. destruct H as [H1 H2].
  rewrite H1. rewrite forallb_app in H2. apply andb_true_iff in H2. tauto.
Qed.
Lemma strip1_prefix : forall s, exists r, s = strip1 s ++ r.
Proof.
  intro s. unfold strip1.
  destruct (take_while is_digit (rev s)) as [|d ds] eqn:Et; [exists []; now rewrite app_nil_r|].
  destruct (drop_while is_digit (rev s)) as [|x rest] eqn:Ed; [exists []; now rewrite app_nil_r|].
  destruct (Z.eqb_spec x 95) as [Hx|Hx]; [|exists []; now rewrite app_nil_r].
  subst x. pose proof (take_drop_while is_digit (rev s)) as H. rewrite Et, Ed in H.
  exists (95%Z :: rev (d :: ds)).
  rewrite <- (rev_involutive s) at 1. rewrite <- H. rewrite rev_app_distr. cbn [rev].
  rewrite <- app_assoc. cbn. reflexivity.
Qed.
Lemma strip_n_prefix : forall f s, exists r, s = strip_n f s ++ r.
Proof.
  induction f as [|f IH]; intro s; cbn [strip_n].
  - exists []. now rewrite app_nil_r.
  - destruct (length (strip1 s) <? length s).
    + destruct (IH (strip1 s)) as [r Hr]. destruct (strip1_prefix s) as [r' Hr'].
      exists (r ++ r'). rewrite app_assoc. rewrite <- Hr. exact Hr'.
    + exists []. now rewrite app_nil_r.
Qed.
Lemma stored_good : forall c raw h, fx_strip_all c = true -> store_hint c raw = Some h -> h <> [] -> good_hint h.
Proof.
  intros c raw h Hc H N. unfold store_hint in H. destruct (valid_name raw) eqn:V; [|discriminate].
  inversion H as [H1]. unfold strip. rewrite Hc. split.
  - destruct (strip_n_prefix (length raw) raw) as [r Hr]. unfold strip_all.
    apply (valid_prefix _ r).
    + rewrite <- Hr. exact V.
    + unfold strip, strip_all in H1. rewrite Hc in H1. rewrite H1. exact N.
  - apply strip_all_sfree.
Qed.
Lemma good_lexable_render : forall h k, good_hint h -> lexable (render h k) = true.
Proof. intros h k [V _]. apply valid_lexable. apply valid_render. exact V. Qed.
