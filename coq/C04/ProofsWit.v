(* C04/ProofsWit.v -- witnesses: the defects of the pinned tree (refutations of the unconditional
   statements), their absence under the repaired configuration, satisfiability of the hypotheses, and the
   bridge from "hints the API stores" to the hypothesis of the theorems for the repaired configuration. *)
From Coq Require Import ZArith List Bool Arith Lia.
From XV Require Import C04.Model C04.ProofsStr C04.ProofsGhost C04.ProofsPrint C04.ProofsParse C04.ProofsRound C04.ProofsTree.
Import ListNotations.
Local Open Scope Z_scope.

Definition mk (nm : Z) (res args : list (Z * hint)) (succs : list Z) (regs : list (list (block (Z * hint) Z (Z * hint)))) : skel :=
  Op nm res args succs [] regs [] [] [].
Definition modl (ops : list skel) : skel := mk 7 [] [] [] [[Bk (-1, None) [] ops]].
Definition s_a : str := [97]. Definition s_a_1_2 : str := [97; 95; 49; 95; 50]. Definition s_bb1 : str := [98; 98; 49].

(* hints as the name_hint setter stores them *)
Definition hint_stored (c : cfg) (h : hint) : Prop :=
  match h with None => True | Some s => exists raw, store_hint c raw = Some s end.
Definition act_stored (c : cfg) (a : sact) : Prop :=
  match a with
  | Ares (_, h) | Aarg (_, h) | Apre (_, h) | Abarg (_, h) | Aarg_post (_, h) | Ares_post (_, h) => hint_stored c h
  | Arbegin ls _ => Forall (fun l => hint_stored c (snd l)) ls
  | Alabel (_, h) _ => hint_stored c h
  | _ => True
  end.
Definition hints_stored (c : cfg) (l : list sact) : Prop := Forall (act_stored c) l.

(* with the repaired suffix rule, block-hint rule and entry-label rule, every stored hint is fine *)
Lemma stored_ok : forall c l,
  fx_strip_all c = true -> fx_block_default c = true -> fx_entry_hint c = true ->
  hints_stored c l -> hints_ok c l.
Proof.
  intros c l F1 F2 F3 H. unfold hints_ok, hints_stored in *. rewrite Forall_forall in *. intros a Ha. specialize (H a Ha).
  assert (V : forall h, hint_stored c h -> vhint_ok h).
  { intros h Hs hs E. destruct h as [s|]; [|discriminate]. destruct Hs as [raw Hr].
    destruct s as [|x t]; [discriminate|]. cbn in E. inversion E; subst.
    apply (stored_good c raw); [exact F1|exact Hr|discriminate]. }
  assert (B : forall h, hint_stored c h -> bhint_ok c h).
  { intros h Hs hs E. split; [apply (V h Hs hs E)|]. rewrite F2. discriminate. }
  destruct a as [[v h]|[v h]| |[v h]|b|ls ep|[b h] pr|[v h]| | |[v h]|[v h]]; cbn in *; auto.
  split.
  - rewrite Forall_forall in *. intros x Hx. apply B. apply H. exact Hx.
  - rewrite F3. discriminate.
Qed.

(* ---------- the five defects of the pinned tree ---------- *)
(* 1: hints a, a and name_hint = "a_1_2" (stored "a_1") on three results *)
Definition w1 (c : cfg) : skel :=
  modl [mk 2 [(1, store_hint c s_a); (2, store_hint c s_a); (3, store_hint c s_a_1_2)] [] [] []].
(* 2: third block of a region hinted bb1 *)
Definition w2 (c : cfg) : skel :=
  modl [mk 2 [] [] [] [[Bk (10, None) [] [mk 4 [] [] [11; 12] []]; Bk (11, None) [] [mk 4 [] [] [12] []];
                         Bk (12, store_hint c s_bb1) [] [mk 4 [] [] [] []]]]].
(* 4: entry block (label omitted) and second block both hinted a *)
Definition w4 (c : cfg) : skel :=
  modl [mk 2 [] [] [] [[Bk (10, store_hint c s_a) [] [mk 4 [] [] [11] []]; Bk (11, store_hint c s_a) [] [mk 4 [] [] [] []]]]].
(* 5: operand of an IsolatedFromAbove operation defined later in the module body *)
Definition w5 : skel := modl [mk 3 [] [(1, None)] [] []; mk 2 [(1, None)] [] [] []; mk 2 [(2, None)] [] [] []].

Definition printed (c : cfg) (ir : skel) : list str := names_of_acts (sched (print_names c ir)).
Definition reprinted (c : cfg) (ir : skel) : option (list str) :=
  match parse_names c (print_names c ir) with Ok ir' => Some (printed c ir') | Err _ => None end.

Lemma w1_refutes : well_scoped pinned_cfg (w1 pinned_cfg) = true /\
  printed pinned_cfg (w1 pinned_cfg) = [[97]; [97; 95; 49]; [97; 95; 49]] /\
  parse_names pinned_cfg (print_names pinned_cfg (w1 pinned_cfg)) = Err EAlreadyDefined.
Proof. vm_compute. repeat split. Qed.
Lemma w1_repaired : well_scoped repaired_cfg (w1 repaired_cfg) = true /\
  reprinted repaired_cfg (w1 repaired_cfg) = Some [[97]; [97; 95; 49]; [97; 95; 50]].
Proof. vm_compute. repeat split. Qed.

Lemma w2_refutes : well_scoped pinned_cfg (w2 pinned_cfg) = true /\
  parse_names pinned_cfg (print_names pinned_cfg (w2 pinned_cfg)) = Err ERedeclared.
Proof. vm_compute. repeat split. Qed.
Lemma w2_repaired : well_scoped repaired_cfg (w2 repaired_cfg) = true /\
  reprinted repaired_cfg (w2 repaired_cfg) = Some (printed repaired_cfg (w2 repaired_cfg)).
Proof. vm_compute. repeat split. Qed.

Lemma w4_refutes : well_scoped pinned_cfg (w4 pinned_cfg) = true /\
  printed pinned_cfg (w4 pinned_cfg) = [[97; 95; 49]; [97; 95; 49]] /\
  reprinted pinned_cfg (w4 pinned_cfg) = Some [[97]; [97]].
Proof. vm_compute. repeat split. Qed.
Lemma w4_repaired : well_scoped repaired_cfg (w4 repaired_cfg) = true /\
  reprinted repaired_cfg (w4 repaired_cfg) = Some (printed repaired_cfg (w4 repaired_cfg)).
Proof. vm_compute. repeat split. Qed.

Lemma w5_refutes : well_scoped repaired_cfg w5 = true /\
  printed pinned_cfg w5 = [[48]; [48]; [48]] /\
  parse_names pinned_cfg (print_names pinned_cfg w5) = Err EAlreadyDefined /\ well_scoped pinned_cfg w5 = false.
Proof. vm_compute. repeat split. Qed.
Lemma w5_repaired : reprinted repaired_cfg w5 = Some [[48]; [48]; [49]].
Proof. vm_compute. reflexivity. Qed.

(* ---------- the hypotheses are satisfiable by a non-trivial skeleton (pinned configuration) ---------- *)
(* hinted values with a repeated hint, a forward reference, an isolated operation with a region, a
   multi-block region with a forward successor reference and a hinted block *)
Definition s_x : str := [120]. Definition s_then : str := [116; 104; 101; 110].
Definition demo : skel :=
  modl [mk 2 [(1, Some s_a)] [(2, Some s_a)] [] [];
        mk 2 [(2, Some s_a)] [] [] [];
        mk 3 [(3, None)] [(1, Some s_a)] []
           [[Bk (20, None) [((4, Some s_x), ABare 0)] [mk 4 [] [(4, Some s_x)] [21] []];
             Bk (21, Some s_then) [] [mk 4 [(5, Some s_x)] [] [20] []]]]].

(* a checker for the hint hypothesis *)
Definition good_hintb (h : str) : bool := valid_name h && str_eqb (strip1 h) h.
Definition vhint_okb (h : hint) : bool := match eff_hint h with Some hs => good_hintb hs | None => true end.
Definition bhint_okb (c : cfg) (h : hint) : bool :=
  match eff_hint h with Some hs => good_hintb hs && (fx_block_default c || negb (is_default hs)) | None => true end.
Definition act_hints_okb (c : cfg) (a : sact) : bool :=
  match a with
  | Ares (_, h) | Aarg (_, h) | Apre (_, h) | Abarg (_, h) | Aarg_post (_, h) | Ares_post (_, h) => vhint_okb h
  | Arbegin ls ep =>
      forallb (fun l => bhint_okb c (snd l)) ls &&
      (fx_entry_hint c || ep || match ls with l :: _ => match eff_hint (snd l) with None => true | Some _ => false end | [] => true end)
  | Alabel (_, h) _ => bhint_okb c h
  | _ => true
  end.
Definition hints_okb (c : cfg) (l : list sact) : bool := forallb (act_hints_okb c) l.

Lemma good_hintb_ok : forall h, good_hintb h = true -> good_hint h.
Proof. intros h H. apply andb_true_iff in H. destruct H as [H1 H2]. apply str_eqb_eq in H2. split; assumption. Qed.
Lemma hints_okb_ok : forall c l, hints_okb c l = true -> hints_ok c l.
Proof.
  intros c l H. unfold hints_okb in H. rewrite forallb_forall in H. unfold hints_ok. rewrite Forall_forall.
  intros a Ha. specialize (H a Ha).
  assert (V : forall h, vhint_okb h = true -> vhint_ok h).
  { intros h Hv hs E. unfold vhint_okb in Hv. rewrite E in Hv. apply good_hintb_ok. exact Hv. }
  assert (B : forall h, bhint_okb c h = true -> bhint_ok c h).
  { intros h Hv hs E. unfold bhint_okb in Hv. rewrite E in Hv. apply andb_true_iff in Hv. destruct Hv as [H1 H2].
    split; [apply good_hintb_ok; exact H1|]. intro F. rewrite F in H2. cbn in H2. apply negb_true_iff in H2. exact H2. }
  destruct a as [[v h]|[v h]| |[v h]|b|ls ep|[b h] pr|[v h]| | |[v h]|[v h]]; cbn in *; auto.
  apply andb_true_iff in H. destruct H as [H1 H2]. split.
  - rewrite forallb_forall in H1. rewrite Forall_forall. intros x Hx. apply B. apply H1. exact Hx.
  - intros F E. subst ep. rewrite F in H2. cbn in H2. destruct ls as [|l0 ls']; [exact I|].
    destruct (eff_hint (snd l0)); [discriminate|reflexivity].
Qed.

Lemma demo_hints_ok : hints_ok pinned_cfg (sched demo).
Proof. apply hints_okb_ok. vm_compute. reflexivity. Qed.
Lemma demo_ws : well_scoped pinned_cfg demo = true.
Proof. vm_compute. reflexivity. Qed.
Lemma demo_prints : printed pinned_cfg demo =
  [[97]; [97; 95; 49]; [97; 95; 49]; [48]; [97]; [98; 98; 48]; [120]; [120]; [116; 104; 101; 110];
   [116; 104; 101; 110]; [120; 95; 49]; [98; 98; 48]].
Proof. vm_compute. reflexivity. Qed.

(* ---------- M2 on the regenerated regexes ---------- *)
From XV Require Import C07.Regex C04.ProofsLex Gen.C04_current.

Theorem hint_lexable : forall U rn rl s rest,
  name_check rn = true -> lexer_check rl = true ->
  outc (bt_fullmatch U rn s) = MSome [] ->
  (rest = [] \/ exists y r', rest = y :: r' /\ id_cont y = false) ->
  lexable s = true /\ outc (bt_match U rl (s ++ rest)) = MSome rest.
Proof.
  intros U rn rl s rest Hn Hl Hm Hs.
  assert (V : valid_name s = true) by (eapply name_pattern_valid; eauto).
  pose proof (valid_lexable s V) as L. split; [exact L|]. apply lexable_lexed; assumption.
Qed.

(* the lexer's identifier pattern of the current source is the one the model's `lexable` describes *)
Lemma cur_lexer_checked : lexer_check cur_r_suffix_id = true.
Proof. vm_compute. reflexivity. Qed.
(* the proposed name pattern (re.ASCII) passes the check, the pinned one does not *)
Lemma rep_name_checked : name_check rep_r_name = true.
Proof. vm_compute. reflexivity. Qed.
Lemma pin_name_unchecked : name_check pin_r_name = false.
Proof. vm_compute. reflexivity. Qed.

(* CPython's \w and \d on str patterns (tables regenerated on every run) *)
Definition in_tbl (t : list (Z * Z)) (x : Z) : bool := existsb (in_range x) t.
Definition cpyU (n : named) (x : Z) : bool :=
  match n with
  | UWord => is_alpha x || is_digit x || (x =? 95)%Z || in_tbl tbl_uword x
  | UDigit => is_digit x || in_tbl tbl_udigit x
  | USpace => false
  end.

(* the hint "a" followed by U+00E9: accepted by the pinned pattern, not one lexer token *)
Lemma pin_name_refutes :
  outc (bt_fullmatch cpyU pin_r_name [97; 233]) = MSome [] /\ lexable [97; 233] = false /\
  outc (bt_match cpyU cur_r_suffix_id ([97; 233] ++ [32])) = MSome [233; 32].
Proof. vm_compute. repeat split. Qed.

(* ---------- statements restated for Props/C04.v ---------- *)
Lemma roundtrip_repaired : forall ir,
  hints_stored repaired_cfg (sched ir) -> well_scoped repaired_cfg ir = true ->
  exists ir', parse_names repaired_cfg (print_names repaired_cfg ir) = Ok ir' /\ skel_iso repaired_cfg ir ir' /\
              print_names repaired_cfg ir' = print_names repaired_cfg ir.
Proof. intros ir H W. apply roundtrip; [apply stored_ok; auto|exact W]. Qed.

Lemma hint_lexable_repaired : forall U s rest,
  outc (bt_fullmatch U rep_r_name s) = MSome [] ->
  (rest = [] \/ exists y r', rest = y :: r' /\ id_cont y = false) ->
  lexable s = true /\ outc (bt_match U cur_r_suffix_id (s ++ rest)) = MSome rest.
Proof. intros U s rest. apply hint_lexable; [exact rep_name_checked|exact cur_lexer_checked]. Qed.

Lemma names_unique_refuted : exists ir,
  hints_stored pinned_cfg (sched ir) /\ well_scoped pinned_cfg ir = true /\
  ~ NoDup (printed pinned_cfg ir) /\
  parse_names pinned_cfg (print_names pinned_cfg ir) = Err EAlreadyDefined.
Proof.
  exists (w1 pinned_cfg). destruct w1_refutes as [A [B C]]. split; [|split; [exact A|split; [|exact C]]].
  - unfold hints_stored. cbn. repeat constructor; try exact I; cbn.
    + exists s_a. reflexivity.
    + exists s_a. reflexivity.
    + exists s_a_1_2. reflexivity.
    + exists s_a. reflexivity.
    + exists s_a. reflexivity.
    + exists s_a_1_2. reflexivity.
  - rewrite B. intro N. inversion N as [|? ? N1 N2]; subst. inversion N2 as [|? ? N3 N4]; subst. apply N3. now left.
Qed.
