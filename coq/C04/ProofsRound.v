(* C04/ProofsRound.v -- putting printer and parser together at the level of schedules:
   the printer's names satisfy what the parser simulation needs (NamesOK), hence parsing the printed
   schedule succeeds and resolves every name to its object; shape of every block label;
   the printer is insensitive to an injective renaming of the object identities and to changes of hints
   it does not look at (C04_deterministic, and the basis of "the parsed IR prints the same text"). *)
From Coq Require Import ZArith List Bool Arith Lia.
From XV Require Import C04.Model C04.ProofsStr C04.ProofsGhost C04.ProofsPrint C04.ProofsParse.
Import ListNotations.

(* the shape of every label *)
Definition lab_shape (c : cfg) (p : pst) (j : nat) (ep : bool) (b : Z) (h : hint) : Prop :=
  match eff_bhint c (use_hint_at c j ep) h with
  | Some hs => good_hint hs /\ is_default hs = false /\ exists k, bname_of p b = render hs k
  | None => bname_of p b = bb_name j
  end.

(* ---------- blocks: joint invariant of printer and bookkeeping ---------- *)
Record BInvP (c : cfg) (p : pst) (g : gst) : Prop := {
  bp_dom : forall b, lookupZ b (p_blks p) <> None -> In b (g_bseen g);
  bp_open : forall e, In e (g_bopen g) ->
      NoDup (map (bname_of p) (ids_of e)) /\
      (forall b, In b (ids_of e) -> lookupZ b (p_blks p) <> None) /\
      (exists pre, fst (fst e) = pre ++ snd e) /\
      (forall j b h, nth_error (fst (fst e)) j = Some (b, h) -> lab_shape c p j (snd (fst e)) b h);
  bp_seen : forall b, In b (g_bseen g) -> lookupZ b (p_blks p) <> None;
  bp_lex : forall b n, lookupZ b (p_blks p) = Some n -> lexable n = true
}.

Lemma pb_dom : forall c b h idx u p w, lookupZ w (p_blks (pb_if_new c b h idx u p)) <> None ->
  w = b \/ lookupZ w (p_blks p) <> None.
Proof.
  intros c b h idx u p w H. unfold pb_if_new in H. destruct (lookupZ b (p_blks p)) eqn:E; [now right|].
  unfold pb in H. destruct (eff_bhint c u h); [|destruct idx]; cbn in H;
    destruct (Z.eqb_spec w b); try (now left); now right.
Qed.
Lemma pb_all_dom : forall c ls i ep p w, lookupZ w (p_blks (pb_all c ls i ep p)) <> None ->
  In w (map fst ls) \/ lookupZ w (p_blks p) <> None.
Proof.
  induction ls as [|[b h] ls IH]; intros i ep p w H; cbn in *; [now right|].
  apply IH in H. destruct H as [H|H]; [left; now right|].
  apply pb_dom in H. destruct H as [H|H]; [left; left; congruence|now right].
Qed.

Lemma bname_stable : forall p p' b,
  (forall w, lookupZ w (p_blks p) <> None -> lookupZ w (p_blks p') = lookupZ w (p_blks p)) ->
  lookupZ b (p_blks p) <> None -> bname_of p' b = bname_of p b.
Proof. intros p p' b S H. unfold bname_of. rewrite S by exact H. reflexivity. Qed.

Lemma lab_shape_same : forall c p p' j ep b h, bname_of p' b = bname_of p b -> lab_shape c p j ep b h -> lab_shape c p' j ep b h.
Proof. intros c p p' j ep b h E H. unfold lab_shape in *. rewrite E. exact H. Qed.

Lemma BInvP_same_blks : forall c p p' g, p_blks p' = p_blks p -> BInvP c p g -> BInvP c p' g.
Proof.
  intros c p p' g E [B1 B2 B4 B3].
  assert (En : forall b, bname_of p' b = bname_of p b) by (intro b; unfold bname_of; rewrite E; reflexivity).
  constructor.
  - intro b. rewrite E. apply B1.
  - intros e He. destruct (B2 e He) as [X1 [X2 [X3 X4]]]. split; [|split; [|split; [exact X3|]]].
    + erewrite map_ext; [exact X1|]. exact En.
    + intro b. rewrite E. apply X2.
    + intros j b h Hn. apply (lab_shape_same c p); [apply En|apply X4; exact Hn].
  - intro b. rewrite E. apply B4.
  - intros b n. rewrite E. apply B3.
Qed.

Lemma pb_lex : forall c b h idx u p, bhint_ok c h ->
  (forall b' n, lookupZ b' (p_blks p) = Some n -> lexable n = true) ->
  forall b' n, lookupZ b' (p_blks (pb_if_new c b h idx u p)) = Some n -> lexable n = true.
Proof.
  intros c b h idx u p Hb L b' n H. unfold pb_if_new in H. destruct (lookupZ b (p_blks p)); [eapply L; eauto|].
  unfold pb in H. destruct (eff_bhint c u h) as [hs|] eqn:Eh.
  - cbn in H. destruct (Z.eqb b' b); [|eapply L; eauto]. inversion H; subst.
    destruct (eff_bhint_ok _ _ _ _ Hb Eh) as [G _]. apply good_lexable_render. exact G.
  - destruct idx; cbn in H; (destruct (Z.eqb b' b); [inversion H; subst; apply lexable_bb|eapply L; eauto]).
Qed.
Lemma pb_all_lex : forall c ls i ep p, Forall (fun l => bhint_ok c (snd l)) ls ->
  (forall b' n, lookupZ b' (p_blks p) = Some n -> lexable n = true) ->
  forall b' n, lookupZ b' (p_blks (pb_all c ls i ep p)) = Some n -> lexable n = true.
Proof.
  induction ls as [|[b h] ls IH]; intros i ep p Hh L; cbn; [exact L|].
  inversion Hh; subst. apply IH; [assumption|]. apply pb_lex; assumption.
Qed.

Lemma g_mention_b : forall v h g g1, g_mention v h g = Some g1 -> g_bopen g1 = g_bopen g /\ g_bseen g1 = g_bseen g.
Proof. intros v h g g1 H. destruct (g_mention_hints v h g g1 H) as [_ [_ [_ [_ [A B]]]]]. tauto. Qed.
Lemma g_define_b : forall v g g1, g_define v g = Some g1 -> g_bopen g1 = g_bopen g /\ g_bseen g1 = g_bseen g.
Proof.
  intros v g g1 H. unfold g_define in H. destruct (lookupZ v (g_hints g)); [|discriminate].
  destruct (_ || _); [discriminate|]. destruct (g_open g); [discriminate|]. inversion H; subst. tauto.
Qed.
Lemma g_use_b : forall v g g1, g_use v g = Some g1 -> g_bopen g1 = g_bopen g /\ g_bseen g1 = g_bseen g.
Proof.
  intros v g g1 H. unfold g_use in H. destruct (lookupZ v (g_hints g)); [|discriminate].
  destruct (memZ v (g_closed g)); [discriminate|]. destruct (_ || _); inversion H; subst; tauto.
Qed.
Lemma BInvP_ghost : forall c p g g1, g_bopen g1 = g_bopen g -> g_bseen g1 = g_bseen g -> BInvP c p g -> BInvP c p g1.
Proof. intros c p g g1 E1 E2 [B1 B2 B4 B3]. constructor; rewrite ?E1, ?E2; assumption. Qed.

Lemma stepP_BInvP : forall c a p g g1,
  act_hints_ok c a -> BInvP c p g -> ws_step c a g = Some g1 -> BInvP c (stepP c a p) g1.
Proof.
  intros c a p g g1 Hh BI H.
  assert (PV : forall v h g', g_bopen g' = g_bopen g -> g_bseen g' = g_bseen g -> BInvP c (pv v h p) g').
  { intros v h g' E1 E2. apply (BInvP_ghost c _ g); try assumption. apply (BInvP_same_blks c p); [apply pv_blks|exact BI]. }
  destruct a as [[v h]|[v h]| |[v h]|b|ls ep|[b h] pr|[v h]| | |[v h]|[v h]]; cbn in H; cbn [stepP].
  - destruct (g_mention_b _ _ _ _ H). apply PV; assumption.
  - destruct (fx_iso_operands c).
    + destruct (g_mention_b _ _ _ _ H). apply PV; assumption.
    + inversion H; subst. exact BI.
  - inversion H; subst. apply (BInvP_ghost c _ g); try reflexivity. apply (BInvP_same_blks c p); [reflexivity|exact BI].
  - destruct (g_mention_b _ _ _ _ H). apply PV; assumption.
  - destruct (g_bopen g) as [|[[ls ep] rem] bs] eqn:Eb; [discriminate|].
    destruct (memZ b (map fst ls) && _) eqn:Ec; [|discriminate]. inversion H; subst g1; clear H.
    apply andb_true_iff in Ec. destruct Ec as [Ec _]. apply memZ_In in Ec.
    destruct BI as [B1 B2 B4 B3]. destruct (B2 (ls, ep, rem)) as [_ [X _]]; [rewrite Eb; now left|].
    specialize (X b Ec). unfold pb_if_new. destruct (lookupZ b (p_blks p)); [|congruence].
    constructor; assumption.
  - destruct (nodupZ (map fst ls) && _) eqn:Ec; [|discriminate]. inversion H; subst g1; clear H.
    apply andb_true_iff in Ec. destruct Ec as [Ec1 Ec2]. apply nodupZ_NoDup in Ec1. rewrite forallb_forall in Ec2.
    destruct BI as [B1 B2 B4 B3]. cbn in Hh. destruct Hh as [Hh1 Hh2].
    assert (New : forall b, In b (map fst ls) -> lookupZ b (p_blks p) = None).
    { intros b Hb. destruct (lookupZ b (p_blks p)) eqn:E; [|reflexivity]. exfalso.
      specialize (Ec2 b Hb). apply negb_true_iff in Ec2. apply memZ_false in Ec2. apply Ec2. apply B1. congruence. }
    destruct (pb_all_spec c ep ls 0 p Ec1 New Hh1) as [S1 [S2 [S3 S4]]].
    assert (Stab : forall w, lookupZ w (p_blks p) <> None -> bname_of (pb_all c ls 0 ep p) w = bname_of p w).
    { intros w Hw. apply bname_stable; [|exact Hw]. intros w' Hw'. apply pb_all_bstable. exact Hw'. }
    constructor; cbn [g_bseen g_bopen].
    + intros b Hb. apply pb_all_dom in Hb. apply in_or_app. destruct Hb as [Hb|Hb]; [now left|right; apply B1; exact Hb].
    + intros e [He|He].
      * subst e. unfold ids_of. cbn [fst snd]. split; [exact S2|]. split; [exact S4|]. split; [exists []; reflexivity|].
        intros j b h Hn. specialize (S3 j b h Hn). cbn [Nat.add] in S3. unfold lab_shape.
        destruct (eff_bhint c (use_hint_at c j ep) h) as [hs|] eqn:Eh; [|exact S3].
        assert (Hbh : bhint_ok c h).
        { rewrite Forall_forall in Hh1. apply nth_error_In in Hn. apply (Hh1 (b, h) Hn). }
        destruct (eff_bhint_ok _ _ _ _ Hbh Eh) as [G D]. tauto.
      * destruct (B2 e He) as [X1 [X2 [X3 X4]]]. split; [|split; [|split; [exact X3|]]].
        -- erewrite map_ext_in; [exact X1|]. intros b Hb. apply Stab. apply X2. exact Hb.
        -- intros b Hb. rewrite pb_all_bstable by (apply X2; exact Hb). apply X2. exact Hb.
        -- intros j b h Hn. apply (lab_shape_same c p); [|apply X4; exact Hn]. apply Stab. apply X2.
           apply nth_error_In in Hn. apply (in_map fst) in Hn. exact Hn.
    + intros b Hb. apply in_app_or in Hb. destruct Hb as [Hb|Hb]; [apply S4; exact Hb|].
      rewrite pb_all_bstable by (apply B4; exact Hb). apply B4. exact Hb.
    + apply pb_all_lex; assumption.
  - destruct (g_bopen g) as [|[[ls ep] [|x rem]] bs] eqn:Eb; try discriminate.
    destruct (Z.eqb b (fst x) && hint_eqb h (snd x) && _) eqn:Ec; [|discriminate]. inversion H; subst g1; clear H.
    apply andb_true_iff in Ec. destruct Ec as [Ec _]. apply andb_true_iff in Ec. destruct Ec as [Ec _]. apply Z.eqb_eq in Ec.
    destruct BI as [B1 B2 B4 B3]. destruct (B2 (ls, ep, x :: rem)) as [X1 [X2 [[pre X3] X4]]]; [rewrite Eb; now left|].
    cbn [fst snd] in X3.
    assert (Hb : lookupZ b (p_blks p) <> None).
    { apply X2. unfold ids_of. cbn [fst]. rewrite X3. rewrite map_app. apply in_or_app. right. left. auto. }
    assert (Ep : (if pr then pb_if_new c b h None true p else p) = p).
    { destruct pr; [|reflexivity]. unfold pb_if_new. destruct (lookupZ b (p_blks p)); [reflexivity|congruence]. }
    rewrite Ep. constructor; cbn [g_bseen g_bopen]; [exact B1| |exact B4|exact B3].
    intros e [He|He].
    + subst e. unfold ids_of in *. cbn [fst snd] in *. split; [exact X1|]. split; [exact X2|]. split; [|exact X4].
      exists (pre ++ [x]). rewrite X3. rewrite <- app_assoc. reflexivity.
    + apply B2. rewrite Eb. now right.
  - destruct (g_mention v h g) as [gm|] eqn:Em; [|discriminate].
    destruct (g_mention_b _ _ _ _ Em). destruct (g_define_b _ _ _ H). apply PV; congruence.
  - destruct (g_open g) as [|o [|o2 os]]; try discriminate.
    destruct (g_bopen g) as [|[[ls ep] [|x rem]] bs] eqn:Eb; try discriminate. inversion H; subst g1; clear H.
    destruct BI as [B1 B2 B4 B3]. constructor; cbn [g_bseen g_bopen]; [exact B1| |exact B4|exact B3].
    intros e He. apply B2. rewrite Eb. now right.
  - destruct (g_frames g) as [|f [|f2 fs]]; try discriminate. destruct (forallb _ f); [|discriminate].
    inversion H; subst. apply (BInvP_ghost c _ g); try reflexivity. apply (BInvP_same_blks c p); [|exact BI].
    unfold p_exit. destruct (p_rest p); reflexivity.
  - destruct (g_use_b _ _ _ H). apply (BInvP_ghost c _ g); assumption.
  - destruct (g_define_b _ _ _ H). apply (BInvP_ghost c _ g); assumption.
Qed.

Lemma BInvP_0 : forall c, BInvP c pst0 g0.
Proof. intro c. constructor; cbn; [tauto|intros e []|intros b []|discriminate]. Qed.

Lemma runP_BInvP : forall c l p g g1,
  hints_ok c l -> BInvP c p g -> ws_run c l g = Some g1 -> BInvP c (runP c l p) g1.
Proof.
  induction l as [|a l IH]; intros p g g1 Hh BI H; cbn in H.
  - inversion H; subst. exact BI.
  - destruct (ws_step c a g) as [g2|] eqn:E; [|discriminate]. inversion Hh; subst.
    rewrite runP_cons. apply (IH (stepP c a p) g2 g1); [assumption| |exact H].
    eapply stepP_BInvP; eauto.
Qed.

(* ---------- the printer's names are what the parser simulation needs ---------- *)
Theorem printer_NamesOK : forall c l gf,
  hints_ok c l -> ws_run c l g0 = Some gf ->
  NamesOK c (name_of (runP c l pst0)) (bname_of (runP c l pst0)) l g0.
Proof.
  intros c l gf Hh Hw pre post g1 El Hp. split.
  - eapply names_unique_values; eauto.
  - subst l. intros e He.
    assert (Hpre : hints_ok c pre) by (unfold hints_ok in *; apply Forall_app in Hh; tauto).
    pose proof (runP_BInvP c pre pst0 g0 g1 Hpre (BInvP_0 c) Hp) as [B1 B2 B4 B3].
    destruct (B2 e He) as [X1 [X2 _]].
    erewrite map_ext_in; [exact X1|]. intros b Hb. rewrite runP_app. apply bname_stable; [|apply X2; exact Hb].
    intros w Hw'. apply runP_stable. exact Hw'.
Qed.

(* every region's labels are pairwise distinct (second half of C04_names_unique) *)
Theorem names_unique_blocks : forall c l pre ls ep post g1 g2,
  hints_ok c l -> l = pre ++ Arbegin ls ep :: post ->
  ws_run c pre g0 = Some g1 -> ws_step c (Arbegin ls ep) g1 = Some g2 ->
  NoDup (map (bname_of (runP c l pst0)) (map fst ls)).
Proof.
  intros c l pre ls ep post g1 g2 Hh El H1 H2. subst l.
  assert (Hpre : hints_ok c (pre ++ [Arbegin ls ep])).
  { unfold hints_ok in *. replace (pre ++ Arbegin ls ep :: post) with ((pre ++ [Arbegin ls ep]) ++ post) in Hh
      by (rewrite <- app_assoc; reflexivity). apply Forall_app in Hh. tauto. }
  assert (Hw : ws_run c (pre ++ [Arbegin ls ep]) g0 = Some g2).
  { rewrite ws_run_app. rewrite H1. cbn [ws_run]. rewrite H2. reflexivity. }
  pose proof (runP_BInvP c _ pst0 g0 g2 Hpre (BInvP_0 c) Hw) as [B1 B2 B4 B3].
  assert (He : In (ls, ep, ls) (g_bopen g2)).
  { cbn in H2. destruct (_ && _); [|discriminate]. inversion H2; subst. cbn. now left. }
  destruct (B2 _ He) as [X1 [X2 _]]. unfold ids_of in X1, X2. cbn [fst] in X1, X2.
  replace (pre ++ Arbegin ls ep :: post) with ((pre ++ [Arbegin ls ep]) ++ post) by (rewrite <- app_assoc; reflexivity).
  erewrite map_ext_in; [exact X1|]. intros b Hb. rewrite runP_app. apply bname_stable; [|apply X2; exact Hb].
  intros w Hw'. apply runP_stable. exact Hw'.
Qed.


Theorem label_shapes : forall c l pre ls ep post g1 g2,
  hints_ok c l -> l = pre ++ Arbegin ls ep :: post ->
  ws_run c pre g0 = Some g1 -> ws_step c (Arbegin ls ep) g1 = Some g2 ->
  forall j b h, nth_error ls j = Some (b, h) -> lab_shape c (runP c l pst0) j ep b h.
Proof.
  intros c l pre ls ep post g1 g2 Hh El H1 H2 j b h Hn. subst l.
  assert (Hpre : hints_ok c pre) by (unfold hints_ok in *; apply Forall_app in Hh; tauto).
  assert (Ha : act_hints_ok c (Arbegin ls ep)).
  { unfold hints_ok in Hh. apply Forall_app in Hh. destruct Hh as [_ Hh]. inversion Hh; assumption. }
  pose proof (runP_BInvP c pre pst0 g0 g1 Hpre (BInvP_0 c) H1) as [B1 B2 B4 B3].
  cbn in H2. destruct (nodupZ (map fst ls) && _) eqn:Ec; [|discriminate].
  apply andb_true_iff in Ec. destruct Ec as [Ec1 Ec2]. apply nodupZ_NoDup in Ec1. rewrite forallb_forall in Ec2.
  set (p := runP c pre pst0) in *.
  assert (New : forall b, In b (map fst ls) -> lookupZ b (p_blks p) = None).
  { intros b' Hb. destruct (lookupZ b' (p_blks p)) eqn:E; [|reflexivity]. exfalso.
    specialize (Ec2 b' Hb). apply negb_true_iff in Ec2. apply memZ_false in Ec2. apply Ec2. apply B1. congruence. }
  cbn in Ha. destruct Ha as [Ha1 Ha2].
  destruct (pb_all_spec c ep ls 0 p Ec1 New Ha1) as [S1 [S2 [S3 S4]]].
  assert (Hb : In b (map fst ls)).
  { apply nth_error_In in Hn. apply (in_map fst) in Hn. exact Hn. }
  assert (St : bname_of (runP c (pre ++ Arbegin ls ep :: post) pst0) b = bname_of (pb_all c ls 0 ep p) b).
  { rewrite runP_app. rewrite runP_cons. cbn [stepP]. fold p. apply bname_stable; [|apply S4; exact Hb].
    intros w Hw'. apply runP_stable. exact Hw'. }
  specialize (S3 j b h Hn). cbn [Nat.add] in S3. unfold lab_shape. rewrite St.
  destruct (eff_bhint c (use_hint_at c j ep) h) as [hs|] eqn:Eh; [|exact S3].
  assert (Hbh : bhint_ok c h).
  { rewrite Forall_forall in Ha1. apply nth_error_In in Hn. apply (Ha1 (b, h) Hn). }
  destruct (eff_bhint_ok _ _ _ _ Hbh Eh) as [G D]. tauto.
Qed.

(* ---------- parsing the printed schedule ---------- *)
Lemma InvQ_0 : forall nm bnm, InvQ nm bnm g0 qst0 [] [].
Proof.
  intros. constructor; cbn.
  - discriminate.
  - reflexivity.
  - reflexivity.
  - reflexivity.
  - intro v. split; [congruence|]. intros [[]|[[]|[]]].
  - tauto.
  - congruence.
  - constructor.
  - intros b [].
  - intros b [].
  - intros v i [[]|[]].
  - constructor.
Qed.

Theorem roundtrip_schedule : forall c l gf,
  hints_ok c l -> ws_run c l g0 = Some gf -> g_pend gf = [] ->
  let pf := runP c l pst0 in
  exists q r rb,
    runQ c (map (name_act (name_of pf) (bname_of pf)) l) qst0 =
      Ok (q, qouts c (name_of pf) (bname_of pf) r rb l) /\
    q_fwd q = [] /\
    InvQ (name_of pf) (bname_of pf) gf q r rb.
Proof.
  intros c l gf Hh Hw Hp pf.
  destruct (runQ_sim c (name_of pf) (bname_of pf) l g0 gf qst0 [] []) as [q [r [rb [R1 [R2 _]]]]].
  - apply GInv_g0.
  - apply InvQ_0.
  - eapply printer_NamesOK; eauto.
  - exact Hw.
  - exists q, r, rb. split; [exact R1|]. split; [|exact R2].
    rewrite (iq_fwd _ _ _ _ _ _ R2). rewrite Hp. reflexivity.
Qed.

(* ---------- renaming / re-hinting: the printer does not notice ---------- *)
Section Rename.
Variable c : cfg.
Variables fv fb : Z -> Z.
Variables Dv Db : Z -> Prop.
Hypothesis fv_inj : forall x y, Dv x -> Dv y -> fv x = fv y -> x = y.
Hypothesis fb_inj : forall x y, Db x -> Db y -> fb x = fb y -> x = y.

(* two schedules that differ by the renaming and by hints with the same effect on the printer *)
Inductive act_eqv : sact -> sact -> Prop :=
| AE_res : forall v h h', Dv v -> eff_hint h = eff_hint h' -> act_eqv (Ares (v, h)) (Ares (fv v, h'))
| AE_pre : forall v h h', (fx_iso_operands c = true -> Dv v /\ eff_hint h = eff_hint h') ->
    act_eqv (Apre (v, h)) (Apre (fv v, h'))
| AE_enter : act_eqv Aenter Aenter
| AE_arg : forall v h h', Dv v -> eff_hint h = eff_hint h' -> act_eqv (Aarg (v, h)) (Aarg (fv v, h'))
| AE_succ : forall b, Db b -> act_eqv (Asucc b) (Asucc (fb b))
| AE_rbegin : forall ls ls' ep,
    Forall2 (fun l l' => fst l' = fb (fst l) /\ Db (fst l)) ls ls' ->
    (forall j l l', nth_error ls j = Some l -> nth_error ls' j = Some l' ->
        eff_bhint c (use_hint_at c j ep) (snd l) = eff_bhint c (use_hint_at c j ep) (snd l')) ->
    act_eqv (Arbegin ls ep) (Arbegin ls' ep)
| AE_label : forall b h h' pr, Db b -> (pr = true -> eff_bhint c true h = eff_bhint c true h') ->
    act_eqv (Alabel (b, h) pr) (Alabel (fb b, h') pr)
| AE_barg : forall v h h', Dv v -> eff_hint h = eff_hint h' -> act_eqv (Abarg (v, h)) (Abarg (fv v, h'))
| AE_rend : act_eqv Arend Arend
| AE_exit : act_eqv Aexit Aexit
| AE_arg_post : forall v h h', act_eqv (Aarg_post (v, h)) (Aarg_post (fv v, h'))
| AE_res_post : forall v h h', act_eqv (Ares_post (v, h)) (Ares_post (fv v, h')).

Definition ren (f : Z -> Z) (l : list (Z * str)) : list (Z * str) := map (fun x => (f (fst x), snd x)) l.

Definition RelP (p p' : pst) : Prop :=
  p_vals p' = ren fv (p_vals p) /\ p_blks p' = ren fb (p_blks p) /\ p_top p' = p_top p /\ p_rest p' = p_rest p /\
  (forall x, In x (p_vals p) -> Dv (fst x)) /\ (forall x, In x (p_blks p) -> Db (fst x)).

Lemma lookupZ_ren : forall (f : Z -> Z) (D : Z -> Prop) l k,
  (forall x y, D x -> D y -> f x = f y -> x = y) -> D k -> (forall x, In x l -> D (fst x)) ->
  lookupZ (f k) (ren f l) = lookupZ k l.
Proof.
  intros f D l k I Hk. induction l as [|[k' a] l IH]; intro Hl; cbn; [reflexivity|].
  assert (Hk' : D k') by (apply (Hl (k', a)); now left).
  destruct (Z.eqb_spec k k') as [E|E].
  - subst. rewrite Z.eqb_refl. reflexivity.
  - destruct (Z.eqb_spec (f k) (f k')) as [E'|E']; [apply I in E'; try assumption; contradiction|].
    apply IH. intros x Hx. apply Hl. now right.
Qed.

Lemma pv_rel : forall v h h' p p', Dv v -> eff_hint h = eff_hint h' -> RelP p p' -> RelP (pv v h p) (pv (fv v) h' p').
Proof.
  intros v h h' p p' Hv Eh [R1 [R2 [R3 [R4 [R5 R6]]]]]. unfold pv. rewrite R1.
  rewrite (lookupZ_ren fv Dv) by assumption.
  destruct (lookupZ v (p_vals p)); [repeat split; assumption|].
  rewrite <- Eh. rewrite R3.
  destruct (eff_hint h); repeat split; cbn [p_vals p_blks p_top p_rest]; try assumption; rewrite ?R1; try reflexivity.
  all: intros x [Hx|Hx]; [subst x; exact Hv|apply R5; exact Hx].
Qed.

Lemma pb_rel : forall b h h' idx u p p', Db b ->
  eff_bhint c u h = eff_bhint c u h' -> RelP p p' ->
  RelP (pb_if_new c b h idx u p) (pb_if_new c (fb b) h' idx u p').
Proof.
  intros b h h' idx u p p' Hb Eh [R1 [R2 [R3 [R4 [R5 R6]]]]]. unfold pb_if_new. rewrite R2.
  rewrite (lookupZ_ren fb Db) by assumption.
  destruct (lookupZ b (p_blks p)); [repeat split; assumption|].
  unfold pb. rewrite <- Eh. rewrite R3.
  destruct (eff_bhint c u h); [|destruct idx]; repeat split; cbn [p_vals p_blks p_top p_rest]; try assumption; rewrite ?R2; try reflexivity.
  all: intros x [Hx|Hx]; [subst x; exact Hb|apply R6; exact Hx].
Qed.

Lemma pb_all_rel : forall ls ls' i ep p p',
  Forall2 (fun l l' => fst l' = fb (fst l) /\ Db (fst l)) ls ls' ->
  (forall j l l', nth_error ls j = Some l -> nth_error ls' j = Some l' ->
      eff_bhint c (use_hint_at c (i + j) ep) (snd l) = eff_bhint c (use_hint_at c (i + j) ep) (snd l')) ->
  RelP p p' -> RelP (pb_all c ls i ep p) (pb_all c ls' i ep p').
Proof.
  intros ls ls' i ep p p' F. revert i p p'. induction F as [|[b h] [b' h'] ls ls' Hx F IH]; intros i p p' Hh R; cbn.
  - exact R.
  - cbn in Hx. destruct Hx as [Hx Hd]. subst b'. apply IH.
    + intros j l l' H1 H2. replace (S i + j) with (i + S j) by lia. apply (Hh (S j)); assumption.
    + fold (use_hint_at c i ep). apply pb_rel; [exact Hd| |exact R].
      specialize (Hh 0 (b, h) (fb b, h') eq_refl eq_refl). rewrite Nat.add_0_r in Hh. exact Hh.
Qed.

Lemma stepP_rel : forall a a' p p', act_eqv a a' -> RelP p p' -> RelP (stepP c a p) (stepP c a' p').
Proof.
  intros a a' p p' E R. destruct E; cbn [stepP].
  - apply pv_rel; assumption.
  - destruct (fx_iso_operands c); [|exact R]. destruct (H eq_refl). apply pv_rel; assumption.
  - destruct R as [R1 [R2 [R3 [R4 [R5 R6]]]]]. unfold RelP, p_enter. cbn [p_vals p_blks p_top p_rest]. rewrite R3, R4. auto 10.
  - apply pv_rel; assumption.
  - apply pb_rel; [assumption|reflexivity|exact R].
  - apply pb_all_rel; try assumption.
  - destruct pr; [|exact R]. apply pb_rel; [assumption|auto|exact R].
  - apply pv_rel; assumption.
  - exact R.
  - destruct R as [R1 [R2 [R3 [R4 [R5 R6]]]]]. unfold RelP, p_exit. rewrite R4.
    destruct (p_rest p) eqn:E; cbn [p_vals p_blks p_top p_rest]; repeat split; try assumption; congruence.
  - exact R.
  - exact R.
Qed.

Lemma runP_rel : forall l l' p p', Forall2 act_eqv l l' -> RelP p p' -> RelP (runP c l p) (runP c l' p').
Proof.
  intros l l' p p' F. revert p p'. induction F as [|a a' l l' Ha F IH]; intros p p' R; [exact R|].
  rewrite !runP_cons. apply IH. apply stepP_rel; assumption.
Qed.

Lemma RelP_0 : RelP pst0 pst0.
Proof. repeat split; intros x []. Qed.

Lemma RelP_names : forall p p', RelP p p' ->
  (forall v, Dv v -> name_of p' (fv v) = name_of p v) /\ (forall b, Db b -> bname_of p' (fb b) = bname_of p b).
Proof.
  intros p p' [R1 [R2 [_ [_ [R5 R6]]]]]. split; intros x Hx; unfold name_of, bname_of; rewrite ?R1, ?R2.
  - rewrite (lookupZ_ren fv Dv) by assumption. reflexivity.
  - rewrite (lookupZ_ren fb Db) by assumption. reflexivity.
Qed.

End Rename.
