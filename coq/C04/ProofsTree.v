(* C04/ProofsTree.v -- from schedules back to IR skeletons: the schedule of a renamed tree is the renamed
   schedule, the parser's leaves refill the tree they came from, and the theorems C04_roundtrip and
   C04_deterministic on skeletons. *)
From Coq Require Import ZArith List Bool Arith Lia.
From XV Require Import C04.Model C04.ProofsStr C04.ProofsGhost C04.ProofsPrint C04.ProofsParse C04.ProofsRound.
Import ListNotations.

(* ---------- induction on skeletons ---------- *)
Section Ind.
Context {V S L : Type}.
Variables (P : op V S L -> Prop) (Q : block V S L -> Prop).
Hypothesis HOp : forall nm res args succs props regs attrs it ot,
  Forall (Forall Q) regs -> P (Op nm res args succs props regs attrs it ot).
Hypothesis HBk : forall lab bargs ops, Forall P ops -> Q (Bk lab bargs ops).
Fixpoint op_ind2 (o : op V S L) : P o :=
  match o with
  | Op nm res args succs props regs attrs it ot =>
      HOp nm res args succs props regs attrs it ot
        ((fix regs_ind (rs : list (list (block V S L))) : Forall (Forall Q) rs :=
            match rs with
            | [] => Forall_nil _
            | r :: rs' =>
                Forall_cons r
                  ((fix blocks_ind (bs : list (block V S L)) : Forall Q bs :=
                      match bs with
                      | [] => Forall_nil _
                      | b :: bs' => Forall_cons b (block_ind2 b) (blocks_ind bs')
                      end) r)
                  (regs_ind rs')
            end) regs)
  end
with block_ind2 (b : block V S L) : Q b :=
  match b with
  | Bk lab bargs ops =>
      HBk lab bargs ops
        ((fix ops_ind (os : list (op V S L)) : Forall P os :=
            match os with
            | [] => Forall_nil _
            | o :: os' => Forall_cons o (op_ind2 o) (ops_ind os')
            end) ops)
  end.
End Ind.

(* ---------- the generic, position-aware map ---------- *)
Section MapP.
Context {V S L V' S' L' : Type}.
Variables (fr fa fb : V -> V') (fs : S -> S') (fl : bool -> L -> L').

Fixpoint tmapP (o : op V S L) : op V' S' L' :=
  match o with
  | Op nm res args succs props regs attrs it ot =>
      Op nm (map fr res) (map fa args) (map fs succs) props
         (map (fun r : list (block V S L) =>
                 (fix blocks (bs : list (block V S L)) (first : bool) : list (block V' S' L') :=
                    match bs with
                    | [] => []
                    | b :: bs' => tmapP_block b (if first then entry_printed b else true) :: blocks bs' false
                    end) r true) regs)
         attrs it ot
  end
with tmapP_block (b : block V S L) (printed : bool) : block V' S' L' :=
  match b with
  | Bk lab bargs ops => Bk (fl printed lab) (map (fun a => (fb (fst a), snd a)) bargs) (map tmapP ops)
  end.

Fixpoint tmapP_blocks (bs : list (block V S L)) (first : bool) : list (block V' S' L') :=
  match bs with
  | [] => []
  | b :: bs' => tmapP_block b (if first then entry_printed b else true) :: tmapP_blocks bs' false
  end.
Lemma tmapP_eq : forall nm res args succs props regs attrs it ot,
  tmapP (Op nm res args succs props regs attrs it ot) =
  Op nm (map fr res) (map fa args) (map fs succs) props (map (fun r => tmapP_blocks r true) regs) attrs it ot.
Proof. reflexivity. Qed.

Definition labsP (ep : bool) (ls : list L) : list L' :=
  match ls with [] => [] | l :: r => fl ep l :: map (fl true) r end.
Definition amapP (a : act V S L) : act V' S' L' :=
  match a with
  | Ares v => Ares (fr v)
  | Apre v => Apre (fa v)
  | Aenter => Aenter
  | Aarg v => Aarg (fa v)
  | Asucc s => Asucc (fs s)
  | Arbegin ls ep => Arbegin (labsP ep ls) ep
  | Alabel l pr => Alabel (fl pr l) pr
  | Abarg v => Abarg (fb v)
  | Arend => Arend
  | Aexit => Aexit
  | Aarg_post v => Aarg_post (fa v)
  | Ares_post v => Ares_post (fr v)
  end.

Lemma entry_printed_tmapP : forall b pr, entry_printed (tmapP_block b pr) = entry_printed b.
Proof. intros [lab bargs ops] pr. cbn. destruct bargs; destruct ops; reflexivity. Qed.
Lemma lab_of_tmapP : forall b pr, lab_of (tmapP_block b pr) = fl pr (lab_of b).
Proof. intros [lab bargs ops] pr. reflexivity. Qed.
End MapP.

(* the schedule as a function with named helpers *)
Section SchedEq.
Context {V S L : Type}.
Definition sched_blocks (ep : bool) : list (block V S L) -> bool -> list (act V S L) :=
  fix blocks (bs : list (block V S L)) (first : bool) : list (act V S L) :=
  match bs with
  | [] => []
  | b :: bs' => sched_block b (if first then ep else true) ++ blocks bs' false
  end.
Lemma sched_blocks_nil : forall ep first, sched_blocks ep [] first = [].
Proof. reflexivity. Qed.
Lemma sched_blocks_cons : forall ep b bs first,
  sched_blocks ep (b :: bs) first = sched_block b (if first then ep else true) ++ sched_blocks ep bs false.
Proof. reflexivity. Qed.
Definition ep_of (r : list (block V S L)) : bool := match r with b :: _ => entry_printed b | [] => true end.
Definition sched_region (r : list (block V S L)) : list (act V S L) :=
  Arbegin (map lab_of r) (ep_of r) :: sched_blocks (ep_of r) r true ++ [Arend].
Lemma sched_eq : forall nm res args succs props regs attrs it ot,
  sched (Op nm res args succs props regs attrs it ot : op V S L) =
  map Ares res ++ (if is_iso nm then map Apre args ++ [Aenter] else []) ++ map Aarg args ++ map Asucc succs ++
  flat_map sched_region regs ++ (if is_iso nm then [Aexit] else []) ++ map Aarg_post args ++ map Ares_post res.
Proof. reflexivity. Qed.
Lemma sched_block_eq : forall lab bargs ops pr,
  sched_block (Bk lab bargs ops : block V S L) pr =
  Alabel lab pr :: map (fun a => Abarg (fst a)) bargs ++ flat_map sched ops.
Proof. reflexivity. Qed.
End SchedEq.

Section SchedMap.
Context {V S L V' S' L' : Type}.
Variables (fr fa fb : V -> V') (fs : S -> S') (fl : bool -> L -> L').
Notation TM := (tmapP fr fa fb fs fl).
Notation TB := (tmapP_block fr fa fb fs fl).
Notation AM := (amapP fr fa fb fs fl).

Lemma sched_tmapP : forall o : op V S L, sched (TM o) = map AM (sched o).
Proof.
  apply (op_ind2 (fun o => sched (TM o) = map AM (sched o))
                 (fun b => forall pr, sched_block (TB b pr) pr = map AM (sched_block b pr))).
  - intros nm res args succs props regs attrs it ot IH.
    rewrite tmapP_eq. rewrite !sched_eq. rewrite !map_app, !map_map.
    f_equal. f_equal.
    { destruct (is_iso nm); [|reflexivity]. rewrite map_app, map_map. reflexivity. }
    f_equal. f_equal. f_equal.
    2:{ f_equal. destruct (is_iso nm); reflexivity. }
    induction IH as [|r rs Hr _ IHrs]; [reflexivity|].
    cbn [map flat_map]. rewrite map_app. f_equal; [|exact IHrs].
    unfold sched_region. cbn [map]. rewrite map_app. cbn [map].
    assert (Eep : ep_of (tmapP_blocks fr fa fb fs fl r true) = ep_of r).
    { destruct r as [|b r']; [reflexivity|]. cbn. apply entry_printed_tmapP. }
    rewrite Eep. f_equal.
    + cbn [amapP]. f_equal. destruct r as [|b r']; [reflexivity|]. cbn [tmapP_blocks map labsP ep_of].
      rewrite lab_of_tmapP. f_equal.
      clear Hr Eep. induction r' as [|b' r'' IHr]; [reflexivity|]. cbn [tmapP_blocks map]. rewrite lab_of_tmapP. f_equal. exact IHr.
    + f_equal.
      assert (G : forall first ep, (first = true -> ep = ep_of r) ->
                sched_blocks ep (tmapP_blocks fr fa fb fs fl r first) first = map AM (sched_blocks ep r first)).
      { clear Eep. induction Hr as [|b r' Hb _ IHr']; intros first ep Hep; [reflexivity|].
        cbn [tmapP_blocks]. rewrite !sched_blocks_cons. rewrite map_app. f_equal.
        - destruct first.
          + rewrite (Hep eq_refl). cbn [ep_of]. apply Hb.
          + apply Hb.
        - apply IHr'. discriminate. }
      apply G. reflexivity.
  - intros lab bargs ops IH pr. cbn [tmapP_block]. rewrite !sched_block_eq. cbn [map amapP]. f_equal.
    rewrite map_app, !map_map. f_equal.
    induction IH as [|o os Ho _ IHos]; [reflexivity|]. cbn [map flat_map]. rewrite map_app. f_equal; assumption.
Qed.
End SchedMap.

(* name_op is an instance *)
Definition nfv (p : pst) (v : Z * hint) : str := name_of p (fst v).
Lemma name_op_tmapP : forall p ir,
  name_op p ir = tmapP (nfv p) (nfv p) (nfv p) (bname_of p) (name_block_lab p) ir.
Proof. intros p ir. reflexivity. Qed.

Lemma name_act_amapP : forall nm bnm a,
  name_act nm bnm a = amapP (fun v : Z * hint => nm (fst v)) (fun v => nm (fst v)) (fun v => nm (fst v)) bnm
                            (fun pr (l : Z * hint) => if pr then Some (bnm (fst l)) else None) a.
Proof.
  intros nm bnm a. destruct a as [[v h]|[v h]| |[v h]|b|ls ep|[b h] pr|[v h]| | |[v h]|[v h]]; reflexivity.
Qed.

Lemma sched_print_names : forall p ir,
  sched (name_op p ir) = map (name_act (name_of p) (bname_of p)) (sched ir).
Proof.
  intros p ir. rewrite name_op_tmapP. rewrite sched_tmapP. apply map_ext. intro a.
  rewrite name_act_amapP. destruct a as [[v h]|[v h]| |[v h]|b|ls ep|[b h] pr|[v h]| | |[v h]|[v h]]; reflexivity.
Qed.

(* ---------- refilling the tree with the parser's leaves ---------- *)
Section Refill.
Variable c : cfg.
Variables nm bnm : Z -> str.
Variables r rb : list (Z * Z).

Definition rv (v : Z * hint) : Z * hint := (rho r (fst v), val_hint c (nm (fst v))).
Definition ra (v : Z * hint) : Z * hint := (rho r (fst v), None).
Definition rl (pr : bool) (l : Z * hint) : Z * hint := (rho rb (fst l), if pr then blk_hint c (bnm (fst l)) else None).
Notation NT := (tmapP (fun v : Z * hint => nm (fst v)) (fun v => nm (fst v)) (fun v => nm (fst v)) bnm
                      (fun pr (l : Z * hint) => if pr then Some (bnm (fst l)) else None)).
Notation NB := (tmapP_block (fun v : Z * hint => nm (fst v)) (fun v => nm (fst v)) (fun v => nm (fst v)) bnm
                      (fun pr (l : Z * hint) => if pr then Some (bnm (fst l)) else None)).
Notation NBS := (tmapP_blocks (fun v : Z * hint => nm (fst v)) (fun v => nm (fst v)) (fun v => nm (fst v)) bnm
                      (fun pr (l : Z * hint) => if pr then Some (bnm (fst l)) else None)).
Notation RT := (tmapP rv ra rv (rho rb) rl).
Notation RB := (tmapP_block rv ra rv (rho rb) rl).
Notation QO := (qouts c nm bnm r rb).

Lemma take_outs_app : forall {A} (f : A -> out) (l : list A) n rest, n = length l ->
  take_outs n (map f l ++ rest) = Some (map f l, rest).
Proof.
  intros A f l n rest E. subst n. unfold take_outs.
  assert (H : length l <=? length (map f l ++ rest) = true).
  { apply Nat.leb_le. rewrite app_length, map_length. lia. }
  rewrite H. f_equal. f_equal.
  - rewrite firstn_app. rewrite map_length. rewrite Nat.sub_diag. cbn. rewrite app_nil_r.
    rewrite <- (map_length f l) at 1. apply firstn_all.
  - rewrite skipn_app. rewrite map_length. rewrite Nat.sub_diag. cbn.
    rewrite <- (map_length f l) at 1. rewrite skipn_all. reflexivity.
Qed.

Lemma qouts_app : forall l1 l2, QO (l1 ++ l2) = QO l1 ++ QO l2.
Proof. intros. unfold qouts. apply flat_map_app. Qed.
Lemma qouts_none : forall {A} (f : A -> sact) (l : list A),
  (forall x, qout c nm bnm r rb (f x) = []) -> QO (map f l) = [].
Proof. intros A f l H. unfold qouts. induction l as [|x l IH]; cbn; [reflexivity|]. rewrite H. exact IH. Qed.
Lemma qouts_map1 : forall {A} (f : A -> sact) (g : A -> out) (l : list A),
  (forall x, qout c nm bnm r rb (f x) = [g x]) -> QO (map f l) = map g l.
Proof. intros A f g l H. unfold qouts. induction l as [|x l IH]; cbn; [reflexivity|]. rewrite H. cbn. f_equal. exact IH. Qed.

Definition refill_blocks := fix blocks (bs : list (block str str (option str))) (l : list out)
  : option (list (block (Z * hint) Z (Z * hint)) * list out) :=
  match bs with
  | [] => Some ([], l)
  | b :: bs' =>
      match refill_block b l with
      | None => None
      | Some (b', l') =>
          match blocks bs' l' with
          | None => None
          | Some (r', l'') => Some (b' :: r', l'')
          end
      end
  end.
Definition refill_regions := fix regions (rs : list (list (block str str (option str)))) (l : list out)
  : option (list (list (block (Z * hint) Z (Z * hint))) * list out) :=
  match rs with
  | [] => Some ([], l)
  | r :: rs' =>
      match refill_blocks r l with
      | None => None
      | Some (r', l') =>
          match regions rs' l' with
          | None => None
          | Some (rs'', l'') => Some (r' :: rs'', l'')
          end
      end
  end.
Definition refill_ops := fix opsf (os : list ntree) (l : list out) : option (list skel * list out) :=
  match os with
  | [] => Some ([], l)
  | o :: os' =>
      match refill o l with
      | None => None
      | Some (o', l') =>
          match opsf os' l' with
          | None => None
          | Some (r, l'') => Some (o' :: r, l'')
          end
      end
  end.
Lemma refill_eq : forall nm0 res args succs props regs attrs it ot l,
  refill (Op nm0 res args succs props regs attrs it ot) l =
  match take_outs (length succs) l with
  | None => None
  | Some (os, l1) =>
      match refill_regions regs l1 with
      | None => None
      | Some (regs', l2) =>
          match take_outs (length args) l2 with
          | None => None
          | Some (oa, l3) =>
              match take_outs (length res) l3 with
              | None => None
              | Some (orr, l4) =>
                  Some (Op nm0 (map ov orr) (map ov oa) (map (fun o => fst (ov o)) os) props regs' attrs it ot, l4)
              end
          end
      end
  end.
Proof. reflexivity. Qed.
Lemma refill_block_eq : forall lab bargs ops l,
  refill_block (Bk lab bargs ops) l =
  match l with
  | [] => None
  | ol :: l1 =>
      match take_outs (length bargs) l1 with
      | None => None
      | Some (oa, l2) =>
          match refill_ops ops l2 with
          | None => None
          | Some (ops', l3) =>
              Some (Bk (ov ol) (map (fun x => (ov (fst x), snd (snd x))) (combine oa bargs)) ops', l3)
          end
      end
  end.
Proof. reflexivity. Qed.

Lemma combine_map_args : forall (bargs : list ((Z * hint) * atom)),
  map (fun x : out * (str * atom) => (ov (fst x), snd (snd x)))
      (combine (map (fun a : (Z * hint) * atom => OV (rho r (fst (fst a))) (val_hint c (nm (fst (fst a))))) bargs)
               (map (fun a : (Z * hint) * atom => (nm (fst (fst a)), snd a)) bargs)) =
  map (fun a => (rv (fst a), snd a)) bargs.
Proof. induction bargs as [|a l IH]; cbn; [reflexivity|]. f_equal. exact IH. Qed.

Lemma qouts_op : forall nm0 res args succs props regs attrs it ot,
  QO (sched (Op nm0 res args succs props regs attrs it ot)) =
  map (fun b => OB (rho rb b) None) succs ++ QO (flat_map sched_region regs) ++
  map (fun v : Z * hint => OV (rho r (fst v)) None) args ++
  map (fun v : Z * hint => OV (rho r (fst v)) (val_hint c (nm (fst v)))) res.
Proof.
  intros. rewrite sched_eq.
  assert (EX : QO [Aenter] = [] /\ QO [Aexit] = []) by (split; reflexivity). destruct EX as [EX1 EX2].
  destruct (is_iso nm0); rewrite !qouts_app;
    rewrite ?(qouts_none (fun v => Ares v)) by (intros [v h]; reflexivity);
    rewrite ?(qouts_none (fun v => Apre v)) by (intros [v h]; reflexivity);
    rewrite ?(qouts_none (fun v => Aarg v)) by (intros [v h]; reflexivity);
    rewrite ?EX1, ?EX2; change (QO []) with (@nil out); cbn [app];
    rewrite (qouts_map1 (fun b => Asucc b) (fun b => OB (rho rb b) None)) by reflexivity;
    rewrite (qouts_map1 (fun v => Aarg_post v) (fun v => OV (rho r (fst v)) None)) by (intros [v h]; reflexivity);
    rewrite (qouts_map1 (fun v => Ares_post v) (fun v => OV (rho r (fst v)) (val_hint c (nm (fst v))))) by (intros [v h]; reflexivity);
    reflexivity.
Qed.

Lemma refill_ok : forall o rest, refill (NT o) (QO (sched o) ++ rest) = Some (RT o, rest).
Proof.
  apply (op_ind2 (fun o => forall rest, refill (NT o) (QO (sched o) ++ rest) = Some (RT o, rest))
                 (fun b => forall pr rest, refill_block (NB b pr) (QO (sched_block b pr) ++ rest) = Some (RB b pr, rest))).
  - intros nm0 res args succs props regs attrs it ot IH rest.
    rewrite !tmapP_eq. rewrite refill_eq. rewrite qouts_op.
    rewrite <- !app_assoc.
    rewrite take_outs_app by (rewrite map_length; reflexivity).
    assert (ER : forall rest', refill_regions (map (fun r0 => NBS r0 true) regs)
                    (QO (flat_map sched_region regs) ++ rest') =
                  Some (map (fun r0 => tmapP_blocks rv ra rv (rho rb) rl r0 true) regs, rest')).
    { induction IH as [|r0 rs Hr _ IHrs]; intro rest'; [reflexivity|].
      cbn [map flat_map refill_regions]. rewrite qouts_app. rewrite <- app_assoc.
      assert (EB : forall first ep rest'', (first = true -> ep = ep_of r0) ->
                refill_blocks (NBS r0 first) (QO (sched_blocks ep r0 first) ++ rest'') =
                Some (tmapP_blocks rv ra rv (rho rb) rl r0 first, rest'')).
      { induction Hr as [|b r' Hb _ IHr']; intros first ep rest'' Hep; [reflexivity|].
        cbn [tmapP_blocks refill_blocks]. rewrite sched_blocks_cons. rewrite qouts_app. rewrite <- app_assoc.
        assert (Epr : (if first then ep else true) = (if first then entry_printed b else true)).
        { destruct first; [|reflexivity]. rewrite (Hep eq_refl). reflexivity. }
        rewrite Epr. rewrite Hb. rewrite IHr' by discriminate. reflexivity. }
      unfold sched_region. change (QO (Arbegin (map lab_of r0) (ep_of r0) :: sched_blocks (ep_of r0) r0 true ++ [Arend]))
        with (QO (sched_blocks (ep_of r0) r0 true ++ [Arend])).
      rewrite qouts_app. change (QO [Arend]) with (@nil out). rewrite app_nil_r.
      rewrite EB by reflexivity. rewrite IHrs. reflexivity. }
    rewrite ER.
    rewrite take_outs_app by (rewrite map_length; reflexivity).
    rewrite take_outs_app by (rewrite map_length; reflexivity).
    f_equal. f_equal. rewrite !map_map. reflexivity.
  - intros lab bargs ops IH pr rest. cbn [tmapP_block]. rewrite sched_block_eq. rewrite refill_block_eq.
    change (QO (Alabel lab pr :: map (fun a => Abarg (fst a)) bargs ++ flat_map sched ops))
      with (qout c nm bnm r rb (Alabel lab pr) ++ QO (map (fun a => Abarg (fst a)) bargs ++ flat_map sched ops)).
    destruct lab as [b h]. cbn [qout app]. rewrite qouts_app.
    rewrite (qouts_map1 (fun a : (Z * hint) * atom => Abarg (fst a))
                        (fun a => OV (rho r (fst (fst a))) (val_hint c (nm (fst (fst a))))))
      by (intros [[v h'] t]; reflexivity).
    rewrite <- app_assoc. rewrite take_outs_app by (rewrite !map_length; reflexivity).
    assert (EO : forall rest', refill_ops (map NT ops) (QO (flat_map sched ops) ++ rest') = Some (map RT ops, rest')).
    { induction IH as [|o os Ho _ IHos]; intro rest'; [reflexivity|].
      cbn [map flat_map refill_ops]. rewrite qouts_app. rewrite <- app_assoc. rewrite Ho. rewrite IHos. reflexivity. }
    rewrite EO. cbn [tmapP_block]. rewrite <- (combine_map_args bargs). reflexivity.
Qed.
End Refill.

(* ---------- facts about every act of a well-scoped run ---------- *)
Section Facts.
Variable c : cfg.

Definition GB (g : gst) : Prop :=
  forall e, In e (g_bopen g) -> incl (ids_of e) (g_bseen g) /\ exists pre, fst (fst e) = pre ++ snd e.

Lemma ws_step_mono : forall a g g1, ws_step c a g = Some g1 ->
  (forall v x, lookupZ v (g_hints g) = Some x -> lookupZ v (g_hints g1) = Some x) /\
  incl (g_bseen g) (g_bseen g1).
Proof.
  intros a g g1 H.
  assert (M : forall v h g', g_mention v h g = Some g' ->
     (forall w x, lookupZ w (g_hints g) = Some x -> lookupZ w (g_hints g') = Some x) /\ g_bseen g' = g_bseen g).
  { intros v h g' Hm. destruct (g_mention_hints v h g g' Hm) as [_ [_ [_ [_ [_ [B S]]]]]]. split; [|exact B].
    intros w x Hw. rewrite S by congruence. exact Hw. }
  assert (D : forall v g' g'', g_define v g' = Some g'' -> g_hints g'' = g_hints g' /\ g_bseen g'' = g_bseen g').
  { intros v g' g'' Hd. unfold g_define in Hd. destruct (lookupZ v (g_hints g')); [|discriminate].
    destruct (_ || _); [discriminate|]. destruct (g_open g'); [discriminate|]. inversion Hd; subst. tauto. }
  destruct a as [[v h]|[v h]| |[v h]|b|ls ep|[b h] pr|[v h]| | |[v h]|[v h]]; cbn in H.
  - destruct (M _ _ _ H) as [A B]. split; [exact A|rewrite B; apply incl_refl].
  - destruct (fx_iso_operands c).
    + destruct (M _ _ _ H) as [A B]. split; [exact A|rewrite B; apply incl_refl].
    + inversion H; subst. split; [auto|apply incl_refl].
  - inversion H; subst. split; [auto|apply incl_refl].
  - destruct (M _ _ _ H) as [A B]. split; [exact A|rewrite B; apply incl_refl].
  - destruct (g_bopen g) as [|[[ls ep] rem] bs]; [discriminate|]. destruct (_ && _); inversion H; subst.
    split; [auto|apply incl_refl].
  - destruct (_ && _); [|discriminate]. inversion H; subst. cbn. split; [auto|apply incl_appr; apply incl_refl].
  - destruct (g_bopen g) as [|[[ls ep] [|x rem]] bs]; try discriminate. destruct (_ && _); [|discriminate].
    inversion H; subst. split; [auto|apply incl_refl].
  - destruct (g_mention v h g) as [gm|] eqn:Em; [|discriminate]. destruct (M _ _ _ Em) as [A B].
    destruct (D _ _ _ H) as [A' B']. rewrite A', B', B. split; [exact A|apply incl_refl].
  - destruct (g_open g) as [|o [|o2 os]]; try discriminate.
    destruct (g_bopen g) as [|[[ls ep] [|x rem]] bs]; try discriminate. inversion H; subst. split; [auto|apply incl_refl].
  - destruct (g_frames g) as [|f [|f2 fs]]; try discriminate. destruct (forallb _ f); [|discriminate].
    inversion H; subst. split; [auto|apply incl_refl].
  - unfold g_use in H. destruct (lookupZ v (g_hints g)); [|discriminate]. destruct (memZ v (g_closed g)); [discriminate|].
    destruct (_ || _); inversion H; subst; (split; [auto|apply incl_refl]).
  - destruct (D _ _ _ H) as [A' B']. rewrite A', B'. split; [auto|apply incl_refl].
Qed.

Lemma ws_run_mono : forall l g g1, ws_run c l g = Some g1 ->
  (forall v x, lookupZ v (g_hints g) = Some x -> lookupZ v (g_hints g1) = Some x) /\
  incl (g_bseen g) (g_bseen g1).
Proof.
  induction l as [|a l IH]; intros g g1 H; cbn in H.
  - inversion H; subst. split; [auto|apply incl_refl].
  - destruct (ws_step c a g) as [g2|] eqn:E; [|discriminate].
    destruct (ws_step_mono _ _ _ E) as [A B]. destruct (IH _ _ H) as [A' B']. split; [auto|eapply incl_tran; eauto].
Qed.

Lemma GB_step : forall a g g1, GB g -> ws_step c a g = Some g1 -> GB g1.
Proof.
  intros a g g1 I H.
  assert (Same : forall g', g_bopen g' = g_bopen g -> g_bseen g' = g_bseen g -> GB g').
  { intros g' E1 E2 e He. rewrite E1 in He. rewrite E2. apply I. exact He. }
  destruct a as [[v h]|[v h]| |[v h]|b|ls ep|[b h] pr|[v h]| | |[v h]|[v h]]; cbn in H.
  - destruct (g_mention_b _ _ _ _ H). apply Same; assumption.
  - destruct (fx_iso_operands c); [destruct (g_mention_b _ _ _ _ H); apply Same; assumption|inversion H; subst; exact I].
  - inversion H; subst. apply Same; reflexivity.
  - destruct (g_mention_b _ _ _ _ H). apply Same; assumption.
  - destruct (g_bopen g) as [|[[ls ep] rem] bs]; [discriminate|]. destruct (_ && _); inversion H; subst. exact I.
  - destruct (_ && _); [|discriminate]. inversion H; subst. intros e [He|He]; cbn [g_bseen].
    + subst e. unfold ids_of. cbn [fst snd]. split; [apply incl_appl; apply incl_refl|exists []; reflexivity].
    + destruct (I e He) as [X1 X2]. split; [apply incl_appr; exact X1|exact X2].
  - destruct (g_bopen g) as [|[[ls ep] [|x rem]] bs] eqn:Eb; try discriminate. destruct (_ && _); [|discriminate].
    inversion H; subst. intros e [He|He]; cbn [g_bseen].
    + subst e. destruct (I (ls, ep, x :: rem)) as [X1 [pre X2]]; [rewrite Eb; now left|].
      unfold ids_of in *. cbn [fst snd] in *. split; [exact X1|]. exists (pre ++ [x]). rewrite X2. rewrite <- app_assoc. reflexivity.
    + apply I. rewrite Eb. now right.
  - destruct (g_mention v h g) as [gm|] eqn:Em; [|discriminate].
    destruct (g_mention_b _ _ _ _ Em). destruct (g_define_b _ _ _ H). apply Same; congruence.
  - destruct (g_open g) as [|o [|o2 os]]; try discriminate.
    destruct (g_bopen g) as [|[[ls ep] [|x rem]] bs] eqn:Eb; try discriminate. inversion H; subst.
    intros e He. cbn [g_bseen]. apply I. rewrite Eb. now right.
  - destruct (g_frames g) as [|f [|f2 fs]]; try discriminate. destruct (forallb _ f); [|discriminate].
    inversion H; subst. apply Same; reflexivity.
  - destruct (g_use_b _ _ _ H). apply Same; assumption.
  - destruct (g_define_b _ _ _ H). apply Same; assumption.
Qed.

Definition act_fact (gf : gst) (a : sact) : Prop :=
  match a with
  | Ares (v, h) | Aarg (v, h) | Abarg (v, h) => lookupZ v (g_hints gf) = Some (eff_hint h)
  | Apre (v, h) => fx_iso_operands c = true -> lookupZ v (g_hints gf) = Some (eff_hint h)
  | Aarg_post (v, _) | Ares_post (v, _) => lookupZ v (g_hints gf) <> None
  | Asucc b => In b (g_bseen gf)
  | Alabel (b, _) _ => In b (g_bseen gf)
  | Arbegin ls _ => forall l, In l ls -> In (fst l) (g_bseen gf)
  | _ => True
  end.

Lemma step_fact : forall a g g1, GB g -> ws_step c a g = Some g1 -> act_fact g1 a.
Proof.
  intros a g g1 I H.
  destruct a as [[v h]|[v h]| |[v h]|b|ls ep|[b h] pr|[v h]| | |[v h]|[v h]]; cbn in H; cbn [act_fact]; try exact Logic.I.
  - apply (g_mention_hints v h g g1 H).
  - intro Efx. rewrite Efx in H. apply (g_mention_hints v h g g1 H).
  - apply (g_mention_hints v h g g1 H).
  - destruct (g_bopen g) as [|[[ls ep] rem] bs] eqn:Eb; [discriminate|].
    destruct (memZ b (map fst ls) && _) eqn:Ec; [|discriminate]. inversion H; subst.
    apply andb_true_iff in Ec. destruct Ec as [Ec _]. apply memZ_In in Ec.
    destruct (I (ls, ep, rem)) as [X _]; [rewrite Eb; now left|]. apply X. exact Ec.
  - destruct (_ && _); [|discriminate]. inversion H; subst. cbn. intros l Hl. apply in_or_app. left. apply in_map. exact Hl.
  - destruct (g_bopen g) as [|[[ls ep] [|x rem]] bs] eqn:Eb; try discriminate.
    destruct (Z.eqb b (fst x) && hint_eqb h (snd x) && _) eqn:Ec; [|discriminate]. inversion H; subst. cbn [g_bseen].
    apply andb_true_iff in Ec. destruct Ec as [Ec _]. apply andb_true_iff in Ec. destruct Ec as [Ec _]. apply Z.eqb_eq in Ec.
    destruct (I (ls, ep, x :: rem)) as [X [pre X2]]; [rewrite Eb; now left|]. apply X.
    unfold ids_of. cbn [fst snd] in *. rewrite X2. rewrite map_app. apply in_or_app. right. left. auto.
  - destruct (g_mention v h g) as [gm|] eqn:Em; [|discriminate].
    unfold g_define in H. destruct (lookupZ v (g_hints gm)) eqn:E; [|discriminate].
    destruct (_ || _); [discriminate|]. destruct (g_open gm); [discriminate|]. inversion H; subst. cbn [g_hints].
    apply (g_mention_hints v h g gm Em).
  - unfold g_use in H. destruct (lookupZ v (g_hints g)) eqn:E; [|discriminate].
    destruct (memZ v (g_closed g)); [discriminate|]. destruct (_ || _); inversion H; subst; cbn [g_hints]; congruence.
  - unfold g_define in H. destruct (lookupZ v (g_hints g)) eqn:E; [|discriminate].
    destruct (_ || _); [discriminate|]. destruct (g_open g); [discriminate|]. inversion H; subst. cbn [g_hints]. congruence.
Qed.

Lemma act_fact_mono : forall a g g1,
  (forall v x, lookupZ v (g_hints g) = Some x -> lookupZ v (g_hints g1) = Some x) ->
  incl (g_bseen g) (g_bseen g1) -> act_fact g a -> act_fact g1 a.
Proof.
  intros a g g1 A B H.
  destruct a as [[v h]|[v h]| |[v h]|b|ls ep|[b h] pr|[v h]| | |[v h]|[v h]]; cbn [act_fact] in *; auto.
  - destruct (lookupZ v (g_hints g)) eqn:E; [|congruence]. rewrite (A v _ E). discriminate.
  - destruct (lookupZ v (g_hints g)) eqn:E; [|congruence]. rewrite (A v _ E). discriminate.
Qed.

Lemma run_facts : forall l g gf, GB g -> ws_run c l g = Some gf -> Forall (act_fact gf) l.
Proof.
  induction l as [|a l IH]; intros g gf I H; cbn in H; [constructor|].
  destruct (ws_step c a g) as [g2|] eqn:E; [|discriminate]. constructor.
  - destruct (ws_run_mono _ _ _ H) as [A B]. eapply act_fact_mono; eauto. eapply step_fact; eauto.
  - eapply IH; [|exact H]. eapply GB_step; eauto.
Qed.

Lemma GB_0 : GB g0. Proof. intros e []. Qed.
End Facts.

(* ---------- extensionality and fusion of tree maps ---------- *)
Section Ext.
Context {V S L V' S' L' : Type}.
Variables (fr fa fb : V -> V') (fs : S -> S') (fl : bool -> L -> L').
Variables (gr ga gb : V -> V') (gs : S -> S') (gl : bool -> L -> L').
Notation TF := (tmapP fr fa fb fs fl).
Notation TG := (tmapP gr ga gb gs gl).
Notation AF := (amapP fr fa fb fs fl).
Notation AG := (amapP gr ga gb gs gl).

Lemma in_sched_blocks : forall (r : list (block V S L)) (ep first : bool) (b : block V S L) (pr : bool) (a : act V S L),
  In a (sched_block b pr) ->
  (exists pre post : list (block V S L), r = pre ++ b :: post /\
     pr = (if first then (match pre with [] => ep | _ :: _ => true end) else true)) ->
  In a (sched_blocks ep r first).
Proof.
  induction r as [|b0 r IH]; intros ep first b pr a Ha [pre [post [E Epr]]].
  - destruct pre; discriminate.
  - rewrite sched_blocks_cons. apply in_or_app. destruct pre as [|x pre]; cbn in E; inversion E; subst.
    + left. exact Ha.
    + right. apply (IH ep false b true a).
      * destruct first; exact Ha.
      * exists pre, post. split; reflexivity.
Qed.

Definition primary (a : act V S L) : Prop :=
  match a with Ares _ | Aarg _ | Asucc _ | Alabel _ _ | Abarg _ => True | _ => False end.

Lemma tmapP_ext : forall o : op V S L, (forall a, In a (sched o) -> primary a -> AF a = AG a) -> TF o = TG o.
Proof.
  apply (op_ind2 (fun o => (forall a, In a (sched o) -> primary a -> AF a = AG a) -> TF o = TG o)
                 (fun b => forall pr, (forall a, In a (sched_block b pr) -> primary a -> AF a = AG a) ->
                                      tmapP_block fr fa fb fs fl b pr = tmapP_block gr ga gb gs gl b pr)).
  - intros nm res args succs props regs attrs it ot IH H.
    rewrite !tmapP_eq.
    assert (H1 : map fr res = map gr res).
    { apply map_ext_in. intros v Hv. assert (X : AF (Ares v) = AG (Ares v)).
      { apply H; [|exact I]. rewrite sched_eq. rewrite !in_app_iff. left. apply in_map. exact Hv. }
      cbn in X. inversion X. reflexivity. }
    assert (H2 : map fa args = map ga args).
    { apply map_ext_in. intros v Hv. assert (X : AF (Aarg v) = AG (Aarg v)).
      { apply H; [|exact I]. rewrite sched_eq. rewrite !in_app_iff. right. right. left. apply in_map. exact Hv. }
      cbn in X. inversion X. reflexivity. }
    assert (H3 : map fs succs = map gs succs).
    { apply map_ext_in. intros v Hv. assert (X : AF (Asucc v) = AG (Asucc v)).
      { apply H; [|exact I]. rewrite sched_eq. rewrite !in_app_iff. right. right. right. left. apply in_map. exact Hv. }
      cbn in X. inversion X. reflexivity. }
    rewrite H1, H2, H3. f_equal.
    assert (HR : forall a, In a (flat_map sched_region regs) -> primary a -> AF a = AG a).
    { intros a Ha Pa. apply H; [|exact Pa]. rewrite sched_eq. rewrite !in_app_iff. tauto. }
    clear H H1 H2 H3. induction IH as [|r rs Hr _ IHrs]; [reflexivity|]. cbn [map]. f_equal.
    + assert (Hreg : forall a, In a (sched_blocks (ep_of r) r true) -> primary a -> AF a = AG a).
      { intros a Ha Pa. apply HR; [|exact Pa]. cbn [flat_map]. apply in_or_app. left. unfold sched_region. right. apply in_or_app. now left. }
      assert (G : forall pre suf first, r = pre ++ suf -> (first = true -> pre = []) -> (first = false -> pre <> []) ->
                tmapP_blocks fr fa fb fs fl suf first = tmapP_blocks gr ga gb gs gl suf first).
      { intros pre suf. revert pre.
        assert (Hsuf : forall suf, Forall (fun b => forall pr, (forall a, In a (sched_block b pr) -> primary a -> AF a = AG a) ->
                   tmapP_block fr fa fb fs fl b pr = tmapP_block gr ga gb gs gl b pr) suf ->
                 forall pre first, r = pre ++ suf -> (first = true -> pre = []) -> (first = false -> pre <> []) ->
                 tmapP_blocks fr fa fb fs fl suf first = tmapP_blocks gr ga gb gs gl suf first).
        { induction 1 as [|b suf' Hb _ IHs]; intros pre first E F1 F2; [reflexivity|]. cbn [tmapP_blocks]. f_equal.
          - apply Hb. intros a Ha Pa. apply Hreg; [|exact Pa]. apply (in_sched_blocks r (ep_of r) true b _ a Ha).
            exists pre, suf'. split; [exact E|]. destruct first.
            + rewrite (F1 eq_refl) in *. cbn in E. subst r. reflexivity.
            + destruct pre; [exfalso; apply (F2 eq_refl); reflexivity|reflexivity].
          - apply (IHs (pre ++ [b]) false).
            + rewrite <- app_assoc. exact E.
            + discriminate.
            + intros _ X. destruct pre; discriminate. }
        intros pre first E F1 F2. apply (Hsuf suf) with (pre := pre); try assumption.
        subst r. apply Forall_app in Hr. tauto. }
      apply (G [] r true); [reflexivity|reflexivity|discriminate].
    + apply IHrs. intros a Ha Pa. apply HR; [|exact Pa]. cbn [flat_map]. apply in_or_app. now right.
  - intros lab bargs ops IH pr H. cbn [tmapP_block].
    assert (H1 : fl pr lab = gl pr lab).
    { assert (X : AF (Alabel lab pr) = AG (Alabel lab pr)) by (apply H; [rewrite sched_block_eq; now left|exact I]).
      cbn in X. inversion X. reflexivity. }
    assert (H2 : map (fun a => (fb (fst a), snd a)) bargs = map (fun a => (gb (fst a), snd a)) bargs).
    { apply map_ext_in. intros v Hv. assert (X : AF (Abarg (fst v)) = AG (Abarg (fst v))).
      { apply H; [|exact I]. rewrite sched_block_eq. right. apply in_or_app. left. apply (in_map (fun a : V * atom => @Abarg V S L (fst a))) in Hv. exact Hv. }
      cbn in X. inversion X. congruence. }
    rewrite H1, H2. f_equal.
    assert (HO : forall a, In a (flat_map sched ops) -> primary a -> AF a = AG a).
    { intros a Ha Pa. apply H; [|exact Pa]. rewrite sched_block_eq. right. apply in_or_app. now right. }
    clear H H1 H2. induction IH as [|o os Ho _ IHos]; [reflexivity|]. cbn [map]. f_equal.
    + apply Ho. intros a Ha Pa. apply HO; [|exact Pa]. cbn. apply in_or_app. now left.
    + apply IHos. intros a Ha Pa. apply HO; [|exact Pa]. cbn. apply in_or_app. now right.
Qed.
End Ext.

Section Fuse.
Context {V S L V' S' L' V'' S'' L'' : Type}.
Variables (fr fa fb : V -> V') (fs : S -> S') (fl : bool -> L -> L').
Variables (gr ga gb : V' -> V'') (gs : S' -> S'') (gl : bool -> L' -> L'').
Lemma tmapP_tmapP : forall o : op V S L,
  tmapP gr ga gb gs gl (tmapP fr fa fb fs fl o) =
  tmapP (fun v => gr (fr v)) (fun v => ga (fa v)) (fun v => gb (fb v)) (fun s => gs (fs s)) (fun pr l => gl pr (fl pr l)) o.
Proof.
  apply (op_ind2 (fun o => tmapP gr ga gb gs gl (tmapP fr fa fb fs fl o) = tmapP _ _ _ _ _ o)
                 (fun b => forall pr, tmapP_block gr ga gb gs gl (tmapP_block fr fa fb fs fl b pr) pr =
                                      tmapP_block (fun v => gr (fr v)) (fun v => ga (fa v)) (fun v => gb (fb v))
                                                  (fun s => gs (fs s)) (fun pr l => gl pr (fl pr l)) b pr)).
  - intros nm res args succs props regs attrs it ot IH. rewrite !tmapP_eq. rewrite !map_map. f_equal.
    induction IH as [|r rs Hr _ IHrs]; [reflexivity|]. cbn [map]. f_equal; [|exact IHrs].
    generalize true. induction Hr as [|b r' Hb _ IHr']; intro first; [reflexivity|]. cbn [tmapP_blocks]. f_equal.
    + rewrite entry_printed_tmapP. apply Hb.
    + apply IHr'.
  - intros lab bargs ops IH pr. cbn [tmapP_block]. rewrite !map_map. f_equal.
    induction IH as [|o os Ho _ IHos]; [reflexivity|]. cbn [map]. f_equal; assumption.
Qed.
End Fuse.

Lemma tmap_tmapP : forall {V S L V' S' L'} (fv : V -> V') (fs : S -> S') (fl : L -> L') (o : op V S L),
  tmap fv fs fl o = tmapP fv fv fv fs (fun _ => fl) o.
Proof.
  intros V S L V' S' L' fv fs fl.
  apply (op_ind2 (fun o => tmap fv fs fl o = tmapP fv fv fv fs (fun _ => fl) o)
                 (fun b => forall pr, tmap_block fv fs fl b = tmapP_block fv fv fv fs (fun _ => fl) b pr)).
  - intros nm res args succs props regs attrs it ot IH. rewrite tmapP_eq. cbn [tmap]. f_equal.
    induction IH as [|r rs Hr _ IHrs]; [reflexivity|]. cbn [map]. f_equal; [|exact IHrs].
    generalize true. induction Hr as [|b r' Hb _ IHr']; intro first; [reflexivity|]. cbn [map tmapP_blocks]. f_equal.
    + apply Hb.
    + apply IHr'.
  - intros lab bargs ops IH pr. cbn [tmap_block tmapP_block]. f_equal.
    induction IH as [|o os Ho _ IHos]; [reflexivity|]. cbn [map]. f_equal; assumption.
Qed.

(* ---------- label facts of a run ---------- *)
Section LabFacts.
Variable c : cfg.

Definition lab_fact (pf : pst) (a : sact) : Prop :=
  match a with
  | Alabel (b, h) pr => pr = true -> blk_hint c (bname_of pf b) = eff_bhint c true h
  | Arbegin ls ep => forall j b h, nth_error ls j = Some (b, h) -> lab_shape c pf j ep b h
  | _ => True
  end.

Lemma use_hint_printed : forall j ep, (if j =? 0 then ep else true) = true -> use_hint_at c j ep = true.
Proof.
  intros j ep H. unfold use_hint_at. destruct (j =? 0); [subst ep|]; cbn; rewrite ?andb_false_r; reflexivity.
Qed.

Lemma shape_blk_hint : forall p j ep b h, lab_shape c p j ep b h -> use_hint_at c j ep = true ->
  blk_hint c (bname_of p b) = eff_bhint c true h.
Proof.
  intros p j ep b h S U. unfold lab_shape in S. rewrite U in S.
  destruct (eff_bhint c true h) as [hs|].
  - destruct S as [G [D [k E]]]. rewrite E. apply blk_hint_render; assumption.
  - rewrite S. apply blk_hint_bb.
Qed.

Lemma lab_facts : forall l p g gf,
  hints_ok c l -> BInvP c p g -> ws_run c l g = Some gf -> Forall (lab_fact (runP c l p)) l.
Proof.
  induction l as [|a l IH]; intros p g gf Hh BI H; cbn in H; [constructor|].
  destruct (ws_step c a g) as [g2|] eqn:E; [|discriminate]. inversion Hh as [|? ? Ha Hl]; subst.
  pose proof (stepP_BInvP c a p g g2 Ha BI E) as BI2.
  rewrite runP_cons. constructor; [|eapply IH; eauto].
  assert (Stab : forall b, lookupZ b (p_blks (stepP c a p)) <> None ->
            bname_of (runP c l (stepP c a p)) b = bname_of (stepP c a p) b).
  { intros b Hb. apply bname_stable; [|exact Hb]. intros w Hw. apply runP_stable. exact Hw. }
  destruct a as [[v h]|[v h]| |[v h]|b|ls ep|[b h] pr|[v h]| | |[v h]|[v h]]; cbn [lab_fact]; try exact I.
  - (* region begin *)
    cbn in E. destruct (_ && _); [|discriminate]. inversion E; subst g2; clear E.
    destruct BI2 as [B1 B2 B4 B3]. destruct (B2 (ls, ep, ls)) as [_ [X2 [_ X4]]]; [cbn; now left|].
    intros j b h Hn. apply (lab_shape_same c (stepP c (Arbegin ls ep) p)); [|apply X4; exact Hn].
    apply Stab. apply X2. unfold ids_of. cbn [fst]. apply nth_error_In in Hn. apply (in_map fst) in Hn. exact Hn.
  - (* label *)
    intro Hpr. cbn in E.
    destruct (g_bopen g) as [|[[ls ep] [|x rem]] bs] eqn:Eb; try discriminate.
    destruct (Z.eqb b (fst x) && hint_eqb h (snd x) && _) eqn:Ec; [|discriminate]. inversion E; subst g2; clear E.
    apply andb_true_iff in Ec. destruct Ec as [Ec Ec3]. apply andb_true_iff in Ec. destruct Ec as [Ec1 Ec2].
    apply Z.eqb_eq in Ec1. apply eqb_prop in Ec3.
    assert (Eh : h = snd x).
    { destruct h as [hs|], (snd x) as [hx|]; cbn in Ec2; try discriminate; [apply str_eqb_eq in Ec2; congruence|reflexivity]. }
    destruct BI as [B1 B2 B4 B3]. destruct (B2 (ls, ep, x :: rem)) as [_ [X2 [[pre X3] X4]]]; [rewrite Eb; now left|].
    cbn [fst snd] in X3, X4.
    assert (Hn : nth_error ls (length pre) = Some (b, h)).
    { rewrite X3. rewrite nth_error_app2 by lia. rewrite Nat.sub_diag. cbn. destruct x; cbn in *; congruence. }
    assert (Hj : (if length pre =? 0 then ep else true) = true).
    { rewrite <- Hpr. rewrite Ec3. rewrite X3. rewrite app_length. cbn.
      destruct pre as [|y pre']; cbn.
      - rewrite Nat.add_comm. cbn. rewrite Nat.eqb_refl. reflexivity.
      - destruct (Nat.eqb_spec (length rem + 1) (S (length pre' + S (length rem)))); [lia|reflexivity]. }
    assert (Hb : lookupZ b (p_blks p) <> None).
    { apply X2. unfold ids_of. cbn [fst]. apply nth_error_In in Hn. apply (in_map fst) in Hn. exact Hn. }
    assert (Ep : stepP c (Alabel (b, h) pr) p = p).
    { cbn [stepP]. destruct pr; [|reflexivity]. unfold pb_if_new. destruct (lookupZ b (p_blks p)); [reflexivity|congruence]. }
    rewrite Ep in *.
    rewrite (Stab b Hb).
    apply (shape_blk_hint p (length pre) ep); [apply X4; exact Hn|apply use_hint_printed; exact Hj].
Qed.
End LabFacts.

(* ---------- the hints seen from the uses ---------- *)
Section HintTable.
Variable c : cfg.
Variables nm bnm : Z -> str.
Variables r rb : list (Z * Z).
Variable D : Z -> Prop.
Hypothesis Hinj : forall x y, D x -> D y -> rho r x = rho r y -> x = y.

Definition defs_of (l : list sact) : list Z :=
  flat_map (fun a => match a with Abarg (w, _) | Ares_post (w, _) => [w] | _ => [] end) l.
Definition defs_in (l : list sact) : Prop :=
  Forall (fun a => match a with Abarg (w, _) | Ares_post (w, _) => D w | _ => True end) l.

Lemma hint_table_app : forall a b, hint_table (a ++ b) = hint_table a ++ hint_table b.
Proof.
  induction a as [|x a IH]; intro b; cbn; [reflexivity|].
  destruct x as [i [h|]|i h]; cbn; rewrite IH; reflexivity.
Qed.

Lemma table_def : forall l v hs, defs_in l -> D v -> In v (defs_of l) -> val_hint c (nm v) = Some hs ->
  lookupZ (rho r v) (hint_table (qouts c nm bnm r rb l)) = Some (Some hs).
Proof.
  induction l as [|a l IH]; intros v hs Hd Dv Hin Hv; [contradiction|].
  inversion Hd as [|? ? Ha Hl]; subst. unfold qouts. cbn [flat_map]. rewrite hint_table_app.
  assert (Skip : forall i, hint_table [OV i None] = [] /\ forall h, hint_table [OB i h] = []) by (intro i; split; reflexivity).
  assert (Def : forall w, D w -> (w = v \/ In v (defs_of l)) ->
            lookupZ (rho r v) (hint_table [OV (rho r w) (val_hint c (nm w))] ++ hint_table (flat_map (qout c nm bnm r rb) l)) = Some (Some hs)).
  { intros w Dw Hw. destruct (Z.eq_dec w v) as [E|E].
    - subst w. rewrite Hv. cbn. rewrite Z.eqb_refl. reflexivity.
    - destruct Hw as [Hw|Hw]; [contradiction|].
      destruct (val_hint c (nm w)) as [hw|]; cbn.
      + destruct (Z.eqb_spec (rho r v) (rho r w)) as [X|X]; [apply Hinj in X; try assumption; congruence|].
        apply IH; assumption.
      + apply IH; assumption. }
  destruct a as [[w h]|[w h]| |[w h]|b|ls ep|[b h] pr|[w h]| | |[w h]|[w h]]; cbn [qout defs_of flat_map app] in *;
    try (apply IH; assumption).
  - apply Def; [exact Ha|]. destruct Hin as [Hin|Hin]; [left; auto|right; exact Hin].
  - apply Def; [exact Ha|]. destruct Hin as [Hin|Hin]; [left; auto|right; exact Hin].
Qed.

Lemma table_none : forall l v, defs_in l -> D v -> val_hint c (nm v) = None ->
  lookupZ (rho r v) (hint_table (qouts c nm bnm r rb l)) = None.
Proof.
  induction l as [|a l IH]; intros v Hd Dv Hv; [reflexivity|].
  inversion Hd as [|? ? Ha Hl]; subst. unfold qouts. cbn [flat_map]. rewrite hint_table_app.
  assert (Def : forall w, D w ->
            lookupZ (rho r v) (hint_table [OV (rho r w) (val_hint c (nm w))] ++ hint_table (flat_map (qout c nm bnm r rb) l)) = None).
  { intros w Dw. destruct (val_hint c (nm w)) as [hw|] eqn:Ew; cbn.
    - destruct (Z.eqb_spec (rho r v) (rho r w)) as [X|X]; [apply Hinj in X; try assumption; subst; congruence|].
      apply IH; assumption.
    - apply IH; assumption. }
  destruct a as [[w h]|[w h]| |[w h]|b|ls ep|[b h] pr|[w h]| | |[w h]|[w h]]; cbn [qout app] in *;
    try (apply IH; assumption).
  - apply Def. exact Ha.
  - apply Def. exact Ha.
Qed.
End HintTable.

(* ---------- every defined value has a defining act ---------- *)
Lemma defs_cover : forall c l g gf, ws_run c l g = Some gf ->
  forall v, In v (concat (g_open gf)) \/ In v (g_closed gf) ->
  In v (concat (g_open g)) \/ In v (g_closed g) \/ In v (defs_of l).
Proof.
  induction l as [|a l IH]; intros g gf H v Hv; cbn in H.
  - inversion H; subst. tauto.
  - destruct (ws_step c a g) as [g2|] eqn:E; [|discriminate].
    specialize (IH g2 gf H v Hv).
    assert (Same : g_open g2 = g_open g -> g_closed g2 = g_closed g ->
              In v (concat (g_open g)) \/ In v (g_closed g) \/ In v (defs_of (a :: l))).
    { intros E1 E2. rewrite E1, E2 in IH. unfold defs_of in *. cbn [flat_map]. rewrite in_app_iff. tauto. }
    assert (Def : forall w g' , g_open g' = g_open g -> g_closed g' = g_closed g -> g_define w g' = Some g2 ->
              (match a with Abarg (w', _) | Ares_post (w', _) => w' = w | _ => False end) ->
              In v (concat (g_open g)) \/ In v (g_closed g) \/ In v (defs_of (a :: l))).
    { intros w g' E1 E2 Hd Ha. unfold g_define in Hd. destruct (lookupZ w (g_hints g')); [|discriminate].
      destruct (_ || _); [discriminate|]. destruct (g_open g') as [|o1 os1] eqn:Eo; [discriminate|]. inversion Hd; subst g2; clear Hd.
      cbn [g_open g_closed concat] in IH. rewrite <- E1. cbn [concat]. rewrite <- E2.
      unfold defs_of in *. cbn [flat_map]. rewrite !in_app_iff. rewrite in_app_iff in IH. cbn [In] in IH.
      assert (Hw : In w (match a with Abarg (w0, _) | Ares_post (w0, _) => [w0] | _ => [] end)).
      { destruct a as [[v' h]|[v' h]| |[v' h]|b|ls ep|[b h] pr|[v' h]| | |[v' h]|[v' h]]; try contradiction; subst; now left. }
      destruct IH as [[[IH|IH]|IH]|[IH|IH]]; subst; tauto. }
    destruct a as [[w h]|[w h]| |[w h]|b|ls ep|[b h] pr|[w h]| | |[w h]|[w h]]; cbn in E.
    + destruct (g_mention_hints _ _ _ _ E) as [_ [A1 [_ [A3 _]]]]. apply Same; assumption.
    + destruct (fx_iso_operands c); [destruct (g_mention_hints _ _ _ _ E) as [_ [A1 [_ [A3 _]]]]; apply Same; assumption|inversion E; subst; apply Same; reflexivity].
    + inversion E; subst. apply Same; reflexivity.
    + destruct (g_mention_hints _ _ _ _ E) as [_ [A1 [_ [A3 _]]]]. apply Same; assumption.
    + destruct (g_bopen g) as [|[[ls ep] rem] bs]; [discriminate|]. destruct (_ && _); inversion E; subst. apply Same; reflexivity.
    + destruct (_ && _); [|discriminate]. inversion E; subst. cbn [g_open g_closed concat app] in IH.
      unfold defs_of in *. cbn [flat_map app]. tauto.
    + destruct (g_bopen g) as [|[[ls ep] [|x rem]] bs]; try discriminate. destruct (_ && _); [|discriminate].
      inversion E; subst. apply Same; reflexivity.
    + destruct (g_mention w h g) as [gm|] eqn:Em; [|discriminate].
      destruct (g_mention_hints _ _ _ _ Em) as [_ [A1 [_ [A3 _]]]]. apply (Def w gm); auto.
    + destruct (g_open g) as [|o [|o2 os]] eqn:Eo; try discriminate.
      destruct (g_bopen g) as [|[[ls ep] [|x rem]] bs]; try discriminate. inversion E; subst g2; clear E.
      cbn [g_open g_closed concat] in IH. cbn [concat]. unfold defs_of in *. cbn [flat_map app].
      rewrite !in_app_iff in *. tauto.
    + destruct (g_frames g) as [|f [|f2 fs]]; try discriminate. destruct (forallb _ f); [|discriminate].
      inversion E; subst. apply Same; reflexivity.
    + unfold g_use in E. destruct (lookupZ w (g_hints g)); [|discriminate]. destruct (memZ w (g_closed g)); [discriminate|].
      destruct (_ || _); inversion E; subst; apply Same; reflexivity.
    + apply (Def w g); auto.
Qed.

(* ---------- C04_roundtrip and C04_deterministic on skeletons ---------- *)
Section Final.
Variable c : cfg.

Definition vh (fv : Z -> Z) (x : Z * hint) : Z * hint := (fv (fst x), eff_hint (snd x)).
Definition lh (fb : Z -> Z) (pr : bool) (l : Z * hint) : Z * hint :=
  (fb (fst l), if pr then eff_bhint c true (snd l) else None).
(* the same skeleton over other object identities; every hint replaced by what the printer makes of it *)
Definition rename_skel (fv fb : Z -> Z) (ir : skel) : skel := tmapP (vh fv) (vh fv) (vh fv) fb (lh fb) ir.

Definition vals_of (l : list sact) : list Z :=
  flat_map (fun a => match a with
                     | Ares (v, _) | Aarg (v, _) | Abarg (v, _) | Aarg_post (v, _) | Ares_post (v, _) => [v]
                     | _ => [] end) l.
Definition blks_of (l : list sact) : list Z :=
  flat_map (fun a => match a with
                     | Asucc b => [b] | Alabel (b, _) _ => [b] | Arbegin ls _ => map fst ls
                     | _ => [] end) l.

Definition skel_iso (ir ir' : skel) : Prop :=
  exists fv fb,
    (forall x y, In x (vals_of (sched ir)) -> In y (vals_of (sched ir)) -> fv x = fv y -> x = y) /\
    (forall x y, In x (blks_of (sched ir)) -> In y (blks_of (sched ir)) -> fb x = fb y -> x = y) /\
    ir' = rename_skel fv fb ir.

Lemma eff_hint_idem : forall h, eff_hint (eff_hint h) = eff_hint h.
Proof. intros [[|x t]|]; reflexivity. Qed.

Lemma NoDup_snd_inj : forall (r : list (Z * Z)) v w i, NoDup (map snd r) -> In (v, i) r -> In (w, i) r -> v = w.
Proof.
  induction r as [|[a b] r IH]; cbn; intros v w i N H1 H2; [contradiction|].
  inversion N as [|? ? N1 N2]; subst.
  destruct H1 as [H1|H1], H2 as [H2|H2].
  - congruence.
  - inversion H1; subst. exfalso. apply N1. apply (in_map snd) in H2. exact H2.
  - inversion H2; subst. exfalso. apply N1. apply (in_map snd) in H1. exact H1.
  - eapply IH; eauto.
Qed.
Lemma rho_inj : forall (r : list (Z * Z)) x y, NoDup (map snd r) ->
  lookupZ x r <> None -> lookupZ y r <> None -> rho r x = rho r y -> x = y.
Proof.
  intros r x y N Hx Hy E. unfold rho in E.
  destruct (lookupZ x r) as [i|] eqn:Ex; [|congruence]. destruct (lookupZ y r) as [j|] eqn:Ey; [|congruence]. subst j.
  apply lookupZ_In in Ex. apply lookupZ_In in Ey. eapply NoDup_snd_inj; eauto.
Qed.

Lemma forallb_names_app : forall a b, forallb lexable (names_of_acts (a ++ b)) =
  forallb lexable (names_of_acts a) && forallb lexable (names_of_acts b).
Proof.
  induction a as [|x a IH]; intro b; [reflexivity|]. cbn [app names_of_acts]. rewrite !forallb_app. rewrite IH.
  rewrite andb_assoc. reflexivity.
Qed.

Lemma eff_bhint_idem : forall u h, eff_bhint c true (eff_bhint c u h) = eff_bhint c u h.
Proof.
  intros u h. remember (eff_bhint c u h) as x eqn:Ex. unfold eff_bhint in Ex.
  destruct u; [|subst; reflexivity].
  destruct (eff_hint h) as [hs|] eqn:E; [|subst; reflexivity].
  destruct (fx_block_default c && is_default hs) eqn:E2; [subst; reflexivity|]. subst x.
  destruct h as [[|y t]|]; cbn in E; inversion E; subst.
  unfold eff_bhint. cbn [eff_hint]. rewrite E2. reflexivity.
Qed.

Lemma nth_error_labsP : forall {L L' : Type} (fl : bool -> L -> L') ep (ls : list L) j,
  nth_error (labsP fl ep ls) j = option_map (fl (if j =? 0 then ep else true)) (nth_error ls j).
Proof.
  intros L L' fl ep ls j. destruct ls as [|l0 rest]; [destruct j; reflexivity|].
  destruct j as [|j]; [reflexivity|]. cbn. rewrite nth_error_map. reflexivity.
Qed.

Theorem roundtrip : forall ir,
  hints_ok c (sched ir) -> well_scoped c ir = true ->
  exists ir', parse_names c (print_names c ir) = Ok ir' /\ skel_iso ir ir' /\
              print_names c ir' = print_names c ir.
Proof.
  intros ir Hh Hws. unfold well_scoped, ws in Hws.
  set (l := sched ir) in *.
  destruct (ws_run c l g0) as [gf|] eqn:Hrun; [|discriminate].
  unfold ws_final in Hws. destruct (g_pend gf) eqn:Hpend; [|discriminate].
  destruct (g_bopen gf) eqn:Hbopen; [|discriminate]. rewrite forallb_forall in Hws.
  set (pf := runP c l pst0). set (nm := name_of pf). set (bnm := bname_of pf).
  destruct (roundtrip_schedule c l gf Hh Hrun Hpend) as [q [r [rb [HQ [Hfwd IQ]]]]]. fold pf nm bnm in HQ, IQ.
  pose proof (run_facts c l g0 gf (GB_0) Hrun) as Facts.
  pose proof (runP_PInv c l pst0 g0 gf Hh GInv_g0 PInv_0 Hrun) as PI. fold pf in PI.
  pose proof (runP_BInvP c l pst0 g0 gf Hh (BInvP_0 c) Hrun) as BI. fold pf in BI.
  pose proof (lab_facts c l pst0 g0 gf Hh (BInvP_0 c) Hrun) as LF. fold pf in LF.
  pose proof (ws_run_inv c l g0 gf GInv_g0 Hrun) as GI.
  set (Dv := fun v => lookupZ v r <> None). set (Db := fun b => lookupZ b rb <> None).
  (* coverage *)
  assert (CovV : forall v, lookupZ v (g_hints gf) <> None -> Dv v).
  { intros v Hv. destruct (lookupZ v (g_hints gf)) as [x|] eqn:E; [|congruence].
    apply lookupZ_In in E. specialize (Hws _ E). cbn in Hws. apply orb_true_iff in Hws.
    apply (iq_dom _ _ _ _ _ _ IQ). destruct Hws as [X|X]; apply memZ_In in X; tauto. }
  assert (CovB : forall b, In b (g_bseen gf) -> Db b).
  { intros b Hb. destruct (iq_bcover _ _ _ _ _ _ IQ b Hb) as [X|[e [X _]]]; [exact X|]. rewrite Hbopen in X. contradiction. }
  assert (VH : forall v x, lookupZ v (g_hints gf) = Some x -> val_hint c (nm v) = x).
  { intros v x E. pose proof (pi_shape _ _ _ PI v) as S. rewrite E in S. destruct x as [hs|].
    - destruct S as [G [k Ek]]. unfold nm. rewrite Ek. apply val_hint_render. exact G.
    - destruct S as [k Ek]. unfold nm. rewrite Ek. apply val_hint_dec. }
  assert (LexV : forall v, lookupZ v (g_hints gf) <> None -> lexable (nm v) = true).
  { intros v Hv. pose proof (pi_shape _ _ _ PI v) as S. destruct (lookupZ v (g_hints gf)) as [[hs|]|]; [| |congruence].
    - destruct S as [G [k Ek]]. unfold nm. rewrite Ek. apply good_lexable_render. exact G.
    - destruct S as [k Ek]. unfold nm. rewrite Ek. apply lexable_dec. }
  assert (LexB : forall b, In b (g_bseen gf) -> lexable (bnm b) = true).
  { intros b Hb. pose proof (bp_seen _ _ _ BI b Hb) as X. destruct (lookupZ b (p_blks pf)) as [n|] eqn:E; [|congruence].
    unfold bnm, bname_of. rewrite E. apply (bp_lex _ _ _ BI b n E). }
  assert (Inj : forall x y, Dv x -> Dv y -> rho r x = rho r y -> x = y).
  { intros x y Hx Hy. apply rho_inj; try assumption. pose proof (iq_inj _ _ _ _ _ _ IQ) as N. apply NoDup_app_remove_r in N. exact N. }
  assert (InjB : forall x y, Db x -> Db y -> rho rb x = rho rb y -> x = y).
  { intros x y Hx Hy. apply rho_inj; try assumption. pose proof (iq_inj _ _ _ _ _ _ IQ) as N. apply NoDup_app_remove_l in N. exact N. }
  (* every defined value has a defining act; every printed value is defined *)
  assert (DefAll : forall v, lookupZ v (g_hints gf) <> None -> In v (defs_of l)).
  { intros v Hv. destruct (lookupZ v (g_hints gf)) as [x|] eqn:E; [|congruence].
    apply lookupZ_In in E. specialize (Hws _ E). cbn in Hws. apply orb_true_iff in Hws.
    destruct (defs_cover c l g0 gf Hrun v) as [X|[X|X]]; [destruct Hws as [X|X]; apply memZ_In in X; tauto|cbn in X; contradiction|contradiction|exact X]. }
  assert (DefsIn : defs_in Dv l).
  { unfold defs_in. rewrite Forall_forall in Facts |- *. intros a Ha. specialize (Facts a Ha).
    destruct a as [[v h]|[v h]| |[v h]|b|ls ep|[b h] pr|[v h]| | |[v h]|[v h]]; cbn in *; try exact I.
    - apply CovV. congruence.
    - apply CovV. exact Facts. }
  (* 1. the text parses *)
  set (outs := qouts c nm bnm r rb l) in *.
  set (T := hint_table outs).
  set (ir1 := tmap (fill_hint T) (fun s : Z => s) (fun l0 : Z * hint => l0) (tmapP (rv c nm r) (ra r) (rv c nm r) (rho rb) (rl c bnm rb) ir)).
  assert (Parse : parse_names c (print_names c ir) = Ok ir1).
  { unfold parse_names, print_names. fold l pf. rewrite sched_print_names. fold nm bnm l.
    assert (LxG : forall l0, Forall (act_fact c gf) l0 -> forallb lexable (names_of_acts (map (name_act nm bnm) l0)) = true).
    { intros l0 F0. induction F0 as [|a l' Fa _ IHl]; [reflexivity|].
      cbn [map]. change (name_act nm bnm a :: map (name_act nm bnm) l') with ([name_act nm bnm a] ++ map (name_act nm bnm) l').
      rewrite forallb_names_app. rewrite IHl. rewrite andb_true_r.
      destruct a as [[v h]|[v h]| |[v h]|b|ls ep|[b h] pr|[v h]| | |[v h]|[v h]]; cbn in *; try reflexivity.
      - rewrite LexV by congruence. reflexivity.
      - rewrite LexV by congruence. reflexivity.
      - rewrite LexB by exact Fa. reflexivity.
      - destruct pr; [|reflexivity]. cbn. rewrite LexB by exact Fa. reflexivity.
      - rewrite LexV by congruence. reflexivity. }
    pose proof (LxG l Facts) as Lx.
    rewrite Lx. cbn [negb]. rewrite HQ. rewrite Hfwd.
    rewrite name_op_tmapP.
    change (tmapP (nfv pf) (nfv pf) (nfv pf) (bname_of pf) (name_block_lab pf) ir)
      with (tmapP (fun v : Z * hint => nm (fst v)) (fun v => nm (fst v)) (fun v => nm (fst v)) bnm
                  (fun pr (l0 : Z * hint) => if pr then Some (bnm (fst l0)) else None) ir).
    rewrite <- (app_nil_r outs) at 1. unfold outs at 1. unfold l at 1. rewrite (refill_ok c nm bnm r rb ir []). reflexivity. }
  (* 2. the parsed IR is the renamed one *)
  assert (Iso : ir1 = rename_skel (rho r) (rho rb) ir).
  { unfold ir1, rename_skel. rewrite tmap_tmapP. rewrite tmapP_tmapP. apply tmapP_ext.
    intros a Ha Pa. fold l in Ha. rewrite Forall_forall in Facts, LF. specialize (Facts a Ha). specialize (LF a Ha).
    assert (FillDef : forall v h, lookupZ v (g_hints gf) = Some (eff_hint h) ->
              fill_hint T (rv c nm r (v, h)) = vh (rho r) (v, h)).
    { intros v h E. unfold rv, vh. cbn [fst snd]. rewrite (VH v _ E). unfold fill_hint. cbn [fst snd].
      destruct (eff_hint h) as [hs|] eqn:Eh; [reflexivity|].
      unfold T, outs. rewrite (table_none c nm bnm r rb Dv Inj l v DefsIn); [reflexivity|apply CovV; congruence|].
      rewrite (VH v _ E). reflexivity. }
    assert (FillUse : forall v h, lookupZ v (g_hints gf) = Some (eff_hint h) ->
              fill_hint T (ra r (v, h)) = vh (rho r) (v, h)).
    { intros v h E. unfold ra, vh, fill_hint. cbn [fst snd].
      destruct (eff_hint h) as [hs|] eqn:Eh.
      - unfold T, outs. rewrite (table_def c nm bnm r rb Dv Inj l v hs DefsIn); [reflexivity|apply CovV; congruence|apply DefAll; congruence|].
        rewrite (VH v _ E). reflexivity.
      - unfold T, outs. rewrite (table_none c nm bnm r rb Dv Inj l v DefsIn); [reflexivity|apply CovV; congruence|].
        rewrite (VH v _ E). reflexivity. }
    destruct a as [[v h]|[v h]| |[v h]|b|ls ep|[b h] pr|[v h]| | |[v h]|[v h]]; cbn [amapP act_fact lab_fact primary] in *; try contradiction.
    - f_equal. apply FillDef. exact Facts.
    - f_equal. apply FillUse. exact Facts.
    - reflexivity.
    - f_equal. unfold rl, lh. cbn [fst snd]. destruct pr; [|reflexivity]. f_equal. apply LF. reflexivity.
    - f_equal. apply FillDef. exact Facts. }
  (* 3. the parsed IR prints the same names *)
  set (ir' := rename_skel (rho r) (rho rb) ir) in *.
  set (AM := amapP (vh (rho r)) (vh (rho r)) (vh (rho r)) (rho rb) (lh (rho rb))).
  assert (Sch : sched ir' = map AM l) by (unfold ir', rename_skel; apply sched_tmapP).
  assert (EqvG : forall l0, Forall (act_fact c gf) l0 -> Forall (act_hints_ok c) l0 ->
            Forall2 (act_eqv c (rho r) (rho rb) Dv Db) l0 (map AM l0)).
  { intros l0 F0 H0. induction F0 as [|a l' Fa _ IHl]; [constructor|]. inversion H0 as [|? ? Ha Hl']; subst.
    cbn [map]. constructor; [|apply IHl; exact Hl'].
    destruct a as [[v h]|[v h]| |[v h]|b|ls ep|[b h] pr|[v h]| | |[v h]|[v h]]; unfold AM at 1; cbn [amapP vh lh fst snd act_fact] in *.
    - apply AE_res; cbn [fst snd]; [apply CovV; congruence|symmetry; apply eff_hint_idem].
    - apply AE_pre. intro Efx. cbn [fst snd]. split; [apply CovV; rewrite (Fa Efx); discriminate|symmetry; apply eff_hint_idem].
    - constructor.
    - apply AE_arg; cbn [fst snd]; [apply CovV; congruence|symmetry; apply eff_hint_idem].
    - apply AE_succ. apply CovB. exact Fa.
    - apply AE_rbegin.
      + destruct ls as [|l0 rest]; [constructor|]. cbn [labsP]. constructor.
        * split; [reflexivity|apply CovB; apply Fa; now left].
        * assert (G : forall rest0, (forall x, In x rest0 -> In (fst x) (g_bseen gf)) ->
                    Forall2 (fun l1 l2 : Z * hint => fst l2 = rho rb (fst l1) /\ Db (fst l1)) rest0 (map (lh (rho rb) true) rest0)).
          { induction rest0 as [|x rest0 IHr]; intro Hx; [constructor|]. cbn [map]. constructor.
            - split; [reflexivity|apply CovB; apply Hx; now left].
            - apply IHr. intros y Hy. apply Hx. now right. }
          apply G. intros x Hx. apply Fa. now right.
      + intros j l1 l2 H1 H2. rewrite nth_error_labsP in H2. rewrite H1 in H2. cbn in H2. inversion H2; subst l2; clear H2.
        unfold lh. cbn [snd].
        destruct (if j =? 0 then ep else true) eqn:Epr.
        * rewrite (use_hint_printed c j ep Epr). symmetry. apply eff_bhint_idem.
        * destruct j as [|j]; [|discriminate]. cbn in Epr. subst ep.
          cbn in Ha. destruct Ha as [_ Ha].
          unfold use_hint_at. cbn. rewrite andb_true_r.
          destruct (fx_entry_hint c) eqn:Efx; cbn; [reflexivity|].
          destruct ls as [|l0 rest]; [discriminate|]. cbn in H1. inversion H1; subst l0.
          specialize (Ha eq_refl eq_refl). cbn in Ha. unfold eff_bhint. rewrite Ha. reflexivity.
    - apply AE_label; cbn [fst snd]; [apply CovB; exact Fa|]. intro Epr. subst pr. symmetry. apply eff_bhint_idem.
    - apply AE_barg; cbn [fst snd]; [apply CovV; congruence|symmetry; apply eff_hint_idem].
    - constructor.
    - constructor.
    - constructor.
    - constructor. }
  pose proof (EqvG l Facts Hh) as Eqv. rewrite <- Sch in Eqv.
  pose proof (runP_rel c (rho r) (rho rb) Dv Db Inj InjB l (sched ir') pst0 pst0 Eqv (RelP_0 _ _ _ _)) as RP.
  fold pf in RP. set (pf' := runP c (sched ir') pst0) in *.
  destruct (RelP_names (rho r) (rho rb) Dv Db Inj InjB pf pf' RP) as [RN RB].
  assert (Reprint : print_names c ir' = print_names c ir).
  { unfold print_names. fold l pf pf'. rewrite !name_op_tmapP. unfold ir', rename_skel. rewrite tmapP_tmapP.
    apply tmapP_ext. intros a Ha Pa. fold l in Ha. rewrite Forall_forall in Facts. specialize (Facts a Ha).
    destruct a as [[v h]|[v h]| |[v h]|b|ls ep|[b h] pr|[v h]| | |[v h]|[v h]]; cbn [amapP act_fact primary] in *; try contradiction.
    - f_equal. unfold nfv, vh. cbn [fst]. apply RN. apply CovV. congruence.
    - f_equal. unfold nfv, vh. cbn [fst]. apply RN. apply CovV. congruence.
    - f_equal. apply RB. apply CovB. exact Facts.
    - f_equal. unfold name_block_lab, lh. cbn [fst]. destruct pr; [|reflexivity]. f_equal. apply RB. apply CovB. exact Facts.
    - f_equal. unfold nfv, vh. cbn [fst]. apply RN. apply CovV. congruence. }
  exists ir1. split; [exact Parse|]. rewrite Iso. fold ir'. split; [|exact Reprint].
  exists (rho r), (rho rb). split; [|split; [|reflexivity]].
  - assert (G : forall v, In v (vals_of l) -> Dv v).
    { intros v Hv. unfold vals_of in Hv. apply in_flat_map in Hv. destruct Hv as [a [Ha Hv]].
      rewrite Forall_forall in Facts. specialize (Facts a Ha).
      destruct a as [[w h]|[w h]| |[w h]|b|ls ep|[b h] pr|[w h]| | |[w h]|[w h]]; cbn in *; try contradiction;
        destruct Hv as [Hv|[]]; subst; apply CovV; congruence. }
    intros x y Hx Hy. apply Inj; apply G; assumption.
  - assert (G : forall b, In b (blks_of l) -> Db b).
    { intros b Hb. unfold blks_of in Hb. apply in_flat_map in Hb. destruct Hb as [a [Ha Hb]].
      rewrite Forall_forall in Facts. specialize (Facts a Ha).
      destruct a as [[w h]|[w h]| |[w h]|b0|ls ep|[b0 h] pr|[w h]| | |[w h]|[w h]]; cbn in *; try contradiction.
      - destruct Hb as [Hb|[]]; subst. apply CovB. exact Facts.
      - apply in_map_iff in Hb. destruct Hb as [x [Hx1 Hx2]]. subst. apply CovB. apply Facts. exact Hx2.
      - destruct Hb as [Hb|[]]; subst. apply CovB. exact Facts. }
    intros x y Hx Hy. apply InjB; apply G; assumption.
Qed.

(* C04_deterministic: an injectively renamed copy (a clone) prints the same names *)
Theorem deterministic : forall ir fv fb,
  (forall x y, fv x = fv y -> x = y) -> (forall x y, fb x = fb y -> x = y) ->
  print_names c (tmapP (fun x : Z * hint => (fv (fst x), snd x)) (fun x => (fv (fst x), snd x)) (fun x => (fv (fst x), snd x))
                       fb (fun _ (l : Z * hint) => (fb (fst l), snd l)) ir) = print_names c ir.
Proof.
  intros ir fv fb Iv Ib.
  set (F := fun x : Z * hint => (fv (fst x), snd x)). set (FL := fun (_ : bool) (l : Z * hint) => (fb (fst l), snd l)).
  set (ir' := tmapP F F F fb FL ir). set (l := sched ir).
  assert (Sch : sched ir' = map (amapP F F F fb FL) l) by (unfold ir'; apply sched_tmapP).
  assert (EqvG : forall l0, Forall2 (act_eqv c fv fb (fun _ => True) (fun _ => True)) l0 (map (amapP F F F fb FL) l0)).
  { induction l0 as [|a l0 IH]; [constructor|]. cbn [map]. constructor; [|exact IH].
    destruct a as [[v h]|[v h]| |[v h]|b|ls ep|[b h] pr|[v h]| | |[v h]|[v h]]; cbn [amapP]; unfold F, FL; cbn [fst snd].
    - apply AE_res; [exact I|reflexivity].
    - apply AE_pre. intros _. split; [exact I|reflexivity].
    - constructor.
    - apply AE_arg; [exact I|reflexivity].
    - apply AE_succ. exact I.
    - apply AE_rbegin.
      + destruct ls as [|l0' rest]; [constructor|]. cbn [labsP]. constructor; [split; [reflexivity|exact I]|].
        induction rest as [|x rest IHr]; [constructor|]. cbn [map]. constructor; [split; [reflexivity|exact I]|exact IHr].
      + intros j l1 l2 H1 H2. rewrite nth_error_labsP in H2. rewrite H1 in H2. cbn in H2. inversion H2; subst. reflexivity.
    - apply AE_label; [exact I|intros _; reflexivity].
    - apply AE_barg; [exact I|reflexivity].
    - constructor.
    - constructor.
    - constructor.
    - constructor. }
  pose proof (EqvG l) as Eqv. rewrite <- Sch in Eqv.
  assert (Iv' : forall x y : Z, True -> True -> fv x = fv y -> x = y) by (intros; auto).
  assert (Ib' : forall x y : Z, True -> True -> fb x = fb y -> x = y) by (intros; auto).
  pose proof (runP_rel c fv fb (fun _ => True) (fun _ => True) Iv' Ib' l (sched ir') pst0 pst0 Eqv (RelP_0 _ _ _ _)) as RP.
  destruct (RelP_names fv fb (fun _ => True) (fun _ => True) Iv' Ib' _ _ RP) as [RN RB].
  unfold print_names. fold l. rewrite !name_op_tmapP. unfold ir'. rewrite tmapP_tmapP.
  apply tmapP_ext. intros a Ha Pa.
  destruct a as [[v h]|[v h]| |[v h]|b|ls ep|[b h] pr|[v h]| | |[v h]|[v h]]; cbn [amapP primary] in *; try contradiction.
  - f_equal. unfold nfv, F. cbn [fst]. apply RN. exact I.
  - f_equal. unfold nfv, F. cbn [fst]. apply RN. exact I.
  - f_equal. apply RB. exact I.
  - f_equal. unfold name_block_lab, FL. cbn [fst]. destruct pr; [|reflexivity]. f_equal. apply RB. exact I.
  - f_equal. unfold nfv, F. cbn [fst]. apply RN. exact I.
Qed.
End Final.
