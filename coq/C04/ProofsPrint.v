(* C04/ProofsPrint.v -- the printer's name allocation: the names of the values first printed in the
   active scopes are pairwise distinct at every moment (C04_names_unique), every region's block labels are
   pairwise distinct, names never change once given, and a name is its hint plus a counter suffix. *)
From Coq Require Import ZArith List Bool Arith Lia.
From XV Require Import C04.Model C04.ProofsStr C04.ProofsGhost.
Import ListNotations.

(* ---------- name lookup ---------- *)
Lemma cnt_cons_same : forall h k l, cnt h ((h, k) :: l) = k.
Proof. intros. unfold cnt. cbn. rewrite str_eqb_refl. reflexivity. Qed.
Lemma cnt_cons_other : forall h h' k l, h <> h' -> cnt h ((h', k) :: l) = cnt h l.
Proof. intros h h' k l N. unfold cnt. cbn. apply str_eqb_neq in N. rewrite N. reflexivity. Qed.

(* a name is "below" the counters of a frame: it has been handed out while that frame, or a frame
   it was copied from, was the top of the stack *)
Definition below (f : frame) (n : str) : Prop :=
  (exists h k, n = render h k /\ good_hint h /\ k < cnt h (f_vn f)) \/
  (exists k, n = dec k /\ k < f_nv f).

Fixpoint FrInv (nm : Z -> str) (frs : list frame) (als : list (list Z)) : Prop :=
  match frs, als with
  | fr :: frs', al :: als' =>
      (forall v, In v (concat (al :: als')) -> below fr (nm v)) /\ FrInv nm frs' als'
  | [], [] => True
  | _, _ => False
  end.

Lemma FrInv_ext : forall nm nm' frs als,
  (forall v, In v (concat als) -> nm' v = nm v) -> FrInv nm frs als -> FrInv nm' frs als.
Proof.
  induction frs as [|fr frs IH]; destruct als as [|al als]; cbn; auto.
  intros E [H1 H2]. split.
  - intros v Hv. rewrite E by exact Hv. apply H1. exact Hv.
  - apply IH; [|exact H2]. intros v Hv. apply E. apply in_or_app. now right.
Qed.

Record PInv (p : pst) (hints : list (Z * option str)) (frames : list (list Z)) : Prop := {
  pi_dom : forall v, lookupZ v (p_vals p) <> None <-> lookupZ v hints <> None;
  pi_frames : FrInv (name_of p) (p_top p :: p_rest p) frames;
  pi_nodup : NoDup (map (name_of p) (concat frames));
  pi_shape : forall v, match lookupZ v hints with
                       | Some (Some hs) => good_hint hs /\ exists k, name_of p v = render hs k
                       | Some None => exists k, name_of p v = dec k
                       | None => True
                       end
}.

Lemma PInv_0 : PInv pst0 [] [[]].
Proof.
  constructor; cbn.
  - tauto.
  - split; [intros v []|exact I].
  - constructor.
  - exact (fun _ => I).
Qed.

Lemma below_mono_hint : forall f hs n,
  below f n ->
  below (Frame ((hs, S (cnt hs (f_vn f))) :: f_vn f) (f_bn f) (f_nv f) (f_nb f)) n.
Proof.
  intros f hs n [[h [k [E [G L]]]]|[k [E L]]].
  - left. exists h, k. split; [exact E|]. split; [exact G|]. cbn.
    destruct (list_eq_dec Z.eq_dec h hs) as [X|X].
    + subst. rewrite cnt_cons_same. lia.
    + rewrite cnt_cons_other by exact X. exact L.
  - right. exists k. cbn. tauto.
Qed.
Lemma below_mono_num : forall f n,
  below f n -> below (Frame (f_vn f) (f_bn f) (S (f_nv f)) (f_nb f)) n.
Proof.
  intros f n [[h [k [E [G L]]]]|[k [E L]]].
  - left. exists h, k. cbn. tauto.
  - right. exists k. cbn. split; [exact E|lia].
Qed.

Lemma name_of_cons_other : forall p v w n bl top rest,
  w <> v -> name_of (Pst ((v, n) :: p_vals p) bl top rest) w = name_of p w.
Proof. intros. unfold name_of. cbn. destruct (Z.eqb_spec w v); [contradiction|reflexivity]. Qed.
Lemma name_of_cons_same : forall vals v n bl top rest,
  name_of (Pst ((v, n) :: vals) bl top rest) v = n.
Proof. intros. unfold name_of. cbn. rewrite Z.eqb_refl. reflexivity. Qed.

(* first mention of a value *)
Lemma pv_new : forall p hints f fs v h,
  PInv p hints (f :: fs) ->
  (forall w, In w (concat (f :: fs)) -> lookupZ w hints <> None) ->
  lookupZ v hints = None ->
  vhint_ok h ->
  PInv (pv v h p) ((v, eff_hint h) :: hints) ((v :: f) :: fs).
Proof.
  intros p hints f fs v h [D F N SH] AP Hv Hh.
  assert (Hp : lookupZ v (p_vals p) = None).
  { destruct (lookupZ v (p_vals p)) eqn:E; [|reflexivity]. exfalso.
    assert (X : lookupZ v (p_vals p) <> None) by congruence. apply D in X. congruence. }
  assert (Nv : ~ In v (concat (f :: fs))).
  { intro X. apply AP in X. congruence. }
  unfold pv. rewrite Hp.
  cbn [FrInv] in F. destruct F as [F1 F2].
  destruct (eff_hint h) as [hs|] eqn:Eh.
  - (* hinted *)
    pose proof (Hh hs Eh) as Gh.
    set (k := cnt hs (f_vn (p_top p))).
    set (p' := Pst ((v, render hs k) :: p_vals p) (p_blks p)
                   (Frame ((hs, S k) :: f_vn (p_top p)) (f_bn (p_top p)) (f_nv (p_top p)) (f_nb (p_top p)))
                   (p_rest p)).
    assert (Eo : forall w, w <> v -> name_of p' w = name_of p w).
    { intros w Hw. unfold p'. apply name_of_cons_other. exact Hw. }
    assert (Es : name_of p' v = render hs k) by apply name_of_cons_same.
    assert (Fresh : ~ In (render hs k) (map (name_of p) (concat (f :: fs)))).
    { intro X. apply in_map_iff in X. destruct X as [w [X1 X2]].
      destruct (F1 w X2) as [[h' [k' [E [G L]]]]|[k' [E L]]].
      - rewrite E in X1. apply render_inj in X1; [|apply G|apply Gh].
        destruct X1 as [X1 X3]. subst. unfold k in L. lia.
      - rewrite E in X1. apply (dec_neq_render k' hs k); [apply Gh|exact X1]. }
    constructor.
    + intro w. cbn. destruct (Z.eqb_spec w v); [split; discriminate|apply D].
    + cbn [FrInv p_top p_rest p']. split.
      * intros w Hw. cbn [concat app] in Hw. destruct Hw as [Hw|Hw].
        -- subst w. rewrite Es. left. exists hs, k. split; [reflexivity|]. split; [exact Gh|].
           cbn. rewrite cnt_cons_same. lia.
        -- assert (w <> v) by (intro; subst; apply Nv; exact Hw).
           rewrite Eo by assumption. apply below_mono_hint. apply F1. exact Hw.
      * apply (FrInv_ext (name_of p)); [|exact F2].
        intros w Hw. apply Eo. intro; subst. apply Nv. cbn. apply in_or_app. now right.
    + cbn [concat app map]. rewrite Es. constructor.
      * intro X. apply Fresh. cbn [concat].
        erewrite map_ext_in; [exact X|]. intros w Hw. symmetry. apply Eo. intro; subst. exact (Nv Hw).
      * erewrite map_ext_in; [exact N|]. intros w Hw. apply Eo. intro; subst. exact (Nv Hw).
    + intro w. cbn. destruct (Z.eqb_spec w v) as [E|E].
      * subst. split; [exact Gh|]. exists k. exact Es.
      * specialize (SH w). destruct (lookupZ w hints) as [[hs'|]|]; [|destruct SH as [k' S2]; exists k'; rewrite Eo by exact E; exact S2|exact I].
        destruct SH as [S1 [k' S2]]. split; [exact S1|]. exists k'. rewrite Eo by exact E. exact S2.
  - (* numeric *)
    set (k := f_nv (p_top p)).
    set (p' := Pst ((v, dec k) :: p_vals p) (p_blks p)
                   (Frame (f_vn (p_top p)) (f_bn (p_top p)) (S k) (f_nb (p_top p))) (p_rest p)).
    assert (Eo : forall w, w <> v -> name_of p' w = name_of p w).
    { intros w Hw. unfold p'. apply name_of_cons_other. exact Hw. }
    assert (Es : name_of p' v = dec k) by apply name_of_cons_same.
    assert (Fresh : ~ In (dec k) (map (name_of p) (concat (f :: fs)))).
    { intro X. apply in_map_iff in X. destruct X as [w [X1 X2]].
      destruct (F1 w X2) as [[h' [k' [E [G L]]]]|[k' [E L]]].
      - rewrite E in X1. symmetry in X1. apply (dec_neq_render k h' k'); [apply G|exact X1].
      - rewrite E in X1. apply dec_inj in X1. unfold k in X1. lia. }
    constructor.
    + intro w. cbn. destruct (Z.eqb_spec w v); [split; discriminate|apply D].
    + cbn [FrInv p_top p_rest p']. split.
      * intros w Hw. cbn [concat app] in Hw. destruct Hw as [Hw|Hw].
        -- subst w. rewrite Es. right. exists k. cbn. split; [reflexivity|lia].
        -- assert (w <> v) by (intro; subst; apply Nv; exact Hw).
           rewrite Eo by assumption. apply below_mono_num. apply F1. exact Hw.
      * apply (FrInv_ext (name_of p)); [|exact F2].
        intros w Hw. apply Eo. intro; subst. apply Nv. cbn. apply in_or_app. now right.
    + cbn [concat app map]. rewrite Es. constructor.
      * intro X. apply Fresh. cbn [concat].
        erewrite map_ext_in; [exact X|]. intros w Hw. symmetry. apply Eo. intro; subst. exact (Nv Hw).
      * erewrite map_ext_in; [exact N|]. intros w Hw. apply Eo. intro; subst. exact (Nv Hw).
    + intro w. cbn. destruct (Z.eqb_spec w v) as [E|E].
      * subst. exists k. exact Es.
      * specialize (SH w). destruct (lookupZ w hints) as [[hs'|]|]; [|destruct SH as [k' S2]; exists k'; rewrite Eo by exact E; exact S2|exact I].
        destruct SH as [S1 [k' S2]]. split; [exact S1|]. exists k'. rewrite Eo by exact E. exact S2.
Qed.

Lemma pv_old : forall p hints frames v h, PInv p hints frames -> lookupZ v hints <> None -> pv v h p = p.
Proof.
  intros p hints frames v h I H. apply (pi_dom _ _ _ I) in H. unfold pv.
  destruct (lookupZ v (p_vals p)); [reflexivity|congruence].
Qed.

(* mention: the joint step of printer and bookkeeping *)
Lemma mention_PInv : forall v h p g g1,
  GInv g -> PInv p (g_hints g) (g_frames g) -> vhint_ok h -> g_mention v h g = Some g1 ->
  PInv (pv v h p) (g_hints g1) (g_frames g1).
Proof.
  intros v h p g g1 GI PI Hh H. unfold g_mention in H.
  destruct (lookupZ v (g_hints g)) as [h0|] eqn:E.
  - destruct (hint_eqb h0 (eff_hint h)); inversion H; subst.
    rewrite (pv_old p (g_hints g1) (g_frames g1)); [exact PI|exact PI|congruence].
  - destruct (g_frames g) as [|f fs] eqn:Ef; [discriminate|]. inversion H; subst; clear H. cbn.
    apply pv_new; try assumption.
    intros w Hw. apply (gi_active_printed g GI). unfold active. rewrite Ef. exact Hw.
Qed.

(* block naming leaves the value names and the value counters alone *)
Definition veq (p p' : pst) : Prop :=
  p_vals p' = p_vals p /\ f_vn (p_top p') = f_vn (p_top p) /\ f_nv (p_top p') = f_nv (p_top p) /\
  p_rest p' = p_rest p.
Lemma veq_refl : forall p, veq p p. Proof. intro p. repeat split. Qed.
Lemma veq_trans : forall a b c, veq a b -> veq b c -> veq a c.
Proof. intros a b c [A1 [A2 [A3 A4]]] [B1 [B2 [B3 B4]]]. repeat split; congruence. Qed.
Lemma pb_veq : forall c b h idx u p, veq p (pb c b h idx u p).
Proof.
  intros. unfold pb. destruct (eff_bhint c u h); [repeat split|]. destruct idx; repeat split.
Qed.
Lemma pb_if_new_veq : forall c b h idx u p, veq p (pb_if_new c b h idx u p).
Proof. intros. unfold pb_if_new. destruct (lookupZ b (p_blks p)); [apply veq_refl|apply pb_veq]. Qed.
Lemma pb_all_veq : forall c ls i ep p, veq p (pb_all c ls i ep p).
Proof.
  induction ls as [|[b h] ls IH]; intros i ep p; cbn; [apply veq_refl|].
  eapply veq_trans; [apply pb_if_new_veq|apply IH].
Qed.

Lemma below_veq : forall f f' n, f_vn f' = f_vn f -> f_nv f' = f_nv f -> below f n -> below f' n.
Proof. intros f f' n E1 E2 [H|H]; [left|right]; rewrite ?E1, ?E2; exact H. Qed.

Lemma PInv_veq : forall p p' hints frames, veq p p' -> PInv p hints frames -> PInv p' hints frames.
Proof.
  intros p p' hints frames [E1 [E2 [E3 E4]]] [D F N SH].
  assert (En : forall v, name_of p' v = name_of p v) by (intro v; unfold name_of; rewrite E1; reflexivity).
  constructor.
  - intro v. rewrite E1. apply D.
  - rewrite E4. destruct frames as [|f fs]; cbn [FrInv] in *; [exact F|]. destruct F as [F1 F2]. split.
    + intros v Hv. rewrite En. eapply below_veq; [exact E2|exact E3|]. apply F1. exact Hv.
    + eapply FrInv_ext; [|exact F2]. intros; apply En.
  - erewrite map_ext; [exact N|]. exact En.
  - intro v. rewrite En. apply SH.
Qed.

Lemma stepP_PInv : forall c a p g g1,
  act_hints_ok c a -> GInv g -> PInv p (g_hints g) (g_frames g) -> ws_step c a g = Some g1 ->
  PInv (stepP c a p) (g_hints g1) (g_frames g1).
Proof.
  intros c a p g g1 Hh GI PI H.
  destruct a as [[v h]|[v h]| |[v h]|b|ls ep|[b h] pr|[v h]| | |[v h]|[v h]]; cbn in H; cbn [stepP].
  - eapply mention_PInv; eauto.
  - destruct (fx_iso_operands c); [eapply mention_PInv; eauto|inversion H; subst; exact PI].
  - inversion H; subst; clear H. cbn. destruct PI as [D F N SH]. constructor; cbn.
    + exact D.
    + destruct (g_frames g) as [|f fs]; cbn [FrInv] in *; [contradiction|]. split; [|exact F].
      cbn [concat app]. apply F.
    + exact N.
    + exact SH.
  - eapply mention_PInv; eauto.
  - destruct (g_bopen g) as [|[[ids ep] rem] bs]; [discriminate|].
    destruct (_ && _); inversion H; subst. eapply PInv_veq; [apply pb_if_new_veq|exact PI].
  - destruct (_ && _); [|discriminate]. inversion H; subst; clear H. cbn.
    eapply PInv_veq; [apply pb_all_veq|exact PI].
  - destruct (g_bopen g) as [|[[ids ep] [|x rem]] bs]; try discriminate.
    destruct (_ && _); [|discriminate]. inversion H; subst; clear H. cbn.
    destruct pr; [eapply PInv_veq; [apply pb_if_new_veq|exact PI]|exact PI].
  - destruct (g_mention v h g) as [g2|] eqn:E; [|discriminate].
    assert (X : PInv (pv v h p) (g_hints g2) (g_frames g2)) by (eapply mention_PInv; eauto).
    unfold g_define in H. destruct (lookupZ v (g_hints g2)); [|discriminate].
    destruct (_ || _); [discriminate|]. destruct (g_open g2); [discriminate|]. inversion H; subst. exact X.
  - destruct (g_open g) as [|o [|o2 os]]; try discriminate.
    destruct (g_bopen g) as [|[[ids ep] [|x rem]] bs]; try discriminate. inversion H; subst. exact PI.
  - destruct (g_frames g) as [|f [|f2 fs]] eqn:Ef; try discriminate.
    destruct (forallb _ f); [|discriminate]. inversion H; subst; clear H. cbn.
    destruct PI as [D F N SH]. cbn [FrInv] in F. destruct F as [F1 F2].
    destruct (p_rest p) as [|r rs] eqn:Er; [contradiction|].
    unfold p_exit. rewrite Er.
    constructor; cbn.
    + exact D.
    + exact F2.
    + cbn [concat] in N. rewrite map_app in N. apply NoDup_app_remove_l in N. exact N.
    + exact SH.
  - unfold g_use in H. destruct (lookupZ v (g_hints g)); [|discriminate].
    destruct (memZ v (g_closed g)); [discriminate|]. destruct (_ || _); inversion H; subst; exact PI.
  - unfold g_define in H. destruct (lookupZ v (g_hints g)); [|discriminate].
    destruct (_ || _); [discriminate|]. destruct (g_open g); [discriminate|]. inversion H; subst. exact PI.
Qed.

Lemma runP_cons : forall c a l p, runP c (a :: l) p = runP c l (stepP c a p).
Proof. reflexivity. Qed.
Lemma runP_app : forall c l1 l2 p, runP c (l1 ++ l2) p = runP c l2 (runP c l1 p).
Proof. intros. unfold runP. apply fold_left_app. Qed.

Lemma runP_PInv : forall c l p g g1,
  hints_ok c l -> GInv g -> PInv p (g_hints g) (g_frames g) -> ws_run c l g = Some g1 ->
  PInv (runP c l p) (g_hints g1) (g_frames g1).
Proof.
  induction l as [|a l IH]; intros p g g1 Hh GI PI H; cbn in H.
  - inversion H; subst. exact PI.
  - destruct (ws_step c a g) as [g2|] eqn:E; [|discriminate]. inversion Hh; subst.
    rewrite runP_cons. apply (IH (stepP c a p) g2 g1); [assumption| | |exact H].
    + eapply ws_step_inv; eauto.
    + eapply stepP_PInv; eauto.
Qed.

(* ---------- names never change ---------- *)
Lemma pv_stable : forall v h p w, lookupZ w (p_vals p) <> None -> name_of (pv v h p) w = name_of p w.
Proof.
  intros v h p w H. unfold pv. destruct (lookupZ v (p_vals p)) eqn:E; [reflexivity|].
  assert (w <> v) by (intro; subst; congruence).
  destruct (eff_hint h); apply name_of_cons_other; assumption.
Qed.
Lemma pv_dom : forall v h p w, lookupZ w (p_vals p) <> None -> lookupZ w (p_vals (pv v h p)) <> None.
Proof.
  intros v h p w H. unfold pv. destruct (lookupZ v (p_vals p)) eqn:E; [exact H|].
  destruct (eff_hint h); cbn; destruct (Z.eqb w v); congruence.
Qed.
Lemma pv_blks : forall v h p, p_blks (pv v h p) = p_blks p.
Proof. intros. unfold pv. destruct (lookupZ v (p_vals p)); [reflexivity|]. destruct (eff_hint h); reflexivity. Qed.

Lemma pb_bstable : forall c b h idx u p w, lookupZ w (p_blks p) <> None ->
  lookupZ w (p_blks (pb_if_new c b h idx u p)) = lookupZ w (p_blks p).
Proof.
  intros. unfold pb_if_new. destruct (lookupZ b (p_blks p)) eqn:E; [reflexivity|].
  assert (w <> b) by (intro; subst; congruence).
  unfold pb. destruct (eff_bhint c u h); [|destruct idx]; cbn; destruct (Z.eqb_spec w b); congruence.
Qed.
Lemma pb_all_bstable : forall c ls i ep p w, lookupZ w (p_blks p) <> None ->
  lookupZ w (p_blks (pb_all c ls i ep p)) = lookupZ w (p_blks p).
Proof.
  induction ls as [|[b h] ls IH]; intros i ep p w H; cbn; [reflexivity|].
  rewrite IH; [apply pb_bstable; exact H|]. rewrite pb_bstable; exact H.
Qed.

Lemma stepP_stable : forall c a p,
  (forall w, lookupZ w (p_vals p) <> None ->
     lookupZ w (p_vals (stepP c a p)) <> None /\ name_of (stepP c a p) w = name_of p w) /\
  (forall w, lookupZ w (p_blks p) <> None -> lookupZ w (p_blks (stepP c a p)) = lookupZ w (p_blks p)).
Proof.
  intros c a p.
  assert (V : forall p', veq p p' -> forall w, lookupZ w (p_vals p) <> None ->
             lookupZ w (p_vals p') <> None /\ name_of p' w = name_of p w).
  { intros p' [E _] w H. unfold name_of. rewrite E. tauto. }
  destruct a as [[v h]|[v h]| |[v h]|b|ls ep|[b h] pr|[v h]| | |[v h]|[v h]]; cbn [stepP];
    try (split; [intros w H; split; [apply pv_dom; exact H|apply pv_stable; exact H]|intros; rewrite pv_blks; reflexivity]);
    try (split; [intros w H; tauto|reflexivity]).
  - destruct (fx_iso_operands c).
    + split; [intros w H; split; [apply pv_dom; exact H|apply pv_stable; exact H]|intros; rewrite pv_blks; reflexivity].
    + split; [tauto|reflexivity].
  - split; [apply V; apply pb_if_new_veq|intros; apply pb_bstable; assumption].
  - split; [apply V; apply pb_all_veq|intros; apply pb_all_bstable; assumption].
  - destruct pr; [split; [apply V; apply pb_if_new_veq|intros; apply pb_bstable; assumption]|split; [tauto|reflexivity]].
  - unfold p_exit. destruct (p_rest p); split; try tauto; reflexivity.
Qed.

Lemma runP_stable : forall c l p,
  (forall w, lookupZ w (p_vals p) <> None ->
     lookupZ w (p_vals (runP c l p)) <> None /\ name_of (runP c l p) w = name_of p w) /\
  (forall w, lookupZ w (p_blks p) <> None -> lookupZ w (p_blks (runP c l p)) = lookupZ w (p_blks p)).
Proof.
  induction l as [|a l IH]; intro p; [split; [tauto|reflexivity]|].
  rewrite runP_cons. destruct (stepP_stable c a p) as [S1 S2]. destruct (IH (stepP c a p)) as [I1 I2]. split.
  - intros w H. destruct (S1 w H) as [A B]. destruct (I1 w A) as [C D]. split; [exact C|congruence].
  - intros w H. rewrite I2; [apply S2; exact H|]. rewrite S2; exact H.
Qed.

(* ---------- C04_names_unique, values ---------- *)
Theorem names_unique_values : forall c l pre post g1,
  hints_ok c l -> l = pre ++ post -> ws_run c pre g0 = Some g1 ->
  NoDup (map (name_of (runP c l pst0)) (active g1)).
Proof.
  intros c l pre post g1 Hh El Hw. subst l.
  assert (H1 : PInv (runP c pre pst0) (g_hints g1) (g_frames g1)).
  { eapply runP_PInv; [|apply GInv_g0|apply PInv_0|exact Hw].
    unfold hints_ok in *. apply Forall_app in Hh. tauto. }
  rewrite runP_app.
  erewrite map_ext_in; [exact (pi_nodup _ _ _ H1)|].
  intros v Hv. apply runP_stable.
  apply (pi_dom _ _ _ H1). apply (gi_active_printed g1); [|exact Hv].
  eapply ws_run_inv; [apply GInv_g0|exact Hw].
Qed.

(* ---------- block labels of one region ---------- *)
Definition use_hint_at (c : cfg) (i : nat) (ep : bool) : bool := negb (fx_entry_hint c && (i =? 0) && negb ep).

Definition bfresh (bn : list (str * nat)) (i : nat) (n : str) : Prop :=
  (exists hs k, n = render hs k /\ good_hint hs /\ is_default hs = false /\ cnt hs bn <= k) \/
  (exists j, n = bb_name j /\ i <= j).

Lemma eff_bhint_ok : forall c u h hs, bhint_ok c h -> eff_bhint c u h = Some hs ->
  good_hint hs /\ is_default hs = false.
Proof.
  intros c u h hs B H. unfold eff_bhint in H. destruct u; [|discriminate].
  destruct (eff_hint h) as [hs'|] eqn:E; [|discriminate].
  destruct (B hs' E) as [G D].
  destruct (fx_block_default c) eqn:Ec; cbn in H.
  - destruct (is_default hs') eqn:Ed; inversion H; subst. tauto.
  - inversion H; subst. split; [exact G|apply D; reflexivity].
Qed.

Lemma bname_cons_same : forall vals b n bl top rest, bname_of (Pst vals ((b, n) :: bl) top rest) b = n.
Proof. intros. unfold bname_of. cbn. rewrite Z.eqb_refl. reflexivity. Qed.

Lemma pb_all_spec : forall c ep ls i p,
  NoDup (map fst ls) ->
  (forall b, In b (map fst ls) -> lookupZ b (p_blks p) = None) ->
  Forall (fun l => bhint_ok c (snd l)) ls ->
  let p' := pb_all c ls i ep p in
  (forall b, In b (map fst ls) -> bfresh (f_bn (p_top p)) i (bname_of p' b)) /\
  NoDup (map (bname_of p') (map fst ls)) /\
  (forall j b h, nth_error ls j = Some (b, h) ->
     match eff_bhint c (use_hint_at c (i + j) ep) h with
     | Some hs => exists k, bname_of p' b = render hs k
     | None => bname_of p' b = bb_name (i + j)
     end) /\
  (forall b, In b (map fst ls) -> lookupZ b (p_blks p') <> None).
Proof.
  intros c ep. induction ls as [|[b h] ls IH]; intros i p ND New Hh; cbn zeta.
  - cbn. repeat split; try tauto; try constructor. intros j b h H. destruct j; discriminate.
  - cbn [map fst] in ND, New. inversion ND as [|? ? Nb ND']; subst. inversion Hh as [|? ? Hb Hh']; subst.
    cbn [pb_all]. fold (use_hint_at c i ep).
    assert (Eb : lookupZ b (p_blks p) = None) by (apply New; now left).
    unfold pb_if_new. rewrite Eb.
    set (p1 := pb c b h (Some i) (use_hint_at c i ep) p).
    assert (Dom1 : forall w, lookupZ w (p_blks p) <> None -> lookupZ w (p_blks p1) = lookupZ w (p_blks p)).
    { intros w Hw. pose proof (pb_bstable c b h (Some i) (use_hint_at c i ep) p w Hw) as X.
      unfold pb_if_new in X. rewrite Eb in X. exact X. }
    assert (New1 : forall b', In b' (map fst ls) -> lookupZ b' (p_blks p1) = None).
    { intros b' Hb'. assert (b' <> b) by (intro; subst; contradiction).
      unfold p1, pb. destruct (eff_bhint c (use_hint_at c i ep) h); cbn;
        destruct (Z.eqb_spec b' b); try contradiction; apply New; now right. }
    destruct (IH (S i) p1 ND' New1 Hh') as [I1 [I2 [I3 I4]]].
    set (p' := pb_all c ls (S i) ep p1) in *.
    assert (Eb1 : lookupZ b (p_blks p1) <> None).
    { unfold p1, pb. destruct (eff_bhint c (use_hint_at c i ep) h); cbn; rewrite Z.eqb_refl; discriminate. }
    assert (Stb : bname_of p' b = bname_of p1 b).
    { unfold bname_of, p'. rewrite pb_all_bstable by exact Eb1. reflexivity. }
    (* the name of the head block and the freshness of everything after it *)
    assert (Head : bfresh (f_bn (p_top p)) i (bname_of p1 b) /\
                   (forall n, bfresh (f_bn (p_top p1)) (S i) n -> n <> bname_of p1 b /\ bfresh (f_bn (p_top p)) i n) /\
                   match eff_bhint c (use_hint_at c i ep) h with
                   | Some hs => exists k, bname_of p1 b = render hs k
                   | None => bname_of p1 b = bb_name i
                   end).
    { unfold p1, pb. destruct (eff_bhint c (use_hint_at c i ep) h) as [hs|] eqn:Eh.
      - destruct (eff_bhint_ok _ _ _ _ Hb Eh) as [G D].
        rewrite bname_cons_same. cbn [p_top f_bn]. split; [|split].
        + left. exists hs, (cnt hs (f_bn (p_top p))). split; [reflexivity|]. split; [exact G|]. split; [exact D|]. lia.
        + intros n [[hs' [k' [E [G' [D' L]]]]]|[j [E L]]].
          * split.
            -- intro X. rewrite E in X. apply render_inj in X; [|apply G'|apply G]. destruct X; subst.
               rewrite cnt_cons_same in L. lia.
            -- left. exists hs', k'. split; [exact E|]. split; [exact G'|]. split; [exact D'|].
               destruct (list_eq_dec Z.eq_dec hs' hs) as [X|X].
               ++ subst. rewrite cnt_cons_same in L. lia.
               ++ rewrite cnt_cons_other in L by exact X. exact L.
          * split.
            -- intro X. rewrite E in X. exact (bb_neq_render _ _ _ D X).
            -- right. exists j. split; [exact E|lia].
        + eexists; reflexivity.
      - rewrite bname_cons_same. cbn [p_top]. split; [|split].
        + right. exists i. split; [reflexivity|lia].
        + intros n [[hs' [k' [E [G' [D' L]]]]]|[j [E L]]].
          * split.
            -- intro X. rewrite E in X. symmetry in X. exact (bb_neq_render _ _ _ D' X).
            -- left. exists hs', k'. split; [exact E|]. split; [exact G'|]. split; [exact D'|]. exact L.
          * split.
            -- intro X. rewrite E in X. apply bb_name_inj in X. lia.
            -- right. exists j. split; [exact E|lia].
        + reflexivity. }
    destruct Head as [H1 [H2 H3]]. cbn [map fst].
    split; [|split; [|split]].
    + intros b' [Hb'|Hb'].
      * subst b'. rewrite Stb. exact H1.
      * apply H2. apply I1. exact Hb'.
    + cbn [map]. constructor.
      * intro X. apply in_map_iff in X. destruct X as [b' [X1 X2]].
        destruct (H2 _ (I1 b' X2)) as [X3 _]. rewrite Stb in X1. contradiction.
      * exact I2.
    + intros j b' h' Hn. destruct j as [|j]; cbn in Hn.
      * inversion Hn; subst. rewrite Nat.add_0_r. rewrite Stb. exact H3.
      * replace (i + S j) with (S i + j) by lia. apply I3. exact Hn.
    + intros b' [Hb'|Hb'].
      * subst. unfold p'. rewrite pb_all_bstable by exact Eb1. exact Eb1.
      * apply I4. exact Hb'.
Qed.
