(* C04/ProofsParse.v -- the parser's name resolution on the text of a well-scoped schedule: if the
   names are injective on the values of the active printer scopes at every moment and on the blocks of
   every region (what ProofsPrint.v establishes for the printer's names), the parser never fails and
   resolves every name to the object it stands for. *)
From Coq Require Import ZArith List Bool Arith Lia.
From XV Require Import C04.Model C04.ProofsStr C04.ProofsGhost.
Import ListNotations.

Section Sim.
Variable c : cfg.
Variables nm bnm : Z -> str.

Definition name_labs (ep : bool) (ls : list (Z * hint)) : list (option str) :=
  match ls with
  | [] => []
  | l :: r => (if ep then Some (bnm (fst l)) else None) :: map (fun x => Some (bnm (fst x))) r
  end.

Definition name_act (a : sact) : nact :=
  match a with
  | Ares (v, _) => Ares (nm v)
  | Apre (v, _) => Apre (nm v)
  | Aenter => Aenter
  | Aarg (v, _) => Aarg (nm v)
  | Asucc b => Asucc (bnm b)
  | Arbegin ls ep => Arbegin (name_labs ep ls) ep
  | Alabel (b, _) pr => Alabel (if pr then Some (bnm b) else None) pr
  | Abarg (v, _) => Abarg (nm v)
  | Arend => Arend
  | Aexit => Aexit
  | Aarg_post (v, _) => Aarg_post (nm v)
  | Ares_post (v, _) => Ares_post (nm v)
  end.

Definition rho (r : list (Z * Z)) (v : Z) : Z := match lookupZ v r with Some i => i | None => 0%Z end.
Definition dict (r : list (Z * Z)) (V : list Z) : list (str * Z) := map (fun v => (nm v, rho r v)) V.

Definition qout (r rb : list (Z * Z)) (a : sact) : list out :=
  match a with
  | Asucc b => [OB (rho rb b) None]
  | Alabel (b, _) pr => [OB (rho rb b) (if pr then blk_hint c (bnm b) else None)]
  | Abarg (v, _) => [OV (rho r v) (val_hint c (nm v))]
  | Aarg_post (v, _) => [OV (rho r v) None]
  | Ares_post (v, _) => [OV (rho r v) (val_hint c (nm v))]
  | _ => []
  end.
Definition qouts (r rb : list (Z * Z)) (l : list sact) : list out := flat_map (qout r rb) l.

Definition ext (r r' : list (Z * Z)) : Prop :=
  forall v, lookupZ v r <> None -> lookupZ v r' = lookupZ v r.
Lemma ext_refl : forall r, ext r r. Proof. intros r v H. reflexivity. Qed.
Lemma ext_trans : forall a b d, ext a b -> ext b d -> ext a d.
Proof. intros a b d H1 H2 v H. rewrite H2; [apply H1; exact H|]. rewrite H1; exact H. Qed.
Lemma ext_cons : forall r v i, lookupZ v r = None -> ext r ((v, i) :: r).
Proof. intros r v i H w Hw. cbn. destruct (Z.eqb_spec w v); [subst; congruence|reflexivity]. Qed.
Lemma rho_ext : forall r r' v, ext r r' -> lookupZ v r <> None -> rho r' v = rho r v.
Proof. intros r r' v E H. unfold rho. rewrite E by exact H. reflexivity. Qed.

Definition injon (A : list Z) : Prop := forall v w, In v A -> In w A -> nm v = nm w -> v = w.
Lemma NoDup_injon : forall A, NoDup (map nm A) -> injon A.
Proof.
  induction A as [|x A IH]; cbn; intros H v w Hv Hw E; [contradiction|].
  inversion H as [|? ? N1 N2]; subst.
  destruct Hv as [Hv|Hv], Hw as [Hw|Hw]; subst.
  - reflexivity.
  - exfalso. apply N1. rewrite E. apply in_map. exact Hw.
  - exfalso. apply N1. rewrite <- E. apply in_map. exact Hv.
  - apply IH; assumption.
Qed.

Lemma NoDup_injon_b : forall (A : list Z) x y, NoDup (map bnm A) -> In x A -> In y A -> bnm x = bnm y -> x = y.
Proof.
  induction A as [|a A IH]; cbn; intros x y H Hx Hy E; [contradiction|].
  inversion H as [|? ? N1 N2]; subst.
  destruct Hx as [Hx|Hx], Hy as [Hy|Hy]; subst.
  - reflexivity.
  - exfalso. apply N1. rewrite E. apply in_map. exact Hy.
  - exfalso. apply N1. rewrite <- E. apply in_map. exact Hx.
  - apply IH; assumption.
Qed.

Lemma lookup_dict : forall A r V v, injon A -> incl V A -> In v A ->
  lookup (nm v) (dict r V) = if memZ v V then Some (rho r v) else None.
Proof.
  intros A r V v IA. induction V as [|x V IH]; intros HV Hv; cbn; [reflexivity|].
  assert (Hx : In x A) by (apply HV; now left).
  assert (HV' : incl V A) by (intros y Hy; apply HV; now right).
  destruct (str_eqb (nm v) (nm x)) eqn:E.
  - apply str_eqb_eq in E. apply (IA v x Hv Hx) in E. subst. rewrite Z.eqb_refl. reflexivity.
  - destruct (Z.eqb_spec v x) as [X|X]; [subst; rewrite str_eqb_refl in E; discriminate|].
    cbn. apply IH; assumption.
Qed.
Lemma remove_key_dict : forall A r V v, injon A -> incl V A -> In v A ->
  remove_key (nm v) (dict r V) = dict r (removeZ v V).
Proof.
  intros A r V v IA. induction V as [|x V IH]; intros HV Hv; cbn; [reflexivity|].
  assert (Hx : In x A) by (apply HV; now left).
  assert (HV' : incl V A) by (intros y Hy; apply HV; now right).
  destruct (str_eqb (nm v) (nm x)) eqn:E.
  - apply str_eqb_eq in E. apply (IA v x Hv Hx) in E. subst. rewrite Z.eqb_refl. apply IH; assumption.
  - destruct (Z.eqb_spec v x) as [X|X]; [subst; rewrite str_eqb_refl in E; discriminate|].
    cbn. f_equal. apply IH; assumption.
Qed.
Lemma dict_ext : forall r r' V, (forall w, In w V -> rho r' w = rho r w) -> dict r' V = dict r V.
Proof. intros r r' V H. unfold dict. apply map_ext_in. intros w Hw. rewrite H by exact Hw. reflexivity. Qed.

(* the saved dictionaries of the open regions *)
Fixpoint vst (r : list (Z * Z)) (open : list (list Z)) : list (list (str * Z)) :=
  match open with
  | [] => []
  | o :: t => match t with [] => [] | _ :: _ => dict r (concat t) :: vst r t end
  end.
Lemma vst_ext : forall r r' open, (forall w, In w (concat open) -> rho r' w = rho r w) -> vst r' open = vst r open.
Proof.
  induction open as [|o t IH]; intro H; cbn; [reflexivity|]. destruct t as [|o2 t']; [reflexivity|].
  f_equal.
  - apply dict_ext. intros w Hw. apply H. cbn. apply in_or_app. now right.
  - apply IH. intros w Hw. apply H. cbn. apply in_or_app. now right.
Qed.

(* ---------- blocks ---------- *)
Definition bent := (list (Z * hint) * bool * list (Z * hint))%type.
Definition ids_of (e : bent) : list Z := map fst (fst (fst e)).
Definition refb (e : bent) (b : Z) : Prop :=
  In b (ids_of e) /\ (snd (fst e) = true \/ hd_error (ids_of e) <> Some b).

Record BlkOK (rb : list (Z * Z)) (e : bent) (bl : list (str * (Z * bool))) (fb : list str) : Prop := {
  bk_nd : NoDup (ids_of e);
  bk_nnd : NoDup (map bnm (ids_of e));
  bk_lookup : forall b, refb e b ->
     lookup (bnm b) bl = match lookupZ b rb with
                         | Some i => Some (i, negb (memZ b (map fst (snd e))))
                         | None => None
                         end;
  bk_fwd : forall n, In n fb ->
     exists b, In b (ids_of e) /\ n = bnm b /\ In b (map fst (snd e)) /\ lookupZ b rb <> None;
  bk_lab : forall b, In b (ids_of e) -> ~ In b (map fst (snd e)) -> lookupZ b rb <> None;
  bk_men : forall b, In b (ids_of e) -> lookupZ b rb <> None -> refb e b \/ ~ In b (map fst (snd e));
  bk_suffix : exists pre, fst (fst e) = pre ++ snd e
}.

Fixpoint BStack (rb : list (Z * Z)) (bopen : list bent) (bl : list (str * (Z * bool))) (fb : list str)
  (st : list (list (str * (Z * bool)) * list str)) : Prop :=
  match bopen with
  | [] => bl = [] /\ fb = [] /\ st = []
  | e :: bs =>
      BlkOK rb e bl fb /\
      match st with
      | (bl', fb') :: st' => BStack rb bs bl' fb' st'
      | [] => False
      end
  end.

Definition all_ids (bopen : list bent) : list Z := concat (map ids_of bopen).

Lemma BlkOK_ext : forall rb rb' e bl fb,
  (forall b, In b (ids_of e) -> lookupZ b rb' = lookupZ b rb) -> BlkOK rb e bl fb -> BlkOK rb' e bl fb.
Proof.
  intros rb rb' e bl fb E [B1 B2 B3 B4 B5 B6 B7]. constructor; try assumption.
  - intros b Hb. rewrite E by apply Hb. apply B3. exact Hb.
  - intros n Hn. destruct (B4 n Hn) as [b [X1 [X2 [X3 X4]]]]. exists b. rewrite E by exact X1. tauto.
  - intros b H1 H2. rewrite E by exact H1. apply B5; assumption.
  - intros b H1 H2. rewrite E in H2 by exact H1. apply B6; assumption.
Qed.
Lemma BStack_ext : forall rb rb' bopen bl fb st,
  (forall b, In b (all_ids bopen) -> lookupZ b rb' = lookupZ b rb) ->
  BStack rb bopen bl fb st -> BStack rb' bopen bl fb st.
Proof.
  induction bopen as [|e bs IH]; intros bl fb st E H; cbn in *; [exact H|].
  destruct H as [H1 H2]. split.
  - eapply BlkOK_ext; [|exact H1]. intros b Hb. apply E. unfold all_ids. cbn. apply in_or_app. now left.
  - destruct st as [|[bl' fb'] st']; [contradiction|]. apply IH; [|exact H2].
    intros b Hb. apply E. unfold all_ids. cbn. apply in_or_app. now right.
Qed.

(* ---------- the simulation invariant ---------- *)
Record InvQ (g : gst) (q : qst) (r rb : list (Z * Z)) : Prop := {
  iq_open : g_open g <> [];
  iq_vals : q_vals q = dict r (concat (g_open g));
  iq_vstack : q_vstack q = vst r (g_open g);
  iq_fwd : q_fwd q = dict r (g_pend g);
  iq_dom : forall v, lookupZ v r <> None <-> In v (concat (g_open g)) \/ In v (g_pend g) \/ In v (g_closed g);
  iq_bstack : BStack rb (g_bopen g) (q_blocks q) (q_fwdb q) (q_bstack q);
  iq_bdom : forall b, lookupZ b rb <> None -> In b (g_bseen g);
  iq_bids : NoDup (all_ids (g_bopen g));
  iq_bseen : incl (all_ids (g_bopen g)) (g_bseen g);
  iq_bcover : forall b, In b (g_bseen g) ->
      lookupZ b rb <> None \/ exists e, In e (g_bopen g) /\ In b (map fst (snd e));
  iq_next : forall v i, (In (v, i) r \/ In (v, i) rb) -> (i < q_next q)%Z;
  iq_inj : NoDup (map snd r ++ map snd rb)
}.

Definition NamesOK (l : list sact) (g : gst) : Prop :=
  forall pre post g1, l = pre ++ post -> ws_run c pre g = Some g1 ->
    NoDup (map nm (active g1)) /\
    (forall e, In e (g_bopen g1) -> NoDup (map bnm (ids_of e))).

Lemma NamesOK_tail : forall a l g g1, NamesOK (a :: l) g -> ws_step c a g = Some g1 -> NamesOK l g1.
Proof.
  intros a l g g1 H E pre post g2 El Hw. apply (H (a :: pre) post g2).
  - cbn. rewrite El. reflexivity.
  - cbn. rewrite E. exact Hw.
Qed.
Lemma NamesOK_here : forall l g, NamesOK l g -> NoDup (map nm (active g)).
Proof. intros l g H. apply (H [] l g); reflexivity. Qed.
Lemma NamesOK_next : forall a l g g1, NamesOK (a :: l) g -> ws_step c a g = Some g1 ->
  NoDup (map nm (active g1)) /\ (forall e, In e (g_bopen g1) -> NoDup (map bnm (ids_of e))).
Proof.
  intros a l g g1 H E. apply (H [a] l g1); [reflexivity|]. cbn. rewrite E. reflexivity.
Qed.

Lemma fresh_inj : forall (r rb : list (Z * Z)) (n : Z),
  (forall v i, (In (v, i) r \/ In (v, i) rb) -> (i < n)%Z) ->
  NoDup (map snd r ++ map snd rb) ->
  forall v, NoDup (map snd ((v, n) :: r) ++ map snd rb).
Proof.
  intros r rb n B N v. cbn. constructor; [|exact N].
  intro X. apply in_app_or in X. destruct X as [X|X]; apply in_map_iff in X; destruct X as [[w i] [X1 X2]];
    cbn in X1; subst i.
  - specialize (B w n (or_introl X2)). lia.
  - specialize (B w n (or_intror X2)). lia.
Qed.
Lemma fresh_inj_b : forall (r rb : list (Z * Z)) (n : Z),
  (forall v i, (In (v, i) r \/ In (v, i) rb) -> (i < n)%Z) ->
  NoDup (map snd r ++ map snd rb) ->
  forall b, NoDup (map snd r ++ map snd ((b, n) :: rb)).
Proof.
  intros r rb n B N b. cbn. apply NoDup_app_intro.
  - apply NoDup_app_remove_r in N. exact N.
  - constructor.
    + intro X. apply in_map_iff in X. destruct X as [[w i] [X1 X2]]. cbn in X1; subst i.
      specialize (B w n (or_intror X2)). lia.
    + apply NoDup_app_remove_l in N. exact N.
  - intros x X1 [X2|X2].
    + subst x. apply in_map_iff in X1. destruct X1 as [[w i] [X1 X3]]. cbn in X1; subst i.
      specialize (B w n (or_introl X3)). lia.
    + exact (NoDup_app_disj _ _ N x X1 X2).
Qed.

(* one definition of a value (block argument or operation result) *)
Lemma q_def_sim : forall g g1 q r rb v A,
  GInv g -> InvQ g q r rb -> injon A -> incl (live g) A -> In v A ->
  g_define v g = Some g1 ->
  exists q1 r1, q_def c (nm v) q = Ok (q1, OV (rho r1 v) (val_hint c (nm v))) /\
    InvQ g1 q1 r1 rb /\ ext r r1 /\ lookupZ v r1 <> None.
Proof.
  intros g g1 q r rb v A GI [O V VS F D BS BD BI BSn BC NX IJ] IA LA Av H.
  unfold g_define in H. destruct (lookupZ v (g_hints g)) as [h0|]; [|discriminate].
  destruct (memZ v (concat (g_open g)) || memZ v (g_closed g)) eqn:Em; [discriminate|].
  apply orb_false_iff in Em. destruct Em as [Em1 Em2].
  destruct (g_open g) as [|o os] eqn:Eo; [contradiction|]. inversion H; subst g1; clear H.
  assert (LO : incl (concat (o :: os)) A).
  { intros w Hw. apply LA. unfold live. rewrite Eo. apply in_or_app. now left. }
  assert (LP : incl (g_pend g) A).
  { intros w Hw. apply LA. unfold live. apply in_or_app. now right. }
  unfold q_def. rewrite V. rewrite (lookup_dict A) by assumption. rewrite Em1.
  rewrite F. rewrite (lookup_dict A) by assumption.
  apply memZ_false in Em1. apply memZ_false in Em2.
  destruct (memZ v (g_pend g)) eqn:Ep.
  - (* the value was forward referenced *)
    apply memZ_In in Ep.
    assert (Dv : lookupZ v r <> None) by (apply D; right; now left).
    eexists. exists r. split; [reflexivity|]. split; [|split; [apply ext_refl|exact Dv]].
    constructor; cbn [g_open g_pend g_closed g_bopen g_bseen q_vals q_vstack q_fwd q_blocks q_fwdb q_bstack q_next].
    + discriminate.
    + cbn [concat app]. unfold dict. cbn [map]. f_equal.
    + rewrite VS. reflexivity.
    + apply (remove_key_dict A); assumption.
    + intro w. rewrite D. cbn [concat app In]. rewrite removeZ_In. split.
      * intros [X|[X|X]]; [left; now right| |tauto].
        destruct (Z.eq_dec w v); [subst; left; now left|right; left; tauto].
      * intros [[X|X]|[[X _]|X]]; [subst; right; now left|tauto|tauto|tauto].
    + exact BS.
    + exact BD.
    + exact BI.
    + exact BSn.
    + exact BC.
    + exact NX.
    + exact IJ.
  - (* fresh object *)
    apply memZ_false in Ep.
    assert (Nv : lookupZ v r = None).
    { destruct (lookupZ v r) eqn:E; [|reflexivity]. exfalso.
      assert (X : lookupZ v r <> None) by congruence. apply D in X. tauto. }
    set (r1 := (v, q_next q) :: r).
    assert (E1 : ext r r1) by (apply ext_cons; exact Nv).
    assert (Rv : rho r1 v = q_next q) by (unfold rho, r1; cbn; rewrite Z.eqb_refl; reflexivity).
    assert (Ro : forall w, lookupZ w r <> None -> rho r1 w = rho r w) by (intros; apply rho_ext; assumption).
    eexists. exists r1. split; [rewrite Rv; reflexivity|]. split; [|split; [exact E1|]].
    2:{ unfold r1. cbn. rewrite Z.eqb_refl. discriminate. }
    constructor; cbn [g_open g_pend g_closed g_bopen g_bseen q_vals q_vstack q_fwd q_blocks q_fwdb q_bstack q_next].
    + discriminate.
    + cbn [concat app].
      change (dict r1 (v :: o ++ concat os)) with ((nm v, rho r1 v) :: dict r1 (o ++ concat os)).
      rewrite Rv. f_equal. symmetry. apply dict_ext.
      intros w Hw. apply Ro. apply D. left. exact Hw.
    + rewrite VS. symmetry. cbn [vst]. destruct os as [|o2 os']; [reflexivity|].
      f_equal.
      * apply dict_ext. intros w Hw. apply Ro. apply D. left. cbn. apply in_or_app. now right.
      * apply vst_ext. intros w Hw. apply Ro. apply D. left. cbn. apply in_or_app. now right.
    + rewrite removeZ_notin by exact Ep. symmetry. apply dict_ext.
      intros w Hw. apply Ro. apply D. right. now left.
    + intro w. unfold r1. cbn [lookupZ concat app In]. rewrite removeZ_notin by exact Ep.
      destruct (Z.eqb_spec w v) as [X|X].
      * subst. split; [intros _; left; now left|discriminate].
      * rewrite D. cbn [concat]. split; [intros [Y|Y]; [left; now right|tauto]|].
        intros [[Y|Y]|Y]; [congruence|tauto|tauto].
    + exact BS.
    + exact BD.
    + exact BI.
    + exact BSn.
    + exact BC.
    + intros w i [X|X].
      * unfold r1 in X. destruct X as [X|X]; [inversion X; subst; lia|]. specialize (NX w i (or_introl X)). lia.
      * specialize (NX w i (or_intror X)). lia.
    + apply fresh_inj; assumption.
Qed.

Lemma q_use_sim : forall g g1 q r rb v A,
  GInv g -> InvQ g q r rb -> injon A -> incl (live g) A -> In v A ->
  g_use v g = Some g1 ->
  exists q1 r1, q_use (nm v) q = Ok (q1, OV (rho r1 v) None) /\
    InvQ g1 q1 r1 rb /\ ext r r1 /\ lookupZ v r1 <> None.
Proof.
  intros g g1 q r rb v A GI [O V VS F D BS BD BI BSn BC NX IJ] IA LA Av H.
  unfold g_use in H. destruct (lookupZ v (g_hints g)) as [h0|]; [|discriminate].
  destruct (memZ v (g_closed g)) eqn:Ec; [discriminate|]. apply memZ_false in Ec.
  assert (LO : incl (concat (g_open g)) A).
  { intros w Hw. apply LA. unfold live. apply in_or_app. now left. }
  assert (LP : incl (g_pend g) A).
  { intros w Hw. apply LA. unfold live. apply in_or_app. now right. }
  unfold q_use. rewrite F. rewrite (lookup_dict A) by assumption.
  destruct (memZ v (g_pend g)) eqn:Ep.
  - rewrite orb_true_r in H. inversion H; subst g1; clear H. apply memZ_In in Ep.
    assert (Dv : lookupZ v r <> None) by (apply D; right; now left).
    exists q, r. split; [reflexivity|]. split; [constructor; assumption|]. split; [apply ext_refl|exact Dv].
  - rewrite orb_false_r in H. rewrite V. rewrite (lookup_dict A) by assumption.
    destruct (memZ v (concat (g_open g))) eqn:Eo.
    + inversion H; subst g1; clear H. apply memZ_In in Eo.
      assert (Dv : lookupZ v r <> None) by (apply D; now left).
      exists q, r. split; [reflexivity|]. split; [constructor; assumption|]. split; [apply ext_refl|exact Dv].
    + inversion H; subst g1; clear H. apply memZ_false in Ep. apply memZ_false in Eo.
      assert (Nv : lookupZ v r = None).
      { destruct (lookupZ v r) eqn:E; [|reflexivity]. exfalso.
        assert (X : lookupZ v r <> None) by congruence. apply D in X. tauto. }
      set (r1 := (v, q_next q) :: r).
      assert (E1 : ext r r1) by (apply ext_cons; exact Nv).
      assert (Rv : rho r1 v = q_next q) by (unfold rho, r1; cbn; rewrite Z.eqb_refl; reflexivity).
      assert (Ro : forall w, lookupZ w r <> None -> rho r1 w = rho r w) by (intros; apply rho_ext; assumption).
      eexists. exists r1. split; [rewrite Rv; reflexivity|]. split; [|split; [exact E1|]].
      2:{ unfold r1. cbn. rewrite Z.eqb_refl. discriminate. }
      constructor; cbn [g_open g_pend g_closed g_bopen g_bseen q_vals q_vstack q_fwd q_blocks q_fwdb q_bstack q_next].
      * exact O.
      * symmetry. apply dict_ext. intros w Hw. apply Ro. apply D. now left.
      * rewrite VS. symmetry. apply vst_ext. intros w Hw. apply Ro. apply D. now left.
      * change (dict r1 (v :: g_pend g)) with ((nm v, rho r1 v) :: dict r1 (g_pend g)).
        rewrite Rv. f_equal. symmetry. apply dict_ext.
        intros w Hw. apply Ro. apply D. right. now left.
      * intro w. unfold r1. cbn [lookupZ In]. destruct (Z.eqb_spec w v) as [X|X].
        -- subst. split; [intros _; right; left; now left|discriminate].
        -- rewrite D. split; [tauto|]. intros [Y|[[Y|Y]|Y]]; [tauto|congruence|tauto|tauto].
      * exact BS.
      * exact BD.
      * exact BI.
      * exact BSn.
      * exact BC.
      * intros w i [X|X].
        -- unfold r1 in X. destruct X as [X|X]; [inversion X; subst; lia|]. specialize (NX w i (or_introl X)). lia.
        -- specialize (NX w i (or_intror X)). lia.
      * apply fresh_inj; assumption.
Qed.

(* ---------- blocks: successor, label, region begin / end ---------- *)
Lemma remove_str_In : forall k n l, In n (remove_str k l) <-> In n l /\ n <> k.
Proof.
  induction l as [|x l IH]; cbn; [tauto|].
  destruct (str_eqb k x) eqn:E.
  - apply str_eqb_eq in E. subst. rewrite IH. split; [tauto|]. intros [[H|H] N]; [congruence|tauto].
  - apply str_eqb_neq in E. cbn. rewrite IH. split.
    + intros [H|[H1 H2]]; [subst; split; [now left|congruence]|tauto].
    + intros [[H|H] N]; [now left|right; tauto].
Qed.

Lemma NoDup_map_neq : forall (A : list Z) x y, NoDup (map bnm A) -> In x A -> In y A -> x <> y -> bnm x <> bnm y.
Proof.
  intros A x y N Hx Hy D E. apply (NoDup_injon_b A) in E; try assumption. contradiction.
Qed.

Lemma q_succ_sim : forall g q r rb b e bs,
  InvQ g q r rb -> g_bopen g = e :: bs -> refb e b ->
  exists q1 rb1, q_succ (bnm b) q = Ok (q1, OB (rho rb1 b) None) /\
    InvQ g q1 r rb1 /\ ext rb rb1 /\ lookupZ b rb1 <> None.
Proof.
  intros g q r rb b e bs [O V VS F D BS BD BI BSn BC NX IJ] Eb R.
  rewrite Eb in BS, BI, BSn. cbn [BStack] in BS. destruct BS as [BK ST].
  destruct (q_bstack q) as [|[bl' fb'] st'] eqn:Est; [contradiction|].
  destruct BK as [B1 B2 B3 B4 B5 B6 B7].
  unfold q_succ. rewrite (B3 b R).
  destruct (lookupZ b rb) as [i|] eqn:Erb.
  - exists q, rb. split; [unfold rho; rewrite Erb; reflexivity|]. split; [|split; [apply ext_refl|congruence]].
    constructor; try assumption.
    + rewrite Eb. cbn [BStack]. rewrite Est. split; [constructor; assumption|exact ST].
    + rewrite Eb. exact BI.
    + rewrite Eb. exact BSn.
  - set (rb1 := (b, q_next q) :: rb).
    assert (Rb : rho rb1 b = q_next q) by (unfold rho, rb1; cbn; rewrite Z.eqb_refl; reflexivity).
    assert (Hin : In b (map fst (snd e))).
    { destruct (in_dec Z.eq_dec b (map fst (snd e))) as [X|X]; [exact X|]. exfalso. apply (B5 b (proj1 R) X). exact Erb. }
    assert (Nbs : ~ In b (all_ids bs)).
    { intro X. unfold all_ids in BI. cbn in BI. exact (NoDup_app_disj _ _ BI b (proj1 R) X). }
    eexists. exists rb1. split; [rewrite Rb; reflexivity|]. split; [|split; [apply ext_cons; exact Erb|]].
    2:{ unfold rb1. cbn. rewrite Z.eqb_refl. discriminate. }
    constructor; cbn [q_vals q_vstack q_fwd q_blocks q_fwdb q_bstack q_next]; try assumption.
    + rewrite Eb. cbn [BStack]. rewrite Est. split.
      * constructor; try assumption.
        -- intros b' R'. cbn [lookup]. destruct (Z.eq_dec b' b) as [X|X].
           ++ subst b'. rewrite str_eqb_refl. unfold rb1. cbn. rewrite Z.eqb_refl.
              apply memZ_In in Hin. rewrite Hin. reflexivity.
           ++ assert (Y : bnm b' <> bnm b) by (apply (NoDup_map_neq (ids_of e)); try assumption; [apply R'|apply R]).
              apply str_eqb_neq in Y. rewrite Y. unfold rb1. cbn. destruct (Z.eqb_spec b' b); [contradiction|].
              apply B3. exact R'.
        -- intros n [Hn|Hn].
           ++ subst n. exists b. split; [apply R|]. split; [reflexivity|]. split; [exact Hin|].
              unfold rb1. cbn. rewrite Z.eqb_refl. discriminate.
           ++ destruct (B4 n Hn) as [b' [X1 [X2 [X3 X4]]]]. exists b'. repeat split; try assumption.
              unfold rb1. cbn. destruct (Z.eqb b' b); [discriminate|exact X4].
        -- intros b' X1 X2. unfold rb1. cbn. destruct (Z.eqb b' b); [discriminate|apply B5; assumption].
        -- intros b' X1 X2. unfold rb1 in X2. cbn in X2. destruct (Z.eqb_spec b' b) as [X|X].
           ++ subst. left. exact R.
           ++ apply B6; assumption.
      * apply (BStack_ext rb); [|exact ST]. intros b' Hb'. unfold rb1. cbn.
        destruct (Z.eqb_spec b' b); [subst; contradiction|reflexivity].
    + intros b' X. unfold rb1 in X. cbn in X. destruct (Z.eqb_spec b' b) as [Y|Y].
      * subst. apply BSn. unfold all_ids. cbn. apply in_or_app. left. apply R.
      * apply BD. exact X.
    + rewrite Eb. exact BI.
    + rewrite Eb. exact BSn.
    + intros b' Hb'. destruct (BC b' Hb') as [X|X]; [left|right; exact X].
      unfold rb1. cbn. destruct (Z.eqb b' b); [discriminate|exact X].
    + intros w i [X|X].
      * specialize (NX w i (or_introl X)). lia.
      * unfold rb1 in X. destruct X as [X|X]; [inversion X; subst; lia|]. specialize (NX w i (or_intror X)). lia.
    + apply fresh_inj_b; assumption.
Qed.

Lemma suffix_nodup : forall (pre : list (Z * hint)) x rem,
  NoDup (map fst (pre ++ x :: rem)) -> ~ In (fst x) (map fst rem) /\ (pre <> [] -> hd_error (map fst (pre ++ x :: rem)) <> Some (fst x)).
Proof.
  intros pre x rem N. rewrite map_app in N. cbn in N. split.
  - apply NoDup_app_remove_l in N. inversion N; assumption.
  - intros Hp. destruct pre as [|y pre]; [contradiction|]. cbn. intro X. inversion X as [X1].
    cbn in N. inversion N as [|? ? N1 N2]; subst. apply N1. rewrite X1. apply in_or_app. right. now left.
Qed.

Lemma q_label_sim : forall g q r rb b pr ls ep x rem bs,
  InvQ g q r rb -> g_bopen g = (ls, ep, x :: rem) :: bs ->
  b = fst x -> pr = (if length rem + 1 =? length ls then ep else true) ->
  let g1 := G (g_hints g) (g_frames g) (g_open g) (g_pend g) (g_closed g) (g_bseen g) ((ls, ep, rem) :: bs) in
  exists q1 rb1, q_label c (if pr then Some (bnm b) else None) q =
                   Ok (q1, OB (rho rb1 b) (if pr then blk_hint c (bnm b) else None)) /\
    InvQ g1 q1 r rb1 /\ ext rb rb1 /\ lookupZ b rb1 <> None.
Proof.
  intros g q r rb b pr ls ep x rem bs [O V VS F D BS BD BI BSn BC NX IJ] Eb Ex Epr g1.
  rewrite Eb in BS, BI, BSn. cbn [BStack] in BS. destruct BS as [BK ST].
  destruct (q_bstack q) as [|[bl' fb'] st'] eqn:Est; [contradiction|].
  destruct BK as [B1 B2 B3 B4 B5 B6 [pre B7]].
  cbn [fst snd] in B7.
  set (e := (ls, ep, x :: rem)) in *. set (e' := (ls, ep, rem)).
  assert (Ids : ids_of e' = ids_of e) by reflexivity.
  assert (Hb : In b (ids_of e)).
  { unfold ids_of, e. cbn [fst]. rewrite B7. rewrite map_app. apply in_or_app. right. subst b. now left. }
  destruct (suffix_nodup pre x rem) as [Nrem Nhd].
  { unfold ids_of, e in B1. cbn [fst] in B1. rewrite B7 in B1. exact B1. }
  rewrite <- Ex in Nrem.
  assert (Hxr : In b (map fst (snd e))) by (unfold e; cbn; left; auto).
  assert (Mem : forall b', b' <> b -> memZ b' (map fst (x :: rem)) = memZ b' (map fst rem)).
  { intros b' Hn. cbn. rewrite <- Ex. destruct (Z.eqb_spec b' b); [contradiction|reflexivity]. }
  (* is the block referencable? exactly when its label is printed *)
  assert (Ref : (pr = true -> refb e b) /\ (pr = false -> ~ refb e b)).
  { subst pr. destruct (Nat.eqb_spec (length rem + 1) (length ls)) as [L|L].
    - assert (pre = []).
      { rewrite B7 in L. rewrite app_length in L. cbn in L. destruct pre; [reflexivity|cbn in L; lia]. }
      subst pre. cbn in B7. split.
      + intro X. split; [exact Hb|left; exact X].
      + intros X [_ [Y|Y]]; [cbn in Y; congruence|]. apply Y. unfold ids_of, e. cbn [fst]. rewrite B7. cbn. subst b. reflexivity.
    - assert (pre <> []).
      { intro X. subst pre. cbn in B7. rewrite B7 in L. cbn in L. lia. }
      split; [|discriminate]. intros _. split; [exact Hb|right].
      unfold ids_of, e. cbn [fst]. rewrite B7. subst b. apply Nhd. assumption. }
  destruct Ref as [Ref1 Ref2].
  assert (Nbs : ~ In b (all_ids bs)).
  { intro X. unfold all_ids in BI. cbn in BI. exact (NoDup_app_disj _ _ BI b Hb X). }
  assert (Stack1 : forall i, BStack ((b, i) :: rb) bs bl' fb' st').
  { intro i. apply (BStack_ext rb); [|exact ST]. intros b' Hb'. cbn.
    destruct (Z.eqb_spec b' b); [subst; contradiction|reflexivity]. }
  assert (Common : forall q1 rb1, ext rb rb1 -> lookupZ b rb1 <> None ->
            q_vals q1 = q_vals q -> q_vstack q1 = q_vstack q -> q_fwd q1 = q_fwd q -> q_bstack q1 = q_bstack q ->
            BlkOK rb1 e' (q_blocks q1) (q_fwdb q1) -> BStack rb1 bs bl' fb' st' ->
            (forall b', lookupZ b' rb1 <> None -> In b' (g_bseen g)) ->
            (forall v i, In (v, i) r \/ In (v, i) rb1 -> (i < q_next q1)%Z) ->
            NoDup (map snd r ++ map snd rb1) -> InvQ g1 q1 r rb1).
  { intros q1 rb1 EX Hb1 E1 E2 E3 E4 K1 K2 K3 K4 K5.
    constructor; unfold g1; cbn [g_open g_pend g_closed g_bopen g_bseen]; try assumption; try congruence.
    - cbn [BStack]. rewrite E4, Est. split; assumption.
    - intros b' Hb'. destruct (BC b' Hb') as [X|[e0 [X1 X2]]].
      + left. rewrite EX by exact X. exact X.
      + rewrite Eb in X1. destruct X1 as [X1|X1].
        * subst e0. cbn [snd map] in X2. destruct X2 as [X2|X2].
          -- left. rewrite <- X2. rewrite <- Ex. exact Hb1.
          -- right. exists (ls, ep, rem). split; [now left|exact X2].
        * right. exists e0. split; [now right|exact X2]. }
  destruct pr.
  - (* printed label *)
    specialize (Ref1 eq_refl). unfold q_label. rewrite (B3 b Ref1).
    destruct (lookupZ b rb) as [i|] eqn:Erb.
    + (* forward declared *)
      assert (Mb : memZ b (map fst (snd e)) = true) by (apply memZ_In; exact Hxr).
      rewrite Mb. cbn [negb].
      eexists. exists rb. split; [unfold rho; rewrite Erb; reflexivity|]. split; [|split; [apply ext_refl|congruence]].
      apply Common; cbn [q_vals q_vstack q_fwd q_blocks q_fwdb q_bstack q_next]; try reflexivity; try assumption.
      * apply ext_refl.
      * congruence.
      * constructor; try assumption.
        -- intros b' R'. cbn [lookup]. destruct (Z.eq_dec b' b) as [X|X].
           ++ subst b'. rewrite str_eqb_refl. rewrite Erb. unfold e'. cbn [snd].
              apply memZ_false in Nrem. rewrite Nrem. reflexivity.
           ++ assert (Y : bnm b' <> bnm b) by (apply (NoDup_map_neq (ids_of e)); try assumption; apply R').
              apply str_eqb_neq in Y. rewrite Y. rewrite (B3 b' R'). unfold e, e'. cbn [snd]. rewrite Mem by exact X. reflexivity.
        -- intros n Hn. apply remove_str_In in Hn. destruct Hn as [Hn Hne].
           destruct (B4 n Hn) as [b' [X1 [X2 [X3 X4]]]]. exists b'. split; [exact X1|]. split; [exact X2|]. split; [|exact X4].
           unfold e in X3. cbn in X3. destruct X3 as [X3|X3]; [|exact X3]. exfalso. apply Hne. rewrite X2. rewrite <- X3. rewrite <- Ex. reflexivity.
        -- intros b' X1 X2. destruct (Z.eq_dec b' b) as [X|X]; [subst; congruence|].
           apply B5; [exact X1|]. unfold e. cbn. intros [Y|Y]; [apply X; rewrite <- Y; rewrite <- Ex; reflexivity|exact (X2 Y)].
        -- intros b' X1 X2. destruct (Z.eq_dec b' b) as [X|X]; [subst; right; exact Nrem|].
           destruct (B6 b' X1 X2) as [Y|Y]; [left; exact Y|right]. intro Z1. apply Y. unfold e. cbn. right. exact Z1.
        -- exists (pre ++ [x]). unfold e'. cbn [fst snd]. rewrite B7. rewrite <- app_assoc. reflexivity.
    + (* first mention *)
      set (rb1 := (b, q_next q) :: rb).
      assert (Rb : rho rb1 b = q_next q) by (unfold rho, rb1; cbn; rewrite Z.eqb_refl; reflexivity).
      eexists. exists rb1. split; [rewrite Rb; reflexivity|]. split; [|split; [apply ext_cons; exact Erb|]].
      2:{ unfold rb1. cbn. rewrite Z.eqb_refl. discriminate. }
      apply Common; cbn [q_vals q_vstack q_fwd q_blocks q_fwdb q_bstack q_next]; try reflexivity; try assumption.
      * apply ext_cons. exact Erb.
      * unfold rb1. cbn. rewrite Z.eqb_refl. discriminate.
      * constructor; try assumption.
        -- intros b' R'. cbn [lookup]. destruct (Z.eq_dec b' b) as [X|X].
           ++ subst b'. rewrite str_eqb_refl. unfold rb1. cbn [lookupZ]. rewrite Z.eqb_refl. unfold e'. cbn [snd].
              apply memZ_false in Nrem. rewrite Nrem. reflexivity.
           ++ assert (Y : bnm b' <> bnm b) by (apply (NoDup_map_neq (ids_of e)); try assumption; apply R').
              apply str_eqb_neq in Y. rewrite Y. unfold rb1. cbn [lookupZ]. destruct (Z.eqb_spec b' b); [contradiction|].
              rewrite (B3 b' R'). unfold e. cbn [snd]. rewrite Mem by exact X. reflexivity.
        -- intros n Hn. destruct (B4 n Hn) as [b' [X1 [X2 [X3 X4]]]]. exists b'.
           assert (Hnb : b' <> b) by (intro; subst; congruence).
           split; [exact X1|]. split; [exact X2|]. split.
           ++ unfold e in X3. cbn in X3. destruct X3 as [X3|X3]; [exfalso; apply Hnb; rewrite <- X3; rewrite <- Ex; reflexivity|exact X3].
           ++ unfold rb1. cbn. destruct (Z.eqb b' b); [discriminate|exact X4].
        -- intros b' X1 X2. unfold rb1. cbn. destruct (Z.eqb_spec b' b) as [X|X]; [discriminate|].
           apply B5; [exact X1|]. unfold e. cbn. intros [Y|Y]; [apply X; rewrite <- Y; rewrite <- Ex; reflexivity|exact (X2 Y)].
        -- intros b' X1 X2. unfold rb1 in X2. cbn in X2. destruct (Z.eqb_spec b' b) as [X|X]; [subst; right; exact Nrem|].
           destruct (B6 b' X1 X2) as [Y|Y]; [left; exact Y|right]. intro Z1. apply Y. unfold e. cbn. right. exact Z1.
        -- exists (pre ++ [x]). unfold e'. cbn [fst snd]. rewrite B7. rewrite <- app_assoc. reflexivity.
      * apply Stack1.
      * intros b' X. unfold rb1 in X. cbn in X. destruct (Z.eqb_spec b' b) as [Y|Y].
        -- subst. apply BSn. unfold all_ids. cbn. apply in_or_app. left. exact Hb.
        -- apply BD. exact X.
      * intros w i [X|X].
        -- specialize (NX w i (or_introl X)). lia.
        -- unfold rb1 in X. destruct X as [X|X]; [inversion X; subst; lia|]. specialize (NX w i (or_intror X)). lia.
      * apply fresh_inj_b; assumption.
  - (* omitted label of the entry block *)
    specialize (Ref2 eq_refl).
    assert (Erb : lookupZ b rb = None).
    { destruct (lookupZ b rb) eqn:E; [|reflexivity]. exfalso.
      destruct (B6 b Hb) as [Y|Y]; [congruence|contradiction|exact (Y Hxr)]. }
    set (rb1 := (b, q_next q) :: rb).
    assert (Rb : rho rb1 b = q_next q) by (unfold rho, rb1; cbn; rewrite Z.eqb_refl; reflexivity).
    unfold q_label.
    eexists. exists rb1. split; [rewrite Rb; reflexivity|]. split; [|split; [apply ext_cons; exact Erb|]].
    2:{ unfold rb1. cbn. rewrite Z.eqb_refl. discriminate. }
    apply Common; cbn [q_vals q_vstack q_fwd q_blocks q_fwdb q_bstack q_next]; try reflexivity; try assumption.
    + apply ext_cons. exact Erb.
    + unfold rb1. cbn. rewrite Z.eqb_refl. discriminate.
    + constructor; try assumption.
      * intros b' R'. assert (X : b' <> b) by (intro; subst; exact (Ref2 R')).
        unfold rb1. cbn [lookupZ]. destruct (Z.eqb_spec b' b); [contradiction|].
        rewrite (B3 b' R'). unfold e. cbn [snd]. rewrite Mem by exact X. reflexivity.
      * intros n Hn. destruct (B4 n Hn) as [b' [X1 [X2 [X3 X4]]]]. exists b'.
        assert (Hnb : b' <> b) by (intro; subst; congruence).
        split; [exact X1|]. split; [exact X2|]. split.
        -- unfold e in X3. cbn in X3. destruct X3 as [X3|X3]; [exfalso; apply Hnb; rewrite <- X3; rewrite <- Ex; reflexivity|exact X3].
        -- unfold rb1. cbn. destruct (Z.eqb b' b); [discriminate|exact X4].
      * intros b' X1 X2. unfold rb1. cbn. destruct (Z.eqb_spec b' b) as [X|X]; [discriminate|].
        apply B5; [exact X1|]. unfold e. cbn. intros [Y|Y]; [apply X; rewrite <- Y; rewrite <- Ex; reflexivity|exact (X2 Y)].
      * intros b' X1 X2. unfold rb1 in X2. cbn in X2. destruct (Z.eqb_spec b' b) as [X|X]; [subst; right; exact Nrem|].
        destruct (B6 b' X1 X2) as [Y|Y]; [left; exact Y|right]. intro Z1. apply Y. unfold e. cbn. right. exact Z1.
      * exists (pre ++ [x]). unfold e'. cbn [fst snd]. rewrite B7. rewrite <- app_assoc. reflexivity.
    + apply Stack1.
    + intros b' X. unfold rb1 in X. cbn in X. destruct (Z.eqb_spec b' b) as [Y|Y].
      * subst. apply BSn. unfold all_ids. cbn. apply in_or_app. left. exact Hb.
      * apply BD. exact X.
    + intros w i [X|X].
      * specialize (NX w i (or_introl X)). lia.
      * unfold rb1 in X. destruct X as [X|X]; [inversion X; subst; lia|]. specialize (NX w i (or_intror X)). lia.
    + apply fresh_inj_b; assumption.
Qed.

(* ---------- InvQ only looks at the parser-side part of the bookkeeping ---------- *)
Lemma InvQ_ghost : forall g g1 q r rb,
  g_open g1 = g_open g -> g_pend g1 = g_pend g -> g_closed g1 = g_closed g ->
  g_bopen g1 = g_bopen g -> g_bseen g1 = g_bseen g -> InvQ g q r rb -> InvQ g1 q r rb.
Proof.
  intros g g1 q r rb E1 E2 E3 E4 E5 [O V VS F D BS BD BI BSn BC NX IJ].
  constructor; rewrite ?E1, ?E2, ?E3, ?E4, ?E5; assumption.
Qed.

Lemma rbegin_sim : forall g q r rb ls ep,
  InvQ g q r rb ->
  nodupZ (map fst ls) = true -> forallb (fun b => negb (memZ b (g_bseen g))) (map fst ls) = true ->
  NoDup (map bnm (map fst ls)) ->
  InvQ (G (g_hints g) (g_frames g) ([] :: g_open g) (g_pend g) (g_closed g) (map fst ls ++ g_bseen g)
          ((ls, ep, ls) :: g_bopen g)) (q_rbegin q) r rb.
Proof.
  intros g q r rb ls ep [O V VS F D BS BD BI BSn BC NX IJ] N1 N2 N3.
  apply nodupZ_NoDup in N1. rewrite forallb_forall in N2.
  assert (New : forall b, In b (map fst ls) -> ~ In b (g_bseen g)).
  { intros b Hb. specialize (N2 b Hb). apply negb_true_iff in N2. apply memZ_false in N2. exact N2. }
  constructor; cbn [g_open g_pend g_closed g_bopen g_bseen q_vals q_vstack q_fwd q_blocks q_fwdb q_bstack q_next q_rbegin].
  - discriminate.
  - exact V.
  - destruct (g_open g) as [|o t] eqn:Eo; [contradiction|]. cbn [vst]. rewrite V, VS. reflexivity.
  - exact F.
  - exact D.
  - cbn [BStack]. split; [|exact BS]. constructor; unfold ids_of, refb; cbn [fst snd].
    + exact N1.
    + exact N3.
    + intros b [Hb _]. cbn. destruct (lookupZ b rb) eqn:E; [|reflexivity]. exfalso.
      apply (New b Hb). apply BD. congruence.
    + intros n [].
    + intros b H1 H2. contradiction.
    + intros b H1 H2. exfalso. exact (New b H1 (BD b H2)).
    + exists []. reflexivity.
  - intros b Hb. apply in_or_app. right. apply BD. exact Hb.
  - unfold all_ids. cbn [map concat]. apply NoDup_app_intro; [exact N1|exact BI|].
    intros b H1 H2. exact (New b H1 (BSn b H2)).
  - unfold all_ids. cbn [map concat]. intros b Hb. apply in_app_or in Hb. apply in_or_app.
    destruct Hb as [Hb|Hb]; [left; exact Hb|right; apply BSn; exact Hb].
  - intros b Hb. apply in_app_or in Hb. destruct Hb as [Hb|Hb].
    + right. exists (ls, ep, ls). split; [now left|exact Hb].
    + destruct (BC b Hb) as [X|[e0 [X1 X2]]]; [now left|right]. exists e0. split; [now right|exact X2].
  - exact NX.
  - exact IJ.
Qed.

Lemma rend_sim : forall g q r rb o o2 os ls ep bs,
  InvQ g q r rb -> g_open g = o :: o2 :: os -> g_bopen g = (ls, ep, []) :: bs ->
  exists q1, q_rend q = Ok q1 /\
    InvQ (G (g_hints g) (g_frames g) (o2 :: os) (g_pend g) (o ++ g_closed g) (g_bseen g) bs) q1 r rb.
Proof.
  intros g q r rb o o2 os ls ep bs [O V VS F D BS BD BI BSn BC NX IJ] Eo Eb.
  rewrite Eb in BS, BI, BSn. cbn [BStack] in BS. destruct BS as [BK ST].
  destruct (q_bstack q) as [|[bl' fb'] st'] eqn:Est; [contradiction|].
  unfold q_rend.
  assert (Ef : q_fwdb q = []).
  { destruct (q_fwdb q) as [|n fb] eqn:E; [reflexivity|]. exfalso.
    destruct (bk_fwd _ _ _ _ BK n (or_introl eq_refl)) as [b [_ [_ [X _]]]]. exact X. }
  rewrite Ef. rewrite VS, Eo. cbn [vst]. rewrite Est.
  eexists. split; [reflexivity|].
  constructor; cbn [g_open g_pend g_closed g_bopen g_bseen q_vals q_vstack q_fwd q_blocks q_fwdb q_bstack q_next].
  - discriminate.
  - reflexivity.
  - reflexivity.
  - exact F.
  - intro w. rewrite D. rewrite Eo. cbn [concat]. rewrite !in_app_iff. tauto.
  - exact ST.
  - exact BD.
  - unfold all_ids in BI. cbn in BI. apply NoDup_app_remove_l in BI. exact BI.
  - intros b Hb. apply BSn. unfold all_ids. cbn. apply in_or_app. now right.
  - intros b Hb. destruct (BC b Hb) as [X|[e0 [X1 X2]]]; [now left|right].
    rewrite Eb in X1. destruct X1 as [X1|X1]; [subst e0; destruct X2|]. exists e0. tauto.
  - exact NX.
  - exact IJ.
Qed.

(* ---------- one step ---------- *)
Lemma stepQ_sim : forall a l g g1 q r rb,
  GInv g -> InvQ g q r rb -> NamesOK (a :: l) g -> ws_step c a g = Some g1 ->
  exists q1 r1 rb1, stepQ c (name_act a) q = Ok (q1, qout r1 rb1 a) /\
    InvQ g1 q1 r1 rb1 /\ ext r r1 /\ ext rb rb1 /\
    (forall r2 rb2, ext r1 r2 -> ext rb1 rb2 -> qout r2 rb2 a = qout r1 rb1 a).
Proof.
  intros a l g g1 q r rb GI IQ NO H.
  pose proof (ws_step_inv c a g g1 GI H) as GI1.
  destruct (NamesOK_next _ _ _ _ NO H) as [ND1 NB1].
  pose proof (NamesOK_here _ _ NO) as ND0.
  assert (Trivial : forall g', g_open g' = g_open g -> g_pend g' = g_pend g -> g_closed g' = g_closed g ->
            g_bopen g' = g_bopen g -> g_bseen g' = g_bseen g ->
            exists q1 r1 rb1, Ok (q, @nil out) = Ok (q1, @nil out) /\ InvQ g' q1 r1 rb1 /\ ext r r1 /\ ext rb rb1 /\
              (forall r2 rb2 : list (Z * Z), ext r1 r2 -> ext rb1 rb2 -> @nil out = @nil out)).
  { intros g' E1 E2 E3 E4 E5. exists q, r, rb. split; [reflexivity|]. split; [eapply InvQ_ghost; eauto|].
    split; [apply ext_refl|]. split; [apply ext_refl|reflexivity]. }
  assert (Mention : forall v h g', g_mention v h g = Some g' ->
            g_open g' = g_open g /\ g_pend g' = g_pend g /\ g_closed g' = g_closed g /\
            g_bopen g' = g_bopen g /\ g_bseen g' = g_bseen g).
  { intros v h g' Hm. destruct (g_mention_hints v h g g' Hm) as [_ [A1 [A2 [A3 [A4 [A5 _]]]]]]. tauto. }
  destruct a as [[v h]|[v h]| |[v h]|b|ls ep|[b h] pr|[v h]| | |[v h]|[v h]]; cbn in H; cbn [name_act stepQ qout].
  - destruct (Mention v h g1 H) as [A1 [A2 [A3 [A4 A5]]]]. apply Trivial; assumption.
  - destruct (fx_iso_operands c).
    + destruct (Mention v h g1 H) as [A1 [A2 [A3 [A4 A5]]]]. apply Trivial; assumption.
    + inversion H; subst. apply Trivial; reflexivity.
  - inversion H; subst. apply Trivial; reflexivity.
  - destruct (Mention v h g1 H) as [A1 [A2 [A3 [A4 A5]]]]. apply Trivial; assumption.
  - (* successor *)
    destruct (g_bopen g) as [|[[ls ep] rem] bs] eqn:Eb; [discriminate|].
    destruct (memZ b (map fst ls) && _) eqn:Ec; [|discriminate]. inversion H; subst g1; clear H.
    apply andb_true_iff in Ec. destruct Ec as [Ec1 Ec2]. apply memZ_In in Ec1.
    assert (R : refb (ls, ep, rem) b).
    { split; [exact Ec1|]. unfold ids_of. cbn [fst snd]. destruct ep; [now left|right]. cbn in Ec2.
      destruct ls as [|x ls']; [discriminate|]. cbn. apply negb_true_iff in Ec2. apply Z.eqb_neq in Ec2. congruence. }
    destruct (q_succ_sim g q r rb b _ _ IQ Eb R) as [q1 [rb1 [S1 [S2 [S3 S4]]]]].
    exists q1, r, rb1. rewrite S1. split; [reflexivity|]. split; [exact S2|]. split; [apply ext_refl|]. split; [exact S3|].
    intros r2 rb2 _ E2. f_equal. f_equal. apply rho_ext; assumption.
  - (* region begin *)
    destruct (nodupZ (map fst ls) && _) eqn:Ec; [|discriminate]. inversion H; subst g1; clear H.
    apply andb_true_iff in Ec. destruct Ec as [Ec1 Ec2].
    exists (q_rbegin q), r, rb. split; [reflexivity|]. split.
    + apply rbegin_sim; try assumption. apply (NB1 (ls, ep, ls)). cbn. now left.
    + split; [apply ext_refl|]. split; [apply ext_refl|reflexivity].
  - (* label *)
    destruct (g_bopen g) as [|[[ls ep] [|x rem]] bs] eqn:Eb; try discriminate.
    destruct (Z.eqb b (fst x) && hint_eqb h (snd x) && _) eqn:Ec; [|discriminate]. inversion H; subst g1; clear H.
    apply andb_true_iff in Ec. destruct Ec as [Ec Ec3]. apply andb_true_iff in Ec. destruct Ec as [Ec1 Ec2].
    apply Z.eqb_eq in Ec1. apply eqb_prop in Ec3.
    destruct (q_label_sim g q r rb b pr ls ep x rem bs IQ Eb Ec1 Ec3) as [q1 [rb1 [S1 [S2 [S3 S4]]]]].
    exists q1, r, rb1. rewrite S1. split; [reflexivity|]. split; [exact S2|]. split; [apply ext_refl|]. split; [exact S3|].
    intros r2 rb2 _ E2. f_equal. f_equal. apply rho_ext; assumption.
  - (* block argument *)
    destruct (g_mention v h g) as [gm|] eqn:Em; [|discriminate].
    destruct (Mention v h gm Em) as [A1 [A2 [A3 [A4 A5]]]].
    assert (GIm : GInv gm) by exact (g_mention_inv v h g gm GI Em).
    assert (IQm : InvQ gm q r rb) by (apply (InvQ_ghost g gm); assumption).
    assert (Fr : g_frames g1 = g_frames gm).
    { unfold g_define in H. destruct (lookupZ v (g_hints gm)); [|discriminate]. destruct (_ || _); [discriminate|].
      destruct (g_open gm); [discriminate|]. inversion H; subst. reflexivity. }
    assert (Av : In v (active g1)).
    { unfold active. rewrite Fr. destruct (g_mention_hints v h g gm Em) as [X _].
      destruct (gi_printed gm GIm v) as [Y|Y]; [congruence|exact Y|].
      exfalso. unfold g_define in H. rewrite X in H. apply memZ_In in Y. rewrite Y in H. rewrite orb_true_r in H. discriminate. }
    destruct (q_def_sim gm g1 q r rb v (active g1) GIm IQm) as [q1 [r1 [S1 [S2 [S3 S4]]]]].
    + apply NoDup_injon. exact ND1.
    + intros w Hw. unfold active. rewrite Fr. apply (live_active gm w GIm Hw).
    + exact Av.
    + exact H.
    + exists q1, r1, rb. rewrite S1. split; [reflexivity|]. split; [exact S2|]. split; [exact S3|]. split; [apply ext_refl|].
      intros r2 rb2 E2 _. f_equal. f_equal. apply rho_ext; assumption.
  - (* region end *)
    destruct (g_open g) as [|o [|o2 os]] eqn:Eo; try discriminate.
    destruct (g_bopen g) as [|[[ls ep] [|x rem]] bs] eqn:Eb; try discriminate. inversion H; subst g1; clear H.
    destruct (rend_sim g q r rb o o2 os ls ep bs IQ Eo Eb) as [q1 [S1 S2]].
    exists q1, r, rb. rewrite S1. split; [reflexivity|]. split; [exact S2|].
    split; [apply ext_refl|]. split; [apply ext_refl|reflexivity].
  - destruct (g_frames g) as [|f [|f2 fs]]; try discriminate. destruct (forallb _ f); [|discriminate].
    inversion H; subst. apply Trivial; reflexivity.
  - (* operand *)
    assert (Av : In v (active g)).
    { unfold g_use in H. destruct (lookupZ v (g_hints g)) eqn:E; [|discriminate].
      destruct (memZ v (g_closed g)) eqn:Ec; [discriminate|]. apply memZ_false in Ec.
      destruct (gi_printed g GI v) as [Y|Y]; [congruence|exact Y|contradiction]. }
    destruct (q_use_sim g g1 q r rb v (active g) GI IQ) as [q1 [r1 [S1 [S2 [S3 S4]]]]].
    + apply NoDup_injon. exact ND0.
    + intros w Hw. apply (live_active g w GI Hw).
    + exact Av.
    + exact H.
    + exists q1, r1, rb. rewrite S1. split; [reflexivity|]. split; [exact S2|]. split; [exact S3|]. split; [apply ext_refl|].
      intros r2 rb2 E2 _. f_equal. f_equal. apply rho_ext; assumption.
  - (* result *)
    assert (Av : In v (active g)).
    { unfold g_define in H. destruct (lookupZ v (g_hints g)) eqn:E; [|discriminate].
      destruct (memZ v (concat (g_open g)) || memZ v (g_closed g)) eqn:Ec; [discriminate|].
      apply orb_false_iff in Ec. destruct Ec as [_ Ec]. apply memZ_false in Ec.
      destruct (gi_printed g GI v) as [Y|Y]; [congruence|exact Y|contradiction]. }
    destruct (q_def_sim g g1 q r rb v (active g) GI IQ) as [q1 [r1 [S1 [S2 [S3 S4]]]]].
    + apply NoDup_injon. exact ND0.
    + intros w Hw. apply (live_active g w GI Hw).
    + exact Av.
    + exact H.
    + exists q1, r1, rb. rewrite S1. split; [reflexivity|]. split; [exact S2|]. split; [exact S3|]. split; [apply ext_refl|].
      intros r2 rb2 E2 _. f_equal. f_equal. apply rho_ext; assumption.
Qed.

(* ---------- the whole run ---------- *)
Lemma runQ_sim : forall l g g1 q r rb,
  GInv g -> InvQ g q r rb -> NamesOK l g -> ws_run c l g = Some g1 ->
  exists q1 r1 rb1, runQ c (map name_act l) q = Ok (q1, qouts r1 rb1 l) /\
    InvQ g1 q1 r1 rb1 /\ ext r r1 /\ ext rb rb1.
Proof.
  induction l as [|a l IH]; intros g g1 q r rb GI IQ NO H; cbn in H.
  - inversion H; subst. exists q, r, rb. cbn. split; [reflexivity|]. split; [exact IQ|]. split; apply ext_refl.
  - destruct (ws_step c a g) as [g2|] eqn:E; [|discriminate].
    destruct (stepQ_sim a l g g2 q r rb GI IQ NO E) as [q2 [r2 [rb2 [S1 [S2 [S3 [S4 S5]]]]]]].
    destruct (IH g2 g1 q2 r2 rb2) as [q1 [r1 [rb1 [T1 [T2 [T3 T4]]]]]].
    + eapply ws_step_inv; eauto.
    + exact S2.
    + eapply NamesOK_tail; eauto.
    + exact H.
    + exists q1, r1, rb1. cbn [map runQ]. rewrite S1, T1. split.
      * unfold qouts. cbn [flat_map]. rewrite (S5 r1 rb1 T3 T4). reflexivity.
      * split; [exact T2|]. split; eapply ext_trans; eauto.
Qed.

End Sim.
