(* C04/EncRx.v -- the translated name / lexer patterns evaluated with CPython's Unicode classes (tables
   regenerated on every run), for the correspondence family name-pattern-unicode. *)
From Coq Require Import ZArith List Bool.
From XV Require Import Base.Show C07.Regex C04.Model Gen.C04_current.
Import ListNotations.

Definition in_tbl_rx (t : list (Z * Z)) (x : Z) : bool := existsb (in_range x) t.
Definition cpyU_rx (n : named) (x : Z) : bool :=
  match n with
  | UWord => is_alpha x || is_digit x || (x =? 95)%Z || in_tbl_rx tbl_uword x
  | UDigit => is_digit x || in_tbl_rx tbl_udigit x
  | USpace => false
  end.
Definition c04_rx (s : str) : sx :=
  L [ sB (match snd (bt_fullmatch cpyU_rx cur_r_name s) with MSome [] => true | _ => false end);
      sB (match snd (bt_match cpyU_rx cur_r_suffix_id (s ++ [32%Z])) with
          | MSome [c] => (c =? 32)%Z
          | _ => false
          end) ].
