(* C04/Model.v -- executable model of the generic textual round trip of xDSL IR (definitions only).

   M1  names.  `stepP` mirrors the name assignment of xdsl/printer.py
         (print_ssa_value, _populate_block_name, _get_block_name, enter_scope/exit_scope with the
          _ssa_values/_blocks dictionaries and the _ssa_names/_block_names/_next_valid_name_id/
          _next_valid_block_id stacks);
       `stepQ` mirrors the name resolution of xdsl/parser/core.py
         (_register_ssa_definition, resolve_operand with forward references, the value/block scope
          opened by parse_optional_region, _parse_block, parse_optional_successor, the final
          "values used but not defined" test of parse_module) and the hint recovery of
          xdsl/ir/core.py (is_valid_name, extract_valid_name, Block.is_default_block_name).
       Both machines run over the SCHEDULE `sched ir` of an IR skeleton: the sequence of
       name-relevant effects in the order in which print_op / print_region / print_block on the one
       hand and parse_operation / _parse_generic_operation / parse_optional_region / _parse_block on
       the other hand perform them.  The two orders differ: the printer names results and operands
       where they stand in the text, the parser resolves the operands of an operation only AFTER
       its regions have been parsed and registers its results last.
   M3  generic operation syntax at token level: `toks_op` (print_op_with_default_format,
       print_region, print_block, print_function_type) and `parse_op` (_parse_generic_operation,
       parse_region_list, parse_optional_region, _parse_block, ...), attributes and types being
       opaque single tokens.
   Switches (`cfg`): each `fx_*` flag selects the repaired behaviour proposed in
   /verif/build/proposed_fixes/C04-*.diff; all-false is the tree as pinned.  The current values
   are read from the source on every run (coq/Gen/C04_current.v).

   Conventions: code points and object identities are Z; counters are nat (only computed, never
   written as literals); Python dicts are association lists (first binding wins, update = cons);
   exceptions are the constructors of `perr`. *)
From Coq Require Import ZArith List Bool Arith.
From Coq Require Decimal DecimalNat.
Import ListNotations.

Definition str := list Z.
Definition hint := option str.

(* ------------------------------------------------------------------------------------------ *)
(* strings *)

Fixpoint str_eqb (a b : str) : bool :=
  match a, b with
  | [], [] => true
  | x :: a', y :: b' => Z.eqb x y && str_eqb a' b'
  | _, _ => false
  end.

Fixpoint lookup {A} (k : str) (l : list (str * A)) : option A :=
  match l with
  | [] => None
  | (k', a) :: r => if str_eqb k k' then Some a else lookup k r
  end.
Fixpoint lookupZ {A} (k : Z) (l : list (Z * A)) : option A :=
  match l with
  | [] => None
  | (k', a) :: r => if Z.eqb k k' then Some a else lookupZ k r
  end.
Definition mem_str (k : str) (l : list str) : bool := existsb (str_eqb k) l.
Fixpoint remove_str (k : str) (l : list str) : list str :=
  match l with [] => [] | x :: r => if str_eqb k x then remove_str k r else x :: remove_str k r end.
Fixpoint remove_key {A} (k : str) (l : list (str * A)) : list (str * A) :=
  match l with
  | [] => []
  | (k', a) :: r => if str_eqb k k' then remove_key k r else (k', a) :: remove_key k r
  end.

(* str(n) for n >= 0 *)
Fixpoint uint_str (u : Decimal.uint) : str :=
  match u with
  | Decimal.Nil => []
  | Decimal.D0 u => 48%Z :: uint_str u | Decimal.D1 u => 49%Z :: uint_str u | Decimal.D2 u => 50%Z :: uint_str u
  | Decimal.D3 u => 51%Z :: uint_str u | Decimal.D4 u => 52%Z :: uint_str u | Decimal.D5 u => 53%Z :: uint_str u
  | Decimal.D6 u => 54%Z :: uint_str u | Decimal.D7 u => 55%Z :: uint_str u | Decimal.D8 u => 56%Z :: uint_str u
  | Decimal.D9 u => 57%Z :: uint_str u
  end.
Definition dec (n : nat) : str := uint_str (Nat.to_uint n).

Definition is_digit (c : Z) : bool := (48 <=? c)%Z && (c <=? 57)%Z.
Definition is_alpha (c : Z) : bool := ((65 <=? c)%Z && (c <=? 90)%Z) || ((97 <=? c)%Z && (c <=? 122)%Z).
(* [$._-] *)
Definition is_punct (c : Z) : bool := (c =? 36)%Z || (c =? 46)%Z || (c =? 95)%Z || (c =? 45)%Z.

(* mlir_lexer._suffix_id (digits, or a letter or one of $._- followed by letters, digits, $._-)
   matching the WHOLE name: the name is
   lexed as one %name / ^name token (the characters following a printed name are never identifier
   characters).  Tied to the translated regex by C04_hint_lexable (ProofsLex.v). *)
Definition id_start (c : Z) : bool := is_alpha c || is_punct c.
Definition id_cont (c : Z) : bool := is_alpha c || is_digit c || is_punct c.
Definition lexable (s : str) : bool :=
  match s with
  | [] => false
  | c :: t => (is_digit c && forallb is_digit t) || (id_start c && forallb id_cont t)
  end.

(* IRWithName.is_valid_name on a LEXED (hence ASCII) name: _VALUE_NAME_PATTERN.fullmatch, a letter
   or one of _$.- followed by word characters or $.- ; on ASCII text the class of word
   characters is the same with or without re.ASCII *)
Definition valid_name (s : str) : bool :=
  match s with
  | [] => false
  | c :: t => id_start c && forallb id_cont t
  end.

Fixpoint take_while {A} (f : A -> bool) (l : list A) : list A :=
  match l with x :: r => if f x then x :: take_while f r else [] | [] => [] end.
Fixpoint drop_while {A} (f : A -> bool) (l : list A) : list A :=
  match l with x :: r => if f x then drop_while f r else l | [] => [] end.

(* _VALUE_NAME_SUFFIX_PATTERN, an underscore and digits at the end: name[:match.start()] *)
Definition strip1 (s : str) : str :=
  let r := rev s in
  match take_while is_digit r, drop_while is_digit r with
  | _ :: _, x :: rest => if (x =? 95)%Z then rev rest else s
  | _, _ => s
  end.
(* proposed: one or more such groups at the end *)
Fixpoint strip_n (fuel : nat) (s : str) : str :=
  match fuel with
  | O => s
  | S f => let s' := strip1 s in if length s' <? length s then strip_n f s' else s
  end.
Definition strip_all (s : str) : str := strip_n (length s) s.

(* Block.is_default_block_name: name.startswith("bb") and name[2:].isdigit() and name[2:] != "" *)
Definition is_default (s : str) : bool :=
  match s with
  | a :: b :: (_ :: _) as t => (a =? 98)%Z && (b =? 98)%Z && forallb is_digit t
  | _ => false
  end.

Record cfg := Cfg {
  fx_strip_all : bool;      (* extract_valid_name removes every trailing _<digits> group *)
  fx_block_default : bool;  (* the printer ignores a block hint of the form bb<digits> *)
  fx_iso_operands : bool;   (* the printer names the operands of an IsolatedFromAbove op before enter_scope *)
  fx_entry_hint : bool      (* the printer does not uniquify the hint of an entry block whose label it omits *)
}.
Definition pinned_cfg : cfg := Cfg false false false false.
Definition repaired_cfg : cfg := Cfg true true true true.

Definition strip (c : cfg) (s : str) : str := if fx_strip_all c then strip_all s else strip1 s.

(* IRWithName.extract_valid_name as used by the name_hint setter, on an ASCII name
   (None = ValueError) *)
Definition store_hint (c : cfg) (s : str) : option str :=
  if valid_name s then Some (strip c s) else None.

(* f"{hint}_{k}" / hint *)
Definition render (h : str) (k : nat) : str :=
  match k with O => h | S _ => h ++ 95%Z :: dec k end.
Definition bb_name (i : nat) : str := 98%Z :: 98%Z :: dec i.

(* ------------------------------------------------------------------------------------------ *)
(* IR skeleton, generic in the leaves: V values, S successor references, L block labels.
     skeleton / parse result:  V = Z * hint,  S = Z,  L = Z * hint
     named tree (the text):    V = str,       S = str, L = option str (None: label omitted)
   `nm` is the opaque operation name; Z.odd nm says that the registered operation class has the
   IsolatedFromAbove trait.  Attributes, property values and types are opaque atoms. *)

Inductive atom := ABare (k : Z) | AStr (k : Z) | AAt (k : Z).
Definition entry := (atom * option atom)%type.     (* key, value (None: UnitAttr, printed as the key alone) *)

Inductive op (V S L : Type) : Type :=
| Op (nm : Z) (res : list V) (args : list V) (succs : list S)
     (props : list entry) (regs : list (list (block V S L))) (attrs : list entry)
     (ityp otyp : list atom)
with block (V S L : Type) : Type :=
| Bk (lab : L) (bargs : list (V * atom)) (ops : list (op V S L)).
Arguments Op {V S L}.
Arguments Bk {V S L}.

Definition is_iso (nm : Z) : bool := Z.odd nm.

Section Map.
Context {V S L V' S' L' : Type} (fv : V -> V') (fs : S -> S') (fl : L -> L').
Fixpoint tmap (o : op V S L) : op V' S' L' :=
  match o with
  | Op nm res args succs props regs attrs it ot =>
      Op nm (map fv res) (map fv args) (map fs succs) props
         (map (map tmap_block) regs) attrs it ot
  end
with tmap_block (b : block V S L) : block V' S' L' :=
  match b with
  | Bk lab bargs ops => Bk (fl lab) (map (fun a => (fv (fst a), snd a)) bargs) (map tmap ops)
  end.
End Map.

(* print_region: the entry block is printed with its label iff it has arguments or no operation *)
Definition entry_printed {V S L} (b : block V S L) : bool :=
  match b with Bk _ bargs ops => match bargs, ops with [], _ :: _ => false | _, _ => true end end.

(* ------------------------------------------------------------------------------------------ *)
(* schedule *)

Inductive act (V S L : Type) : Type :=
| Ares (v : V)          (* printer: _print_results -> print_ssa_value *)
| Apre (v : V)          (* operand of an IsolatedFromAbove op, before enter_scope (repaired printer only) *)
| Aenter                (* printer: enter_scope *)
| Aarg (v : V)          (* printer: print_operands -> print_ssa_value *)
| Asucc (s : S)         (* printer: print_block_name ; parser: parse_optional_successor *)
| Arbegin (ls : list L) (eprinted : bool)
                        (* printer: print_region names every block ; parser: opens a value/block scope *)
| Alabel (l : L) (printed : bool)
                        (* printer: print_block ; parser: _parse_block label / unlabeled entry block *)
| Abarg (v : V)         (* printer: print_block_argument ; parser: block argument definition *)
| Arend                 (* parser: end of parse_optional_region *)
| Aexit                 (* printer: exit_scope *)
| Aarg_post (v : V)     (* parser: resolve_operands, after the regions *)
| Ares_post (v : V).    (* parser: _register_ssa_definition of the results, last *)
Arguments Ares {V S L}. Arguments Apre {V S L}. Arguments Aenter {V S L}. Arguments Aarg {V S L}.
Arguments Asucc {V S L}. Arguments Arbegin {V S L}. Arguments Alabel {V S L}. Arguments Abarg {V S L}.
Arguments Arend {V S L}. Arguments Aexit {V S L}. Arguments Aarg_post {V S L}. Arguments Ares_post {V S L}.

Section Sched.
Context {V S L : Type}.
Definition lab_of (b : block V S L) : L := match b with Bk l _ _ => l end.

Fixpoint sched (o : op V S L) : list (act V S L) :=
  match o with
  | Op nm res args succs props regs attrs it ot =>
      let iso := is_iso nm in
      map Ares res
      ++ (if iso then map Apre args ++ [Aenter] else [])
      ++ map Aarg args
      ++ map Asucc succs
      ++ flat_map (fun r : list (block V S L) =>
                     let ep := match r with b :: _ => entry_printed b | [] => true end in
                     Arbegin (map lab_of r) ep
                     :: (fix blocks (bs : list (block V S L)) (first : bool) : list (act V S L) :=
                           match bs with
                           | [] => []
                           | b :: bs' => sched_block b (if first then ep else true) ++ blocks bs' false
                           end) r true
                     ++ [Arend]) regs
      ++ (if iso then [Aexit] else [])
      ++ map Aarg_post args
      ++ map Ares_post res
  end
with sched_block (b : block V S L) (printed : bool) : list (act V S L) :=
  match b with
  | Bk lab bargs ops =>
      Alabel lab printed :: map (fun a => Abarg (fst a)) bargs ++ flat_map sched ops
  end.
End Sched.

(* ------------------------------------------------------------------------------------------ *)
(* M1 printer *)

Record frame := Frame {
  f_vn : list (str * nat);    (* _ssa_names[-1] *)
  f_bn : list (str * nat);    (* _block_names[-1] *)
  f_nv : nat;                 (* _next_valid_name_id[-1] *)
  f_nb : nat                  (* _next_valid_block_id[-1] *)
}.
Record pst := Pst {
  p_vals : list (Z * str);    (* _ssa_values *)
  p_blks : list (Z * str);    (* _blocks *)
  p_top : frame;
  p_rest : list frame
}.
Definition frame0 : frame := Frame [] [] 0 0.
Definition pst0 : pst := Pst [] [] frame0 [].

Definition cnt (h : str) (l : list (str * nat)) : nat :=
  match lookup h l with Some k => k | None => 0 end.

(* the hint the printer acts on: `if value.name_hint:` is false for None and for "" *)
Definition eff_hint (h : hint) : option str :=
  match h with Some (c :: t) => Some (c :: t) | _ => None end.

(* print_ssa_value *)
Definition pv (v : Z) (h : hint) (p : pst) : pst :=
  match lookupZ v (p_vals p) with
  | Some _ => p
  | None =>
      let f := p_top p in
      match eff_hint h with
      | Some hs =>
          let k := cnt hs (f_vn f) in
          Pst ((v, render hs k) :: p_vals p) (p_blks p)
              (Frame ((hs, S k) :: f_vn f) (f_bn f) (f_nv f) (f_nb f)) (p_rest p)
      | None =>
          Pst ((v, dec (f_nv f)) :: p_vals p) (p_blks p)
              (Frame (f_vn f) (f_bn f) (S (f_nv f)) (f_nb f)) (p_rest p)
      end
  end.

(* the block hint the printer acts on *)
Definition eff_bhint (c : cfg) (use_hint : bool) (h : hint) : option str :=
  if use_hint then
    match eff_hint h with
    | Some hs => if fx_block_default c && is_default hs then None else Some hs
    | None => None
    end
  else None.

(* _populate_block_name (the block is not in _blocks) *)
Definition pb (c : cfg) (b : Z) (h : hint) (idx : option nat) (use_hint : bool) (p : pst) : pst :=
  let f := p_top p in
  match eff_bhint c use_hint h with
  | Some hs =>
      let k := cnt hs (f_bn f) in
      Pst (p_vals p) ((b, render hs k) :: p_blks p)
          (Frame (f_vn f) ((hs, S k) :: f_bn f) (f_nv f) (f_nb f)) (p_rest p)
  | None =>
      match idx with
      | Some i => Pst (p_vals p) ((b, bb_name i) :: p_blks p) f (p_rest p)
      | None =>
          Pst (p_vals p) ((b, bb_name (f_nb f)) :: p_blks p)
              (Frame (f_vn f) (f_bn f) (f_nv f) (S (f_nb f))) (p_rest p)
      end
  end.
Definition pb_if_new (c : cfg) (b : Z) (h : hint) (idx : option nat) (use_hint : bool) (p : pst) : pst :=
  match lookupZ b (p_blks p) with Some _ => p | None => pb c b h idx use_hint p end.

(* print_region: for block_index, block in enumerate(region.blocks): populate if new *)
Fixpoint pb_all (c : cfg) (ls : list (Z * hint)) (i : nat) (eprinted : bool) (p : pst) : pst :=
  match ls with
  | [] => p
  | (b, h) :: r =>
      let use_hint := negb (fx_entry_hint c && (i =? 0) && negb eprinted) in
      pb_all c r (S i) eprinted (pb_if_new c b h (Some i) use_hint p)
  end.

Definition p_enter (p : pst) : pst := Pst (p_vals p) (p_blks p) (p_top p) (p_top p :: p_rest p).
Definition p_exit (p : pst) : pst :=
  match p_rest p with
  | f :: r => Pst (p_vals p) (p_blks p) f r
  | [] => p            (* unreachable on a schedule: every Aexit follows its Aenter *)
  end.

Definition sact := act (Z * hint) Z (Z * hint).

Definition stepP (c : cfg) (a : sact) (p : pst) : pst :=
  match a with
  | Ares (v, h) => pv v h p
  | Apre (v, h) => if fx_iso_operands c then pv v h p else p
  | Aenter => p_enter p
  | Aarg (v, h) => pv v h p
  | Asucc b => pb_if_new c b None None true p
        (* _get_block_name on a cache miss; the hint of the block is not available at a successor
           leaf of the skeleton: on IR that verifies the successor is a block of the region being
           printed and has been named by Arbegin, so the miss branch is unreachable *)
  | Arbegin ls ep => pb_all c ls 0 ep p
  | Alabel (b, h) printed => if printed then pb_if_new c b h None true p else p
  | Abarg (v, h) => pv v h p
  | Arend => p
  | Aexit => p_exit p
  | Aarg_post _ => p
  | Ares_post _ => p
  end.
Definition runP (c : cfg) (l : list sact) (p : pst) : pst := fold_left (fun p a => stepP c a p) l p.

Definition name_of (p : pst) (v : Z) : str := match lookupZ v (p_vals p) with Some n => n | None => [] end.
Definition bname_of (p : pst) (b : Z) : str := match lookupZ b (p_blks p) with Some n => n | None => [] end.

Definition skel := op (Z * hint) Z (Z * hint).
Definition ntree := op str str (option str).

(* _ssa_values and _blocks are only ever extended, so the text shows the final binding of every
   value and block *)
Definition name_block_lab (p : pst) (printed : bool) (l : Z * hint) : option str :=
  if printed then Some (bname_of p (fst l)) else None.

Section NameTree.
Variable p : pst.
Fixpoint name_op (o : skel) : ntree :=
  match o with
  | Op nm res args succs props regs attrs it ot =>
      Op nm (map (fun v => name_of p (fst v)) res) (map (fun v => name_of p (fst v)) args)
         (map (bname_of p) succs) props
         (map (fun r : list (block (Z * hint) Z (Z * hint)) =>
                 (fix blocks (bs : list (block (Z * hint) Z (Z * hint))) (first : bool) : list (block str str (option str)) :=
                    match bs with
                    | [] => []
                    | b :: bs' =>
                        name_block b (if first then entry_printed b else true) :: blocks bs' false
                    end) r true) regs)
         attrs it ot
  end
with name_block (b : block (Z * hint) Z (Z * hint)) (printed : bool) : block str str (option str) :=
  match b with
  | Bk lab bargs ops =>
      Bk (name_block_lab p printed lab) (map (fun a => (name_of p (fst (fst a)), snd a)) bargs) (map name_op ops)
  end.
End NameTree.

Definition print_names (c : cfg) (ir : skel) : ntree := name_op (runP c (sched ir) pst0) ir.

(* ------------------------------------------------------------------------------------------ *)
(* M1 parser *)

Inductive perr :=
| ELex            (* a printed name is not one lexer token *)
| ESyntax         (* token-level failure (M3) *)
| EAlreadyDefined (* SSA value %n is already defined *)
| ERedeclared     (* re-declaration of block *)
| EMissingBlocks  (* region ends with missing block declarations *)
| EUndefined      (* values used but not defined *)
| EInternal.      (* scope stack underflow: unreachable on a schedule *)

Inductive res (A : Type) := Ok (a : A) | Err (e : perr).
Arguments Ok {A}. Arguments Err {A}.

Record qst := Qst {
  q_next : Z;                                 (* next object identity *)
  q_vals : list (str * Z);                    (* ssa_values *)
  q_vstack : list (list (str * Z));           (* old_ssa_values of the open regions *)
  q_blocks : list (str * (Z * bool));         (* blocks: name -> (block, has a definition span) *)
  q_fwdb : list str;                          (* forward_block_references (keys) *)
  q_bstack : list (list (str * (Z * bool)) * list str);
  q_fwd : list (str * Z)                      (* forward_ssa_references *)
}.
Definition qst0 : qst := Qst 0 [] [] [] [] [] [].

(* leaves of the parse result *)
Inductive out := OV (id : Z) (h : hint) | OB (id : Z) (h : hint).

Definition val_hint (c : cfg) (n : str) : hint := if valid_name n then Some (strip c n) else None.
Definition blk_hint (c : cfg) (n : str) : hint :=
  if valid_name n && negb (is_default n) then Some (strip c n) else None.

(* _register_ssa_definition *)
Definition q_def (c : cfg) (n : str) (q : qst) : res (qst * out) :=
  match lookup n (q_vals q) with
  | Some _ => Err EAlreadyDefined
  | None =>
      match lookup n (q_fwd q) with
      | Some id =>
          Ok (Qst (q_next q) ((n, id) :: q_vals q) (q_vstack q) (q_blocks q) (q_fwdb q) (q_bstack q)
                  (remove_key n (q_fwd q)), OV id (val_hint c n))
      | None =>
          let id := q_next q in
          Ok (Qst (id + 1) ((n, id) :: q_vals q) (q_vstack q) (q_blocks q) (q_fwdb q) (q_bstack q)
                  (q_fwd q), OV id (val_hint c n))
      end
  end.

(* resolve_operand *)
Definition q_use (n : str) (q : qst) : res (qst * out) :=
  match lookup n (q_fwd q) with
  | Some id => Ok (q, OV id None)
  | None =>
      match lookup n (q_vals q) with
      | Some id => Ok (q, OV id None)
      | None =>
          let id := q_next q in
          Ok (Qst (id + 1) (q_vals q) (q_vstack q) (q_blocks q) (q_fwdb q) (q_bstack q)
                  ((n, id) :: q_fwd q), OV id None)
      end
  end.

(* parse_optional_successor *)
Definition q_succ (n : str) (q : qst) : res (qst * out) :=
  match lookup n (q_blocks q) with
  | Some (id, _) => Ok (q, OB id None)
  | None =>
      let id := q_next q in
      Ok (Qst (id + 1) (q_vals q) (q_vstack q) ((n, (id, false)) :: q_blocks q) (n :: q_fwdb q)
              (q_bstack q) (q_fwd q), OB id None)
  end.

(* _parse_block label; None: the unlabeled entry block of parse_optional_region *)
Definition q_label (c : cfg) (l : option str) (q : qst) : res (qst * out) :=
  match l with
  | None =>
      let id := q_next q in
      Ok (Qst (id + 1) (q_vals q) (q_vstack q) (q_blocks q) (q_fwdb q) (q_bstack q) (q_fwd q), OB id None)
  | Some n =>
      match lookup n (q_blocks q) with
      | None =>
          let id := q_next q in
          Ok (Qst (id + 1) (q_vals q) (q_vstack q) ((n, (id, true)) :: q_blocks q) (q_fwdb q)
                  (q_bstack q) (q_fwd q), OB id (blk_hint c n))
      | Some (id, true) => Err ERedeclared
      | Some (id, false) =>
          Ok (Qst (q_next q) (q_vals q) (q_vstack q) ((n, (id, true)) :: q_blocks q)
                  (remove_str n (q_fwdb q)) (q_bstack q) (q_fwd q), OB id (blk_hint c n))
      end
  end.

Definition q_rbegin (q : qst) : qst :=
  Qst (q_next q) (q_vals q) (q_vals q :: q_vstack q) [] [] ((q_blocks q, q_fwdb q) :: q_bstack q) (q_fwd q).
Definition q_rend (q : qst) : res qst :=
  match q_fwdb q with
  | _ :: _ => Err EMissingBlocks
  | [] =>
      match q_vstack q, q_bstack q with
      | vs :: vst, (bl, fb) :: bst => Ok (Qst (q_next q) vs vst bl fb bst (q_fwd q))
      | _, _ => Err EInternal
      end
  end.

Definition nact := act str str (option str).

Definition stepQ (c : cfg) (a : nact) (q : qst) : res (qst * list out) :=
  let one (r : res (qst * out)) : res (qst * list out) :=
    match r with Ok (q', o) => Ok (q', [o]) | Err e => Err e end in
  match a with
  | Asucc n => one (q_succ n q)
  | Arbegin _ _ => Ok (q_rbegin q, [])
  | Alabel l _ => one (q_label c l q)
  | Abarg n => one (q_def c n q)
  | Arend => match q_rend q with Ok q' => Ok (q', []) | Err e => Err e end
  | Aarg_post n => one (q_use n q)
  | Ares_post n => one (q_def c n q)
  | Ares _ | Apre _ | Aenter | Aarg _ | Aexit => Ok (q, [])
  end.

Fixpoint runQ (c : cfg) (l : list nact) (q : qst) : res (qst * list out) :=
  match l with
  | [] => Ok (q, [])
  | a :: r =>
      match stepQ c a q with
      | Err e => Err e
      | Ok (q1, o1) =>
          match runQ c r q1 with
          | Err e => Err e
          | Ok (q2, o2) => Ok (q2, o1 ++ o2)
          end
      end
  end.

(* rebuild the tree from the parser's leaves, which come in the parser's order:
   successors, regions, operands, results *)
Definition take_outs (n : nat) (l : list out) : option (list out * list out) :=
  if n <=? length l then Some (firstn n l, skipn n l) else None.
Definition ov (o : out) : Z * hint := match o with OV i h => (i, h) | OB i h => (i, h) end.

Fixpoint refill (o : ntree) (l : list out) : option (skel * list out) :=
  match o with
  | Op nm res args succs props regs attrs it ot =>
      match take_outs (length succs) l with
      | None => None
      | Some (os, l1) =>
          match (fix regions (rs : list (list (block str str (option str)))) (l : list out)
                   : option (list (list (block (Z * hint) Z (Z * hint))) * list out) :=
                   match rs with
                   | [] => Some ([], l)
                   | r :: rs' =>
                       match (fix blocks (bs : list (block str str (option str))) (l : list out)
                                : option (list (block (Z * hint) Z (Z * hint)) * list out) :=
                                match bs with
                                | [] => Some ([], l)
                                | b :: bs' =>
                                    match refill_block b l with
                                    | None => None
                                    | Some (b', l') =>
                                        match blocks bs' l' with
                                        | None => None
                                        | Some (r', l'') => Some (b' :: r', l'')
                                        end
                                    end
                                end) r l with
                       | None => None
                       | Some (r', l') =>
                           match regions rs' l' with
                           | None => None
                           | Some (rs'', l'') => Some (r' :: rs'', l'')
                           end
                       end
                   end) regs l1 with
          | None => None
          | Some (regs', l2) =>
              match take_outs (length args) l2 with
              | None => None
              | Some (oa, l3) =>
                  match take_outs (length res) l3 with
                  | None => None
                  | Some (orr, l4) =>
                      Some (Op nm (map ov orr) (map ov oa) (map (fun o => fst (ov o)) os) props regs' attrs it ot, l4)
                  end
              end
          end
      end
  end
with refill_block (b : block str str (option str)) (l : list out)
  : option (block (Z * hint) Z (Z * hint) * list out) :=
  match b with
  | Bk lab bargs ops =>
      match l with
      | [] => None
      | ol :: l1 =>
          match take_outs (length bargs) l1 with
          | None => None
          | Some (oa, l2) =>
              match (fix opsf (os : list ntree) (l : list out) : option (list skel * list out) :=
                       match os with
                       | [] => Some ([], l)
                       | o :: os' =>
                           match refill o l with
                           | None => None
                           | Some (o', l') =>
                               match opsf os' l' with
                               | None => None
                               | Some (r, l'') => Some (o' :: r, l'')
                               end
                           end
                       end) ops l2 with
              | None => None
              | Some (ops', l3) =>
                  Some (Bk (ov ol) (map (fun x => (ov (fst x), snd (snd x))) (combine oa bargs)) ops', l3)
              end
          end
      end
  end.

(* the name hints of the parsed values (set at the definition) seen from the uses *)
Fixpoint hint_table (l : list out) : list (Z * hint) :=
  match l with
  | [] => []
  | OV i (Some h) :: r => (i, Some h) :: hint_table r
  | _ :: r => hint_table r
  end.
Definition fill_hint (t : list (Z * hint)) (v : Z * hint) : Z * hint :=
  match snd v with
  | Some _ => v
  | None => match lookupZ (fst v) t with Some h => (fst v, h) | None => v end
  end.

Fixpoint names_of_acts (l : list nact) : list str :=
  match l with
  | [] => []
  | a :: r =>
      match a with
      | Ares n | Aarg n | Abarg n => [n]
      | Asucc n => [n]
      | Alabel (Some n) _ => [n]
      | _ => []
      end ++ names_of_acts r
  end.

(* parse_module on the named tree of one top-level operation *)
Definition parse_names (c : cfg) (t : ntree) : res skel :=
  let s := sched t in
  if negb (forallb lexable (names_of_acts s)) then Err ELex else
  match runQ c s qst0 with
  | Err e => Err e
  | Ok (q, outs) =>
      match q_fwd q with
      | _ :: _ => Err EUndefined
      | [] =>
          match refill t outs with
          | Some (o, []) => Ok (tmap (fill_hint (hint_table outs)) (fun s => s) (fun l => l) o)
          | _ => Err EInternal
          end
      end
  end.

(* ------------------------------------------------------------------------------------------ *)
(* M3: generic operation syntax at token level.
   Tokens are the MLIR lexer's tokens; identifiers and literals other than %names and ^names are
   opaque codes.  Conventions for the codes (fixed by the harness when it reads the real token stream):
     TStrL k, k < 100     string literal that is the name of a registered operation
     TStrL k, k >= 100    any other string literal (attribute value or quoted key)
     TBare k, k < 100     bare identifier that is not a type keyword (attribute key)
     TBare k, k >= 100    bare identifier that is a builtin type keyword (i32, index, ...)
     TAt k                @symbol
   print_op_with_default_format / print_region / print_block / print_function_type  ->  toks_op
   parse_operation (generic branch) / _parse_generic_operation / parse_region_list /
   parse_optional_region / _parse_block / parse_function_type                         ->  parse_op *)

Inductive tok :=
| TPct (s : str) | TCaret (s : str) | TBare (k : Z) | TStrL (k : Z) | TAt (k : Z)
| TLP | TRP | TLB | TRB | TLS | TRS | TLT | TGT | TComma | TColon | TEq | TArrow.

Definition atom_tok (a : atom) : tok :=
  match a with ABare k => TBare k | AStr k => TStrL k | AAt k => TAt k end.
Definition is_type_atom (a : atom) : bool := match a with ABare k => (100 <=? k)%Z | _ => false end.
Definition is_key_atom (a : atom) : bool :=
  match a with ABare _ => true | AStr _ => true | AAt _ => false end.
Definition is_val_atom (a : atom) : bool :=
  match a with ABare k => (100 <=? k)%Z | AStr k => (100 <=? k)%Z | AAt _ => true end.
Definition atom_eqb (a b : atom) : bool :=
  match a, b with
  | ABare x, ABare y | AStr x, AStr y | AAt x, AAt y => Z.eqb x y
  | _, _ => false
  end.

Fixpoint sep_by (l : list (list tok)) : list tok :=
  match l with
  | [] => []
  | [x] => x
  | x :: r => x ++ TComma :: sep_by r
  end.

Definition toks_entry (e : entry) : list tok :=
  match e with
  | (k, None) => [atom_tok k]
  | (k, Some v) => [atom_tok k; TEq; atom_tok v]
  end.
Definition toks_dict (es : list entry) : list tok := TLB :: sep_by (map toks_entry es) ++ [TRB].
Definition toks_types (l : list atom) : list tok := TLP :: sep_by (map (fun a => [atom_tok a]) l) ++ [TRP].

Fixpoint toks_op (o : ntree) : list tok :=
  match o with
  | Op nm res args succs props regs attrs it ot =>
      (match res with [] => [] | _ => sep_by (map (fun n => [TPct n]) res) ++ [TEq] end)
      ++ [TStrL nm; TLP] ++ sep_by (map (fun n => [TPct n]) args) ++ [TRP]
      ++ (match succs with [] => [] | _ => TLS :: sep_by (map (fun n => [TCaret n]) succs) ++ [TRS] end)
      ++ (match props with [] => [] | _ => TLT :: toks_dict props ++ [TGT] end)
      ++ (match regs with
          | [] => []
          | _ => TLP :: sep_by (map (fun r : list (block str str (option str)) =>
                                       TLB :: flat_map toks_block r ++ [TRB]) regs) ++ [TRP]
          end)
      ++ (match attrs with [] => [] | _ => toks_dict attrs end)
      ++ [TColon] ++ toks_types it ++ [TArrow]
      ++ (match ot with [t] => [atom_tok t] | _ => toks_types ot end)
  end
with toks_block (b : block str str (option str)) : list tok :=
  match b with
  | Bk lab bargs ops =>
      (match lab with
       | None => []
       | Some n =>
           TCaret n ::
           (match bargs with
            | [] => []
            | _ => TLP :: sep_by (map (fun a : str * atom => [TPct (fst a); TColon; atom_tok (snd a)]) bargs) ++ [TRP]
            end) ++ [TColon]
       end) ++ flat_map toks_op ops
  end.

(* --- parser --- *)
(* parse_comma_separated_list after the opening delimiter: `close`, or elements separated by commas *)
Fixpoint parse_commas {A} (pe : list tok -> option (A * list tok)) (close : tok -> bool) (fuel : nat)
  (ts : list tok) : option (list A * list tok) :=
  match fuel with
  | O => None
  | S f =>
      match pe ts with
      | None => None
      | Some (a, ts1) =>
          match ts1 with
          | TComma :: ts2 =>
              match parse_commas pe close f ts2 with
              | Some (r, ts3) => Some (a :: r, ts3)
              | None => None
              end
          | t :: ts2 => if close t then Some ([a], ts2) else None
          | [] => None
          end
      end
  end.
Definition parse_list {A} (pe : list tok -> option (A * list tok)) (close : tok -> bool) (ts : list tok)
  : option (list A * list tok) :=
  match ts with
  | t :: ts' => if close t then Some ([], ts') else parse_commas pe close (length ts) ts
  | [] => None
  end.
Definition is_rp (t : tok) : bool := match t with TRP => true | _ => false end.
Definition is_rb (t : tok) : bool := match t with TRB => true | _ => false end.
Definition is_rs (t : tok) : bool := match t with TRS => true | _ => false end.

Definition tok_atom (t : tok) : option atom :=
  match t with TBare k => Some (ABare k) | TStrL k => Some (AStr k) | TAt k => Some (AAt k) | _ => None end.
Definition p_pct (ts : list tok) : option (str * list tok) :=
  match ts with TPct n :: r => Some (n, r) | _ => None end.
Definition p_caret (ts : list tok) : option (str * list tok) :=
  match ts with TCaret n :: r => Some (n, r) | _ => None end.
Definition p_type (ts : list tok) : option (atom * list tok) :=
  match ts with
  | t :: r => match tok_atom t with Some a => if is_type_atom a then Some (a, r) else None | None => None end
  | [] => None
  end.
(* _parse_attribute_entry *)
Definition p_entry (ts : list tok) : option (entry * list tok) :=
  match ts with
  | t :: r =>
      match tok_atom t with
      | Some k =>
          if is_key_atom k then
            match r with
            | TEq :: v :: r' =>
                match tok_atom v with
                | Some a => if is_val_atom a then Some ((k, Some a), r') else None
                | None => None
                end
            | _ => Some ((k, None), r)
            end
          else None
      | None => None
      end
  | [] => None
  end.
Fixpoint dup_key (l : list entry) : bool :=
  match l with
  | [] => false
  | (k, _) :: r => existsb (fun e => atom_eqb k (fst e)) r || dup_key r
  end.
Definition p_dict (ts : list tok) : option (list entry * list tok) :=
  match ts with
  | TLB :: r =>
      match parse_list p_entry is_rb r with
      | Some (es, r') => if dup_key es then None else Some (es, r')
      | None => None
      end
  | _ => None
  end.
Definition p_barg (ts : list tok) : option ((str * atom) * list tok) :=
  match ts with
  | TPct n :: TColon :: r => match p_type r with Some (a, r') => Some ((n, a), r') | None => None end
  | _ => None
  end.

Definition op_start (t : tok) : bool := match t with TPct _ | TStrL _ => true | _ => false end.

(* a sequence of items each recognised by its first token *)
Fixpoint parse_seq {A} (pe : list tok -> option (A * list tok)) (start : tok -> bool) (fuel : nat) (ts : list tok)
  : option (list A * list tok) :=
  match fuel with
  | O => None
  | S f =>
      match ts with
      | t :: _ =>
          if start t then
            match pe ts with
            | Some (a, ts1) =>
                match parse_seq pe start f ts1 with
                | Some (r, ts2) => Some (a :: r, ts2)
                | None => None
                end
            | None => None
            end
          else Some ([], ts)
      | [] => Some ([], ts)
      end
  end.

Definition is_caret (t : tok) : bool := match t with TCaret _ => true | _ => false end.

Section WithOp.
(* the parser of nested operations *)
Variable po : list tok -> option (ntree * list tok).

Definition p_ops (ts : list tok) : option (list ntree * list tok) := parse_seq po op_start (length ts) ts.

(* _parse_block *)
Definition p_block (ts : list tok) : option (block str str (option str) * list tok) :=
  match ts with
  | TCaret n :: r =>
      let after_args :=
        match r with
        | TLP :: r1 => parse_list p_barg is_rp r1
        | _ => Some ([], r)
        end in
      match after_args with
      | Some (bs, TColon :: r3) =>
          match p_ops r3 with
          | Some (ops, r4) => Some (Bk (Some n) bs ops, r4)
          | None => None
          end
      | _ => None
      end
  | _ => None
  end.

(* parse_optional_region *)
Definition p_region (ts : list tok) : option (list (block str str (option str)) * list tok) :=
  match ts with
  | TLB :: r =>
      let entry :=
        match r with
        | t :: _ =>
            if is_caret t || is_rb t then Some ([], r)
            else match p_ops r with
                 | Some (ops, r1) => Some ([Bk None [] ops], r1)
                 | None => None
                 end
        | [] => None
        end in
      match entry with
      | Some (b0, r1) =>
          match parse_seq p_block is_caret (length r1) r1 with
          | Some (bs, TRB :: r2) => Some (b0 ++ bs, r2)
          | _ => None
          end
      | None => None
      end
  | _ => None
  end.

Definition is_eq (t : tok) : bool := match t with TEq => true | _ => false end.

(* parse_operation, generic branch *)
Definition p_op_body (ts : list tok) : option (ntree * list tok) :=
  let after_results :=
    match ts with
    | TPct _ :: _ => parse_commas p_pct is_eq (length ts) ts
    | _ => Some ([], ts)
    end in
  match after_results with
  | Some (res, TStrL nm :: TLP :: r0) =>
      if (nm <? 100)%Z then
      match parse_list p_pct is_rp r0 with
      | Some (args, r1) =>
          let after_succ :=
            match r1 with
            | TLS :: r1' => parse_list p_caret is_rs r1'
            | _ => Some ([], r1)
            end in
          match after_succ with
          | Some (succs, r2) =>
              let after_props :=
                match r2 with
                | TLT :: r2' =>
                    match p_dict r2' with
                    | Some (ps, TGT :: r2'') => Some (ps, r2'')
                    | _ => None
                    end
                | _ => Some ([], r2)
                end in
              match after_props with
              | Some (props, r3) =>
                  let after_regs :=
                    match r3 with
                    | TLP :: r3' => parse_list p_region is_rp r3'
                    | _ => Some ([], r3)
                    end in
                  match after_regs with
                  | Some (regs, r4) =>
                      let after_attrs :=
                        match r4 with
                        | TLB :: _ => p_dict r4
                        | _ => Some ([], r4)
                        end in
                      match after_attrs with
                      | Some (attrs, TColon :: TLP :: r5) =>
                          match parse_list p_type is_rp r5 with
                          | Some (it, TArrow :: r6) =>
                              let outs :=
                                match r6 with
                                | TLP :: r6' => parse_list p_type is_rp r6'
                                | _ => match p_type r6 with Some (a, r7) => Some ([a], r7) | None => None end
                                end in
                              match outs with
                              | Some (ot, r8) =>
                                  if (length args =? length it) &&
                                     (match res with [] => true | _ => length res =? length ot end)
                                  then Some (Op nm res args succs props regs attrs it ot, r8)
                                  else None
                              | None => None
                              end
                          | _ => None
                          end
                      | _ => None
                      end
                  | None => None
                  end
              | None => None
              end
          | None => None
          end
      | None => None
      end
      else None
  | _ => None
  end.
End WithOp.

Fixpoint parse_op (fuel : nat) (ts : list tok) : option (ntree * list tok) :=
  match fuel with
  | O => None
  | S f => p_op_body (parse_op f) ts
  end.

(* parse_module: operations up to the end of the input; a single builtin.module is the result, anything
   else is wrapped into an implicit module *)
Definition module_nm : Z := 7%Z.
Definition parse_toks (ts : list tok) : option ntree :=
  match parse_seq (parse_op (length ts)) (fun _ => true) (length ts) ts with
  | Some ([Op nm res args succs props regs attrs it ot as o], []) =>
      if (nm =? module_nm)%Z then Some o
      else Some (Op module_nm [] [] [] [] [[Bk None [] [o]]] [] [] [])
  | Some (_ :: _ as ops, []) => Some (Op module_nm [] [] [] [] [[Bk None [] ops]] [] [] [])
  | _ => None
  end.

(* the whole pipeline: text (tokens) of a skeleton, and back *)
Definition print_ir (c : cfg) (ir : skel) : list tok := toks_op (print_names c ir).
Definition parse_ir (c : cfg) (ts : list tok) : res skel :=
  match parse_toks ts with
  | Some t => parse_names c t
  | None => Err ESyntax
  end.
