(* C04/Enc.v -- encoders of model results into Base/Show.v `sx` for the correspondence check. *)
From Coq Require Import ZArith List Bool Arith.
From XV Require Import Base.Show C04.Model.
Import ListNotations.

Definition sStr (s : str) : sx := L (map I s).
Definition sHint (h : hint) : sx := match h with None => I (-1) | Some s => sStr s end.

(* printed names and labels in text order *)
Fixpoint text_names (l : list nact) : list sx :=
  match l with
  | [] => []
  | a :: r =>
      match a with
      | Ares n | Aarg n | Abarg n => [L [I 0; sStr n]]
      | Asucc n => [L [I 1; sStr n]]
      | Alabel (Some n) _ => [L [I 1; sStr n]]
      | _ => []
      end ++ text_names r
  end.

(* object identities renumbered by first appearance *)
Definition canon_id (m : list (Z * Z)) (nx : Z) (i : Z) : Z * list (Z * Z) * Z :=
  match lookupZ i m with
  | Some k => (k, m, nx)
  | None => (nx, (i, nx) :: m, (nx + 1)%Z)
  end.

(* leaves of a skeleton in text order: kind, canonical id, hint (definitions only) *)
Fixpoint text_leaves (l : list sact) (m : list (Z * Z)) (nx : Z) : list sx :=
  match l with
  | [] => []
  | a :: r =>
      match a with
      | Ares (v, h) => let '(k, m', nx') := canon_id m nx v in L [I 0; I k; sHint (eff_hint h)] :: text_leaves r m' nx'
      | Abarg (v, h) => let '(k, m', nx') := canon_id m nx v in L [I 1; I k; sHint (eff_hint h)] :: text_leaves r m' nx'
      | Aarg (v, _) => let '(k, m', nx') := canon_id m nx v in L [I 2; I k] :: text_leaves r m' nx'
      | Asucc b => let '(k, m', nx') := canon_id m nx b in L [I 3; I k] :: text_leaves r m' nx'
      | Alabel (b, h) pr => let '(k, m', nx') := canon_id m nx b in L [I 4; I k; sHint (eff_hint h)] :: text_leaves r m' nx'
      | _ => text_leaves r m nx
      end
  end.

Definition perr_code (e : perr) : Z := 1.     (* every parser failure is a ParseError *)

Fixpoint names_eqb (a b : list str) : bool :=
  match a, b with
  | [], [] => true
  | x :: a', y :: b' => str_eqb x y && names_eqb a' b'
  | _, _ => false
  end.

(* one M1 case: the printed names, the outcome of parsing the text, and whether every printed name
   is one lexer token:
   (0, leaves of the parsed IR, the parsed IR prints the same names?) or (-1, error class) *)
Definition c04_m1 (c : cfg) (ir : skel) : sx :=
  let t := print_names c ir in
  L [ L (text_names (sched t));
      match parse_names c t with
      | Err e => L [I (-1); I (perr_code e)]
      | Ok ir' =>
          L [I 0; L (text_leaves (sched ir') [] 0);
             sB (names_eqb (names_of_acts (sched (print_names c ir'))) (names_of_acts (sched t)))]
      end;
      sB (forallb lexable (names_of_acts (sched t))) ].

(* extract_valid_name on an ASCII string: -1 = ValueError *)
Definition c04_store (c : cfg) (s : str) : sx :=
  match store_hint c s with None => I (-1) | Some h => sStr h end.
Definition c04_namefns (c : cfg) (s : str) : sx :=
  L [c04_store c s; sB (valid_name s); sB (is_default s); sB (lexable s)].

(* monomorphic constructors for generated case files (fast elaboration); hints are indices into a
   table `h` that the case file defines once *)
Definition sk_op (nm : Z) (res args : list (Z * hint)) (succs : list Z)
  (regs : list (list (block (Z * hint) Z (Z * hint)))) : skel :=
  Op nm res args succs [] regs [] [] [].
Definition sk_bk_ (hh : Z -> hint) (b : Z) (k : Z) (bargs : list (Z * hint)) (ops : list skel)
  : block (Z * hint) Z (Z * hint) :=
  Bk (b, hh k) (map (fun a => (a, ABare 0%Z)) bargs) ops.
Definition vh_ (hh : Z -> hint) (v : Z) (k : Z) : Z * hint := (v, hh k).
Definition hs (s : str) : hint := Some s.
Definition hn : hint := None.
(* n copies of c followed by s *)
Definition rep (c : Z) (n : Z) (s : str) : str := repeat c (Z.to_nat n) ++ s.

(* results are compared through a hash (reading long strings back from coqc is slow); the verbose
   form c04_m1 is used when a case is replayed *)
Definition hmod : Z := 2305843009213693951%Z.
Definition hstep (h x : Z) : Z := ((h * 1000003 + (x mod hmod) + 7) mod hmod)%Z.
Fixpoint hsx (s : sx) (h : Z) : Z :=
  match s with
  | I z => hstep (hstep h 1) z
  | L l => hstep ((fix go (l : list sx) (h : Z) : Z := match l with [] => h | x :: r => go r (hsx x h) end) l (hstep h 2)) 3
  end.
Definition c04_m1h (c : cfg) (ir : skel) : sx :=
  match c04_m1 c ir with
  | L [names; L [I 0%Z; leaves; same]; lex] => L [I (hsx names 0); I 0; I (hsx leaves 0); same; lex]
  | L [names; out; lex] => L [I (hsx names 0); out; lex]
  | x => x
  end.

(* ---------- M3 ---------- *)
Definition sTok (t : tok) : sx :=
  match t with
  | TPct s => L [I 0; sStr s] | TCaret s => L [I 1; sStr s]
  | TBare k => L [I 2; I k] | TStrL k => L [I 3; I k] | TAt k => L [I 4; I k]
  | TLP => I 10 | TRP => I 11 | TLB => I 12 | TRB => I 13 | TLS => I 14 | TRS => I 15
  | TLT => I 16 | TGT => I 17 | TComma => I 18 | TColon => I 19 | TEq => I 20 | TArrow => I 21
  end.
Definition sAtom (a : atom) : sx :=
  match a with ABare k => L [I 2; I k] | AStr k => L [I 3; I k] | AAt k => L [I 4; I k] end.
Definition sEntry (e : entry) : sx :=
  L [sAtom (fst e); match snd e with None => I (-1) | Some v => sAtom v end].

Fixpoint payload (o : skel) : list sx :=
  match o with
  | Op nm res args succs props regs attrs it ot =>
      L [I 0; I nm; L (map sEntry props); L (map sEntry attrs); L (map sAtom it); L (map sAtom ot)]
      :: flat_map (fun r : list (block (Z * hint) Z (Z * hint)) => flat_map payload_block r) regs
  end
with payload_block (b : block (Z * hint) Z (Z * hint)) : list sx :=
  match b with
  | Bk lab bargs ops => L [I 1; L (map (fun a => sAtom (snd a)) bargs)] :: flat_map payload ops
  end.

Definition c04_m3_print (c : cfg) (ir : skel) : sx := I (hsx (L (map sTok (print_ir c ir))) 0).
Definition c04_m3_parse (c : cfg) (ts : list tok) : sx :=
  match parse_ir c ts with
  | Err _ => L [I (-1); I 1]
  | Ok ir => L [I 0; I (hsx (L (text_leaves (sched ir) [] 0)) 0); I (hsx (L (payload ir)) 0)]
  end.
(* rich skeletons for case files *)
Definition sk_opx (nm : Z) (res args : list (Z * hint)) (succs : list Z) (props : list entry)
  (regs : list (list (block (Z * hint) Z (Z * hint)))) (attrs : list entry) (it ot : list atom) : skel :=
  Op nm res args succs props regs attrs it ot.
Definition sk_bkx_ (hh : Z -> hint) (b : Z) (k : Z) (bargs : list ((Z * hint) * atom)) (ops : list skel)
  : block (Z * hint) Z (Z * hint) := Bk (b, hh k) bargs ops.
Definition en (k : atom) (v : atom) : entry := (k, Some v).
Definition eu (k : atom) : entry := (k, None).
