(* C28/ProofsExtract.v -- totality of extraction on well-formed e-graphs in definition-before-use order.

   `ordered defs body`: every operand of every operation is defined earlier in the block.
   `wf_egraph body` (the conditions of ClassOp.verify_ + an index for every class):
      unique ids; ordered; the members of a class are pairwise different; an operation that is a member of a
      class is an ordinary operation (not a class, not the return) and its result is used by that class only;
      every class has a min_cost_index in range; there is a return.
   Result: extract succeeds (no exception), leaves no e-class, keeps definition-before-use order, hence the
   extracted block is executable; with Proofs.extract_sound it returns the values of the e-graph. *)
From Coq Require Import ZArith List Bool Lia.
From XV Require Import C28.Model C28.Proofs.
Import ListNotations.
Local Open Scope Z_scope.

Fixpoint ordered (defs : list Z) (body : list node) : Prop :=
  match body with
  | [] => True
  | n :: r => (forall j, In (VRes j) (nops n) -> In j defs) /\ ordered (nid n :: defs) r
  end.

Lemma ordered_weaken : forall b d d', (forall j, In j d -> In j d') -> ordered d b -> ordered d' b.
Proof.
  induction b as [|n r IH]; simpl; intros d d' H Ho; auto. destruct Ho as [Hh Ht]. split.
  - intros j Hj. auto.
  - apply (IH (nid n :: d)); auto. intros j [Hj|Hj]; [left; auto | right; auto].
Qed.

Definition no_use (x : Z) (body : list node) : Prop := forall n, In n body -> ~ In (VRes x) (nops n).

Lemma has_uses_false : forall x body, no_use x body -> has_uses x body = false.
Proof.
  intros x body H. unfold has_uses. destruct (existsb (uses_val (VRes x)) body) eqn:E; auto.
  apply existsb_exists in E. destruct E as [n [Hn Hu]]. unfold uses_val in Hu.
  apply existsb_exists in Hu. destruct Hu as [v [Hv He]]. apply val_eqb_eq in He. subst.
  exfalso. apply (H n Hn). exact Hv.
Qed.

Lemma has_uses_false_inv : forall x body, has_uses x body = false -> no_use x body.
Proof.
  intros x body H n Hn Hin. unfold has_uses in H.
  assert (existsb (uses_val (VRes x)) body = true).
  { apply existsb_exists. exists n. split; auto. unfold uses_val. apply existsb_exists.
    exists (VRes x). split; auto. apply val_eqb_refl. }
  congruence.
Qed.

Definition keep (x : Z) (j : Z) : bool := negb (j =? x).

Lemma ordered_filter : forall b d x, ordered d b -> no_use x b -> ordered (filter (keep x) d) b.
Proof.
  induction b as [|n r IH]; simpl; intros d x Ho Hn; auto. destruct Ho as [Hh Ht]. split.
  - intros j Hj. apply filter_In. split; auto. unfold keep. apply negb_true_iff. apply Z.eqb_neq.
    intro Hjx. subst j. apply (Hn n); [left; reflexivity | exact Hj].
  - apply (ordered_weaken r (filter (keep x) (nid n :: d))).
    + intros j Hj. simpl in Hj. destruct (keep x (nid n)); [destruct Hj; [left; auto | right; auto] | right; auto].
    + apply IH; auto. intros m Hm. apply Hn. right; auto.
Qed.

Lemma ordered_remove : forall b d x, ordered d b -> no_use x (remove_node x b) -> ordered d (remove_node x b).
Proof.
  induction b as [|n r IH]; simpl; intros d x Ho Hn; auto. destruct Ho as [Hh Ht].
  destruct (nid n =? x) eqn:E.
  - apply Z.eqb_eq in E. rewrite E in Ht.
    apply (ordered_weaken r (filter (keep x) (x :: d))).
    + intros j Hj. simpl in Hj. unfold keep at 1 in Hj. rewrite Z.eqb_refl in Hj. simpl in Hj.
      apply filter_In in Hj. tauto.
    + apply ordered_filter; auto.
  - simpl. split; auto. apply IH; auto. intros m Hm. apply Hn. right; auto.
Qed.

Lemma in_map_subst : forall old new ops w,
    In w (map (subst_val old new) ops) -> In w ops \/ (w = new /\ In old ops).
Proof.
  intros old new ops w H. apply in_map_iff in H. destruct H as [w0 [Hw0 Hin]]. unfold subst_val in Hw0.
  destruct (val_eqb w0 old) eqn:E.
  - apply val_eqb_eq in E. subst. right. auto.
  - subst. left. auto.
Qed.

Lemma ordered_subst : forall p cid v b d,
    ordered d b ->
    (forall j, v = VRes j -> In cid d -> In j d) ->
    (forall n, In n b -> nid n = cid -> In v (nops n)) ->
    ordered d (replace_uses_if p (VRes cid) v b).
Proof.
  intros p cid v. induction b as [|n r IH]; simpl; intros d Ho Hd Hc; auto. destruct Ho as [Hh Ht]. split.
  - intros j Hj. destruct (p n); simpl in Hj; auto.
    apply in_map_subst in Hj. destruct Hj as [Hj|[Hj Hin]]; auto.
  - assert (Hid : nid (if p n then set_ops n (map (subst_val (VRes cid) v) (nops n)) else n) = nid n)
      by (destruct (p n); reflexivity).
    rewrite Hid. apply IH; auto.
    intros j Hv [Hin|Hin]; [|right; auto].
    right. apply Hh. rewrite <- Hv. apply Hc; auto.
Qed.

Lemma ordered_map : forall f b d,
    (forall n, nid (f n) = nid n /\ nops (f n) = nops n) -> ordered d b -> ordered d (map f b).
Proof.
  intros f. induction b as [|n r IH]; simpl; intros d Hf Ho; auto. destruct Ho as [Hh Ht].
  destruct (Hf n) as [H1 H2]. rewrite H1, H2. split; auto.
Qed.

Lemma ordered_clear_cost : forall v b d, ordered d b -> ordered d (clear_cost_of v b).
Proof.
  intros v b d H. destruct v; simpl; auto. apply ordered_map; auto.
  intro n. destruct (nid n =? id); split; reflexivity.
Qed.

(* nodes before the definition of x do not use x *)
Lemma ordered_no_self_use : forall b d n, ordered d b -> In n b -> NoDup (map nid b) ->
    (forall j, In j d -> ~ In j (map nid b)) -> ~ In (VRes (nid n)) (nops n).
Proof.
  induction b as [|m r IH]; simpl; intros d n Ho Hin Hnd Hd; try tauto. destruct Ho as [Hh Ht].
  inversion Hnd as [|? ? Hni Hnd']; subst. destruct Hin as [Hin|Hin].
  - subst m. intro Hu. apply Hh in Hu. apply (Hd _ Hu). left; auto.
  - apply (IH (nid m :: d)); auto. intros j [Hj|Hj] Hjr.
    + subst. auto.
    + apply (Hd j Hj). right; auto.
Qed.

(* ---------------- executability ---------------- *)
Section Exec.
  Variable sem : Z -> Z -> list Z -> Z.
  Variable args : Z -> Z.

  Lemma map_opt_total : forall env ops,
      (forall o, In o ops -> exists v, lookup_val args env o = Some v) ->
      exists vs, map_opt (lookup_val args env) ops = Some vs.
  Proof.
    intros env. induction ops as [|o r IH]; simpl; intros H; eauto.
    destruct (H o (or_introl eq_refl)) as [v Hv]. rewrite Hv.
    destruct IH as [vs Hvs]; [intros; apply H; right; auto|]. rewrite Hvs. eauto.
  Qed.

  Lemma eval_total : forall b d env,
      ordered d b -> (forall n, In n b -> is_class n = false) -> (exists n, In n b /\ is_ret n = true) ->
      (forall j, In j d -> exists v, lookup j env = Some v) ->
      exists rs, eval_body sem args env b = Some rs.
  Proof.
    induction b as [|n r IH]; simpl; intros d env Ho Hc [n0 [Hn0 Hr0]] Hd; try tauto.
    destruct Ho as [Hh Ht].
    assert (Hops : forall o, In o (nops n) -> exists v, lookup_val args env o = Some v).
    { intros o Ho. destruct o as [i|j]; simpl; eauto. }
    destruct (map_opt_total env (nops n) Hops) as [vs Hvs].
    destruct (is_ret n) eqn:Er; eauto.
    rewrite (Hc n (or_introl eq_refl)). rewrite Hvs.
    apply (IH (nid n :: d)); auto.
    - destruct Hn0 as [Hn0|Hn0]; [subst; congruence | eauto].
    - intros j [Hj|Hj]; simpl.
      + subst. rewrite Z.eqb_refl. eauto.
      + destruct (nid n =? j); eauto.
  Qed.
End Exec.

(* ---------------- list facts ---------------- *)
Lemma find_node_NoDup : forall body n, NoDup (map nid body) -> In n body -> find_node (nid n) body = Some n.
Proof.
  induction body as [|m r IH]; simpl; intros n Hnd Hin; try tauto.
  inversion Hnd as [|? ? Hni Hnd']; subst. destruct Hin as [Hin|Hin].
  - subst. rewrite Z.eqb_refl. reflexivity.
  - destruct (nid m =? nid n) eqn:E.
    + apply Z.eqb_eq in E. exfalso. apply Hni. rewrite E. apply in_map. exact Hin.
    + auto.
Qed.

Lemma find_node_none : forall body x, find_node x body = None -> forall n, In n body -> nid n <> x.
Proof.
  induction body as [|m r IH]; simpl; intros x H n Hin; try tauto.
  destruct (nid m =? x) eqn:E; try discriminate. destruct Hin as [Hin|Hin].
  - subst. apply Z.eqb_neq. exact E.
  - eauto.
Qed.

Lemma remove_node_In : forall x body n, NoDup (map nid body) ->
    (In n (remove_node x body) <-> In n body /\ nid n <> x).
Proof.
  intros x. induction body as [|m r IH]; simpl; intros n Hnd; [tauto|].
  inversion Hnd as [|? ? Hni Hnd']; subst. destruct (nid m =? x) eqn:E.
  - apply Z.eqb_eq in E. split.
    + intro Hin. split; auto. intro Hx. apply Hni. rewrite E, <- Hx. apply in_map. exact Hin.
    + intros [[Hin|Hin] Hx]; auto. subst. congruence.
  - apply Z.eqb_neq in E. simpl. rewrite IH; auto. split.
    + intros [Hin|[Hin Hx]]; [subst; auto | auto].
    + intros [[Hin|Hin] Hx]; auto.
Qed.

Lemma remove_node_NoDup : forall x body, NoDup (map nid body) -> NoDup (map nid (remove_node x body)).
Proof.
  intros x. induction body as [|m r IH]; simpl; intros Hnd; auto.
  inversion Hnd as [|? ? Hni Hnd']; subst. destruct (nid m =? x); auto. simpl. constructor; auto.
  intro Hin. apply Hni. apply in_map_iff in Hin. destruct Hin as [n [Hn Hin]].
  apply remove_node_incl in Hin. rewrite <- Hn. apply in_map. exact Hin.
Qed.

(* ---------------- erasing a list of dead operations ---------------- *)
Definition structural (body : list node) : Prop := NoDup (map nid body) /\ ordered [] body.

Lemma erase_dead : forall js body,
    structural body ->
    (forall j, In j js -> no_use j body) ->
    exists b', erase_all js body = Ok b' /\ structural b' /\
               (forall n, In n b' <-> In n body /\ ~ In (nid n) js).
Proof.
  induction js as [|j r IH]; simpl; intros body [Hnd Ho] Hdead.
  - exists body. split; auto. split. split; auto. intro n. tauto.
  - assert (Hnu : no_use j (remove_node j body)).
    { intros n Hn. apply (Hdead j (or_introl eq_refl)). eapply remove_node_incl; eauto. }
    unfold erase_op. destruct (find_node j body) as [m|] eqn:Ef.
    + rewrite (has_uses_false _ _ Hnu).
      destruct (IH (remove_node j body)) as [b' [He [Hs Hc]]].
      * split. apply remove_node_NoDup; auto. apply ordered_remove; auto.
      * intros j' Hj' n Hn. apply (Hdead j' (or_intror Hj')). eapply remove_node_incl; eauto.
      * exists b'. split; auto. split; auto. intro n. rewrite Hc. rewrite remove_node_In; auto.
        split. intros [[A B] C]. split; auto. intros [D|D]; auto.
        intros [A B]. split; [split|]; auto.
    + destruct (IH body) as [b' [He [Hs Hc]]].
      * split; auto.
      * intros j' Hj'. apply Hdead. right; auto.
      * exists b'. split; auto. split; auto. intro n. rewrite Hc. split.
        -- intros [A B]. split; auto. intros [D|D]; auto. apply (find_node_none _ _ Ef n A). auto.
        -- intros [A B]. split; auto.
Qed.

(* ---------------- the invariant of the extraction loop ---------------- *)
Definition plain (n : node) : Prop := is_class n = false /\ is_ret n = false.

Definition members_ok (body : list node) : Prop :=
  forall cn, In cn body -> is_class cn = true ->
    NoDup (nops cn) /\
    forall j, In (VRes j) (nops cn) ->
      (forall m, In m body -> nid m = j -> plain m) /\
      (forall n, In n body -> In (VRes j) (nops n) -> nid n = nid cn).

Definition chosen_ok (body : list node) : Prop :=
  forall cn, In cn body -> is_class cn = true ->
    exists k, nmci cn = Some k /\ 0 <= k < Z.of_nat (length (nops cn)).

Definition has_ret (body : list node) : Prop := exists n, In n body /\ is_ret n = true.

Record inv (cids : list Z) (body : list node) : Prop := {
  i_struct : structural body;
  i_cls_in : forall n, In n body -> is_class n = true -> In (nid n) cids;
  i_cids_nd : NoDup cids;
  i_cids : forall c, In c cids -> exists n, In n body /\ nid n = c /\ is_class n = true;
  i_members : members_ok body;
  i_chosen : chosen_ok body;
  i_ret : has_ret body }.

Definition wf_egraph (body : list node) : Prop :=
  structural body /\ members_ok body /\ chosen_ok body /\ has_ret body.

Lemma py_nth_in_range : forall ops k, 0 <= k < Z.of_nat (length ops) ->
    exists v, py_nth ops k = Some v /\ nth_error ops (Z.to_nat k) = Some v.
Proof.
  intros ops k Hk. unfold py_nth.
  assert (E1 : (k <? 0) = false) by (apply Z.ltb_ge; lia). rewrite E1.
  assert (E2 : (k <? 0) || (Z.of_nat (length ops) <=? k) = false).
  { rewrite E1. simpl. apply Z.leb_gt. lia. }
  rewrite E2. destruct (nth_error ops (Z.to_nat k)) as [v|] eqn:E; eauto.
  apply nth_error_None in E. lia.
Qed.

(* operations owned by the members other than the chosen one are different from the chosen value *)
Lemma owners_skip_neq : forall ops i k j v,
    NoDup ops -> 0 <= i -> i <= k -> nth_error ops (Z.to_nat (k - i)) = Some v ->
    In j (owners ops i (Some k)) -> VRes j <> v /\ In (VRes j) ops.
Proof.
  induction ops as [|o r IH]; simpl; intros i k j v Hnd Hi Hik Hn Hin; try tauto.
  inversion Hnd as [|? ? Hni Hnd']; subst.
  destruct (Z.eq_dec i k) as [E|E].
  - subst i. replace (k - k) with 0 in Hn by lia. simpl in Hn. inversion Hn; subst v.
    assert (Hr : In j (owners r (k + 1) (Some k))).
    { destruct o; auto. rewrite Z.eqb_refl in Hin. auto. }
    clear Hin. assert (Hj : In (VRes j) r) by (eapply owners_In; eauto).
    split; auto. intro Heq. subst. auto.
  - assert (Hk : Z.to_nat (k - i) = S (Z.to_nat (k - (i + 1)))) by lia.
    rewrite Hk in Hn. simpl in Hn.
    assert (Hcase : (o = VRes j) \/ In j (owners r (i + 1) (Some k))).
    { destruct o; auto. destruct (i =? k) eqn:E'; [apply Z.eqb_eq in E'; lia|].
      destruct Hin as [Hin|Hin]; [left; subst; auto | right; auto]. }
    destruct Hcase as [Ho|Hr].
    + subst o. split; auto. intro Heq. subst v. apply Hni. eapply nth_error_In; eauto.
    + destruct (IH (i + 1) k j v) as [A B]; auto; try lia.
Qed.

(* ---------------- erasing a class and some of its member operations ---------------- *)
Lemma erase_class_and_members : forall c js body,
    structural body -> no_use c body ->
    (forall j n, In j js -> In n body -> In (VRes j) (nops n) -> nid n = c) ->
    exists b', erase_all (c :: js) body = Ok b' /\ structural b' /\
               (forall n, In n b' <-> In n body /\ nid n <> c /\ ~ In (nid n) js).
Proof.
  intros c js body Hs Hc Hj.
  destruct (erase_dead [c] body Hs) as [b1 [He1 [Hs1 Hc1]]].
  { intros j [Hjc|[]]. subst. exact Hc. }
  destruct (erase_dead js b1 Hs1) as [b2 [He2 [Hs2 Hc2]]].
  { intros j Hjin n Hn Hu. apply Hc1 in Hn. destruct Hn as [Hn Hne].
    apply Hne. left. symmetry. eapply Hj; eauto. }
  exists b2. split; [|split; auto].
  - simpl in He1. simpl. destruct (erase_op c body) as [bb| |]; try discriminate.
    inversion He1; subst. exact He2.
  - intro n. rewrite Hc2, Hc1. simpl. split.
    + intros [[A B] C]. repeat split; auto.
    + intros [A [B C]]. repeat split; auto. intros [D|[]]. auto.
Qed.

(* ---------------- the substitution step as one map ---------------- *)
Definition sub_node (c : Z) (v : val) (n : node) : node :=
  let n1 := if negb (nid n =? c) then set_ops n (map (subst_val (VRes c) v) (nops n)) else n in
  match v with
  | VRes j => if nid n1 =? j then set_cost n1 CNone else n1
  | VArg _ => n1
  end.

Lemma substituted_map : forall c v body,
    clear_cost_of v (replace_uses_if (fun u => negb (nid u =? c)) (VRes c) v body) = map (sub_node c v) body.
Proof.
  intros c v body. unfold replace_uses_if, sub_node. destruct v; simpl.
  - apply map_ext. intro n. reflexivity.
  - rewrite map_map. apply map_ext. intro n. reflexivity.
Qed.

Lemma sub_node_head : forall c v n,
    nid (sub_node c v n) = nid n /\ nname (sub_node c v n) = nname n /\ nmci (sub_node c v n) = nmci n /\
    nops (sub_node c v n) = if nid n =? c then nops n else map (subst_val (VRes c) v) (nops n).
Proof.
  intros c v n. unfold sub_node. destruct (nid n =? c); simpl; destruct v; simpl;
    try (destruct (nid n =? id)); simpl; repeat split.
Qed.

Lemma map_subst_id : forall old new ops, ~ In old ops -> map (subst_val old new) ops = ops.
Proof.
  intros old new. induction ops as [|o r IH]; simpl; intros H; auto.
  rewrite IH by tauto. unfold subst_val. destruct (val_eqb o old) eqn:E; auto.
  apply val_eqb_eq in E. subst. tauto.
Qed.

Lemma no_subst_left : forall old new ops, new <> old -> ~ In old (map (subst_val old new) ops).
Proof.
  intros old new ops Hne Hin. apply in_map_iff in Hin. destruct Hin as [w [Hw _]]. unfold subst_val in Hw.
  destruct (val_eqb w old) eqn:E; try congruence. subst. rewrite val_eqb_refl in E. discriminate.
Qed.

Lemma is_class_name : forall a b, nname a = nname b -> is_class a = is_class b.
Proof. intros a b H. unfold is_class. rewrite H. reflexivity. Qed.
Lemma is_ret_name : forall a b, nname a = nname b -> is_ret a = is_ret b.
Proof. intros a b H. unfold is_ret. rewrite H. reflexivity. Qed.

(* ---------------- one step of the loop ---------------- *)
Lemma extract_step_total : forall c cids body,
    inv (c :: cids) body -> exists b', extract_step c body = Ok b' /\ inv cids b'.
Proof.
  intros c cids body [[Hnd Ho] Hcin Hcnd Hcids Hmem Hch Hret].
  destruct (Hcids c (or_introl eq_refl)) as [cn [Hcn [Hcid Hccl]]].
  assert (Hfind : find_node c body = Some cn) by (rewrite <- Hcid; apply find_node_NoDup; auto).
  destruct (Hmem cn Hcn Hccl) as [Hndops Hmj].
  assert (Hself : ~ In (VRes c) (nops cn)).
  { rewrite <- Hcid. apply (ordered_no_self_use body [] cn); auto. }
  inversion Hcnd as [|? ? Hc_notin Hcnd']; subst.
  (* facts shared by both branches *)
  assert (Hplain_j : forall j skip, In j (owners (nops cn) 0 skip) -> forall m, In m body -> nid m = j -> plain m).
  { intros j skip Hj. apply owners_In in Hj. apply (Hmj j Hj). }
  assert (Huniq : forall n, In n body -> nid n = nid cn -> n = cn).
  { intros n Hn He. eapply NoDup_nid_inj; eauto. }
  unfold extract_step. rewrite Hfind.
  destruct (has_uses (nid cn) body) eqn:Eu; simpl negb; cbn iota.
  - (* the class is used: the chosen member replaces it *)
    destruct (Hch cn Hcn Hccl) as [k [Hk Hkr]]. rewrite Hk.
    destruct (py_nth_in_range (nops cn) k Hkr) as [v [Hpy Hnth]]. rewrite Hpy.
    assert (Hv : In v (nops cn)) by (eapply nth_error_In; eauto).
    assert (Hvc : v <> VRes (nid cn)) by (intro; subst; auto).
    rewrite substituted_map. set (bx := map (sub_node (nid cn) v) body).
    assert (Hbx : forall n1, In n1 bx <-> exists n, In n body /\ n1 = sub_node (nid cn) v n).
    { intro n1. unfold bx. rewrite in_map_iff. split; intros [n [A B]]; exists n; auto. }
    assert (Hclass_ops : forall n, In n body -> is_class n = true -> nid n <> nid cn ->
                                   nops (sub_node (nid cn) v n) = nops n).
    { intros n Hn Hcl Hne. destruct (sub_node_head (nid cn) v n) as [_ [_ [_ Hops]]]. rewrite Hops.
      destruct (nid n =? nid cn) eqn:E; auto. apply map_subst_id. intro Hin.
      destruct (Hmem n Hn Hcl) as [_ Hn']. destruct (Hn' _ Hin) as [Hp _].
      destruct (Hp cn Hcn eq_refl) as [Hp1 _]. congruence. }
    destruct (erase_class_and_members (nid cn) (owners (nops cn) 0 (Some k)) bx) as [b' [He [Hs' Hchar]]].
    + split.
      * unfold bx. rewrite map_map. erewrite map_ext; [exact Hnd|].
        intro n. destruct (sub_node_head (nid cn) v n) as [A _]. exact A.
      * unfold bx. rewrite <- substituted_map. apply ordered_clear_cost.
        apply ordered_subst; [exact Ho | intros j _ [] | intros n Hn He; rewrite (Huniq n Hn He); exact Hv].
    + intros n1 Hn1 Hu. apply Hbx in Hn1. destruct Hn1 as [n [Hn Heq]]. subst n1.
      destruct (sub_node_head (nid cn) v n) as [_ [_ [_ Hops]]]. rewrite Hops in Hu.
      destruct (nid n =? nid cn) eqn:E.
      * apply Z.eqb_eq in E. rewrite (Huniq n Hn E) in Hu. auto.
      * revert Hu. apply no_subst_left. exact Hvc.
    + intros j n1 Hj Hn1 Hu. apply Hbx in Hn1. destruct Hn1 as [n [Hn Heq]]. subst n1.
      destruct (owners_skip_neq (nops cn) 0 k j v Hndops) as [Hjv Hjin]; auto; try lia.
      { replace (k - 0) with k by lia. exact Hnth. }
      destruct (sub_node_head (nid cn) v n) as [Hid [_ [_ Hops]]]. rewrite Hid. rewrite Hops in Hu.
      destruct (Hmj j Hjin) as [_ Huse].
      destruct (nid n =? nid cn) eqn:E.
      * apply Z.eqb_eq in E. exact E.
      * apply in_map_subst in Hu. destruct Hu as [Hu|[Hu _]]; [apply Huse; auto | congruence].
    + exists b'. split; auto.
      assert (Hin' : forall n1, In n1 b' -> exists n, In n body /\ n1 = sub_node (nid cn) v n /\ nid n <> nid cn).
      { intros n1 Hn1. apply Hchar in Hn1. destruct Hn1 as [A [B C]]. apply Hbx in A.
        destruct A as [n [Hn Heq]]. exists n. split; auto. split; auto.
        subst n1. destruct (sub_node_head (nid cn) v n) as [Hid _]. congruence. }
      assert (Hkeep : forall n, In n body -> nid n <> nid cn ->
                                (forall j, In j (owners (nops cn) 0 (Some k)) -> nid n <> j) ->
                                In (sub_node (nid cn) v n) b').
      { intros n Hn Hne Hj. apply Hchar. destruct (sub_node_head (nid cn) v n) as [Hid _].
        rewrite Hid. split; [apply Hbx; eauto|]. split; auto. intro Hin. apply (Hj _ Hin). reflexivity. }
      constructor; auto.
      * intros n1 Hn1 Hcl. destruct (Hin' n1 Hn1) as [n [Hn [Heq Hne]]]. subst n1.
        destruct (sub_node_head (nid cn) v n) as [Hid [Hnm _]]. rewrite Hid.
        rewrite (is_class_name _ _ Hnm) in Hcl. destruct (Hcin n Hn Hcl) as [Hx|Hx]; auto. congruence.
      * intros c' Hc'. destruct (Hcids c' (or_intror Hc')) as [n' [Hn' [Hid' Hcl']]].
        exists (sub_node (nid cn) v n'). destruct (sub_node_head (nid cn) v n') as [Hid [Hnm _]].
        split; [|split; [congruence | rewrite (is_class_name _ _ Hnm); auto]].
        apply Hkeep; auto.
        -- intro Heq. apply Hc_notin. rewrite <- Heq, Hid'. exact Hc'.
        -- intros j Hj Heq. destruct (Hplain_j j _ Hj n' Hn' Heq) as [Hp _]. congruence.
      * (* members_ok *)
        intros cn1 Hcn1 Hcl1. destruct (Hin' cn1 Hcn1) as [cn' [Hcn' [Heq Hne]]]. subst cn1.
        destruct (sub_node_head (nid cn) v cn') as [Hid1 [Hnm1 _]].
        rewrite (is_class_name _ _ Hnm1) in Hcl1.
        rewrite (Hclass_ops cn' Hcn' Hcl1 Hne). destruct (Hmem cn' Hcn' Hcl1) as [Hnd' Hmj'].
        split; auto. intros j Hj. destruct (Hmj' j Hj) as [Hp' Hu']. split.
        -- intros m1 Hm1 Hmid. destruct (Hin' m1 Hm1) as [m [Hm [Heq _]]]. subst m1.
           destruct (sub_node_head (nid cn) v m) as [Hidm [Hnmm _]].
           destruct (Hp' m Hm) as [P1 P2]; [congruence|]. split.
           ++ rewrite (is_class_name _ _ Hnmm). exact P1.
           ++ rewrite (is_ret_name _ _ Hnmm). exact P2.
        -- intros n1 Hn1 Hu1. destruct (Hin' n1 Hn1) as [n [Hn [Heq Hnn]]]. subst n1.
           destruct (sub_node_head (nid cn) v n) as [Hidn [_ [_ Hopsn]]]. rewrite Hidn, Hid1.
           rewrite Hopsn in Hu1. destruct (nid n =? nid cn) eqn:E; [apply Z.eqb_eq in E; congruence|].
           apply in_map_subst in Hu1. destruct Hu1 as [Hu1|[Hu1 _]]; [apply Hu'; auto|].
           (* the new use is a use of the chosen member v = VRes j, which belongs to cn only *)
           exfalso. apply Hne. symmetry. apply Hu'; auto. rewrite Hu1. exact Hv.
      * intros cn1 Hcn1 Hcl1. destruct (Hin' cn1 Hcn1) as [cn' [Hcn' [Heq Hne]]]. subst cn1.
        destruct (sub_node_head (nid cn) v cn') as [Hid1 [Hnm1 [Hmci1 _]]].
        rewrite (is_class_name _ _ Hnm1) in Hcl1.
        rewrite (Hclass_ops cn' Hcn' Hcl1 Hne), Hmci1. apply Hch; auto.
      * destruct Hret as [n0 [Hn0 Hr0]]. exists (sub_node (nid cn) v n0).
        destruct (sub_node_head (nid cn) v n0) as [_ [Hnm _]]. split; [|rewrite (is_ret_name _ _ Hnm); auto].
        apply Hkeep; auto.
        -- intro Heq. rewrite (Huniq n0 Hn0 Heq) in Hr0. rewrite (class_not_ret _ Hccl) in Hr0. discriminate.
        -- intros j Hj Heq. destruct (Hplain_j j _ Hj n0 Hn0 Heq) as [_ Hp]. congruence.
  - (* the class is unused: it is erased with all its member operations *)
    apply has_uses_false_inv in Eu.
    destruct (erase_class_and_members (nid cn) (owners (nops cn) 0 None) body) as [b' [He [Hs' Hchar]]]; auto.
    + split; auto.
    + intros j n Hj Hn Hu. apply owners_In in Hj. destruct (Hmj j Hj) as [_ Huse]. auto.
    + exists b'. split; auto.
      assert (Hkeep : forall n, In n body -> nid n <> nid cn ->
                                (forall j, In j (owners (nops cn) 0 None) -> nid n <> j) -> In n b').
      { intros n Hn Hne Hj. apply Hchar. split; auto. split; auto. intro Hin. apply (Hj _ Hin). reflexivity. }
      constructor; auto.
      * intros n Hn Hcl. apply Hchar in Hn. destruct Hn as [Hn [Hne _]].
        destruct (Hcin n Hn Hcl) as [Hx|Hx]; auto. congruence.
      * intros c' Hc'. destruct (Hcids c' (or_intror Hc')) as [n' [Hn' [Hid' Hcl']]].
        exists n'. split; auto. apply Hkeep; auto.
        -- intro Heq. apply Hc_notin. rewrite <- Heq, Hid'. exact Hc'.
        -- intros j Hj Heq. destruct (Hplain_j j _ Hj n' Hn' Heq) as [Hp _]. congruence.
      * intros cn1 Hcn1 Hcl1. apply Hchar in Hcn1. destruct Hcn1 as [Hcn1 _].
        destruct (Hmem cn1 Hcn1 Hcl1) as [Hnd' Hmj']. split; auto.
        intros j Hj. destruct (Hmj' j Hj) as [Hp' Hu']. split.
        -- intros m Hm. apply Hchar in Hm. destruct Hm as [Hm _]. auto.
        -- intros n Hn. apply Hchar in Hn. destruct Hn as [Hn _]. auto.
      * intros cn1 Hcn1 Hcl1. apply Hchar in Hcn1. destruct Hcn1 as [Hcn1 _]. auto.
      * destruct Hret as [n0 [Hn0 Hr0]]. exists n0. split; auto. apply Hkeep; auto.
        -- intro Heq. rewrite (Huniq n0 Hn0 Heq) in Hr0. rewrite (class_not_ret _ Hccl) in Hr0. discriminate.
        -- intros j Hj Heq. destruct (Hplain_j j _ Hj n0 Hn0 Heq) as [_ Hp]. congruence.
Qed.

Lemma extract_loop_total : forall cids body,
    inv cids body -> exists b', extract_loop cids body = Ok b' /\ inv [] b'.
Proof.
  induction cids as [|c r IH]; intros body Hinv; simpl.
  - exists body. auto.
  - destruct (extract_step_total c r body Hinv) as [b1 [He Hi]]. rewrite He. apply IH. exact Hi.
Qed.

Lemma wf_inv : forall body, wf_egraph body -> inv (rev (class_ids body)) body.
Proof.
  intros body [[Hnd Ho] [Hm [Hc Hr]]]. constructor; auto.
  - split; auto.
  - intros n Hn Hcl. apply -> in_rev. unfold class_ids. apply in_map. apply filter_In. auto.
  - apply NoDup_rev. unfold class_ids. clear -Hnd. induction body as [|n r IH]; simpl; [constructor|].
    inversion Hnd as [|? ? Hni Hnd']; subst. destruct (is_class n); simpl; auto. constructor; auto.
    intro Hin. apply Hni. apply in_map_iff in Hin. destruct Hin as [m [Hm Hin]].
    apply filter_In in Hin. rewrite <- Hm. apply in_map. tauto.
  - intros c Hc'. apply in_rev in Hc'. unfold class_ids in Hc'. apply in_map_iff in Hc'.
    destruct Hc' as [n [Hn Hin]]. apply filter_In in Hin. exists n. tauto.
Qed.

(* C28_extract_total: a well-formed e-graph in definition-before-use order in which every class has a
   min_cost_index is extracted without exception into an executable block without e-classes *)
Theorem extract_total : forall sem args g,
    wf_egraph (p_body g) ->
    exists p' rs, extract g = Ok p' /\ (forall n, In n (p_body p') -> is_class n = false) /\
                  eval sem args p' = Some rs.
Proof.
  intros sem args g Hwf. destruct (extract_loop_total _ _ (wf_inv _ Hwf)) as [b' [He Hi]].
  destruct Hi as [[Hnd Ho] Hcin _ _ _ _ Hret].
  assert (Hnc : forall n, In n b' -> is_class n = false).
  { intros n Hn. destruct (is_class n) eqn:E; auto. destruct (Hcin n Hn E). }
  destruct (eval_total sem args b' [] [] Ho Hnc Hret) as [rs Hrs]. { intros j []. }
  exists (Prog (p_nargs g) b'), rs. unfold extract. rewrite He. split; auto.
Qed.
