(* C28/ProofsCosts.v -- the cost pass (eqsat-add-costs):
   - it only writes eqsat_cost / min_cost_index (so valuations and results are untouched);
   - the `while changed` loop terminates when all costs are non-negative (lexicographic measure:
     number of classes without a cost, then the sum of the class costs), and more fuel never
     changes the result;  with a negative cost on a cycle it does NOT terminate (witness);
   - when the loop stops, every class cost is <= the total cost of each of its members (minimality),
     and every class that has a member whose cost is computable has a min_cost_index in range. *)
From Coq Require Import ZArith List Bool Lia.
From XV Require Import C28.Model C28.Proofs.
Import ListNotations.
Local Open Scope Z_scope.

(* ------------------------------------------------------------------ *)
(* structure preservation *)

Definition same_struct (n n' : node) : Prop :=
  nid n' = nid n /\ nname n' = nname n /\ nattr n' = nattr n /\ nops n' = nops n /\ nres n' = nres n.

Lemma same_struct_refl : forall n, same_struct n n.
Proof. intro n. repeat split. Qed.

Lemma first_pass_struct : forall d dict body b',
    first_pass d dict body = Ok b' -> Forall2 same_struct body b'.
Proof.
  intros d dict. induction body as [|n r IH]; simpl; intros b' H.
  - inversion H. constructor.
  - destruct (first_pass d dict r) as [r'| |] eqn:Er.
    2,3: (destruct (nres n =? 0); [discriminate|]; destruct (ncost n); try discriminate;
          destruct (lookup (nname n) dict); try discriminate;
          destruct (negb (nres n =? 1)); try discriminate; destruct (is_class n); try discriminate;
          destruct d; discriminate).
    specialize (IH r' eq_refl).
    destruct (nres n =? 0). { inversion H; subst. constructor; auto. apply same_struct_refl. }
    destruct (ncost n).
    + destruct (lookup (nname n) dict).
      * inversion H; subst. constructor; auto. repeat split.
      * destruct (negb (nres n =? 1)); try discriminate. destruct (is_class n).
        -- inversion H; subst. constructor; auto. apply same_struct_refl.
        -- destruct d; inversion H; subst; constructor; auto; repeat split.
    + inversion H; subst. constructor; auto. apply same_struct_refl.
    + inversion H; subst. constructor; auto. apply same_struct_refl.
Qed.

Lemma apply_mci_struct : forall ms body, Forall2 same_struct body (apply_mci ms body).
Proof.
  intros ms. induction body as [|n r IH]; simpl; constructor; auto.
  destruct (lookup (nid n) ms); repeat split.
Qed.

Lemma Forall2_same_struct_trans : forall a b c,
    Forall2 same_struct a b -> Forall2 same_struct b c -> Forall2 same_struct a c.
Proof.
  intros a b c H. revert c. induction H; intros c Hc; inversion Hc; subst; constructor; auto.
  destruct H as [? [? [? [? ?]]]]. destruct H3 as [? [? [? [? ?]]]]. repeat split; congruence.
Qed.

Lemma add_costs_struct : forall fuel d dict p p',
    add_costs fuel d dict p = Ok p' ->
    p_nargs p' = p_nargs p /\ Forall2 same_struct (p_body p) (p_body p').
Proof.
  intros fuel d dict p p' H. unfold add_costs in H. destruct (existsb is_class (p_body p)).
  - unfold add_eqsat_costs in H. destruct (first_pass d dict (p_body p)) as [b1| |] eqn:E1; try discriminate.
    destruct (fix_loop fuel b1 d [] []) as [[cs ms]| |]; try discriminate. inversion H; subst. simpl.
    split; auto. eapply Forall2_same_struct_trans. eapply first_pass_struct; eauto. apply apply_mci_struct.
  - inversion H; subst. split; auto. clear H. induction (p_body p'); constructor; auto. apply same_struct_refl.
Qed.

(* consequences for the semantics: the pass changes neither valuations nor results nor identities *)
Section SemPreserved.
  Variable sem : Z -> Z -> list Z -> Z.
  Variable args : Z -> Z.

  Lemma same_struct_node_ok : forall rho n n', same_struct n n' -> node_ok sem args rho n -> node_ok sem args rho n'.
  Proof.
    intros rho n n' [H1 [H2 [H3 [H4 H5]]]] H. unfold node_ok, is_class, is_ret in *.
    rewrite H1, H2, H3, H4. exact H.
  Qed.

  Lemma struct_models : forall rho a b,
      Forall2 same_struct a b -> models sem args rho a -> models sem args rho b.
  Proof.
    intros rho a b H. induction H; intros Hm n Hin; simpl in Hin; try tauto.
    destruct Hin as [Hin|Hin].
    - subst. eapply same_struct_node_ok; eauto. apply Hm. left; auto.
    - apply IHForall2; auto. intros m Hm'. apply Hm. right; auto.
  Qed.

  Lemma struct_obs : forall rho a b, Forall2 same_struct a b -> obs args rho b = obs args rho a.
  Proof.
    intros rho a b H. unfold obs. induction H; simpl; auto.
    destruct H as [H1 [H2 [H3 [H4 H5]]]]. unfold is_ret in *. rewrite H2.
    destruct (nname x =? N_RET); simpl; rewrite IHForall2; auto. rewrite H4. reflexivity.
  Qed.
End SemPreserved.

Lemma struct_map_nid : forall a b, Forall2 same_struct a b -> map nid b = map nid a.
Proof. intros a b H. induction H; simpl; auto. destruct H as [H1 _]. congruence. Qed.

Lemma struct_In : forall a b, Forall2 same_struct a b -> forall n', In n' b -> exists n, In n a /\ same_struct n n'.
Proof.
  intros a b H. induction H; simpl; intros n' Hin; try tauto. destruct Hin as [Hin|Hin].
  - subst. exists x. auto.
  - destruct (IHForall2 _ Hin) as [n [Hn Hs]]. exists n. auto.
Qed.

Lemma struct_ids_ok : forall a b, Forall2 same_struct a b -> ids_ok a -> ids_ok b.
Proof.
  intros a b H [Hnd Hru]. split.
  - rewrite (struct_map_nid _ _ H). exact Hnd.
  - intros n j m Hn Hj Hm Hid.
    destruct (struct_In _ _ H _ Hn) as [n0 [Hn0 [A1 [A2 [A3 [A4 A5]]]]]].
    destruct (struct_In _ _ H _ Hm) as [m0 [Hm0 [B1 [B2 [B3 [B4 B5]]]]]].
    unfold is_ret. rewrite B2. apply (Hru n0 j m0); auto; congruence.
Qed.

(* ------------------------------------------------------------------ *)
(* the fixed-point loop *)

Section Loop.
  Variable body : list node.
  Variable d : option Z.

  Definition better (cs : list (Z * Z)) (cid t : Z) : bool :=
    match lookup cid cs with None => true | Some b => t <? b end.

  Lemma sm_cons : forall cid m r idx cs ms ch st',
      sweep_members body d cid (m :: r) idx (cs, ms, ch) = Ok st' ->
      exists ot, calc_total body cs d m = Ok ot /\
        ((ot = None /\ sweep_members body d cid r (idx + 1) (cs, ms, ch) = Ok st') \/
         (exists t, ot = Some t /\ better cs cid t = true /\
                    sweep_members body d cid r (idx + 1) ((cid, t) :: cs, (cid, idx) :: ms, true) = Ok st') \/
         (exists t, ot = Some t /\ better cs cid t = false /\
                    sweep_members body d cid r (idx + 1) (cs, ms, ch) = Ok st')).
  Proof.
    intros cid m r idx cs ms ch st' H. cbn [sweep_members] in H.
    destruct (calc_total body cs d m) as [[t|]| |] eqn:E; try discriminate.
    - exists (Some t). split; auto. fold (better cs cid t) in H. destruct (better cs cid t) eqn:Eb.
      + right. left. exists t. auto.
      + right. right. exists t. auto.
    - exists None. split; auto.
  Qed.

  (* a valid update: class c of the block, member number idx has computable total cost t that improves *)
  Definition valid_upd (cs : list (Z * Z)) (cid idx t : Z) : Prop :=
    exists c m, In c body /\ is_class c = true /\ nid c = cid /\
                0 <= idx < Z.of_nat (length (nops c)) /\ In m (nops c) /\
                calc_total body cs d m = Ok (Some t) /\ better cs cid t = true.

  Section Inv.
    Variable P : cstate -> Prop.
    Hypothesis P_upd : forall cs ms ch cid idx t,
        valid_upd cs cid idx t -> P (cs, ms, ch) -> P ((cid, t) :: cs, (cid, idx) :: ms, true).

    Lemma sweep_members_inv : forall c, In c body -> is_class c = true ->
      forall members idx st st',
        0 <= idx -> idx + Z.of_nat (length members) = Z.of_nat (length (nops c)) ->
        (forall m, In m members -> In m (nops c)) ->
        sweep_members body d (nid c) members idx st = Ok st' -> P st -> P st'.
    Proof.
      intros c Hc Hcl. induction members as [|m r IH]; intros idx st st' Hidx Hlen Hsub H HP.
      - simpl in H. inversion H; subst; auto.
      - destruct st as [[cs ms] ch]. apply sm_cons in H. destruct H as [ot [Hct H]].
        assert (Hlen' : idx + 1 + Z.of_nat (length r) = Z.of_nat (length (nops c)))
          by (simpl length in Hlen; lia).
        assert (Hsub' : forall m0, In m0 r -> In m0 (nops c)) by (intros; apply Hsub; right; auto).
        destruct H as [[_ H]|[[t [Hot [Hb H]]]|[t [Hot [Hb H]]]]].
        + apply (IH (idx + 1) (cs, ms, ch) st'); auto; lia.
        + apply (IH (idx + 1) ((nid c, t) :: cs, (nid c, idx) :: ms, true) st'); auto; try lia.
          apply (P_upd cs ms ch); auto. exists c, m. subst ot.
          repeat split; auto; try lia. apply Hsub. left; auto.
        + apply (IH (idx + 1) (cs, ms, ch) st'); auto; lia.
    Qed.

    Lemma sweep_classes_inv : forall todo st st',
        (forall n, In n todo -> In n body) ->
        sweep_classes body d todo st = Ok st' -> P st -> P st'.
    Proof.
      induction todo as [|n r IH]; intros st st' Hsub H HP; simpl in H.
      - inversion H; subst; auto.
      - assert (Hsub' : forall n0, In n0 r -> In n0 body) by (intros; apply Hsub; right; auto).
        destruct (is_class n) eqn:Ecl.
        + destruct (sweep_members body d (nid n) (nops n) 0 st) as [st1| |] eqn:E; try discriminate.
          apply (IH st1 st'); auto.
          apply (sweep_members_inv n (Hsub n (or_introl eq_refl)) Ecl (nops n) 0 st st1); auto; lia.
        + apply (IH st st'); auto.
    Qed.
  End Inv.

  (* `changed` never goes back to False *)
  Lemma sweep_classes_ch_mono : forall todo cs ms cs' ms' ch',
      (forall n, In n todo -> In n body) ->
      sweep_classes body d todo (cs, ms, true) = Ok (cs', ms', ch') -> ch' = true.
  Proof.
    intros todo cs ms cs' ms' ch' Hsub H.
    apply (sweep_classes_inv (fun st => snd st = true)) in H; auto.
  Qed.

  Lemma sweep_members_ch_mono : forall c, In c body -> is_class c = true ->
    forall members idx cs ms cs' ms' ch',
      0 <= idx -> idx + Z.of_nat (length members) = Z.of_nat (length (nops c)) ->
      (forall m, In m members -> In m (nops c)) ->
      sweep_members body d (nid c) members idx (cs, ms, true) = Ok (cs', ms', ch') -> ch' = true.
  Proof.
    intros c Hc Hcl members idx cs ms cs' ms' ch' H1 H2 H3 H.
    apply (sweep_members_inv (fun st => snd st = true)) with (c := c) in H; auto.
  Qed.

  (* ---------------- what a sweep without change tells ---------------- *)
  Definition member_settled (cs : list (Z * Z)) (cid : Z) (m : val) : Prop :=
    exists ot, calc_total body cs d m = Ok ot /\ (forall t, ot = Some t -> better cs cid t = false).

  Lemma sweep_members_quiet : forall c, In c body -> is_class c = true ->
    forall members idx cs ms cs' ms',
      0 <= idx -> idx + Z.of_nat (length members) = Z.of_nat (length (nops c)) ->
      (forall m, In m members -> In m (nops c)) ->
      sweep_members body d (nid c) members idx (cs, ms, false) = Ok (cs', ms', false) ->
      cs' = cs /\ ms' = ms /\ forall m, In m members -> member_settled cs (nid c) m.
  Proof.
    intros c Hc Hcl. induction members as [|m r IH]; intros idx cs ms cs' ms' Hidx Hlen Hsub H.
    - simpl in H. inversion H; subst. repeat split; auto. intros m [].
    - apply sm_cons in H. destruct H as [ot [Hct H]].
      assert (Hlen' : idx + 1 + Z.of_nat (length r) = Z.of_nat (length (nops c)))
        by (simpl length in Hlen; lia).
      assert (Hsub' : forall m0, In m0 r -> In m0 (nops c)) by (intros; apply Hsub; right; auto).
      destruct H as [[Hot H]|[[t [Hot [Hb H]]]|[t [Hot [Hb H]]]]].
      + destruct (IH (idx + 1) cs ms cs' ms') as [A [B C]]; auto; try lia.
        repeat split; auto. intros m0 [Hm0|Hm0]; auto. subst m0. exists ot. split; auto.
        intros t Ht. congruence.
      + assert (Hx : false = true).
        { apply (sweep_members_ch_mono c Hc Hcl r (idx + 1) ((nid c, t) :: cs) ((nid c, idx) :: ms) cs' ms' false);
            auto; lia. }
        discriminate.
      + destruct (IH (idx + 1) cs ms cs' ms') as [A [B C]]; auto; try lia.
        repeat split; auto. intros m0 [Hm0|Hm0]; auto. subst m0. exists ot. split; auto.
        intros t0 Ht0. congruence.
  Qed.

  Lemma sweep_members_false_start : forall c, In c body -> is_class c = true ->
    forall members idx cs ms ch cs' ms',
      0 <= idx -> idx + Z.of_nat (length members) = Z.of_nat (length (nops c)) ->
      (forall m, In m members -> In m (nops c)) ->
      sweep_members body d (nid c) members idx (cs, ms, ch) = Ok (cs', ms', false) -> ch = false.
  Proof.
    intros c Hc Hcl members idx cs ms ch cs' ms' H1 H2 H3 H. destruct ch; auto.
    symmetry. apply (sweep_members_ch_mono c Hc Hcl members idx cs ms cs' ms' false); auto.
  Qed.

  Lemma sweep_classes_quiet : forall todo cs ms cs' ms',
      (forall n, In n todo -> In n body) ->
      sweep_classes body d todo (cs, ms, false) = Ok (cs', ms', false) ->
      cs' = cs /\ ms' = ms /\
      forall n m, In n todo -> is_class n = true -> In m (nops n) -> member_settled cs (nid n) m.
  Proof.
    induction todo as [|n r IH]; intros cs ms cs' ms' Hsub H; simpl in H.
    - inversion H; subst. repeat split; auto. intros n m [].
    - assert (Hsub' : forall n0, In n0 r -> In n0 body) by (intros; apply Hsub; right; auto).
      assert (Hn : In n body) by (apply Hsub; left; auto).
      destruct (is_class n) eqn:Ecl.
      + destruct (sweep_members body d (nid n) (nops n) 0 (cs, ms, false)) as [[[cs1 ms1] ch1]| |] eqn:E;
          try discriminate.
        destruct ch1.
        * assert (Hx : false = true) by (apply (sweep_classes_ch_mono r cs1 ms1 cs' ms' false); auto).
          discriminate.
        * apply sweep_members_quiet in E; auto; try lia. destruct E as [A [B C]]. subst.
          destruct (IH cs ms cs' ms' Hsub' H) as [A' [B' C']]. repeat split; auto.
          intros n0 m [Hn0|Hn0] Hcl0 Hm; auto. subst n0. auto.
      + destruct (IH cs ms cs' ms' Hsub' H) as [A' [B' C']]. repeat split; auto.
        intros n0 m [Hn0|Hn0] Hcl0 Hm; auto. subst n0. congruence.
  Qed.

  (* ---------------- result of the loop ---------------- *)
  (* reachable cost states: the mci table has an in-range entry for every class with a cost *)
  Definition mci_inv (st : cstate) : Prop :=
    let '(cs, ms, _) := st in
    forall cid b, lookup cid cs = Some b ->
      exists i c, lookup cid ms = Some i /\ In c body /\ is_class c = true /\ nid c = cid /\
                  0 <= i < Z.of_nat (length (nops c)).

  Lemma mci_inv_upd : forall cs ms ch cid idx t,
      valid_upd cs cid idx t -> mci_inv (cs, ms, ch) -> mci_inv ((cid, t) :: cs, (cid, idx) :: ms, true).
  Proof.
    intros cs ms ch cid idx t [c [m [Hc [Hcl [Hid [Hr _]]]]]] H cid' b Hl. simpl in *.
    destruct (cid =? cid') eqn:E.
    - apply Z.eqb_eq in E. subst cid'. exists idx, c. auto.
    - apply H in Hl. exact Hl.
  Qed.

  Lemma fix_loop_result : forall fuel cs ms cs' ms',
      mci_inv (cs, ms, false) ->
      fix_loop fuel body d cs ms = Ok (cs', ms') ->
      mci_inv (cs', ms', false) /\
      forall n m, In n body -> is_class n = true -> In m (nops n) -> member_settled cs' (nid n) m.
  Proof.
    induction fuel as [|f IH]; intros cs ms cs' ms' Hinv H; simpl in H; try discriminate.
    destruct (sweep_classes body d body (cs, ms, false)) as [[[cs1 ms1] ch1]| |] eqn:E; try discriminate.
    assert (Hinv1 : mci_inv (cs1, ms1, ch1)).
    { apply (sweep_classes_inv mci_inv mci_inv_upd) in E; auto. }
    destruct ch1.
    - apply IH in H; auto.
    - inversion H; subst. apply sweep_classes_quiet in E; auto. destruct E as [A [B C]]. subst.
      split; auto.
  Qed.

  (* more fuel does not change a result *)
  Lemma fix_loop_more_fuel : forall f cs ms r k,
      fix_loop f body d cs ms = r -> r <> OutOfFuel -> fix_loop (f + k) body d cs ms = r.
  Proof.
    induction f as [|f IH]; intros cs ms r k H Hr; simpl in *.
    - congruence.
    - destruct (sweep_classes body d body (cs, ms, false)) as [[[cs1 ms1] [|]]| |]; auto.
  Qed.

  (* ---------------- termination for non-negative costs ---------------- *)
  Definition costs_nonneg : Prop :=
    (forall n c, In n body -> ncost n = CInt c -> 0 <= c) /\ (forall c, d = Some c -> 0 <= c).
  Definition cs_nonneg (cs : list (Z * Z)) : Prop := forall id b, lookup id cs = Some b -> 0 <= b.

  Lemma base_cost_nonneg : forall n oc, costs_nonneg -> In n body -> base_cost n d = Ok oc ->
                                        0 <= match oc with Some c => c | None => 0 end.
  Proof.
    intros n oc [H1 H2] Hn H. unfold base_cost in H. destruct (ncost n) eqn:E; try discriminate.
    - injection H as <-. destruct d as [c|]; [apply H2; auto | lia].
    - injection H as <-. eauto.
  Qed.

  Lemma sum_operands_nonneg : forall cs ops total t,
      costs_nonneg -> cs_nonneg cs -> 0 <= total ->
      sum_operands body cs d ops total = Ok (Some t) -> 0 <= t.
  Proof.
    intros cs ops. induction ops as [|o r IH]; intros total t Hc Hcs Ht H; simpl in H.
    - inversion H; subst; auto.
    - destruct o as [i|j].
      + apply (IH (total + 0) t); auto; lia.
      + destruct (find_node j body) as [dn|] eqn:Ef; try discriminate.
        apply find_node_In in Ef. destruct Ef as [Hdn _].
        destruct (is_class dn).
        * destruct (lookup j cs) as [c|] eqn:El; try discriminate.
          apply Hcs in El. apply (IH (total + c) t); auto; lia.
        * destruct (base_cost dn d) as [oc| |] eqn:Eb; try discriminate.
          assert (Hb : 0 <= match oc with Some c => c | None => 0 end)
            by (apply (base_cost_nonneg dn oc); auto).
          apply (IH (total + match oc with Some c => c | None => 0 end) t); auto; lia.
  Qed.

  Lemma calc_total_nonneg : forall cs m t,
      costs_nonneg -> cs_nonneg cs -> calc_total body cs d m = Ok (Some t) -> 0 <= t.
  Proof.
    intros cs m t Hc Hcs H. unfold calc_total in H. destruct m as [i|id].
    - inversion H; lia.
    - destruct (find_node id body) as [op|] eqn:Ef; try discriminate.
      apply find_node_In in Ef. destruct Ef as [Hop _].
      destruct (is_class op).
      + inversion H. apply Hcs in H1. auto.
      + destruct (base_cost op d) as [[nc|]| |] eqn:Eb; try discriminate.
        assert (Hb : 0 <= nc) by (apply (base_cost_nonneg op (Some nc)); auto).
        apply (sum_operands_nonneg cs (nops op) nc t); auto.
  Qed.

  (* the measure: (number of class ids without cost, sum of the costs), over the class ids of the block *)
  Definition cids : list Z := map nid (filter is_class body).
  Definition sumf (f : Z -> Z) (l : list Z) : Z := fold_right (fun id a => f id + a) 0 l.
  Definition mu1 (cs : list (Z * Z)) : Z :=
    sumf (fun id => match lookup id cs with None => 1 | Some _ => 0 end) cids.
  Definition mu2 (cs : list (Z * Z)) : Z :=
    sumf (fun id => match lookup id cs with None => 0 | Some b => b end) cids.

  Lemma sumf_le : forall f g l, (forall id, f id <= g id) -> sumf f l <= sumf g l.
  Proof. intros f g l H. induction l; simpl; try lia. specialize (H a). lia. Qed.
  Lemma sumf_lt : forall f g l x, (forall id, f id <= g id) -> In x l -> f x < g x -> sumf f l < sumf g l.
  Proof.
    intros f g l x H. induction l; simpl; intros Hin Hx; try tauto.
    destruct Hin as [Hin|Hin].
    - subst. assert (sumf f l <= sumf g l) by (apply sumf_le; auto). lia.
    - specialize (IHl Hin Hx). specialize (H a). lia.
  Qed.
  Lemma sumf_nonneg : forall f l, (forall id, 0 <= f id) -> 0 <= sumf f l.
  Proof. intros f l H. induction l; simpl; try lia. specialize (H a). lia. Qed.

  Definition lex_lt (a b : Z * Z) : Prop := fst a < fst b \/ (fst a = fst b /\ snd a < snd b).
  Definition lex_le (a b : Z * Z) : Prop := a = b \/ lex_lt a b.
  Definition mu (cs : list (Z * Z)) : Z * Z := (mu1 cs, mu2 cs).

  Lemma lex_le_lt_trans : forall a b c, lex_lt a b -> lex_le b c -> lex_lt a c.
  Proof.
    intros [a1 a2] [b1 b2] [c1 c2] H [H'|H']; [inversion H'; subst; auto|].
    unfold lex_lt in *; simpl in *; lia.
  Qed.

  Lemma sumf_ext : forall f g l, (forall id, f id = g id) -> sumf f l = sumf g l.
  Proof. intros f g l H. induction l; simpl; auto. rewrite IHl, (H a). reflexivity. Qed.

  Lemma lookup_cons : forall cid t cs id,
      lookup id ((cid, t) :: cs) = if cid =? id then Some t else lookup id cs.
  Proof. reflexivity. Qed.

  Lemma upd_decreases : forall cs cid idx t,
      costs_nonneg -> cs_nonneg cs -> valid_upd cs cid idx t ->
      cs_nonneg ((cid, t) :: cs) /\ lex_lt (mu ((cid, t) :: cs)) (mu cs).
  Proof.
    intros cs cid idx t Hc Hcs [c [m [Hcin [Hcl [Hid [_ [_ [Hct Hb]]]]]]]].
    assert (Ht : 0 <= t) by (eapply calc_total_nonneg; eauto).
    assert (Hcid : In cid cids).
    { unfold cids. rewrite <- Hid. apply in_map. apply filter_In. auto. }
    split.
    - intros id b Hl. rewrite lookup_cons in Hl. destruct (cid =? id); [inversion Hl; subst; auto | eauto].
    - unfold lex_lt, mu. unfold fst, snd. unfold better in Hb.
      destruct (lookup cid cs) as [b|] eqn:El.
      + (* improvement of an existing cost *)
        apply Z.ltb_lt in Hb. right. split.
        * unfold mu1. apply sumf_ext. intro id. rewrite lookup_cons.
          destruct (cid =? id) eqn:E; auto. apply Z.eqb_eq in E. subst. rewrite El. auto.
        * unfold mu2. apply sumf_lt with (x := cid); auto.
          -- intro id. rewrite lookup_cons. destruct (cid =? id) eqn:E; try lia.
             apply Z.eqb_eq in E. subst. rewrite El. lia.
          -- rewrite lookup_cons. rewrite Z.eqb_refl. rewrite El. lia.
      + left. unfold mu1. apply sumf_lt with (x := cid); auto.
        * intro id. rewrite lookup_cons. destruct (cid =? id) eqn:E; try lia. destruct (lookup id cs); lia.
        * rewrite lookup_cons. rewrite Z.eqb_refl. rewrite El. lia.
  Qed.

  Definition prog_inv (cs0 : list (Z * Z)) (ch0 : bool) (st : cstate) : Prop :=
    let '(cs, _, ch) := st in
    cs_nonneg cs /\ lex_le (mu cs) (mu cs0) /\ (ch = true -> ch0 = false -> lex_lt (mu cs) (mu cs0)).

  Lemma sweep_progress : forall cs ms cs' ms' ch',
      costs_nonneg -> cs_nonneg cs ->
      sweep_classes body d body (cs, ms, false) = Ok (cs', ms', ch') ->
      cs_nonneg cs' /\ (ch' = true -> lex_lt (mu cs') (mu cs)).
  Proof.
    intros cs ms cs' ms' ch' Hc Hcs H.
    apply (sweep_classes_inv (prog_inv cs false)) in H; auto.
    - destruct H as [A [B C]]. split; auto.
    - intros cs1 ms1 ch1 cid idx t Hv [A [B C]].
      destruct (upd_decreases cs1 cid idx t Hc A Hv) as [A' B']. split; auto.
      assert (lex_lt (mu ((cid, t) :: cs1)) (mu cs)) by (eapply lex_le_lt_trans; eauto).
      split; auto. right; auto.
    - split; auto. split. left; auto. intros; discriminate.
  Qed.

  Lemma mu_nonneg : forall cs, cs_nonneg cs -> 0 <= mu1 cs /\ 0 <= mu2 cs.
  Proof.
    intros cs H. split; apply sumf_nonneg; intro id.
    - destruct (lookup id cs); lia.
    - destruct (lookup id cs) eqn:E; try lia. eauto.
  Qed.

  (* only the loop's own fuel produces OutOfFuel *)
  Lemma base_cost_not_oof : forall n, base_cost n d <> OutOfFuel.
  Proof. intro n. unfold base_cost. destruct (ncost n); discriminate. Qed.

  Lemma sum_operands_not_oof : forall cs ops total, sum_operands body cs d ops total <> OutOfFuel.
  Proof.
    intros cs. induction ops as [|o r IH]; intro total; simpl; try discriminate.
    destruct o as [i|j]; auto. destruct (find_node j body) as [dn|]; try discriminate.
    destruct (is_class dn).
    - destruct (lookup j cs); auto; discriminate.
    - destruct (base_cost dn d) eqn:Eb; auto; try discriminate.
      exfalso. eapply base_cost_not_oof; eauto.
  Qed.

  Lemma calc_total_not_oof : forall cs m, calc_total body cs d m <> OutOfFuel.
  Proof.
    intros cs m. unfold calc_total. destruct m as [i|id]; try discriminate.
    destruct (find_node id body) as [op|]; try discriminate. destruct (is_class op); try discriminate.
    destruct (base_cost op d) as [[nc|]| |] eqn:Eb; try discriminate.
    - apply sum_operands_not_oof.
    - exfalso. eapply base_cost_not_oof; eauto.
  Qed.

  Lemma sweep_members_not_oof : forall cid members idx st, sweep_members body d cid members idx st <> OutOfFuel.
  Proof.
    intros cid. induction members as [|m r IH]; intros idx st; simpl; try discriminate.
    destruct st as [[cs ms] ch]. destruct (calc_total body cs d m) as [[t|]| |] eqn:Ec; auto; try discriminate.
    exfalso. eapply calc_total_not_oof; eauto.
  Qed.

  Lemma sweep_classes_not_oof : forall todo st, sweep_classes body d todo st <> OutOfFuel.
  Proof.
    induction todo as [|n r IH]; intro st; simpl; try discriminate.
    destruct (is_class n); auto.
    destruct (sweep_members body d (nid n) (nops n) 0 st) eqn:E; auto; try discriminate.
    exfalso. eapply sweep_members_not_oof; eauto.
  Qed.

  Lemma fix_loop_terminates_aux : forall n1 n2 cs ms,
      costs_nonneg -> cs_nonneg cs -> mu1 cs = Z.of_nat n1 -> mu2 cs = Z.of_nat n2 ->
      exists fuel, fix_loop fuel body d cs ms <> OutOfFuel.
  Proof.
    induction n1 as [n1 IH1] using lt_wf_ind. induction n2 as [n2 IH2] using lt_wf_ind.
    intros cs ms Hc Hcs H1 H2.
    destruct (sweep_classes body d body (cs, ms, false)) as [[[cs1 ms1] ch1]| |] eqn:E.
    - destruct (sweep_progress _ _ _ _ _ Hc Hcs E) as [Hcs1 Hlt]. destruct ch1.
      + specialize (Hlt eq_refl). destruct (mu_nonneg _ Hcs1) as [P1 P2].
        unfold lex_lt, mu in Hlt; simpl in Hlt.
        assert (Hex : exists fuel, fix_loop fuel body d cs1 ms1 <> OutOfFuel).
        { destruct Hlt as [Hlt|[Heq Hlt]].
          - apply (IH1 (Z.to_nat (mu1 cs1))) with (n2 := Z.to_nat (mu2 cs1)); auto; lia.
          - apply (IH2 (Z.to_nat (mu2 cs1))); auto; lia. }
        destruct Hex as [f Hf]. exists (S f). simpl. rewrite E. exact Hf.
      + exists 1%nat. simpl. rewrite E. discriminate.
    - exists 1%nat. simpl. rewrite E. discriminate.
    - exfalso. revert E. apply sweep_classes_not_oof.
  Qed.

  Theorem fix_loop_terminates : forall ms,
      costs_nonneg -> exists fuel, forall k, exists r, fix_loop (fuel + k) body d [] ms = r /\ r <> OutOfFuel.
  Proof.
    intros ms Hc.
    assert (Hcs : cs_nonneg []) by (intros id b H; discriminate).
    destruct (mu_nonneg _ Hcs) as [P1 P2].
    destruct (fix_loop_terminates_aux (Z.to_nat (mu1 [])) (Z.to_nat (mu2 [])) [] ms Hc Hcs) as [f Hf]; try lia.
    exists f. intro k. exists (fix_loop f body d [] ms). split; auto. apply fix_loop_more_fuel; auto.
  Qed.
End Loop.

(* ------------------------------------------------------------------ *)
(* which classes get a cost: the least set closed under
     a class is costable if one of its members is computable;
     a block argument is computable; an operation is computable if it has a base cost and every
     operand that is an e-class is costable; a class used as a member is computable if costable *)
Section Costable.
  Variable body : list node.
  Variable d : option Z.

  Inductive costable : Z -> Prop :=
  | costable_intro : forall c m,
      In c body -> is_class c = true -> In m (nops c) -> member_ok m -> costable (nid c)
  with member_ok : val -> Prop :=
  | mo_arg : forall i, member_ok (VArg i)
  | mo_cls : forall id c,
      find_node id body = Some c -> is_class c = true -> costable id -> member_ok (VRes id)
  | mo_op : forall id op nc,
      find_node id body = Some op -> is_class op = false -> base_cost op d = Ok (Some nc) ->
      (forall j dj, In (VRes j) (nops op) -> find_node j body = Some dj -> is_class dj = true -> costable j) ->
      member_ok (VRes id).

  Scheme costable_mind := Minimality for costable Sort Prop
    with member_ok_mind := Minimality for member_ok Sort Prop.

  Variable cs : list (Z * Z).
  Hypothesis settled :
    forall n m, In n body -> is_class n = true -> In m (nops n) -> member_settled body d cs (nid n) m.

  Lemma sum_operands_some : forall ops total ot,
      (forall j dj, In (VRes j) ops -> find_node j body = Some dj -> is_class dj = true ->
                    exists b, lookup j cs = Some b) ->
      sum_operands body cs d ops total = Ok ot -> exists t, ot = Some t.
  Proof.
    induction ops as [|o r IH]; intros total ot Hc H; simpl in H.
    - inversion H. eauto.
    - assert (Hc' : forall j dj, In (VRes j) r -> find_node j body = Some dj -> is_class dj = true ->
                                 exists b, lookup j cs = Some b) by (intros; eapply Hc; eauto; right; auto).
      destruct o as [i|j]; [eapply IH; eauto|].
      destruct (find_node j body) as [dn|] eqn:Ef; try discriminate.
      destruct (is_class dn) eqn:Ecl.
      + destruct (Hc j dn (or_introl eq_refl) Ef Ecl) as [b Hb]. rewrite Hb in H. eapply IH; eauto.
      + destruct (base_cost dn d) as [oc| |]; try discriminate. eapply IH; eauto.
  Qed.

  Lemma costable_has_cost : forall id, costable id -> exists b, lookup id cs = Some b.
  Proof.
    apply (costable_mind
             (fun id => exists b, lookup id cs = Some b)
             (fun m => forall ot, calc_total body cs d m = Ok ot -> exists t, ot = Some t)).
    - intros c m Hc Hcl Hm _ IHm. destruct (settled c m Hc Hcl Hm) as [ot [Hct Hb]].
      destruct (IHm ot Hct) as [t Ht]. specialize (Hb t Ht). unfold better in Hb.
      destruct (lookup (nid c) cs) as [b|]; [eauto | discriminate].
    - intros i ot H. simpl in H. inversion H. eauto.
    - intros id c Hf Hcl _ [b Hb] ot H. simpl in H. rewrite Hf, Hcl in H. inversion H. eauto.
    - intros id op nc Hf Hcl Hbc _ IHops ot H. simpl in H. rewrite Hf, Hcl, Hbc in H.
      eapply sum_operands_some; eauto.
  Qed.
End Costable.

(* ------------------------------------------------------------------ *)
(* results about add_eqsat_costs as a whole *)

Lemma first_pass_nonneg : forall d dict body b',
    (forall n c, In n body -> ncost n = CInt c -> 0 <= c) ->
    (forall k c, lookup k dict = Some c -> 0 <= c) -> (forall c, d = Some c -> 0 <= c) ->
    first_pass d dict body = Ok b' -> forall n c, In n b' -> ncost n = CInt c -> 0 <= c.
Proof.
  intros d dict. induction body as [|x r IH]; simpl; intros b' Hp Hd Hdef H n c Hin Hc.
  - inversion H; subst. destruct Hin.
  - assert (Hp' : forall n c, In n r -> ncost n = CInt c -> 0 <= c) by (intros; eapply Hp; eauto).
    destruct (first_pass d dict r) as [r'| |] eqn:Er.
    2,3: (destruct (nres x =? 0); [discriminate|]; destruct (ncost x); try discriminate;
          destruct (lookup (nname x) dict); try discriminate;
          destruct (negb (nres x =? 1)); try discriminate; destruct (is_class x); try discriminate;
          destruct d; discriminate).
    specialize (IH r' Hp' Hd Hdef eq_refl).
    assert (Hx : forall x', b' = x' :: r' -> (forall c, ncost x' = CInt c -> 0 <= c) -> 0 <= c).
    { intros x' Hb Hx'. subst. destruct Hin as [Hin|Hin]; [subst; eauto | eapply IH; eauto]. }
    destruct (nres x =? 0). { inversion H as [Hb']. try solve [eapply Hx; eauto; simpl; intros c1 Hc1; first [congruence | inversion Hc1; subst; eauto | (eapply Hp; eauto; congruence)]]. }
    destruct (ncost x) eqn:Ecx.
    + destruct (lookup (nname x) dict) as [c0|] eqn:El.
      * inversion H as [Hb']. try solve [eapply Hx; eauto; simpl; intros c1 Hc1; first [congruence | inversion Hc1; subst; eauto | (eapply Hp; eauto; congruence)]].
      * destruct (negb (nres x =? 1)); try discriminate. destruct (is_class x).
        -- inversion H as [Hb']. try solve [eapply Hx; eauto; simpl; intros c1 Hc1; first [congruence | inversion Hc1; subst; eauto | (eapply Hp; eauto; congruence)]].
        -- destruct d as [dd|]; inversion H as [Hb']; try solve [eapply Hx; eauto; simpl; intros c1 Hc1; first [congruence | inversion Hc1; subst; eauto | (eapply Hp; eauto; congruence)]].
    + inversion H as [Hb']. try solve [eapply Hx; eauto; simpl; intros c1 Hc1; first [congruence | inversion Hc1; subst; eauto | (eapply Hp; eauto; congruence)]].
    + inversion H as [Hb']. try solve [eapply Hx; eauto; simpl; intros c1 Hc1; first [congruence | inversion Hc1; subst; eauto | (eapply Hp; eauto; congruence)]].
Qed.

(* C28_costs_terminate: with non-negative costs (pre-set attributes, cost dictionary, default) some amount of
   fuel suffices, and any larger amount gives the same answer *)
Theorem add_costs_terminates : forall d dict p,
    (forall n c, In n (p_body p) -> ncost n = CInt c -> 0 <= c) ->
    (forall k c, lookup k dict = Some c -> 0 <= c) -> (forall c, d = Some c -> 0 <= c) ->
    exists fuel, forall k, add_costs (fuel + k) d dict p <> OutOfFuel /\
                           add_costs (fuel + k) d dict p = add_costs fuel d dict p.
Proof.
  intros d dict p Hp Hd Hdef. unfold add_costs. destruct (existsb is_class (p_body p)).
  - unfold add_eqsat_costs. destruct (first_pass d dict (p_body p)) as [b1| |] eqn:E1.
    + assert (Hnn : costs_nonneg b1 d).
      { split; auto. intros n c Hn Hc. eapply first_pass_nonneg; eauto. }
      destruct (fix_loop_terminates b1 d [] Hnn) as [f Hf]. exists f. intro k.
      destruct (Hf 0%nat) as [r0 [Hr0 Hr0']]. rewrite Nat.add_0_r in Hr0.
      assert (Heq : fix_loop (f + k) b1 d [] [] = r0) by (apply fix_loop_more_fuel; auto).
      rewrite Heq, Hr0. split; auto. destruct r0 as [[cs ms]| |]; try discriminate. congruence.
    + exists 0%nat. intro k. split; auto. discriminate.
    + exists 0%nat. intro k. split; auto.
      (* first_pass never reports OutOfFuel *)
      exfalso. clear -E1. revert E1. induction (p_body p) as [|x r IH]; simpl; try discriminate.
      destruct (first_pass d dict r) as [r'| |]; intro H;
        destruct (nres x =? 0); try discriminate; destruct (ncost x); try discriminate;
        destruct (lookup (nname x) dict); try discriminate;
        destruct (negb (nres x =? 1)); try discriminate; destruct (is_class x); try discriminate;
        destruct d; try discriminate; auto.
  - exists 0%nat. intro k. split; auto. discriminate.
Qed.

(* C28_costs_minimal: when the loop stops, the cost of a class is at most the total cost of each of its
   members (under the final class costs), and the class has an index in range *)
Theorem costs_minimal : forall fuel body d cs ms,
    fix_loop fuel body d [] [] = Ok (cs, ms) ->
    forall c m t, In c body -> is_class c = true -> In m (nops c) ->
                  calc_total body cs d m = Ok (Some t) ->
                  exists b i, lookup (nid c) cs = Some b /\ b <= t /\
                              lookup (nid c) ms = Some i /\ 0 <= i.
Proof.
  intros fuel body d cs ms H c m t Hc Hcl Hm Hct.
  apply fix_loop_result in H. 2: (intros cid b Hl; discriminate).
  destruct H as [Hinv Hset]. destruct (Hset c m Hc Hcl Hm) as [ot [Hot Hb]].
  rewrite Hct in Hot. inversion Hot; subst. specialize (Hb t eq_refl). unfold better in Hb.
  destruct (lookup (nid c) cs) as [b|] eqn:El; try discriminate.
  apply Z.ltb_ge in Hb.
  destruct (Hinv _ _ El) as [i [c' [Hi [_ [_ [_ Hr]]]]]]. exists b, i. repeat split; auto; lia.
Qed.

Lemma apply_mci_In : forall ms body n', In n' (apply_mci ms body) ->
    exists n, In n body /\ same_struct n n' /\
              nmci n' = match lookup (nid n) ms with Some i => Some i | None => nmci n end.
Proof.
  intros ms body n' H. unfold apply_mci in H. apply in_map_iff in H. destruct H as [n [Hn Hin]].
  exists n. split; auto. subst. destruct (lookup (nid n) ms); repeat split.
Qed.

(* C28_extract_total (cost part): every costable class ends with a min_cost_index in range *)
Theorem costable_chosen : forall fuel d dict body body',
    NoDup (map nid body) ->
    add_eqsat_costs fuel d dict body = Ok body' ->
    exists body1, first_pass d dict body = Ok body1 /\
      forall c', In c' body' -> is_class c' = true -> costable body1 d (nid c') ->
                 exists i, nmci c' = Some i /\ 0 <= i < Z.of_nat (length (nops c')).
Proof.
  intros fuel d dict body body' Hnd H. unfold add_eqsat_costs in H.
  destruct (first_pass d dict body) as [b1| |] eqn:E1; try discriminate. exists b1. split; auto.
  destruct (fix_loop fuel b1 d [] []) as [[cs ms]| |] eqn:E2; try discriminate. inversion H; subst. clear H.
  apply fix_loop_result in E2. 2: (intros cid b Hl; discriminate).
  destruct E2 as [Hinv Hset]. intros c' Hc' Hcl Hcost.
  destruct (costable_has_cost b1 d cs Hset _ Hcost) as [b Hb].
  destruct (Hinv _ _ Hb) as [i [c [Hi [Hc [Hccl [Hcid Hr]]]]]].
  apply apply_mci_In in Hc'. destruct Hc' as [n [Hn [Hs Hm]]].
  assert (Hnd1 : NoDup (map nid b1)).
  { rewrite (struct_map_nid _ _ (first_pass_struct _ _ _ _ E1)). exact Hnd. }
  destruct Hs as [S1 [S2 [S3 [S4 S5]]]].
  assert (n = c) by (eapply NoDup_nid_inj; eauto; congruence). subst n.
  exists i. rewrite Hm. rewrite <- S1, Hi. split; auto. rewrite S4. exact Hr.
Qed.

(* ------------------------------------------------------------------ *)
(* a negative cost on a cycle: x = x * 1 with eqsat_cost -1 on the multiplication.
   The loop lowers the cost of the class by one in every sweep: no amount of fuel suffices. *)
Definition neg_cycle : list node :=
  [ Node 0 3 1 [] 1 (CInt 0) None;                       (* %one = arith.constant 1 *)
    Node 1 N_CLASS 0 [VRes 0] 1 CNone None;              (* %one_c = class %one *)
    Node 2 5 0 [VRes 3; VRes 1] 1 (CInt (-1)) None;      (* %m = arith.muli %x_c, %one_c  {eqsat_cost = -1} *)
    Node 3 N_CLASS 0 [VRes 2; VArg 0] 1 CNone None;      (* %x_c = class %m, %x *)
    Node 4 N_RET 0 [VRes 3] 0 CNone None ].

Lemma neg_calc_one : forall cs, calc_total neg_cycle cs (Some 0) (VRes 0) = Ok (Some 0).
Proof. reflexivity. Qed.

Lemma neg_calc_mul : forall cs b,
    lookup 1 cs = Some 0 -> lookup 3 cs = Some b ->
    calc_total neg_cycle cs (Some 0) (VRes 2) = Ok (Some (-1 + b + 0)).
Proof.
  intros cs b H1 H3. unfold calc_total.
  change (find_node 2 neg_cycle) with (Some (Node 2 5 0 [VRes 3; VRes 1] 1 (CInt (-1)) None)).
  change (is_class (Node 2 5 0 [VRes 3; VRes 1] 1 (CInt (-1)) None)) with false.
  change (base_cost (Node 2 5 0 [VRes 3; VRes 1] 1 (CInt (-1)) None) (Some 0)) with (Ok (Some (-1)) : res (option Z)).
  cbn iota. cbn [nops sum_operands].
  change (find_node 3 neg_cycle) with (Some (Node 3 N_CLASS 0 [VRes 2; VArg 0] 1 CNone None)).
  change (is_class (Node 3 N_CLASS 0 [VRes 2; VArg 0] 1 CNone None)) with true. cbn iota. rewrite H3.
  change (find_node 1 neg_cycle) with (Some (Node 1 N_CLASS 0 [VRes 0] 1 CNone None)).
  change (is_class (Node 1 N_CLASS 0 [VRes 0] 1 CNone None)) with true. cbn iota. rewrite H1.
  reflexivity.
Qed.

Lemma neg_cycle_step : forall cs ms b,
    lookup 1 cs = Some 0 -> lookup 3 cs = Some b -> b <= 0 ->
    exists cs' ms', sweep_classes neg_cycle (Some 0) neg_cycle (cs, ms, false) = Ok (cs', ms', true) /\
                    lookup 1 cs' = Some 0 /\ lookup 3 cs' = Some (b - 1).
Proof.
  intros cs ms b H1 H3 Hb.
  exists ((3, -1 + b + 0) :: cs), ((3, 0) :: ms). split; [|split].
  - unfold neg_cycle at 2. cbn [sweep_classes].
    change (is_class (Node 0 3 1 [] 1 (CInt 0) None)) with false.
    change (is_class (Node 1 N_CLASS 0 [VRes 0] 1 CNone None)) with true.
    change (is_class (Node 2 5 0 [VRes 3; VRes 1] 1 (CInt (-1)) None)) with false.
    change (is_class (Node 3 N_CLASS 0 [VRes 2; VArg 0] 1 CNone None)) with true.
    change (is_class (Node 4 N_RET 0 [VRes 3] 0 CNone None)) with false.
    cbn iota. cbn [nid nops sweep_members].
    rewrite neg_calc_one. rewrite H1. change (0 <? 0) with false. cbn iota.
    rewrite (neg_calc_mul cs b H1 H3). rewrite H3.
    replace (-1 + b + 0 <? b) with true by (symmetry; apply Z.ltb_lt; lia). cbn iota.
    cbn [calc_total]. rewrite lookup_cons. change (3 =? 3) with true. cbn iota.
    replace (0 <? -1 + b + 0) with false by (symmetry; apply Z.ltb_ge; lia). reflexivity.
  - rewrite lookup_cons. change (3 =? 1) with false. exact H1.
  - rewrite lookup_cons. change (3 =? 3) with true. cbn iota. f_equal. lia.
Qed.

Lemma neg_cycle_diverges_from : forall fuel cs ms b,
    lookup 1 cs = Some 0 -> lookup 3 cs = Some b -> b <= 0 ->
    fix_loop fuel neg_cycle (Some 0) cs ms = OutOfFuel.
Proof.
  induction fuel as [|f IH]; intros cs ms b H1 H3 Hb; auto.
  destruct (neg_cycle_step cs ms b H1 H3 Hb) as [cs' [ms' [Hs [H1' H3']]]].
  cbn [fix_loop]. rewrite Hs. apply (IH cs' ms' (b - 1)); auto. lia.
Qed.

Theorem neg_cycle_never_terminates : forall fuel,
    add_costs fuel (Some 0) [] (Prog 1 neg_cycle) = OutOfFuel.
Proof.
  intros fuel.
  assert (H : fix_loop fuel neg_cycle (Some 0) [] [] = OutOfFuel).
  { destruct fuel as [|f]; auto. cbn [fix_loop].
    assert (Hs : sweep_classes neg_cycle (Some 0) neg_cycle ([], [], false)
                 = Ok ([(3, 0); (1, 0)], [(3, 1); (1, 0)], true)) by (vm_compute; reflexivity).
    rewrite Hs. apply (neg_cycle_diverges_from f _ _ 0); auto; lia. }
  unfold add_costs. cbn [p_body].
  assert (He : existsb is_class neg_cycle = true) by reflexivity. rewrite He.
  unfold add_eqsat_costs.
  assert (Hf : first_pass (Some 0) [] neg_cycle = Ok neg_cycle) by reflexivity. rewrite Hf.
  rewrite H. reflexivity.
Qed.

(* ------------------------------------------------------------------ *)
(* cost assignment followed by extraction *)
Theorem costs_extract_sound : forall sem args rho fuel d dict g g' p' rs,
    ids_ok (p_body g) -> models sem args rho (p_body g) ->
    add_costs fuel d dict g = Ok g' -> extract g' = Ok p' -> eval sem args p' = Some rs ->
    hd_error (obs args rho (p_body g)) = Some rs.
Proof.
  intros sem args rho fuel d dict g g' p' rs Hids Hm Hc He Hev.
  destruct (add_costs_struct _ _ _ _ _ Hc) as [_ Hs].
  rewrite <- (struct_obs args rho _ _ Hs).
  eapply extract_sound; eauto.
  - eapply struct_ids_ok; eauto.
  - eapply struct_models; eauto.
Qed.
