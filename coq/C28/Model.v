(* C28/Model.v -- executable model of the e-graph passes of xDSL (no proofs here).

   Mirrors, statement by statement,
     xdsl/transforms/eqsat_create_eclasses.py   insert_eclass_ops            -> create
     xdsl/transforms/eqsat_add_costs.py         get_node_base_cost, calculate_node_total_cost,
                                                add_eqsat_costs, EqsatAddCostsPass.apply -> add_costs
     xdsl/transforms/eqsat_extract.py           eqsat_extract                -> extract
   on a self-contained representation of ONE function body (a single block):

     a program is the number of block arguments and the list of operations in block order;
     an operation (node) has an identity `nid`, its op name `nname` (a code; func.return,
     equivalence.class and equivalence.const_class have fixed codes), an opaque payload `nattr`
     (properties / other attributes; only the semantics looks at it), its operand list, its number
     of results, the `eqsat_cost` attribute and the `min_cost_index` attribute.
     A value is a block argument or the (first) result of the node with a given id; the use list
     of a value is recomputed from the operand lists (C01 shows they agree).

   Python exceptions are explicit result constructors; the `while changed` loop of add_eqsat_costs
   is fuelled (OutOfFuel), the proofs show when fuel suffices. *)
From Coq Require Import ZArith List Bool.
Import ListNotations.
Local Open Scope Z_scope.

Inductive val := VArg (i : Z) | VRes (id : Z).

(* the `eqsat_cost` entry of op.attributes: absent, an IntAttr, or some other attribute *)
Inductive cattr := CNone | CInt (c : Z) | CBad.

Record node := Node {
  nid : Z; nname : Z; nattr : Z; nops : list val; nres : Z; ncost : cattr; nmci : option Z }.

Definition N_RET : Z := 0.      (* func.return *)
Definition N_CLASS : Z := 1.    (* equivalence.class *)
Definition N_CCLASS : Z := 2.   (* equivalence.const_class *)

Record prog := Prog { p_nargs : Z; p_body : list node }.

Inductive err :=
| ENonSingle   (* create: DiagnosticException "Ops with non-single results not handled" *)
| EMultiCost   (* add_costs: DiagnosticException "Cannot compute cost of one result of operation with multiple results" *)
| EBadCost     (* add_costs: DiagnosticException "Unexpected value ... for key eqsat_cost" *)
| EIndex       (* extract: op.operands[min_cost_index] IndexError *)
| EEraseUsed   (* extract: ValueError "Attempting to delete SSA value that still has uses" *)
| EGone        (* outside the modelled domain: a reference to an operation that is not in the block *).

Inductive res (A : Type) := Ok (a : A) | Err (e : err) | OutOfFuel.
Arguments Ok {A} a. Arguments Err {A} e. Arguments OutOfFuel {A}.

Definition val_eqb (a b : val) : bool :=
  match a, b with
  | VArg i, VArg j => i =? j
  | VRes i, VRes j => i =? j
  | _, _ => false
  end.

Definition is_ClassOp (n : node) : bool := nname n =? N_CLASS.                       (* isinstance(_, ClassOp) *)
Definition is_class (n : node) : bool := (nname n =? N_CLASS) || (nname n =? N_CCLASS). (* AnyClassOp *)

Definition set_ops (n : node) (l : list val) : node :=
  Node (nid n) (nname n) (nattr n) l (nres n) (ncost n) (nmci n).
Definition set_cost (n : node) (c : cattr) : node :=
  Node (nid n) (nname n) (nattr n) (nops n) (nres n) c (nmci n).
Definition set_mci (n : node) (m : option Z) : node :=
  Node (nid n) (nname n) (nattr n) (nops n) (nres n) (ncost n) m.

Fixpoint find_node (id : Z) (body : list node) : option node :=
  match body with
  | [] => None
  | n :: r => if nid n =? id then Some n else find_node id r
  end.

(* SSAValue.replace_uses_with_if(new, pred): every use whose user passes pred *)
Definition subst_val (old new v : val) : val := if val_eqb v old then new else v.
Definition replace_uses_if (p : node -> bool) (old new : val) (body : list node) : list node :=
  map (fun n => if p n then set_ops n (map (subst_val old new) (nops n)) else n) body.

(* ------------------------------------------------------------------ *)
(* eqsat-create-eclasses *)

Definition mk_class (id : Z) (v : val) : node := Node id N_CLASS 0 [v] 1 CNone None.

Fixpoint insert_after (id : Z) (c : node) (body : list node) : list node :=
  match body with
  | [] => []
  | n :: r => if nid n =? id then n :: c :: r else n :: insert_after id c r
  end.

Definition not_ClassOp (u : node) : bool := negb (is_ClassOp u).

(* `for op in block.ops:` -- the iterator reads the next pointer before yielding, so exactly the
   operations present at the start are visited (`snap`), not the classes inserted on the way *)
Fixpoint create_ops (snap body : list node) (next : Z) : res (list node * Z) :=
  match snap with
  | [] => Ok (body, next)
  | op :: rest =>
      if nname op =? N_RET then create_ops rest body next
      else if negb (nres op =? 1) then Err ENonSingle
      else
        let body1 := insert_after (nid op) (mk_class next (VRes (nid op))) body in
        let body2 := replace_uses_if not_ClassOp (VRes (nid op)) (VRes next) body1 in
        create_ops rest body2 (next + 1)
  end.

(* `for arg in block.args:` each class is inserted at the START of the block *)
Fixpoint create_args (args : list Z) (body : list node) (next : Z) : list node * Z :=
  match args with
  | [] => (body, next)
  | i :: rest =>
      let body1 := mk_class next (VArg i) :: body in
      let body2 := replace_uses_if not_ClassOp (VArg i) (VRes next) body1 in
      create_args rest body2 (next + 1)
  end.

Definition fresh_id (body : list node) : Z := fold_right (fun n m => Z.max (nid n + 1) m) 0 body.
Definition arg_ids (nargs : Z) : list Z := map Z.of_nat (seq 0 (Z.to_nat nargs)).

Definition create (p : prog) : res prog :=
  match create_ops (p_body p) (p_body p) (fresh_id (p_body p)) with
  | Ok (body, next) => Ok (Prog (p_nargs p) (fst (create_args (arg_ids (p_nargs p)) body next)))
  | Err e => Err e
  | OutOfFuel => OutOfFuel
  end.

(* ------------------------------------------------------------------ *)
(* eqsat-add-costs *)

Definition base_cost (n : node) (default : option Z) : res (option Z) :=
  match ncost n with
  | CNone => Ok default
  | CInt c => Ok (Some c)
  | CBad => Err EBadCost
  end.

Fixpoint lookup (k : Z) (m : list (Z * Z)) : option Z :=
  match m with
  | [] => None
  | (k', v) :: r => if k' =? k then Some v else lookup k r
  end.

(* first loop of add_eqsat_costs *)
Fixpoint first_pass (default : option Z) (dict : list (Z * Z)) (body : list node) : res (list node) :=
  match body with
  | [] => Ok []
  | n :: r =>
      let rest (n' : node) :=
        match first_pass default dict r with Ok r' => Ok (n' :: r') | e => e end in
      if nres n =? 0 then rest n
      else match ncost n with
           | CNone =>
               match lookup (nname n) dict with
               | Some c => rest (set_cost n (CInt c))
               | None =>
                   if negb (nres n =? 1) then Err EMultiCost
                   else if is_class n then rest n
                   else match default with
                        | Some d => rest (set_cost n (CInt d))
                        | None => rest n
                        end
               end
           | _ => rest n
           end
  end.

(* the `for operand in op.operands` loop of calculate_node_total_cost *)
Fixpoint sum_operands (body : list node) (costs : list (Z * Z)) (default : option Z)
         (ops : list val) (total : Z) : res (option Z) :=
  match ops with
  | [] => Ok (Some total)
  | VArg _ :: r => sum_operands body costs default r (total + 0)
  | VRes j :: r =>
      match find_node j body with
      | None => Err EGone
      | Some d =>
          if is_class d then
            match lookup j costs with
            | None => Ok None
            | Some c => sum_operands body costs default r (total + c)
            end
          else
            match base_cost d default with
            | Ok oc => sum_operands body costs default r (total + match oc with Some c => c | None => 0 end)
            | Err e => Err e
            | OutOfFuel => OutOfFuel
            end
      end
  end.

Definition calc_total (body : list node) (costs : list (Z * Z)) (default : option Z) (v : val)
  : res (option Z) :=
  match v with
  | VArg _ => Ok (Some 0)
  | VRes id =>
      match find_node id body with
      | None => Err EGone
      | Some op =>
          if is_class op then Ok (lookup id costs)
          else match base_cost op default with
               | Ok None => Ok None
               | Ok (Some nc) => sum_operands body costs default (nops op) nc
               | Err e => Err e
               | OutOfFuel => OutOfFuel
               end
      end
  end.

(* state of the fixed-point loop: eclass_costs, the min_cost_index written so far, `changed` *)
Definition cstate := (list (Z * Z) * list (Z * Z) * bool)%type.

Fixpoint sweep_members (body : list node) (default : option Z) (cid : Z)
         (members : list val) (idx : Z) (st : cstate) : res cstate :=
  match members with
  | [] => Ok st
  | m :: r =>
      let '(cs, ms, ch) := st in
      match calc_total body cs default m with
      | Ok None => sweep_members body default cid r (idx + 1) st
      | Ok (Some t) =>
          (* `if current_best is None or total_cost < current_best:` *)
          let better := match lookup cid cs with None => true | Some b => t <? b end in
          sweep_members body default cid r (idx + 1)
            (if better then ((cid, t) :: cs, (cid, idx) :: ms, true) else st)
      | Err e => Err e
      | OutOfFuel => OutOfFuel
      end
  end.

Fixpoint sweep_classes (body : list node) (default : option Z) (todo : list node) (st : cstate)
  : res cstate :=
  match todo with
  | [] => Ok st
  | n :: r =>
      if is_class n then
        match sweep_members body default (nid n) (nops n) 0 st with
        | Ok st' => sweep_classes body default r st'
        | e => e
        end
      else sweep_classes body default r st
  end.

Fixpoint fix_loop (fuel : nat) (body : list node) (default : option Z)
         (cs ms : list (Z * Z)) : res (list (Z * Z) * list (Z * Z)) :=
  match fuel with
  | O => OutOfFuel
  | S f =>
      match sweep_classes body default body (cs, ms, false) with
      | Ok (cs', ms', true) => fix_loop f body default cs' ms'
      | Ok (cs', ms', false) => Ok (cs', ms')
      | Err e => Err e
      | OutOfFuel => OutOfFuel
      end
  end.

Definition apply_mci (ms : list (Z * Z)) (body : list node) : list node :=
  map (fun n => match lookup (nid n) ms with Some i => set_mci n (Some i) | None => n end) body.

Definition add_eqsat_costs (fuel : nat) (default : option Z) (dict : list (Z * Z)) (body : list node)
  : res (list node) :=
  match first_pass default dict body with
  | Ok body1 =>
      match fix_loop fuel body1 default [] [] with
      | Ok (_, ms) => Ok (apply_mci ms body1)
      | Err e => Err e
      | OutOfFuel => OutOfFuel
      end
  | e => e
  end.

(* EqsatAddCostsPass.apply: only blocks that contain an e-class operation are touched *)
Definition add_costs (fuel : nat) (default : option Z) (dict : list (Z * Z)) (p : prog) : res prog :=
  if existsb is_class (p_body p) then
    match add_eqsat_costs fuel default dict (p_body p) with
    | Ok b => Ok (Prog (p_nargs p) b)
    | Err e => Err e
    | OutOfFuel => OutOfFuel
    end
  else Ok p.

(* the fuel the case files use: number of sweeps *)
Definition default_fuel (p : prog) : nat := (2 * length (p_body p) + 4)%nat.

(* ------------------------------------------------------------------ *)
(* eqsat-extract *)

Definition uses_val (v : val) (n : node) : bool := existsb (val_eqb v) (nops n).
Definition has_uses (id : Z) (body : list node) : bool := existsb (uses_val (VRes id)) body.

Fixpoint remove_node (id : Z) (body : list node) : list node :=
  match body with
  | [] => []
  | n :: r => if nid n =? id then r else n :: remove_node id r
  end.

(* Rewriter.erase_op: detach, drop the op's own operand uses, then every result must be unused.
   An operation that was erased before has no parent and no uses: erasing it again does nothing. *)
Definition erase_op (id : Z) (body : list node) : res (list node) :=
  match find_node id body with
  | None => Ok body
  | Some _ =>
      let body' := remove_node id body in
      if has_uses id body' then Err EEraseUsed else Ok body'
  end.

Fixpoint erase_all (ids : list Z) (body : list node) : res (list node) :=
  match ids with
  | [] => Ok body
  | i :: r => match erase_op i body with Ok b => erase_all r b | e => e end
  end.

(* owners of the OpResult operands, optionally skipping position `skip` *)
Fixpoint owners (ops : list val) (i : Z) (skip : option Z) : list Z :=
  match ops with
  | [] => []
  | v :: r =>
      let rest := owners r (i + 1) skip in
      match v with
      | VRes j => match skip with
                  | Some k => if i =? k then rest else j :: rest
                  | None => j :: rest
                  end
      | VArg _ => rest
      end
  end.

(* Python sequence indexing with a possibly negative index *)
Definition py_nth (ops : list val) (k : Z) : option val :=
  let len := Z.of_nat (length ops) in
  let k' := if k <? 0 then k + len else k in
  if (k' <? 0) || (len <=? k') then None else nth_error ops (Z.to_nat k').

Definition clear_cost_of (v : val) (body : list node) : list node :=
  match v with
  | VRes j => map (fun n => if nid n =? j then set_cost n CNone else n) body
  | VArg _ => body
  end.

Definition extract_step (cid : Z) (body : list node) : res (list node) :=
  match find_node cid body with
  | None => Err EGone
  | Some c =>
      if negb (has_uses cid body) then erase_all (cid :: owners (nops c) 0 None) body
      else match nmci c with
           | Some k =>
               match py_nth (nops c) k with
               | None => Err EIndex
               | Some v =>
                   let body1 := replace_uses_if (fun u => negb (nid u =? cid)) (VRes cid) v body in
                   let body2 := clear_cost_of v body1 in
                   erase_all (cid :: owners (nops c) 0 (Some k)) body2
               end
           | None => Ok body
           end
  end.

Fixpoint extract_loop (cids : list Z) (body : list node) : res (list node) :=
  match cids with
  | [] => Ok body
  | c :: r => match extract_step c body with Ok b => extract_loop r b | e => e end
  end.

Definition class_ids (body : list node) : list Z := map nid (filter is_class body).

(* eclass_ops = [class ops in walk order]; `while eclass_ops: op = eclass_ops.pop()` *)
Definition extract (p : prog) : res prog :=
  match extract_loop (rev (class_ids (p_body p))) (p_body p) with
  | Ok b => Ok (Prog (p_nargs p) b)
  | Err e => Err e
  | OutOfFuel => OutOfFuel
  end.
