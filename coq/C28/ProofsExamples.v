(* C28/ProofsExamples.v -- concrete programs / e-graphs used as non-vacuity and behaviour witnesses
   in Props/C28.v (definitions and their proofs). *)
From Coq Require Import ZArith List Lia.
From XV Require Import C28.Model C28.Proofs C28.ProofsCosts C28.ProofsExtract C28.ProofsCreate.
Import ListNotations.
Local Open Scope Z_scope.

(* ------------------------------------------------------------------ *)
(* non-vacuity / behaviour witnesses (vm_compute) *)

(* tests/filecheck/projects/eqsat/identity.mlir: %c2 = constant 2; %res = muli %x, %c2; return %res *)
Definition ex_identity : prog :=
  Prog 1 [ Node 0 3 2 [] 1 CNone None; Node 1 5 0 [VArg 0; VRes 0] 1 CNone None; Node 2 N_RET 0 [VRes 1] 0 CNone None ].

Definition pipeline (fuel : nat) (d : option Z) (p : prog) : res prog :=
  match create p with
  | Ok g => match add_costs fuel d [] g with Ok g' => extract g' | e => e end
  | e => e
  end.

(* on it the pipeline is the syntactic identity *)
Lemma C28_identity_example_pf : pipeline 10 (Some 1) ex_identity = Ok ex_identity.
Proof. vm_compute. reflexivity. Qed.

(* the hypothesis of C28_create_extract_id is satisfiable *)
Lemma C28_wf_src_example_pf : wf_src (p_body ex_identity).
Proof.
  split; [|split; [|split]].
  - split.
    + simpl. repeat (constructor; [simpl; intuition discriminate|]). constructor.
    + simpl. split; [intros j []|]. split.
      * intros j [H|[H|[]]]; [discriminate | inversion H; subst; left; reflexivity].
      * split; [|exact I]. intros j [H|[]]. inversion H; subst. left; reflexivity.
  - intros n [H|[H|[H|[]]]]; subst n; (split; [reflexivity|]); unfold node_fine; simpl;
      (split; [discriminate|]); (split; [intros c Hc; discriminate | reflexivity]).
  - exists (Node 2 N_RET 0 [VRes 1] 0 CNone None). split; [right; right; left; reflexivity | reflexivity].
  - intros n j m Hn Hj Hm Hid.
    destruct Hm as [Hm|[Hm|[Hm|[]]]]; subst m; try reflexivity.
    simpl in Hid. subst j. exfalso.
    destruct Hn as [Hn|[Hn|[Hn|[]]]]; subst n; simpl in Hj;
      repeat (destruct Hj as [Hj|Hj]; try discriminate); try contradiction.
Qed.

(* a cyclic e-graph with a tie in cost: %x_c = class(%m, %x) with %m = muli %x_c, %one_c, all costs 0.
   The cost pass terminates, keeps the grounded member (index 1: the block argument), extraction returns %x. *)
Definition ex_cycle : prog :=
  Prog 1 [ Node 0 3 1 [] 1 (CInt 0) None; Node 1 N_CLASS 0 [VRes 0] 1 CNone None;
           Node 2 5 0 [VRes 3; VRes 1] 1 (CInt 0) None; Node 3 N_CLASS 0 [VRes 2; VArg 0] 1 CNone None;
           Node 4 N_RET 0 [VRes 3] 0 CNone None ].
Lemma C28_cycle_example_pf :
  match add_costs 10 (Some 0) [] ex_cycle with Ok g' => extract g' | e => e end
  = Ok (Prog 1 [ Node 4 N_RET 0 [VArg 0] 0 CNone None ]).
Proof. vm_compute. reflexivity. Qed.

(* hand-set indices may pick the cyclic member: extraction then yields an operation that uses its own
   result -- sound (C28_extract_sound is conditional on executability) but not executable *)
Lemma C28_cyclic_choice_not_executable_pf :
  forall sem args,
  match extract (Prog 1 [ Node 0 3 1 [] 1 CNone None; Node 1 N_CLASS 0 [VRes 0] 1 CNone (Some 0);
                          Node 2 5 0 [VRes 3; VRes 1] 1 CNone None;
                          Node 3 N_CLASS 0 [VRes 2; VArg 0] 1 CNone (Some 0);
                          Node 4 N_RET 0 [VRes 3] 0 CNone None ]) with
  | Ok p' => eval sem args p' = None
  | _ => False
  end.
Proof. intros. vm_compute. reflexivity. Qed.

(* the hypothesis of C28_extract_total is satisfiable by an e-graph with a two-member class whose
   second member is chosen *)
Definition ex_two : prog :=
  Prog 1 [ Node 0 N_CLASS 0 [VArg 0] 1 CNone (Some 0);
           Node 1 4 0 [VRes 0; VRes 0] 1 (CInt 2) None;
           Node 2 5 0 [VRes 0; VRes 0] 1 (CInt 1) None;
           Node 3 N_CLASS 0 [VRes 1; VRes 2] 1 CNone (Some 1);
           Node 4 N_RET 0 [VRes 3] 0 CNone None ].

Ltac in_cases H := simpl in H; repeat (destruct H as [H|H]; [try (inversion H; subst; clear H)|]); try contradiction.

Lemma C28_wf_egraph_example_pf : wf_egraph (p_body ex_two).
Proof.
  split; [|split; [|split]].
  - split.
    + simpl. repeat (constructor; [simpl; intuition discriminate|]). constructor.
    + simpl. repeat split; intros j Hj; in_cases Hj; simpl; auto 10.
  - intros cn Hcn Hcl. in_cases Hcn; try discriminate.
    + split. { constructor; [intros []|constructor]. } intros j Hj. in_cases Hj.
    + split. { constructor; [simpl; intuition discriminate|]. constructor; [intros []|constructor]. }
      intros j Hj. in_cases Hj.
      * split.
        -- intros m Hm Hid. in_cases Hm; simpl in Hid; try discriminate. split; reflexivity.
        -- intros n Hn Hu. in_cases Hn; in_cases Hu; reflexivity.
      * split.
        -- intros m Hm Hid. in_cases Hm; simpl in Hid; try discriminate. split; reflexivity.
        -- intros n Hn Hu. in_cases Hn; in_cases Hu; reflexivity.
  - intros cn Hcn Hcl. in_cases Hcn; try discriminate.
    + exists 0. simpl. split; [reflexivity|lia].
    + exists 1. simpl. split; [reflexivity|lia].
  - exists (Node 4 N_RET 0 [VRes 3] 0 CNone None). split; [simpl; auto 10 | reflexivity].
Qed.

Lemma C28_two_example_pf :
  extract ex_two = Ok (Prog 1 [ Node 2 5 0 [VArg 0; VArg 0] 1 CNone None; Node 4 N_RET 0 [VRes 2] 0 CNone None ]).
Proof. vm_compute. reflexivity. Qed.
