(* C28/Proofs.v -- semantics of programs and e-graphs (the Spec) and soundness of extraction.

   Spec, readable in a minute:
   * `eval`     : executes a block in order; an operation computes `sem name attr operand-values`
                  (uninterpreted), func.return yields its operand values; a use before its definition
                  or a left-over e-class makes the block not executable (None).
   * `models rho body` : the valuation rho (value of every operation's result) satisfies every node:
                  an operation's value is `sem` of its operands' values, and every member of an
                  e-class has the value of the class (this is the class invariant that sound rewrite
                  rules / union-find merging maintain -- the saturation engine is abstracted to it).
   * `obs rho body` : the values returned (operands of the return operations) under rho. *)
From Coq Require Import ZArith List Bool Lia.
From XV Require Import C28.Model.
Import ListNotations.
Local Open Scope Z_scope.

Definition is_ret (n : node) : bool := nname n =? N_RET.

Lemma val_eqb_eq : forall a b, val_eqb a b = true <-> a = b.
Proof.
  intros [i|i] [j|j]; simpl; split; intro H; try discriminate; try (inversion H; subst; apply Z.eqb_refl);
    apply Z.eqb_eq in H; subst; reflexivity.
Qed.

Lemma val_eqb_refl : forall a, val_eqb a a = true.
Proof. intro a. apply val_eqb_eq. reflexivity. Qed.

Lemma class_not_ret : forall n, is_class n = true -> is_ret n = false.
Proof.
  intros n H. unfold is_class, is_ret, N_CLASS, N_CCLASS, N_RET in *.
  destruct (nname n =? 1) eqn:E1; destruct (nname n =? 2) eqn:E2; simpl in H; try discriminate; lia.
Qed.

Section Sem.
  Variable sem : Z -> Z -> list Z -> Z.   (* op name, payload, operand values -> result *)
  Variable args : Z -> Z.                 (* values of the block arguments *)

  (* ---------------- executable semantics ---------------- *)
  Definition lookup_val (env : list (Z * Z)) (v : val) : option Z :=
    match v with VArg i => Some (args i) | VRes id => lookup id env end.

  Fixpoint map_opt {A B} (f : A -> option B) (l : list A) : option (list B) :=
    match l with
    | [] => Some []
    | x :: r => match f x, map_opt f r with Some y, Some ys => Some (y :: ys) | _, _ => None end
    end.

  Fixpoint eval_body (env : list (Z * Z)) (body : list node) : option (list Z) :=
    match body with
    | [] => None
    | n :: r =>
        if is_ret n then map_opt (lookup_val env) (nops n)
        else if is_class n then None
        else match map_opt (lookup_val env) (nops n) with
             | None => None
             | Some vs => eval_body ((nid n, sem (nname n) (nattr n) vs) :: env) r
             end
    end.

  Definition eval (p : prog) : option (list Z) := eval_body [] (p_body p).

  (* ---------------- valuations of e-graphs ---------------- *)
  Definition vval (rho : Z -> Z) (v : val) : Z :=
    match v with VArg i => args i | VRes id => rho id end.

  Definition node_ok (rho : Z -> Z) (n : node) : Prop :=
    if is_class n then forall m, In m (nops n) -> vval rho m = rho (nid n)
    else if is_ret n then True
    else rho (nid n) = sem (nname n) (nattr n) (map (vval rho) (nops n)).

  Definition models (rho : Z -> Z) (body : list node) : Prop := forall n, In n body -> node_ok rho n.

  Definition obs (rho : Z -> Z) (body : list node) : list (list Z) :=
    map (fun n => map (vval rho) (nops n)) (filter is_ret body).

  (* an executable block that rho models returns rho's values *)
  Lemma map_opt_lookup_models :
    forall rho env ops vs,
      (forall id v, lookup id env = Some v -> v = rho id) ->
      map_opt (lookup_val env) ops = Some vs -> vs = map (vval rho) ops.
  Proof.
    intros rho env ops. induction ops as [|o r IH]; intros vs Henv H; simpl in *.
    - inversion H. reflexivity.
    - destruct (lookup_val env o) eqn:Eo; try discriminate.
      destruct (map_opt (lookup_val env) r) eqn:Er; try discriminate.
      inversion H; subst. f_equal.
      + destruct o; simpl in *. inversion Eo; reflexivity. apply Henv. exact Eo.
      + apply IH; auto.
  Qed.

  Lemma eval_models :
    forall rho body env rs,
      models rho body ->
      (forall id v, lookup id env = Some v -> v = rho id) ->
      eval_body env body = Some rs ->
      hd_error (obs rho body) = Some rs.
  Proof.
    intros rho body. induction body as [|n r IH]; intros env rs Hm Henv He; simpl in He; try discriminate.
    unfold obs. simpl. destruct (is_ret n) eqn:Er.
    - simpl. f_equal. symmetry. eapply map_opt_lookup_models; eauto.
    - destruct (is_class n) eqn:Ec; try discriminate.
      destruct (map_opt (lookup_val env) (nops n)) as [vs|] eqn:Ev; try discriminate.
      apply (IH _ _ (fun m Hin => Hm m (or_intror Hin))) in He; auto.
      intros id v Hl. simpl in Hl. destruct (nid n =? id) eqn:Eid.
      + inversion Hl; subst. apply Z.eqb_eq in Eid. subst.
        assert (Hn := Hm n (or_introl eq_refl)). unfold node_ok in Hn. rewrite Ec, Er in Hn.
        rewrite Hn. f_equal. eapply map_opt_lookup_models; eauto.
      + apply Henv. exact Hl.
  Qed.

  (* ---------------- the steps of extraction preserve `models` and `obs` ---------------- *)
  Lemma vval_subst : forall rho old new v,
      vval rho old = vval rho new -> vval rho (subst_val old new v) = vval rho v.
  Proof.
    intros rho old new v H. unfold subst_val. destruct (val_eqb v old) eqn:E; auto.
    apply val_eqb_eq in E. subst. symmetry. exact H.
  Qed.

  Lemma map_vval_subst : forall rho old new l,
      vval rho old = vval rho new -> map (vval rho) (map (subst_val old new) l) = map (vval rho) l.
  Proof.
    intros. rewrite map_map. apply map_ext. intro. apply vval_subst. assumption.
  Qed.

  Lemma node_ok_set_ops_subst : forall rho old new n,
      vval rho old = vval rho new -> node_ok rho n ->
      node_ok rho (set_ops n (map (subst_val old new) (nops n))).
  Proof.
    intros rho old new n H Hn. unfold node_ok in *. unfold is_class, is_ret in *. simpl.
    destruct ((nname n =? N_CLASS) || (nname n =? N_CCLASS)).
    - intros m Hin. apply in_map_iff in Hin. destruct Hin as [m0 [Hm0 Hin]]. subst.
      rewrite vval_subst; auto.
    - destruct (nname n =? N_RET); auto. rewrite map_vval_subst; auto.
  Qed.

  Lemma models_replace : forall rho p old new body,
      vval rho old = vval rho new -> models rho body -> models rho (replace_uses_if p old new body).
  Proof.
    intros rho p old new body H Hm n Hin. unfold replace_uses_if in Hin. apply in_map_iff in Hin.
    destruct Hin as [n0 [Hn0 Hin]]. subst. destruct (p n0).
    - apply node_ok_set_ops_subst; auto.
    - auto.
  Qed.

  Lemma obs_replace : forall rho p old new body,
      vval rho old = vval rho new -> obs rho (replace_uses_if p old new body) = obs rho body.
  Proof.
    intros rho p old new body H. unfold obs, replace_uses_if. induction body as [|n r IH]; simpl; auto.
    assert (Hr : is_ret (if p n then set_ops n (map (subst_val old new) (nops n)) else n) = is_ret n)
      by (destruct (p n); reflexivity).
    rewrite Hr. destruct (is_ret n); simpl; rewrite IH; auto.
    f_equal. destruct (p n); simpl; auto. apply map_vval_subst; auto.
  Qed.

  Lemma node_ok_set_cost : forall rho n c, node_ok rho n -> node_ok rho (set_cost n c).
  Proof. intros. exact H. Qed.

  Lemma models_clear_cost : forall rho v body, models rho body -> models rho (clear_cost_of v body).
  Proof.
    intros rho v body Hm. destruct v; simpl; auto. intros n Hin. apply in_map_iff in Hin.
    destruct Hin as [n0 [Hn0 Hin]]. subst. destruct (nid n0 =? id); auto.
    apply node_ok_set_cost. auto.
  Qed.

  Lemma obs_clear_cost : forall rho v body, obs rho (clear_cost_of v body) = obs rho body.
  Proof.
    intros rho v body. destruct v; simpl; auto. unfold obs. induction body as [|n r IH]; simpl; auto.
    assert (Hr : is_ret (if nid n =? id then set_cost n CNone else n) = is_ret n)
      by (destruct (nid n =? id); reflexivity).
    rewrite Hr. destruct (is_ret n); simpl; rewrite IH; auto.
    f_equal. destruct (nid n =? id); reflexivity.
  Qed.

  Lemma remove_node_incl : forall id body n, In n (remove_node id body) -> In n body.
  Proof.
    intros id body. induction body as [|m r IH]; simpl; intros n H; auto.
    destruct (nid m =? id); auto. destruct H; auto.
  Qed.

  Lemma obs_remove : forall rho id body,
      (forall m, In m body -> nid m = id -> is_ret m = false) ->
      obs rho (remove_node id body) = obs rho body.
  Proof.
    intros rho id body. unfold obs. induction body as [|m r IH]; simpl; intros H; auto.
    destruct (nid m =? id) eqn:E.
    - apply Z.eqb_eq in E. rewrite (H m (or_introl eq_refl) E). reflexivity.
    - simpl. destruct (is_ret m); simpl; rewrite IH; auto.
  Qed.

  Lemma erase_op_incl : forall id body b', erase_op id body = Ok b' -> forall n, In n b' -> In n body.
  Proof.
    intros id body b' H n Hin. unfold erase_op in H. destruct (find_node id body).
    - destruct (has_uses id (remove_node id body)); inversion H; subst.
      eapply remove_node_incl; eauto.
    - inversion H; subst. auto.
  Qed.

  Lemma erase_op_obs : forall rho id body b',
      (forall m, In m body -> nid m = id -> is_ret m = false) ->
      erase_op id body = Ok b' -> obs rho b' = obs rho body.
  Proof.
    intros rho id body b' Hr H. unfold erase_op in H. destruct (find_node id body).
    - destruct (has_uses id (remove_node id body)); inversion H; subst. apply obs_remove; auto.
    - inversion H; subst; auto.
  Qed.

  Lemma erase_all_incl : forall ids body b', erase_all ids body = Ok b' -> forall n, In n b' -> In n body.
  Proof.
    induction ids as [|i r IH]; simpl; intros body b' H n Hin.
    - inversion H; subst; auto.
    - destruct (erase_op i body) as [b1| |] eqn:E; try discriminate.
      eapply erase_op_incl; eauto.
  Qed.

  Lemma erase_all_obs : forall rho ids body b',
      (forall id m, In id ids -> In m body -> nid m = id -> is_ret m = false) ->
      erase_all ids body = Ok b' -> obs rho b' = obs rho body.
  Proof.
    intros rho. induction ids as [|i r IH]; simpl; intros body b' Hr H.
    - inversion H; subst; auto.
    - destruct (erase_op i body) as [b1| |] eqn:E; try discriminate.
      rewrite (IH b1 b'); auto.
      + eapply erase_op_obs; eauto.
      + intros id m Hid Hm. apply Hr; auto. eapply erase_op_incl; eauto.
  Qed.

  Lemma models_incl : forall rho body b', (forall n, In n b' -> In n body) -> models rho body -> models rho b'.
  Proof. intros rho body b' H Hm n Hin. auto. Qed.

  (* ---------------- invariants about identities ---------------- *)
  (* no operand refers to a return operation (it has no result) *)
  Definition ret_unref (body : list node) : Prop :=
    forall n j m, In n body -> In (VRes j) (nops n) -> In m body -> nid m = j -> is_ret m = false.
  (* the ids still to be processed are ids of e-class operations only *)
  Definition cids_ok (cids : list Z) (body : list node) : Prop :=
    forall c m, In c cids -> In m body -> nid m = c -> is_class m = true.

  Lemma find_node_In : forall id body n, find_node id body = Some n -> In n body /\ nid n = id.
  Proof.
    intros id body. induction body as [|m r IH]; simpl; intros n H; try discriminate.
    destruct (nid m =? id) eqn:E.
    - inversion H; subst. split; auto. apply Z.eqb_eq; auto.
    - apply IH in H. destruct H as [H1 H2]. split; [right; exact H1 | exact H2].
  Qed.

  Lemma owners_In : forall ops i skip j, In j (owners ops i skip) -> In (VRes j) ops.
  Proof.
    induction ops as [|v r IH]; simpl; intros i skip j H; auto.
    destruct v as [a|k].
    - right. eapply IH; eauto.
    - destruct skip as [s|].
      + destruct (i =? s).
        * right. eapply IH; eauto.
        * destruct H as [H|H]; [left; subst; auto | right; eapply IH; eauto].
      + destruct H as [H|H]; [left; subst; auto | right; eapply IH; eauto].
  Qed.

  Lemma py_nth_In : forall ops k v, py_nth ops k = Some v -> In v ops.
  Proof.
    intros ops k v H. unfold py_nth in H.
    destruct ((_ <? 0) || (_ <=? _)); try discriminate. eapply nth_error_In; eauto.
  Qed.

  (* nodes of a rewritten block come from nodes of the old block with the same id and name *)
  Definition same_head (n' n : node) : Prop := nid n' = nid n /\ nname n' = nname n.

  Lemma replace_origin : forall p old new body n',
      In n' (replace_uses_if p old new body) ->
      exists n, In n body /\ same_head n' n /\
                (forall v, In v (nops n') -> In v (nops n) \/ v = new).
  Proof.
    intros p old new body n' H. unfold replace_uses_if in H. apply in_map_iff in H.
    destruct H as [n [Hn Hin]]. exists n. split; auto. subst. destruct (p n).
    - split. split; reflexivity. simpl. intros v Hv. apply in_map_iff in Hv.
      destruct Hv as [v0 [Hv0 Hv]]. subst. unfold subst_val. destruct (val_eqb v0 old); auto.
    - split. split; reflexivity. auto.
  Qed.

  Lemma clear_cost_origin : forall v body n',
      In n' (clear_cost_of v body) -> exists n, In n body /\ same_head n' n /\ nops n' = nops n.
  Proof.
    intros v body n' H. destruct v; simpl in H.
    - exists n'. repeat split; auto.
    - apply in_map_iff in H. destruct H as [n [Hn Hin]]. exists n. split; auto. subst.
      destruct (nid n =? id); repeat split; auto.
  Qed.

  Lemma is_ret_head : forall n' n, same_head n' n -> is_ret n' = is_ret n.
  Proof. intros n' n [_ H]. unfold is_ret. rewrite H. reflexivity. Qed.
  Lemma is_class_head : forall n' n, same_head n' n -> is_class n' = is_class n.
  Proof. intros n' n [_ H]. unfold is_class. rewrite H. reflexivity. Qed.

  (* one step of the extraction loop *)
  Lemma extract_step_sound : forall rho cid cids body b',
      models rho body -> ret_unref body -> cids_ok (cid :: cids) body ->
      extract_step cid body = Ok b' ->
      models rho b' /\ obs rho b' = obs rho body /\ ret_unref b' /\ cids_ok cids b'.
  Proof.
    intros rho cid cids body b' Hm Hru Hck H. unfold extract_step in H.
    destruct (find_node cid body) as [c|] eqn:Ec; try discriminate.
    apply find_node_In in Ec. destruct Ec as [Hc Hcid].
    assert (Hcls : is_class c = true) by (apply (Hck cid c); simpl; auto).
    assert (Hnr : forall (bd : list node),
               (forall m, In m bd -> exists m0, In m0 body /\ same_head m m0) ->
               forall skip id m, In id (cid :: owners (nops c) 0 skip) -> In m bd -> nid m = id -> is_ret m = false).
    { intros bd Hbd skip id m Hid Hmb Hmid. destruct (Hbd m Hmb) as [m0 [Hm0 Hh]].
      rewrite (is_ret_head _ _ Hh). destruct Hh as [Hh1 _]. destruct Hid as [Hid|Hid].
      - apply class_not_ret. apply (Hck cid m0); simpl; auto. congruence.
      - apply owners_In in Hid. apply (Hru c id m0); auto. congruence. }
    destruct (negb (has_uses cid body)).
    - (* unused class: the class and its member operations are erased *)
      assert (Hi := erase_all_incl _ _ _ H).
      split. eapply models_incl; eauto. split.
      + eapply erase_all_obs; eauto. intros id m Hid Hmb Hmid.
        apply (Hnr body) with (skip := None) (id := id); auto.
        intros m1 Hm1. exists m1. split; auto. split; reflexivity.
      + split.
        * intros n j m Hn Hj Hmb Hmid. apply (Hru n j m); auto.
        * intros c0 m Hc0 Hmb Hmid. apply (Hck c0 m); simpl; auto.
    - destruct (nmci c) as [k|].
      + destruct (py_nth (nops c) k) as [v|] eqn:Ev; try discriminate.
        apply py_nth_In in Ev.
        assert (Hv : vval rho (VRes cid) = vval rho v).
        { assert (Hn := Hm c Hc). unfold node_ok in Hn. rewrite Hcls in Hn. simpl.
          rewrite <- Hcid. symmetry. apply Hn. exact Ev. }
        set (p := fun u : node => negb (nid u =? cid)) in *.
        set (b1 := replace_uses_if p (VRes cid) v body) in *.
        set (b2 := clear_cost_of v b1) in *.
        assert (Horig : forall m, In m b2 -> exists m0, In m0 body /\ same_head m m0 /\
                                   (forall w, In w (nops m) -> In w (nops m0) \/ w = v)).
        { intros m Hmb. apply clear_cost_origin in Hmb. destruct Hmb as [m1 [Hm1 [Hh1 Ho1]]].
          apply replace_origin in Hm1. destruct Hm1 as [m0 [Hm0 [Hh0 Ho0]]].
          exists m0. split; auto. split.
          - destruct Hh1, Hh0. split; congruence.
          - intros w Hw. rewrite Ho1 in Hw. auto. }
        assert (Hi := erase_all_incl _ _ _ H).
        split; [|split; [|split]].
        * eapply models_incl; eauto. apply models_clear_cost. apply models_replace; auto.
        * assert (Hob : obs rho b' = obs rho b2).
          { eapply erase_all_obs; eauto. intros id m Hid Hmb Hmid.
            apply (Hnr b2) with (skip := Some k) (id := id); auto.
            intros m1 Hm1. destruct (Horig m1 Hm1) as [m0 [Hm0 [Hh _]]]. exists m0; auto. }
          rewrite Hob. unfold b2. rewrite obs_clear_cost. unfold b1. apply obs_replace; auto.
        * intros n j m Hn Hj Hmb Hmid. apply Hi in Hn. apply Hi in Hmb.
          destruct (Horig n Hn) as [n0 [Hn0 [Hhn Hon]]].
          destruct (Horig m Hmb) as [m0 [Hm0 [Hhm _]]].
          rewrite (is_ret_head _ _ Hhm). destruct Hhm as [Hhm1 _].
          destruct (Hon _ Hj) as [Hold|Hnew].
          -- apply (Hru n0 j m0); auto. congruence.
          -- apply (Hru c j m0); auto. rewrite Hnew. exact Ev. congruence.
        * intros c0 m Hc0 Hmb Hmid. apply Hi in Hmb.
          destruct (Horig m Hmb) as [m0 [Hm0 [Hhm _]]].
          rewrite (is_class_head _ _ Hhm). destruct Hhm as [Hhm1 _].
          apply (Hck c0 m0); simpl; auto. congruence.
      + inversion H; subst. split; auto. split; auto. split; auto.
        intros c0 m Hc0 Hmb Hmid. apply (Hck c0 m); simpl; auto.
  Qed.

  Lemma extract_loop_sound : forall rho cids body b',
      models rho body -> ret_unref body -> cids_ok cids body ->
      extract_loop cids body = Ok b' ->
      models rho b' /\ obs rho b' = obs rho body.
  Proof.
    intros rho. induction cids as [|c r IH]; simpl; intros body b' Hm Hru Hck H.
    - inversion H; subst; auto.
    - destruct (extract_step c body) as [b1| |] eqn:E; try discriminate.
      destruct (extract_step_sound rho c r body b1 Hm Hru Hck E) as [Hm1 [Ho1 [Hru1 Hck1]]].
      destruct (IH b1 b' Hm1 Hru1 Hck1 H) as [Hm2 Ho2]. split; auto. congruence.
  Qed.

  (* well-formedness of identities: unique ids, operands never name a return operation *)
  Definition ids_ok (body : list node) : Prop :=
    NoDup (map nid body) /\
    (forall n j m, In n body -> In (VRes j) (nops n) -> In m body -> nid m = j -> is_ret m = false).

  Lemma NoDup_nid_inj : forall body n m, NoDup (map nid body) -> In n body -> In m body -> nid n = nid m -> n = m.
  Proof.
    induction body as [|x r IH]; simpl; intros n m Hnd Hn Hm He; try tauto.
    inversion Hnd as [|? ? Hni Hnd']; subst.
    destruct Hn as [Hn|Hn]; destruct Hm as [Hm|Hm]; subst; auto.
    - exfalso. apply Hni. rewrite He. apply in_map. auto.
    - exfalso. apply Hni. rewrite <- He. apply in_map. auto.
  Qed.

  Lemma class_ids_ok : forall body, NoDup (map nid body) -> cids_ok (rev (class_ids body)) body.
  Proof.
    intros body Hnd c m Hc Hm Hid. apply in_rev in Hc. unfold class_ids in Hc.
    apply in_map_iff in Hc. destruct Hc as [n [Hn Hin]]. apply filter_In in Hin. destruct Hin as [Hin Hcl].
    assert (n = m) by (eapply NoDup_nid_inj; eauto; congruence). subst. auto.
  Qed.

  (* C28_extract_sound: if a valuation models the e-graph (operations compute `sem`, members of a class
     are equal) then whatever extraction produces -- provided it is executable -- returns the values the
     valuation gives to the e-graph's results. *)
  Theorem extract_sound : forall rho g p' rs,
      ids_ok (p_body g) -> models rho (p_body g) ->
      extract g = Ok p' -> eval p' = Some rs ->
      hd_error (obs rho (p_body g)) = Some rs.
  Proof.
    intros rho g p' rs [Hnd Hru] Hm He Hev. unfold extract in He.
    destruct (extract_loop (rev (class_ids (p_body g))) (p_body g)) as [b| |] eqn:E; try discriminate.
    inversion He; subst. unfold eval in Hev. simpl in Hev.
    destruct (extract_loop_sound rho _ _ _ Hm Hru (class_ids_ok _ Hnd) E) as [Hm' Ho'].
    rewrite <- Ho'. eapply eval_models; eauto. intros id v Hl. discriminate.
  Qed.
End Sem.
