(* C28/Enc.v -- encoders of the C28 model's results into Base/Show.v `sx`. *)
From Coq Require Import ZArith List Bool.
From XV Require Import Base.Show C28.Model.
Import ListNotations.
Local Open Scope Z_scope.

(* canonical ids: an operation is named by its position in the block (walk order);
   a reference to an operation that is no longer in the block prints as -1 *)
Fixpoint index_of (id : Z) (body : list node) (i : Z) : Z :=
  match body with
  | [] => -1
  | n :: r => if nid n =? id then i else index_of id r (i + 1)
  end.

(* flat encoding of a block: per node
     name attr nres  costtag costval  mcitag mcival  #operands (tag idx)*
   (printing is the expensive part of a case file, so intermediate stages are compared by a
   polynomial hash of this encoding and only the last stage is printed in full) *)
Definition flat_val (body : list node) (v : val) : list Z :=
  match v with
  | VArg i => [0; i]
  | VRes id => [1; index_of id body 0]
  end.

Definition flat_node (body : list node) (n : node) : list Z :=
  [nname n; nattr n; nres n]
  ++ match ncost n with CNone => [0; 0] | CInt z => [1; z] | CBad => [2; 0] end
  ++ match nmci n with None => [0; 0] | Some k => [1; k] end
  ++ Z.of_nat (length (nops n)) :: flat_map (flat_val body) (nops n).

Definition flat_body (body : list node) : list Z := flat_map (flat_node body) body.

Definition hash_list (l : list Z) : Z :=
  fold_left (fun h x => Z.land (h * 1000003 + x + 7) 2305843009213693951) l 0.

Definition err_code (e : err) : Z :=
  match e with
  | ENonSingle => 1 | EMultiCost => 2 | EBadCost => 3 | EIndex => 4 | EEraseUsed => 5 | EGone => 6
  end.

Definition enc_res (full : bool) (r : res prog) : sx :=
  match r with
  | Ok p => if full then L (I 0 :: map I (flat_body (p_body p)))
            else L [I 0; I (hash_list (flat_body (p_body p)))]
  | Err e => L [I (-1); I (err_code e)]
  | OutOfFuel => L [I (-3)]
  end.

Definition bind {A B} (r : res A) (f : A -> res B) : res B :=
  match r with Ok a => f a | Err e => Err e | OutOfFuel => OutOfFuel end.

(* stages: create ; add-costs ; extract, each applied to the model's own previous result.
   with_create = 1: create first; 0: the input already is an e-graph *)
Definition c28_pipeline (with_create : Z) (default : option Z) (dict : list (Z * Z)) (p : prog) : sx :=
  let r1 := if with_create =? 1 then create p else Ok p in
  let r2 := bind r1 (fun g => add_costs (default_fuel g) default dict g) in
  let r3 := bind r2 extract in
  L [enc_res false r1; enc_res false r2; enc_res true r3].

(* extract only (hand-set min_cost_index) *)
Definition c28_extract (p : prog) : sx := L [enc_res true (extract p)].

(* short constructors for the generated case files *)
Definition nd (id name attr : Z) (ops : list val) (nr : Z) (c : cattr) (m : option Z) : node :=
  Node id name attr ops nr c m.
Definition a_ (i : Z) : val := VArg i.
Definition r_ (i : Z) : val := VRes i.
