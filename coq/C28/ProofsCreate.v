(* C28/ProofsCreate.v -- eqsat-create-eclasses on a well-formed source function, and the composed
   theorem: create ; add-costs (with a default cost) ; extract gives an executable function that returns
   what the source returns, for every input. *)
From Coq Require Import ZArith List Bool Lia Permutation.
From XV Require Import C28.Model C28.Proofs C28.ProofsCosts C28.ProofsExtract.
Import ListNotations.
Local Open Scope Z_scope.

(* ---------------- more facts about `ordered` ---------------- *)
Lemma ordered_app : forall a b d,
    ordered d (a ++ b) <-> ordered d a /\ ordered (map nid a ++ d) b.
Proof.
  induction a as [|n r IH]; simpl; intros b d.
  - tauto.
  - rewrite IH. split.
    + intros [H1 [H2 H3]]. repeat split; auto. eapply ordered_weaken; [|exact H3].
      intros j Hj. apply in_app_or in Hj. destruct Hj as [Hj|[Hj|Hj]].
      * right. apply in_or_app. auto.
      * left. auto.
      * right. apply in_or_app. auto.
    + intros [[H1 H2] H3]. repeat split; auto. eapply ordered_weaken; [|exact H3].
      intros j [Hj|Hj].
      * apply in_or_app. right. left. auto.
      * apply in_app_or in Hj. apply in_or_app. destruct Hj; [left; auto | right; right; auto].
Qed.

Lemma ordered_rename : forall p o cnew l D D',
    ordered D l -> (forall j, In j D -> In j D') -> In cnew D' ->
    ordered D' (replace_uses_if p o (VRes cnew) l).
Proof.
  intros p o cnew. induction l as [|n r IH]; simpl; intros D D' Ho Hs Hc; auto. destruct Ho as [Hh Ht]. split.
  - intros j Hj. destruct (p n); simpl in Hj; auto.
    apply in_map_subst in Hj. destruct Hj as [Hj|[Hj _]]; auto. inversion Hj; subst; auto.
  - assert (Hid : nid (if p n then set_ops n (map (subst_val o (VRes cnew)) (nops n)) else n) = nid n)
      by (destruct (p n); reflexivity).
    rewrite Hid. apply (IH (nid n :: D)); auto.
    + intros j [Hj|Hj]; [left; auto | right; auto].
    + right; auto.
Qed.

Lemma replace_id : forall p o new l,
    (forall n, In n l -> ~ In o (nops n)) -> replace_uses_if p o new l = l.
Proof.
  intros p o new. induction l as [|n r IH]; simpl; intros H; auto.
  rewrite IH by (intros; apply H; right; auto).
  destruct (p n); auto. rewrite map_subst_id by (apply H; left; auto). destruct n; reflexivity.
Qed.

Lemma replace_app : forall p o new a b,
    replace_uses_if p o new (a ++ b) = replace_uses_if p o new a ++ replace_uses_if p o new b.
Proof. intros. unfold replace_uses_if. apply map_app. Qed.

Lemma replace_In : forall p o new l n',
    In n' (replace_uses_if p o new l) ->
    exists n, In n l /\ nid n' = nid n /\ nname n' = nname n /\ nres n' = nres n /\ nmci n' = nmci n /\
              ncost n' = ncost n /\
              ((p n = false /\ nops n' = nops n) \/ (p n = true /\ nops n' = map (subst_val o new) (nops n))).
Proof.
  intros p o new l n' H. unfold replace_uses_if in H. apply in_map_iff in H. destruct H as [n [Hn Hin]].
  exists n. split; auto. subst. destruct (p n) eqn:E; simpl; repeat split; auto.
Qed.

Lemma replace_In_conv : forall p o new l n, In n l ->
    exists n', In n' (replace_uses_if p o new l) /\ nid n' = nid n /\ nname n' = nname n /\ nres n' = nres n.
Proof.
  intros p o new l n H. exists (if p n then set_ops n (map (subst_val o new) (nops n)) else n). split.
  - unfold replace_uses_if. apply in_map_iff. exists n. auto.
  - destruct (p n); repeat split.
Qed.

(* ---------------- the invariant of class creation ---------------- *)
(* `todo`: ids of the source operations that still have to get their class *)
Record cinv (next : Z) (todo : list Z) (B : list node) : Prop := {
  c_struct : structural B;
  c_bound : forall n, In n B -> nid n < next /\ forall j, In (VRes j) (nops n) -> j < next;
  c_cls : forall cl, In cl B -> is_class cl = true -> nname cl = N_CLASS /\ exists m, nops cl = [m];
  c_members : members_ok B;
  c_ret : has_ret B;
  c_ru : forall n j m, In n B -> In (VRes j) (nops n) -> In m B -> nid m = j -> is_ret m = false;
  c_todo : forall x cl, In x todo -> In cl B -> is_class cl = true -> ~ In (VRes x) (nops cl);
  c_todo_lt : forall x, In x todo -> x < next }.

Definition class_node (cnew : Z) (o : val) : node := mk_class cnew o.

Lemma not_ClassOp_class : forall cnew o, not_ClassOp (class_node cnew o) = false.
Proof. reflexivity. Qed.

(* shape of one step: B = pre ++ post, nodes of pre do not use o;  B' = pre ++ class :: renamed post *)
Definition step_shape (o : val) (cnew : Z) (pre post : list node) : list node :=
  pre ++ class_node cnew o :: replace_uses_if not_ClassOp o (VRes cnew) post.

Lemma step_inv : forall next todo o pre post,
    cinv next todo (pre ++ post) ->
    (forall n, In n pre -> ~ In o (nops n)) ->
    (* o is a block argument, or the result of the LAST node of pre, an ordinary operation *)
    (match o with
     | VArg _ => True
     | VRes x => (exists xn, In xn pre /\ nid xn = x /\ plain xn) /\
                 (forall cl, In cl (pre ++ post) -> is_class cl = true -> ~ In (VRes x) (nops cl))
     end) ->
    forall todo', (forall y, In y todo' -> In y todo /\ o <> VRes y) ->
    cinv (next + 1) todo' (step_shape o next pre post).
Proof.
  intros next todo o pre post [[Hnd Ho] Hb Hcls Hmem Hret Hru Htodo Htlt] Hpre Ho_ok todo' Htodo'.
  set (c := class_node next o). set (post' := replace_uses_if not_ClassOp o (VRes next) post).
  assert (Hc_cls : is_class c = true) by reflexivity.
  assert (HinB' : forall n', In n' (step_shape o next pre post) ->
             n' = c \/ In n' pre \/
             exists n, In n post /\ nid n' = nid n /\ nname n' = nname n /\ nres n' = nres n /\ nmci n' = nmci n /\
                       ((not_ClassOp n = false /\ nops n' = nops n) \/
                        (not_ClassOp n = true /\ nops n' = map (subst_val o (VRes next)) (nops n)))).
  { intros n' H. unfold step_shape in H. apply in_app_or in H. destruct H as [H|[H|H]]; auto.
    right. right. apply replace_In in H. destruct H as [n [A [B [C [D [E [_ F]]]]]]]. exists n. repeat split; auto. }
  assert (Horig : forall n', In n' (step_shape o next pre post) -> n' = c \/
             exists n, In n (pre ++ post) /\ nid n' = nid n /\ nname n' = nname n).
  { intros n' H. destruct (HinB' n' H) as [A|[A|[n [A [B [C _]]]]]]; auto; right.
    - exists n'. split; auto. apply in_or_app; auto.
    - exists n. split; auto. apply in_or_app; auto. }
  assert (Hconv : forall n, In n (pre ++ post) -> exists n', In n' (step_shape o next pre post) /\
             nid n' = nid n /\ nname n' = nname n /\ nres n' = nres n).
  { intros n H. apply in_app_or in H. destruct H as [H|H].
    - exists n. split; auto. unfold step_shape. apply in_or_app; auto.
    - destruct (replace_In_conv not_ClassOp o (VRes next) post n H) as [n' [A B]]. exists n'. split; auto.
      unfold step_shape. apply in_or_app. right. right. exact A. }
  assert (Hops' : forall n' j, In n' (step_shape o next pre post) -> In (VRes j) (nops n') ->
             j = next \/ (n' = c /\ o = VRes j) \/
             exists n, In n (pre ++ post) /\ nid n' = nid n /\ nname n' = nname n /\ In (VRes j) (nops n)).
  { intros n' j H Hj. destruct (HinB' n' H) as [A|[A|[n [A [B [C [_ [_ F]]]]]]]].
    - subst n'. simpl in Hj. destruct Hj as [Hj|[]]. right. left. auto.
    - right. right. exists n'. repeat split; auto. apply in_or_app; auto.
    - destruct F as [[_ F]|[_ F]]; rewrite F in Hj.
      + right. right. exists n. repeat split; auto. apply in_or_app; auto.
      + apply in_map_subst in Hj. destruct Hj as [Hj|[Hj _]].
        * right. right. exists n. repeat split; auto. apply in_or_app; auto.
        * left. inversion Hj; auto. }
  constructor.
  - (* structural *)
    split.
    + unfold step_shape. rewrite map_app. simpl.
      assert (Hids : map nid (replace_uses_if not_ClassOp o (VRes next) post) = map nid post).
      { unfold replace_uses_if. rewrite map_map. apply map_ext. intro n. destruct (not_ClassOp n); reflexivity. }
      rewrite Hids. apply (Permutation_NoDup (l := next :: map nid pre ++ map nid post)).
      * apply Permutation_middle.
      * constructor; [|rewrite <- map_app; auto]. rewrite <- map_app. intro Hin.
        apply in_map_iff in Hin. destruct Hin as [n [Hn Hin]]. destruct (Hb n Hin) as [Hlt _]. lia.
    + unfold step_shape. apply ordered_app. apply ordered_app in Ho. destruct Ho as [Ho1 Ho2].
      split; auto. simpl. split.
      * intros j [Hj|[]]. destruct o as [i|x]; try discriminate. inversion Hj; subst.
        destruct Ho_ok as [[xn [Hxn [Hid _]]] _]. apply in_or_app. left. rewrite <- Hid. apply in_map. auto.
      * eapply ordered_rename; eauto. intros j Hj. right; auto. left; auto.
  - (* bounds *)
    intros n' H. split.
    + destruct (Horig n' H) as [A|[n [A [B _]]]]; [subst; simpl; lia|]. destruct (Hb n A). lia.
    + intros j Hj. destruct (Hops' n' j H Hj) as [A|[[A B]|[n [A [_ [_ B]]]]]]; try lia.
      * subst. destruct Ho_ok as [[xn [Hxn [Hid _]]] _].
        destruct (Hb xn (in_or_app _ _ _ (or_introl Hxn))). lia.
      * destruct (Hb n A) as [_ Hb2]. specialize (Hb2 j B). lia.
  - (* classes have the ClassOp name and one member *)
    intros cl H Hcl. destruct (HinB' cl H) as [A|[A|[n [A [B [C [_ [_ F]]]]]]]].
    + subst. split; auto. exists o. reflexivity.
    + apply Hcls; auto. apply in_or_app; auto.
    + assert (Hcln : is_class n = true) by (rewrite <- (is_class_name _ _ C); auto).
      destruct (Hcls n (in_or_app _ _ _ (or_intror A)) Hcln) as [Hnm [m Hm]]. split; [congruence|].
      destruct F as [[_ F]|[F _]].
      * exists m. congruence.
      * unfold not_ClassOp, is_ClassOp in F. rewrite Hnm in F. discriminate.
  - (* members_ok *)
    intros cl H Hcl.
    assert (Hone : exists m, nops cl = [m]).
    { destruct (HinB' cl H) as [A|[A|[n [A [B [C [_ [_ F]]]]]]]].
      - subst. exists o. reflexivity.
      - destruct (Hcls cl (in_or_app _ _ _ (or_introl A)) Hcl) as [_ Hm]. exact Hm.
      - assert (Hcln : is_class n = true) by (rewrite <- (is_class_name _ _ C); auto).
        destruct (Hcls n (in_or_app _ _ _ (or_intror A)) Hcln) as [Hnm [m Hm]].
        destruct F as [[_ F]|[F _]]; [exists m; congruence|].
        unfold not_ClassOp, is_ClassOp in F. rewrite Hnm in F. discriminate. }
    destruct Hone as [m Hm]. split. { rewrite Hm. constructor; [intros []|constructor]. }
    intros j Hj. rewrite Hm in Hj. destruct Hj as [Hj|[]]. subst m.
    (* which class is cl, and where does j come from *)
    assert (Hcase : (cl = c /\ o = VRes j) \/
                    (exists cl0, In cl0 (pre ++ post) /\ is_class cl0 = true /\ nid cl = nid cl0 /\ nops cl0 = [VRes j])).
    { destruct (HinB' cl H) as [A|[A|[n [A [B [C [_ [_ F]]]]]]]].
      - left. subst cl. simpl in Hm. inversion Hm. auto.
      - right. exists cl. repeat split; auto. apply in_or_app; auto.
      - right. assert (Hcln : is_class n = true) by (rewrite <- (is_class_name _ _ C); auto).
        exists n. repeat split; auto. apply in_or_app; auto.
        destruct (Hcls n (in_or_app _ _ _ (or_intror A)) Hcln) as [Hnm _].
        destruct F as [[_ F]|[F _]]; [congruence|].
        unfold not_ClassOp, is_ClassOp in F. rewrite Hnm in F. discriminate. }
    destruct Hcase as [[Hclc Hoj]|[cl0 [Hcl0 [Hcl0c [Hid0 Hops0]]]]].
    + (* the new class of x = j *)
      subst o. destruct Ho_ok as [[xn [Hxn [Hxid Hxp]]] Hnocls]. split.
      * intros m' Hm' Hmid. destruct (Horig m' Hm') as [A|[n [A [B C]]]].
        -- subst m'. simpl in Hmid. destruct (Hb xn (in_or_app _ _ _ (or_introl Hxn))). lia.
        -- assert (n = xn).
           { eapply NoDup_nid_inj; eauto. apply in_or_app; auto. congruence. }
           subst n. destruct Hxp as [P1 P2]. split.
           ++ rewrite (is_class_name _ _ C). auto.
           ++ rewrite (is_ret_name _ _ C). auto.
      * intros n' Hn' Hu. subst cl. simpl.
        destruct (HinB' n' Hn') as [A|[A|[n [A [B [C [_ [_ F]]]]]]]].
        -- subst. reflexivity.
        -- exfalso. apply (Hpre n' A). exact Hu.
        -- exfalso. destruct F as [[Fp F]|[Fp F]]; rewrite F in Hu.
           ++ (* an unrenamed node of post is a ClassOp: no class has x as member yet *)
              apply (Hnocls n (in_or_app _ _ _ (or_intror A))); auto.
              unfold not_ClassOp in Fp. apply negb_false_iff in Fp. unfold is_class. unfold is_ClassOp in Fp.
              rewrite Fp. reflexivity.
           ++ revert Hu. apply no_subst_left. intro Heq. inversion Heq.
              destruct (Hb xn (in_or_app _ _ _ (or_introl Hxn))). lia.
    + (* an older class *)
      destruct (Hmem cl0 Hcl0 Hcl0c) as [_ Hm0]. destruct (Hm0 j) as [Hp0 Hu0]. { rewrite Hops0. left; auto. }
      split.
      * intros m' Hm' Hmid. destruct (Horig m' Hm') as [A|[n [A [B C]]]].
        -- subst m'. simpl in Hmid. destruct (Hb cl0 Hcl0) as [_ Hb2]. specialize (Hb2 j).
           rewrite Hops0 in Hb2. specialize (Hb2 (or_introl eq_refl)). lia.
        -- destruct (Hp0 n A) as [P1 P2]; [congruence|]. split.
           ++ rewrite (is_class_name _ _ C). auto.
           ++ rewrite (is_ret_name _ _ C). auto.
      * intros n' Hn' Hu. rewrite Hid0.
        destruct (Hops' n' j Hn' Hu) as [A|[[A B]|[n [A [B [_ D]]]]]].
        -- exfalso. destruct (Hb cl0 Hcl0) as [_ Hb2]. specialize (Hb2 j).
           rewrite Hops0 in Hb2. specialize (Hb2 (or_introl eq_refl)). lia.
        -- (* the new class has member o = VRes j: but j is already a member of cl0 *)
           exfalso. subst o. destruct Ho_ok as [_ Hnocls]. apply (Hnocls cl0 Hcl0 Hcl0c). rewrite Hops0. left; auto.
        -- rewrite B. apply Hu0; auto.
  - (* has_ret *)
    destruct Hret as [n0 [Hn0 Hr0]]. destruct (Hconv n0 Hn0) as [n' [A [_ [C _]]]].
    exists n'. split; auto. rewrite (is_ret_name _ _ C). auto.
  - (* operands never name a return *)
    intros n' j m' Hn' Hj Hm' Hmid.
    destruct (Horig m' Hm') as [A|[m [A [B C]]]]; [subst; reflexivity|].
    rewrite (is_ret_name _ _ C).
    destruct (Hops' n' j Hn' Hj) as [D|[[D E]|[n [D [_ [_ E]]]]]].
    + exfalso. destruct (Hb m A). lia.
    + subst o. destruct Ho_ok as [[xn [Hxn [Hxid [_ Hxp]]]] _].
      assert (m = xn) by (eapply NoDup_nid_inj; eauto; [apply in_or_app; auto | congruence]). subst. auto.
    + apply (Hru n j m); auto. congruence.
  - (* the classes of the remaining operations are still to be created *)
    intros y cl Hy Hcl Hclc Hu. destruct (Htodo' y Hy) as [Hy1 Hy2].
    destruct (Hops' cl y Hcl Hu) as [D|[[D E]|[n [D [_ [F E]]]]]].
    + subst y. specialize (Htlt _ Hy1). lia.
    + congruence.
    + apply (Htodo y n Hy1 D); auto. rewrite <- (is_class_name _ _ F). auto.
  - intros y Hy. destruct (Htodo' y Hy) as [Hy1 _]. specialize (Htlt _ Hy1). lia.
Qed.

(* ---------------- the steps of create_ops / create_args have that shape ---------------- *)
Lemma insert_after_split : forall x c pre xn post,
    ~ In x (map nid pre) -> nid xn = x ->
    insert_after x c (pre ++ xn :: post) = pre ++ xn :: c :: post.
Proof.
  intros x c. induction pre as [|n r IH]; simpl; intros xn post Hni Hx.
  - rewrite Hx, Z.eqb_refl. reflexivity.
  - destruct (nid n =? x) eqn:E. { apply Z.eqb_eq in E. tauto. }
    rewrite IH; auto.
Qed.

Lemma ordered_ops_in : forall l d n j,
    ordered d l -> In n l -> In (VRes j) (nops n) -> In j (map nid l) \/ In j d.
Proof.
  induction l as [|m r IH]; simpl; intros d n j Ho Hn Hj; try tauto. destruct Ho as [Hh Ht].
  destruct Hn as [Hn|Hn].
  - subst. right. auto.
  - destruct (IH _ _ _ Ht Hn Hj) as [A|[A|A]]; auto.
Qed.

Lemma split_node : forall (B : list node) xn, In xn B -> exists pre post, B = pre ++ xn :: post.
Proof. intros B xn H. apply in_split. exact H. Qed.

Lemma prefix_no_use : forall pre xn post,
    NoDup (map nid (pre ++ xn :: post)) -> ordered [] (pre ++ xn :: post) ->
    ~ In (nid xn) (map nid pre) /\ forall n, In n (pre ++ [xn]) -> ~ In (VRes (nid xn)) (nops n).
Proof.
  intros pre xn post Hnd Ho. rewrite map_app in Hnd. simpl in Hnd.
  assert (Hni : ~ In (nid xn) (map nid pre)).
  { apply NoDup_remove_2 in Hnd. intro H. apply Hnd. apply in_or_app. auto. }
  split; auto. intros n Hn Hu.
  replace (pre ++ xn :: post) with ((pre ++ [xn]) ++ post) in Ho by (rewrite <- app_assoc; reflexivity).
  apply ordered_app in Ho. destruct Ho as [Ho _]. apply ordered_app in Ho. destruct Ho as [Ho1 Ho2].
  apply in_app_or in Hn. destruct Hn as [Hn|[Hn|[]]].
  - destruct (ordered_ops_in _ _ _ _ Ho1 Hn Hu) as [A|[]]. auto.
  - subst n. simpl in Ho2. destruct Ho2 as [Hh _]. apply Hh in Hu. rewrite app_nil_r in Hu. auto.
Qed.

Lemma ops_step_shape : forall x cnew pre xn post,
    NoDup (map nid (pre ++ xn :: post)) -> ordered [] (pre ++ xn :: post) -> nid xn = x ->
    replace_uses_if not_ClassOp (VRes x) (VRes cnew) (insert_after x (mk_class cnew (VRes x)) (pre ++ xn :: post))
    = step_shape (VRes x) cnew (pre ++ [xn]) post.
Proof.
  intros x cnew pre xn post Hnd Ho Hx. destruct (prefix_no_use pre xn post Hnd Ho) as [Hni Hnu].
  rewrite Hx in *. rewrite insert_after_split; auto.
  replace (pre ++ xn :: mk_class cnew (VRes x) :: post) with ((pre ++ [xn]) ++ mk_class cnew (VRes x) :: post)
    by (rewrite <- app_assoc; reflexivity).
  rewrite replace_app. rewrite (replace_id _ _ _ (pre ++ [xn])); auto.
Qed.

(* ---------------- well-formed source functions ---------------- *)
Definition node_fine (n : node) : Prop :=
  ncost n <> CBad /\ (forall c, ncost n = CInt c -> 0 <= c) /\
  (if is_ret n then nres n = 0 else nres n = 1).

Definition wf_src (body : list node) : Prop :=
  structural body /\ (forall n, In n body -> is_class n = false /\ node_fine n) /\ has_ret body /\
  (forall n j m, In n body -> In (VRes j) (nops n) -> In m body -> nid m = j -> is_ret m = false).

Lemma fresh_id_gt : forall body n, In n body -> nid n < fresh_id body.
Proof.
  induction body as [|m r IH]; simpl; intros n H; try tauto. unfold fresh_id in *. simpl.
  destruct H as [H|H]; [subst; lia | specialize (IH n H); lia].
Qed.

Definition todo_ids (snap : list node) : list Z := map nid (filter (fun n => negb (is_ret n)) snap).

Lemma wf_src_cinv : forall body, wf_src body -> cinv (fresh_id body) (todo_ids body) body.
Proof.
  intros body [[Hnd Ho] [Hn [Hr Hru]]]. constructor; auto.
  - split; auto.
  - intros n Hin. split. apply fresh_id_gt; auto. intros j Hj.
    destruct (ordered_ops_in _ _ _ _ Ho Hin Hj) as [A|[]]. apply in_map_iff in A.
    destruct A as [m [Hm Hmin]]. rewrite <- Hm. apply fresh_id_gt; auto.
  - intros cl Hcl Hc. destruct (Hn cl Hcl). congruence.
  - intros cl Hcl Hc. destruct (Hn cl Hcl). congruence.
  - intros x cl _ Hcl Hc. destruct (Hn cl Hcl). congruence.
  - intros x Hx. unfold todo_ids in Hx. apply in_map_iff in Hx. destruct Hx as [n [Hn' Hin]].
    apply filter_In in Hin. rewrite <- Hn'. apply fresh_id_gt. tauto.
Qed.

(* ---------------- semantics of one step ---------------- *)
Section StepSem.
  Variable sem : Z -> Z -> list Z -> Z.
  Variable args : Z -> Z.

  Definition upd (rho : Z -> Z) (k v : Z) : Z -> Z := fun id => if id =? k then v else rho id.

  Lemma vval_upd : forall rho k v w, (forall j, w = VRes j -> j <> k) -> vval args (upd rho k v) w = vval args rho w.
  Proof.
    intros rho k v w H. destruct w as [i|j]; simpl; auto. unfold upd.
    destruct (j =? k) eqn:E; auto. apply Z.eqb_eq in E. exfalso. apply (H j); auto.
  Qed.

  Lemma node_ok_upd : forall rho k v n,
      nid n <> k -> (forall j, In (VRes j) (nops n) -> j <> k) ->
      node_ok sem args rho n -> node_ok sem args (upd rho k v) n.
  Proof.
    intros rho k v n Hid Hops H. unfold node_ok in *.
    assert (Hm : map (vval args (upd rho k v)) (nops n) = map (vval args rho) (nops n)).
    { apply map_ext_in. intros w Hw. apply vval_upd. intros j Hj. subst. auto. }
    assert (Hr : upd rho k v (nid n) = rho (nid n)).
    { unfold upd. destruct (nid n =? k) eqn:E; auto. apply Z.eqb_eq in E. congruence. }
    destruct (is_class n).
    - intros m Hin. rewrite Hr. rewrite vval_upd. auto. intros j Hj. subst. auto.
    - destruct (is_ret n); auto. rewrite Hr, Hm. exact H.
  Qed.

  Lemma obs_upd : forall rho k v l,
      (forall n j, In n l -> In (VRes j) (nops n) -> j <> k) ->
      obs args (upd rho k v) l = obs args rho l.
  Proof.
    intros rho k v. induction l as [|n r IH]; intros H; auto. unfold obs in *. simpl.
    destruct (is_ret n); simpl.
    - f_equal. apply map_ext_in. intros w Hw. apply vval_upd. intros j Hj. subst. eapply H; eauto. left; auto.
      apply IH. intros m j Hm. apply H. right; auto.
    - apply IH. intros m j Hm. apply H. right; auto.
  Qed.

  Lemma obs_app : forall rho a b, obs args rho (a ++ b) = obs args rho a ++ obs args rho b.
  Proof. intros. unfold obs. rewrite filter_app, map_app. reflexivity. Qed.

  Lemma step_sem : forall rho next o pre post,
      (forall n, In n (pre ++ post) -> nid n < next /\ forall j, In (VRes j) (nops n) -> j < next) ->
      (forall x, o = VRes x -> x < next) ->
      models sem args rho (pre ++ post) ->
      let rho' := upd rho next (vval args rho o) in
      models sem args rho' (step_shape o next pre post) /\
      obs args rho' (step_shape o next pre post) = obs args rho (pre ++ post).
  Proof.
    intros rho next o pre post Hb Ho Hm rho'.
    assert (Hagree : forall n, In n (pre ++ post) -> node_ok sem args rho' n).
    { intros n Hn. destruct (Hb n Hn) as [B1 B2]. apply node_ok_upd; auto; try lia.
      intros j Hj. specialize (B2 j Hj). lia. }
    assert (Hvo : vval args rho' o = vval args rho' (VRes next)).
    { simpl. unfold rho' at 2. unfold upd. rewrite Z.eqb_refl. apply vval_upd.
      intros j Hj. specialize (Ho j Hj). lia. }
    split.
    - intros n Hn. unfold step_shape in Hn. apply in_app_or in Hn. destruct Hn as [Hn|[Hn|Hn]].
      + apply Hagree. apply in_or_app; auto.
      + subst n. unfold node_ok. simpl. intros m [Hm'|[]]. subst m. exact Hvo.
      + revert n Hn. apply models_replace; auto. intros n Hn. apply Hagree. apply in_or_app; auto.
    - unfold step_shape. rewrite obs_app. rewrite obs_app.
      assert (Hc : obs args rho' (class_node next o :: replace_uses_if not_ClassOp o (VRes next) post)
                   = obs args rho' (replace_uses_if not_ClassOp o (VRes next) post)) by reflexivity.
      rewrite Hc. rewrite obs_replace; auto.
      f_equal; apply obs_upd; intros n j Hn Hj.
      + destruct (Hb n (in_or_app _ _ _ (or_introl Hn))) as [_ B2]. specialize (B2 j Hj). lia.
      + destruct (Hb n (in_or_app _ _ _ (or_intror Hn))) as [_ B2]. specialize (B2 j Hj). lia.
  Qed.
End StepSem.

(* ---------------- node-local facts survive a step ---------------- *)
Lemma step_shape_In : forall o next pre post n',
    In n' (step_shape o next pre post) ->
    n' = class_node next o \/
    exists n, In n (pre ++ post) /\ nid n' = nid n /\ nname n' = nname n /\ nres n' = nres n /\ ncost n' = ncost n.
Proof.
  intros o next pre post n' H. unfold step_shape in H. apply in_app_or in H. destruct H as [H|[H|H]]; auto.
  - right. exists n'. repeat split; auto. apply in_or_app; auto.
  - right. apply replace_In in H. destruct H as [n [A [B [C [D [_ [E _]]]]]]]. exists n.
    repeat split; auto. apply in_or_app; auto.
Qed.

Lemma step_shape_conv : forall o next pre post n, In n (pre ++ post) ->
    exists n', In n' (step_shape o next pre post) /\ nid n' = nid n /\ nname n' = nname n /\ nres n' = nres n.
Proof.
  intros o next pre post n H. apply in_app_or in H. destruct H as [H|H].
  - exists n. split; auto. unfold step_shape. apply in_or_app; auto.
  - destruct (replace_In_conv not_ClassOp o (VRes next) post n H) as [n' [A B]]. exists n'. split; auto.
    unfold step_shape. apply in_or_app. right. right. exact A.
Qed.

Lemma step_fine : forall o next pre post,
    (forall n, In n (pre ++ post) -> node_fine n) ->
    forall n', In n' (step_shape o next pre post) -> node_fine n'.
Proof.
  intros o next pre post H n' Hn'. destruct (step_shape_In _ _ _ _ _ Hn') as [A|[n [A [B [C [D E]]]]]].
  - subst. unfold node_fine. simpl. repeat split; try discriminate.
  - destruct (H n A) as [F1 [F2 F3]]. unfold node_fine. rewrite E, D, (is_ret_name _ _ C). auto.
Qed.

(* ---------------- the two loops ---------------- *)
Section Loops.
  Variable sem : Z -> Z -> list Z -> Z.
  Variable args : Z -> Z.
  Variable obs0 : list (list Z).

  Definition full (next : Z) (todo : list Z) (B : list node) : Prop :=
    cinv next todo B /\ (forall n, In n B -> node_fine n) /\
    exists rho, models sem args rho B /\ obs args rho B = obs0.

  Lemma full_step : forall next todo o pre post todo',
      full next todo (pre ++ post) ->
      (forall n, In n pre -> ~ In o (nops n)) ->
      (match o with
       | VArg _ => True
       | VRes x => (exists xn, In xn pre /\ nid xn = x /\ plain xn) /\
                   (forall cl, In cl (pre ++ post) -> is_class cl = true -> ~ In (VRes x) (nops cl))
       end) ->
      (forall y, In y todo' -> In y todo /\ o <> VRes y) ->
      full (next + 1) todo' (step_shape o next pre post).
  Proof.
    intros next todo o pre post todo' [Hc [Hf [rho [Hm Hobs]]]] H1 H2 H3. split; [|split].
    - eapply step_inv; eauto.
    - apply step_fine; auto.
    - exists (upd rho next (vval args rho o)).
      destruct (step_sem sem args rho next o pre post) as [A B]; auto.
      + apply (c_bound _ _ _ Hc).
      + intros x Hx. subst o. destruct H2 as [[xn [Hxn [Hid _]]] _].
        destruct (c_bound _ _ _ Hc xn (in_or_app _ _ _ (or_introl Hxn))). lia.
      + split; auto. congruence.
  Qed.

  Lemma create_ops_full : forall snap B next,
      full next (todo_ids snap) B ->
      NoDup (map nid snap) ->
      (forall s, In s snap -> exists n, In n B /\ nid n = nid s /\ nname n = nname s /\ nres n = nres s /\
                                        is_class n = false) ->
      exists B' next', create_ops snap B next = Ok (B', next') /\ full next' [] B'.
  Proof.
    induction snap as [|s rest IH]; intros B next Hfull Hnd Hsrc.
    - exists B, next. split; auto.
    - simpl. inversion Hnd as [|? ? Hsni Hnd']; subst.
      assert (Hsrc' : forall s0, In s0 rest -> exists n, In n B /\ nid n = nid s0 /\ nname n = nname s0 /\
                                                         nres n = nres s0 /\ is_class n = false)
        by (intros; apply Hsrc; right; auto).
      destruct (nname s =? N_RET) eqn:Eret.
      + apply IH; auto. unfold todo_ids in *. simpl in Hfull. unfold is_ret in Hfull at 1.
        rewrite Eret in Hfull. exact Hfull.
      + destruct (Hsrc s (or_introl eq_refl)) as [xn [Hxn [Hxid [Hxnm [Hxres Hxcl]]]]].
        destruct Hfull as [Hc [Hf Hsem]].
        assert (Hxret : is_ret xn = false) by (unfold is_ret; rewrite Hxnm; exact Eret).
        assert (Hres1 : nres s = 1).
        { destruct (Hf xn Hxn) as [_ [_ F3]]. rewrite Hxret in F3. congruence. }
        rewrite Hres1. simpl.
        destruct (split_node B xn Hxn) as [pre [post HB]]. subst B.
        destruct (c_struct _ _ _ Hc) as [HndB HoB].
        rewrite <- Hxid. rewrite (ops_step_shape (nid xn) next pre xn post); auto.
        assert (Htodo_eq : todo_ids (s :: rest) = nid s :: todo_ids rest).
        { unfold todo_ids. simpl. unfold is_ret at 1. rewrite Eret. reflexivity. }
        assert (Hfull2 : full (next + 1) (todo_ids rest) (step_shape (VRes (nid xn)) next (pre ++ [xn]) post)).
        { apply (full_step next (todo_ids (s :: rest))).
          - rewrite <- app_assoc. simpl. split; auto.
          - destruct (prefix_no_use pre xn post HndB HoB) as [_ Hnu]. exact Hnu.
          - split.
            + exists xn. split. apply in_or_app; right; left; auto. split; auto. split; auto.
            + rewrite <- app_assoc. simpl. intros cl Hcl Hclc.
              apply (c_todo _ _ _ Hc (nid xn) cl); auto. rewrite Htodo_eq. left. auto.
          - intros y Hy. split. rewrite Htodo_eq. right; auto.
            intro Heq. inversion Heq. apply Hsni. unfold todo_ids in Hy. apply in_map_iff in Hy.
            destruct Hy as [n [Hn Hin]]. apply filter_In in Hin. rewrite <- Hxid, H0, <- Hn. apply in_map. tauto. }
        apply IH; auto.
        intros s0 Hs0. destruct (Hsrc' s0 Hs0) as [n [Hn [A [B [C D]]]]].
        assert (Hn' : In n ((pre ++ [xn]) ++ post)) by (rewrite <- app_assoc; exact Hn).
        destruct (step_shape_conv (VRes (nid xn)) next (pre ++ [xn]) post n Hn') as [n' [A' [B' [C' D']]]].
        exists n'. split; auto. repeat split; try congruence. rewrite (is_class_name _ _ C'). exact D.
  Qed.

  Lemma create_args_full : forall ids B next,
      full next [] B ->
      exists B' next', create_args ids B next = (B', next') /\ full next' [] B'.
  Proof.
    induction ids as [|i rest IH]; intros B next Hfull; simpl.
    - exists B, next. auto.
    - change (replace_uses_if not_ClassOp (VArg i) (VRes next) (mk_class next (VArg i) :: B))
        with (step_shape (VArg i) next [] B).
      apply IH. apply (full_step next [] (VArg i) [] B []); auto; intros ? [].
  Qed.
End Loops.

(* ---------------- create as a whole ---------------- *)
Lemma exists_model : forall sem args body d rho,
    ordered d body -> NoDup (map nid body) -> (forall n, In n body -> is_class n = false) ->
    (forall j, In j d -> ~ In j (map nid body)) ->
    exists rho', (forall id, ~ In id (map nid body) -> rho' id = rho id) /\ models sem args rho' body.
Proof.
  intros sem args. induction body as [|n r IH]; intros d rho Ho Hnd Hnc Hd.
  - exists rho. split; auto. intros n [].
  - simpl in Ho. destruct Ho as [Hh Ht]. inversion Hnd as [|? ? Hni Hnd']; subst.
    set (v := sem (nname n) (nattr n) (map (vval args rho) (nops n))).
    destruct (IH (nid n :: d) (upd rho (nid n) v)) as [rho' [Hag Hm]]; auto.
    + intros m Hm. apply Hnc. right; auto.
    + intros j [Hj|Hj] Hin.
      * subst. auto.
      * apply (Hd j Hj). right. exact Hin.
    + exists rho'. split.
      * intros id Hid. rewrite Hag. unfold upd. destruct (id =? nid n) eqn:E; auto.
        apply Z.eqb_eq in E. subst. exfalso. apply Hid. left; auto.
        intro Hin. apply Hid. right. exact Hin.
      * intros m [Hm'|Hm']; [|apply Hm; auto]. subst m. unfold node_ok.
        rewrite (Hnc n (or_introl eq_refl)). destruct (is_ret n); auto.
        rewrite (Hag (nid n) Hni). unfold upd at 1. rewrite Z.eqb_refl. unfold v. f_equal.
        apply map_ext_in. intros w Hw. destruct w as [i|j]; simpl; auto.
        rewrite Hag. unfold upd. destruct (j =? nid n) eqn:E; auto.
        apply Z.eqb_eq in E. subst. exfalso. apply (Hd (nid n) (Hh _ Hw)). left; auto.
        intro Hin. apply (Hd j (Hh _ Hw)). right. exact Hin.
Qed.

Theorem create_ok : forall sem args p,
    wf_src (p_body p) ->
    exists g rho0 rho,
      create p = Ok g /\ p_nargs g = p_nargs p /\
      models sem args rho0 (p_body p) /\
      models sem args rho (p_body g) /\ obs args rho (p_body g) = obs args rho0 (p_body p) /\
      (exists next, cinv next [] (p_body g)) /\ (forall n, In n (p_body g) -> node_fine n).
Proof.
  intros sem args p Hwf. assert (Hwf' := Hwf). destruct Hwf' as [[Hnd Ho] [Hn [Hr Hru]]].
  destruct (exists_model sem args (p_body p) [] (fun _ => 0)) as [rho0 [_ Hm0]]; auto.
  { intros n Hin. destruct (Hn n Hin); auto. }
  destruct (create_ops_full sem args (obs args rho0 (p_body p)) (p_body p) (p_body p) (fresh_id (p_body p)))
    as [B1 [next1 [He1 Hf1]]]; auto.
  { split; [apply wf_src_cinv; auto|]. split. intros n Hin. destruct (Hn n Hin); auto. exists rho0. auto. }
  { intros s Hs. exists s. destruct (Hn s Hs). repeat split; auto. }
  destruct (create_args_full sem args (obs args rho0 (p_body p)) (arg_ids (p_nargs p)) B1 next1 Hf1)
    as [B2 [next2 [He2 [Hc2 [Hfine2 [rho [Hm2 Ho2]]]]]]].
  exists (Prog (p_nargs p) B2), rho0, rho. unfold create. rewrite He1, He2. simpl.
  split; [reflexivity|]. split; [reflexivity|]. split; [exact Hm0|]. split; [exact Hm2|].
  split; [exact Ho2|]. split; [exists next2; exact Hc2 | exact Hfine2].
Qed.

(* ---------------- the cost pass on the created e-graph: no exception, every class chosen ---------------- *)
Lemma find_node_some : forall body j, In j (map nid body) -> exists n, find_node j body = Some n.
Proof.
  induction body as [|m r IH]; simpl; intros j H; try tauto.
  destruct (nid m =? j) eqn:E; eauto. destruct H as [H|H]; [apply Z.eqb_neq in E; congruence | auto].
Qed.

Section NoErr.
  Variable body : list node.
  Variable d : option Z.
  Hypothesis Hnb : forall n, In n body -> ncost n <> CBad.
  Hypothesis Hres : forall n j, In n body -> In (VRes j) (nops n) -> exists dj, find_node j body = Some dj.

  Lemma base_cost_no_err : forall n e, In n body -> base_cost n d <> Err e.
  Proof. intros n e Hn. unfold base_cost. specialize (Hnb n Hn). destruct (ncost n); congruence. Qed.

  Lemma sum_operands_no_err : forall cs ops total e,
      (forall j, In (VRes j) ops -> exists dj, find_node j body = Some dj) ->
      sum_operands body cs d ops total <> Err e.
  Proof.
    intros cs. induction ops as [|o r IH]; intros total e H; simpl; try discriminate.
    assert (H' : forall j, In (VRes j) r -> exists dj, find_node j body = Some dj) by (intros; apply H; right; auto).
    destruct o as [i|j]; auto. destruct (H j (or_introl eq_refl)) as [dj Hdj]. rewrite Hdj.
    destruct (is_class dj).
    - destruct (lookup j cs); auto; discriminate.
    - destruct (base_cost dj d) eqn:Eb; auto; try discriminate.
      exfalso. apply find_node_In in Hdj. destruct Hdj. eapply base_cost_no_err; eauto.
  Qed.

  Lemma calc_total_no_err : forall cs v e,
      (forall j, v = VRes j -> exists dj, find_node j body = Some dj) -> calc_total body cs d v <> Err e.
  Proof.
    intros cs v e H. unfold calc_total. destruct v as [i|id]; try discriminate.
    destruct (H id eq_refl) as [op Hop]. rewrite Hop. apply find_node_In in Hop. destruct Hop as [Hop _].
    destruct (is_class op); try discriminate.
    destruct (base_cost op d) as [[nc|]| |] eqn:Eb; try discriminate.
    - apply sum_operands_no_err. intros j Hj. eapply Hres; eauto.
    - exfalso. eapply base_cost_no_err; eauto.
  Qed.

  Lemma sweep_members_no_err : forall cid members idx st e,
      (forall j, In (VRes j) members -> exists dj, find_node j body = Some dj) ->
      sweep_members body d cid members idx st <> Err e.
  Proof.
    intros cid. induction members as [|m r IH]; intros idx st e H; simpl; try discriminate.
    destruct st as [[cs ms] ch].
    assert (H' : forall j, In (VRes j) r -> exists dj, find_node j body = Some dj) by (intros; apply H; right; auto).
    destruct (calc_total body cs d m) as [[t|]| |] eqn:Ec; auto; try discriminate.
    exfalso. revert Ec. apply calc_total_no_err. intros j Hj. subst. apply H. left; auto.
  Qed.

  Lemma sweep_classes_no_err : forall todo st e,
      (forall n, In n todo -> In n body) -> sweep_classes body d todo st <> Err e.
  Proof.
    induction todo as [|n r IH]; intros st e H; simpl; try discriminate.
    assert (H' : forall n0, In n0 r -> In n0 body) by (intros; apply H; right; auto).
    destruct (is_class n); auto.
    destruct (sweep_members body d (nid n) (nops n) 0 st) eqn:E; auto; try discriminate.
    exfalso. revert E. apply sweep_members_no_err. intros j Hj. eapply Hres; eauto. apply H. left; auto.
  Qed.

  Lemma fix_loop_no_err : forall fuel cs ms e, fix_loop fuel body d cs ms <> Err e.
  Proof.
    induction fuel as [|f IH]; intros cs ms e; simpl; try discriminate.
    destruct (sweep_classes body d body (cs, ms, false)) as [[[cs1 ms1] [|]]| |] eqn:E; auto; try discriminate.
    exfalso. revert E. apply sweep_classes_no_err. auto.
  Qed.
End NoErr.

Lemma first_pass_ok : forall d dict body,
    (forall n, In n body -> nres n = 0 \/ nres n = 1) -> exists b1, first_pass d dict body = Ok b1.
Proof.
  intros d dict. induction body as [|n r IH]; simpl; intros H; eauto.
  destruct IH as [r' Hr']. { intros; apply H; right; auto. } rewrite Hr'.
  destruct (H n (or_introl eq_refl)) as [H0|H1].
  - rewrite H0. simpl. eauto.
  - rewrite H1. simpl. destruct (ncost n); eauto. destruct (lookup (nname n) dict); eauto.
    destruct (is_class n); eauto. destruct d; eauto.
Qed.

Lemma first_pass_nobad : forall d dict body b1,
    first_pass d dict body = Ok b1 -> (forall n, In n body -> ncost n <> CBad) ->
    forall n, In n b1 -> ncost n <> CBad.
Proof.
  intros d dict. induction body as [|x r IH]; simpl; intros b1 H Hnb n Hin.
  - inversion H; subst. destruct Hin.
  - destruct (first_pass d dict r) as [r'| |] eqn:Er.
    2,3: (destruct (nres x =? 0); [discriminate|]; destruct (ncost x); try discriminate;
          destruct (lookup (nname x) dict); try discriminate;
          destruct (negb (nres x =? 1)); try discriminate; destruct (is_class x); try discriminate;
          destruct d; discriminate).
    assert (IH' : forall n, In n r' -> ncost n <> CBad) by (apply (IH r' eq_refl); intros; apply Hnb; right; auto).
    assert (Hx : ncost x <> CBad) by (apply Hnb; left; auto).
    assert (Hgoal : forall x', b1 = x' :: r' -> ncost x' <> CBad -> ncost n <> CBad).
    { intros x' Hb Hx'. subst. destruct Hin as [Hin|Hin]; [subst; auto | auto]. }
    destruct (nres x =? 0). { inversion H as [Hb]. eapply Hgoal; eauto. }
    destruct (ncost x) eqn:Ecx.
    + destruct (lookup (nname x) dict).
      * inversion H as [Hb]. try solve [eapply Hgoal; eauto; simpl; try rewrite Ecx; discriminate].
      * destruct (negb (nres x =? 1)); try discriminate. destruct (is_class x).
        -- inversion H as [Hb]. try solve [eapply Hgoal; eauto; simpl; try rewrite Ecx; discriminate].
        -- destruct d; inversion H as [Hb]; try solve [eapply Hgoal; eauto; simpl; try rewrite Ecx; discriminate].
    + inversion H as [Hb]. try solve [eapply Hgoal; eauto; simpl; try rewrite Ecx; discriminate].
    + congruence.
Qed.

Section AllCostable.
  Variable body : list node.
  Variable dd : Z.
  Hypothesis Hnd : NoDup (map nid body).
  Hypothesis Hnb : forall n, In n body -> ncost n <> CBad.
  Hypothesis Hone : forall cl, In cl body -> is_class cl = true -> exists m, nops cl = [m].
  Hypothesis Hpl : forall cl j m, In cl body -> is_class cl = true -> In (VRes j) (nops cl) ->
                                  In m body -> nid m = j -> is_class m = false.

  Definition Q (defs : list Z) : Prop :=
    forall j, In j defs -> exists nj, find_node j body = Some nj /\
                                      (forall j', In (VRes j') (nops nj) -> In j' defs) /\
                                      (is_class nj = true -> costable body (Some dd) j).

  Lemma costable_walk : forall l defs,
      (forall n, In n l -> In n body) -> ordered defs l -> Q defs ->
      forall cl, In cl l -> is_class cl = true -> costable body (Some dd) (nid cl).
  Proof.
    induction l as [|n r IH]; simpl; intros defs Hsub Ho HQ cl Hcl Hclc; try tauto.
    destruct Ho as [Hh Ht]. assert (Hn : In n body) by (apply Hsub; left; auto).
    assert (Hcn : is_class n = true -> costable body (Some dd) (nid n)).
    { intro Hc. destruct (Hone n Hn Hc) as [m Hm]. apply (costable_intro body (Some dd) n m); auto.
      { rewrite Hm. left; auto. }
      destruct m as [i|y]; [constructor|].
      assert (Hy : In y defs) by (apply Hh; rewrite Hm; left; auto).
      destruct (HQ y Hy) as [ny [Hfy [Hopsy _]]].
      assert (Hyn := Hfy). apply find_node_In in Hyn. destruct Hyn as [Hny Hyid].
      assert (Hncl : is_class ny = false).
      { apply (Hpl n y ny); auto. rewrite Hm. left; auto. }
      assert (Hbc : exists nc, base_cost ny (Some dd) = Ok (Some nc)).
      { unfold base_cost. specialize (Hnb ny Hny). destruct (ncost ny); eauto. congruence. }
      destruct Hbc as [nc Hbc]. apply (mo_op body (Some dd) y ny nc); auto.
      intros j' dj Hj' Hfj Hdc. destruct (HQ j' (Hopsy j' Hj')) as [nj' [Hfj' [_ Hc']]].
      rewrite Hfj in Hfj'. inversion Hfj'; subst. auto. }
    assert (HQ' : Q (nid n :: defs)).
    { intros j [Hj|Hj].
      - subst j. exists n. split. apply find_node_NoDup; auto. split; auto. intros j' Hj'. right. auto.
      - destruct (HQ j Hj) as [nj [A [B C]]]. exists nj. split; auto. split; auto. intros j' Hj'. right. auto. }
    destruct Hcl as [Hcl|Hcl].
    - subst cl. auto.
    - apply (IH (nid n :: defs)); auto.
  Qed.

  Lemma all_costable : ordered [] body ->
      forall cl, In cl body -> is_class cl = true -> costable body (Some dd) (nid cl).
  Proof. intros Ho. apply (costable_walk body []); auto. intros j []. Qed.
End AllCostable.

(* transfer of the structural conditions along `same_struct` *)
Lemma struct_ordered : forall a b, Forall2 same_struct a b -> forall d, ordered d a -> ordered d b.
Proof.
  intros a b H. induction H; simpl; intros d Ho; auto. destruct Ho as [Hh Ht].
  destruct H as [H1 [H2 [H3 [H4 H5]]]]. rewrite H1, H4. split; auto.
Qed.

Lemma struct_members_ok : forall a b, Forall2 same_struct a b -> members_ok a -> members_ok b.
Proof.
  intros a b H Hm cn' Hcn' Hcl'.
  destruct (struct_In _ _ H _ Hcn') as [cn [Hcn [A1 [A2 [A3 [A4 A5]]]]]].
  assert (Hcl : is_class cn = true) by (rewrite <- (is_class_name _ _ A2); auto).
  destruct (Hm cn Hcn Hcl) as [Hnd Hj]. rewrite A4. split; auto.
  intros j Hjin. destruct (Hj j Hjin) as [Hp Hu]. split.
  - intros m' Hm' Hmid. destruct (struct_In _ _ H _ Hm') as [m [Hm0 [B1 [B2 _]]]].
    destruct (Hp m Hm0) as [P1 P2]; [congruence|]. split.
    + rewrite (is_class_name _ _ B2). auto.
    + rewrite (is_ret_name _ _ B2). auto.
  - intros n' Hn' Hu'. destruct (struct_In _ _ H _ Hn') as [n [Hn0 [B1 [B2 [B3 [B4 B5]]]]]].
    rewrite B1, A1. apply Hu; auto. rewrite <- B4. auto.
Qed.

Lemma struct_has_ret : forall a b, Forall2 same_struct a b -> has_ret a -> has_ret b.
Proof.
  intros a b H [n [Hn Hr]]. revert n Hn Hr. induction H as [|x y l l' Hxy Hll IH]; intros n Hn Hr.
  - destruct Hn.
  - destruct Hn as [Hn|Hn].
    + subst n. exists y. split; [left; reflexivity|]. destruct Hxy as [_ [H2 _]].
      rewrite (is_ret_name y x H2). exact Hr.
    + destruct (IH n Hn Hr) as [m [Hm Hmr]]. exists m. split; [right; exact Hm | exact Hmr].
Qed.

(* ---------------- C28_create_extract_id ---------------- *)
Theorem create_extract_id : forall p d dict,
    wf_src (p_body p) -> 0 <= d -> (forall k c, lookup k dict = Some c -> 0 <= c) ->
    exists fuel, forall k, exists g g' p',
      create p = Ok g /\ add_costs (fuel + k) (Some d) dict g = Ok g' /\ extract g' = Ok p' /\
      (forall n, In n (p_body p') -> is_class n = false) /\
      forall sem args, exists rs, eval sem args p = Some rs /\ eval sem args p' = Some rs.
Proof.
  intros p d dict Hwf Hd Hdict.
  destruct (create_ok (fun _ _ _ => 0) (fun _ => 0) p Hwf)
    as [g [_ [_ [Hcr [Hna [_ [_ [_ [[next Hc] Hfine]]]]]]]]].
  destruct (c_struct _ _ _ Hc) as [Hnd Ho].
  assert (Hpre : forall n c, In n (p_body g) -> ncost n = CInt c -> 0 <= c).
  { intros n c Hn Hcn. destruct (Hfine n Hn) as [_ [F _]]. eauto. }
  assert (Hdef : forall c, Some d = Some c -> 0 <= c) by (intros c Hc'; inversion Hc'; subst; auto).
  destruct (add_costs_terminates (Some d) dict g Hpre Hdict Hdef) as [fuel Hfuel].
  exists fuel. intro k. destruct (Hfuel k) as [Hnoof _].
  (* the cost pass returns Ok *)
  assert (Hok : exists g', add_costs (fuel + k) (Some d) dict g = Ok g' /\ wf_egraph (p_body g')).
  { unfold add_costs in *. destruct (existsb is_class (p_body g)) eqn:Ex.
    - destruct (first_pass_ok (Some d) dict (p_body g)) as [b1 Hb1].
      { intros n Hn. destruct (Hfine n Hn) as [_ [_ F]]. destruct (is_ret n); auto. }
      assert (Hs1 := first_pass_struct _ _ _ _ Hb1).
      assert (Hnb1 : forall n, In n b1 -> ncost n <> CBad).
      { eapply first_pass_nobad; eauto. intros n Hn. destruct (Hfine n Hn); auto. }
      assert (Hnd1 : NoDup (map nid b1)) by (rewrite (struct_map_nid _ _ Hs1); auto).
      assert (Ho1 : ordered [] b1) by (eapply struct_ordered; eauto).
      assert (Hres1 : forall n j, In n b1 -> In (VRes j) (nops n) -> exists dj, find_node j b1 = Some dj).
      { intros n j Hn Hj. destruct (ordered_ops_in _ _ _ _ Ho1 Hn Hj) as [A|[]]. apply find_node_some; auto. }
      unfold add_eqsat_costs in *. rewrite Hb1 in *.
      destruct (fix_loop (fuel + k) b1 (Some d) [] []) as [[cs ms]| |] eqn:Efl.
      + eexists. split; [reflexivity|]. simpl.
        assert (Hs2 : Forall2 same_struct (p_body g) (apply_mci ms b1)).
        { eapply Forall2_same_struct_trans; eauto. apply apply_mci_struct. }
        split; [|split; [|split]].
        * split. rewrite (struct_map_nid _ _ Hs2); auto. eapply struct_ordered; eauto.
        * eapply struct_members_ok; eauto. apply (c_members _ _ _ Hc).
        * (* every class is costable, hence chosen *)
          destruct (costable_chosen (fuel + k) (Some d) dict (p_body g) (apply_mci ms b1) Hnd) as [b1' [Hb1' Hch]].
          { unfold add_eqsat_costs. rewrite Hb1, Efl. reflexivity. }
          rewrite Hb1 in Hb1'. inversion Hb1'; subst b1'.
          intros c' Hc' Hcl'. apply Hch; auto.
          destruct (struct_In _ _ (apply_mci_struct ms b1) _ Hc') as [c1 [Hc1 [A1 [A2 _]]]].
          rewrite A1. apply all_costable; auto.
          -- intros cl Hcl Hclc. destruct (struct_In _ _ Hs1 _ Hcl) as [cl0 [Hcl0 [B1 [B2 [_ [B4 _]]]]]].
             rewrite B4. apply (c_cls _ _ _ Hc cl0 Hcl0). rewrite <- (is_class_name _ _ B2). auto.
          -- intros cl j m Hcl Hclc Hj Hm Hmid.
             destruct (struct_members_ok _ _ Hs1 (c_members _ _ _ Hc) cl Hcl Hclc) as [_ Hmm].
             destruct (Hmm j Hj) as [Hp _]. destruct (Hp m Hm Hmid). auto.
          -- rewrite <- (is_class_name _ _ A2). auto.
        * eapply struct_has_ret; eauto. apply (c_ret _ _ _ Hc).
      + exfalso. revert Efl. apply fix_loop_no_err; auto.
      + exfalso. apply Hnoof. reflexivity.
    - exists g. split; auto. split; [split; auto|]. split; [apply (c_members _ _ _ Hc)|].
      split; [|apply (c_ret _ _ _ Hc)].
      intros cn Hcn Hcl. exfalso.
      assert (existsb is_class (p_body g) = true) by (apply existsb_exists; eauto). congruence. }
  destruct Hok as [g' [Hg' Hwf']].
  destruct (extract_total (fun _ _ _ => 0) (fun _ => 0) g' Hwf') as [p' [_ [Hex [Hnc _]]]].
  exists g, g', p'. repeat split; auto.
  intros sem args.
  destruct (create_ok sem args p Hwf) as [g2 [rho0 [rho [Hcr2 [_ [Hm0 [Hm [Hobs _]]]]]]]].
  rewrite Hcr in Hcr2. inversion Hcr2; subst g2.
  destruct (extract_total sem args g' Hwf') as [p2 [rs [Hex2 [_ Hev]]]].
  rewrite Hex in Hex2. inversion Hex2; subst p2.
  exists rs. split; auto.
  (* the source is executable and returns rho0's values; the extracted function returns rho's *)
  destruct Hwf as [[Hnds Hos] [Hns [Hrs _]]].
  destruct (eval_total sem args (p_body p) [] [] Hos) as [rs0 Hrs0]; auto.
  { intros n Hn. destruct (Hns n Hn); auto. } { intros j []. }
  assert (H0 : hd_error (obs args rho0 (p_body p)) = Some rs0).
  { eapply eval_models; eauto. intros id v Hl. discriminate. }
  assert (H1 : hd_error (obs args rho (p_body g)) = Some rs).
  { eapply costs_extract_sound; eauto. split; auto. apply (c_ru _ _ _ Hc). }
  unfold eval. rewrite Hrs0. f_equal. congruence.
Qed.
