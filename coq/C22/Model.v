(* C22/Model.v -- executable model (no proofs) of
     xdsl/transforms/canonicalization_patterns/riscv.py     (the integer/memory patterns, RV32)
     the `canonicalize` driver restricted to straight-line riscv SSA snippets
     xdsl/backend/riscv/prologue_epilogue_insertion.py       (PrologueEpilogueInsertion)
   together with the reference semantics they are judged against (RV32 values are Z mod 2^32, written out).

   PATTERN TABLE (source line of the class in canonicalization_patterns/riscv.py -> model definition).
   guard => lhs ==> rhs; `c(x)` = get_constant_value(x) (looks through riscv.mv, rv32.li, rv32.get_register zero);
   `li32 v` = rv32.LiOp(v) (IntegerAttr(v, i32): raises VerifyException unless -2^31 <= v < 2^32);
   `si12 v` = IntegerAttr(v, si12) (raises unless -2048 <= v < 2048); i12 v: raises unless -2048 <= v < 4096,
   values >= 2048 are normalised to v - 4096.

    line  class                                    model                    guard => lhs ==> rhs
    ----  ---------------------------------------  -----------------------  ---------------------------------------------
      25  RemoveRedundantMv                        p_remove_mv MvI          rd type = rs type, allocated => mv x ==> x
      32  RemoveRedundantFMv                       p_remove_mv MvF          same for fmv.s
      39  RemoveRedundantFMvD                      p_remove_mv MvD          same for fmv.d
      46  MultiplyImmediates                       p_multiply_immediates    c(a)=l, c(b) none => mul a b ==> mul b a
                                                                            c(b)=0 => mv b ; c(b)=1 => mv a
                                                                            c(a)=l, c(b)=r => li32 (l*r)
      84  DivideByOneIdentity                      p_divide_by_one          c(b)=1 => div a b ==> mv a
     100  AddImmediates                            p_add_immediates         c(a)=l only => addi b (si12 l); c(b)=r only =>
                                                                            addi a (si12 r); both => li32 (l+r)
     140  AddImmediateZero                         p_add_immediate_zero     imm=0 => addi a 0 ==> mv a
     148  AddImmediateConstant                     p_add_immediate_constant c(a)=c => addi a imm ==> li32 (c+imm)
     165  SubImmediates                            p_sub_immediates         c(b)=r only => sub a b ==> addi a (si12 (-r));
                                                                            both => li32 (l-r)
     198  SubBySelf                                p_sub_by_self            a == b => sub a a ==> mv zero
     215  SubAddi                                  p_sub_addi               a = addi x imm, b == x => sub a b ==> li32 imm
     232  AndiImmediate                            p_andi_immediate         c(a)=c => li32 (c & imm)
     244  AndiZero                                 p_andi_zero              imm=0 => li32 0
     252  OriImmediate                             p_ori_immediate          c(a)=c => li32 (c | imm)
     264  OriImmediateZero                         p_ori_zero               imm=0 => mv a
     275  XoriZero                                 p_xori_zero              imm=0 => mv a
     286  XoriSelfInverse                          p_xori_self_inverse      a = xori x imm => mv x  (+ erase a if one use)
     307  XoriOfXori                               p_xori_of_xori           a = xori x j => xori x (si12 (j ^ imm)) (+ erase)
     329  XoriImmediate                            p_xori_immediate         c(a)=c => li32 (c ^ imm)
     341  ShiftbyZero          (8 rv32 shift ops)  p_shift_by_zero          imm=0 => <shift> a 0 ==> mv a
     364  ShiftConstantFolding (8 rv32 shift ops)  p_shift_constant_folding c(a)=c => li32 (py_operation c)   (rv32.py:115..246)
     394  LoadWordWithKnownOffset                  p_mem_known_offset MW    a = addi x j => lw a imm ==> lw x (si12 (j+imm))
     415  StoreWordWithKnownOffset                 p_mem_known_offset MW    sw likewise
     434  LoadFloatWordWithKnownOffset             p_mem_known_offset MFW   flw x (i12 (j+imm))
     455  StoreFloatWordWithKnownOffset            p_mem_known_offset MFW   fsw
     474  LoadDoubleWithKnownOffset                p_mem_known_offset MFD   fld
     495  StoreDoubleWithKnownOffset               p_mem_known_offset MFD   fsd
     514  AdditionOfSameVariablesToMultiplyByTwo   p_add_same               a == b => add a a ==> mul a (li 2)
     537  FuseMultiplyAddD                         -- not modelled (float, fastmath contract)
     578  BitwiseAndByZero                         p_and_by_zero            c(a)=0 => mv a ; c(b)=0 => mv b  (both `if`s run!)
     599  BitwiseAndBySelf                         p_and_by_self            a == b => mv a
     610  BitwiseOrByZero                          p_or_by_zero             c(a)=0 => mv b elif c(b)=0 => mv a
     630  BitwiseOrBySelf                          p_or_by_self             a == b => mv a
     641  XorBySelf                                p_xor_by_self            a == b => mv zero
     658  BitwiseXorByZero                         p_xor_by_zero            c(a)=0 => mv b ; c(b)=0 => mv a  (both `if`s run!)
     673  ScfgwOpUsingImmediate                    -- not modelled (riscv_snitch)
     689  LoadImmediate0                           p_load_immediate_0       li 0 ==> get_register zero (; mv zero)
   35 of the 37 pattern classes are modelled (rv64 instantiations of the two shift patterns are not).

   `ver` says which of the five proposed repairs (build/proposed_fixes/C22-1..5.diff) the modelled code contains;
   `ver0` is the unchanged tree.  The harness passes the version explicitly, so switching the check to a repaired
   tree is a one-line change there. *)
From Coq Require Import ZArith List Bool.
Import ListNotations.
Local Open Scope Z_scope.

(* ------------------------------------------------------------------------------------------------ values *)
Definition M32 : Z := 4294967296.
Definition H32 : Z := 2147483648.
Definition wrap (x : Z) : Z := x mod M32.
Definition signed (x : Z) : Z := if x <? H32 then x else x - M32.     (* of a value in [0, 2^32) *)
(* IntegerType.normalized_value for a signless iN (truncate_bits=True form) *)
Definition sext32 (v : Z) : Z := (v + H32) mod M32 - H32.
Definition sext12 (v : Z) : Z := (v + 2048) mod 4096 - 2048.
Definition b2z (b : bool) : Z := if b then 1 else 0.

(* ------------------------------------------------------------------------------------------------ syntax *)
Inductive binop := Add | Sub | Mul | Div | And | Or | Xor | Sll | Srl | Sra | Slt | Sltu.
Inductive immop := Addi | Andi | Ori | Xori | Slti | Sltiu.
Inductive shop := Slli | Srli | Srai | Bclri | Bexti | Binvi | Bseti | Rori.      (* the rv32 dialect *)
Inductive mvkind := MvI | MvF | MvD.             (* riscv.mv, riscv.fmv.s, riscv.fmv.d *)
Inductive memkind := MW | MFW | MFD.             (* lw/sw, flw/fsw, fld/fsd *)

Inductive op :=
| OArg (fl : bool)                               (* a free value (result of an opaque op); fl: float register *)
| OGetZero                                       (* rv32.get_register : !riscv.reg<zero> *)
| OLi (c : Z)                                    (* rv32.li c *)
| OMv (k : mvkind) (a : Z)
| OBin (b : binop) (a1 a2 : Z)
| OImm (i : immop) (a : Z) (imm : Z)
| OSh (s : shop) (a : Z) (imm : Z)
| OLoad (m : memkind) (a : Z) (imm : Z)
| OStore (m : memkind) (a v : Z) (imm : Z).

(* nrd: register type of the result: -1 unallocated, 0.. allocated (0 = zero) *)
Record node := mkN { nid : Z; nrd : Z; nop : op }.

Definition operands (o : op) : list Z :=
  match o with
  | OArg _ | OGetZero | OLi _ => []
  | OMv _ a | OImm _ a _ | OSh _ a _ | OLoad _ a _ => [a]
  | OBin _ a b | OStore _ a b _ => [a; b]
  end.
Definition is_store (o : op) : bool := match o with OStore _ _ _ _ => true | _ => false end.
(* ops whose result lives in an integer register *)
Definition is_int_op (o : op) : bool :=
  match o with
  | OArg fl => negb fl
  | OGetZero | OLi _ | OMv MvI _ | OBin _ _ _ | OImm _ _ _ | OSh _ _ _ | OLoad MW _ _ => true
  | _ => false
  end.

(* ------------------------------------------------------------------------------------------------ RV32 semantics *)
Definition shamt (y : Z) : Z := y mod 32.
Definition sem_div (x y : Z) : Z :=
  if y =? 0 then M32 - 1
  else if (signed x =? - H32) && (signed y =? -1) then x
  else wrap (Z.quot (signed x) (signed y)).
(* x, y in [0, 2^32) *)
Definition sem_bin (b : binop) (x y : Z) : Z :=
  match b with
  | Add => wrap (x + y)
  | Sub => wrap (x - y)
  | Mul => wrap (x * y)
  | Div => sem_div x y
  | And => wrap (Z.land x y)
  | Or => wrap (Z.lor x y)
  | Xor => wrap (Z.lxor x y)
  | Sll => wrap (Z.shiftl x (shamt y))
  | Srl => wrap (Z.shiftr x (shamt y))
  | Sra => wrap (Z.shiftr (signed x) (shamt y))
  | Slt => b2z (signed x <? signed y)
  | Sltu => b2z (x <? y)
  end.
(* imm is the 12-bit signed immediate (a Z in [-2048, 2048)); the hardware sign-extends it to 32 bits *)
Definition sem_imm (i : immop) (x imm : Z) : Z :=
  match i with
  | Addi => wrap (x + wrap imm)
  | Andi => wrap (Z.land x (wrap imm))
  | Ori => wrap (Z.lor x (wrap imm))
  | Xori => wrap (Z.lxor x (wrap imm))
  | Slti => b2z (signed x <? imm)
  | Sltiu => b2z (x <? wrap imm)
  end.
(* k is the 5-bit shift amount, 0 <= k < 32 *)
Definition sem_sh (s : shop) (x k : Z) : Z :=
  match s with
  | Slli => wrap (Z.shiftl x k)
  | Srli => wrap (Z.shiftr x k)
  | Srai => wrap (Z.shiftr (signed x) k)
  | Bclri => wrap (Z.ldiff x (Z.shiftl 1 k))
  | Bexti => b2z (Z.testbit x k)
  | Binvi => wrap (Z.lxor x (Z.shiftl 1 k))
  | Bseti => wrap (Z.lor x (Z.shiftl 1 k))
  | Rori => wrap (Z.lor (Z.shiftr x k) (Z.shiftl x (32 - k)))
  end.

(* Execution of straight-line SSA code.  The memory is ABSTRACT: any type with any load/store functions
   (the patterns never reorder, add or drop memory accesses, so no property of memory is needed). *)
Section Exec.
Variable memT : Type.
Variable ld : memT -> memkind -> Z -> Z.
Variable st : memT -> memkind -> Z -> Z -> memT.

Definition env := Z -> Z.
Definition upd (e : env) (i v : Z) : env := fun j => if j =? i then v else e j.
Definition rdx (e : env) (a : Z) : Z := wrap (e a).            (* an integer register is read as 32 bits *)

Definition exec_node (s : env * memT) (n : node) : env * memT :=
  let (e, m) := s in
  let i := nid n in
  match nop n with
  | OArg fl => (if fl then e else upd e i (wrap (e i)), m)
  | OGetZero => (upd e i 0, m)
  | OLi c => (upd e i (wrap c), m)
  | OMv MvI a => (upd e i (rdx e a), m)
  | OMv _ a => (upd e i (e a), m)
  | OBin b a1 a2 => (upd e i (sem_bin b (rdx e a1) (rdx e a2)), m)
  | OImm o a imm => (upd e i (sem_imm o (rdx e a) imm), m)
  | OSh o a k => (upd e i (sem_sh o (rdx e a) k), m)
  | OLoad MW a imm => (upd e i (wrap (ld m MW (wrap (rdx e a + wrap imm)))), m)
  | OLoad k a imm => (upd e i (ld m k (wrap (rdx e a + wrap imm))), m)
  | OStore MW a v imm => (e, st m MW (wrap (rdx e a + wrap imm)) (rdx e v))
  | OStore k a v imm => (e, st m k (wrap (rdx e a + wrap imm)) (e v))
  end.
Definition exec (l : list node) (s : env * memT) : env * memT := fold_left exec_node l s.
End Exec.

(* ------------------------------------------------------------------------------------------------ the code version *)
Record ver := mkver {
  fix_addi : bool;    (* C22-1: AddImmediates / SubImmediates only build an addi when the constant fits si12 *)
  fix_li : bool;      (* C22-2: folded constants are truncated to 32 bits instead of raising *)
  fix_shz : bool;     (* C22-3: ShiftbyZero only on slli/srli/srai/rori (not bclri/bexti/binvi/bseti) *)
  fix_mem : bool;     (* C22-4: *WithKnownOffset only when the combined offset fits si12 *)
  fix_dbl : bool      (* C22-5: BitwiseAndByZero / BitwiseXorByZero rewrite at most once *)
}.
Definition ver0 : ver := mkver false false false false false.
Definition ver_fixed : ver := mkver true true true true true.

(* ------------------------------------------------------------------------------------------------ constructors that may raise *)
Definition in_si12 (v : Z) : bool := (-2048 <=? v) && (v <? 2048).
Definition in_i32 (v : Z) : bool := (- H32 <=? v) && (v <? M32).
(* IntegerAttr(v, i32) *)
Definition mk_i32 (vr : ver) (v : Z) : option Z :=
  if fix_li vr then Some (sext32 v) else if in_i32 v then Some (sext32 v) else None.
(* IntegerAttr(v, si12) *)
Definition mk_si12 (v : Z) : option Z := if in_si12 v then Some v else None.
(* IntegerAttr(v, i12) *)
Definition mk_i12 (v : Z) : option Z :=
  if (-2048 <=? v) && (v <? 4096) then Some (sext12 v) else None.

Inductive outcome :=
| NoMatch
| Rew (new : list node) (repl : option Z) (erase : option Z)
    (* replace the matched op by `new` (inserted at its position); its result is replaced by `repl`;
       `erase`: an operand-defining op the pattern erases when it has exactly one use *)
| Raise (code : Z).     (* 2 = VerifyException, 3 = ValueError (harness/common.py EXC) *)

Definition rew1 (n : node) : outcome := Rew [n] (Some (nid n)) None.
Definition rew_li (vr : ver) (nx rd v : Z) : outcome :=
  match mk_i32 vr v with Some c => rew1 (mkN nx rd (OLi c)) | None => Raise 2 end.
Definition rew_mv (nx rd a : Z) : outcome := rew1 (mkN nx rd (OMv MvI a)).
Definition rew_addi (nx rd a v : Z) : outcome :=
  match mk_si12 v with Some c => rew1 (mkN nx rd (OImm Addi a c)) | None => Raise 2 end.
Definition rew_zero (nx rd : Z) : outcome :=
  Rew [mkN nx 0 OGetZero; mkN (nx + 1) rd (OMv MvI nx)] (Some (nx + 1)) None.

(* ------------------------------------------------------------------------------------------------ lookups *)
(* `rpre`: the ops before the matched one, most recent first *)
Fixpoint find_def (rpre : list node) (a : Z) : option node :=
  match rpre with
  | [] => None
  | d :: r => if nid d =? a then Some d else find_def r a
  end.
(* get_constant_value (riscv.py:717); structural because a definition precedes its uses *)
Fixpoint get_const (rpre : list node) (a : Z) : option Z :=
  match rpre with
  | [] => None
  | d :: r =>
      if nid d =? a then
        match nop d with
        | OGetZero => if nrd d =? 0 then Some 0 else None
        | OMv MvI s => get_const r s
        | OLi c => Some c
        | _ => None
        end
      else get_const r a
  end.
Definition is_c (o : option Z) (c : Z) : bool := match o with Some x => x =? c | None => false end.

(* ------------------------------------------------------------------------------------------------ the patterns *)
Section Patterns.
Variable vr : ver.
Variable rpre : list node.
Variable uses : Z -> Z.     (* number of uses of a value in the whole module *)
Variable n : node.
Variable nx : Z.            (* first unused value id *)
Let rd := nrd n.
Let gc := get_const rpre.
Definition one_use (a : Z) : option Z := if uses a =? 1 then Some a else None.

Definition p_remove_mv (k : mvkind) : outcome :=
  match nop n with
  | OMv k' a =>
      if match k, k' with MvI, MvI | MvF, MvF | MvD, MvD => true | _, _ => false end then
        match find_def rpre a with
        | Some d =>
            (* op.rd.type == op.rs.type and allocated; an int register type never equals a float one *)
            if (nrd d =? rd) && (0 <=? rd) && (Bool.eqb (is_int_op (nop d)) (is_int_op (nop n)))
            then Rew [] (Some a) None else NoMatch
        | None => NoMatch
        end
      else NoMatch
  | _ => NoMatch
  end.

Definition p_multiply_immediates : outcome :=
  match nop n with
  | OBin Mul a b =>
      match gc a, gc b with
      | Some l, None => rew1 (mkN nx rd (OBin Mul b a))
      | None, Some r =>
          if r =? 0 then rew_mv nx rd b else if r =? 1 then rew_mv nx rd a else NoMatch
      | Some l, Some r => rew_li vr nx rd (l * r)
      | None, None => NoMatch
      end
  | _ => NoMatch
  end.

Definition p_divide_by_one : outcome :=
  match nop n with
  | OBin Div a b => if is_c (gc b) 1 then rew_mv nx rd a else NoMatch
  | _ => NoMatch
  end.

Definition p_add_immediates : outcome :=
  match nop n with
  | OBin Add a b =>
      match gc a, gc b with
      | Some l, None => if fix_addi vr && negb (in_si12 l) then NoMatch else rew_addi nx rd b l
      | None, Some r => if fix_addi vr && negb (in_si12 r) then NoMatch else rew_addi nx rd a r
      | Some l, Some r => rew_li vr nx rd (l + r)
      | None, None => NoMatch
      end
  | _ => NoMatch
  end.

Definition p_add_immediate_zero : outcome :=
  match nop n with
  | OImm Addi a imm => if imm =? 0 then rew_mv nx rd a else NoMatch
  | _ => NoMatch
  end.

Definition p_add_immediate_constant : outcome :=
  match nop n with
  | OImm Addi a imm => match gc a with Some c => rew_li vr nx rd (c + imm) | None => NoMatch end
  | _ => NoMatch
  end.

Definition p_sub_immediates : outcome :=
  match nop n with
  | OBin Sub a b =>
      match gc a, gc b with
      | Some l, None => NoMatch
      | None, Some r => if fix_addi vr && negb (in_si12 (- r)) then NoMatch else rew_addi nx rd a (- r)
      | Some l, Some r => rew_li vr nx rd (l - r)
      | None, None => NoMatch
      end
  | _ => NoMatch
  end.

Definition p_sub_by_self : outcome :=
  match nop n with
  | OBin Sub a b => if a =? b then rew_zero nx rd else NoMatch
  | _ => NoMatch
  end.

Definition p_sub_addi : outcome :=
  match nop n with
  | OBin Sub a b =>
      match find_def rpre a with
      | Some (mkN _ _ (OImm Addi x imm)) => if b =? x then rew_li vr nx rd imm else NoMatch
      | _ => NoMatch
      end
  | _ => NoMatch
  end.

Definition p_andi_immediate : outcome :=
  match nop n with
  | OImm Andi a imm => match gc a with Some c => rew_li vr nx rd (Z.land c imm) | None => NoMatch end
  | _ => NoMatch
  end.
Definition p_andi_zero : outcome :=
  match nop n with
  | OImm Andi a imm => if imm =? 0 then rew_li vr nx rd 0 else NoMatch
  | _ => NoMatch
  end.
Definition p_ori_immediate : outcome :=
  match nop n with
  | OImm Ori a imm => match gc a with Some c => rew_li vr nx rd (Z.lor c imm) | None => NoMatch end
  | _ => NoMatch
  end.
Definition p_ori_zero : outcome :=
  match nop n with
  | OImm Ori a imm => if imm =? 0 then rew_mv nx rd a else NoMatch
  | _ => NoMatch
  end.
Definition p_xori_zero : outcome :=
  match nop n with
  | OImm Xori a imm => if imm =? 0 then rew_mv nx rd a else NoMatch
  | _ => NoMatch
  end.
Definition p_xori_self_inverse : outcome :=
  match nop n with
  | OImm Xori a imm =>
      match find_def rpre a with
      | Some (mkN _ _ (OImm Xori x j)) =>
          if imm =? j then Rew [mkN nx rd (OMv MvI x)] (Some nx) (one_use a) else NoMatch
      | _ => NoMatch
      end
  | _ => NoMatch
  end.
Definition p_xori_of_xori : outcome :=
  match nop n with
  | OImm Xori a imm =>
      match find_def rpre a with
      | Some (mkN _ _ (OImm Xori x j)) =>
          match mk_si12 (Z.lxor j imm) with
          | Some c => Rew [mkN nx rd (OImm Xori x c)] (Some nx) (one_use a)
          | None => Raise 2
          end
      | _ => NoMatch
      end
  | _ => NoMatch
  end.
Definition p_xori_immediate : outcome :=
  match nop n with
  | OImm Xori a imm => match gc a with Some c => rew_li vr nx rd (Z.lxor c imm) | None => NoMatch end
  | _ => NoMatch
  end.

Definition is_bitmanip (s : shop) : bool :=
  match s with Bclri | Bexti | Binvi | Bseti => true | _ => false end.
Definition p_shift_by_zero : outcome :=
  match nop n with
  | OSh s a k =>
      if (k =? 0) && negb (fix_shz vr && is_bitmanip s) then rew_mv nx rd a else NoMatch
  | _ => NoMatch
  end.
(* py_operation of the rv32 shift-immediate ops on the python int c (rv32.py); k = the ui5 immediate *)
Definition py_shift (s : shop) (c k : Z) : Z :=
  match s with
  | Slli => Z.shiftl c k
  | Srli => Z.shiftr (c mod M32) k
  | Srai => Z.shiftr c k
  | Bclri => Z.land c (Z.lnot (Z.shiftl 1 k))
  | Bexti => if Z.land c (Z.shiftl 1 k) =? 0 then 0 else 1
  | Binvi => Z.lxor c (Z.shiftl 1 k)
  | Bseti => Z.lor c (Z.shiftl 1 k)
  | Rori => (Z.lor (Z.shiftr (c mod M32) k) (Z.shiftl (c mod M32) (32 - k))) mod M32
  end.
Definition p_shift_constant_folding : outcome :=
  match nop n with
  | OSh s a k => match gc a with Some c => rew_li vr nx rd (py_shift s c k) | None => NoMatch end
  | _ => NoMatch
  end.

Definition mk_off (m : memkind) (v : Z) : option Z :=
  match m with MW => mk_si12 v | _ => mk_i12 v end.
Definition p_mem_known_offset (m : memkind) (store : bool) : outcome :=
  let same := fun m' : memkind =>
    match m, m' with MW, MW | MFW, MFW | MFD, MFD => true | _, _ => false end in
  match nop n with
  | OLoad m' a imm =>
      if same m' && negb store then
        match find_def rpre a with
        | Some (mkN _ _ (OImm Addi x j)) =>
            if fix_mem vr && negb (in_si12 (j + imm)) then NoMatch else
            match mk_off m (j + imm) with
            | Some c => rew1 (mkN nx rd (OLoad m x c))
            | None => Raise 2
            end
        | _ => NoMatch
        end
      else NoMatch
  | OStore m' a v imm =>
      if same m' && store then
        match find_def rpre a with
        | Some (mkN _ _ (OImm Addi x j)) =>
            if fix_mem vr && negb (in_si12 (j + imm)) then NoMatch else
            match mk_off m (j + imm) with
            | Some c => Rew [mkN nx (-1) (OStore m x v c)] None None
            | None => Raise 2
            end
        | _ => NoMatch
        end
      else NoMatch
  | _ => NoMatch
  end.

Definition p_add_same : outcome :=
  match nop n with
  | OBin Add a b =>
      if a =? b then Rew [mkN nx (-1) (OLi 2); mkN (nx + 1) rd (OBin Mul a nx)] (Some (nx + 1)) None
      else NoMatch
  | _ => NoMatch
  end.

(* two consecutive `if`s: when both operands are constant zero the second rewriter.replace acts on an op
   that is already erased -> ValueError("Operation insertion point must have a parent block") *)
Definition p_and_by_zero : outcome :=
  match nop n with
  | OBin And a b =>
      if is_c (gc a) 0 then
        (if is_c (gc b) 0 && negb (fix_dbl vr) then Raise 3 else rew_mv nx rd a)
      else if is_c (gc b) 0 then rew_mv nx rd b else NoMatch
  | _ => NoMatch
  end.
Definition p_and_by_self : outcome :=
  match nop n with
  | OBin And a b => if a =? b then rew_mv nx rd a else NoMatch
  | _ => NoMatch
  end.
Definition p_or_by_zero : outcome :=
  match nop n with
  | OBin Or a b =>
      if is_c (gc a) 0 then rew_mv nx rd b else if is_c (gc b) 0 then rew_mv nx rd a else NoMatch
  | _ => NoMatch
  end.
Definition p_or_by_self : outcome :=
  match nop n with
  | OBin Or a b => if a =? b then rew_mv nx rd a else NoMatch
  | _ => NoMatch
  end.
Definition p_xor_by_self : outcome :=
  match nop n with
  | OBin Xor a b => if a =? b then rew_zero nx rd else NoMatch
  | _ => NoMatch
  end.
Definition p_xor_by_zero : outcome :=
  match nop n with
  | OBin Xor a b =>
      if is_c (gc a) 0 then
        (if is_c (gc b) 0 && negb (fix_dbl vr) then Raise 3 else rew_mv nx rd b)
      else if is_c (gc b) 0 then rew_mv nx rd a else NoMatch
  | _ => NoMatch
  end.
Definition p_load_immediate_0 : outcome :=
  match nop n with
  | OLi c =>
      if c =? 0 then
        (if rd =? 0 then rew1 (mkN nx 0 OGetZero) else rew_zero nx rd)
      else NoMatch
  | _ => NoMatch
  end.

(* names of the modelled pattern classes *)
Inductive pat :=
| RemoveRedundantMv | RemoveRedundantFMv | RemoveRedundantFMvD | MultiplyImmediates | DivideByOneIdentity
| AddImmediates | AddImmediateZero | AddImmediateConstant | SubImmediates | SubBySelf | SubAddi
| AndiImmediate | AndiZero | OriImmediate | OriImmediateZero | XoriZero | XoriSelfInverse | XoriOfXori
| XoriImmediate | ShiftbyZero | ShiftConstantFolding
| LoadWordWithKnownOffset | StoreWordWithKnownOffset | LoadFloatWordWithKnownOffset
| StoreFloatWordWithKnownOffset | LoadDoubleWithKnownOffset | StoreDoubleWithKnownOffset
| AdditionOfSameVariablesToMultiplyByTwo | BitwiseAndByZero | BitwiseAndBySelf | BitwiseOrByZero
| BitwiseOrBySelf | XorBySelf | BitwiseXorByZero | LoadImmediate0.

Definition apply_pat (p : pat) : outcome :=
  match p with
  | RemoveRedundantMv => p_remove_mv MvI
  | RemoveRedundantFMv => p_remove_mv MvF
  | RemoveRedundantFMvD => p_remove_mv MvD
  | MultiplyImmediates => p_multiply_immediates
  | DivideByOneIdentity => p_divide_by_one
  | AddImmediates => p_add_immediates
  | AddImmediateZero => p_add_immediate_zero
  | AddImmediateConstant => p_add_immediate_constant
  | SubImmediates => p_sub_immediates
  | SubBySelf => p_sub_by_self
  | SubAddi => p_sub_addi
  | AndiImmediate => p_andi_immediate
  | AndiZero => p_andi_zero
  | OriImmediate => p_ori_immediate
  | OriImmediateZero => p_ori_zero
  | XoriZero => p_xori_zero
  | XoriSelfInverse => p_xori_self_inverse
  | XoriOfXori => p_xori_of_xori
  | XoriImmediate => p_xori_immediate
  | ShiftbyZero => p_shift_by_zero
  | ShiftConstantFolding => p_shift_constant_folding
  | LoadWordWithKnownOffset => p_mem_known_offset MW false
  | StoreWordWithKnownOffset => p_mem_known_offset MW true
  | LoadFloatWordWithKnownOffset => p_mem_known_offset MFW false
  | StoreFloatWordWithKnownOffset => p_mem_known_offset MFW true
  | LoadDoubleWithKnownOffset => p_mem_known_offset MFD false
  | StoreDoubleWithKnownOffset => p_mem_known_offset MFD true
  | AdditionOfSameVariablesToMultiplyByTwo => p_add_same
  | BitwiseAndByZero => p_and_by_zero
  | BitwiseAndBySelf => p_and_by_self
  | BitwiseOrByZero => p_or_by_zero
  | BitwiseOrBySelf => p_or_by_self
  | XorBySelf => p_xor_by_self
  | BitwiseXorByZero => p_xor_by_zero
  | LoadImmediate0 => p_load_immediate_0
  end.

(* get_canonicalization_patterns of the op's trait, in tuple order (riscv/ops.py, abstract_ops.py, rv32.py) *)
Definition patterns_of (o : op) : list pat :=
  match o with
  | OMv MvI _ => [RemoveRedundantMv]
  | OMv MvF _ => [RemoveRedundantFMv]
  | OMv MvD _ => [RemoveRedundantFMvD]
  | OBin Mul _ _ => [MultiplyImmediates]
  | OBin Div _ _ => [DivideByOneIdentity]
  | OBin Add _ _ => [AddImmediates; AdditionOfSameVariablesToMultiplyByTwo]
  | OBin Sub _ _ => [SubImmediates; SubAddi; SubBySelf]
  | OBin And _ _ => [BitwiseAndByZero; BitwiseAndBySelf]
  | OBin Or _ _ => [BitwiseOrByZero; BitwiseOrBySelf]
  | OBin Xor _ _ => [XorBySelf; BitwiseXorByZero]
  | OImm Addi _ _ => [AddImmediateZero; AddImmediateConstant]
  | OImm Andi _ _ => [AndiImmediate; AndiZero]
  | OImm Ori _ _ => [OriImmediate; OriImmediateZero]
  | OImm Xori _ _ => [XoriZero; XoriSelfInverse; XoriOfXori; XoriImmediate]
  | OSh _ _ _ => [ShiftbyZero; ShiftConstantFolding]
  | OLoad MW _ _ => [LoadWordWithKnownOffset]
  | OLoad MFW _ _ => [LoadFloatWordWithKnownOffset]
  | OLoad MFD _ _ => [LoadDoubleWithKnownOffset]
  | OStore MW _ _ _ => [StoreWordWithKnownOffset]
  | OStore MFW _ _ _ => [StoreFloatWordWithKnownOffset]
  | OStore MFD _ _ _ => [StoreDoubleWithKnownOffset]
  | OLi _ => [LoadImmediate0]
  | _ => []
  end.

(* GreedyRewritePatternApplier: the first pattern that acts wins; an exception propagates.
   Also returns which pattern acted. *)
Fixpoint first_match (ps : list pat) : outcome * option pat :=
  match ps with
  | [] => (NoMatch, None)
  | p :: r => match apply_pat p with NoMatch => first_match r | o => (o, Some p) end
  end.
Definition canon_op : outcome := fst (first_match (patterns_of (nop n))).
Definition canon_pat : option pat := snd (first_match (patterns_of (nop n))).
End Patterns.

(* position of the class in the harness' pattern list (c22.py PATTERNS) *)
Definition pat_code (p : pat) : Z :=
  match p with
  | RemoveRedundantMv => 0 | RemoveRedundantFMv => 1 | RemoveRedundantFMvD => 2 | MultiplyImmediates => 3
  | DivideByOneIdentity => 4 | AddImmediates => 5 | AddImmediateZero => 6 | AddImmediateConstant => 7
  | SubImmediates => 8 | SubBySelf => 9 | SubAddi => 10 | AndiImmediate => 11 | AndiZero => 12
  | OriImmediate => 13 | OriImmediateZero => 14 | XoriZero => 15 | XoriSelfInverse => 16 | XoriOfXori => 17
  | XoriImmediate => 18 | ShiftbyZero => 19 | ShiftConstantFolding => 20 | LoadWordWithKnownOffset => 21
  | StoreWordWithKnownOffset => 22 | LoadFloatWordWithKnownOffset => 23 | StoreFloatWordWithKnownOffset => 24
  | LoadDoubleWithKnownOffset => 25 | StoreDoubleWithKnownOffset => 26
  | AdditionOfSameVariablesToMultiplyByTwo => 27 | BitwiseAndByZero => 28 | BitwiseAndBySelf => 29
  | BitwiseOrByZero => 30 | BitwiseOrBySelf => 31 | XorBySelf => 32 | BitwiseXorByZero => 33
  | LoadImmediate0 => 34
  end.

(* ------------------------------------------------------------------------------------------------ the pass on a snippet *)
Record prog := mkP { p_nodes : list node; p_roots : list Z }.

Definition sub1 (i v a : Z) : Z := if a =? i then v else a.
Definition subst_op (i v : Z) (o : op) : op :=
  match o with
  | OArg _ | OGetZero | OLi _ => o
  | OMv k a => OMv k (sub1 i v a)
  | OBin b a1 a2 => OBin b (sub1 i v a1) (sub1 i v a2)
  | OImm o' a imm => OImm o' (sub1 i v a) imm
  | OSh o' a k => OSh o' (sub1 i v a) k
  | OLoad m a imm => OLoad m (sub1 i v a) imm
  | OStore m a x imm => OStore m (sub1 i v a) (sub1 i v x) imm
  end.
Definition subst_node (i v : Z) (n : node) : node := mkN (nid n) (nrd n) (subst_op i v (nop n)).

Definition count_in (a : Z) (l : list Z) : Z :=
  fold_left (fun acc x => if x =? a then acc + 1 else acc) l 0.
Definition uses_of (p : prog) (a : Z) : Z :=
  fold_left (fun acc n => acc + count_in a (operands (nop n))) (p_nodes p) 0 + count_in a (p_roots p).
Definition fresh_id (l : list node) : Z := fold_left (fun acc n => Z.max acc (nid n + 1)) l 0.
Definition remove_id (e : option Z) (l : list node) : list node :=
  match e with None => l | Some a => filter (fun d => negb (nid d =? a)) l end.

Inductive step_res := SNone | SRaise (code : Z) (by_pat : Z) | SProg (p : prog).
(* apply the first redex in program order; rpre = ops already passed, most recent first *)
Fixpoint step_from (vr : ver) (p : prog) (nx : Z) (rpre post : list node) : step_res :=
  match post with
  | [] => SNone
  | n :: rest =>
      match canon_op vr rpre (uses_of p) n nx with
      | NoMatch => step_from vr p nx (n :: rpre) rest
      | Raise c =>
          SRaise c (match canon_pat vr rpre (uses_of p) n nx with Some q => pat_code q | None => -1 end)
      | Rew new repl er =>
          let pre := remove_id er (rev rpre) in
          match repl with
          | Some v => SProg (mkP (pre ++ new ++ map (subst_node (nid n) v) rest)
                                 (map (sub1 (nid n) v) (p_roots p)))
          | None => SProg (mkP (pre ++ new ++ rest) (p_roots p))
          end
      end
  end.
Definition step (vr : ver) (p : prog) : step_res := step_from vr p (fresh_id (p_nodes p)) [] (p_nodes p).

(* region_dce on the snippet: an unused op goes unless it is a store or its result register is allocated
   (RegisterAllocatedMemoryEffect: a write to an allocated register is an effect); get_register is Pure *)
Fixpoint dce_rev (rnodes : list node) (live : list Z) (acc : list node) : list node :=
  match rnodes with
  | [] => acc
  | n :: r =>
      let keep :=
        match nop n with
        | OArg _ => true
        | OStore _ _ _ _ => true
        | OGetZero => existsb (Z.eqb (nid n)) live
        | _ => existsb (Z.eqb (nid n)) live || (0 <=? nrd n)
        end in
      if keep then dce_rev r (operands (nop n) ++ live) (n :: acc) else dce_rev r live acc
  end.
Definition dce (p : prog) : prog := mkP (dce_rev (rev (p_nodes p)) (p_roots p) []) (p_roots p).

Inductive pass_res := Done (p : prog) | Raised (code : Z) (by_pat : Z) | OutOfFuel.
Fixpoint canon_loop (vr : ver) (fuel : nat) (p : prog) : pass_res :=
  match fuel with
  | O => OutOfFuel
  | S f =>
      match step vr p with
      | SNone => Done (dce p)
      | SRaise c q => Raised c q
      | SProg p' => canon_loop vr f p'
      end
  end.
Definition canonicalize (vr : ver) (p : prog) : pass_res := canon_loop vr 200 p.

(* ------------------------------------------------------------------------------------------------ prologue / epilogue *)
(* PrologueEpilogueInsertion._process_function.  Registers: (false, i) = x_i, (true, i) = f_i. *)
Definition reg := (bool * Z)%type.
Inductive instr :=
| IAddiSp (imm : Z)                  (* addi sp, sp, imm *)
| ISave (r : reg) (off : Z)          (* sw r, off(sp)  /  fsd r, off(sp) *)
| IRestore (r : reg) (off : Z).      (* lw r, off(sp)  /  fld r, off(sp) *)
Definition reg_size (xlen flen : Z) (r : reg) : Z := if fst r then flen else xlen.
Definition stack_size (xlen flen : Z) (used : list reg) : Z :=
  fold_right (fun r acc => reg_size xlen flen r + acc) 0 used.
Fixpoint slots (xlen flen : Z) (used : list reg) (off : Z) : list (reg * Z) :=
  match used with
  | [] => []
  | r :: rest => (r, off) :: slots xlen flen rest (off + reg_size xlen flen r)
  end.
Definition prologue (xlen flen : Z) (used : list reg) : list instr :=
  IAddiSp (- stack_size xlen flen used) :: map (fun s => ISave (fst s) (snd s)) (slots xlen flen used 0).
Definition epilogue (xlen flen : Z) (used : list reg) : list instr :=
  map (fun s => IRestore (fst s) (snd s)) (slots xlen flen used 0) ++ [IAddiSp (stack_size xlen flen used)].

(* `if not used_callee_preserved_registers: return` *)
Definition frame_code (xlen flen : Z) (used : list reg) : list instr * list instr :=
  match used with
  | [] => ([], [])
  | _ => (prologue xlen flen used, epilogue xlen flen used)
  end.

(* used_callee_preserved_registers: OrderedSet of the result types, in walk order, that are s0..s11 / fs0..fs11 *)
Definition is_callee_saved (r : reg) : bool :=
  let i := snd r in (i =? 8) || (i =? 9) || ((18 <=? i) && (i <=? 27)).
Definition reg_eqb (a b : reg) : bool := Bool.eqb (fst a) (fst b) && (snd a =? snd b).
Fixpoint dedup (l : list reg) (seen : list reg) : list reg :=
  match l with
  | [] => []
  | r :: rest => if existsb (reg_eqb r) seen then dedup rest seen else r :: dedup rest (r :: seen)
  end.
Definition used_callee_saved (written : list reg) : list reg := dedup (filter is_callee_saved written) [].

(* a byte-addressed little-endian machine for the theorems: integer registers hold 32-bit values (xlen = 4),
   float registers 64-bit patterns (flen = 8); addresses are taken mod 2^32 *)
Record mstate := mkM { xr : Z -> Z; fr : Z -> Z; mem : Z -> Z }.
Definition SP : Z := 2.
Definition getr (s : mstate) (r : reg) : Z := if fst r then fr s (snd r) else xr s (snd r).
Definition setr (s : mstate) (r : reg) (v : Z) : mstate :=
  if fst r then mkM (xr s) (fun j => if j =? snd r then v else fr s j) (mem s)
  else mkM (fun j => if j =? snd r then v else xr s j) (fr s) (mem s).
Fixpoint load_bytes (m : Z -> Z) (addr : Z) (k : nat) : Z :=
  match k with
  | O => 0
  | S k' => m (wrap addr) + 256 * load_bytes m (addr + 1) k'
  end.
Fixpoint store_bytes (m : Z -> Z) (addr v : Z) (k : nat) : Z -> Z :=
  match k with
  | O => m
  | S k' => store_bytes (fun a => if a =? wrap addr then v mod 256 else m a) (addr + 1) (v / 256) k'
  end.
Definition exec_instr (xlen flen : Z) (s : mstate) (i : instr) : mstate :=
  match i with
  | IAddiSp imm => setr s (false, SP) (wrap (xr s SP + wrap imm))
  | ISave r off =>
      mkM (xr s) (fr s)
          (store_bytes (mem s) (xr s SP + off) (getr s r) (Z.to_nat (reg_size xlen flen r)))
  | IRestore r off =>
      setr s r (load_bytes (mem s) (xr s SP + off) (Z.to_nat (reg_size xlen flen r)))
  end.
Definition exec_instrs (xlen flen : Z) (l : list instr) (s : mstate) : mstate :=
  fold_left (exec_instr xlen flen) l s.
