(* C22/Proofs.v -- pattern-level soundness of the riscv canonicalization patterns (model: C22/Model.v).

   Spec.  A snippet is executed by `exec` (Model.v): SSA ids -> values, integer registers read mod 2^32, abstract
   memory.  `def_holds d e`: environment e satisfies the defining equation of op d (what executing d established);
   `env_ok rpre e`: that holds for every op before the matched one.  `valid_node`: the immediates are in the range
   their attribute types allow (li: normalised i32, si12 immediates and offsets, ui5 shift amounts) -- what the
   verifier guarantees for the input and what "encodable" means for the output.
   `sound_outcome`: executing the replacement ops instead of the matched op gives the same memory, defines only
   fresh ids, every new op is valid, and the replacement value equals the value the matched op defines. *)
From Coq Require Import ZArith List Bool Lia.
From XV Require Import C22.Model C22.ProofsArith.
Import ListNotations.
Local Open Scope Z_scope.

(* ------------------------------------------------------------------------------------------------ spec *)
Definition valid_op (o : op) : Prop :=
  match o with
  | OLi c => - H32 <= c < H32
  | OImm _ _ imm => -2048 <= imm < 2048
  | OSh _ _ k => 0 <= k < 32
  | OLoad _ _ imm => -2048 <= imm < 2048
  | OStore _ _ _ imm => -2048 <= imm < 2048
  | _ => True
  end.
Definition valid_node (n : node) : Prop := valid_op (nop n).

Definition ids_below (nx : Z) (n : node) : Prop :=
  nid n < nx /\ Forall (fun a => a < nx) (operands (nop n)).

Section Sound.
Variable memT : Type.
Variable ld : memT -> memkind -> Z -> Z.
Variable st : memT -> memkind -> Z -> Z -> memT.
Notation exec_node := (exec_node memT ld st).
Notation exec := (exec memT ld st).

(* the value an op with a pure result defines, as a function of the environment *)
Definition def_holds (d : node) (e : env) : Prop :=
  (is_int_op (nop d) = true -> 0 <= e (nid d) < M32) /\
  match nop d with
  | OGetZero => e (nid d) = 0
  | OLi c => e (nid d) = wrap c
  | OMv MvI a => e (nid d) = rdx e a
  | OMv _ a => e (nid d) = e a
  | OBin b a1 a2 => e (nid d) = sem_bin b (rdx e a1) (rdx e a2)
  | OImm o a imm => e (nid d) = sem_imm o (rdx e a) imm
  | OSh o a k => e (nid d) = sem_sh o (rdx e a) k
  | _ => True
  end.
Definition env_ok (rpre : list node) (e : env) : Prop := Forall (fun d => def_holds d e) rpre.

Definition sound_outcome (e : env) (m : memT) (n : node) (nx : Z) (o : outcome) : Prop :=
  match o with
  | Rew new repl er =>
      let s1 := exec_node (e, m) n in
      let s2 := exec new (e, m) in
      snd s1 = snd s2
      /\ Forall valid_node new
      /\ (forall j, j < nx -> fst s2 j = e j)
      /\ match repl with
         | Some v => is_store (nop n) = false /\ fst s2 v = fst s1 (nid n)
         | None => is_store (nop n) = true
         end
  | _ => True
  end.

(* the two rewrites of the unchanged tree that change a value (known findings C22-kf-3 / C22-kf-4) *)
Definition is_floatmem (m : memkind) : bool := match m with MW => false | _ => true end.
Definition miscompiles (vr : ver) (p : pat) (rpre : list node) (n : node) : bool :=
  match p, nop n with
  | ShiftbyZero, OSh s _ _ => negb (fix_shz vr) && is_bitmanip s
  | (LoadFloatWordWithKnownOffset | LoadDoubleWithKnownOffset), OLoad m a imm
  | (StoreFloatWordWithKnownOffset | StoreDoubleWithKnownOffset), OStore m a _ imm =>
      negb (fix_mem vr) &&
      match find_def rpre a with
      | Some (mkN _ _ (OImm Addi x j)) => negb (in_si12 (j + imm))
      | _ => false
      end
  | _, _ => false
  end.

(* ------------------------------------------------------------------------------------------------ lookups *)
Lemma find_def_In rpre a d : find_def rpre a = Some d -> In d rpre /\ nid d = a.
Proof.
  induction rpre as [| x r IH]; cbn; [discriminate |].
  destruct (Z.eqb_spec (nid x) a) as [E | E]; intros H.
  - inversion H; subst. auto.
  - destruct (IH H). auto.
Qed.

Lemma env_ok_In rpre e d : env_ok rpre e -> In d rpre -> def_holds d e.
Proof. unfold env_ok. rewrite Forall_forall. auto. Qed.

Lemma get_const_sound rpre e : env_ok rpre e -> Forall valid_node rpre ->
  forall a c, get_const rpre a = Some c -> rdx e a = wrap c /\ - H32 <= c < H32.
Proof.
  induction rpre as [| d r IH]; intros Hok Hv a c; cbn; [discriminate |].
  inversion Hok as [| ? ? Hd Hr]; subst. inversion Hv as [| ? ? Vd Vr]; subst.
  destruct (Z.eqb_spec (nid d) a) as [E | E]; [| apply IH; assumption].
  subst a. destruct Hd as [_ Hd]. unfold valid_node in Vd.
  destruct (nop d) as [| | c0 | k s | | | | |] eqn:Hop; try discriminate.
  - destruct (nrd d =? 0); [| discriminate]. intros H; inversion H; subst.
    unfold rdx. rewrite Hd. split; [reflexivity | unfold H32; lia].
  - intros H; inversion H; subst. unfold rdx. rewrite Hd, wrap_wrap. cbn in Vd. auto.
  - destruct k; try discriminate. intros H. destruct (IH Hr Vr _ _ H) as [H1 H2].
    split; [| assumption]. unfold rdx at 1. rewrite Hd. unfold rdx in *. rewrite wrap_wrap. assumption.
Qed.

Lemma is_c_sound rpre e a c : env_ok rpre e -> Forall valid_node rpre ->
  is_c (get_const rpre a) c = true -> rdx e a = wrap c.
Proof.
  intros Hok Hv H. unfold is_c in H. destruct (get_const rpre a) as [x |] eqn:G; [| discriminate].
  apply Z.eqb_eq in H. subst x. exact (proj1 (get_const_sound _ _ Hok Hv _ _ G)).
Qed.

Lemma rdx_range e a : 0 <= rdx e a < M32. Proof. apply wrap_range. Qed.
Lemma rdx_upd_ne e i v a : a <> i -> rdx (upd e i v) a = rdx e a.
Proof. intros. unfold rdx, upd. destruct (Z.eqb_spec a i); [contradiction | reflexivity]. Qed.
Lemma upd_eq e i v : upd e i v i = v.
Proof. unfold upd. rewrite Z.eqb_refl. reflexivity. Qed.
Lemma upd_ne e i v j : j <> i -> upd e i v j = e j.
Proof. intros. unfold upd. destruct (Z.eqb_spec j i); [contradiction | reflexivity]. Qed.

(* ------------------------------------------------------------------------------------------------ helpers *)
Lemma mk_i32_sound vr v c : mk_i32 vr v = Some c -> wrap c = wrap v /\ - H32 <= c < H32.
Proof.
  unfold mk_i32. destruct (fix_li vr); [| destruct (in_i32 v)]; intros H; inversion H; subst;
    (split; [apply wrap_sext32 | apply sext32_range]).
Qed.
Lemma in_si12_true v : in_si12 v = true -> -2048 <= v < 2048.
Proof. unfold in_si12. intros H. apply andb_true_iff in H. destruct H as [A B]. apply Z.leb_le in A. apply Z.ltb_lt in B. lia. Qed.
Lemma mk_si12_sound v c : mk_si12 v = Some c -> c = v /\ -2048 <= v < 2048.
Proof.
  unfold mk_si12. destruct (in_si12 v) eqn:E; intros H; inversion H; subst.
  split; [reflexivity | apply in_si12_true; assumption].
Qed.

Ltac split5 := split; [| split; [| split; [| split]]].

Section Pattern.
Variable vr : ver.
Variable rpre : list node.
Variable uses : Z -> Z.
Variable e : env.
Variable m : memT.
Variable nx : Z.
Hypothesis Hok : env_ok rpre e.
Hypothesis Hv : Forall valid_node rpre.
Hypothesis Hb : Forall (ids_below nx) rpre.

Let GC := get_const_sound rpre e Hok Hv.
Let IC := fun a c => is_c_sound rpre e a c Hok Hv.

(* soundness of the small rewrite builders; s1 = the state after executing the matched op *)
Definition result_is (n : node) (val : Z) : Prop :=
  is_store (nop n) = false /\ nid n < nx /\
  fst (exec_node (e, m) n) (nid n) = val /\ snd (exec_node (e, m) n) = m.

Lemma s_li n v val : result_is n val -> wrap v = val ->
  sound_outcome e m n nx (rew_li vr nx (nrd n) v).
Proof.
  intros (Hs & Hi & Hval & Hm) Hw. unfold rew_li. destruct (mk_i32 vr v) as [c |] eqn:E; [| exact I].
  apply mk_i32_sound in E. destruct E as [E1 E2].
  unfold rew1, sound_outcome. remember (exec_node (e, m) n) as s1 eqn:Hs1. cbn.
  split5.
  - exact Hm.
  - constructor; [exact E2 | constructor].
  - intros j Hj. apply upd_ne. lia.
  - exact Hs.
  - rewrite upd_eq. rewrite E1, Hw. symmetry. exact Hval.
Qed.

Lemma s_mv n a val : result_is n val -> rdx e a = val ->
  sound_outcome e m n nx (rew_mv nx (nrd n) a).
Proof.
  intros (Hs & Hi & Hval & Hm) Hw. unfold rew_mv, rew1, sound_outcome.
  remember (exec_node (e, m) n) as s1 eqn:Hs1. cbn. split5.
  - exact Hm.
  - repeat (constructor; try exact I).
  - intros j Hj. apply upd_ne. lia.
  - exact Hs.
  - rewrite upd_eq. rewrite Hw. symmetry. exact Hval.
Qed.

Lemma s_zero n : result_is n 0 -> sound_outcome e m n nx (rew_zero nx (nrd n)).
Proof.
  intros (Hs & Hi & Hval & Hm). unfold rew_zero, sound_outcome.
  remember (exec_node (e, m) n) as s1 eqn:Hs1. cbn. split5.
  - exact Hm.
  - repeat (constructor; try exact I).
  - intros j Hj. rewrite !upd_ne by lia. reflexivity.
  - exact Hs.
  - rewrite upd_eq. unfold rdx. rewrite upd_eq. rewrite Hval. reflexivity.
Qed.

Lemma s_addi n a v val : result_is n val -> wrap (rdx e a + wrap v) = val ->
  sound_outcome e m n nx (rew_addi nx (nrd n) a v).
Proof.
  intros (Hs & Hi & Hval & Hm) Hw. unfold rew_addi. destruct (mk_si12 v) as [c |] eqn:E; [| exact I].
  apply mk_si12_sound in E. destruct E as [-> E2].
  unfold rew1, sound_outcome. remember (exec_node (e, m) n) as s1 eqn:Hs1. cbn. split5.
  - exact Hm.
  - constructor; [exact E2 | constructor].
  - intros j Hj. apply upd_ne. lia.
  - exact Hs.
  - rewrite upd_eq. rewrite Hw. symmetry. exact Hval.
Qed.

End Pattern.
End Sound.
