(* C22/ProofsArith.v -- arithmetic / bit-vector lemmas on Z mod 2^32 used by the C22 proofs. *)
From Coq Require Import ZArith List Bool Lia.
From XV Require Import C22.Model.
Import ListNotations.
Local Open Scope Z_scope.

(* ------------------------------------------------------------------------------------------------ arithmetic *)
Lemma M32_pow : M32 = 2 ^ 32. Proof. reflexivity. Qed.
Lemma wrap_range x : 0 <= wrap x < M32.
Proof. unfold wrap. apply Z.mod_pos_bound. reflexivity. Qed.
Lemma wrap_small x : 0 <= x < M32 -> wrap x = x.
Proof. intros. unfold wrap. apply Z.mod_small; assumption. Qed.
Lemma wrap_wrap x : wrap (wrap x) = wrap x.
Proof. apply wrap_small, wrap_range. Qed.
Lemma wrap_0 : wrap 0 = 0. Proof. reflexivity. Qed.
Lemma wrap_1 : wrap 1 = 1. Proof. reflexivity. Qed.
Lemma wrap_2 : wrap 2 = 2. Proof. reflexivity. Qed.
Lemma wrap_add a b : wrap (wrap a + wrap b) = wrap (a + b).
Proof. unfold wrap. symmetry. apply Zplus_mod. Qed.
Lemma wrap_add_l a b : wrap (wrap a + b) = wrap (a + b).
Proof. unfold wrap. apply Zplus_mod_idemp_l. Qed.
Lemma wrap_add_r a b : wrap (a + wrap b) = wrap (a + b).
Proof. unfold wrap. apply Zplus_mod_idemp_r. Qed.
Lemma wrap_sub_l a b : wrap (wrap a - b) = wrap (a - b).
Proof. unfold wrap. apply Zminus_mod_idemp_l. Qed.
Lemma wrap_sub_r a b : wrap (a - wrap b) = wrap (a - b).
Proof. unfold wrap. apply Zminus_mod_idemp_r. Qed.
Lemma wrap_mul a b : wrap (wrap a * wrap b) = wrap (a * b).
Proof. unfold wrap. symmetry. apply Zmult_mod. Qed.
Lemma wrap_mul_l a b : wrap (wrap a * b) = wrap (a * b).
Proof. unfold wrap. apply Zmult_mod_idemp_l. Qed.
Lemma wrap_opp a : wrap (- wrap a) = wrap (- a).
Proof. change (- wrap a) with (0 - wrap a). change (- a) with (0 - a). apply wrap_sub_r. Qed.
Lemma wrap_sext32 v : wrap (sext32 v) = wrap v.
Proof.
  unfold sext32, wrap. rewrite Zminus_mod_idemp_l.
  replace (v + H32 - H32) with v by ring. reflexivity.
Qed.
Lemma sext32_range v : - H32 <= sext32 v < H32.
Proof.
  unfold sext32. pose proof (Z.mod_pos_bound (v + H32) M32 eq_refl) as B.
  unfold H32, M32 in *. lia.
Qed.
Lemma sext12_id v : -2048 <= v < 2048 -> sext12 v = v.
Proof. intros. unfold sext12. rewrite Z.mod_small by lia. lia. Qed.

Lemma wrap_ones x : wrap x = Z.land x (Z.ones 32).
Proof. unfold wrap. rewrite M32_pow. symmetry. apply Z.land_ones. lia. Qed.
Lemma wrap_land a b : wrap (Z.land a b) = Z.land (wrap a) (wrap b).
Proof.
  rewrite !wrap_ones. apply Z.bits_inj'. intros i Hi.
  rewrite !Z.land_spec. destruct (Z.testbit a i), (Z.testbit b i), (Z.testbit (Z.ones 32) i); reflexivity.
Qed.
Lemma wrap_lor a b : wrap (Z.lor a b) = Z.lor (wrap a) (wrap b).
Proof.
  rewrite !wrap_ones. apply Z.bits_inj'. intros i Hi.
  rewrite !Z.land_spec, !Z.lor_spec, !Z.land_spec.
  destruct (Z.testbit a i), (Z.testbit b i), (Z.testbit (Z.ones 32) i); reflexivity.
Qed.
Lemma wrap_lxor a b : wrap (Z.lxor a b) = Z.lxor (wrap a) (wrap b).
Proof.
  rewrite !wrap_ones. apply Z.bits_inj'. intros i Hi.
  rewrite !Z.land_spec, !Z.lxor_spec, !Z.land_spec.
  destruct (Z.testbit a i), (Z.testbit b i), (Z.testbit (Z.ones 32) i); reflexivity.
Qed.
Lemma wrap_shiftl a k : 0 <= k -> wrap (Z.shiftl (wrap a) k) = wrap (Z.shiftl a k).
Proof. intros. rewrite !Z.shiftl_mul_pow2 by assumption. apply wrap_mul_l. Qed.

Lemma signed_wrap c : - H32 <= c < H32 -> signed (wrap c) = c.
Proof.
  intros Hc. unfold signed, wrap.
  destruct (Z_lt_le_dec c 0) as [Hn | Hp].
  - replace (c mod M32) with (c + M32).
    + destruct (c + M32 <? H32) eqn:E; [apply Z.ltb_lt in E; unfold H32, M32 in *; lia | lia].
    + apply Z.mod_unique with (q := -1); unfold H32, M32 in *; lia.
  - rewrite Z.mod_small by (unfold H32, M32 in *; lia).
    destruct (c <? H32) eqn:E; [reflexivity | apply Z.ltb_ge in E; lia].
Qed.
Lemma wrap_signed x : 0 <= x < M32 -> wrap (signed x) = x.
Proof.
  intros Hx. unfold signed. destruct (x <? H32).
  - apply wrap_small; assumption.
  - unfold wrap. replace (x - M32) with (x + (-1) * M32) by ring. rewrite Z.mod_add by (unfold M32; lia).
    apply Z.mod_small; assumption.
Qed.

Lemma land_bit c k : 0 <= k ->
  (Z.land c (Z.shiftl 1 k) =? 0) = negb (Z.testbit c k).
Proof.
  intros Hk. rewrite Z.shiftl_1_l.
  assert (E : Z.land c (2 ^ k) = if Z.testbit c k then 2 ^ k else 0).
  { apply Z.bits_inj'. intros i Hi. rewrite Z.land_spec, Z.pow2_bits_eqb by assumption.
    destruct (Z.eqb_spec k i) as [-> | Hne].
    - destruct (Z.testbit c i) eqn:T; [rewrite Z.pow2_bits_true by assumption | rewrite Z.bits_0]; reflexivity.
    - rewrite andb_false_r. destruct (Z.testbit c k);
        [rewrite Z.pow2_bits_false by (assumption || congruence) | rewrite Z.bits_0]; reflexivity. }
  rewrite E. destruct (Z.testbit c k); [| reflexivity].
  apply Z.eqb_neq. pose proof (Z.pow_pos_nonneg 2 k). lia.
Qed.
Lemma testbit_wrap c k : 0 <= k < 32 -> Z.testbit (wrap c) k = Z.testbit c k.
Proof. intros. unfold wrap. rewrite M32_pow. apply Z.mod_pow2_bits_low. lia. Qed.

(* range of xor on 12-bit signed immediates (XoriOfXori never raises) *)
Lemma shiftr_range n x : 0 <= n -> (- 2 ^ n <= x < 2 ^ n <-> (Z.shiftr x n = 0 \/ Z.shiftr x n = -1)).
Proof.
  intros Hn. rewrite Z.shiftr_div_pow2 by assumption.
  pose proof (Z.pow_pos_nonneg 2 n ltac:(lia) Hn) as Hp.
  split.
  - intros [Hlo Hhi]. destruct (Z_lt_le_dec x 0).
    + right. symmetry. apply Z.div_unique with (r := x + 2 ^ n); lia.
    + left. apply Z.div_small. lia.
  - intros [E | E].
    + pose proof (Z.div_mod x (2 ^ n) ltac:(lia)) as D. pose proof (Z.mod_pos_bound x (2 ^ n) Hp). lia.
    + pose proof (Z.div_mod x (2 ^ n) ltac:(lia)) as D. pose proof (Z.mod_pos_bound x (2 ^ n) Hp). lia.
Qed.
Lemma lxor_si12 a b : -2048 <= a < 2048 -> -2048 <= b < 2048 -> -2048 <= Z.lxor a b < 2048.
Proof.
  intros Ha Hb. change 2048 with (2 ^ 11) in *.
  apply (shiftr_range 11) in Ha; [| lia]. apply (shiftr_range 11) in Hb; [| lia].
  apply (shiftr_range 11); [lia |]. rewrite Z.shiftr_lxor.
  destruct Ha as [-> | ->], Hb as [-> | ->]; cbn; auto.
Qed.


(* ------------------------------------------------------------------------------------------------ per-pattern facts *)
(* x, y stand for register values already read as 32 bits *)
Lemma f_mul_comm x y : sem_bin Mul x y = sem_bin Mul y x.
Proof. cbn [sem_bin sem_imm]. f_equal; try ring. Qed.
Lemma f_mul_zero_r x : sem_bin Mul x (wrap 0) = wrap 0.
Proof. cbn [sem_bin sem_imm]. rewrite wrap_0, Z.mul_0_r. reflexivity. Qed.
Lemma f_mul_one_r x : 0 <= x < M32 -> sem_bin Mul x (wrap 1) = x.
Proof. intros. cbn [sem_bin sem_imm]. rewrite wrap_1, Z.mul_1_r. apply wrap_small; assumption. Qed.
Lemma f_mul_consts l r : sem_bin Mul (wrap l) (wrap r) = wrap (l * r).
Proof. cbn [sem_bin sem_imm]. apply wrap_mul. Qed.

Lemma signed_1 : signed (wrap 1) = 1. Proof. reflexivity. Qed.
Lemma f_div_one x : 0 <= x < M32 -> sem_bin Div x (wrap 1) = x.
Proof.
  intros Hx. cbn [sem_bin]. unfold sem_div. rewrite wrap_1. cbn [Z.eqb].
  change (signed 1) with 1. change (1 =? -1) with false. rewrite andb_false_r.
  rewrite Z.quot_1_r. apply wrap_signed; assumption.
Qed.

Lemma f_add_const_l l y : sem_bin Add (wrap l) y = wrap (y + wrap l).
Proof. cbn [sem_bin sem_imm]. f_equal; try ring. Qed.
Lemma f_add_consts l r : sem_bin Add (wrap l) (wrap r) = wrap (l + r).
Proof. cbn [sem_bin sem_imm]. apply wrap_add. Qed.
Lemma f_addi_zero x : 0 <= x < M32 -> sem_imm Addi x 0 = x.
Proof. intros. cbn [sem_bin sem_imm]. rewrite wrap_0, Z.add_0_r. apply wrap_small; assumption. Qed.
Lemma f_addi_const c imm : sem_imm Addi (wrap c) imm = wrap (c + imm).
Proof. cbn [sem_bin sem_imm]. apply wrap_add. Qed.

Lemma f_sub_const_r x r : sem_bin Sub x (wrap r) = wrap (x + wrap (- r)).
Proof. cbn [sem_bin sem_imm]. rewrite wrap_sub_r, wrap_add_r. f_equal; try ring. Qed.
Lemma f_sub_consts l r : sem_bin Sub (wrap l) (wrap r) = wrap (l - r).
Proof. cbn [sem_bin sem_imm]. rewrite wrap_sub_l, wrap_sub_r. reflexivity. Qed.
Lemma f_sub_self x : sem_bin Sub x x = 0.
Proof. cbn [sem_bin sem_imm]. rewrite Z.sub_diag. reflexivity. Qed.
Lemma f_sub_addi x imm : sem_bin Sub (wrap (sem_imm Addi x imm)) x = wrap imm.
Proof.
  cbn [sem_bin sem_imm]. rewrite wrap_wrap, wrap_sub_l.
  replace (x + wrap imm - x) with (wrap imm) by ring. apply wrap_wrap.
Qed.

Lemma f_andi_const c imm : sem_imm Andi (wrap c) imm = wrap (Z.land c imm).
Proof. cbn [sem_bin sem_imm]. rewrite <- wrap_land. apply wrap_wrap. Qed.
Lemma f_andi_zero x : sem_imm Andi x 0 = wrap 0.
Proof. cbn [sem_bin sem_imm]. rewrite wrap_0, Z.land_0_r. reflexivity. Qed.
Lemma f_ori_const c imm : sem_imm Ori (wrap c) imm = wrap (Z.lor c imm).
Proof. cbn [sem_bin sem_imm]. rewrite <- wrap_lor. apply wrap_wrap. Qed.
Lemma f_ori_zero x : 0 <= x < M32 -> sem_imm Ori x 0 = x.
Proof. intros. cbn [sem_bin sem_imm]. rewrite wrap_0, Z.lor_0_r. apply wrap_small; assumption. Qed.
Lemma f_xori_const c imm : sem_imm Xori (wrap c) imm = wrap (Z.lxor c imm).
Proof. cbn [sem_bin sem_imm]. rewrite <- wrap_lxor. apply wrap_wrap. Qed.
Lemma f_xori_zero x : 0 <= x < M32 -> sem_imm Xori x 0 = x.
Proof. intros. cbn [sem_bin sem_imm]. rewrite wrap_0, Z.lxor_0_r. apply wrap_small; assumption. Qed.
Lemma f_xori_xori x j imm :
  sem_imm Xori (wrap (sem_imm Xori x j)) imm = sem_imm Xori x (Z.lxor j imm).
Proof.
  cbn [sem_imm]. repeat (rewrite wrap_lxor || rewrite wrap_wrap). apply Z.lxor_assoc.
Qed.
Lemma f_xori_xori_same x j : 0 <= x < M32 -> sem_imm Xori (wrap (sem_imm Xori x j)) j = x.
Proof.
  intros Hx. rewrite f_xori_xori. rewrite Z.lxor_nilpotent. apply f_xori_zero; assumption.
Qed.

Lemma f_shift_zero s x : is_bitmanip s = false -> 0 <= x < M32 -> sem_sh s x 0 = x.
Proof.
  intros Hs Hx. destruct s; try discriminate; cbn [sem_sh].
  - rewrite Z.shiftl_0_r. apply wrap_small; assumption.
  - rewrite Z.shiftr_0_r. apply wrap_small; assumption.
  - rewrite Z.shiftr_0_r. apply wrap_signed; assumption.
  - rewrite Z.shiftr_0_r, Z.sub_0_r. rewrite wrap_lor.
    rewrite Z.shiftl_mul_pow2 by lia. unfold wrap at 2. rewrite M32_pow, Z.mod_mul by lia.
    rewrite Z.lor_0_r. apply wrap_small; assumption.
Qed.

Lemma f_shift_const s c k : - H32 <= c < H32 -> 0 <= k < 32 ->
  sem_sh s (wrap c) k = wrap (py_shift s c k).
Proof.
  intros Hc Hk. destruct s; cbn [sem_sh py_shift].
  - apply wrap_shiftl. lia.
  - reflexivity.
  - rewrite signed_wrap by assumption. reflexivity.
  - rewrite Z.ldiff_land. rewrite !wrap_land, wrap_wrap. reflexivity.
  - rewrite testbit_wrap by assumption. rewrite land_bit by lia.
    destruct (Z.testbit c k); reflexivity.
  - rewrite (wrap_lxor c). rewrite wrap_lxor, wrap_wrap. reflexivity.
  - rewrite (wrap_lor c). rewrite wrap_lor, wrap_wrap. reflexivity.
  - fold (wrap c). fold (wrap (Z.lor (Z.shiftr (wrap c) k) (Z.shiftl (wrap c) (32 - k)))).
    rewrite wrap_wrap. reflexivity.
Qed.

Lemma f_and_zero_l y : sem_bin And (wrap 0) y = wrap 0.
Proof. cbn [sem_bin sem_imm]. rewrite wrap_0, Z.land_0_l. reflexivity. Qed.
Lemma f_and_zero_r x : sem_bin And x (wrap 0) = wrap 0.
Proof. cbn [sem_bin sem_imm]. rewrite wrap_0, Z.land_0_r. reflexivity. Qed.
Lemma f_and_self x : 0 <= x < M32 -> sem_bin And x x = x.
Proof. intros. cbn [sem_bin sem_imm]. rewrite Z.land_diag. apply wrap_small; assumption. Qed.
Lemma f_or_zero_l y : 0 <= y < M32 -> sem_bin Or (wrap 0) y = y.
Proof. intros. cbn [sem_bin sem_imm]. rewrite wrap_0, Z.lor_0_l. apply wrap_small; assumption. Qed.
Lemma f_or_zero_r x : 0 <= x < M32 -> sem_bin Or x (wrap 0) = x.
Proof. intros. cbn [sem_bin sem_imm]. rewrite wrap_0, Z.lor_0_r. apply wrap_small; assumption. Qed.
Lemma f_or_self x : 0 <= x < M32 -> sem_bin Or x x = x.
Proof. intros. cbn [sem_bin sem_imm]. rewrite Z.lor_diag. apply wrap_small; assumption. Qed.
Lemma f_xor_self x : sem_bin Xor x x = 0.
Proof. cbn [sem_bin sem_imm]. rewrite Z.lxor_nilpotent. reflexivity. Qed.
Lemma f_xor_zero_l y : 0 <= y < M32 -> sem_bin Xor (wrap 0) y = y.
Proof. intros. cbn [sem_bin sem_imm]. rewrite wrap_0, Z.lxor_0_l. apply wrap_small; assumption. Qed.
Lemma f_xor_zero_r x : 0 <= x < M32 -> sem_bin Xor x (wrap 0) = x.
Proof. intros. cbn [sem_bin sem_imm]. rewrite wrap_0, Z.lxor_0_r. apply wrap_small; assumption. Qed.
Lemma f_add_self x : sem_bin Add x x = sem_bin Mul x (wrap 2).
Proof. cbn [sem_bin sem_imm]. rewrite wrap_2. f_equal; try ring. Qed.

Lemma f_mem_addr x j imm :
  wrap (wrap (sem_imm Addi x j) + wrap imm) = wrap (x + wrap (j + imm)).
Proof.
  cbn [sem_bin sem_imm]. rewrite wrap_wrap. rewrite wrap_add.
  replace (x + wrap j + imm) with ((x + imm) + wrap j) by ring. rewrite !wrap_add_r. f_equal; ring.
Qed.
