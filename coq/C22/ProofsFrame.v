(* C22/ProofsFrame.v -- PrologueEpilogueInsertion on a byte-level stack machine (Model.v: mstate, exec_instr).

   Spec.  `prologue`/`epilogue` are the op lists the pass inserts for the ordered set `used` of written callee-saved
   registers.  For ANY function body (an arbitrary state transformer) that leaves sp and the frame bytes
   [sp', sp' + stack_size) as it found them, running prologue; body; epilogue restores sp and every register of
   `used`; the epilogue touches no other register.  Addresses wrap at 2^32; the only size condition is that the
   frame is not larger than the address space. *)
From Coq Require Import ZArith List Bool Lia.
From XV Require Import C22.Model C22.ProofsArith.
Import ListNotations.
Local Open Scope Z_scope.

(* ------------------------------------------------------------------------------------------------ bytes *)
Lemma wrap_offset_inj B o1 o2 : 0 <= o1 < M32 -> 0 <= o2 < M32 -> wrap (B + o1) = wrap (B + o2) -> o1 = o2.
Proof.
  intros H1 H2 E. unfold wrap in E.
  assert (D : (o1 - o2) mod M32 = 0).
  { replace (o1 - o2) with ((B + o1) - (B + o2)) by ring. rewrite Zminus_mod, E, Z.sub_diag. reflexivity. }
  apply Z.mod_divide in D; [| unfold M32; lia]. destruct D as [q D].
  assert (q = 0) by (unfold M32 in *; nia). subst q. lia.
Qed.

Lemma store_bytes_other k : forall m a v x,
  (forall t, 0 <= t < Z.of_nat k -> wrap (a + t) <> x) -> store_bytes m a v k x = m x.
Proof.
  induction k as [| k IH]; intros m a v x H; cbn [store_bytes]; [reflexivity |].
  rewrite IH.
  - destruct (Z.eqb_spec x (wrap a)) as [E | _]; [| reflexivity].
    exfalso. apply (H 0); [lia |]. rewrite Z.add_0_r. auto.
  - intros t Ht. replace (a + 1 + t) with (a + (t + 1)) by ring. apply H. lia.
Qed.

Lemma load_bytes_ext k : forall m1 m2 a,
  (forall t, 0 <= t < Z.of_nat k -> m1 (wrap (a + t)) = m2 (wrap (a + t))) ->
  load_bytes m1 a k = load_bytes m2 a k.
Proof.
  induction k as [| k IH]; intros m1 m2 a H; cbn [load_bytes]; [reflexivity |].
  rewrite (IH m1 m2 (a + 1)).
  - f_equal. specialize (H 0 ltac:(lia)). rewrite Z.add_0_r in H. exact H.
  - intros t Ht. replace (a + 1 + t) with (a + (t + 1)) by ring. apply H. lia.
Qed.

Lemma load_store_same k : forall m a v, Z.of_nat k <= M32 ->
  load_bytes (store_bytes m a v k) a k = v mod 256 ^ Z.of_nat k.
Proof.
  induction k as [| k IH]; intros m a v Hk.
  - cbn. symmetry. apply Z.mod_1_r.
  - cbn [store_bytes load_bytes]. rewrite IH by lia.
    rewrite store_bytes_other.
    + rewrite Z.eqb_refl. rewrite Nat2Z.inj_succ, Z.pow_succ_r by lia.
      symmetry. apply Z.rem_mul_r; [lia |]. apply Z.pow_pos_nonneg; lia.
    + intros t Ht E. replace (a + 1 + t) with (a + (1 + t)) in E by ring.
      replace (wrap a) with (wrap (a + 0)) in E by (f_equal; ring).
      apply wrap_offset_inj in E; unfold M32 in *; lia.
Qed.

(* ------------------------------------------------------------------------------------------------ registers *)
Lemma reg_eq_dec (a b : reg) : {a = b} + {a <> b}.
Proof. decide equality; [apply Z.eq_dec | apply Bool.bool_dec]. Qed.

Lemma getr_setr_same s r v : getr (setr s r v) r = v.
Proof. destruct r as [[|] i]; unfold getr, setr; cbn; rewrite Z.eqb_refl; reflexivity. Qed.
Lemma getr_setr_other s r r' v : r <> r' -> getr (setr s r v) r' = getr s r'.
Proof.
  intros H. destruct r as [b i], r' as [b' i']. unfold getr, setr. destruct b, b'; cbn; try reflexivity.
  - destruct (Z.eqb_spec i' i); [subst; contradiction H; reflexivity | reflexivity].
  - destruct (Z.eqb_spec i' i); [subst; contradiction H; reflexivity | reflexivity].
Qed.
Lemma mem_setr s r v : mem (setr s r v) = mem s.
Proof. destruct r as [[|] i]; reflexivity. Qed.
Lemma xr_setr_other s r v j : r <> (false, j) -> xr (setr s r v) j = xr s j.
Proof. intros H. exact (getr_setr_other s r (false, j) v H). Qed.

Section Frame.
Variables xlen flen : Z.
Hypothesis Hx : 0 <= xlen.
Hypothesis Hf : 0 <= flen.
Notation size := (reg_size xlen flen).
Notation total := (stack_size xlen flen).
Notation slots := (slots xlen flen).
Notation run := (exec_instrs xlen flen).

Lemma size_nonneg r : 0 <= size r.
Proof. unfold reg_size. destruct (fst r); assumption. Qed.
Lemma total_cons r u : total (r :: u) = size r + total u.
Proof. reflexivity. Qed.
Lemma total_nonneg used : 0 <= total used.
Proof.
  induction used as [| r u IH]; [cbn; lia |]. rewrite total_cons. pose proof (size_nonneg r). lia.
Qed.

Definition saves (sl : list (reg * Z)) : list instr := map (fun s => ISave (fst s) (snd s)) sl.
Definition restores (sl : list (reg * Z)) : list instr := map (fun s => IRestore (fst s) (snd s)) sl.

Lemma saves_spec : forall used off s,
  0 <= off -> off + total used <= M32 ->
  let s' := run (saves (slots used off)) s in
  xr s' = xr s /\ fr s' = fr s /\
  (forall x, (forall o, off <= o < off + total used -> wrap (xr s SP + o) <> x) -> mem s' x = mem s x) /\
  (forall r o, In (r, o) (slots used off) ->
     load_bytes (mem s') (xr s SP + o) (Z.to_nat (size r)) = getr s r mod 256 ^ size r).
Proof.
  induction used as [| r u IH]; intros off s Hoff Htot.
  - cbn. repeat split; auto. intros r o [].
  - cbn [Model.slots saves map exec_instrs fold_left fst snd]. rewrite total_cons in Htot.
    pose proof (size_nonneg r) as Hs. pose proof (total_nonneg u) as Hu.
    set (s1 := exec_instr xlen flen s (ISave r off)).
    assert (X1 : xr s1 = xr s) by reflexivity. assert (F1 : fr s1 = fr s) by reflexivity.
    assert (G1 : forall q, getr s1 q = getr s q) by (intros q; reflexivity).
    specialize (IH (off + size r) s1 ltac:(lia) ltac:(lia)).
    cbn zeta in IH. fold (saves (slots u (off + size r))) in *.
    change (fold_left (exec_instr xlen flen) (saves (slots u (off + size r))) s1)
      with (run (saves (slots u (off + size r))) s1).
    destruct IH as (IX & IF & IM & IL). rewrite X1 in IM, IL.
    assert (M1 : forall x, (forall t, 0 <= t < size r -> wrap (xr s SP + off + t) <> x) -> mem s1 x = mem s x).
    { intros x H. unfold s1. cbn [exec_instr mem]. apply store_bytes_other.
      intros t Ht. rewrite Z2Nat.id in Ht by assumption. apply H. lia. }
    split; [rewrite IX; exact X1 |]. split; [rewrite IF; exact F1 |]. split.
    + intros x H. rewrite IM.
      * apply M1. intros t Ht. replace (xr s SP + off + t) with (xr s SP + (off + t)) by ring.
        apply H. rewrite total_cons. lia.
      * intros o Ho. apply H. rewrite total_cons. lia.
    + intros r' o [E | Hin].
      * inversion E; subst r' o.
        rewrite (load_bytes_ext _ _ (mem s1)).
        -- unfold s1. cbn [exec_instr mem]. rewrite load_store_same.
           ++ rewrite Z2Nat.id by assumption. reflexivity.
           ++ rewrite Z2Nat.id by assumption. lia.
        -- intros t Ht. rewrite Z2Nat.id in Ht by assumption. apply IM.
           intros o Ho E'. replace (xr s SP + off + t) with (xr s SP + (off + t)) in E' by ring.
           apply wrap_offset_inj in E'; lia.
      * rewrite (IL _ _ Hin). rewrite G1. reflexivity.
Qed.

Lemma restores_spec : forall used off s,
  Forall (fun r => r <> (false, SP)) used -> NoDup used ->
  let s' := run (restores (slots used off)) s in
  mem s' = mem s /\ xr s' SP = xr s SP /\
  (forall r, ~ In r used -> getr s' r = getr s r) /\
  (forall r o, In (r, o) (slots used off) ->
     getr s' r = load_bytes (mem s) (xr s SP + o) (Z.to_nat (size r))).
Proof.
  induction used as [| r u IH]; intros off s Hsp Hnd.
  - cbn. repeat split; auto. intros r o [].
  - cbn [Model.slots restores map exec_instrs fold_left fst snd].
    inversion Hsp as [| ? ? Hr Hsp']; subst. inversion Hnd as [| ? ? Hnin Hnd']; subst.
    set (s1 := exec_instr xlen flen s (IRestore r off)).
    assert (M1 : mem s1 = mem s) by (unfold s1; cbn [exec_instr]; apply mem_setr).
    assert (P1 : xr s1 SP = xr s SP) by (unfold s1; cbn [exec_instr]; apply xr_setr_other; exact Hr).
    specialize (IH (off + size r) s1 Hsp' Hnd'). cbn zeta in IH.
    fold (restores (slots u (off + size r))) in *.
    change (fold_left (exec_instr xlen flen) (restores (slots u (off + size r))) s1)
      with (run (restores (slots u (off + size r))) s1).
    destruct IH as (IM & IP & IO & IL).
    split; [rewrite IM; exact M1 |]. split; [rewrite IP; exact P1 |]. split.
    + intros q Hq. rewrite IO by (intros C; apply Hq; right; exact C).
      unfold s1. cbn [exec_instr]. apply getr_setr_other. intros C. apply Hq. left. exact C.
    + intros r' o [E | Hin].
      * inversion E; subst r' o. rewrite IO by exact Hnin. unfold s1. cbn [exec_instr]. apply getr_setr_same.
      * rewrite (IL _ _ Hin). rewrite M1, P1. reflexivity.
Qed.

Lemma slots_regs used : forall off r, In r used -> exists o, In (r, o) (slots used off).
Proof.
  induction used as [| q u IH]; intros off r []; cbn [Model.slots].
  - subst. eexists. left. reflexivity.
  - destruct (IH (off + size q) r H) as [o Ho]. exists o. right. exact Ho.
Qed.
Lemma slots_range used : forall off r o, In (r, o) (slots used off) ->
  off <= o /\ o + size r <= off + total used.
Proof.
  induction used as [| q u IH]; intros off r o []; rewrite total_cons.
  - inversion H; subst. pose proof (total_nonneg u). lia.
  - apply IH in H. pose proof (size_nonneg q). lia.
Qed.

(* a body: any state transformer that hands back sp and the frame bytes unchanged *)
Definition body_ok (body : mstate -> mstate) (used : list reg) : Prop :=
  forall s, xr (body s) SP = xr s SP /\
            (forall o, 0 <= o < total used -> mem (body s) (wrap (xr s SP + o)) = mem s (wrap (xr s SP + o))).

Definition regs_in_range (s : mstate) (used : list reg) : Prop :=
  (0 <= xr s SP < M32) /\ forall r, In r used -> 0 <= getr s r < 256 ^ size r.

Theorem frame_restores used body s0 :
  Forall (fun r => is_callee_saved r = true) used -> NoDup used -> total used <= M32 ->
  body_ok body used -> regs_in_range s0 used ->
  let s1 := run (prologue xlen flen used) s0 in
  let s2 := body s1 in
  let s3 := run (epilogue xlen flen used) s2 in
  xr s3 SP = xr s0 SP /\
  (forall r, In r used -> getr s3 r = getr s0 r) /\
  (forall r, ~ In r used -> r <> (false, SP) -> getr s3 r = getr s2 r) /\
  (forall r, r <> (false, SP) -> getr s1 r = getr s0 r).
Proof.
  intros Hcs Hnd Htot Hbody (Hsp0 & Hrange). cbn zeta.
  assert (Hnsp : Forall (fun r => r <> (false, SP)) used).
  { rewrite Forall_forall in *. intros r Hin E. specialize (Hcs r Hin). subst r. discriminate. }
  unfold prologue, epilogue. cbn [exec_instrs fold_left].
  set (sA := exec_instr xlen flen s0 (IAddiSp (- total used))).
  set (B := xr sA SP).
  assert (GA : forall r, r <> (false, SP) -> getr sA r = getr s0 r).
  { intros r Hr. unfold sA. cbn [exec_instr]. apply getr_setr_other. intros C. apply Hr. symmetry. exact C. }
  fold (saves (slots used 0)). fold (restores (slots used 0)).
  change (fold_left (exec_instr xlen flen) (saves (slots used 0)) sA) with (run (saves (slots used 0)) sA).
  destruct (saves_spec used 0 sA ltac:(lia) ltac:(lia)) as (SX & SF & SM & SL).
  set (s1 := run (saves (slots used 0)) sA) in *.
  destruct (Hbody s1) as (BP & BM).
  assert (P1 : xr s1 SP = B) by (rewrite SX; reflexivity).
  unfold exec_instrs. rewrite fold_left_app. cbn [fold_left].
  change (fold_left (exec_instr xlen flen) (restores (slots used 0)) (body s1))
    with (run (restores (slots used 0)) (body s1)).
  destruct (restores_spec used 0 (body s1) Hnsp Hnd) as (RM & RP & RO & RL).
  set (sR := run (restores (slots used 0)) (body s1)) in *.
  assert (G1 : forall r, r <> (false, SP) -> getr s1 r = getr s0 r).
  { intros r Hr. rewrite <- (GA r Hr). unfold getr. rewrite SX, SF. reflexivity. }
  split; [| split; [| split]].
  - (* sp *)
    cbn [exec_instr]. change (xr (setr sR (false, SP) (wrap (xr sR SP + wrap (total used)))) SP)
      with (getr (setr sR (false, SP) (wrap (xr sR SP + wrap (total used)))) (false, SP)).
    rewrite getr_setr_same. rewrite RP, BP, P1. unfold B, sA. cbn [exec_instr].
    change (xr (setr s0 (false, SP) (wrap (xr s0 SP + wrap (- total used)))) SP)
      with (getr (setr s0 (false, SP) (wrap (xr s0 SP + wrap (- total used)))) (false, SP)).
    rewrite getr_setr_same. rewrite wrap_add_l, wrap_add_r.
    replace (xr s0 SP + wrap (- total used) + total used) with (xr s0 SP + total used + wrap (- total used)) by ring.
    rewrite wrap_add_r. replace (xr s0 SP + total used + - total used) with (xr s0 SP) by ring.
    apply wrap_small. exact Hsp0.
  - (* saved registers *)
    intros r Hin. pose proof (proj1 (Forall_forall _ _) Hnsp r Hin) as Hr.
    cbn [exec_instr]. rewrite getr_setr_other by (intros C; apply Hr; symmetry; exact C).
    destruct (slots_regs used 0 r Hin) as [o Ho]. rewrite (RL _ _ Ho). rewrite BP, P1.
    pose proof (slots_range _ _ _ _ Ho) as [Ho1 Ho2]. pose proof (size_nonneg r) as Hs.
    rewrite (load_bytes_ext _ _ (mem s1)).
    + fold B in SL. rewrite (SL _ _ Ho). rewrite (GA r Hr). apply Z.mod_small. apply Hrange. exact Hin.
    + intros t Ht. rewrite Z2Nat.id in Ht by assumption.
      replace (B + o + t) with (xr s1 SP + (o + t)) by (rewrite P1; ring). apply BM. lia.
  - intros r Hnin Hr. cbn [exec_instr]. rewrite getr_setr_other by (intros C; apply Hr; symmetry; exact C).
    apply RO. exact Hnin.
  - exact G1.
Qed.

End Frame.

(* the frame of at most 12 + 12 callee-saved registers fits one addi (and the address space) *)
Lemma dedup_NoDup l : forall seen, NoDup (dedup l seen) /\ forall r, In r (dedup l seen) -> In r l /\ ~ In r seen.
Proof.
  induction l as [| r l IH]; intros seen; cbn [dedup].
  - split; [constructor | intros r []].
  - destruct (existsb (reg_eqb r) seen) eqn:E.
    + destruct (IH seen) as [N S]. split; [exact N |]. intros q Hq. destruct (S q Hq). split; [right |]; assumption.
    + destruct (IH (r :: seen)) as [N S]. split.
      * constructor; [| exact N]. intros C. destruct (S r C) as [_ C']. apply C'. left. reflexivity.
      * intros q [-> | Hq].
        -- split; [left; reflexivity |]. intros C.
           assert (existsb (reg_eqb q) seen = true).
           { apply existsb_exists. exists q. split; [exact C |]. unfold reg_eqb. destruct q as [[|] i]; cbn; apply Z.eqb_refl. }
           congruence.
        -- destruct (S q Hq) as [A B]. split; [right; exact A |]. intros C. apply B. right. exact C.
Qed.

Theorem used_callee_saved_spec written :
  NoDup (used_callee_saved written) /\
  Forall (fun r => is_callee_saved r = true) (used_callee_saved written) /\
  (forall r, In r written -> is_callee_saved r = true -> In r (used_callee_saved written)).
Proof.
  unfold used_callee_saved. destruct (dedup_NoDup (filter is_callee_saved written) []) as [N S].
  split; [exact N |]. split.
  - apply Forall_forall. intros r Hr. destruct (S r Hr) as [A _]. apply filter_In in A. apply A.
  - intros r Hin Hcs.
    assert (G : forall l seen, In r l -> ~ In r seen -> In r (dedup l seen)).
    { induction l as [| q l IH]; intros seen H1 H2; [destruct H1 |]. cbn [dedup].
      destruct (existsb (reg_eqb q) seen) eqn:E.
      - destruct H1 as [-> | H1]; [| apply IH; assumption].
        exfalso. apply existsb_exists in E. destruct E as [x [Hx Ex]]. unfold reg_eqb in Ex.
        apply andb_true_iff in Ex. destruct Ex as [E1 E2]. apply Bool.eqb_prop in E1. apply Z.eqb_eq in E2.
        destruct r, x; cbn in *; subst. contradiction.
      - destruct H1 as [-> | H1]; [left; reflexivity |].
        destruct (reg_eq_dec q r) as [-> | Hne]; [left; reflexivity |]. right. apply IH; [exact H1 |].
        intros [C | C]; [contradiction | contradiction]. }
    apply G; [apply filter_In; auto | intros []].
Qed.

(* ------------------------------------------------------------------------------------------------ frame size *)
Lemma total_app xlen flen l1 l2 :
  stack_size xlen flen (l1 ++ l2) = stack_size xlen flen l1 + stack_size xlen flen l2.
Proof.
  induction l1 as [| r l IH]; [reflexivity |]. cbn [app]. rewrite !total_cons, IH. ring.
Qed.

Lemma total_incl xlen flen : 0 <= xlen -> 0 <= flen -> forall l l', NoDup l -> incl l l' ->
  stack_size xlen flen l <= stack_size xlen flen l'.
Proof.
  intros Hx Hf. induction l as [| r u IH]; intros l' Hnd Hinc.
  - cbn. apply total_nonneg; assumption.
  - inversion Hnd as [| ? ? Hnin Hnd']; subst.
    destruct (in_split r l' (Hinc r (or_introl eq_refl))) as (l1 & l2 & ->).
    rewrite total_cons, total_app, total_cons.
    assert (I : incl u (l1 ++ l2)).
    { intros x Hx'. specialize (Hinc x (or_intror Hx')). apply in_app_or in Hinc. apply in_or_app.
      destruct Hinc as [A | [A | A]]; [left; exact A | subst; contradiction | right; exact A]. }
    specialize (IH _ Hnd' I). rewrite total_app in IH. lia.
Qed.

Definition all_callee_saved : list reg :=
  flat_map (fun i => [(false, i); (true, i)]) [8; 9; 18; 19; 20; 21; 22; 23; 24; 25; 26; 27].

Lemma callee_saved_in r : is_callee_saved r = true -> In r all_callee_saved.
Proof.
  destruct r as [b i]. unfold is_callee_saved. cbn [snd]. intros H.
  assert (E : i = 8 \/ i = 9 \/ i = 18 \/ i = 19 \/ i = 20 \/ i = 21 \/ i = 22 \/ i = 23 \/ i = 24 \/ i = 25
              \/ i = 26 \/ i = 27).
  { apply orb_true_iff in H. destruct H as [H | H].
    - apply orb_true_iff in H. destruct H as [H | H]; apply Z.eqb_eq in H; lia.
    - apply andb_true_iff in H. destruct H as [A B]. apply Z.leb_le in A. apply Z.leb_le in B. lia. }
  destruct b; repeat (destruct E as [-> | E]; [cbn; tauto |]); subst; cbn; tauto.
Qed.

(* xlen = 4, flen = 8 (the pass defaults): the sp adjustment is at most 144 and fits the 12-bit immediate *)
Theorem frame_size_bound written :
  0 <= stack_size 4 8 (used_callee_saved written) <= 144.
Proof.
  destruct (used_callee_saved_spec written) as (N & C & _).
  split; [apply total_nonneg; lia |].
  change 144 with (stack_size 4 8 all_callee_saved).
  apply total_incl; [lia | lia | exact N |].
  intros r Hr. apply callee_saved_in. rewrite Forall_forall in C. auto.
Qed.

(* ------------------------------------------------------------------------------------------------ the two claims *)
Section Claims.
Variables xlen flen : Z.
Hypothesis Hx : 0 <= xlen.
Hypothesis Hf : 0 <= flen.
Variable written : list reg.            (* result registers of the ops of the function, in walk order *)
Let used := used_callee_saved written.
Hypothesis Hfit : stack_size xlen flen used <= M32.
Variable body : mstate -> mstate.
Hypothesis Hbody : body_ok xlen flen body used.
(* the body writes no callee-saved register other than those the pass saw being written *)
Hypothesis Hwrites : forall s r, is_callee_saved r = true -> ~ In r used -> getr (body s) r = getr s r.
Variable s0 : mstate.
Hypothesis Hrange : regs_in_range xlen flen s0 used.

Let s3 := exec_instrs xlen flen (epilogue xlen flen used)
            (body (exec_instrs xlen flen (prologue xlen flen used) s0)).

Theorem sp_restored : xr s3 SP = xr s0 SP.
Proof.
  destruct (used_callee_saved_spec written) as (N & C & _).
  exact (proj1 (frame_restores xlen flen Hx Hf used body s0 C N Hfit Hbody Hrange)).
Qed.

Theorem callee_saved_preserved : forall r, is_callee_saved r = true -> getr s3 r = getr s0 r.
Proof.
  intros r Hr. destruct (used_callee_saved_spec written) as (N & C & _).
  destruct (frame_restores xlen flen Hx Hf used body s0 C N Hfit Hbody Hrange) as (_ & A & B & D).
  assert (Hsp : r <> (false, SP)) by (intros ->; discriminate).
  destruct (in_dec reg_eq_dec r used) as [Hin | Hnin].
  - apply A. exact Hin.
  - unfold s3. rewrite (B r Hnin Hsp). rewrite (Hwrites _ r Hr Hnin). apply D. exact Hsp.
Qed.
End Claims.
