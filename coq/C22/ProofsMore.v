(* C22/ProofsMore.v -- (1) with the five repairs no modelled pattern raises; (2) the statement of the property for
   a code version and its refutation for the unchanged tree (one witness per defect class). *)
From Coq Require Import ZArith List Bool Lia.
From XV Require Import C22.Model C22.ProofsArith C22.Proofs C22.ProofsPat.
Import ListNotations.
Local Open Scope Z_scope.

(* ------------------------------------------------------------------------------------------------ no raise *)
Lemma nr_rew1 n c : rew1 n <> Raise c. Proof. discriminate. Qed.
Lemma nr_mv nx rd a c : rew_mv nx rd a <> Raise c. Proof. discriminate. Qed.
Lemma nr_zero nx rd c : rew_zero nx rd <> Raise c. Proof. discriminate. Qed.
Lemma nr_li vr nx rd v c : fix_li vr = true -> rew_li vr nx rd v <> Raise c.
Proof. intros F. unfold rew_li, mk_i32. rewrite F. discriminate. Qed.
Lemma nr_addi nx rd a v c : in_si12 v = true -> rew_addi nx rd a v <> Raise c.
Proof. intros H. unfold rew_addi, mk_si12. rewrite H. discriminate. Qed.

Definition all_fixed (vr : ver) : Prop :=
  fix_addi vr = true /\ fix_li vr = true /\ fix_shz vr = true /\ fix_mem vr = true /\ fix_dbl vr = true.

Ltac nr_close F :=
  first [ discriminate
        | match goal with H : _ && false = true |- _ => rewrite andb_false_r in H; discriminate end
        | apply nr_rew1 | apply nr_mv | apply nr_zero | apply nr_li; exact F
        | apply nr_addi; first [assumption | apply negb_false_iff; assumption] ].
Ltac nr F :=
  repeat first [ nr_close F
               | match goal with |- context [match ?x with _ => _ end] => destruct x eqn:? end ].

Lemma find_def_valid rpre a d : Forall valid_node rpre -> find_def rpre a = Some d -> valid_node d.
Proof.
  intros Hv F. apply find_def_In in F. destruct F as [Hin _]. rewrite Forall_forall in Hv. auto.
Qed.

Theorem no_raise_fixed vr rpre uses n nx p c :
  all_fixed vr -> Forall valid_node rpre -> valid_node n ->
  apply_pat vr rpre uses n nx p <> Raise c.
Proof.
  intros (Fa & Fl & Fs & Fm & Fd) Hv Vn. destruct n as [i rd o]. unfold valid_node in Vn. cbn [nop] in Vn.
  destruct p; cbn [apply_pat];
    unfold p_remove_mv, p_multiply_immediates, p_divide_by_one, p_add_immediates, p_add_immediate_zero,
      p_add_immediate_constant, p_sub_immediates, p_sub_by_self, p_sub_addi, p_andi_immediate, p_andi_zero,
      p_ori_immediate, p_ori_zero, p_xori_zero, p_xori_self_inverse, p_xori_immediate, p_shift_by_zero,
      p_shift_constant_folding, p_add_same, p_and_by_zero, p_and_by_self, p_or_by_zero, p_or_by_self,
      p_xor_by_self, p_xor_by_zero, p_load_immediate_0;
    cbn [nop nrd]; rewrite ?Fa, ?Fd, ?Fm; cbn [andb negb]; rewrite ?andb_false_r;
    try solve [nr Fl].
  - (* XoriOfXori: the combined immediate is again a 12-bit signed value *)
    unfold p_xori_of_xori. cbn [nop nrd].
    destruct o as [| | | | | o a imm | | |]; try discriminate. destruct o; try discriminate.
    destruct (find_def rpre a) as [[di drd dop] |] eqn:F; [| discriminate].
    destruct dop as [| | | | | o x j | | |]; try discriminate. destruct o; try discriminate.
    pose proof (find_def_valid _ _ _ Hv F) as Vd. unfold valid_node in Vd. cbn in Vd, Vn.
    pose proof (lxor_si12 j imm Vd Vn) as R.
    unfold mk_si12, in_si12.
    destruct (-2048 <=? Z.lxor j imm) eqn:A; [| apply Z.leb_gt in A; lia].
    destruct (Z.lxor j imm <? 2048) eqn:B; [| apply Z.ltb_ge in B; lia].
    discriminate.
  - unfold p_mem_known_offset. cbn [nop nrd]. rewrite Fm. cbn [andb].
    nr Fl; try (unfold mk_off, mk_si12 in *;
      match goal with H : negb (in_si12 ?v) = false |- _ => apply negb_false_iff in H; rewrite H in *; discriminate end).
  - unfold p_mem_known_offset. cbn [nop nrd]. rewrite Fm. cbn [andb].
    nr Fl; try (unfold mk_off, mk_si12 in *;
      match goal with H : negb (in_si12 ?v) = false |- _ => apply negb_false_iff in H; rewrite H in *; discriminate end).
  - unfold p_mem_known_offset. cbn [nop nrd]. rewrite Fm. cbn [andb].
    nr Fl; try (unfold mk_off, mk_i12 in *;
      match goal with H : negb (in_si12 ?v) = false |- _ =>
        apply negb_false_iff in H; apply in_si12_true in H end;
      match goal with H : (if ?c then _ else _) = None |- _ =>
        destruct c eqn:Q; [discriminate | apply andb_false_iff in Q; destruct Q as [Q | Q];
          [apply Z.leb_gt in Q | apply Z.ltb_ge in Q]; lia] end).
  - unfold p_mem_known_offset. cbn [nop nrd]. rewrite Fm. cbn [andb].
    nr Fl; try (unfold mk_off, mk_i12 in *;
      match goal with H : negb (in_si12 ?v) = false |- _ =>
        apply negb_false_iff in H; apply in_si12_true in H end;
      match goal with H : (if ?c then _ else _) = None |- _ =>
        destruct c eqn:Q; [discriminate | apply andb_false_iff in Q; destruct Q as [Q | Q];
          [apply Z.leb_gt in Q | apply Z.ltb_ge in Q]; lia] end).
  - unfold p_mem_known_offset. cbn [nop nrd]. rewrite Fm. cbn [andb].
    nr Fl; try (unfold mk_off, mk_i12 in *;
      match goal with H : negb (in_si12 ?v) = false |- _ =>
        apply negb_false_iff in H; apply in_si12_true in H end;
      match goal with H : (if ?c then _ else _) = None |- _ =>
        destruct c eqn:Q; [discriminate | apply andb_false_iff in Q; destruct Q as [Q | Q];
          [apply Z.leb_gt in Q | apply Z.ltb_ge in Q]; lia] end).
  - unfold p_mem_known_offset. cbn [nop nrd]. rewrite Fm. cbn [andb].
    nr Fl; try (unfold mk_off, mk_i12 in *;
      match goal with H : negb (in_si12 ?v) = false |- _ =>
        apply negb_false_iff in H; apply in_si12_true in H end;
      match goal with H : (if ?c then _ else _) = None |- _ =>
        destruct c eqn:Q; [discriminate | apply andb_false_iff in Q; destruct Q as [Q | Q];
          [apply Z.leb_gt in Q | apply Z.ltb_ge in Q]; lia] end).
Qed.

Lemma miscompiles_fixed vr p rpre n : all_fixed vr -> miscompiles vr p rpre n = false.
Proof.
  intros (_ & _ & Fs & Fm & _). unfold miscompiles. rewrite Fs, Fm. cbn [negb andb].
  destruct p, (nop n); reflexivity.
Qed.

(* ------------------------------------------------------------------------------------------------ the statement *)
(* "for every modelled pattern: guard -> sem lhs = sem rhs for ALL register values, and rhs is encodable" *)
Definition canon_sound_statement (vr : ver) : Prop :=
  forall (memT : Type) (ld : memT -> memkind -> Z -> Z) (st : memT -> memkind -> Z -> Z -> memT)
         (rpre : list node) (uses : Z -> Z) (e : env) (m : memT) (nx : Z) (p : pat) (n : node),
    env_ok rpre e -> Forall valid_node rpre -> Forall (ids_below nx) rpre ->
    valid_node n -> ids_below nx n ->
    (forall c, apply_pat vr rpre uses n nx p <> Raise c) /\
    sound_outcome memT ld st e m n nx (apply_pat vr rpre uses n nx p).

Theorem canon_sound_fixed vr : all_fixed vr -> canon_sound_statement vr.
Proof.
  intros F memT ld st rpre uses e m nx p n Hok Hv Hb Vn Hi. split.
  - intros c. apply no_raise_fixed; assumption.
  - apply pat_sound; try assumption. apply miscompiles_fixed. exact F.
Qed.

(* ------------------------------------------------------------------------------------------------ witnesses (unchanged tree) *)
Definition ld0 (_ : unit) (_ : memkind) (a : Z) : Z := a.        (* a memory whose cells hold their address *)
Definition st0 (m : unit) (_ : memkind) (_ _ : Z) : unit := m.
Definition arg0 : node := mkN 0 (-1) (OArg false).
Definition env_w (c : Z) : env := fun j => if j =? 1 then wrap c else if j =? 2 then wrap c else 7.

(* kf-1: add %x, (li 5000)  ->  AddiOp(%x, 5000) raises VerifyException *)
Definition w1_rpre : list node := [mkN 1 (-1) (OLi 5000); arg0].
Definition w1_n : node := mkN 2 (-1) (OBin Add 0 1).
Lemma w1_raises : apply_pat ver0 w1_rpre (fun _ => 1) w1_n 3 AddImmediates = Raise 2.
Proof. vm_compute. reflexivity. Qed.
(* sub %x, (li -2048) -> AddiOp(%x, 2048) *)
Lemma w1b_raises :
  apply_pat ver0 [mkN 1 (-1) (OLi (-2048)); arg0] (fun _ => 1) (mkN 2 (-1) (OBin Sub 0 1)) 3 SubImmediates = Raise 2.
Proof. vm_compute. reflexivity. Qed.

(* kf-2: mul (li 65536), (li 65536) -> LiOp(2^32) raises; slli (li 2), 31 -> LiOp(2^32); bclri (li -1), 31 *)
Definition w2_rpre : list node := [mkN 1 (-1) (OLi 65536); arg0].
Lemma w2_raises : apply_pat ver0 w2_rpre (fun _ => 1) (mkN 2 (-1) (OBin Mul 1 1)) 3 MultiplyImmediates = Raise 2.
Proof. vm_compute. reflexivity. Qed.
Lemma w2b_raises :
  apply_pat ver0 [mkN 1 (-1) (OLi 2); arg0] (fun _ => 1) (mkN 2 (-1) (OSh Slli 1 31)) 3 ShiftConstantFolding = Raise 2.
Proof. vm_compute. reflexivity. Qed.
Lemma w2c_raises :
  apply_pat ver0 [mkN 1 (-1) (OLi (-1)); arg0] (fun _ => 1) (mkN 2 (-1) (OSh Bclri 1 31)) 3 ShiftConstantFolding = Raise 2.
Proof. vm_compute. reflexivity. Qed.
Lemma w2d_raises :
  apply_pat ver0 [mkN 1 (-1) (OLi (-2147483648)); arg0] (fun _ => 1) (mkN 2 (-1) (OImm Addi 1 (-1))) 3
    AddImmediateConstant = Raise 2.
Proof. vm_compute. reflexivity. Qed.

(* kf-3: bexti %x, 0 -> mv %x ; with x = 2 the results are 0 and 2 *)
Definition w3_n : node := mkN 2 (-1) (OSh Bexti 0 0).
Lemma w3_rewrites : apply_pat ver0 [arg0] (fun _ => 1) w3_n 3 ShiftbyZero = Rew [mkN 3 (-1) (OMv MvI 0)] (Some 3) None.
Proof. vm_compute. reflexivity. Qed.
Lemma w3_unsound : ~ sound_outcome unit ld0 st0 (fun _ => 2) tt w3_n 3 (apply_pat ver0 [arg0] (fun _ => 1) w3_n 3 ShiftbyZero).
Proof.
  rewrite w3_rewrites. unfold sound_outcome. intros (_ & _ & _ & _ & H). vm_compute in H. discriminate.
Qed.

(* kf-4: flw (addi %x, 2047), 2047 -> flw %x, -2 (address x-2 instead of x+4094); lw ... , 1 -> raises *)
Definition w4_rpre : list node := [mkN 1 (-1) (OImm Addi 0 2047); arg0].
Definition w4_n : node := mkN 2 (-1) (OLoad MFW 1 2047).
Lemma w4_rewrites :
  apply_pat ver0 w4_rpre (fun _ => 1) w4_n 3 LoadFloatWordWithKnownOffset = Rew [mkN 3 (-1) (OLoad MFW 0 (-2))] (Some 3) None.
Proof. vm_compute. reflexivity. Qed.
Definition w4_env : env := fun j => if j =? 1 then 2047 + 100 else 100.
Lemma w4_unsound :
  ~ sound_outcome unit ld0 st0 w4_env tt w4_n 3 (apply_pat ver0 w4_rpre (fun _ => 1) w4_n 3 LoadFloatWordWithKnownOffset).
Proof.
  rewrite w4_rewrites. unfold sound_outcome. intros (_ & _ & _ & _ & H). vm_compute in H. discriminate.
Qed.
Lemma w4b_raises :
  apply_pat ver0 w4_rpre (fun _ => 1) (mkN 2 (-1) (OLoad MW 1 1)) 3 LoadWordWithKnownOffset = Raise 2.
Proof. vm_compute. reflexivity. Qed.

(* kf-5: and (li 0), (li 0) with two distinct constants -> second rewriter.replace on the erased op: ValueError *)
Definition w5_rpre : list node := [mkN 2 (-1) (OLi 0); mkN 1 (-1) (OLi 0); arg0].
Lemma w5_raises : apply_pat ver0 w5_rpre (fun _ => 1) (mkN 3 (-1) (OBin And 1 2)) 4 BitwiseAndByZero = Raise 3.
Proof. vm_compute. reflexivity. Qed.
Lemma w5b_raises : apply_pat ver0 w5_rpre (fun _ => 1) (mkN 3 (-1) (OBin Xor 1 2)) 4 BitwiseXorByZero = Raise 3.
Proof. vm_compute. reflexivity. Qed.

Lemma env_ok_w1 : env_ok w1_rpre (env_w 5000).
Proof.
  unfold env_ok, w1_rpre, arg0. constructor; [| constructor; [| constructor]]; unfold def_holds; cbn [nop nid is_int_op negb].
  - split; [intros _; change (0 <= 5000 < 4294967296); lia | reflexivity].
  - split; [intros _; change (0 <= 7 < 4294967296); lia | exact I].
Qed.

Theorem canon_sound_refuted : ~ canon_sound_statement ver0.
Proof.
  intros S.
  destruct (S unit ld0 st0 w1_rpre (fun _ => 1) (env_w 5000) tt 3 AddImmediates w1_n) as [NR _].
  - exact env_ok_w1.
  - repeat constructor; cbn; unfold H32; lia.
  - repeat constructor; cbn; lia.
  - exact I.
  - repeat constructor; cbn; lia.
  - apply (NR 2). exact w1_raises.
Qed.

(* ------------------------------------------------------------------------------------------------ the applier *)
(* what the driver applies to an op -- the first acting pattern of the op's trait tuple -- inherits both facts *)
Lemma first_match_cases vr rpre uses n nx ps :
  fst (first_match vr rpre uses n nx ps) = NoMatch \/
  exists p, In p ps /\ fst (first_match vr rpre uses n nx ps) = apply_pat vr rpre uses n nx p.
Proof.
  induction ps as [| p r IH]; cbn [first_match]; [left; reflexivity |].
  destruct (apply_pat vr rpre uses n nx p) eqn:E.
  - destruct IH as [IH | (q & Hq & IH)]; [left; exact IH | right; exists q; split; [right; exact Hq | exact IH]].
  - right. exists p. split; [left; reflexivity | cbn; symmetry; exact E].
  - right. exists p. split; [left; reflexivity | cbn; symmetry; exact E].
Qed.

Theorem canon_op_sound_fixed vr : all_fixed vr ->
  forall (memT : Type) (ld : memT -> memkind -> Z -> Z) (st : memT -> memkind -> Z -> Z -> memT)
         (rpre : list node) (uses : Z -> Z) (e : env) (m : memT) (nx : Z) (n : node),
    env_ok rpre e -> Forall valid_node rpre -> Forall (ids_below nx) rpre ->
    valid_node n -> ids_below nx n ->
    (forall c, canon_op vr rpre uses n nx <> Raise c) /\
    sound_outcome memT ld st e m n nx (canon_op vr rpre uses n nx).
Proof.
  intros F memT ld st rpre uses e m nx n Hok Hv Hb Vn Hi. unfold canon_op.
  destruct (first_match_cases vr rpre uses n nx (patterns_of (nop n))) as [E | (p & _ & E)]; rewrite E.
  - split; [discriminate | exact I].
  - exact (canon_sound_fixed vr F memT ld st rpre uses e m nx p n Hok Hv Hb Vn Hi).
Qed.
