(* C22/ProofsPat.v -- one soundness lemma per modelled pattern class, then the theorem over all of them. *)
From Coq Require Import ZArith List Bool Lia.
From XV Require Import C22.Model C22.ProofsArith C22.Proofs.
Import ListNotations.
Local Open Scope Z_scope.

Section Pat.
Variable memT : Type.
Variable ld : memT -> memkind -> Z -> Z.
Variable st : memT -> memkind -> Z -> Z -> memT.
Variable vr : ver.
Variable rpre : list node.
Variable uses : Z -> Z.
Variable e : env.
Variable m : memT.
Variable nx : Z.
Hypothesis Hok : env_ok rpre e.
Hypothesis Hv : Forall valid_node rpre.
Hypothesis Hb : Forall (ids_below nx) rpre.

Notation sound := (sound_outcome memT ld st e m).
Notation result_is := (result_is memT ld st e m nx).

Let GC := get_const_sound rpre e Hok Hv.
Let IC := fun a c => is_c_sound rpre e a c Hok Hv.

Ltac res_tac :=
  unfold Proofs.result_is; cbn [nop nid nrd is_store Model.exec_node fst snd];
  rewrite ?upd_eq; repeat split; try reflexivity; try assumption.
Ltac use L := eapply L; [res_tac |].
Ltac start n Vn Hi Hops :=
  intros Vn [Hi Hops]; destruct n as [i rd o]; cbn [nop nid nrd] in *.

(* facts about an operand defined by an earlier addi / xori *)
Lemma def_of a d : find_def rpre a = Some d -> def_holds d e /\ nid d = a /\ valid_node d /\ ids_below nx d.
Proof.
  intros F. apply find_def_In in F. destruct F as [Hin Hid].
  split; [exact (env_ok_In _ _ _ Hok Hin) |]. split; [exact Hid |].
  pose proof (proj1 (Forall_forall _ _) Hv) as Hv'. pose proof (proj1 (Forall_forall _ _) Hb) as Hb'. auto.
Qed.

Lemma sound_remove_mv k n : valid_node n -> ids_below nx n -> sound n nx (p_remove_mv rpre n k).
Proof.
  start n Vn Hi Hops. unfold p_remove_mv. cbn [nop nrd].
  destruct o as [| | | k' a | | | | |]; try exact I.
  destruct (match k, k' with MvI, MvI | MvF, MvF | MvD, MvD => true | _, _ => false end) eqn:K; [| exact I].
  destruct (find_def rpre a) as [d |] eqn:F; [| exact I].
  destruct ((nrd d =? rd) && (0 <=? rd) && Bool.eqb (is_int_op (nop d)) (is_int_op (OMv k' a))) eqn:G; [| exact I].
  apply andb_true_iff in G. destruct G as [_ G]. apply Bool.eqb_prop in G.
  destruct (def_of _ _ F) as ((Hr & _) & Hid & _ & _).
  unfold sound_outcome. cbn [Model.exec fold_left fst snd nop nid is_store].
  split; [destruct k'; reflexivity |]. split; [constructor |]. split; [reflexivity |]. split; [reflexivity |].
  destruct k'; cbn [Model.exec_node nop nid fst]; rewrite upd_eq; try reflexivity.
  cbn in G. unfold rdx. rewrite <- Hid. symmetry. apply wrap_small. apply Hr. exact G.
Qed.

Lemma sound_multiply_immediates n : valid_node n -> ids_below nx n ->
  sound n nx (p_multiply_immediates vr rpre n nx).
Proof.
  start n Vn Hi Hops. unfold p_multiply_immediates. cbn [nop nrd].
  destruct o as [| | | | b a1 a2 | | | |]; try exact I. destruct b; try exact I.
  destruct (get_const rpre a1) as [l |] eqn:G1, (get_const rpre a2) as [r |] eqn:G2; try exact I.
  - destruct (GC _ _ G1) as [E1 _], (GC _ _ G2) as [E2 _].
    use (s_li memT ld st vr e m nx). rewrite E1, E2. symmetry. apply f_mul_consts.
  - unfold rew1, sound_outcome. cbn [Model.exec fold_left Model.exec_node nop nid fst snd is_store].
    split; [reflexivity |]. split; [repeat (constructor; try exact I) |].
    split; [intros j Hj; apply upd_ne; lia |]. split; [reflexivity |].
    rewrite !upd_eq. apply f_mul_comm.
  - destruct (Z.eqb_spec r 0) as [-> | _].
    + use (s_mv memT ld st e m nx). rewrite (proj1 (GC _ _ G2)). symmetry. apply f_mul_zero_r.
    + destruct (Z.eqb_spec r 1) as [-> | _]; [| exact I].
      use (s_mv memT ld st e m nx). rewrite (proj1 (GC _ _ G2)). symmetry. apply f_mul_one_r, rdx_range.
Qed.

Lemma sound_divide_by_one n : valid_node n -> ids_below nx n -> sound n nx (p_divide_by_one rpre n nx).
Proof.
  start n Vn Hi Hops. unfold p_divide_by_one. cbn [nop nrd].
  destruct o as [| | | | b a1 a2 | | | |]; try exact I. destruct b; try exact I.
  destruct (is_c (get_const rpre a2) 1) eqn:C; [| exact I].
  use (s_mv memT ld st e m nx). rewrite (IC _ _ C). symmetry. apply f_div_one, rdx_range.
Qed.

Lemma sound_add_immediates n : valid_node n -> ids_below nx n ->
  sound n nx (p_add_immediates vr rpre n nx).
Proof.
  start n Vn Hi Hops. unfold p_add_immediates. cbn [nop nrd].
  destruct o as [| | | | b a1 a2 | | | |]; try exact I. destruct b; try exact I.
  destruct (get_const rpre a1) as [l |] eqn:G1, (get_const rpre a2) as [r |] eqn:G2; try exact I.
  - destruct (GC _ _ G1) as [E1 _], (GC _ _ G2) as [E2 _].
    use (s_li memT ld st vr e m nx). rewrite E1, E2. symmetry. apply f_add_consts.
  - destruct (fix_addi vr && negb (in_si12 l)); [exact I |].
    use (s_addi memT ld st e m nx). rewrite (proj1 (GC _ _ G1)). symmetry. apply f_add_const_l.
  - destruct (fix_addi vr && negb (in_si12 r)); [exact I |].
    use (s_addi memT ld st e m nx). rewrite (proj1 (GC _ _ G2)). reflexivity.
Qed.

Lemma sound_add_immediate_zero n : valid_node n -> ids_below nx n ->
  sound n nx (p_add_immediate_zero n nx).
Proof.
  start n Vn Hi Hops. unfold p_add_immediate_zero. cbn [nop nrd].
  destruct o as [| | | | | o a imm | | |]; try exact I. destruct o; try exact I.
  destruct (Z.eqb_spec imm 0) as [-> | _]; [| exact I].
  use (s_mv memT ld st e m nx). symmetry. apply f_addi_zero, rdx_range.
Qed.

Lemma sound_add_immediate_constant n : valid_node n -> ids_below nx n ->
  sound n nx (p_add_immediate_constant vr rpre n nx).
Proof.
  start n Vn Hi Hops. unfold p_add_immediate_constant. cbn [nop nrd].
  destruct o as [| | | | | o a imm | | |]; try exact I. destruct o; try exact I.
  destruct (get_const rpre a) as [c |] eqn:G; [| exact I].
  use (s_li memT ld st vr e m nx). rewrite (proj1 (GC _ _ G)). symmetry. apply f_addi_const.
Qed.

Lemma sound_sub_immediates n : valid_node n -> ids_below nx n ->
  sound n nx (p_sub_immediates vr rpre n nx).
Proof.
  start n Vn Hi Hops. unfold p_sub_immediates. cbn [nop nrd].
  destruct o as [| | | | b a1 a2 | | | |]; try exact I. destruct b; try exact I.
  destruct (get_const rpre a1) as [l |] eqn:G1, (get_const rpre a2) as [r |] eqn:G2; try exact I.
  - destruct (GC _ _ G1) as [E1 _], (GC _ _ G2) as [E2 _].
    use (s_li memT ld st vr e m nx). rewrite E1, E2. symmetry. apply f_sub_consts.
  - destruct (fix_addi vr && negb (in_si12 (- r))); [exact I |].
    use (s_addi memT ld st e m nx). rewrite (proj1 (GC _ _ G2)). symmetry. apply f_sub_const_r.
Qed.

Lemma sound_sub_by_self n : valid_node n -> ids_below nx n -> sound n nx (p_sub_by_self n nx).
Proof.
  start n Vn Hi Hops. unfold p_sub_by_self. cbn [nop nrd].
  destruct o as [| | | | b a1 a2 | | | |]; try exact I. destruct b; try exact I.
  destruct (Z.eqb_spec a1 a2) as [-> | _]; [| exact I].
  apply (s_zero memT ld st e m nx). res_tac. apply f_sub_self.
Qed.

Lemma sound_sub_addi n : valid_node n -> ids_below nx n -> sound n nx (p_sub_addi vr rpre n nx).
Proof.
  start n Vn Hi Hops. unfold p_sub_addi. cbn [nop nrd].
  destruct o as [| | | | b a1 a2 | | | |]; try exact I. destruct b; try exact I.
  destruct (find_def rpre a1) as [[di drd dop] |] eqn:F; [| exact I].
  destruct dop as [| | | | | o x imm | | |]; try exact I. destruct o; try exact I.
  destruct (Z.eqb_spec a2 x) as [-> | _]; [| exact I].
  destruct (def_of _ _ F) as ((_ & Hd) & Hid & _ & _). cbn [nop nid] in Hd, Hid. subst di.
  use (s_li memT ld st vr e m nx). unfold rdx at 1. rewrite Hd. symmetry. apply f_sub_addi.
Qed.

Lemma sound_andi_immediate n : valid_node n -> ids_below nx n -> sound n nx (p_andi_immediate vr rpre n nx).
Proof.
  start n Vn Hi Hops. unfold p_andi_immediate. cbn [nop nrd].
  destruct o as [| | | | | o a imm | | |]; try exact I. destruct o; try exact I.
  destruct (get_const rpre a) as [c |] eqn:G; [| exact I].
  use (s_li memT ld st vr e m nx). rewrite (proj1 (GC _ _ G)). symmetry. apply f_andi_const.
Qed.
Lemma sound_andi_zero n : valid_node n -> ids_below nx n -> sound n nx (p_andi_zero vr n nx).
Proof.
  start n Vn Hi Hops. unfold p_andi_zero. cbn [nop nrd].
  destruct o as [| | | | | o a imm | | |]; try exact I. destruct o; try exact I.
  destruct (Z.eqb_spec imm 0) as [-> | _]; [| exact I].
  use (s_li memT ld st vr e m nx). symmetry. apply f_andi_zero.
Qed.
Lemma sound_ori_immediate n : valid_node n -> ids_below nx n -> sound n nx (p_ori_immediate vr rpre n nx).
Proof.
  start n Vn Hi Hops. unfold p_ori_immediate. cbn [nop nrd].
  destruct o as [| | | | | o a imm | | |]; try exact I. destruct o; try exact I.
  destruct (get_const rpre a) as [c |] eqn:G; [| exact I].
  use (s_li memT ld st vr e m nx). rewrite (proj1 (GC _ _ G)). symmetry. apply f_ori_const.
Qed.
Lemma sound_ori_zero n : valid_node n -> ids_below nx n -> sound n nx (p_ori_zero n nx).
Proof.
  start n Vn Hi Hops. unfold p_ori_zero. cbn [nop nrd].
  destruct o as [| | | | | o a imm | | |]; try exact I. destruct o; try exact I.
  destruct (Z.eqb_spec imm 0) as [-> | _]; [| exact I].
  use (s_mv memT ld st e m nx). symmetry. apply f_ori_zero, rdx_range.
Qed.
Lemma sound_xori_zero n : valid_node n -> ids_below nx n -> sound n nx (p_xori_zero n nx).
Proof.
  start n Vn Hi Hops. unfold p_xori_zero. cbn [nop nrd].
  destruct o as [| | | | | o a imm | | |]; try exact I. destruct o; try exact I.
  destruct (Z.eqb_spec imm 0) as [-> | _]; [| exact I].
  use (s_mv memT ld st e m nx). symmetry. apply f_xori_zero, rdx_range.
Qed.
Lemma sound_xori_immediate n : valid_node n -> ids_below nx n -> sound n nx (p_xori_immediate vr rpre n nx).
Proof.
  start n Vn Hi Hops. unfold p_xori_immediate. cbn [nop nrd].
  destruct o as [| | | | | o a imm | | |]; try exact I. destruct o; try exact I.
  destruct (get_const rpre a) as [c |] eqn:G; [| exact I].
  use (s_li memT ld st vr e m nx). rewrite (proj1 (GC _ _ G)). symmetry. apply f_xori_const.
Qed.

(* the `erase` component does not matter for the local statement *)
Lemma sound_erase_irrelevant n new repl er er' :
  sound n nx (Rew new repl er) -> sound n nx (Rew new repl er').
Proof. exact (fun H => H). Qed.

Lemma sound_xori_self_inverse n : valid_node n -> ids_below nx n ->
  sound n nx (p_xori_self_inverse rpre uses n nx).
Proof.
  start n Vn Hi Hops. unfold p_xori_self_inverse. cbn [nop nrd].
  destruct o as [| | | | | o a imm | | |]; try exact I. destruct o; try exact I.
  destruct (find_def rpre a) as [[di drd dop] |] eqn:F; [| exact I].
  destruct dop as [| | | | | o x j | | |]; try exact I. destruct o; try exact I.
  destruct (Z.eqb_spec imm j) as [-> | _]; [| exact I].
  destruct (def_of _ _ F) as ((_ & Hd) & Hid & _ & _). cbn [nop nid] in Hd, Hid. subst di.
  apply sound_erase_irrelevant with (er := None).
  change (Rew [mkN nx rd (OMv MvI x)] (Some nx) None) with (rew_mv nx rd x).
  use (s_mv memT ld st e m nx). unfold rdx at 2. rewrite Hd. symmetry. apply f_xori_xori_same, rdx_range.
Qed.

Lemma sound_xori_of_xori n : valid_node n -> ids_below nx n ->
  sound n nx (p_xori_of_xori rpre uses n nx).
Proof.
  start n Vn Hi Hops. unfold p_xori_of_xori. cbn [nop nrd].
  destruct o as [| | | | | o a imm | | |]; try exact I. destruct o; try exact I.
  destruct (find_def rpre a) as [[di drd dop] |] eqn:F; [| exact I].
  destruct dop as [| | | | | o x j | | |]; try exact I. destruct o; try exact I.
  destruct (mk_si12 (Z.lxor j imm)) as [c |] eqn:K; [| exact I].
  apply mk_si12_sound in K. destruct K as [-> K].
  destruct (def_of _ _ F) as ((_ & Hd) & Hid & _ & _). cbn [nop nid] in Hd, Hid. subst di.
  unfold sound_outcome. cbn [Model.exec fold_left Model.exec_node nop nid fst snd is_store].
  split; [reflexivity |]. split; [constructor; [exact K | constructor] |].
  split; [intros i0 Hi0; apply upd_ne; lia |]. split; [reflexivity |].
  rewrite !upd_eq. unfold rdx at 2. rewrite Hd. symmetry. apply f_xori_xori.
Qed.

Lemma sound_shift_by_zero n : valid_node n -> ids_below nx n ->
  miscompiles vr ShiftbyZero rpre n = false -> sound n nx (p_shift_by_zero vr n nx).
Proof.
  start n Vn Hi Hops. unfold p_shift_by_zero, miscompiles. cbn [nop nrd]. intros Mis.
  destruct o as [| | | | | | s a k | |]; try exact I.
  destruct (Z.eqb_spec k 0) as [-> | _]; [| exact I]. cbn [andb].
  destruct (negb (fix_shz vr && is_bitmanip s)) eqn:G; [| exact I].
  use (s_mv memT ld st e m nx). symmetry. apply f_shift_zero; [| apply rdx_range].
  destruct (is_bitmanip s); [| reflexivity]. destruct (fix_shz vr); discriminate.
Qed.

Lemma sound_shift_constant_folding n : valid_node n -> ids_below nx n ->
  sound n nx (p_shift_constant_folding vr rpre n nx).
Proof.
  start n Vn Hi Hops. unfold p_shift_constant_folding. cbn [nop nrd].
  destruct o as [| | | | | | s a k | |]; try exact I.
  destruct (get_const rpre a) as [c |] eqn:G; [| exact I].
  destruct (GC _ _ G) as [E R].
  use (s_li memT ld st vr e m nx). rewrite E. symmetry. apply f_shift_const; [exact R | exact Vn].
Qed.

Lemma mk_off_sound mk v c : mk_off mk v = Some c -> in_si12 v = true -> c = v /\ -2048 <= v < 2048.
Proof.
  intros H R. apply in_si12_true in R. destruct mk; cbn [mk_off] in H.
  - apply mk_si12_sound in H. destruct H; auto.
  - unfold mk_i12 in H. destruct ((-2048 <=? v) && (v <? 4096)); inversion H. split; [apply sext12_id; lia | lia].
  - unfold mk_i12 in H. destruct ((-2048 <=? v) && (v <? 4096)); inversion H. split; [apply sext12_id; lia | lia].
Qed.
Lemma mk_off_MW v c : mk_off MW v = Some c -> in_si12 v = true.
Proof. cbn. unfold mk_si12. destruct (in_si12 v); [reflexivity | discriminate]. Qed.

Definition mem_pat (mk : memkind) (store : bool) : pat :=
  match mk, store with
  | MW, false => LoadWordWithKnownOffset | MW, true => StoreWordWithKnownOffset
  | MFW, false => LoadFloatWordWithKnownOffset | MFW, true => StoreFloatWordWithKnownOffset
  | MFD, false => LoadDoubleWithKnownOffset | MFD, true => StoreDoubleWithKnownOffset
  end.

Lemma sound_mem_known_offset mk store n : valid_node n -> ids_below nx n ->
  miscompiles vr (mem_pat mk store) rpre n = false ->
  sound n nx (p_mem_known_offset vr rpre n nx mk store).
Proof.
  start n Vn Hi Hops. unfold p_mem_known_offset. cbn [nop nrd]. intros Mis.
  destruct o as [| | | | | | | m' a imm | m' a v imm]; try exact I.
  - (* load *)
    destruct (match mk, m' with MW, MW | MFW, MFW | MFD, MFD => true | _, _ => false end && negb store) eqn:S;
      [| exact I].
    apply andb_true_iff in S. destruct S as [S1 S2]. destruct store; [discriminate |].
    assert (mk = m') by (destruct mk, m'; try discriminate; reflexivity). subst m'.
    destruct (find_def rpre a) as [[di drd dop] |] eqn:F; [| exact I].
    destruct dop as [| | | | | o x j | | |]; try exact I. destruct o; try exact I.
    destruct (fix_mem vr && negb (in_si12 (j + imm))) eqn:Fx; [exact I |].
    destruct (mk_off mk (j + imm)) as [c |] eqn:K; [| exact I].
    assert (R : in_si12 (j + imm) = true).
    { destruct mk; [exact (mk_off_MW _ _ K) | |];
        unfold miscompiles in Mis; cbn [mem_pat nop] in Mis; rewrite F in Mis;
        destruct (fix_mem vr); cbn in Mis, Fx; destruct (in_si12 (j + imm)); try reflexivity; discriminate. }
    destruct (mk_off_sound _ _ _ K R) as [-> R'].
    destruct (def_of _ _ F) as ((_ & Hd) & Hid & _ & _). cbn [nop nid] in Hd, Hid. subst di.
    assert (A : wrap (rdx e a + wrap imm) = wrap (rdx e x + wrap (j + imm))).
    { unfold rdx at 1. rewrite Hd. apply f_mem_addr. }
    unfold rew1, sound_outcome. cbn [nid nop is_store].
    destruct mk; cbn [Model.exec fold_left Model.exec_node nop nid fst snd];
      (split; [reflexivity |]); (split; [constructor; [exact R' | constructor] |]);
      (split; [intros i0 Hi0; apply upd_ne; lia |]); (split; [reflexivity |]);
      rewrite !upd_eq, A; reflexivity.
  - (* store *)
    destruct (match mk, m' with MW, MW | MFW, MFW | MFD, MFD => true | _, _ => false end && store) eqn:S;
      [| exact I].
    apply andb_true_iff in S. destruct S as [S1 S2]. destruct store; [| discriminate].
    assert (mk = m') by (destruct mk, m'; try discriminate; reflexivity). subst m'.
    destruct (find_def rpre a) as [[di drd dop] |] eqn:F; [| exact I].
    destruct dop as [| | | | | o x j | | |]; try exact I. destruct o; try exact I.
    destruct (fix_mem vr && negb (in_si12 (j + imm))) eqn:Fx; [exact I |].
    destruct (mk_off mk (j + imm)) as [c |] eqn:K; [| exact I].
    assert (R : in_si12 (j + imm) = true).
    { destruct mk; [exact (mk_off_MW _ _ K) | |];
        unfold miscompiles in Mis; cbn [mem_pat nop] in Mis; rewrite F in Mis;
        destruct (fix_mem vr); cbn in Mis, Fx; destruct (in_si12 (j + imm)); try reflexivity; discriminate. }
    destruct (mk_off_sound _ _ _ K R) as [-> R'].
    destruct (def_of _ _ F) as ((_ & Hd) & Hid & _ & _). cbn [nop nid] in Hd, Hid. subst di.
    assert (A : wrap (rdx e a + wrap imm) = wrap (rdx e x + wrap (j + imm))).
    { unfold rdx at 1. rewrite Hd. apply f_mem_addr. }
    unfold sound_outcome. cbn [nid nop is_store].
    destruct mk; cbn [Model.exec fold_left Model.exec_node nop nid fst snd];
      (split; [rewrite A; reflexivity |]); (split; [constructor; [exact R' | constructor] |]);
      (split; [reflexivity |]); reflexivity.
Qed.

Lemma sound_add_same n : valid_node n -> ids_below nx n -> sound n nx (p_add_same n nx).
Proof.
  start n Vn Hi Hops. unfold p_add_same. cbn [nop nrd].
  destruct o as [| | | | b a1 a2 | | | |]; try exact I. destruct b; try exact I.
  destruct (Z.eqb_spec a1 a2) as [-> | _]; [| exact I].
  cbn [operands] in Hops. inversion Hops as [| ? ? Ha _]; subst.
  unfold sound_outcome. cbn [Model.exec fold_left Model.exec_node nop nid fst snd is_store].
  split; [reflexivity |]. split; [repeat (constructor; try exact I); cbn; unfold H32; lia |].
  split; [intros j Hj; rewrite !upd_ne by lia; reflexivity |]. split; [reflexivity |].
  rewrite !upd_eq. rewrite rdx_upd_ne by lia. unfold rdx at 2. rewrite upd_eq.
  rewrite wrap_wrap. symmetry. apply f_add_self.
Qed.

Lemma sound_and_by_zero n : valid_node n -> ids_below nx n -> sound n nx (p_and_by_zero vr rpre n nx).
Proof.
  start n Vn Hi Hops. unfold p_and_by_zero. cbn [nop nrd].
  destruct o as [| | | | b a1 a2 | | | |]; try exact I. destruct b; try exact I.
  destruct (is_c (get_const rpre a1) 0) eqn:C1.
  - destruct (is_c (get_const rpre a2) 0 && negb (fix_dbl vr)); [exact I |].
    use (s_mv memT ld st e m nx). rewrite (IC _ _ C1). symmetry. apply f_and_zero_l.
  - destruct (is_c (get_const rpre a2) 0) eqn:C2; [| exact I].
    use (s_mv memT ld st e m nx). rewrite (IC _ _ C2). symmetry. apply f_and_zero_r.
Qed.
Lemma sound_and_by_self n : valid_node n -> ids_below nx n -> sound n nx (p_and_by_self n nx).
Proof.
  start n Vn Hi Hops. unfold p_and_by_self. cbn [nop nrd].
  destruct o as [| | | | b a1 a2 | | | |]; try exact I. destruct b; try exact I.
  destruct (Z.eqb_spec a1 a2) as [-> | _]; [| exact I].
  use (s_mv memT ld st e m nx). symmetry. apply f_and_self, rdx_range.
Qed.
Lemma sound_or_by_zero n : valid_node n -> ids_below nx n -> sound n nx (p_or_by_zero rpre n nx).
Proof.
  start n Vn Hi Hops. unfold p_or_by_zero. cbn [nop nrd].
  destruct o as [| | | | b a1 a2 | | | |]; try exact I. destruct b; try exact I.
  destruct (is_c (get_const rpre a1) 0) eqn:C1.
  - use (s_mv memT ld st e m nx). rewrite (IC _ _ C1). symmetry. apply f_or_zero_l, rdx_range.
  - destruct (is_c (get_const rpre a2) 0) eqn:C2; [| exact I].
    use (s_mv memT ld st e m nx). rewrite (IC _ _ C2). symmetry. apply f_or_zero_r, rdx_range.
Qed.
Lemma sound_or_by_self n : valid_node n -> ids_below nx n -> sound n nx (p_or_by_self n nx).
Proof.
  start n Vn Hi Hops. unfold p_or_by_self. cbn [nop nrd].
  destruct o as [| | | | b a1 a2 | | | |]; try exact I. destruct b; try exact I.
  destruct (Z.eqb_spec a1 a2) as [-> | _]; [| exact I].
  use (s_mv memT ld st e m nx). symmetry. apply f_or_self, rdx_range.
Qed.
Lemma sound_xor_by_self n : valid_node n -> ids_below nx n -> sound n nx (p_xor_by_self n nx).
Proof.
  start n Vn Hi Hops. unfold p_xor_by_self. cbn [nop nrd].
  destruct o as [| | | | b a1 a2 | | | |]; try exact I. destruct b; try exact I.
  destruct (Z.eqb_spec a1 a2) as [-> | _]; [| exact I].
  apply (s_zero memT ld st e m nx). res_tac. apply f_xor_self.
Qed.
Lemma sound_xor_by_zero n : valid_node n -> ids_below nx n -> sound n nx (p_xor_by_zero vr rpre n nx).
Proof.
  start n Vn Hi Hops. unfold p_xor_by_zero. cbn [nop nrd].
  destruct o as [| | | | b a1 a2 | | | |]; try exact I. destruct b; try exact I.
  destruct (is_c (get_const rpre a1) 0) eqn:C1.
  - destruct (is_c (get_const rpre a2) 0 && negb (fix_dbl vr)); [exact I |].
    use (s_mv memT ld st e m nx). rewrite (IC _ _ C1). symmetry. apply f_xor_zero_l, rdx_range.
  - destruct (is_c (get_const rpre a2) 0) eqn:C2; [| exact I].
    use (s_mv memT ld st e m nx). rewrite (IC _ _ C2). symmetry. apply f_xor_zero_r, rdx_range.
Qed.

Lemma sound_load_immediate_0 n : valid_node n -> ids_below nx n -> sound n nx (p_load_immediate_0 n nx).
Proof.
  start n Vn Hi Hops. unfold p_load_immediate_0. cbn [nop nrd].
  destruct o as [| | c | | | | | |]; try exact I.
  destruct (Z.eqb_spec c 0) as [-> | _]; [| exact I].
  destruct (rd =? 0).
  - unfold rew1, sound_outcome. cbn [Model.exec fold_left Model.exec_node nop nid fst snd is_store].
    split; [reflexivity |]. split; [repeat (constructor; try exact I) |].
    split; [intros j Hj; apply upd_ne; lia |]. split; [reflexivity |].
    rewrite !upd_eq. reflexivity.
  - apply (s_zero memT ld st e m nx). res_tac.
Qed.

(* ------------------------------------------------------------------------------------------------ all patterns *)
Theorem pat_sound p n : valid_node n -> ids_below nx n -> miscompiles vr p rpre n = false ->
  sound n nx (apply_pat vr rpre uses n nx p).
Proof.
  intros Vn Hi Mis. destruct p; cbn [apply_pat].
  - apply sound_remove_mv; assumption.
  - apply sound_remove_mv; assumption.
  - apply sound_remove_mv; assumption.
  - apply sound_multiply_immediates; assumption.
  - apply sound_divide_by_one; assumption.
  - apply sound_add_immediates; assumption.
  - apply sound_add_immediate_zero; assumption.
  - apply sound_add_immediate_constant; assumption.
  - apply sound_sub_immediates; assumption.
  - apply sound_sub_by_self; assumption.
  - apply sound_sub_addi; assumption.
  - apply sound_andi_immediate; assumption.
  - apply sound_andi_zero; assumption.
  - apply sound_ori_immediate; assumption.
  - apply sound_ori_zero; assumption.
  - apply sound_xori_zero; assumption.
  - apply sound_xori_self_inverse; assumption.
  - apply sound_xori_of_xori; assumption.
  - apply sound_xori_immediate; assumption.
  - apply sound_shift_by_zero; assumption.
  - apply sound_shift_constant_folding; assumption.
  - apply (sound_mem_known_offset MW false); assumption.
  - apply (sound_mem_known_offset MW true); assumption.
  - apply (sound_mem_known_offset MFW false); assumption.
  - apply (sound_mem_known_offset MFW true); assumption.
  - apply (sound_mem_known_offset MFD false); assumption.
  - apply (sound_mem_known_offset MFD true); assumption.
  - apply sound_add_same; assumption.
  - apply sound_and_by_zero; assumption.
  - apply sound_and_by_self; assumption.
  - apply sound_or_by_zero; assumption.
  - apply sound_or_by_self; assumption.
  - apply sound_xor_by_self; assumption.
  - apply sound_xor_by_zero; assumption.
  - apply sound_load_immediate_0; assumption.
Qed.

End Pat.
