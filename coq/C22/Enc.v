(* C22/Enc.v -- decoders of the harness' integer case encoding and encoders of model results (no proofs).
   Node encoding (harness/props/c22_snip.py): N id rd opc a b imm. *)
From Coq Require Import ZArith List Bool.
From XV Require Import Base.Show C22.Model.
Import ListNotations.
Local Open Scope Z_scope.

Definition dec_bin (k : Z) : option binop :=
  match k with
  | 10 => Some Add | 11 => Some Sub | 12 => Some Mul | 13 => Some Div | 14 => Some And | 15 => Some Or
  | 16 => Some Xor | 17 => Some Sll | 18 => Some Srl | 19 => Some Sra | 20 => Some Slt | 21 => Some Sltu
  | _ => None
  end.
Definition dec_imm (k : Z) : option immop :=
  match k with
  | 30 => Some Addi | 31 => Some Andi | 32 => Some Ori | 33 => Some Xori | 34 => Some Slti | 35 => Some Sltiu
  | _ => None
  end.
Definition dec_sh (k : Z) : option shop :=
  match k with
  | 40 => Some Slli | 41 => Some Srli | 42 => Some Srai | 43 => Some Bclri | 44 => Some Bexti
  | 45 => Some Binvi | 46 => Some Bseti | 47 => Some Rori
  | _ => None
  end.
Definition dec_mem (k : Z) : option memkind :=
  match k with 0 => Some MW | 1 => Some MFW | 2 => Some MFD | _ => None end.
Definition dec_mv (k : Z) : option mvkind :=
  match k with 0 => Some MvI | 1 => Some MvF | 2 => Some MvD | _ => None end.

Definition dec_op (opc a b imm : Z) : option op :=
  if opc =? 0 then Some (OArg (a =? 1))
  else if opc =? 1 then Some OGetZero
  else if opc =? 2 then Some (OLi imm)
  else if opc =? 3 then option_map (fun k => OMv k a) (dec_mv b)
  else if opc <? 30 then option_map (fun o => OBin o a b) (dec_bin opc)
  else if opc <? 40 then option_map (fun o => OImm o a imm) (dec_imm opc)
  else if opc <? 50 then option_map (fun o => OSh o a imm) (dec_sh opc)
  else if opc <? 60 then option_map (fun m => OLoad m a imm) (dec_mem (opc - 50))
  else option_map (fun m => OStore m a b imm) (dec_mem (opc - 60)).

(* a raw node as written by the harness *)
Inductive raw := N (id rd opc a b imm : Z).
Fixpoint dec_nodes (l : list raw) : option (list node) :=
  match l with
  | [] => Some []
  | N id rd opc a b imm :: r =>
      match dec_op opc a b imm, dec_nodes r with
      | Some o, Some r' => Some (mkN id rd o :: r')
      | _, _ => None
      end
  end.

Definition code_bin (b : binop) : Z :=
  match b with Add => 10 | Sub => 11 | Mul => 12 | Div => 13 | And => 14 | Or => 15 | Xor => 16 | Sll => 17
          | Srl => 18 | Sra => 19 | Slt => 20 | Sltu => 21 end.
Definition code_imm (i : immop) : Z :=
  match i with Addi => 30 | Andi => 31 | Ori => 32 | Xori => 33 | Slti => 34 | Sltiu => 35 end.
Definition code_sh (s : shop) : Z :=
  match s with Slli => 40 | Srli => 41 | Srai => 42 | Bclri => 43 | Bexti => 44 | Binvi => 45 | Bseti => 46
          | Rori => 47 end.
Definition code_mem (m : memkind) : Z := match m with MW => 0 | MFW => 1 | MFD => 2 end.
Definition code_mv (k : mvkind) : Z := match k with MvI => 0 | MvF => 1 | MvD => 2 end.

(* renumbering: free values keep their id, op results become 100, 101, ... in program order *)
Fixpoint ren_table (l : list node) (next : Z) : list (Z * Z) :=
  match l with
  | [] => []
  | n :: r =>
      match nop n with
      | OArg _ => (nid n, nid n) :: ren_table r next
      | _ => (nid n, next) :: ren_table r (next + 1)
      end
  end.
Fixpoint ren (t : list (Z * Z)) (a : Z) : Z :=
  match t with
  | [] => -7
  | (k, v) :: r => if k =? a then v else ren r a
  end.
Definition enc_node (t : list (Z * Z)) (n : node) : sx :=
  let r := ren t in
  let mk := fun opc a b imm => L [I (r (nid n)); I (nrd n); I opc; I a; I b; I imm] in
  match nop n with
  | OArg fl => mk 0 (if fl then 1 else 0) 0 0
  | OGetZero => mk 1 0 0 0
  | OLi c => mk 2 0 0 c
  | OMv k a => mk 3 (r a) (code_mv k) 0
  | OBin b a1 a2 => mk (code_bin b) (r a1) (r a2) 0
  | OImm i a imm => mk (code_imm i) (r a) 0 imm
  | OSh s a k => mk (code_sh s) (r a) 0 k
  | OLoad m a imm => mk (50 + code_mem m) (r a) 0 imm
  | OStore m a v imm => mk (60 + code_mem m) (r a) (r v) imm
  end.
Definition enc_prog (p : prog) : sx :=
  let t := ren_table (p_nodes p) 100 in
  L [I 0; L (map (enc_node t) (p_nodes p)); L (map (fun a => I (ren t a)) (p_roots p))].

Definition enc_pass (r : pass_res) : sx :=
  match r with
  | Done p => enc_prog p
  | Raised c q => L [I (-1); I c; I q]
  | OutOfFuel => L [I (-3)]
  end.

(* family `canonicalize`: the whole pass on a snippet *)
Definition c22_canon (vr : ver) (nodes : list raw) (roots : list Z) : sx :=
  match dec_nodes nodes with
  | Some l => enc_pass (canonicalize vr (mkP l roots))
  | None => L [I (-9)]
  end.

(* family `single-pattern`: ONE application of ONE pattern class to the k-th node (no driver, no dce) *)
Definition dec_pat (k : Z) : option pat :=
  nth_error
    [RemoveRedundantMv; RemoveRedundantFMv; RemoveRedundantFMvD; MultiplyImmediates; DivideByOneIdentity;
     AddImmediates; AddImmediateZero; AddImmediateConstant; SubImmediates; SubBySelf; SubAddi;
     AndiImmediate; AndiZero; OriImmediate; OriImmediateZero; XoriZero; XoriSelfInverse; XoriOfXori;
     XoriImmediate; ShiftbyZero; ShiftConstantFolding;
     LoadWordWithKnownOffset; StoreWordWithKnownOffset; LoadFloatWordWithKnownOffset;
     StoreFloatWordWithKnownOffset; LoadDoubleWithKnownOffset; StoreDoubleWithKnownOffset;
     AdditionOfSameVariablesToMultiplyByTwo; BitwiseAndByZero; BitwiseAndBySelf; BitwiseOrByZero;
     BitwiseOrBySelf; XorBySelf; BitwiseXorByZero; LoadImmediate0] (Z.to_nat k).

Fixpoint apply_at (vr : ver) (pt : pat) (p : prog) (nx : Z) (rpre post : list node) (k : nat) : step_res :=
  match post, k with
  | [], _ => SNone
  | n :: rest, S k' => apply_at vr pt p nx (n :: rpre) rest k'
  | n :: rest, O =>
      match apply_pat vr rpre (uses_of p) n nx pt with
      | NoMatch => SNone
      | Raise c => SRaise c (pat_code pt)
      | Rew new repl er =>
          let pre := remove_id er (rev rpre) in
          match repl with
          | Some v => SProg (mkP (pre ++ new ++ map (subst_node (nid n) v) rest)
                                 (map (sub1 (nid n) v) (p_roots p)))
          | None => SProg (mkP (pre ++ new ++ rest) (p_roots p))
          end
      end
  end.
Definition c22_pat (vr : ver) (pt : Z) (nodes : list raw) (roots : list Z) (k : Z) : sx :=
  match dec_nodes nodes, dec_pat pt with
  | Some l, Some q =>
      let p := mkP l roots in
      match apply_at vr q p (fresh_id l) [] l (Z.to_nat k) with
      | SNone => L [I 1]
      | SRaise c q => L [I (-1); I c; I q]
      | SProg p' => enc_prog p'
      end
  | _, _ => L [I (-9)]
  end.

(* prologue / epilogue: the inserted instruction list for a list of written registers (kind, index) *)
Definition enc_instr (i : instr) : sx :=
  match i with
  | IAddiSp imm => L [I 0; I imm]
  | ISave r off => L [I 1; sB (fst r); I (snd r); I off]
  | IRestore r off => L [I 2; sB (fst r); I (snd r); I off]
  end.
Definition c22_frame (xlen flen : Z) (written : list (Z * Z)) : sx :=
  let used := used_callee_saved (map (fun r => (fst r =? 1, snd r)) written) in
  let fc := frame_code xlen flen used in
  L [L (map enc_instr (fst fc)); L (map enc_instr (snd fc))].
