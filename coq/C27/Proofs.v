(* C27/Proofs.v -- the theorems of Props/C27.v assembled from ProofsChain (machine = sequential predicate
   evaluation), ProofsOrder (the ordering keeps the predicate set) and ProofsMatch (direct matcher = predicate
   set), plus the refutation witnesses of the code as found. *)
From Coq Require Import ZArith List Bool Lia.
From XV Require Import C27.Model C27.ProofsChain C27.ProofsOrder C27.ProofsMatch.
Import ListNotations.
Local Open Scope Z_scope.

(* ------------------------------------------------------------------ positions handed to the rewriter are recorded inputs *)
Definition used_ok (inp : inputs) (st : rg) : Prop :=
  forall p, In p (rg_used st) -> exists k, klookup inp k = Some p.

Lemma rtmp_used : forall inp st k mk st' c r, used_ok inp st -> rtmp st k mk = (st', c, r) -> used_ok inp st'.
Proof. intros inp st k mk st' c r H E. unfold rtmp in E. inversion E; subst. exact H. Qed.

Lemma map_value_used : forall fx P inp st k st' c r,
  used_ok inp st -> map_value fx P inp st k = Some (st', c, r) -> used_ok inp st'.
Proof.
  intros fx P inp st k st' c r H E. unfold map_value in E.
  destruct (klookup (rg_vals st) k); [inversion E; subst; exact H |].
  match type of E with match ?cst with _ => _ end = _ => destruct cst as [mk|] end.
  - inversion E; subst. exact H.
  - destruct (klookup inp k) as [p|] eqn:Ei; [| discriminate]. inversion E; subst; clear E.
    intros q Hq. simpl in Hq. destruct (mem_pos p (rg_used st)); [apply H; exact Hq |].
    apply in_app_iff in Hq. destruct Hq as [Hq | [<- | []]]; [apply H; exact Hq | eauto].
Qed.
Lemma map_values_used : forall fx P inp ks st st' c rs,
  used_ok inp st -> map_values fx P inp st ks = Some (st', c, rs) -> used_ok inp st'.
Proof.
  induction ks as [|k ks IH]; intros st st' c rs H E; simpl in E; [inversion E; subst; exact H |].
  destruct (map_value fx P inp st k) as [[[st1 c1] v]|] eqn:E1; [| discriminate].
  destruct (map_values fx P inp st1 ks) as [[[st2 c2] vs]|] eqn:E2; [| discriminate].
  inversion E; subst. eapply IH; [| exact E2]. eapply map_value_used; eassumption.
Qed.

Ltac used_step :=
  match goal with
  | E : context [map_values ?fx ?P ?inp ?st ?ks] |- _ =>
      let E1 := fresh "E" in destruct (map_values fx P inp st ks) as [[[? ?] ?]|] eqn:E1;
      [| cbv beta iota in E; discriminate E];
      apply map_values_used in E1; [| first [assumption | unfold used_ok in *; simpl; assumption]]
  | E : context [map_value ?fx ?P ?inp ?st ?k] |- _ =>
      let E1 := fresh "E" in destruct (map_value fx P inp st k) as [[[? ?] ?]|] eqn:E1;
      [| cbv beta iota in E; discriminate E];
      apply map_value_used in E1; [| first [assumption | unfold used_ok in *; simpl; assumption]]
  end.
Ltac red_rtmp E := cbv beta iota zeta delta [rtmp] in E.

Lemma gen_stmt_used : forall fx P inp root st s later st' c,
  used_ok inp st -> gen_stmt fx P inp root st s later = Some (st', c) -> used_ok inp st'.
Proof.
  intros fx P inp root st s later st' c H E. destruct s; cbn [gen_stmt] in E; red_rtmp E.
  - inversion E; subst. unfold used_ok in *; simpl; assumption.
  - inversion E; subst. unfold used_ok in *; simpl; assumption.
  - repeat used_step.
    destruct tys as [|t tys].
    + destruct (existsb (is_replace_with l) later).
      * repeat used_step. red_rtmp E. inversion E; subst. unfold used_ok in *; simpl; assumption.
      * inversion E; subst. unfold used_ok in *; simpl; assumption.
    + repeat used_step. inversion E; subst. unfold used_ok in *; simpl; assumption.
  - repeat used_step. inversion E; subst. unfold used_ok in *; simpl; assumption.
  - repeat used_step. inversion E; subst. unfold used_ok in *; simpl; assumption.
  - destruct (op_rtys root).
    + repeat used_step. inversion E; subst. unfold used_ok in *; simpl; assumption.
    + repeat used_step. inversion E; subst. unfold used_ok in *; simpl; assumption.
  - repeat used_step. inversion E; subst. unfold used_ok in *; simpl; assumption.
Qed.

Lemma gen_stmts_used : forall fx P inp root l st st' c,
  used_ok inp st -> gen_stmts fx P inp root st l = Some (st', c) -> used_ok inp st'.
Proof.
  induction l as [|s l IH]; intros st st' c H E; simpl in E; [inversion E; subst; exact H |].
  destruct (gen_stmt fx P inp root st s l) as [[st1 c1]|] eqn:E1; [| discriminate].
  destruct (gen_stmts fx P inp root st1 l) as [[st2 c2]|] eqn:E2; [| discriminate].
  inversion E; subst. eapply IH; [| exact E2]. eapply gen_stmt_used; eassumption.
Qed.

Lemma all_some_map_some : forall A B (f : A -> option B) l,
  (forall x, In x l -> f x <> None) -> exists vs, all_some (map f l) = Some vs.
Proof.
  intros A B f. induction l as [|x l IH]; intros H; simpl; [eexists; reflexivity |].
  destruct (f x) as [b|] eqn:E.
  - destruct IH as [vs Hvs]; [intros y Hy; apply H; right; exact Hy |]. rewrite Hvs. eexists; reflexivity.
  - exfalso. apply (H x); [left; reflexivity | exact E].
Qed.

(* the static class of patterns / payloads the match theorem speaks about, per repair flag *)
Definition match_side_conditions (fx : fixes) (P : pattern) (pl : payload) : Prop :=
  (fx_falsy fx = true \/ (forall a c, p_aconst P a = Some c -> truthy c = true)) /\
  (fx_attrorder fx = true \/
   (forall pid x n, find_op pl pid = Some x -> get_attr_or_prop x n = get_attr_then_prop x n)) /\
  (fx_resindex fx = true \/ payload_wf pl) /\
  (exists seen', lin_op (p_root P) [] = Some seen') /\
  idx_op (negb (fx_resindex fx)) (p_root P).

Lemma R_nil : forall fx pl root, R fx pl root [] [] [].
Proof.
  intros. constructor; simpl; try tauto; try discriminate; try (intros; contradiction).
Qed.

(* same success / failure, and on success every bound pattern value is the denotation of the position the
   conversion recorded for it, which is what record_match hands to the rewriter *)
Theorem match_equiv : forall fx P pl x c,
  match_side_conditions fx P pl ->
  find_op pl (o_id x) = Some x ->
  compile fx P = Some c ->
  match pdl_match fx P pl x with
  | MOk e => (exists args, interp_match fx c pl x = IMatch args) /\
             (forall k v p, klookup e k = Some v -> klookup (snd (extract fx P)) k = Some p ->
                            eval_pos fx pl (o_id x) p = Some v)
  | MFail => forall args, interp_match fx c pl x <> IMatch args
  | MErr => False
  end.
Proof.
  intros fx P pl x c (Hf & Ha & Hr & (seen' & Hlin) & Hidx) Hx Hc.
  unfold compile in Hc. unfold extract in *.
  pose proof (sim_op fx P pl (o_id x) Hf Ha Hr (p_root P) [] [] [] seen' PRoot x
                (R_nil _ _ _) eq_refl Hx Hlin Hidx) as Hsim.
  destruct (extract_op fx P [] (p_root P) PRoot) as [preds inp] eqn:Eext. cbn [fst snd] in *.
  destruct (gen_stmts fx P inp (p_root P) rg_init (p_rw P)) as [[st code]|] eqn:Eg; [| discriminate].
  inversion Hc; subst c; clear Hc.
  assert (Hused : used_ok inp st).
  { eapply gen_stmts_used; [| exact Eg]. intros p []. }
  unfold pdl_match, interp_match. cbn [c_matcher].
  rewrite chain_sound.
  destruct (match_op fx P pl [] (p_root P) x) as [| |e]; cbn [agree] in Hsim.
  - intros args H. apply (proj1 (ordered_match _ _ _ _ _ _)) in H. apply (proj1 (seq_eval_match _ _ _ _ _ _)) in H. destruct H as [H _].
    apply Hsim. apply Forall_forall. exact H.
  - exact Hsim.
  - destruct Hsim as [Hall HR]. split.
    + destruct (all_some_map_some _ _ (eval_pos fx pl (o_id x)) (rg_used st)) as [vs Hvs].
      { intros p Hp. destruct (Hused p Hp) as [k Hk]. eapply (R_ev _ _ _ _ _ _ HR); exact Hk. }
      exists vs. apply (proj2 (ordered_match _ _ _ _ _ _)). apply (proj2 (seq_eval_match _ _ _ _ _ _)). split; [| exact Hvs].
      rewrite Forall_forall in Hall. exact Hall.
    + intros k v p H1 H2. eapply (R_val _ _ _ _ _ _ HR); eassumption.
Qed.

(* outcome class of one application: 0 = no match, 1 = rewritten, 2 = raised *)
Definition rres_kind (r : rres) : Z := match r with RNoMatch => 0 | ROk _ => 1 | RErr => 2 end.
(* both paths at operation pid of the payload, for the refutation witnesses and examples *)
Definition outcome_pair (fx : fixes) (P : pattern) (pl : payload) (pid : Z) : option (Z * Z) :=
  match compile fx P with
  | Some c => Some (rres_kind (pdl_apply fx P pl pid), rres_kind (interp_apply fx c pl pid))
  | None => None
  end.
Definition same_result (fx : fixes) (P : pattern) (pl : payload) (pid : Z) : Prop :=
  match compile fx P with
  | Some c => pdl_apply fx P pl pid = interp_apply fx c pl pid
  | None => False
  end.

(* with every proposed repair present only the static shape of the pattern remains as side condition *)
Corollary match_equiv_repaired : forall P pl x c seen',
  lin_op (p_root P) [] = Some seen' -> idx_op false (p_root P) ->
  find_op pl (o_id x) = Some x ->
  compile repaired P = Some c ->
  match pdl_match repaired P pl x with
  | MOk e => (exists args, interp_match repaired c pl x = IMatch args) /\
             (forall k v p, klookup e k = Some v -> klookup (snd (extract repaired P)) k = Some p ->
                            eval_pos repaired pl (o_id x) p = Some v)
  | MFail => forall args, interp_match repaired c pl x <> IMatch args
  | MErr => False
  end.
Proof.
  intros P pl x c seen' Hlin Hidx Hx Hc. apply match_equiv; try assumption.
  repeat split; try (left; reflexivity); [exists seen'; exact Hlin | exact Hidx].
Qed.
