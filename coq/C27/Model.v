(* C27/Model.v -- executable model (definitions only, no proofs) of
     xdsl/interpreters/pdl.py                               PDLMatcher.match_*, PDLRewriteFunctions   (pdl_match, pdl_apply)
     xdsl/transforms/convert_pdl_to_pdl_interp/conversion.py  single pattern: predicate extraction,
                                                            ordering, chain and rewriter generation  (compile)
     xdsl/interpreters/pdl_interp.py + apply_pdl_interp.py  matcher / rewriter abstract machine       (interp_match, interp_apply)
   for a restricted PDL language:
     match part   = a tree of pdl.operation nodes (optional name, attribute constraints name -> pdl.attribute
                    variable that is a constant or unconstrained, operands that are pdl.operand variables
                    (optionally typed, shared = equality) or pdl.result edges to nested operations, result types
                    that are pdl.type variables (constant or unconstrained, shared = equality));
     rewrite part = a list of statements: constant pdl.attribute / pdl.type, new pdl.operation built from matched
                    values / attributes / types and local ones, pdl.result of a new operation,
                    pdl.replace root with values / with operation, pdl.erase root.
   Payload IR: one block with typed arguments and a list of operations {id; name; operands; attributes;
   properties; result types}; a value is a block argument or the k-th result of the operation with a given id.
   Python object identity of operations = their id, of values = (id, k) / argument index.
   Exceptions are explicit outcomes (MErr / IErr / RErr), never a default.
   The record `fixes` selects between the code as found (all false = `as_found`) and the repairs proposed in
   /verif/build/proposed_fixes/C27-*.diff; the harness probes which ones are present in /repo. *)
From Coq Require Import ZArith List Bool.
Import ListNotations.
Local Open Scope Z_scope.

Record fixes := {
  fx_falsy : bool;      (* C27-1 conversion tests `value is not None` instead of truthiness of a constant attribute *)
  fx_resindex : bool;   (* C27-2 direct match_result checks that the operand IS result #index of its owner *)
  fx_reuse : bool;      (* C27-3 conversion emits the equality predicate for a re-used pdl.result value *)
  fx_erase : bool;      (* C27-4 pdl_interp.erase has an interpreter implementation *)
  fx_range : bool;      (* C27-5 pdl_interp.get_value_type accepts a range; create_operation flattens type ranges *)
  fx_attrorder : bool;  (* C27-6 pdl_interp.get_attribute looks at properties first, as get_attr_or_prop does *)
  fx_infer : bool       (* C27-5 (direct half) PDLRewriteFunctions.run_operation infers the result types of a
                           replacement operation without declared types from the operation it replaces *)
}.
Definition as_found : fixes := Build_fixes false false false false false false false.
Definition repaired : fixes := Build_fixes true true true true true true true.

(* ------------------------------------------------------------------ payload IR *)
Inductive val := VArg (k : Z) | VRes (pid k : Z).
Record pop := { o_id : Z; o_name : Z; o_operands : list val;
                o_attrs : list (Z * Z); o_props : list (Z * Z); o_rtys : list Z }.
Record payload := { pl_args : list Z; pl_ops : list pop }.

Definition val_eqb (a b : val) : bool :=
  match a, b with
  | VArg i, VArg j => i =? j
  | VRes p i, VRes q j => (p =? q) && (i =? j)
  | _, _ => false
  end.

Definition znth {A} (l : list A) (i : Z) : option A :=
  if i <? 0 then None else nth_error l (Z.to_nat i).
Definition zlen {A} (l : list A) : Z := Z.of_nat (length l).

Fixpoint find_op_in (l : list pop) (pid : Z) : option pop :=
  match l with
  | [] => None
  | x :: r => if o_id x =? pid then Some x else find_op_in r pid
  end.
Definition find_op (pl : payload) (pid : Z) : option pop := find_op_in (pl_ops pl) pid.

(* type of a value (SSAValue.type); -1 for a dangling reference, which no real IR has *)
Definition vtype (pl : payload) (v : val) : Z :=
  match v with
  | VArg k => match znth (pl_args pl) k with Some t => t | None => -1 end
  | VRes pid k => match find_op pl pid with
                  | Some x => match znth (o_rtys x) k with Some t => t | None => -1 end
                  | None => -1
                  end
  end.

Fixpoint assoc (l : list (Z * Z)) (k : Z) : option Z :=
  match l with
  | [] => None
  | (k', v) :: r => if k' =? k then Some v else assoc r k
  end.
(* Operation.get_attr_or_prop: properties first *)
Definition get_attr_or_prop (x : pop) (n : Z) : option Z :=
  match assoc (o_props x) n with Some a => Some a | None => assoc (o_attrs x) n end.
(* pdl_interp run_get_attribute: attributes first (as found) *)
Definition get_attr_then_prop (x : pop) (n : Z) : option Z :=
  match assoc (o_attrs x) n with Some a => Some a | None => assoc (o_props x) n end.

(* names >= 2 are properties of the test operations (prop1, prop2), 0 and 1 are plain attributes *)
Definition is_prop (n : Z) : bool := 2 <=? n.
(* attribute values with id <= 0 are the ones whose Python truth value is False (0 : i32, [], 0 : i64, false) *)
Definition truthy (a : Z) : bool := 0 <? a.

(* ------------------------------------------------------------------ run-time objects of both interpreters *)
Inductive obj :=
| ONull | OOp (pid : Z) | OVal (v : val) | OAttr (a : Z) | OType (t : Z)
| OVals (l : list val) | OTypes (l : list Z).

Fixpoint list_eqb {A} (f : A -> A -> bool) (a b : list A) : bool :=
  match a, b with
  | [], [] => true
  | x :: a', y :: b' => f x y && list_eqb f a' b'
  | _, _ => false
  end.
Definition obj_eqb (a b : obj) : bool :=
  match a, b with
  | ONull, ONull => true
  | OOp p, OOp q => p =? q
  | OVal v, OVal w => val_eqb v w
  | OAttr x, OAttr y => x =? y
  | OType x, OType y => x =? y
  | OVals l, OVals m => list_eqb val_eqb l m
  | OTypes l, OTypes m => list_eqb Z.eqb l m
  | _, _ => false
  end.

(* ------------------------------------------------------------------ the pattern language *)
Inductive operand_pat :=
| OFree (v : Z)                          (* a pdl.operand variable *)
| ORes (rid idx : Z) (o : op_pat)        (* %rid = pdl.result idx of <nested operation> *)
| OReuse (rid : Z)                       (* a second use of the pdl.result value %rid *)
with op_pat :=
| Op (id : Z) (name : option Z) (attrs : list (Z * Z)) (operands : list operand_pat) (rtys : list Z).

Inductive vref := VMo (v : Z) | VMr (rid : Z) | VL (l : Z).
Inductive aref := AMa (a : Z) | AL (l : Z).
Inductive tref := TMt (t : Z) | TL (l : Z).
Inductive stmt :=
| SAttr (l c : Z) | SType (l c : Z)
| SOp (l name : Z) (operands : list vref) (attrs : list (Z * aref)) (tys : list tref)
| SResult (l lop idx : Z)
| SReplaceVals (vs : list vref) | SReplaceOp (l : Z) | SErase.

Record pattern := {
  p_tconst : Z -> option Z;   (* pdl.type variable -> constant type *)
  p_aconst : Z -> option Z;   (* pdl.attribute variable -> constant value *)
  p_otype : Z -> option Z;    (* pdl.operand variable -> its pdl.type variable *)
  p_root : op_pat;
  p_rw : list stmt
}.
Definition op_id (o : op_pat) : Z := match o with Op id _ _ _ _ => id end.
Definition op_rtys (o : op_pat) : list Z := match o with Op _ _ _ _ r => r end.

(* SSA values of the pattern (keys of PDLMatcher.matching_context / of the conversion's `inputs`) *)
Inductive key := KOp (i : Z) | KOperand (i : Z) | KResult (i : Z) | KType (i : Z) | KAttr (i : Z) | KLocal (i : Z).
Definition key_eqb (a b : key) : bool :=
  match a, b with
  | KOp i, KOp j | KOperand i, KOperand j | KResult i, KResult j
  | KType i, KType j | KAttr i, KAttr j | KLocal i, KLocal j => i =? j
  | _, _ => false
  end.
Fixpoint klookup {A} (l : list (key * A)) (k : key) : option A :=
  match l with
  | [] => None
  | (k', v) :: r => if key_eqb k' k then Some v else klookup r k
  end.

(* ================================================================== 1. direct matching (interpreters/pdl.py) *)
Definition env := list (key * obj).
Inductive mres := MFail | MErr | MOk (e : env).

Definition bound_or (e : env) (k : key) (x : obj) (otherwise : mres) : mres :=
  match klookup e k with
  | Some b => if obj_eqb b x then MOk e else MFail
  | None => otherwise
  end.

(* PDLMatcher.match_type *)
Definition match_type (P : pattern) (e : env) (t : Z) (xty : Z) : mres :=
  bound_or e (KType t) (OType xty)
    (match p_tconst P t with
     | None => MOk ((KType t, OType xty) :: e)
     | Some c => if c =? xty then MOk ((KType t, OType xty) :: e) else MFail
     end).

(* PDLMatcher.match_attribute (no value_type in the language) *)
Definition match_attribute (P : pattern) (e : env) (a : Z) (xattr : Z) : mres :=
  bound_or e (KAttr a) (OAttr xattr)
    (match p_aconst P a with
     | Some c => if c =? xattr then MOk ((KAttr a, OAttr xattr) :: e) else MFail
     | None => MOk ((KAttr a, OAttr xattr) :: e)
     end).

(* PDLMatcher.match_operand *)
Definition match_free_operand (P : pattern) (pl : payload) (e : env) (v : Z) (x : val) : mres :=
  bound_or e (KOperand v) (OVal x)
    (match p_otype P v with
     | Some t => match match_type P e t (vtype pl x) with
                 | MOk e' => MOk ((KOperand v, OVal x) :: e')
                 | r => r
                 end
     | None => MOk ((KOperand v, OVal x) :: e)
     end).

(* the attribute loop of match_operation *)
Fixpoint match_attrs (P : pattern) (x : pop) (e : env) (attrs : list (Z * Z)) : mres :=
  match attrs with
  | [] => MOk e
  | (n, a) :: r =>
      match get_attr_or_prop x n with
      | None => MFail
      | Some xa => match match_attribute P e a xa with
                   | MOk e' => match_attrs P x e' r
                   | res => res
                   end
      end
  end.

(* the result-type loop of match_operation (zip) *)
Fixpoint match_types (P : pattern) (e : env) (ts : list Z) (xs : list Z) : mres :=
  match ts, xs with
  | t :: ts', x :: xs' => match match_type P e t x with
                          | MOk e' => match_types P e' ts' xs'
                          | res => res
                          end
  | _, _ => MOk e
  end.

(* the operand loop of match_operation (zip), over whatever matches one operand *)
Section OperandLoop.
Variable f : env -> operand_pat -> val -> mres.
Fixpoint match_operands_with (e : env) (ops : list operand_pat) (vals : list val) : mres :=
  match ops, vals with
  | op :: ops', v :: vals' =>
      match f e op v with
      | MOk e' => match_operands_with e' ops' vals'
      | res => res
      end
  | _, _ => MOk e
  end.
End OperandLoop.

(* PDLMatcher.match_operation / match_result / match_operand dispatch *)
Fixpoint match_op (fx : fixes) (P : pattern) (pl : payload) (e : env) (o : op_pat) (x : pop) {struct o} : mres :=
  match o with
  | Op id name attrs operands rtys =>
      bound_or e (KOp id) (OOp (o_id x))
        (if match name with Some n => negb (o_name x =? n) | None => false end then MFail else
         match match_attrs P x e attrs with
         | MOk e1 =>
             if negb (zlen operands =? zlen (o_operands x)) then MFail else
             match match_operands_with (fun e op v => match_operand fx P pl e op v) e1 operands (o_operands x) with
             | MOk e2 =>
                 if negb (zlen rtys =? zlen (o_rtys x)) then MFail else
                 match match_types P e2 rtys (o_rtys x) with
                 | MOk e3 => MOk ((KOp id, OOp (o_id x)) :: e3)
                 | res => res
                 end
             | res => res
             end
         | res => res
         end)
  end
with match_operand (fx : fixes) (P : pattern) (pl : payload) (e : env) (op : operand_pat) (v : val) {struct op} : mres :=
  match op with
  | OFree ov => match_free_operand P pl e ov v
  | ORes rid idx o =>
      bound_or e (KResult rid) (OVal v)
        (match v with
         | VArg _ => MFail                       (* not an OpResult *)
         | VRes pid k =>
             match find_op pl pid with
             | None => MFail                     (* dangling owner: no real IR has it *)
             | Some x =>
                 match match_op fx P pl e o x with
                 | MOk e' =>
                     if negb (zlen (op_rtys o) =? 0) && (zlen (op_rtys o) <=? idx) then MFail else
                     if fx_resindex fx then
                       (* C27-2: `index >= len(results) or results[index] is not operand` -> no match *)
                       (if (0 <=? idx) && (idx <? zlen (o_rtys x)) && (k =? idx)
                        then MOk ((KResult rid, OVal (VRes (o_id x) idx)) :: e') else MFail)
                     else if (0 <=? idx) && (idx <? zlen (o_rtys x)) then MOk ((KResult rid, OVal (VRes (o_id x) idx)) :: e')
                     else MErr                   (* xdsl_op.results[index]: IndexError *)
                 | res => res
                 end
             end
         end)
  | OReuse rid =>
      match klookup e (KResult rid) with
      | Some b => if obj_eqb b (OVal v) then MOk e else MFail
      | None => MErr                             (* outside the language: use before the pdl.result edge *)
      end
  end.

Definition pdl_match (fx : fixes) (P : pattern) (pl : payload) (x : pop) : mres :=
  match_op fx P pl [] (p_root P) x.

(* ------------------------------------------------------------------ payload edits (PatternRewriter) *)
Fixpoint maxid (l : list pop) : Z :=
  match l with [] => 0 | x :: r => Z.max (o_id x) (maxid r) end.
Definition fresh (pl : payload) : Z := maxid (pl_ops pl) + 1.

Fixpoint insert_before (l : list pop) (pid : Z) (n : pop) : option (list pop) :=
  match l with
  | [] => None
  | x :: r => if o_id x =? pid then Some (n :: x :: r)
              else match insert_before r pid n with Some r' => Some (x :: r') | None => None end
  end.
Definition has_use_of (pid : Z) (x : pop) : bool :=
  existsb (fun v => match v with VRes p _ => p =? pid | _ => false end) (o_operands x).
(* Rewriter.erase_op(safe_erase=True): raises when a result still has uses *)
Definition erase_op (pl : payload) (pid : Z) : option payload :=
  if existsb (has_use_of pid) (pl_ops pl) then None
  else Some {| pl_args := pl_args pl; pl_ops := filter (fun x => negb (o_id x =? pid)) (pl_ops pl) |}.
Definition subst_val (pid : Z) (news : list val) (v : val) : val :=
  match v with
  | VRes p k => if p =? pid then match znth news k with Some n => n | None => v end else v
  | _ => v
  end.
Definition set_operands (x : pop) (l : list val) : pop :=
  {| o_id := o_id x; o_name := o_name x; o_operands := l; o_attrs := o_attrs x; o_props := o_props x; o_rtys := o_rtys x |}.
(* PatternRewriter.replace(op, [], new_results): count check, replace all uses, erase *)
Definition replace_op (pl : payload) (pid : Z) (news : list val) : option payload :=
  match find_op pl pid with
  | None => None
  | Some x =>
      if negb (zlen (o_rtys x) =? zlen news) then None
      else erase_op {| pl_args := pl_args pl;
                       pl_ops := map (fun y => set_operands y (map (subst_val pid news) (o_operands y))) (pl_ops pl) |} pid
  end.
Definition split_attrs (l : list (Z * Z)) : list (Z * Z) * list (Z * Z) :=
  (filter (fun na => negb (is_prop (fst na))) l, filter (fun na => is_prop (fst na)) l).
(* op_type.create(...) + rewriter.insert(op) at InsertPoint.before(root) *)
Definition create_op (pl : payload) (root : Z) (name : Z) (operands : list val) (attrs : list (Z * Z)) (tys : list Z)
  : option (payload * Z) :=
  let id := fresh pl in
  let '(as_, ps) := split_attrs attrs in
  match insert_before (pl_ops pl) root
          {| o_id := id; o_name := name; o_operands := operands; o_attrs := as_; o_props := ps; o_rtys := tys |} with
  | Some l => Some ({| pl_args := pl_args pl; pl_ops := l |}, id)
  | None => None
  end.
Fixpoint results_of (pid : Z) (n : nat) (k : Z) : list val :=
  match n with O => [] | S n' => VRes pid k :: results_of pid n' (k + 1) end.
Definition op_results (x : pop) : list val := results_of (o_id x) (length (o_rtys x)) 0.

Fixpoint all_some {A} (l : list (option A)) : option (list A) :=
  match l with
  | [] => Some []
  | Some a :: r => match all_some r with Some r' => Some (a :: r') | None => None end
  | None :: _ => None
  end.

(* ================================================================== 2. direct rewriting (PDLRewriteFunctions) *)
Inductive rres := RNoMatch | RErr | ROk (pl : payload).
Definition is_replace_with (l : Z) (s : stmt) : bool := match s with SReplaceOp l' => l =? l' | _ => false end.

Definition vref_key (v : vref) : key := match v with VMo i => KOperand i | VMr i => KResult i | VL i => KLocal i end.
Definition aref_key (a : aref) : key := match a with AMa i => KAttr i | AL i => KLocal i end.
Definition tref_key (t : tref) : key := match t with TMt i => KType i | TL i => KLocal i end.

Definition get_val (e : env) (k : key) : option val := match klookup e k with Some (OVal v) => Some v | _ => None end.
Definition get_attr (e : env) (k : key) : option Z := match klookup e k with Some (OAttr a) => Some a | _ => None end.
Definition get_type (e : env) (k : key) : option Z := match klookup e k with Some (OType t) => Some t | _ => None end.
Definition get_opid (e : env) (k : key) : option Z := match klookup e k with Some (OOp p) => Some p | _ => None end.

Fixpoint run_rw (fx : fixes) (root : Z) (st : list stmt) (e : env) (pl : payload) : rres :=
  match st with
  | [] => ROk pl
  | s :: rest =>
      match s with
      | SAttr l c => run_rw fx root rest ((KLocal l, OAttr c) :: e) pl
      | SType l c => run_rw fx root rest ((KLocal l, OType c) :: e) pl
      | SOp l name operands attrs tys =>
          match all_some (map (fun v => get_val e (vref_key v)) operands),
                all_some (map (fun na => match get_attr e (aref_key (snd na)) with
                                         | Some a => Some (fst na, a) | None => None end) attrs),
                (* C27-5 (second half): a replacement operation without declared result types takes the result
                   types of the operation it replaces, as the lowering does *)
                (match tys with
                 | [] => if fx_infer fx && existsb (is_replace_with l) rest
                         then match find_op pl root with Some x => Some (o_rtys x) | None => None end
                         else Some []
                 | _ => all_some (map (fun t => get_type e (tref_key t)) tys)
                 end) with
          | Some vs, Some ats, Some ts =>
              match create_op pl root name vs ats ts with
              | Some (pl', id) => run_rw fx root rest ((KLocal l, OOp id) :: e) pl'
              | None => RErr
              end
          | _, _, _ => RErr
          end
      | SResult l lop idx =>
          match get_opid e (KLocal lop) with
          | Some pid => match find_op pl pid with
                        | Some x => if (0 <=? idx) && (idx <? zlen (o_rtys x))
                                    then run_rw fx root rest ((KLocal l, OVal (VRes pid idx)) :: e) pl
                                    else RErr
                        | None => RErr
                        end
          | None => RErr
          end
      | SReplaceVals vs =>
          match vs with
          | [] => RErr                      (* run_replace: neither operation nor values *)
          | _ => match all_some (map (fun v => get_val e (vref_key v)) vs) with
                 | Some news => match replace_op pl root news with
                                | Some pl' => run_rw fx root rest e pl'
                                | None => RErr
                                end
                 | None => RErr
                 end
          end
      | SReplaceOp l =>
          match get_opid e (KLocal l) with
          | Some pid => match find_op pl pid with
                        | Some x => match replace_op pl root (op_results x) with
                                    | Some pl' => run_rw fx root rest e pl'
                                    | None => RErr
                                    end
                        | None => RErr
                        end
          | None => RErr
          end
      | SErase => match find_op pl root with          (* erasing an operation that is gone already raises *)
                  | Some _ => match erase_op pl root with
                              | Some pl' => run_rw fx root rest e pl'
                              | None => RErr
                              end
                  | None => RErr
                  end
      end
  end.

(* PDLRewritePattern.match_and_rewrite at the operation with id pid *)
Definition pdl_apply (fx : fixes) (P : pattern) (pl : payload) (pid : Z) : rres :=
  match find_op pl pid with
  | None => RErr
  | Some x => match pdl_match fx P pl x with
              | MFail => RNoMatch
              | MErr => RErr
              | MOk e => run_rw fx pid (p_rw P) e pl
              end
  end.

(* ================================================================== 3. conversion: positions and predicates *)
Inductive pos :=
| PRoot | POperand (p : pos) (i : Z) | PDefOp (p : pos) | PResult (p : pos) (i : Z)
| PAttr (p : pos) (n : Z) | PType (p : pos).
Fixpoint pos_eqb (a b : pos) : bool :=
  match a, b with
  | PRoot, PRoot => true
  | POperand p i, POperand q j => (i =? j) && pos_eqb p q
  | PDefOp p, PDefOp q => pos_eqb p q
  | PResult p i, PResult q j => (i =? j) && pos_eqb p q
  | PAttr p n, PAttr q m => (n =? m) && pos_eqb p q
  | PType p, PType q => pos_eqb p q
  | _, _ => false
  end.
(* Position.get_operation_depth *)
Fixpoint depth (p : pos) : Z :=
  match p with
  | PRoot => 0
  | PDefOp q => depth q + 1
  | POperand q _ | PResult q _ | PAttr q _ | PType q => depth q
  end.
(* predicate.POSITION_COSTS *)
Definition pos_cost (p : pos) : Z :=
  match p with PRoot | PDefOp _ => 1 | POperand _ _ => 2 | PAttr _ _ => 4 | PResult _ _ => 6 | PType _ => 8 end.

(* question with its expected answer *)
Inductive quest :=
| QNotNull | QName (n : Z) | QOperandCount (n : Z) | QResultCount (n : Z)
| QEqual (other : pos) | QAttr (a : Z) | QType (t : Z).
(* predicate.QUESTION_COSTS *)
Definition q_cost (q : quest) : Z :=
  match q with QNotNull => 1 | QName _ => 2 | QOperandCount _ => 4 | QResultCount _ => 6
             | QEqual _ => 7 | QAttr _ => 8 | QType _ => 9 end.
Definition quest_eqb (a b : quest) : bool :=
  match a, b with
  | QNotNull, QNotNull => true
  | QName x, QName y | QOperandCount x, QOperandCount y | QResultCount x, QResultCount y
  | QAttr x, QAttr y | QType x, QType y => x =? y
  | QEqual p, QEqual q => pos_eqb p q
  | _, _ => false
  end.
Definition pred := (pos * quest)%type.
Definition pred_eqb (a b : pred) : bool := pos_eqb (fst a) (fst b) && quest_eqb (snd a) (snd b).

Definition inputs := list (key * pos).

(* extract_tree_predicates, value seen before: the deeper position gets `equal_to shallower` *)
Definition eq_pred (existing position : pos) : pred :=
  if depth existing <? depth position then (position, QEqual existing) else (existing, QEqual position).

(* pdl.type value at a TypePosition *)
Definition extract_type (P : pattern) (inp : inputs) (t : Z) (p : pos) : list pred * inputs :=
  match klookup inp (KType t) with
  | Some ex => ([eq_pred ex p], inp)
  | None => (match p_tconst P t with Some c => [(p, QType c)] | None => [] end, (KType t, p) :: inp)
  end.

(* pdl.attribute value at an AttributePosition: `elif attr_op.value:` is a truth test (C27-1) *)
Definition extract_attr (fx : fixes) (P : pattern) (inp : inputs) (a : Z) (p : pos) : list pred * inputs :=
  match klookup inp (KAttr a) with
  | Some ex => ([eq_pred ex p], inp)
  | None => ((p, QNotNull) ::
             match p_aconst P a with
             | Some c => if truthy c || fx_falsy fx then [(p, QAttr c)] else []
             | None => []
             end, (KAttr a, p) :: inp)
  end.

Fixpoint extract_attrs (fx : fixes) (P : pattern) (inp : inputs) (op : pos) (attrs : list (Z * Z)) : list pred * inputs :=
  match attrs with
  | [] => ([], inp)
  | (n, a) :: r =>
      let '(ps, inp1) := extract_attr fx P inp a (PAttr op n) in
      let '(qs, inp2) := extract_attrs fx P inp1 op r in
      (ps ++ qs, inp2)
  end.

Fixpoint extract_rtys (P : pattern) (inp : inputs) (op : pos) (i : Z) (ts : list Z) : list pred * inputs :=
  match ts with
  | [] => ([], inp)
  | t :: r =>
      let '(ps, inp1) := extract_type P inp t (PType (PResult op i)) in
      let '(qs, inp2) := extract_rtys P inp1 op (i + 1) r in
      ((PResult op i, QNotNull) :: ps ++ qs, inp2)
  end.

(* the operand loop of _extract_operation_predicates, over whatever extracts one operand *)
Section ExtractLoop.
Variable g : inputs -> operand_pat -> pos -> list pred * inputs.
Fixpoint extract_operands_with (inp : inputs) (p : pos) (i : Z) (ops : list operand_pat) : list pred * inputs :=
  match ops with
  | [] => ([], inp)
  | x :: r =>
      let '(ps, inp1) := g inp x (POperand p i) in
      let '(qs, inp2) := extract_operands_with inp1 p (i + 1) r in
      (ps ++ qs, inp2)
  end.
End ExtractLoop.

(* _extract_operation_predicates / _extract_operand_tree_predicates *)
Fixpoint extract_op (fx : fixes) (P : pattern) (inp : inputs) (o : op_pat) (p : pos) {struct o} : list pred * inputs :=
  match o with
  | Op id name attrs operands rtys =>
      match klookup inp (KOp id) with
      | Some ex => ([eq_pred ex p], inp)
      | None =>
          let inp0 := (KOp id, p) :: inp in
          let head :=
            (match p with PRoot => [] | _ => [(p, QNotNull)] end) ++
            (match name with Some n => [(p, QName n)] | None => [] end) ++
            [(p, QOperandCount (zlen operands)); (p, QResultCount (zlen rtys))] in
          let '(pa, inp1) := extract_attrs fx P inp0 p attrs in
          let '(po, inp2) := extract_operands_with (fun inp x q => extract_operand fx P inp x q) inp1 p 0 operands in
          let '(pr, inp3) := extract_rtys P inp2 p 0 rtys in
          (head ++ pa ++ po ++ pr, inp3)
      end
  end
with extract_operand (fx : fixes) (P : pattern) (inp : inputs) (x : operand_pat) (p : pos) {struct x} : list pred * inputs :=
  match x with
  | OFree v =>
      match klookup inp (KOperand v) with
      | Some ex => ([eq_pred ex p], inp)
      | None =>
          let inp0 := (KOperand v, p) :: inp in
          match p_otype P v with
          | Some t => let '(ps, inp1) := extract_type P inp0 t (PType p) in ((p, QNotNull) :: ps, inp1)
          | None => ([(p, QNotNull)], inp0)
          end
      end
  | ORes rid idx o =>
      match klookup inp (KResult rid) with
      | Some ex => (if fx_reuse fx then [eq_pred ex p] else [], inp)   (* pdl.ResultOp is missing from the isinstance list (C27-3) *)
      | None =>
          let inp0 := (KResult rid, p) :: inp in
          let d := PDefOp p in
          let '(ps, inp1) := extract_op fx P inp0 o d in
          ((p, QNotNull) :: (d, QNotNull) :: (PResult d idx, QEqual p) :: ps, inp1)
      end
  | OReuse rid =>
      match klookup inp (KResult rid) with
      | Some ex => (if fx_reuse fx then [eq_pred ex p] else [], inp)
      | None => ([], inp)
      end
  end.

Definition extract (fx : fixes) (P : pattern) : list pred * inputs := extract_op fx P [] (p_root P) PRoot.

(* ------------------------------------------------------------------ ordering (OrderedPredicate.__lt__, single pattern) *)
Fixpoint count_pred (x : pred) (l : list pred) : Z :=
  match l with [] => 0 | y :: r => (if pred_eqb x y then 1 else 0) + count_pred x r end.
Fixpoint mem_pred (x : pred) (l : list pred) : bool :=
  match l with [] => false | y :: r => pred_eqb x y || mem_pred x r end.
(* unique predicates in order of first appearance (= tie_breaker order) *)
Fixpoint uniq_acc (seen : list pred) (l : list pred) : list pred :=
  match l with
  | [] => []
  | x :: r => if mem_pred x seen then uniq_acc seen r else x :: uniq_acc (x :: seen) r
  end.
Record opred := { op_pred : pred; op_primary : Z; op_tie : Z }.
Fixpoint number (all : list pred) (i : Z) (l : list pred) : list opred :=
  match l with
  | [] => []
  | x :: r => {| op_pred := x; op_primary := count_pred x all; op_tie := i |} :: number all (i + 1) r
  end.
(* a is placed before b: higher primary score, then lower depth, position cost, question cost, tie breaker
   (the secondary score is the same for every predicate of a single pattern) *)
Definition before (a b : opred) : bool :=
  let ka := [- op_primary a; depth (fst (op_pred a)); pos_cost (fst (op_pred a)); q_cost (snd (op_pred a)); op_tie a] in
  let kb := [- op_primary b; depth (fst (op_pred b)); pos_cost (fst (op_pred b)); q_cost (snd (op_pred b)); op_tie b] in
  (fix lex (x y : list Z) : bool :=
     match x, y with
     | a :: x', b :: y' => if a <? b then true else if b <? a then false else lex x' y'
     | _, _ => false
     end) ka kb.
Fixpoint insert_sorted (x : opred) (l : list opred) : list opred :=
  match l with
  | [] => [x]
  | y :: r => if before y x then y :: insert_sorted x r else x :: y :: r
  end.
Fixpoint sort_preds (l : list opred) : list opred :=
  match l with [] => [] | x :: r => insert_sorted x (sort_preds r) end.
Definition ordered (preds : list pred) : list pred :=
  map op_pred (sort_preds (number preds 0 (uniq_acc [] preds))).

(* ------------------------------------------------------------------ matcher code generation *)
Inductive instr :=
| IGetOperand (dst src i : Z) | IGetDefOp (dst src : Z) | IGetResult (dst src i : Z)
| IGetAttr (dst src n : Z) | IGetValueType (dst src : Z)
| IIsNotNull (src : Z) | ICheckName (src n : Z) | ICheckOperandCount (src n : Z) | ICheckResultCount (src n : Z)
| IAreEqual (a b : Z) | ICheckAttr (src a : Z) | ICheckType (src t : Z)
| IRecordMatch (args : list Z).

Record cg := { cg_vals : list (pos * Z); cg_next : Z }.
Fixpoint plookup (l : list (pos * Z)) (p : pos) : option Z :=
  match l with [] => None | (q, r) :: t => if pos_eqb q p then Some r else plookup t p end.
(* a generation step returns the new state, the instructions it emitted (in order) and a register *)
Definition alloc (st : cg) (pre : list instr) (p : pos) (mk : Z -> instr) : cg * list instr * Z :=
  let r := cg_next st in
  ({| cg_vals := (p, r) :: cg_vals st; cg_next := r + 1 |}, pre ++ [mk r], r).
(* MatcherGenerator.get_value_at: parent first, cached *)
Fixpoint get_value_at (st : cg) (p : pos) : cg * list instr * Z :=
  match plookup (cg_vals st) p with
  | Some r => (st, [], r)
  | None =>
      match p with
      | PRoot => (st, [], 0)
      | POperand q i => let '(st1, c, rq) := get_value_at st q in alloc st1 c p (fun r => IGetOperand r rq i)
      | PDefOp q => let '(st1, c, rq) := get_value_at st q in alloc st1 c p (fun r => IGetDefOp r rq)
      | PResult q i => let '(st1, c, rq) := get_value_at st q in alloc st1 c p (fun r => IGetResult r rq i)
      | PAttr q n => let '(st1, c, rq) := get_value_at st q in alloc st1 c p (fun r => IGetAttr r rq n)
      | PType q => let '(st1, c, rq) := get_value_at st q in alloc st1 c p (fun r => IGetValueType r rq)
      end
  end.
(* generate_bool_node *)
Definition gen_pred (st : cg) (pq : pred) : cg * list instr :=
  let '(st1, c, v) := get_value_at st (fst pq) in
  match snd pq with
  | QNotNull => (st1, c ++ [IIsNotNull v])
  | QName n => (st1, c ++ [ICheckName v n])
  | QOperandCount n => (st1, c ++ [ICheckOperandCount v n])
  | QResultCount n => (st1, c ++ [ICheckResultCount v n])
  | QEqual other => let '(st2, c2, w) := get_value_at st1 other in (st2, c ++ c2 ++ [IAreEqual v w])
  | QAttr a => (st1, c ++ [ICheckAttr v a])
  | QType t => (st1, c ++ [ICheckType v t])
  end.
Fixpoint gen_preds (st : cg) (l : list pred) : cg * list instr :=
  match l with
  | [] => (st, [])
  | x :: r => let '(st1, c1) := gen_pred st x in
              let '(st2, c2) := gen_preds st1 r in (st2, c1 ++ c2)
  end.
Fixpoint get_values_at (st : cg) (ps : list pos) : cg * list instr * list Z :=
  match ps with
  | [] => (st, [], [])
  | p :: r => let '(st1, c1, v) := get_value_at st p in
              let '(st2, c2, vs) := get_values_at st1 r in (st2, c1 ++ c2, v :: vs)
  end.
Definition cg_init : cg := {| cg_vals := [(PRoot, 0)]; cg_next := 1 |}.
Definition gen_matcher (preds : list pred) (used : list pos) : list instr :=
  let '(st, c1) := gen_preds cg_init preds in
  let '(st1, c2, args) := get_values_at st used in
  c1 ++ c2 ++ [IRecordMatch args].

(* ------------------------------------------------------------------ rewriter generation (generate_rewriter) *)
Inductive rreg := RA (k : Z) | RT (j : Z).       (* function argument / result of an operation of the rewriter *)
Definition rreg_eqb (a b : rreg) : bool :=
  match a, b with RA i, RA j | RT i, RT j => i =? j | _, _ => false end.
Inductive rinstr :=
| RCreateAttr (dst : rreg) (a : Z) | RCreateType (dst : rreg) (t : Z)
| RCreateOp (dst : rreg) (name : Z) (operands : list rreg) (attrs : list (Z * rreg)) (tys : list rreg)
| RGetResult (dst src : rreg) (i : Z) | RGetResults (dst src : rreg) | RGetValueType (dst src : rreg)
| RReplace (op : rreg) (vals : list (bool * rreg)) | RErase (op : rreg) | RFinalize.

Record rg := { rg_vals : list (key * rreg); rg_used : list pos; rg_nargs : Z; rg_ntmp : Z }.
Definition rg_init : rg := {| rg_vals := []; rg_used := []; rg_nargs := 0; rg_ntmp := 0 |}.
(* a new operation of the rewriter function whose result is (optionally) the translation of pattern value k *)
Definition rtmp (st : rg) (k : option key) (mk : rreg -> rinstr) : rg * list rinstr * rreg :=
  let r := RT (rg_ntmp st) in
  ({| rg_vals := match k with Some k => (k, r) :: rg_vals st | None => rg_vals st end;
      rg_used := rg_used st; rg_nargs := rg_nargs st; rg_ntmp := rg_ntmp st + 1 |}, [mk r], r).
Fixpoint mem_pos (p : pos) (l : list pos) : bool :=
  match l with [] => false | q :: r => pos_eqb p q || mem_pos p r end.

(* map_rewrite_value; None = the assertion "Expected value to be a pattern input" *)
Definition map_value (fx : fixes) (P : pattern) (inp : inputs) (st : rg) (k : key) : option (rg * list rinstr * rreg) :=
  match klookup (rg_vals st) k with
  | Some r => Some (st, [], r)
  | None =>
      let const :=
        match k with
        | KAttr a => match p_aconst P a with
                     | Some c => if truthy c || fx_falsy fx then Some (fun r => RCreateAttr r c) else None
                     | None => None
                     end
        | KType t => match p_tconst P t with Some c => Some (fun r => RCreateType r c) | None => None end
        | _ => None
        end in
      match const with
      | Some mk => Some (rtmp st (Some k) mk)
      | None =>
          match klookup inp k with
          | None => None
          | Some p =>
              let r := RA (rg_nargs st) in
              Some ({| rg_vals := (k, r) :: rg_vals st;
                       rg_used := if mem_pos p (rg_used st) then rg_used st else rg_used st ++ [p];
                       rg_nargs := rg_nargs st + 1; rg_ntmp := rg_ntmp st |}, [], r)
          end
      end
  end.
Fixpoint map_values (fx : fixes) (P : pattern) (inp : inputs) (st : rg) (ks : list key)
  : option (rg * list rinstr * list rreg) :=
  match ks with
  | [] => Some (st, [], [])
  | k :: r => match map_value fx P inp st k with
              | Some (st1, c1, v) => match map_values fx P inp st1 r with
                                     | Some (st2, c2, vs) => Some (st2, c1 ++ c2, v :: vs)
                                     | None => None
                                     end
              | None => None
              end
  end.

(* one statement of the rewrite body; `later` = the statements after it (Strategy 3 looks at the uses of the new op) *)
Definition gen_stmt (fx : fixes) (P : pattern) (inp : inputs) (root : op_pat) (st : rg) (s : stmt) (later : list stmt)
  : option (rg * list rinstr) :=
  match s with
  | SAttr l c => let '(st1, c1, _) := rtmp st (Some (KLocal l)) (fun r => RCreateAttr r c) in Some (st1, c1)
  | SType l c => let '(st1, c1, _) := rtmp st (Some (KLocal l)) (fun r => RCreateType r c) in Some (st1, c1)
  | SOp l name operands attrs tys =>
      match map_values fx P inp st (map vref_key operands) with
      | None => None
      | Some (st1, c1, ro) =>
          match map_values fx P inp st1 (map (fun na => aref_key (snd na)) attrs) with
          | None => None
          | Some (st2, c2, ra) =>
              let types :=
                match tys with
                | _ :: _ => map_values fx P inp st2 (map tref_key tys)                       (* Strategy 1 *)
                | [] =>
                    if existsb (is_replace_with l) later then                                  (* Strategy 3 *)
                      match map_value fx P inp st2 (KOp (op_id root)) with
                      | None => None
                      | Some (st3, c3, rroot) =>
                          let '(st4, c4, rs) := rtmp st3 None (fun r => RGetResults r rroot) in
                          let '(st5, c5, rt) := rtmp st4 None (fun r => RGetValueType r rs) in
                          Some (st5, c3 ++ c4 ++ c5, [rt])
                      end
                    else Some (st2, [], [])                                                    (* Strategy 4 *)
                end in
              match types with
              | None => None
              | Some (st3, c3, rt) =>
                  let '(st4, c4, _) := rtmp st3 (Some (KLocal l))
                                         (fun r => RCreateOp r name ro (combine (map fst attrs) ra) rt) in
                  Some (st4, c1 ++ c2 ++ c3 ++ c4)
              end
          end
      end
  | SResult l lop idx =>
      match map_value fx P inp st (KLocal lop) with
      | None => None
      | Some (st1, c1, r) =>
          let '(st2, c2, _) := rtmp st1 (Some (KLocal l)) (fun d => RGetResult d r idx) in Some (st2, c1 ++ c2)
      end
  | SReplaceVals vs =>
      match map_values fx P inp st (map vref_key vs) with
      | None => None
      | Some (st1, c1, rs) =>
          match map_value fx P inp st1 (KOp (op_id root)) with
          | None => None
          | Some (st2, c2, rroot) =>
              Some (st2, c1 ++ c2 ++
                         [match rs with [] => RErase rroot | _ => RReplace rroot (map (fun r => (false, r)) rs) end])
          end
      end
  | SReplaceOp l =>
      match op_rtys root with
      | _ :: _ =>
          match map_value fx P inp st (KLocal l) with
          | None => None
          | Some (st1, c1, r) =>
              let '(st2, c2, rs) := rtmp st1 None (fun d => RGetResults d r) in
              match map_value fx P inp st2 (KOp (op_id root)) with
              | None => None
              | Some (st3, c3, rroot) => Some (st3, c1 ++ c2 ++ c3 ++ [RReplace rroot [(true, rs)]])
              end
          end
      | [] =>
          match map_value fx P inp st (KOp (op_id root)) with
          | None => None
          | Some (st1, c1, rroot) => Some (st1, c1 ++ [RErase rroot])
          end
      end
  | SErase =>
      match map_value fx P inp st (KOp (op_id root)) with
      | None => None
      | Some (st1, c1, rroot) => Some (st1, c1 ++ [RErase rroot])
      end
  end.
Fixpoint gen_stmts (fx : fixes) (P : pattern) (inp : inputs) (root : op_pat) (st : rg) (l : list stmt)
  : option (rg * list rinstr) :=
  match l with
  | [] => Some (st, [])
  | s :: r => match gen_stmt fx P inp root st s r with
              | Some (st1, c1) => match gen_stmts fx P inp root st1 r with
                                  | Some (st2, c2) => Some (st2, c1 ++ c2)
                                  | None => None
                                  end
              | None => None
              end
  end.

Record compiled := { c_matcher : list instr; c_nargs : Z; c_rewriter : list rinstr }.

(* ConvertPDLToPDLInterpPass on a module with this single pattern; None = the conversion raises *)
Definition compile (fx : fixes) (P : pattern) : option compiled :=
  let '(preds, inp) := extract fx P in
  match gen_stmts fx P inp (p_root P) rg_init (p_rw P) with
  | None => None
  | Some (st, code) =>
      Some {| c_matcher := gen_matcher (ordered preds) (rg_used st);
              c_nargs := rg_nargs st;
              c_rewriter := code ++ [RFinalize] |}
  end.

(* ================================================================== 4. the pdl_interp abstract machine *)
Inductive ires := INoMatch | IErr | IMatch (args : list obj).

Fixpoint rlookup (l : list (Z * obj)) (r : Z) : option obj :=
  match l with [] => None | (r', v) :: t => if r' =? r then Some v else rlookup t r end.

Definition as_op (pl : payload) (o : option obj) : option pop :=
  match o with Some (OOp pid) => find_op pl pid | _ => None end.

(* one non-terminator of the matcher: Some value | None = the Python implementation asserts / raises *)
Definition run_get (fx : fixes) (pl : payload) (regs : list (Z * obj)) (i : instr) : option (Z * obj) :=
  match i with
  | IGetOperand d s k =>
      match as_op pl (rlookup regs s) with
      | Some x => Some (d, match znth (o_operands x) k with Some v => OVal v | None => ONull end)
      | None => None
      end
  | IGetDefOp d s =>
      match rlookup regs s with
      | Some ONull => Some (d, ONull)
      | Some (OVal (VRes pid _)) => Some (d, match find_op pl pid with Some _ => OOp pid | None => ONull end)
      | Some (OVal (VArg _)) => Some (d, ONull)
      | _ => None
      end
  | IGetResult d s k =>
      match as_op pl (rlookup regs s) with
      | Some x => Some (d, if (0 <=? k) && (k <? zlen (o_rtys x)) then OVal (VRes (o_id x) k) else ONull)
      | None => None
      end
  | IGetAttr d s n =>
      match as_op pl (rlookup regs s) with
      | Some x => Some (d, match (if fx_attrorder fx then get_attr_or_prop x n else get_attr_then_prop x n) with
                           | Some a => OAttr a | None => ONull end)
      | None => None
      end
  | IGetValueType d s =>
      match rlookup regs s with
      | Some (OVal v) => Some (d, OType (vtype pl v))
      | _ => None
      end
  | _ => None
  end.

(* a terminator of the matcher: Some true = true_dest, Some false = false_dest (finalize), None = raises *)
Definition run_check (pl : payload) (regs : list (Z * obj)) (i : instr) : option bool :=
  match i with
  | IIsNotNull s => match rlookup regs s with Some v => Some (negb (obj_eqb v ONull)) | None => None end
  | ICheckName s n => match as_op pl (rlookup regs s) with Some x => Some (o_name x =? n) | None => None end
  | ICheckOperandCount s n => match as_op pl (rlookup regs s) with Some x => Some (zlen (o_operands x) =? n) | None => None end
  | ICheckResultCount s n => match as_op pl (rlookup regs s) with Some x => Some (zlen (o_rtys x) =? n) | None => None end
  | IAreEqual a b => match rlookup regs a, rlookup regs b with
                     | Some x, Some y => Some (obj_eqb x y) | _, _ => None end
  | ICheckAttr s a => match rlookup regs s with Some v => Some (obj_eqb v (OAttr a)) | None => None end
  | ICheckType s t => match rlookup regs s with Some v => Some (obj_eqb v (OType t)) | None => None end
  | _ => None
  end.

Definition is_get (i : instr) : bool :=
  match i with IGetOperand _ _ _ | IGetDefOp _ _ | IGetResult _ _ _ | IGetAttr _ _ _ | IGetValueType _ _ => true | _ => false end.

Fixpoint run_matcher (fx : fixes) (pl : payload) (regs : list (Z * obj)) (code : list instr) : ires :=
  match code with
  | [] => INoMatch                                    (* falls into the finalize block *)
  | IRecordMatch args :: _ =>
      match all_some (map (rlookup regs) args) with Some l => IMatch l | None => IErr end
  | i :: rest =>
      if is_get i then
        match run_get fx pl regs i with
        | Some b => run_matcher fx pl (b :: regs) rest
        | None => IErr
        end
      else
        match run_check pl regs i with
        | Some true => run_matcher fx pl regs rest
        | Some false => INoMatch
        | None => IErr
        end
  end.

Definition interp_match (fx : fixes) (c : compiled) (pl : payload) (x : pop) : ires :=
  run_matcher fx pl [(0, OOp (o_id x))] (c_matcher c).

(* ------------------------------------------------------------------ the rewriter function *)
Fixpoint rrlookup (l : list (rreg * obj)) (r : rreg) : option obj :=
  match l with [] => None | (r', v) :: t => if rreg_eqb r' r then Some v else rrlookup t r end.
Definition rr_val (regs : list (rreg * obj)) (r : rreg) : option val :=
  match rrlookup regs r with Some (OVal v) => Some v | _ => None end.
Definition rr_attr (regs : list (rreg * obj)) (r : rreg) : option Z :=
  match rrlookup regs r with Some (OAttr a) => Some a | _ => None end.
Definition rr_op (pl : payload) (regs : list (rreg * obj)) (r : rreg) : option pop :=
  match rrlookup regs r with Some (OOp pid) => find_op pl pid | _ => None end.
(* result types handed to create_operation: a range is flattened only with C27-5 *)
Fixpoint rr_types (fx : fixes) (regs : list (rreg * obj)) (rs : list rreg) : option (list Z) :=
  match rs with
  | [] => Some []
  | r :: rest =>
      match rrlookup regs r, rr_types fx regs rest with
      | Some (OType t), Some ts => Some (t :: ts)
      | Some (OTypes l), Some ts => if fx_range fx then Some (l ++ ts) else None
      | _, _ => None
      end
  end.
Fixpoint repl_values (regs : list (rreg * obj)) (items : list (bool * rreg)) : option (list val) :=
  match items with
  | [] => Some []
  | (false, r) :: rest =>
      match rr_val regs r, repl_values regs rest with
      | Some v, Some vs => Some (v :: vs) | _, _ => None end
  | (true, r) :: rest =>
      match rrlookup regs r, repl_values regs rest with
      | Some (OVals l), Some vs => Some (l ++ vs) | _, _ => None end
  end.
Fixpoint bind_args (k : Z) (args : list obj) : list (rreg * obj) :=
  match args with [] => [] | a :: r => (RA k, a) :: bind_args (k + 1) r end.

Fixpoint run_rewriter (fx : fixes) (root : Z) (code : list rinstr) (regs : list (rreg * obj)) (pl : payload) : rres :=
  match code with
  | [] => ROk pl
  | i :: rest =>
      match i with
      | RCreateAttr d a => run_rewriter fx root rest ((d, OAttr a) :: regs) pl
      | RCreateType d t => run_rewriter fx root rest ((d, OType t) :: regs) pl
      | RCreateOp d name operands attrs tys =>
          match all_some (map (rr_val regs) operands),
                all_some (map (fun na => match rr_attr regs (snd na) with
                                         | Some a => Some (fst na, a) | None => None end) attrs),
                rr_types fx regs tys with
          | Some vs, Some ats, Some ts =>
              match create_op pl root name vs ats ts with
              | Some (pl', id) => run_rewriter fx root rest ((d, OOp id) :: regs) pl'
              | None => RErr
              end
          | _, _, _ => RErr
          end
      | RGetResult d s k =>
          match rr_op pl regs s with
          | Some x => run_rewriter fx root rest
                        ((d, if (0 <=? k) && (k <? zlen (o_rtys x)) then OVal (VRes (o_id x) k) else ONull) :: regs) pl
          | None => RErr
          end
      | RGetResults d s =>
          match rr_op pl regs s with
          | Some x => run_rewriter fx root rest ((d, OVals (op_results x)) :: regs) pl
          | None => RErr
          end
      | RGetValueType d s =>
          match rrlookup regs s with
          | Some (OVal v) => run_rewriter fx root rest ((d, OType (vtype pl v)) :: regs) pl
          | Some (OVals l) => if fx_range fx then run_rewriter fx root rest ((d, OTypes (map (vtype pl) l)) :: regs) pl
                              else RErr               (* assert isinstance(args[0], SSAValue) *)
          | _ => RErr
          end
      | RReplace o items =>
          match rr_op pl regs o, repl_values regs items with
          | Some x, Some news =>
              match replace_op pl (o_id x) news with
              | Some pl' => run_rewriter fx root rest regs pl'
              | None => RErr
              end
          | _, _ => RErr
          end
      | RErase o =>
          if fx_erase fx then
            match rr_op pl regs o with
            | Some x => match erase_op pl (o_id x) with
                        | Some pl' => run_rewriter fx root rest regs pl'
                        | None => RErr
                        end
            | None => RErr
            end
          else RErr                                   (* no interpretation function for pdl_interp.erase *)
      | RFinalize => ROk pl
      end
  end.

(* PDLInterpRewritePattern.match_and_rewrite at the operation with id pid *)
Definition interp_apply (fx : fixes) (c : compiled) (pl : payload) (pid : Z) : rres :=
  match find_op pl pid with
  | None => RErr
  | Some x =>
      match interp_match fx c pl x with
      | INoMatch => RNoMatch
      | IErr => RErr
      | IMatch args =>
          if zlen args =? c_nargs c then run_rewriter fx pid (c_rewriter c) (bind_args 0 args) pl
          else RErr
      end
  end.
