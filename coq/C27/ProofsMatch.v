(* C27/ProofsMatch.v -- the direct matcher (PDLMatcher.match_operation ...) succeeds exactly when every predicate
   the conversion extracts holds under the position semantics, and then binds every pattern value to the
   denotation of the position the conversion recorded for it. *)
From Coq Require Import ZArith List Bool Lia.
From XV Require Import C27.Model C27.ProofsChain.
Import ListNotations.
Local Open Scope Z_scope.

(* ------------------------------------------------------------------ induction principle for pattern trees *)
Section PatInd.
Variable Po : op_pat -> Prop.
Variable Px : operand_pat -> Prop.
Hypothesis Hop : forall id name attrs operands rtys, Forall Px operands -> Po (Op id name attrs operands rtys).
Hypothesis Hfree : forall v, Px (OFree v).
Hypothesis Hres : forall rid idx o, Po o -> Px (ORes rid idx o).
Hypothesis Hreuse : forall rid, Px (OReuse rid).
Fixpoint op_pat_ind2 (o : op_pat) : Po o :=
  match o with
  | Op id name attrs operands rtys =>
      Hop id name attrs operands rtys
        ((fix go (l : list operand_pat) : Forall Px l :=
            match l with
            | [] => Forall_nil Px
            | x :: r => Forall_cons x (operand_pat_ind2 x) (go r)
            end) operands)
  end
with operand_pat_ind2 (x : operand_pat) : Px x :=
  match x with
  | OFree v => Hfree v
  | ORes rid idx o => Hres rid idx o (op_pat_ind2 o)
  | OReuse rid => Hreuse rid
  end.
End PatInd.

(* ------------------------------------------------------------------ the static class of patterns of the theorem *)
Fixpoint kmem (k : key) (l : list key) : bool :=
  match l with [] => false | k' :: r => key_eqb k' k || kmem k r end.
Section LinLoop.
Variable f : operand_pat -> list key -> option (list key).
Fixpoint lin_with (ops : list operand_pat) (seen : list key) : option (list key) :=
  match ops with
  | [] => Some seen
  | x :: r => match f x seen with Some s => lin_with r s | None => None end
  end.
End LinLoop.
(* every pdl.operation and every pdl.result value occurs once in the tree; no re-used pdl.result value *)
Fixpoint lin_op (o : op_pat) (seen : list key) : option (list key) :=
  match o with
  | Op id _ _ operands _ =>
      if kmem (KOp id) seen then None else lin_with (fun x s => lin_operand x s) operands (KOp id :: seen)
  end
with lin_operand (x : operand_pat) (seen : list key) : option (list key) :=
  match x with
  | OFree _ => Some seen
  | ORes rid _ o => if kmem (KResult rid) seen then None else lin_op o (KResult rid :: seen)
  | OReuse _ => None
  end.
(* every pdl.result index lies within the declared result types of its operation;
   with sr = true additionally: every operation reached through a pdl.result declares exactly one result *)
Fixpoint idx_op (sr : bool) (o : op_pat) : Prop :=
  match o with
  | Op _ _ _ operands _ => fold_right (fun x acc => idx_operand sr x /\ acc) True operands
  end
with idx_operand (sr : bool) (x : operand_pat) : Prop :=
  match x with
  | OFree _ => True
  | ORes _ idx o => 0 <= idx < zlen (op_rtys o) /\ (sr = true -> zlen (op_rtys o) = 1) /\ idx_op sr o
  | OReuse _ => True
  end.

Definition wf_val (pl : payload) (v : val) : Prop :=
  match v with
  | VRes pid k => forall y, find_op pl pid = Some y -> 0 <= k < zlen (o_rtys y)
  | VArg _ => True
  end.
(* operands that are operation results refer to existing results (SSA well-formedness of the payload) *)
Definition payload_wf (pl : payload) : Prop :=
  forall pid x, find_op pl pid = Some x -> Forall (wf_val pl) (o_operands x).

(* ------------------------------------------------------------------ small facts *)
Lemma key_eqb_eq : forall a b, key_eqb a b = true <-> a = b.
Proof.
  destruct a, b; simpl; try (split; [discriminate | intro H; discriminate H]);
    rewrite Z.eqb_eq; split; [intros ->; reflexivity | intro H; inversion H; reflexivity | intros ->; reflexivity | intro H; inversion H; reflexivity
                              | intros ->; reflexivity | intro H; inversion H; reflexivity | intros ->; reflexivity | intro H; inversion H; reflexivity
                              | intros ->; reflexivity | intro H; inversion H; reflexivity | intros ->; reflexivity | intro H; inversion H; reflexivity].
Qed.
Lemma key_eqb_refl : forall a, key_eqb a a = true.
Proof. intro a. apply key_eqb_eq. reflexivity. Qed.
Lemma klookup_cons_eq : forall A (l : list (key * A)) k v, klookup ((k, v) :: l) k = Some v.
Proof. intros. simpl. rewrite key_eqb_refl. reflexivity. Qed.
Lemma klookup_cons_neq : forall A (l : list (key * A)) k k' v, k <> k' -> klookup ((k, v) :: l) k' = klookup l k'.
Proof.
  intros A l k k' v H. simpl. destruct (key_eqb k k') eqn:E; [apply key_eqb_eq in E; contradiction | reflexivity].
Qed.
Lemma kmem_In : forall k l, kmem k l = true <-> In k l.
Proof.
  intros k l. induction l as [|x l IH]; simpl; [split; [discriminate | tauto] |].
  rewrite orb_true_iff, IH, key_eqb_eq. tauto.
Qed.

Lemma val_eqb_eq : forall a b, val_eqb a b = true <-> a = b.
Proof.
  destruct a, b; simpl; try (split; [discriminate | intro H; discriminate H]).
  - rewrite Z.eqb_eq. split; [intros ->; reflexivity | intro H; inversion H; reflexivity].
  - rewrite andb_true_iff, !Z.eqb_eq. split; [intros [-> ->]; reflexivity | intro H; inversion H; auto].
Qed.
Lemma list_eqb_eq : forall A (f : A -> A -> bool), (forall a b, f a b = true <-> a = b) ->
  forall l m, list_eqb f l m = true <-> l = m.
Proof.
  intros A f Hf. induction l as [|x l IH]; destruct m as [|y m]; simpl; try (split; [discriminate | intro H; discriminate H]); try tauto.
  rewrite andb_true_iff, Hf, IH. split; [intros [-> ->]; reflexivity | intro H; inversion H; auto].
Qed.
Lemma obj_eqb_eq : forall a b, obj_eqb a b = true <-> a = b.
Proof.
  destruct a, b; simpl; try (split; [discriminate | intro H; discriminate H]); try tauto.
  - rewrite Z.eqb_eq. split; [intros ->; reflexivity | intro H; inversion H; reflexivity].
  - rewrite val_eqb_eq. split; [intros ->; reflexivity | intro H; inversion H; reflexivity].
  - rewrite Z.eqb_eq. split; [intros ->; reflexivity | intro H; inversion H; reflexivity].
  - rewrite Z.eqb_eq. split; [intros ->; reflexivity | intro H; inversion H; reflexivity].
  - rewrite (list_eqb_eq _ _ val_eqb_eq). split; [intros ->; reflexivity | intro H; inversion H; reflexivity].
  - rewrite (list_eqb_eq _ _ Z.eqb_eq). split; [intros ->; reflexivity | intro H; inversion H; reflexivity].
Qed.
Lemma obj_eqb_sym : forall a b, obj_eqb a b = obj_eqb b a.
Proof.
  intros a b. destruct (obj_eqb a b) eqn:E1, (obj_eqb b a) eqn:E2; try reflexivity.
  - apply obj_eqb_eq in E1. subst. rewrite (proj2 (obj_eqb_eq b b) eq_refl) in E2. discriminate.
  - apply obj_eqb_eq in E2. subst. rewrite (proj2 (obj_eqb_eq a a) eq_refl) in E1. discriminate.
Qed.

Lemma find_op_in_id : forall l pid x, find_op_in l pid = Some x -> o_id x = pid.
Proof.
  induction l as [|y l IH]; intros pid x H; simpl in H; [discriminate |].
  destruct (o_id y =? pid) eqn:E; [inversion H; subst; apply Z.eqb_eq; exact E | eauto].
Qed.
Lemma find_op_id : forall pl pid x, find_op pl pid = Some x -> o_id x = pid.
Proof. intros pl pid x. apply find_op_in_id. Qed.

Lemma znth_nil : forall A (i : Z), @znth A [] i = None.
Proof. intros A i. unfold znth. destruct (i <? 0); [reflexivity |]. destruct (Z.to_nat i); reflexivity. Qed.
Lemma znth_cons_0 : forall A (x : A) l, znth (x :: l) 0 = Some x.
Proof. reflexivity. Qed.
Lemma znth_cons_S : forall A (x : A) l i, 0 <= i -> znth (x :: l) (i + 1) = znth l i.
Proof.
  intros A x l i Hi. unfold znth. destruct (i + 1 <? 0) eqn:E1; [apply Z.ltb_lt in E1; lia |].
  destruct (i <? 0) eqn:E2; [apply Z.ltb_lt in E2; lia |].
  replace (Z.to_nat (i + 1)) with (S (Z.to_nat i)) by lia. reflexivity.
Qed.
Lemma zlen_cons : forall A (x : A) l, zlen (x :: l) = zlen l + 1.
Proof. intros. unfold zlen. simpl length. lia. Qed.
Lemma zlen_nonneg : forall A (l : list A), 0 <= zlen l.
Proof. intros. unfold zlen. lia. Qed.
Lemma znth_in_range : forall A (l : list A) i, 0 <= i < zlen l -> exists x, znth l i = Some x.
Proof.
  intros A l i [H1 H2]. unfold znth, zlen in *. destruct (i <? 0) eqn:E; [apply Z.ltb_lt in E; lia |].
  destruct (nth_error l (Z.to_nat i)) eqn:E2; [eauto |]. apply nth_error_None in E2. lia.
Qed.

(* ================================================================== the simulation *)
Section Match.
Variable fx : fixes.
Variable P : pattern.
Variable pl : payload.
Variable root : Z.

Notation ev := (eval_pos fx pl root).
Definition holds (pr : pred) : Prop := eval_pred fx pl root pr = Some true.

Hypothesis Hfalsy : fx_falsy fx = true \/ (forall a c, p_aconst P a = Some c -> truthy c = true).
Hypothesis Hattr : fx_attrorder fx = true \/
                   (forall pid x n, find_op pl pid = Some x -> get_attr_or_prop x n = get_attr_then_prop x n).

Definition structk (k : key) : Prop := match k with KOp _ | KResult _ => True | _ => False end.

(* env of the direct matcher vs `inputs` of the conversion *)
Record R (e : env) (inp : inputs) (seen : list key) : Prop := {
  R_dom : forall k, ~ structk k -> (klookup e k = None <-> klookup inp k = None);
  R_sub : forall k, klookup e k <> None -> klookup inp k <> None;
  R_seen : forall k, structk k -> klookup inp k <> None -> In k seen;
  R_val : forall k v p, klookup e k = Some v -> klookup inp k = Some p -> ev p = Some v;
  R_nn : forall k v, klookup e k = Some v -> v <> ONull;
  R_ev : forall k p, klookup inp k = Some p -> ev p <> None
}.

Definition agree (r : mres) (preds : list pred) (inp' : inputs) (seen' : list key) : Prop :=
  match r with
  | MOk e' => Forall holds preds /\ R e' inp' seen'
  | MFail => ~ Forall holds preds
  | MErr => False
  end.

Lemma R_bind : forall e inp seen k v p,
  R e inp seen -> ~ structk k -> klookup e k = None -> ev p = Some v -> v <> ONull ->
  R ((k, v) :: e) ((k, p) :: inp) seen.
Proof.
  intros e inp seen k v p HR Hk He Hp Hv. destruct HR as [Hd Hs Hn Hval Hnn Hev]. constructor.
  - intros k' Hk'. simpl. destruct (key_eqb k k'); [split; discriminate | apply Hd; exact Hk'].
  - intros k'. simpl. destruct (key_eqb k k'); [discriminate | apply Hs].
  - intros k' Hk' H. simpl in H. destruct (key_eqb k k') eqn:E; [apply key_eqb_eq in E; subst; contradiction | eauto].
  - intros k' v' p' H1 H2. simpl in H1, H2. destruct (key_eqb k k'); [inversion H1; inversion H2; subst; exact Hp | eauto].
  - intros k' v' H1. simpl in H1. destruct (key_eqb k k'); [inversion H1; subst; exact Hv | eauto].
  - intros k' p' H1. simpl in H1. destruct (key_eqb k k'); [inversion H1; subst; congruence | eauto].
Qed.

Lemma eval_eq_pred : forall ex p b x,
  ev ex = Some b -> ev p = Some x -> eval_pred fx pl root (eq_pred ex p) = Some (obj_eqb b x).
Proof.
  intros ex p b x H1 H2. unfold eq_pred. destruct (depth ex <? depth p); unfold eval_pred; simpl.
  - rewrite H2. simpl. rewrite H1. rewrite obj_eqb_sym. reflexivity.
  - rewrite H1. simpl. rewrite H2. reflexivity.
Qed.

(* a value that is already bound: direct compares, the conversion emits an equality predicate *)
Lemma bound_case : forall e inp seen k b p x,
  R e inp seen -> klookup e k = Some b -> ev p = Some x ->
  exists ex, klookup inp k = Some ex /\
             agree (if obj_eqb b x then MOk e else MFail) [eq_pred ex p] inp seen.
Proof.
  intros e inp seen k b p x HR Hb Hp.
  destruct (klookup inp k) as [ex|] eqn:Ei.
  2:{ exfalso. eapply (R_sub _ _ _ HR k); [rewrite Hb; discriminate | exact Ei]. }
  exists ex. split; [reflexivity |].
  pose proof (R_val _ _ _ HR _ _ _ Hb Ei) as Hex.
  pose proof (eval_eq_pred _ _ _ _ Hex Hp) as Heq.
  destruct (obj_eqb b x) eqn:E; simpl.
  - split; [constructor; [exact Heq | constructor] | exact HR].
  - intro H. inversion H; subst. unfold holds in H2. rewrite Heq in H2. discriminate.
Qed.

Lemma Forall_holds_app : forall a b, Forall holds (a ++ b) <-> Forall holds a /\ Forall holds b.
Proof. intros. apply Forall_app. Qed.

(* ---- pdl.type *)
Lemma type_ok : forall e inp seen t xty p,
  R e inp seen -> ev p = Some (OType xty) ->
  agree (match_type P e t xty) (fst (extract_type P inp t p)) (snd (extract_type P inp t p)) seen.
Proof.
  intros e inp seen t xty p HR Hp. unfold match_type, bound_or, extract_type.
  destruct (klookup e (KType t)) as [b|] eqn:Eb.
  - destruct (bound_case _ _ _ _ _ _ _ HR Eb Hp) as (ex & Hex & Hag). rewrite Hex. exact Hag.
  - assert (Hi : klookup inp (KType t) = None) by (apply (R_dom _ _ _ HR); [intros [] | exact Eb]).
    rewrite Hi. simpl.
    destruct (p_tconst P t) as [c|] eqn:Ec.
    + destruct (c =? xty) eqn:E; simpl.
      * split; [| apply R_bind; [exact HR | intros [] | exact Eb | exact Hp | discriminate]].
        constructor; [| constructor]. unfold holds, eval_pred. simpl. rewrite Hp. simpl.
        apply Z.eqb_eq in E. subst. rewrite Z.eqb_refl. reflexivity.
      * intro H. inversion H; subst. unfold holds, eval_pred in H2. simpl in H2. rewrite Hp in H2. simpl in H2.
        rewrite Z.eqb_sym in H2. congruence.
    + simpl. split; [constructor | apply R_bind; [exact HR | intros [] | exact Eb | exact Hp | discriminate]].
Qed.

(* ---- one attribute constraint of an operation *)
Lemma attr_ok : forall e inp seen q x n a,
  R e inp seen -> ev q = Some (OOp (o_id x)) -> find_op pl (o_id x) = Some x ->
  agree (match get_attr_or_prop x n with
         | None => MFail
         | Some xa => match_attribute P e a xa
         end)
        (fst (extract_attr fx P inp a (PAttr q n))) (snd (extract_attr fx P inp a (PAttr q n))) seen.
Proof.
  intros e inp seen q x n a HR Hq Hx.
  assert (Hp : ev (PAttr q n) = Some (match get_attr_or_prop x n with Some a => OAttr a | None => ONull end)).
  { cbn [eval_pos]. rewrite Hq. simpl as_op. rewrite Hx.
    destruct Hattr as [-> | H]; [reflexivity |]. rewrite <- (H _ _ n Hx). destruct (fx_attrorder fx); reflexivity. }
  unfold extract_attr, match_attribute, bound_or.
  destruct (klookup e (KAttr a)) as [b|] eqn:Eb.
  - destruct (bound_case _ _ _ _ _ _ _ HR Eb Hp) as (ex & Hex & Hag). rewrite Hex.
    destruct (get_attr_or_prop x n) as [xa|]; [exact Hag |].
    simpl fst. simpl snd.
    assert (Hb : obj_eqb b ONull = false).
    { destruct (obj_eqb b ONull) eqn:E; [| reflexivity]. apply obj_eqb_eq in E. exfalso. eapply (R_nn _ _ _ HR); eauto. }
    rewrite Hb in Hag. exact Hag.
  - assert (Hi : klookup inp (KAttr a) = None) by (apply (R_dom _ _ _ HR); [intros [] | exact Eb]).
    rewrite Hi. cbn [fst snd].
    destruct (get_attr_or_prop x n) as [xa|] eqn:Ea.
    + assert (Hnn : holds (PAttr q n, QNotNull)).
      { unfold holds, eval_pred. simpl fst. rewrite Hp. reflexivity. }
      destruct (p_aconst P a) as [c|] eqn:Ec.
      * assert (Ht : truthy c || fx_falsy fx = true).
        { destruct Hfalsy as [-> | H]; [apply orb_true_r | rewrite (H _ _ Ec); reflexivity]. }
        rewrite Ht.
        destruct (c =? xa) eqn:E; simpl.
        -- split; [| apply R_bind; [exact HR | intros [] | exact Eb | exact Hp | discriminate]].
           constructor; [exact Hnn | constructor; [| constructor]].
           unfold holds, eval_pred. simpl fst. rewrite Hp. simpl. rewrite Z.eqb_sym, E. reflexivity.
        -- intro H. inversion H as [| ? ? _ H3]; subst. inversion H3 as [| ? ? H4 _]; subst.
           unfold holds, eval_pred in H4. simpl fst in H4. rewrite Hp in H4. simpl in H4. rewrite Z.eqb_sym in H4. congruence.
      * simpl. split; [constructor; [exact Hnn | constructor] | apply R_bind; [exact HR | intros [] | exact Eb | exact Hp | discriminate]].
    + simpl. intro H. inversion H as [| ? ? H2 _]; subst.
      unfold holds, eval_pred in H2. simpl fst in H2. rewrite Hp in H2. simpl in H2. discriminate.
Qed.

Lemma agree_cons_fail : forall preds1 preds2 inp seen, ~ Forall holds preds1 -> agree MFail (preds1 ++ preds2) inp seen.
Proof. intros preds1 preds2 inp seen H H2. apply Forall_holds_app in H2. tauto. Qed.

(* ---- the attribute loop *)
Lemma attrs_ok : forall attrs e inp seen q x,
  R e inp seen -> ev q = Some (OOp (o_id x)) -> find_op pl (o_id x) = Some x ->
  agree (match_attrs P x e attrs) (fst (extract_attrs fx P inp q attrs)) (snd (extract_attrs fx P inp q attrs)) seen.
Proof.
  induction attrs as [|[n a] attrs IH]; intros e inp seen q x HR Hq Hx.
  - simpl. split; [constructor | exact HR].
  - cbn [match_attrs extract_attrs].
    pose proof (attr_ok e inp seen q x n a HR Hq Hx) as H1.
    destruct (extract_attr fx P inp a (PAttr q n)) as [ps inp1] eqn:E1. cbn [fst snd] in H1.
    destruct (get_attr_or_prop x n) as [xa|].
    + destruct (match_attribute P e a xa) as [| |e1] eqn:E2.
      * destruct (extract_attrs fx P inp1 q attrs) as [qs inp2]. cbn [fst snd]. apply agree_cons_fail. exact H1.
      * destruct H1.
      * destruct H1 as [Hps HR1]. specialize (IH e1 inp1 seen q x HR1 Hq Hx).
        destruct (extract_attrs fx P inp1 q attrs) as [qs inp2]. cbn [fst snd] in *.
        destruct (match_attrs P x e1 attrs) as [| |e2]; simpl in *.
        -- intro H. apply Forall_holds_app in H. tauto.
        -- exact IH.
        -- destruct IH as [Hqs HR2]. split; [apply Forall_holds_app; tauto | exact HR2].
    + destruct (extract_attrs fx P inp1 q attrs) as [qs inp2]. cbn [fst snd]. apply agree_cons_fail. exact H1.
Qed.

Lemma znth_some_range : forall A (l : list A) i y, znth l i = Some y -> 0 <= i < zlen l.
Proof.
  intros A l i y H. unfold znth, zlen in *. destruct (i <? 0) eqn:E; [discriminate |].
  apply Z.ltb_ge in E. assert (H2 : nth_error l (Z.to_nat i) <> None) by congruence.
  apply nth_error_Some in H2. lia.
Qed.

Lemma ev_result : forall q x i y,
  ev q = Some (OOp (o_id x)) -> find_op pl (o_id x) = Some x -> znth (o_rtys x) i = Some y ->
  ev (PResult q i) = Some (OVal (VRes (o_id x) i)) /\ ev (PType (PResult q i)) = Some (OType y).
Proof.
  intros q x i y Hq Hx Hy. pose proof (znth_some_range _ _ _ _ Hy) as [H1 H2].
  assert (E : ev (PResult q i) = Some (OVal (VRes (o_id x) i))).
  { cbn [eval_pos]. rewrite Hq. simpl as_op. rewrite Hx.
    replace (0 <=? i) with true by (symmetry; apply Z.leb_le; lia).
    replace (i <? zlen (o_rtys x)) with true by (symmetry; apply Z.ltb_lt; lia). reflexivity. }
  split; [exact E |]. cbn [eval_pos] in *. rewrite E. simpl vtype. rewrite Hx, Hy. reflexivity.
Qed.

(* ---- the result-type loop *)
Lemma rtys_ok : forall ts xs e inp seen q x i,
  R e inp seen -> ev q = Some (OOp (o_id x)) -> find_op pl (o_id x) = Some x -> 0 <= i ->
  (forall j, 0 <= j -> znth xs j = znth (o_rtys x) (i + j)) -> length ts = length xs ->
  agree (match_types P e ts xs) (fst (extract_rtys P inp q i ts)) (snd (extract_rtys P inp q i ts)) seen.
Proof.
  induction ts as [|t ts IH]; intros xs e inp seen q x i HR Hq Hx Hi Hxs Hlen.
  - destruct xs; simpl; (split; [constructor | exact HR]).
  - destruct xs as [|y xs]; [discriminate |]. cbn [match_types extract_rtys].
    assert (Hy : znth (o_rtys x) i = Some y).
    { rewrite <- (Z.add_0_r i), <- Hxs by lia. reflexivity. }
    destruct (ev_result _ _ _ _ Hq Hx Hy) as [Er Et].
    pose proof (type_ok e inp seen t y _ HR Et) as H1.
    destruct (extract_type P inp t (PType (PResult q i))) as [ps inp1]. cbn [fst snd] in H1.
    assert (Hnn : holds (PResult q i, QNotNull)).
    { unfold holds, eval_pred. simpl fst. rewrite Er. reflexivity. }
    destruct (match_type P e t y) as [| |e1].
    + destruct (extract_rtys P inp1 q (i + 1) ts) as [qs inp2]. cbn [fst snd]. simpl. simpl in H1.
      intro H. inversion H as [| ? ? _ H3]; subst. apply Forall_holds_app in H3. tauto.
    + destruct H1.
    + destruct H1 as [Hps HR1].
      assert (Hxs' : forall j, 0 <= j -> znth xs j = znth (o_rtys x) (i + 1 + j)).
      { intros j Hj. rewrite <- (znth_cons_S _ y xs j Hj), Hxs by lia. f_equal. lia. }
      specialize (IH xs e1 inp1 seen q x (i + 1) HR1 Hq Hx ltac:(lia) Hxs' ltac:(simpl in Hlen; lia)).
      destruct (extract_rtys P inp1 q (i + 1) ts) as [qs inp2]. cbn [fst snd] in *.
      destruct (match_types P e1 ts xs) as [| |e2]; simpl in *.
      * intro H. inversion H as [| ? ? _ H3]; subst. apply Forall_holds_app in H3. tauto.
      * exact IH.
      * destruct IH as [Hqs HR2]. split; [constructor; [exact Hnn | apply Forall_holds_app; tauto] | exact HR2].
Qed.

Lemma R_ext : forall e inp inp' seen, (forall k, klookup inp' k = klookup inp k) -> R e inp seen -> R e inp' seen.
Proof.
  intros e inp inp' seen H [Hd Hs Hn Hv Hnn Hev]. constructor; intros.
  - rewrite H. apply Hd. assumption.
  - rewrite H. apply Hs. assumption.
  - rewrite H in *. eapply Hn; eassumption.
  - rewrite H in *. eapply Hv; eassumption.
  - eapply Hnn; eassumption.
  - rewrite H in *. eapply Hev; eassumption.
Qed.
Lemma klookup_swap : forall A (l : list (key * A)) k1 v1 k2 v2 k, k1 <> k2 ->
  klookup ((k1, v1) :: (k2, v2) :: l) k = klookup ((k2, v2) :: (k1, v1) :: l) k.
Proof.
  intros A l k1 v1 k2 v2 k H. simpl. destruct (key_eqb k1 k) eqn:E1, (key_eqb k2 k) eqn:E2; try reflexivity.
  apply key_eqb_eq in E1, E2. congruence.
Qed.

(* ---- a pdl.operand variable *)
Lemma free_ok : forall e inp seen ov v p,
  R e inp seen -> ev p = Some (OVal v) ->
  agree (match_free_operand P pl e ov v)
        (fst (extract_operand fx P inp (OFree ov) p)) (snd (extract_operand fx P inp (OFree ov) p)) seen.
Proof.
  intros e inp seen ov v p HR Hp. unfold match_free_operand, bound_or. cbn [extract_operand].
  destruct (klookup e (KOperand ov)) as [b|] eqn:Eb.
  - destruct (bound_case _ _ _ _ _ _ _ HR Eb Hp) as (ex & Hex & Hag). rewrite Hex. exact Hag.
  - assert (Hi : klookup inp (KOperand ov) = None) by (apply (R_dom _ _ _ HR); [intros [] | exact Eb]).
    rewrite Hi.
    assert (Hnn : holds (p, QNotNull)) by (unfold holds, eval_pred; simpl fst; rewrite Hp; reflexivity).
    destruct (p_otype P ov) as [t|].
    2:{ cbn [fst snd]. simpl. split; [constructor; [exact Hnn | constructor] |].
        apply R_bind; [exact HR | intros [] | exact Eb | exact Hp | discriminate]. }
    assert (Ht : ev (PType p) = Some (OType (vtype pl v))) by (cbn [eval_pos]; rewrite Hp; reflexivity).
    unfold extract_type, match_type, bound_or.
    rewrite (klookup_cons_neq _ inp (KOperand ov) (KType t) p) by discriminate.
    destruct (klookup e (KType t)) as [bt|] eqn:Ebt.
    + destruct (bound_case _ _ _ _ _ _ _ HR Ebt Ht) as (ex & Hex & Hag). rewrite Hex. cbn [fst snd].
      destruct (obj_eqb bt (OType (vtype pl v))); simpl in *.
      * destruct Hag as [Hps _]. split; [constructor; [exact Hnn | exact Hps] |].
        apply R_bind; [exact HR | intros [] | exact Eb | exact Hp | discriminate].
      * intro H. inversion H; subst. tauto.
    + assert (Hit : klookup inp (KType t) = None) by (apply (R_dom _ _ _ HR); [intros [] | exact Ebt]).
      rewrite Hit. cbn [fst snd].
      assert (HR2 : R ((KOperand ov, OVal v) :: (KType t, OType (vtype pl v)) :: e)
                      ((KType t, PType p) :: (KOperand ov, p) :: inp) seen).
      { eapply R_ext; [intro k; apply klookup_swap; discriminate |].
        apply R_bind; [| intros [] | rewrite klookup_cons_neq by discriminate; exact Eb | exact Hp | discriminate].
        apply R_bind; [exact HR | intros [] | exact Ebt | exact Ht | discriminate]. }
      destruct (p_tconst P t) as [c|].
      * destruct (c =? vtype pl v) eqn:E; simpl.
        -- split; [| exact HR2]. constructor; [exact Hnn | constructor; [| constructor]].
           unfold holds, eval_pred. simpl fst. rewrite Ht. simpl. rewrite Z.eqb_sym, E. reflexivity.
        -- intro H. inversion H as [| ? ? _ H3]; subst. inversion H3 as [| ? ? H4 _]; subst.
           unfold holds, eval_pred in H4. simpl fst in H4. rewrite Ht in H4. simpl in H4. rewrite Z.eqb_sym in H4. congruence.
      * simpl. split; [constructor; [exact Hnn | constructor] | exact HR2].
Qed.

(* ---- the conversion's `inputs` only grows: a recorded position is never replaced *)
Definition mono (inp inp' : inputs) : Prop := forall k p0, klookup inp k = Some p0 -> klookup inp' k = Some p0.
Lemma mono_refl : forall inp, mono inp inp.
Proof. intros inp k p0 H. exact H. Qed.
Lemma mono_trans : forall a b c, mono a b -> mono b c -> mono a c.
Proof. intros a b c H1 H2 k p0 H. apply H2, H1, H. Qed.
Lemma mono_cons : forall inp k p, klookup inp k = None -> mono inp ((k, p) :: inp).
Proof.
  intros inp k p Hn k' p0 H. simpl. destruct (key_eqb k k') eqn:E; [apply key_eqb_eq in E; subst; congruence | exact H].
Qed.
Lemma extract_type_mono : forall inp t p, mono inp (snd (extract_type P inp t p)).
Proof.
  intros inp t p. unfold extract_type. destruct (klookup inp (KType t)) eqn:E; simpl; [apply mono_refl | apply mono_cons; exact E].
Qed.
Lemma extract_attr_mono : forall inp a p, mono inp (snd (extract_attr fx P inp a p)).
Proof.
  intros inp a p. unfold extract_attr. destruct (klookup inp (KAttr a)) eqn:E; simpl; [apply mono_refl | apply mono_cons; exact E].
Qed.
Lemma extract_attrs_mono : forall attrs inp q, mono inp (snd (extract_attrs fx P inp q attrs)).
Proof.
  induction attrs as [|[n a] attrs IH]; intros inp q; simpl; [apply mono_refl |].
  pose proof (extract_attr_mono inp a (PAttr q n)) as H1.
  destruct (extract_attr fx P inp a (PAttr q n)) as [ps inp1]. specialize (IH inp1 q).
  destruct (extract_attrs fx P inp1 q attrs) as [qs inp2]. simpl in *. eapply mono_trans; eassumption.
Qed.
Lemma extract_rtys_mono : forall ts inp q i, mono inp (snd (extract_rtys P inp q i ts)).
Proof.
  induction ts as [|t ts IH]; intros inp q i; simpl; [apply mono_refl |].
  pose proof (extract_type_mono inp t (PType (PResult q i))) as H1.
  destruct (extract_type P inp t (PType (PResult q i))) as [ps inp1]. specialize (IH inp1 q (i + 1)).
  destruct (extract_rtys P inp1 q (i + 1) ts) as [qs inp2]. simpl in *. eapply mono_trans; eassumption.
Qed.
Lemma extract_operands_mono : forall ops,
  Forall (fun x => forall inp p, mono inp (snd (extract_operand fx P inp x p))) ops ->
  forall inp q i, mono inp (snd (extract_operands_with (fun inp x q => extract_operand fx P inp x q) inp q i ops)).
Proof.
  induction ops as [|x ops IH]; intros HF inp q i; simpl; [apply mono_refl |].
  inversion HF as [| ? ? Hx HF']; subst. pose proof (Hx inp (POperand q i)) as H1.
  destruct (extract_operand fx P inp x (POperand q i)) as [ps inp1]. specialize (IH HF' inp1 q (i + 1)).
  destruct (extract_operands_with _ inp1 q (i + 1) ops) as [qs inp2]. simpl in *. eapply mono_trans; eassumption.
Qed.
Lemma extract_mono :
  (forall o inp q, mono inp (snd (extract_op fx P inp o q))) /\
  (forall x inp p, mono inp (snd (extract_operand fx P inp x p))).
Proof.
  assert (H : forall o, (fun o => forall inp q, mono inp (snd (extract_op fx P inp o q))) o).
  { apply (op_pat_ind2 (fun o => forall inp q, mono inp (snd (extract_op fx P inp o q)))
                       (fun x => forall inp p, mono inp (snd (extract_operand fx P inp x p)))).
    - intros id name attrs operands rtys HF inp q. cbn [extract_op].
      destruct (klookup inp (KOp id)) eqn:E; [simpl; apply mono_refl |].
      pose proof (extract_attrs_mono attrs ((KOp id, q) :: inp) q) as H1.
      destruct (extract_attrs fx P ((KOp id, q) :: inp) q attrs) as [pa inp1].
      pose proof (extract_operands_mono operands HF inp1 q 0) as H2.
      destruct (extract_operands_with _ inp1 q 0 operands) as [po inp2].
      pose proof (extract_rtys_mono rtys inp2 q 0) as H3.
      destruct (extract_rtys P inp2 q 0 rtys) as [pr inp3]. simpl in *.
      eapply mono_trans; [apply mono_cons; exact E |]. eapply mono_trans; [exact H1 |]. eapply mono_trans; eassumption.
    - intros v inp p. cbn [extract_operand]. destruct (klookup inp (KOperand v)) eqn:E; [simpl; apply mono_refl |].
      destruct (p_otype P v) as [t|]; [| simpl; apply mono_cons; exact E].
      pose proof (extract_type_mono ((KOperand v, p) :: inp) t (PType p)) as H1.
      destruct (extract_type P ((KOperand v, p) :: inp) t (PType p)) as [ps inp1]. simpl in *.
      eapply mono_trans; [apply mono_cons; exact E | exact H1].
    - intros rid idx o IH inp p. cbn [extract_operand]. destruct (klookup inp (KResult rid)) eqn:E; [simpl; apply mono_refl |].
      specialize (IH ((KResult rid, p) :: inp) (PDefOp p)).
      destruct (extract_op fx P ((KResult rid, p) :: inp) o (PDefOp p)) as [ps inp1]. simpl in *.
      eapply mono_trans; [apply mono_cons; exact E | exact IH].
    - intros rid inp p. cbn [extract_operand]. destruct (klookup inp (KResult rid)); simpl; apply mono_refl. }
  split; [exact H |].
  apply (operand_pat_ind2 (fun o => forall inp q, mono inp (snd (extract_op fx P inp o q)))
                          (fun x => forall inp p, mono inp (snd (extract_operand fx P inp x p)))).
  - intros id name attrs operands rtys _. apply H.
  - intros v inp p. cbn [extract_operand]. destruct (klookup inp (KOperand v)) eqn:E; [simpl; apply mono_refl |].
    destruct (p_otype P v) as [t|]; [| simpl; apply mono_cons; exact E].
    pose proof (extract_type_mono ((KOperand v, p) :: inp) t (PType p)) as H1.
    destruct (extract_type P ((KOperand v, p) :: inp) t (PType p)) as [ps inp1]. simpl in *.
    eapply mono_trans; [apply mono_cons; exact E | exact H1].
  - intros rid idx o IH inp p. cbn [extract_operand]. destruct (klookup inp (KResult rid)) eqn:E; [simpl; apply mono_refl |].
    specialize (IH ((KResult rid, p) :: inp) (PDefOp p)).
    destruct (extract_op fx P ((KResult rid, p) :: inp) o (PDefOp p)) as [ps inp1]. simpl in *.
    eapply mono_trans; [apply mono_cons; exact E | exact IH].
  - intros rid inp p. cbn [extract_operand]. destruct (klookup inp (KResult rid)); simpl; apply mono_refl.
Qed.

(* ---- entering / leaving a pdl.operation or pdl.result: the conversion records it first, the matcher last *)
Lemma R_fresh : forall e inp seen k, R e inp seen -> structk k -> ~ In k seen -> klookup e k = None /\ klookup inp k = None.
Proof.
  intros e inp seen k HR Hk Hn.
  assert (Hi : klookup inp k = None).
  { destruct (klookup inp k) eqn:E; [| reflexivity]. exfalso. apply Hn. eapply (R_seen _ _ _ HR); [exact Hk | congruence]. }
  split; [| exact Hi]. destruct (klookup e k) eqn:E; [| reflexivity]. exfalso.
  eapply (R_sub _ _ _ HR k); [congruence | exact Hi].
Qed.
Lemma R_pend : forall e inp seen k p, R e inp seen -> structk k -> ~ In k seen -> ev p <> None -> R e ((k, p) :: inp) (k :: seen).
Proof.
  intros e inp seen k p HR Hk Hn Hpe. destruct (R_fresh _ _ _ _ HR Hk Hn) as [He Hi].
  destruct HR as [Hd Hs Hse Hv Hnn Hev]. constructor.
  - intros k' Hk'. simpl. destruct (key_eqb k k') eqn:E; [apply key_eqb_eq in E; subst; contradiction | apply Hd; exact Hk'].
  - intros k' H. simpl. destruct (key_eqb k k'); [discriminate | apply Hs; exact H].
  - intros k' Hk' H. simpl in H. destruct (key_eqb k k') eqn:E; [apply key_eqb_eq in E; subst; left; reflexivity | right; eauto].
  - intros k' v' p' H1 H2. simpl in H2. destruct (key_eqb k k') eqn:E; [apply key_eqb_eq in E; subst; congruence | eauto].
  - exact Hnn.
  - intros k' p' H1. simpl in H1. destruct (key_eqb k k'); [inversion H1; subst; exact Hpe | eauto].
Qed.
Lemma R_close : forall e inp seen k v p,
  R e inp seen -> structk k -> klookup inp k = Some p -> ev p = Some v -> v <> ONull -> R ((k, v) :: e) inp seen.
Proof.
  intros e inp seen k v p [Hd Hs Hse Hv Hnn Hev] Hk Hi Hp Hvn. constructor.
  - intros k' Hk'. simpl. destruct (key_eqb k k') eqn:E; [apply key_eqb_eq in E; subst; contradiction | apply Hd; exact Hk'].
  - intros k' H. simpl in H. destruct (key_eqb k k') eqn:E; [apply key_eqb_eq in E; subst; congruence | apply Hs; exact H].
  - exact Hse.
  - intros k' v' p' H1 H2. simpl in H1. destruct (key_eqb k k') eqn:E; [apply key_eqb_eq in E; subst; inversion H1; subst; congruence | eauto].
  - intros k' v' H1. simpl in H1. destruct (key_eqb k k'); [inversion H1; subst; exact Hvn | eauto].
  - exact Hev.
Qed.

(* ---- the main simulation *)
Hypothesis Hresidx : fx_resindex fx = true \/ payload_wf pl.
Let sr := negb (fx_resindex fx).

Definition P_operand (x : operand_pat) : Prop :=
  forall e inp seen seen' p v,
    R e inp seen -> ev p = Some (OVal v) -> (fx_resindex fx = true \/ wf_val pl v) ->
    lin_operand x seen = Some seen' -> idx_operand sr x ->
    agree (match_operand fx P pl e x v)
          (fst (extract_operand fx P inp x p)) (snd (extract_operand fx P inp x p)) seen'.
Definition P_op (o : op_pat) : Prop :=
  forall e inp seen seen' q x,
    R e inp seen -> ev q = Some (OOp (o_id x)) -> find_op pl (o_id x) = Some x ->
    lin_op o seen = Some seen' -> idx_op sr o ->
    agree (match_op fx P pl e o x) (fst (extract_op fx P inp o q)) (snd (extract_op fx P inp o q)) seen'.

Lemma ev_operand : forall q x i v,
  ev q = Some (OOp (o_id x)) -> find_op pl (o_id x) = Some x -> znth (o_operands x) i = Some v ->
  ev (POperand q i) = Some (OVal v).
Proof. intros q x i v Hq Hx Hv. cbn [eval_pos]. rewrite Hq. simpl as_op. rewrite Hx, Hv. reflexivity. Qed.

Lemma operands_ok : forall ops, Forall P_operand ops ->
  forall vals e inp seen seen' q x i,
    R e inp seen -> ev q = Some (OOp (o_id x)) -> find_op pl (o_id x) = Some x -> 0 <= i ->
    (forall j, 0 <= j -> znth vals j = znth (o_operands x) (i + j)) -> length ops = length vals ->
    (fx_resindex fx = true \/ Forall (wf_val pl) vals) ->
    lin_with (fun x s => lin_operand x s) ops seen = Some seen' ->
    fold_right (fun x acc => idx_operand sr x /\ acc) True ops ->
    agree (match_operands_with (fun e op v => match_operand fx P pl e op v) e ops vals)
          (fst (extract_operands_with (fun inp x q => extract_operand fx P inp x q) inp q i ops))
          (snd (extract_operands_with (fun inp x q => extract_operand fx P inp x q) inp q i ops)) seen'.
Proof.
  induction ops as [|op ops IH]; intros HF vals e inp seen seen' q x i HR Hq Hx Hi Hvals Hlen Hwf Hlin Hidx.
  - simpl in Hlin. inversion Hlin; subst. destruct vals; simpl; (split; [constructor | exact HR]).
  - destruct vals as [|v vals]; [discriminate |]. inversion HF as [| ? ? Hop HF']; subst.
    cbn [match_operands_with extract_operands_with]. cbn [lin_with] in Hlin. cbn [fold_right] in Hidx.
    destruct Hidx as [Hidx1 Hidx2].
    destruct (lin_operand op seen) as [seen1|] eqn:El; [| discriminate].
    assert (Hv : znth (o_operands x) i = Some v) by (rewrite <- (Z.add_0_r i), <- Hvals by lia; reflexivity).
    assert (Hwf1 : fx_resindex fx = true \/ wf_val pl v).
    { destruct Hwf as [H|H]; [left; exact H | right; inversion H; assumption]. }
    pose proof (Hop e inp seen seen1 (POperand q i) v HR (ev_operand _ _ _ _ Hq Hx Hv) Hwf1 El Hidx1) as H1.
    destruct (extract_operand fx P inp op (POperand q i)) as [ps inp1]. cbn [fst snd] in H1.
    destruct (match_operand fx P pl e op v) as [| |e1].
    + destruct (extract_operands_with _ inp1 q (i + 1) ops) as [qs inp2]. cbn [fst snd]. apply agree_cons_fail. exact H1.
    + destruct H1.
    + destruct H1 as [Hps HR1].
      assert (Hvals' : forall j, 0 <= j -> znth vals j = znth (o_operands x) (i + 1 + j)).
      { intros j Hj. rewrite <- (znth_cons_S _ v vals j Hj), Hvals by lia. f_equal. lia. }
      assert (Hwf' : fx_resindex fx = true \/ Forall (wf_val pl) vals).
      { destruct Hwf as [H|H]; [left; exact H | right; inversion H; assumption]. }
      specialize (IH HF' vals e1 inp1 seen1 seen' q x (i + 1) HR1 Hq Hx ltac:(lia) Hvals' ltac:(simpl in Hlen; lia) Hwf' Hlin Hidx2).
      destruct (extract_operands_with _ inp1 q (i + 1) ops) as [qs inp2]. cbn [fst snd] in *.
      destruct (match_operands_with _ e1 ops vals) as [| |e2]; simpl in *.
      * intro H. apply Forall_holds_app in H. tauto.
      * exact IH.
      * destruct IH as [Hqs HR2]. split; [apply Forall_holds_app; tauto | exact HR2].
Qed.

Lemma holds_count : forall q x n, ev q = Some (OOp (o_id x)) -> find_op pl (o_id x) = Some x ->
  (eval_pred fx pl root (q, QOperandCount n) = Some (zlen (o_operands x) =? n)) /\
  (eval_pred fx pl root (q, QResultCount n) = Some (zlen (o_rtys x) =? n)) /\
  (eval_pred fx pl root (q, QNotNull) = Some true) /\
  (forall m, eval_pred fx pl root (q, QName m) = Some (o_name x =? m)).
Proof.
  intros q x n Hq Hx. unfold eval_pred. simpl fst. rewrite Hq. simpl. rewrite Hx. repeat split; reflexivity.
Qed.

Lemma not_all_cons : forall pr l, eval_pred fx pl root pr = Some false -> forall l0, In pr l0 -> ~ Forall holds (l0 ++ l).
Proof.
  intros pr l H l0 Hin HF. apply Forall_holds_app in HF. destruct HF as [HF _].
  rewrite Forall_forall in HF. specialize (HF _ Hin). unfold holds in HF. congruence.
Qed.

Lemma not_all_in : forall pr l inp seen, eval_pred fx pl root pr = Some false -> In pr l -> agree MFail l inp seen.
Proof.
  intros pr l inp seen H Hin HF. rewrite Forall_forall in HF. specialize (HF _ Hin). unfold holds in HF. congruence.
Qed.
Lemma not_all_sub : forall l1 l inp seen inp1 seen1, agree MFail l1 inp1 seen1 -> (forall y, In y l1 -> In y l) -> agree MFail l inp seen.
Proof.
  intros l1 l inp seen inp1 seen1 H Hsub HF. apply H. rewrite Forall_forall in *. intros y Hy. apply HF, Hsub, Hy.
Qed.

Ltac split_all :=
  repeat match goal with H : Forall holds (_ ++ _) |- _ => apply Forall_holds_app in H; destruct H end.

Lemma extract_operands_mono_all : forall ops inp q i,
  mono inp (snd (extract_operands_with (fun inp x q => extract_operand fx P inp x q) inp q i ops)).
Proof.
  intros ops. apply extract_operands_mono. apply Forall_forall. intros x _. apply (proj2 extract_mono).
Qed.

Lemma op_ok : forall id name attrs operands rtys, Forall P_operand operands -> P_op (Op id name attrs operands rtys).
Proof.
  intros id name attrs operands rtys HF e inp seen seen' q x HR Hq Hx Hlin Hidx.
  cbn [lin_op] in Hlin. destruct (kmem (KOp id) seen) eqn:Ek; [discriminate |].
  assert (Hn : ~ In (KOp id) seen) by (intro H; apply kmem_In in H; congruence).
  destruct (R_fresh _ _ _ (KOp id) HR I Hn) as [He Hi].
  cbn [match_op extract_op]. unfold bound_or. rewrite He, Hi.
  pose proof (R_pend _ _ _ (KOp id) q HR I Hn ltac:(congruence)) as HR0.
  destruct (holds_count q x (zlen operands) Hq Hx) as (Hoc & _ & Hnn & Hname).
  destruct (holds_count q x (zlen rtys) Hq Hx) as (_ & Hrc & _ & _).
  pose proof (attrs_ok attrs e ((KOp id, q) :: inp) (KOp id :: seen) q x HR0 Hq Hx) as Ha.
  pose proof (extract_attrs_mono attrs ((KOp id, q) :: inp) q) as Hm1.
  destruct (extract_attrs fx P ((KOp id, q) :: inp) q attrs) as [pa inp1]. cbn [fst snd] in Ha, Hm1.
  pose proof (extract_operands_mono_all operands inp1 q 0) as Hm2.
  assert (Hops : forall e1, R e1 inp1 (KOp id :: seen) -> length operands = length (o_operands x) ->
            agree (match_operands_with (fun e op v => match_operand fx P pl e op v) e1 operands (o_operands x))
                  (fst (extract_operands_with (fun inp x q => extract_operand fx P inp x q) inp1 q 0 operands))
                  (snd (extract_operands_with (fun inp x q => extract_operand fx P inp x q) inp1 q 0 operands)) seen').
  { intros e1 HR1 Hlen. eapply operands_ok; try eassumption; try lia.
    - intros j Hj. reflexivity.
    - destruct Hresidx as [H|H]; [left; exact H | right; eapply H; exact Hx]. }
  destruct (extract_operands_with (fun inp x q => extract_operand fx P inp x q) inp1 q 0 operands) as [po inp2].
  cbn [fst snd] in Hops, Hm2.
  pose proof (extract_rtys_mono rtys inp2 q 0) as Hm3.
  assert (Hrt : forall e2, R e2 inp2 seen' -> length rtys = length (o_rtys x) ->
            agree (match_types P e2 rtys (o_rtys x)) (fst (extract_rtys P inp2 q 0 rtys)) (snd (extract_rtys P inp2 q 0 rtys)) seen').
  { intros e2 HR2 Hlen. eapply rtys_ok; try eassumption; try lia. intros j Hj. reflexivity. }
  destruct (extract_rtys P inp2 q 0 rtys) as [pr inp3]. cbn [fst snd] in Hrt, Hm3. cbn [fst snd].
  assert (Hhd0 : Forall holds (match q with PRoot => [] | _ => [(q, QNotNull)] end)).
  { destruct q; constructor; try constructor; exact Hnn. }
  (* name *)
  destruct (match name with Some n => negb (o_name x =? n) | None => false end) eqn:En.
  { destruct name as [n|]; [| discriminate]. apply negb_true_iff in En.
    apply (not_all_in (q, QName n)); [rewrite Hname, En; reflexivity |].
    rewrite !in_app_iff. simpl. tauto. }
  assert (Hhd1 : Forall holds (match name with Some n => [(q, QName n)] | None => [] end)).
  { destruct name as [n|]; [| constructor]. apply negb_false_iff in En. constructor; [| constructor].
    unfold holds. rewrite Hname, En. reflexivity. }
  (* attributes *)
  destruct (match_attrs P x e attrs) as [| |e1].
  { eapply not_all_sub; [exact Ha |]. intros y Hy. rewrite !in_app_iff. tauto. }
  { destruct Ha. }
  destruct Ha as [Hpa HR1].
  (* operand count *)
  destruct (zlen operands =? zlen (o_operands x)) eqn:Eoc; cbn [negb].
  2:{ apply (not_all_in (q, QOperandCount (zlen operands))); [rewrite Hoc, Z.eqb_sym, Eoc; reflexivity |].
      rewrite !in_app_iff. simpl. tauto. }
  apply Z.eqb_eq in Eoc. assert (Hlen1 : length operands = length (o_operands x)) by (unfold zlen in Eoc; lia).
  specialize (Hops e1 HR1 Hlen1).
  destruct (match_operands_with (fun e op v => match_operand fx P pl e op v) e1 operands (o_operands x)) as [| |e2].
  { eapply not_all_sub; [exact Hops |]. intros y Hy. rewrite !in_app_iff. tauto. }
  { destruct Hops. }
  destruct Hops as [Hpo HR2].
  (* result count *)
  destruct (zlen rtys =? zlen (o_rtys x)) eqn:Erc; cbn [negb].
  2:{ apply (not_all_in (q, QResultCount (zlen rtys))); [rewrite Hrc, Z.eqb_sym, Erc; reflexivity |].
      rewrite !in_app_iff. simpl. tauto. }
  apply Z.eqb_eq in Erc. assert (Hlen2 : length rtys = length (o_rtys x)) by (unfold zlen in Erc; lia).
  specialize (Hrt e2 HR2 Hlen2).
  destruct (match_types P e2 rtys (o_rtys x)) as [| |e3].
  { eapply not_all_sub; [exact Hrt |]. intros y Hy. rewrite !in_app_iff. tauto. }
  { destruct Hrt. }
  destruct Hrt as [Hpr HR3]. split.
  - repeat (apply Forall_holds_app; split); try assumption.
    constructor; [unfold holds; rewrite Hoc, Eoc, Z.eqb_refl; reflexivity |].
    constructor; [unfold holds; rewrite Hrc, Erc, Z.eqb_refl; reflexivity | constructor].
  - eapply R_close; [exact HR3 | exact I | | exact Hq | discriminate].
    apply Hm3, Hm2, Hm1. apply klookup_cons_eq.
Qed.

Lemma extract_fresh_count : forall o inp q,
  klookup inp (KOp (op_id o)) = None ->
  In (q, QResultCount (zlen (op_rtys o))) (fst (extract_op fx P inp o q)).
Proof.
  intros [id name attrs operands rtys] inp q H. cbn [extract_op op_id op_rtys] in *. rewrite H.
  destruct (extract_attrs fx P ((KOp id, q) :: inp) q attrs) as [pa inp1].
  destruct (extract_operands_with _ inp1 q 0 operands) as [po inp2].
  destruct (extract_rtys P inp2 q 0 rtys) as [pr inp3]. cbn [fst].
  rewrite !in_app_iff. simpl. tauto.
Qed.

Lemma lin_op_fresh : forall o seen seen', lin_op o seen = Some seen' -> ~ In (KOp (op_id o)) seen.
Proof.
  intros [id name attrs operands rtys] seen seen' H. cbn [lin_op op_id] in *.
  destruct (kmem (KOp id) seen) eqn:E; [discriminate |]. intro Hin. apply kmem_In in Hin. congruence.
Qed.

Lemma res_ok : forall rid idx o, P_op o -> P_operand (ORes rid idx o).
Proof.
  intros rid idx o IH e inp seen seen' p v HR Hp Hwf Hlin Hidx.
  cbn [lin_operand] in Hlin. destruct (kmem (KResult rid) seen) eqn:Ek; [discriminate |].
  assert (Hn : ~ In (KResult rid) seen) by (intro H; apply kmem_In in H; congruence).
  destruct (R_fresh _ _ _ (KResult rid) HR I Hn) as [He Hi].
  cbn [idx_operand] in Hidx. destruct Hidx as (Hrange & Hsr & Hidxo).
  cbn [match_operand extract_operand]. unfold bound_or. rewrite He, Hi.
  pose proof (R_pend _ _ _ (KResult rid) p HR I Hn ltac:(congruence)) as HR0.
  assert (Hnn : holds (p, QNotNull)) by (unfold holds, eval_pred; simpl fst; rewrite Hp; reflexivity).
  pose proof (proj1 extract_mono o ((KResult rid, p) :: inp) (PDefOp p)) as Hm.
  assert (Hfresh : klookup ((KResult rid, p) :: inp) (KOp (op_id o)) = None).
  { apply (R_fresh _ _ _ (KOp (op_id o)) HR0 I). eapply lin_op_fresh. exact Hlin. }
  pose proof (extract_fresh_count o _ (PDefOp p) Hfresh) as Hcnt.
  destruct v as [a | pid k].
  { (* block argument: not an OpResult *)
    destruct (extract_op fx P ((KResult rid, p) :: inp) o (PDefOp p)) as [ps inp1]. cbn [fst snd].
    apply (not_all_in (PDefOp p, QNotNull)); [| simpl; tauto].
    unfold eval_pred. simpl fst. cbn [eval_pos]. rewrite Hp. reflexivity. }
  destruct (find_op pl pid) as [y|] eqn:Ey.
  2:{ destruct (extract_op fx P ((KResult rid, p) :: inp) o (PDefOp p)) as [ps inp1]. cbn [fst snd].
      apply (not_all_in (PDefOp p, QNotNull)); [| simpl; tauto].
      unfold eval_pred. simpl fst. cbn [eval_pos]. rewrite Hp, Ey. reflexivity. }
  pose proof (find_op_id _ _ _ Ey) as Hid.
  assert (Hd : ev (PDefOp p) = Some (OOp (o_id y))) by (cbn [eval_pos]; rewrite Hp, Ey, Hid; reflexivity).
  assert (Hy : find_op pl (o_id y) = Some y) by (rewrite Hid; exact Ey).
  specialize (IH e _ _ seen' (PDefOp p) y HR0 Hd Hy Hlin Hidxo).
  destruct (extract_op fx P ((KResult rid, p) :: inp) o (PDefOp p)) as [ps inp1]. cbn [fst snd] in *.
  destruct (match_op fx P pl e o y) as [| |e'].
  { eapply not_all_sub; [exact IH |]. intros z Hz. simpl. tauto. }
  { destruct IH. }
  destruct IH as [Hps HR1].
  assert (Hdn : holds (PDefOp p, QNotNull)) by (unfold holds, eval_pred; simpl fst; rewrite Hd; reflexivity).
  assert (Hpre : negb (zlen (op_rtys o) =? 0) && (zlen (op_rtys o) <=? idx) = false).
  { apply andb_false_iff. right. apply Z.leb_gt. lia. }
  rewrite Hpre.
  assert (Her : ev (PResult (PDefOp p) idx) =
                Some (if (0 <=? idx) && (idx <? zlen (o_rtys y)) then OVal (VRes (o_id y) idx) else ONull)).
  { cbn [eval_pos] in *. rewrite Hd. simpl as_op. rewrite Hy. reflexivity. }
  assert (Heq : eval_pred fx pl root (PResult (PDefOp p) idx, QEqual p) =
                Some (obj_eqb (if (0 <=? idx) && (idx <? zlen (o_rtys y)) then OVal (VRes (o_id y) idx) else ONull)
                              (OVal (VRes pid k)))).
  { unfold eval_pred. simpl fst. rewrite Her. simpl. rewrite Hp. reflexivity. }
  assert (Hinp1 : klookup inp1 (KResult rid) = Some p) by (apply Hm; apply klookup_cons_eq).
  (* in both versions: success iff the operand is result #idx of its owner *)
  assert (Hdone : (0 <=? idx) && (idx <? zlen (o_rtys y)) = true -> k = idx ->
            agree (MOk ((KResult rid, OVal (VRes (o_id y) idx)) :: e'))
                  ((p, QNotNull) :: (PDefOp p, QNotNull) :: (PResult (PDefOp p) idx, QEqual p) :: ps) inp1 seen').
  { intros Hin Hk. split.
    - constructor; [exact Hnn |]. constructor; [exact Hdn |]. constructor; [| exact Hps].
      unfold holds. rewrite Heq, Hin. simpl. rewrite Hid, Hk, !Z.eqb_refl. reflexivity.
    - eapply R_close; [exact HR1 | exact I | exact Hinp1 | | discriminate]. rewrite Hp, Hid, Hk. reflexivity. }
  destruct (fx_resindex fx) eqn:Efx.
  - destruct ((0 <=? idx) && (idx <? zlen (o_rtys y)) && (k =? idx)) eqn:Ec.
    + apply andb_true_iff in Ec. destruct Ec as [Ec1 Ec2]. apply Z.eqb_eq in Ec2. apply Hdone; assumption.
    + apply (not_all_in (PResult (PDefOp p) idx, QEqual p)); [| simpl; tauto].
      rewrite Heq. f_equal. apply andb_false_iff in Ec. destruct Ec as [Ec | Ec].
      * rewrite Ec. reflexivity.
      * destruct ((0 <=? idx) && (idx <? zlen (o_rtys y))); [| reflexivity]. simpl.
        rewrite (Z.eqb_sym idx k), Ec. apply andb_false_r.
  - (* as found: one declared result, well-formed payload *)
    assert (Hone : zlen (op_rtys o) = 1) by (apply Hsr; subst sr; try rewrite Efx; reflexivity).
    assert (Hcy : zlen (o_rtys y) = 1).
    { rewrite Forall_forall in Hps. specialize (Hps _ Hcnt). unfold holds in Hps.
      destruct (holds_count (PDefOp p) y (zlen (op_rtys o)) Hd Hy) as (_ & Hrc & _ & _).
      rewrite Hrc in Hps. inversion Hps as [Hc]. apply Z.eqb_eq in Hc. lia. }
    assert (Hk : 0 <= k < zlen (o_rtys y)).
    { destruct Hwf as [H | H]; [congruence |]. simpl in H. apply H. exact Ey. }
    assert (Hin : (0 <=? idx) && (idx <? zlen (o_rtys y)) = true).
    { apply andb_true_iff. split; [apply Z.leb_le | apply Z.ltb_lt]; lia. }
    rewrite Hin. apply Hdone; [exact Hin | lia].
Qed.

(* T2 for sub-patterns *)
Theorem sim_op : forall o, P_op o.
Proof.
  apply (op_pat_ind2 P_op P_operand).
  - exact op_ok.
  - intros v e inp seen seen' p x HR Hp _ Hlin _. cbn [lin_operand] in Hlin. inversion Hlin; subst.
    cbn [match_operand]. apply free_ok; assumption.
  - exact res_ok.
  - intros rid e inp seen seen' p x _ _ _ Hlin. discriminate Hlin.
Qed.

End Match.
