(* C27/Enc.v -- encoders of the C27 model's results into Base/Show.v `sx` (no proofs). *)
From Coq Require Import ZArith List Bool.
From XV Require Import Base.Show C27.Model.
Import ListNotations.
Local Open Scope Z_scope.

Definition sZ (z : Z) : sx := I z.

(* ---- conversion output: same instruction codes as harness/props/c27.py:dump_conversion *)
Definition enc_instr (i : instr) : sx :=
  match i with
  | IGetOperand d s k => L [I 1; I d; I s; I k]
  | IGetDefOp d s => L [I 2; I d; I s]
  | IGetResult d s k => L [I 3; I d; I s; I k]
  | IGetAttr d s n => L [I 4; I d; I s; I n]
  | IGetValueType d s => L [I 5; I d; I s]
  | IIsNotNull s => L [I 10; I s]
  | ICheckName s n => L [I 11; I s; I n]
  | ICheckOperandCount s n => L [I 12; I s; I n]
  | ICheckResultCount s n => L [I 13; I s; I n]
  | IAreEqual a b => L [I 14; I a; I b]
  | ICheckAttr s a => L [I 15; I s; I a]
  | ICheckType s t => L [I 16; I s; I t]
  | IRecordMatch args => L [I 20; sLZ args]
  end.
Definition rnum (nargs : Z) (r : rreg) : Z := match r with RA k => k | RT j => nargs + j end.
Definition enc_rinstr (n : Z) (i : rinstr) : sx :=
  let r := rnum n in
  match i with
  | RCreateAttr d a => L [I 30; I (r d); I a]
  | RCreateType d t => L [I 31; I (r d); I t]
  | RCreateOp d name ops attrs tys =>
      L [I 32; I (r d); I name; sLZ (map r ops); L (map (fun na => L [I (fst na); I (r (snd na))]) attrs); sLZ (map r tys)]
  | RGetResult d s k => L [I 33; I (r d); I (r s); I k]
  | RGetResults d s => L [I 34; I (r d); I (r s)]
  | RGetValueType d s => L [I 35; I (r d); I (r s)]
  | RReplace o items => L [I 36; I (r o); L (map (fun br => L [sB (fst br); I (r (snd br))]) items)]
  | RErase o => L [I 37; I (r o)]
  | RFinalize => L [I 38]
  end.
Definition enc_compiled (c : option compiled) : sx :=
  match c with
  | None => L [I 2]
  | Some c => L [I 0; L (map enc_instr (c_matcher c)); I (c_nargs c); L (map (enc_rinstr (c_nargs c)) (c_rewriter c))]
  end.

(* ---- payload dump: operations by final position, as harness/props/c27.py:dump_payload *)
Fixpoint position_of (l : list pop) (pid : Z) (i : Z) : option Z :=
  match l with
  | [] => None
  | x :: r => if o_id x =? pid then Some i else position_of r pid (i + 1)
  end.
Fixpoint insert_pair (x : Z * Z) (l : list (Z * Z)) : list (Z * Z) :=
  match l with
  | [] => [x]
  | y :: r => if (fst x <? fst y) || ((fst x =? fst y) && (snd x <=? snd y)) then x :: y :: r else y :: insert_pair x r
  end.
Definition sort_pairs (l : list (Z * Z)) : list (Z * Z) := fold_right insert_pair [] l.
Definition enc_pairs (l : list (Z * Z)) : sx := L (map (fun p => L [I (fst p); I (snd p)]) (sort_pairs l)).
Definition enc_val (ops : list pop) (v : val) : sx :=
  match v with
  | VArg k => L [I 0; I k]
  | VRes pid k => match position_of ops pid 0 with Some i => L [I 1; I i; I k] | None => L [I 2] end
  end.
Definition enc_pop (ops : list pop) (x : pop) : sx :=
  L [I (o_name x); L (map (enc_val ops) (o_operands x)); enc_pairs (o_attrs x); enc_pairs (o_props x); sLZ (o_rtys x)].
Definition enc_payload (pl : payload) : sx := L (map (enc_pop (pl_ops pl)) (pl_ops pl)).
Definition enc_rres (r : rres) : sx :=
  match r with
  | RNoMatch => L [I 0]
  | ROk pl => L [I 1; enc_payload pl]
  | RErr => L [I 2]
  end.

(* ---- case entry points *)
Definition c27_convert (fx : fixes) (P : pattern) : sx := enc_compiled (compile fx P).

Definition apply_both (fx : fixes) (P : pattern) (pl : payload) (pid : Z) : sx :=
  L [enc_rres (pdl_apply fx P pl pid);
     match compile fx P with
     | Some c => enc_rres (interp_apply fx c pl pid)
     | None => L [I 2]
     end].
(* one match_and_rewrite at every operation of the payload (each on a fresh copy) *)
Definition c27_apply (fx : fixes) (P : pattern) (pl : payload) : sx :=
  L (map (fun x => apply_both fx P pl (o_id x)) (pl_ops pl)).

(* payload literal helper: operations get the ids 0,1,2,... in list order *)
Definition mkop (id name : Z) (operands : list val) (attrs props : list (Z * Z)) (rtys : list Z) : pop :=
  {| o_id := id; o_name := name; o_operands := operands; o_attrs := attrs; o_props := props; o_rtys := rtys |}.
