(* C27/ProofsRewrite.v -- the rewriter function the conversion generates, run by the pdl_interp machine on the
   values record_match hands over, goes through the same payload edits as the direct rewrite
   (PDLRewriteFunctions) run on the matcher's bindings: statement-by-statement simulation.
   Stated for the configurations in which pdl_interp.erase exists and type ranges are handled (C27-4, C27-5). *)
From Coq Require Import ZArith List Bool Lia.
From XV Require Import C27.Model C27.ProofsChain C27.ProofsMatch.
Import ListNotations.
Local Open Scope Z_scope.

Definition localk (k : key) : Prop := match k with KLocal _ => True | _ => False end.
Definition pre {A} (a b : list A) : Prop := exists s, b = a ++ s.

Lemma pre_refl : forall A (a : list A), pre a a.
Proof. intros. exists []. rewrite app_nil_r. reflexivity. Qed.
Lemma pre_trans : forall A (a b c : list A), pre a b -> pre b c -> pre a c.
Proof. intros A a b c [s1 ->] [s2 ->]. exists (s1 ++ s2). rewrite app_assoc. reflexivity. Qed.
Lemma pre_app : forall A (a s : list A), pre a (a ++ s).
Proof. intros. exists s. reflexivity. Qed.

Lemma znth_app_l : forall A (a s : list A) j x, znth a j = Some x -> znth (a ++ s) j = Some x.
Proof.
  intros A a s j x H. unfold znth in *. destruct (j <? 0); [discriminate |].
  rewrite nth_error_app1; [exact H |]. apply nth_error_Some. congruence.
Qed.
Lemma znth_last : forall A (a : list A) x, znth (a ++ [x]) (zlen a) = Some x.
Proof.
  intros A a x. unfold znth, zlen. destruct (Z.of_nat (length a) <? 0) eqn:E; [apply Z.ltb_lt in E; lia |].
  rewrite Nat2Z.id. rewrite nth_error_app2 by lia. rewrite Nat.sub_diag. reflexivity.
Qed.
Lemma mem_pos_In : forall p l, mem_pos p l = true <-> In p l.
Proof.
  intros p l. induction l as [|q l IH]; simpl; [split; [discriminate | tauto] |].
  rewrite orb_true_iff, IH, pos_eqb_eq. split; intros [H|H]; auto.
Qed.

Lemma rreg_eqb_eq : forall a b, rreg_eqb a b = true <-> a = b.
Proof.
  destruct a, b; simpl; try (split; [discriminate | intro H; discriminate H]);
    rewrite Z.eqb_eq; split; [intros ->; reflexivity | intro H; inversion H; reflexivity
                              | intros ->; reflexivity | intro H; inversion H; reflexivity].
Qed.
Lemma rrlookup_cons_eq : forall l r v, rrlookup ((r, v) :: l) r = Some v.
Proof. intros. simpl. rewrite (proj2 (rreg_eqb_eq r r) eq_refl). reflexivity. Qed.
Lemma rrlookup_cons_neq : forall l r r' v, r <> r' -> rrlookup ((r, v) :: l) r' = rrlookup l r'.
Proof.
  intros l r r' v H. simpl. destruct (rreg_eqb r r') eqn:E; [apply rreg_eqb_eq in E; contradiction | reflexivity].
Qed.

(* ------------------------------------------------------------------ monotonicity of the generator state *)
Definition st_le (a b : rg) : Prop := pre (rg_used a) (rg_used b).

Lemma map_value_le : forall fx P inp st k st' c r, map_value fx P inp st k = Some (st', c, r) -> st_le st st'.
Proof.
  intros fx P inp st k st' c r E. unfold map_value in E.
  destruct (klookup (rg_vals st) k); [inversion E; subst; apply pre_refl |].
  match type of E with match ?cst with _ => _ end = _ => destruct cst as [mk|] end.
  - unfold rtmp in E. inversion E; subst. apply pre_refl.
  - destruct (klookup inp k) as [p|]; [| discriminate]. inversion E; subst. unfold st_le. simpl.
    destruct (mem_pos p (rg_used st)); [apply pre_refl | apply pre_app].
Qed.
Lemma map_values_le : forall fx P inp ks st st' c rs, map_values fx P inp st ks = Some (st', c, rs) -> st_le st st'.
Proof.
  induction ks as [|k ks IH]; intros st st' c rs E; simpl in E; [inversion E; subst; apply pre_refl |].
  destruct (map_value fx P inp st k) as [[[st1 c1] v]|] eqn:E1; [| discriminate].
  destruct (map_values fx P inp st1 ks) as [[[st2 c2] vs]|] eqn:E2; [| discriminate].
  inversion E; subst. eapply pre_trans; [eapply map_value_le; exact E1 | eapply IH; exact E2].
Qed.

Ltac le_step :=
  match goal with
  | E : context [map_values ?fx ?P ?inp ?st ?ks] |- _ =>
      let E1 := fresh "E" in let L := fresh "L" in
      destruct (map_values fx P inp st ks) as [[[? ?] ?]|] eqn:E1; [| cbv beta iota in E; discriminate E];
      pose proof (map_values_le _ _ _ _ _ _ _ _ E1) as L; clear E1
  | E : context [map_value ?fx ?P ?inp ?st ?k] |- _ =>
      let E1 := fresh "E" in let L := fresh "L" in
      destruct (map_value fx P inp st k) as [[[? ?] ?]|] eqn:E1; [| cbv beta iota in E; discriminate E];
      pose proof (map_value_le _ _ _ _ _ _ _ _ E1) as L; clear E1
  end.
Ltac le_done := unfold st_le in *; simpl in *; repeat (eapply pre_trans; [eassumption |]); try apply pre_refl.

Lemma gen_stmt_le : forall fx P inp root st s later st' c,
  gen_stmt fx P inp root st s later = Some (st', c) -> st_le st st'.
Proof.
  intros fx P inp root st s later st' c E. destruct s; cbn [gen_stmt] in E; cbv beta iota zeta delta [rtmp] in E.
  - inversion E; subst. apply pre_refl.
  - inversion E; subst. apply pre_refl.
  - repeat le_step. destruct tys as [|t tys].
    + destruct (existsb (is_replace_with l) later).
      * repeat le_step. cbv beta iota zeta delta [rtmp] in E. inversion E; subst. le_done.
      * inversion E; subst. le_done.
    + repeat le_step. inversion E; subst. le_done.
  - repeat le_step. inversion E; subst. le_done.
  - repeat le_step. inversion E; subst. le_done.
  - destruct (op_rtys root).
    + repeat le_step. inversion E; subst. le_done.
    + repeat le_step. inversion E; subst. le_done.
  - repeat le_step. inversion E; subst. le_done.
Qed.
Lemma gen_stmts_le : forall fx P inp root l st st' c,
  gen_stmts fx P inp root st l = Some (st', c) -> st_le st st'.
Proof.
  induction l as [|s l IH]; intros st st' c E; simpl in E; [inversion E; subst; apply pre_refl |].
  destruct (gen_stmt fx P inp root st s l) as [[st1 c1]|] eqn:E1; [| discriminate].
  destruct (gen_stmts fx P inp root st1 l) as [[st2 c2]|] eqn:E2; [| discriminate].
  inversion E; subst. eapply pre_trans; [eapply gen_stmt_le; exact E1 | eapply IH; exact E2].
Qed.

(* ------------------------------------------------------------------ payload edits and the root operation *)
Lemma find_filter_none : forall l p, find_op_in (filter (fun x => negb (o_id x =? p)) l) p = None.
Proof.
  induction l as [|y l IH]; intro p; [reflexivity |]. simpl. destruct (o_id y =? p) eqn:E; simpl; [apply IH |].
  rewrite E. apply IH.
Qed.
Lemma find_after_erase : forall pl p pl', erase_op pl p = Some pl' -> find_op pl' p = None.
Proof.
  intros pl p pl' H. unfold erase_op in H. destruct (existsb (has_use_of p) (pl_ops pl)); [discriminate |].
  inversion H; subst. unfold find_op. simpl. apply find_filter_none.
Qed.
Lemma find_after_replace : forall pl p news pl', replace_op pl p news = Some pl' -> find_op pl' p = None.
Proof.
  intros pl p news pl' H. unfold replace_op in H. destruct (find_op pl p); [| discriminate].
  destruct (negb (zlen (o_rtys p0) =? zlen news)); [discriminate |]. eapply find_after_erase. exact H.
Qed.
Lemma insert_before_le : forall l root n l', insert_before l root n = Some l' -> root <= maxid l.
Proof.
  induction l as [|y l IH]; intros root n l' H; simpl in H; [discriminate |].
  destruct (o_id y =? root) eqn:E; [apply Z.eqb_eq in E; simpl; lia |].
  destruct (insert_before l root n) eqn:E2; [| discriminate]. specialize (IH _ _ _ E2). simpl. lia.
Qed.
Lemma insert_before_find : forall l root n l' p, insert_before l root n = Some l' -> o_id n <> p ->
  find_op_in l' p = find_op_in l p.
Proof.
  induction l as [|y l IH]; intros root n l' p H Hn; simpl in H; [discriminate |].
  destruct (o_id y =? root) eqn:E.
  - inversion H; subst. simpl. destruct (o_id n =? p) eqn:E2; [apply Z.eqb_eq in E2; contradiction | reflexivity].
  - destruct (insert_before l root n) eqn:E2; [| discriminate]. inversion H; subst. simpl.
    destruct (o_id y =? p); [reflexivity | eapply IH; eassumption].
Qed.
Lemma create_op_find : forall pl root name vs ats ts pl' id,
  create_op pl root name vs ats ts = Some (pl', id) -> find_op pl' root = find_op pl root.
Proof.
  intros pl root name vs ats ts pl' id H. unfold create_op in H. destruct (split_attrs ats) as [as_ ps].
  match type of H with match ?ib with _ => _ end = _ => destruct ib as [l|] eqn:E end; [| discriminate].
  inversion H; subst. unfold find_op. simpl. eapply insert_before_find; [exact E |]. simpl.
  pose proof (insert_before_le _ _ _ _ E). unfold fresh. lia.
Qed.
Lemma subst_nil_map : forall p (l : list pop),
  map (fun y => set_operands y (map (subst_val p []) (o_operands y))) l = l.
Proof.
  intros p. induction l as [|y l IH]; [reflexivity |]. simpl. rewrite IH. f_equal.
  assert (H : map (subst_val p []) (o_operands y) = o_operands y).
  { induction (o_operands y) as [|v vs IHv]; [reflexivity |]. simpl. rewrite IHv. f_equal.
    destruct v; simpl; [reflexivity |]. destruct (pid =? p); [rewrite znth_nil |]; reflexivity. }
  rewrite H. destruct y; reflexivity.
Qed.
Lemma replace_nil_erase : forall pl p x, find_op pl p = Some x -> o_rtys x = [] -> replace_op pl p [] = erase_op pl p.
Proof.
  intros pl p x Hx Hr. unfold replace_op. rewrite Hx, Hr. simpl. rewrite subst_nil_map. destruct pl; reflexivity.
Qed.

(* ================================================================== the simulation *)
Section Sim.
Variable fx : fixes.
Variable P : pattern.
Variable inp : inputs.
Variable rootpat : op_pat.
Variable pid : Z.            (* payload id of the matched root operation *)
Variable e0 : env.           (* bindings of the direct matcher *)
Variable regs0 : list (rreg * obj).   (* arguments of the rewriter function *)
Variable usedF : list pos.   (* positions handed over by record_match, in argument order *)

Hypothesis Herase : fx_erase fx = true.
Hypothesis Hrange : fx_range fx = true.
Hypothesis Hinfer : fx_infer fx = true.
Hypothesis Hnoloc : forall l, klookup inp (KLocal l) = None.
Hypothesis Hinj : forall k1 k2 p, klookup inp k1 = Some p -> klookup inp k2 = Some p -> k1 = k2.
(* argument j is the value the direct matcher bound to the pattern value recorded at the j-th used position *)
Hypothesis HArg : forall k p j, klookup inp k = Some p -> znth usedF j = Some p ->
                                exists v, klookup e0 k = Some v /\ rrlookup regs0 (RA j) = Some v.
(* a constant pdl.attribute / pdl.type is bound to its constant *)
Hypothesis HCa : forall a c v, p_aconst P a = Some c -> klookup e0 (KAttr a) = Some v -> v = OAttr c.
Hypothesis HCt : forall t c v, p_tconst P t = Some c -> klookup e0 (KType t) = Some v -> v = OType c.
Hypothesis Hroot : klookup e0 (KOp (op_id rootpat)) = Some (OOp pid).

Record Inv (e : env) (st : rg) (regs : list (rreg * obj)) : Prop := {
  I_vals : forall k r, klookup (rg_vals st) k = Some r -> exists v, klookup e k = Some v /\ rrlookup regs r = Some v;
  I_tmp : forall j v, rrlookup regs (RT j) = Some v -> j < rg_ntmp st;
  I_arg : forall j, rrlookup regs (RA j) = rrlookup regs0 (RA j);
  I_env : forall k, ~ localk k -> klookup e k = klookup e0 k;
  I_sync : rg_nargs st = zlen (rg_used st);
  I_used : forall p, In p (rg_used st) -> exists k j, klookup (rg_vals st) k = Some (RA j) /\ klookup inp k = Some p
}.

Definition steps (c : list rinstr) (regs regs' : list (rreg * obj)) : Prop :=
  forall rest pl, run_rewriter fx pid (c ++ rest) regs pl = run_rewriter fx pid rest regs' pl.
Lemma steps_nil : forall regs, steps [] regs regs.
Proof. intros regs rest pl. reflexivity. Qed.
Lemma steps_app : forall c1 c2 r1 r2 r3, steps c1 r1 r2 -> steps c2 r2 r3 -> steps (c1 ++ c2) r1 r3.
Proof. intros c1 c2 r1 r2 r3 H1 H2 rest pl. rewrite <- app_assoc, H1, H2. reflexivity. Qed.

Definition steps_at (pl : payload) (c : list rinstr) (regs regs' : list (rreg * obj)) : Prop :=
  forall rest, run_rewriter fx pid (c ++ rest) regs pl = run_rewriter fx pid rest regs' pl.
Lemma steps_at_of : forall pl c r1 r2, steps c r1 r2 -> steps_at pl c r1 r2.
Proof. intros pl c r1 r2 H rest. apply H. Qed.
Lemma steps_at_app : forall pl c1 c2 r1 r2 r3, steps_at pl c1 r1 r2 -> steps_at pl c2 r2 r3 -> steps_at pl (c1 ++ c2) r1 r3.
Proof. intros pl c1 c2 r1 r2 r3 H1 H2 rest. rewrite <- app_assoc, H1, H2. reflexivity. Qed.

(* a new operation of the rewriter function (register RT ntmp) whose result translates key k *)
Lemma Inv_cons : forall e e' st regs k w,
  Inv e st regs -> klookup e' k = Some w ->
  (forall k', k' <> k -> klookup e' k' = klookup e k') ->
  (forall k', ~ localk k' -> klookup e' k' = klookup e0 k') ->
  (klookup inp k = None \/ klookup (rg_vals st) k = None) ->
  Inv e' {| rg_vals := (k, RT (rg_ntmp st)) :: rg_vals st; rg_used := rg_used st; rg_nargs := rg_nargs st;
            rg_ntmp := rg_ntmp st + 1 |} ((RT (rg_ntmp st), w) :: regs).
Proof.
  intros e e' st regs k w [Hv Ht Ha He Hs Hu] Hk Hold Henv Hfr. constructor; cbn [rg_vals rg_used rg_nargs rg_ntmp].
  - intros k' r H. simpl in H. destruct (key_eqb k k') eqn:E.
    + apply key_eqb_eq in E. subst k'. inversion H; subst r. exists w. split; [exact Hk | apply rrlookup_cons_eq].
    + assert (Hne : k' <> k) by (intro X; subst; rewrite key_eqb_refl in E; discriminate).
      destruct (Hv _ _ H) as (v & H1 & H2). exists v. split; [rewrite Hold by exact Hne; exact H1 |].
      rewrite rrlookup_cons_neq; [exact H2 |]. intro Heq. subst r. apply Ht in H2. lia.
  - intros j v H. simpl in H. destruct (rg_ntmp st =? j) eqn:E; [apply Z.eqb_eq in E; lia | apply Ht in H; lia].
  - intros j. simpl. apply Ha.
  - exact Henv.
  - exact Hs.
  - intros p Hp. destruct (Hu p Hp) as (k' & j & H1 & H2). exists k', j. split; [| exact H2].
    simpl. destruct (key_eqb k k') eqn:E; [| exact H1].
    apply key_eqb_eq in E. subst k'. destruct Hfr as [Hfr | Hfr]; congruence.
Qed.
(* ... or translates nothing *)
Lemma Inv_tmp_none : forall e st regs w,
  Inv e st regs ->
  Inv e {| rg_vals := rg_vals st; rg_used := rg_used st; rg_nargs := rg_nargs st; rg_ntmp := rg_ntmp st + 1 |}
      ((RT (rg_ntmp st), w) :: regs).
Proof.
  intros e st regs w [Hv Ht Ha He Hs Hu]. constructor; cbn [rg_vals rg_used rg_nargs rg_ntmp]; auto.
  - intros k r H. destruct (Hv _ _ H) as (v & H1 & H2). exists v. split; [exact H1 |].
    rewrite rrlookup_cons_neq; [exact H2 |]. intro Heq. subst r. apply Ht in H2. lia.
  - intros j v H. simpl in H. destruct (rg_ntmp st =? j) eqn:E; [apply Z.eqb_eq in E; lia | apply Ht in H; lia].
Qed.

Definition ext (regs regs' : list (rreg * obj)) : Prop :=
  forall r v, rrlookup regs r = Some v -> rrlookup regs' r = Some v.
Lemma ext_refl : forall regs, ext regs regs.
Proof. intros regs r v H. exact H. Qed.
Lemma ext_trans : forall a b c, ext a b -> ext b c -> ext a c.
Proof. intros a b c H1 H2 r v H. apply H2, H1, H. Qed.
Lemma ext_tmp : forall e st regs w, Inv e st regs -> ext regs ((RT (rg_ntmp st), w) :: regs).
Proof.
  intros e st regs w HI r v H. rewrite rrlookup_cons_neq; [exact H |]. intro Heq. subst r.
  apply (I_tmp _ _ _ HI) in H. lia.
Qed.

(* map_rewrite_value for a key the direct rewrite finds bound to v *)
Lemma map_value_sim : forall e st regs k v st1 c r,
  Inv e st regs -> klookup e k = Some v ->
  map_value fx P inp st k = Some (st1, c, r) -> pre (rg_used st1) usedF ->
  exists regs1, steps c regs regs1 /\ Inv e st1 regs1 /\ rrlookup regs1 r = Some v /\ ext regs regs1.
Proof.
  intros e st regs k v st1 c r HI Hk E Hpre. unfold map_value in E.
  destruct (klookup (rg_vals st) k) as [r0|] eqn:Ev.
  { inversion E; subst. exists regs. split; [apply steps_nil | split; [exact HI | split; [| apply ext_refl]]].
    destruct (I_vals _ _ _ HI _ _ Ev) as (v' & H1 & H2). congruence. }
  match type of E with match ?cst with _ => _ end = _ => destruct cst as [mk|] eqn:Ec end.
  - (* constant: materialised in the rewriter *)
    unfold rtmp in E. inversion E; subst; clear E.
    assert (Hmk : exists w, mk (RT (rg_ntmp st)) = RCreateAttr (RT (rg_ntmp st)) w /\ v = OAttr w \/
                            mk (RT (rg_ntmp st)) = RCreateType (RT (rg_ntmp st)) w /\ v = OType w).
    { destruct k; try discriminate.
      - destruct (p_tconst P i) as [c0|] eqn:Et; [| discriminate]. inversion Ec; subst. exists c0. right. split; [reflexivity |].
        eapply HCt; [exact Et |]. rewrite <- (I_env _ _ _ HI (KType i)) by (intros []). exact Hk.
      - destruct (p_aconst P i) as [c0|] eqn:Ea; [| discriminate]. destruct (truthy c0 || fx_falsy fx); [| discriminate].
        inversion Ec; subst. exists c0. left. split; [reflexivity |].
        eapply HCa; [exact Ea |]. rewrite <- (I_env _ _ _ HI (KAttr i)) by (intros []). exact Hk. }
    destruct Hmk as (w & [[Hm ->] | [Hm ->]]).
    + eexists. split; [| split; [eapply Inv_cons; [exact HI | exact Hk | reflexivity | apply (I_env _ _ _ HI) | right; exact Ev] |
                                 split; [apply rrlookup_cons_eq | eapply ext_tmp; exact HI]]].
      intros rest pl. simpl app. rewrite Hm. reflexivity.
    + eexists. split; [| split; [eapply Inv_cons; [exact HI | exact Hk | reflexivity | apply (I_env _ _ _ HI) | right; exact Ev] |
                                 split; [apply rrlookup_cons_eq | eapply ext_tmp; exact HI]]].
      intros rest pl. simpl app. rewrite Hm. reflexivity.
  - (* an input from the matcher: a new function argument *)
    destruct (klookup inp k) as [p|] eqn:Ei; [| discriminate]. inversion E; subst; clear E.
    assert (Hnl : ~ localk k) by (intro H; destruct k; try contradiction; rewrite Hnoloc in Ei; discriminate).
    assert (Hnew : mem_pos p (rg_used st) = false).
    { destruct (mem_pos p (rg_used st)) eqn:Em; [| reflexivity]. apply mem_pos_In in Em.
      destruct (I_used _ _ _ HI _ Em) as (k' & j & H1 & H2). rewrite (Hinj _ _ _ H2 Ei) in H1. congruence. }
    cbn [rg_used] in Hpre. rewrite Hnew in Hpre.
    assert (Hz : znth usedF (rg_nargs st) = Some p).
    { destruct Hpre as [s ->]. apply znth_app_l. rewrite (I_sync _ _ _ HI). apply znth_last. }
    destruct (HArg _ _ _ Ei Hz) as (v' & H1 & H2).
    rewrite (I_env _ _ _ HI k Hnl) in Hk. assert (v' = v) by congruence. subst v'.
    exists regs. split; [apply steps_nil |]. split; [| split; [rewrite (I_arg _ _ _ HI); exact H2 | apply ext_refl]].
    + destruct HI as [Hv Ht Ha He Hs Hu]. constructor; cbn [rg_vals rg_used rg_nargs rg_ntmp].
      * intros k' r H. simpl in H. destruct (key_eqb k k') eqn:E.
        -- apply key_eqb_eq in E. subst k'. inversion H; subst r. exists v. split; [rewrite He by exact Hnl; exact H1 |].
           rewrite Ha. exact H2.
        -- apply Hv. exact H.
      * exact Ht.
      * exact Ha.
      * exact He.
      * rewrite Hnew. unfold zlen in *. rewrite app_length. simpl. lia.
      * rewrite Hnew. intros q Hq. apply in_app_iff in Hq. destruct Hq as [Hq | [<- | []]].
        -- destruct (Hu q Hq) as (k' & j & H3 & H4). exists k', j. split; [| exact H4].
           simpl. destruct (key_eqb k k') eqn:E; [apply key_eqb_eq in E; subst; congruence | exact H3].
        -- exists k, (rg_nargs st). split; [simpl; rewrite key_eqb_refl; reflexivity | exact Ei].
Qed.
Definition agree_kr (e : env) (regs : list (rreg * obj)) (k : key) (r : rreg) : Prop :=
  exists v, klookup e k = Some v /\ rrlookup regs r = Some v.

Lemma map_values_sim : forall ks e st regs st1 c rs,
  Inv e st regs -> Forall (fun k => klookup e k <> None) ks ->
  map_values fx P inp st ks = Some (st1, c, rs) -> pre (rg_used st1) usedF ->
  exists regs1, steps c regs regs1 /\ Inv e st1 regs1 /\ Forall2 (agree_kr e regs1) ks rs /\ ext regs regs1.
Proof.
  induction ks as [|k ks IH]; intros e st regs st1 c rs HI HF E Hpre; simpl in E.
  - inversion E; subst. exists regs. split; [apply steps_nil | split; [exact HI | split; [constructor | apply ext_refl]]].
  - destruct (map_value fx P inp st k) as [[[st2 c2] v]|] eqn:E1; [| discriminate].
    destruct (map_values fx P inp st2 ks) as [[[st3 c3] vs]|] eqn:E2; [| discriminate].
    inversion E; subst; clear E. inversion HF as [| ? ? Hk HF']; subst.
    destruct (klookup e k) as [w|] eqn:Ew; [| congruence].
    assert (Hpre2 : pre (rg_used st2) usedF) by (eapply pre_trans; [eapply map_values_le; exact E2 | exact Hpre]).
    destruct (map_value_sim _ _ _ _ _ _ _ _ HI Ew E1 Hpre2) as (regs2 & Hs2 & HI2 & Hr2 & Hx2).
    destruct (IH _ _ _ _ _ _ HI2 HF' E2 Hpre) as (regs3 & Hs3 & HI3 & HF3 & Hx3).
    exists regs3. split; [eapply steps_app; eassumption |]. split; [exact HI3 |]. split.
    + constructor; [| exact HF3]. exists w. split; [exact Ew | apply Hx3; exact Hr2].
    + eapply ext_trans; eassumption.
Qed.
Lemma all_some_nonnone : forall A B (f : A -> option B) l x,
  all_some (map f l) = Some x -> Forall (fun a => f a <> None) l.
Proof.
  intros A B f. induction l as [|a l IH]; intros x H; [constructor |]. simpl in H.
  destruct (f a) eqn:E; [| discriminate]. destruct (all_some (map f l)) eqn:E2; [| discriminate].
  constructor; [congruence | eapply IH; reflexivity].
Qed.
Lemma get_val_agree : forall e regs ks rs, Forall2 (agree_kr e regs) ks rs ->
  map (get_val e) ks = map (rr_val regs) rs.
Proof.
  intros e regs ks rs H. induction H as [| k r ks rs (v & H1 & H2) _ IH]; [reflexivity |].
  simpl. rewrite IH. unfold get_val, rr_val. rewrite H1, H2. reflexivity.
Qed.
Lemma get_type_agree : forall e regs ks rs ts, Forall2 (agree_kr e regs) ks rs ->
  all_some (map (get_type e) ks) = Some ts -> rr_types fx regs rs = Some ts.
Proof.
  intros e regs ks rs ts H. revert ts. induction H as [| k r ks rs (v & H1 & H2) _ IH]; intros ts Ha.
  - simpl in *. exact Ha.
  - simpl in Ha. unfold get_type in Ha at 1. rewrite H1 in Ha. destruct v; try discriminate.
    destruct (all_some (map (get_type e) ks)) as [ts'|] eqn:E; [| discriminate]. inversion Ha; subst.
    simpl. rewrite H2, (IH _ eq_refl). reflexivity.
Qed.
Lemma get_attr_agree : forall e regs (attrs : list (Z * aref)) ra,
  Forall2 (agree_kr e regs) (map (fun na => aref_key (snd na)) attrs) ra ->
  map (fun na : Z * rreg => match rr_attr regs (snd na) with Some a => Some (fst na, a) | None => None end)
      (combine (map fst attrs) ra) =
  map (fun na : Z * aref => match get_attr e (aref_key (snd na)) with Some a => Some (fst na, a) | None => None end) attrs.
Proof.
  intros e regs attrs. induction attrs as [|[n a] attrs IH]; intros ra H; [reflexivity |].
  simpl in H. inversion H as [| ? r ? ra' (v & H1 & H2) HF]; subst. simpl. rewrite (IH _ HF).
  unfold rr_attr, get_attr. simpl. rewrite H1, H2. reflexivity.
Qed.
Lemma key_bound_val : forall e ks x, all_some (map (get_val e) ks) = Some x -> Forall (fun k => klookup e k <> None) ks.
Proof.
  intros e ks x H. apply all_some_nonnone in H. eapply Forall_impl; [| exact H].
  intros k Hk. unfold get_val in Hk. destruct (klookup e k); congruence.
Qed.
Lemma key_bound_type : forall e ks x, all_some (map (get_type e) ks) = Some x -> Forall (fun k => klookup e k <> None) ks.
Proof.
  intros e ks x H. apply all_some_nonnone in H. eapply Forall_impl; [| exact H].
  intros k Hk. unfold get_type in Hk. destruct (klookup e k); congruence.
Qed.
Lemma key_bound_attr : forall e (attrs : list (Z * aref)) x,
  all_some (map (fun na : Z * aref => match get_attr e (aref_key (snd na)) with Some a => Some (fst na, a) | None => None end) attrs) = Some x ->
  Forall (fun k => klookup e k <> None) (map (fun na => aref_key (snd na)) attrs).
Proof.
  intros e attrs x H. apply all_some_nonnone in H. apply Forall_map. eapply Forall_impl; [| exact H].
  intros [n a] Hk. simpl in *. unfold get_attr in Hk. destruct (klookup e (aref_key a)); congruence.
Qed.

Lemma vtype_results_gen : forall pl x l k,
  find_op pl (o_id x) = Some x -> 0 <= k ->
  (forall j, 0 <= j -> znth l j = znth (o_rtys x) (k + j)) ->
  map (vtype pl) (results_of (o_id x) (length l) k) = l.
Proof.
  intros pl x. induction l as [|y l IH]; intros k Hx Hk Hl; [reflexivity |].
  simpl. rewrite Hx. rewrite <- (Z.add_0_r k), <- Hl by lia. simpl. f_equal.
  apply IH; [exact Hx | lia |]. intros j Hj. rewrite <- (znth_cons_S _ y l j Hj), Hl by lia. f_equal. lia.
Qed.
Lemma vtype_results : forall pl x, find_op pl (o_id x) = Some x -> map (vtype pl) (op_results x) = o_rtys x.
Proof. intros pl x Hx. unfold op_results. apply vtype_results_gen; [exact Hx | lia | intros j Hj; reflexivity]. Qed.
Lemma agree_ext : forall e regs regs' ks rs, ext regs regs' ->
  Forall2 (agree_kr e regs) ks rs -> Forall2 (agree_kr e regs') ks rs.
Proof.
  intros e regs regs' ks rs Hx H. induction H as [| k r ks rs (v & H1 & H2) _ IH]; constructor; [| exact IH].
  exists v. split; [exact H1 | apply Hx; exact H2].
Qed.

Lemma Inv_local : forall e st regs l w,
  Inv e st regs ->
  Inv ((KLocal l, w) :: e)
      {| rg_vals := (KLocal l, RT (rg_ntmp st)) :: rg_vals st; rg_used := rg_used st; rg_nargs := rg_nargs st;
         rg_ntmp := rg_ntmp st + 1 |} ((RT (rg_ntmp st), w) :: regs).
Proof.
  intros e st regs l w HI. eapply Inv_cons; [exact HI | apply klookup_cons_eq | | | left; apply Hnoloc].
  - intros k' Hk'. apply klookup_cons_neq. congruence.
  - intros k' Hk'. rewrite klookup_cons_neq; [apply (I_env _ _ _ HI); exact Hk' |]. intro X; subst. apply Hk'. exact I.
Qed.

Lemma root_key : forall e st regs, Inv e st regs -> klookup e (KOp (op_id rootpat)) = Some (OOp pid).
Proof. intros e st regs HI. rewrite (I_env _ _ _ HI) by (intros []). exact Hroot. Qed.

Ltac pre_solve :=
  repeat match goal with
         | H : map_values _ _ _ _ _ = Some _ |- _ => apply map_values_le in H
         | H : map_value _ _ _ _ _ = Some _ |- _ => apply map_value_le in H
         end;
  unfold st_le in *; cbn [rg_used] in *;
  repeat (first [eassumption | eapply pre_trans; [eassumption |]]); try apply pre_refl.

(* a root that declares no result types has no results in the payload (until it is replaced / erased) *)
Definition RI (pl : payload) : Prop :=
  op_rtys rootpat = [] -> forall x, find_op pl pid = Some x -> o_rtys x = [].
Lemma RI_gone : forall pl, find_op pl pid = None -> RI pl.
Proof. intros pl H _ x Hx. congruence. Qed.
Lemma RI_create : forall pl name vs ats ts pl' id, create_op pl pid name vs ats ts = Some (pl', id) -> RI pl -> RI pl'.
Proof. intros pl name vs ats ts pl' id H HR Hn x Hx. rewrite (create_op_find _ _ _ _ _ _ _ _ H) in Hx. eapply HR; eassumption. Qed.

Lemma repl_values_false : forall regs rs,
  repl_values regs (map (fun r => (false, r)) rs) = all_some (map (rr_val regs) rs).
Proof.
  intros regs. induction rs as [|r rs IH]; [reflexivity |]. simpl. rewrite IH.
  destruct (rr_val regs r); [| reflexivity]. destruct (all_some (map (rr_val regs) rs)); reflexivity.
Qed.
Lemma get_opid_key : forall e k p, get_opid e k = Some p -> klookup e k = Some (OOp p).
Proof. intros e k p H. unfold get_opid in H. destruct (klookup e k) as [[]|]; try discriminate. inversion H. reflexivity. Qed.
Lemma replace_op_find : forall pl p news pl', replace_op pl p news = Some pl' -> exists x, find_op pl p = Some x /\ o_id x = p.
Proof.
  intros pl p news pl' H. unfold replace_op in H. destruct (find_op pl p) as [x|] eqn:E; [| discriminate].
  exists x. split; [reflexivity | eapply find_op_id; exact E].
Qed.

Lemma stmts_sim : forall l st stF code e regs pl plF,
  Inv e st regs -> gen_stmts fx P inp rootpat st l = Some (stF, code) -> pre (rg_used stF) usedF ->
  RI pl ->
  run_rw fx pid l e pl = ROk plF ->
  run_rewriter fx pid (code ++ [RFinalize]) regs pl = ROk plF.
Proof.
  induction l as [|s l IH]; intros st stF code e regs pl plF HI Hg Hpre HRI Hd.
  - simpl in Hg. inversion Hg; subst. simpl in *. exact Hd.
  - cbn [gen_stmts] in Hg. destruct (gen_stmt fx P inp rootpat st s l) as [[st1 c1]|] eqn:E1; [| discriminate].
    destruct (gen_stmts fx P inp rootpat st1 l) as [[st2 c2]|] eqn:E2; [| discriminate]. inversion Hg; subst; clear Hg.
    assert (Hpre1 : pre (rg_used st1) usedF) by (eapply pre_trans; [eapply gen_stmts_le; exact E2 | exact Hpre]).
    rewrite <- app_assoc.
    destruct s; cbn [gen_stmt] in E1; cbn [run_rw] in Hd.
    + (* pdl.attribute *)
      cbv beta iota zeta delta [rtmp] in E1. inversion E1; subst; clear E1. simpl app. cbn [run_rewriter].
      eapply IH; [apply Inv_local; exact HI | exact E2 | exact Hpre | exact HRI | exact Hd].
    + (* pdl.type *)
      cbv beta iota zeta delta [rtmp] in E1. inversion E1; subst; clear E1. simpl app. cbn [run_rewriter].
      eapply IH; [apply Inv_local; exact HI | exact E2 | exact Hpre | exact HRI | exact Hd].
    + (* pdl.operation *)
      destruct (map_values fx P inp st (map vref_key operands)) as [[[sa ca] ro]|] eqn:Ea; [| discriminate].
      destruct (map_values fx P inp sa (map (fun na => aref_key (snd na)) attrs)) as [[[sb cb] ra]|] eqn:Eb; [| discriminate].
      destruct (all_some (map (fun v => get_val e (vref_key v)) operands)) as [vs|] eqn:Dv; [| discriminate].
      destruct (all_some (map (fun na : Z * aref => match get_attr e (aref_key (snd na)) with
                                                   | Some a => Some (fst na, a) | None => None end) attrs)) as [ats|] eqn:Da;
        [| discriminate].
      rewrite <- (map_map vref_key (get_val e)) in Dv.
      assert (Hcreate : forall sc cc rt regs3 ts (Hts : rr_types fx regs3 rt = Some ts),
                Inv e sc regs3 -> ext regs regs3 -> steps_at pl (ca ++ cb ++ cc) regs regs3 ->
                Forall2 (agree_kr e regs3) (map vref_key operands) ro ->
                Forall2 (agree_kr e regs3) (map (fun na => aref_key (snd na)) attrs) ra ->
                rg_used sc = rg_used st1 ->
                st1 = {| rg_vals := (KLocal l0, RT (rg_ntmp sc)) :: rg_vals sc; rg_used := rg_used sc;
                         rg_nargs := rg_nargs sc; rg_ntmp := rg_ntmp sc + 1 |} ->
                c1 = ca ++ cb ++ cc ++ [RCreateOp (RT (rg_ntmp sc)) name ro (combine (map fst attrs) ra) rt] ->
                match create_op pl pid name vs ats ts with
                | Some (pl', id) => run_rw fx pid l ((KLocal l0, OOp id) :: e) pl'
                | None => RErr
                end = ROk plF ->
                run_rewriter fx pid (c1 ++ c2 ++ [RFinalize]) regs pl = ROk plF).
      { intros sc cc rt regs3 ts Hts HI3 Hx3 Hst Fo Fa Hu -> -> Hd'.
        replace ((ca ++ cb ++ cc ++ [RCreateOp (RT (rg_ntmp sc)) name ro (combine (map fst attrs) ra) rt]) ++ c2 ++ [RFinalize])
          with ((ca ++ cb ++ cc) ++ [RCreateOp (RT (rg_ntmp sc)) name ro (combine (map fst attrs) ra) rt] ++ c2 ++ [RFinalize])
          by (rewrite <- !app_assoc; reflexivity).
        rewrite Hst. simpl app. cbn [run_rewriter].
        rewrite <- (get_val_agree _ _ _ _ Fo), Dv, (get_attr_agree _ _ _ _ Fa), Da, Hts.
        destruct (create_op pl pid name vs ats ts) as [[pl' id]|] eqn:Dc; [| discriminate].
        eapply IH; [apply Inv_local; exact HI3 | exact E2 | exact Hpre | eapply RI_create; eassumption | exact Hd']. }
      assert (Hpa : pre (rg_used sb) usedF -> exists regs2, steps (ca ++ cb) regs regs2 /\ Inv e sb regs2 /\ ext regs regs2 /\
                Forall2 (agree_kr e regs2) (map vref_key operands) ro /\
                Forall2 (agree_kr e regs2) (map (fun na => aref_key (snd na)) attrs) ra).
      { intro Hpb.
        assert (Hpa : pre (rg_used sa) usedF) by (eapply pre_trans; [eapply map_values_le; exact Eb | exact Hpb]).
        destruct (map_values_sim _ _ _ _ _ _ _ HI (key_bound_val _ _ _ Dv) Ea Hpa) as (regs1 & S1 & I1 & F1 & X1).
        destruct (map_values_sim _ _ _ _ _ _ _ I1 (key_bound_attr _ _ _ Da) Eb Hpb) as (regs2 & S2 & I2 & F2 & X2).
        exists regs2. split; [eapply steps_app; eassumption |]. split; [exact I2 |]. split; [eapply ext_trans; eassumption |].
        split; [eapply agree_ext; eassumption | exact F2]. }
      destruct tys as [|t tys].
      * destruct (existsb (is_replace_with l0) l) eqn:Ex.
        -- (* Strategy 3: result types of the replaced operation *)
           destruct (map_value fx P inp sb (KOp (op_id rootpat))) as [[[sc cc] rroot]|] eqn:Ec; [| discriminate].
           cbv beta iota zeta delta [rtmp] in E1. inversion E1; subst; clear E1.
           rewrite Hinfer in Hd. cbn [andb] in Hd. destruct (find_op pl pid) as [x|] eqn:Df; [| discriminate].
           assert (Hpc : pre (rg_used sc) usedF) by exact Hpre1.
           destruct Hpa as (regs2 & S2 & I2 & X2 & Fo & Fa); [eapply pre_trans; [eapply map_value_le; exact Ec | exact Hpc] |].
           destruct (map_value_sim _ _ _ _ _ _ _ _ I2 (root_key _ _ _ I2) Ec Hpc) as (regs3 & S3 & I3 & Hr3 & X3).
           pose proof (find_op_id _ _ _ Df) as Hid.
           set (n := rg_ntmp sc).
           set (regs4 := (RT n, OVals (op_results x)) :: regs3).
           set (regs5 := (RT (n + 1), OTypes (map (vtype pl) (op_results x))) :: regs4).
           pose proof (Inv_tmp_none _ _ _ (OVals (op_results x)) I3) as I4.
           pose proof (Inv_tmp_none _ _ _ (OTypes (map (vtype pl) (op_results x))) I4) as I5.
           cbn [rg_ntmp rg_vals rg_used rg_nargs] in I5.
           assert (X5 : ext regs3 regs5).
           { eapply ext_trans; [eapply ext_tmp; exact I3 | eapply (ext_tmp _ _ _ _ I4)]. }
           eapply (Hcreate _ (cc ++ [RGetResults (RT n) rroot] ++ [RGetValueType (RT (n + 1)) (RT n)]) [RT (n + 1)] regs5 (o_rtys x)).
           ++ cbn [rr_types]. subst regs5. rewrite rrlookup_cons_eq, Hrange.
              rewrite vtype_results by (rewrite Hid; exact Df). rewrite app_nil_r. reflexivity.
           ++ exact I5.
           ++ eapply ext_trans; [exact X2 |]. eapply ext_trans; [exact X3 | exact X5].
           ++ replace (ca ++ cb ++ cc ++ [RGetResults (RT n) rroot] ++ [RGetValueType (RT (n + 1)) (RT n)])
                with ((ca ++ cb) ++ cc ++ ([RGetResults (RT n) rroot] ++ [RGetValueType (RT (n + 1)) (RT n)]))
                by (rewrite <- app_assoc; reflexivity).
              eapply steps_at_app; [apply steps_at_of; exact S2 |]. eapply steps_at_app; [apply steps_at_of; exact S3 |].
              intros rest. simpl app. cbn [run_rewriter]. unfold rr_op. rewrite Hr3, Df.
              fold regs4. subst regs4. rewrite rrlookup_cons_eq, Hrange. reflexivity.
           ++ eapply agree_ext; [| exact Fo]. eapply ext_trans; [exact X3 | exact X5].
           ++ eapply agree_ext; [| exact Fa]. eapply ext_trans; [exact X3 | exact X5].
           ++ reflexivity.
           ++ subst n. cbn [rg_ntmp]. f_equal; try lia.
           ++ subst n. cbn [rg_ntmp]. rewrite <- !app_assoc. simpl. repeat (f_equal; try lia).
           ++ exact Hd.
        -- (* no declared types, not a replacement: no results *)
           cbv beta iota zeta delta [rtmp] in E1. inversion E1; subst; clear E1.
           rewrite andb_false_r in Hd. cbn [rg_used] in Hpre1.
           destruct Hpa as (regs2 & S2 & I2 & X2 & Fo & Fa); [exact Hpre1 |].
           eapply (Hcreate sb [] [] regs2 []); try reflexivity; try assumption;
             try (rewrite app_nil_r; apply steps_at_of; exact S2).
      * (* declared result types *)
        destruct (map_values fx P inp sb (map tref_key (t :: tys))) as [[[sc cc] rt]|] eqn:Ec; [| discriminate].
        cbv beta iota zeta delta [rtmp] in E1. inversion E1; subst; clear E1.
        destruct (all_some (map (fun t0 => get_type e (tref_key t0)) (t :: tys))) as [ts|] eqn:Dt; [| discriminate].
        rewrite <- (map_map tref_key (get_type e)) in Dt. cbn [rg_used] in Hpre1.
        destruct Hpa as (regs2 & S2 & I2 & X2 & Fo & Fa); [eapply pre_trans; [eapply map_values_le; exact Ec | exact Hpre1] |].
        destruct (map_values_sim _ _ _ _ _ _ _ I2 (key_bound_type _ _ _ Dt) Ec Hpre1) as (regs3 & S3 & I3 & F3 & X3).
        eapply (Hcreate sc cc rt regs3 ts); try reflexivity.
        ++ eapply get_type_agree; eassumption.
        ++ exact I3.
        ++ eapply ext_trans; eassumption.
        ++ rewrite app_assoc. eapply steps_at_app; apply steps_at_of; eassumption.
        ++ eapply agree_ext; eassumption.
        ++ eapply agree_ext; eassumption.
        ++ exact Hd.
    + (* pdl.result of a new operation *)
      destruct (map_value fx P inp st (KLocal lop)) as [[[sa ca] r]|] eqn:Ea; [| discriminate].
      cbv beta iota zeta delta [rtmp] in E1. inversion E1; subst; clear E1. cbn [rg_used] in Hpre1.
      destruct (get_opid e (KLocal lop)) as [pid'|] eqn:Dg; [| discriminate].
      destruct (find_op pl pid') as [x|] eqn:Df; [| discriminate].
      destruct ((0 <=? idx) && (idx <? zlen (o_rtys x))) eqn:Dr; [| discriminate].
      destruct (map_value_sim _ _ _ _ _ _ _ _ HI (get_opid_key _ _ _ Dg) Ea Hpre1) as (regs1 & S1 & I1 & Hr1 & X1).
      rewrite <- app_assoc. rewrite S1. simpl app. cbn [run_rewriter]. unfold rr_op. rewrite Hr1, Df, Dr.
      rewrite (find_op_id _ _ _ Df).
      eapply IH; [apply Inv_local; exact I1 | exact E2 | exact Hpre | exact HRI | exact Hd].
    + (* pdl.replace with values *)
      destruct (map_values fx P inp st (map vref_key vs)) as [[[sa ca] rs]|] eqn:Ea; [| discriminate].
      destruct (map_value fx P inp sa (KOp (op_id rootpat))) as [[[sb cb] rroot]|] eqn:Eb; [| discriminate].
      inversion E1; subst; clear E1.
      destruct vs as [|v0 vs]; [discriminate |].
      destruct (all_some (map (fun v => get_val e (vref_key v)) (v0 :: vs))) as [news|] eqn:Dv; [| discriminate].
      destruct (replace_op pl pid news) as [pl'|] eqn:Dp; [| discriminate].
      rewrite <- (map_map vref_key (get_val e)) in Dv.
      assert (Hpa : pre (rg_used sa) usedF) by (eapply pre_trans; [eapply map_value_le; exact Eb | exact Hpre1]).
      destruct (map_values_sim _ _ _ _ _ _ _ HI (key_bound_val _ _ _ Dv) Ea Hpa) as (regs1 & S1 & I1 & F1 & X1).
      destruct (map_value_sim _ _ _ _ _ _ _ _ I1 (root_key _ _ _ I1) Eb Hpre1) as (regs2 & S2 & I2 & Hr2 & X2).
      inversion F1 as [| k0 r0 ks0 rs0 _ F1' Hk Hr]; subst.
      rewrite <- !app_assoc. rewrite S1, S2. simpl app. cbn [run_rewriter].
      destruct (replace_op_find _ _ _ _ Dp) as (x & Dx & Hid).
      unfold rr_op. rewrite Hr2, Dx.
      change ((false, r0) :: map (fun r => (false, r)) rs0) with (map (fun r : rreg => (false, r)) (r0 :: rs0)).
      rewrite repl_values_false. rewrite <- (get_val_agree e regs2 (map vref_key (v0 :: vs)) (r0 :: rs0)) by (eapply agree_ext; eassumption).
      rewrite Dv, Hid, Dp.
      eapply IH; [exact I2 | exact E2 | exact Hpre | apply RI_gone; eapply find_after_replace; exact Dp | exact Hd].
    + (* pdl.replace with an operation *)
      destruct (op_rtys rootpat) as [|t0 ts0] eqn:Ert.
      { (* the root declares no result types: the lowering erases it; the replacement has no results either *)
        destruct (map_value fx P inp st (KOp (op_id rootpat))) as [[[sa ca] rroot]|] eqn:Ea; [| discriminate].
        inversion E1; subst; clear E1.
        destruct (get_opid e (KLocal l0)) as [pid'|] eqn:Dg; [| discriminate].
        destruct (find_op pl pid') as [xn|] eqn:Df; [| discriminate].
        destruct (replace_op pl pid (op_results xn)) as [pl'|] eqn:Dp; [| discriminate].
        destruct (replace_op_find _ _ _ _ Dp) as (x & Dx & Hid).
        assert (Hx0 : o_rtys x = []) by (eapply HRI; [exact Ert | exact Dx]).
        assert (Hnil : op_results xn = []).
        { unfold replace_op in Dp. rewrite Dx, Hx0 in Dp.
          destruct (op_results xn); [reflexivity |]. simpl in Dp. unfold zlen in Dp. simpl in Dp.
          destruct (0 =? Z.pos (Pos.of_succ_nat (length l1))) eqn:Ez; [apply Z.eqb_eq in Ez; lia | discriminate]. }
        rewrite Hnil, (replace_nil_erase _ _ _ Dx Hx0) in Dp.
        destruct (map_value_sim _ _ _ _ _ _ _ _ HI (root_key _ _ _ HI) Ea Hpre1) as (regs1 & S1 & I1 & Hr1 & X1).
        rewrite <- !app_assoc. rewrite S1. simpl app. cbn [run_rewriter]. rewrite Herase. unfold rr_op. rewrite Hr1, Dx.
        rewrite Hid, Dp.
        eapply IH; [exact I1 | exact E2 | exact Hpre | apply RI_gone; eapply find_after_erase; exact Dp | exact Hd]. }
      destruct (map_value fx P inp st (KLocal l0)) as [[[sa ca] r]|] eqn:Ea; [| discriminate].
      cbv beta iota zeta delta [rtmp] in E1.
      match type of E1 with context [map_value fx P inp ?s (KOp (op_id rootpat))] => set (sa' := s) in * end.
      destruct (map_value fx P inp sa' (KOp (op_id rootpat))) as [[[sb cb] rroot]|] eqn:Eb; [| discriminate].
      inversion E1; subst; clear E1.
      destruct (get_opid e (KLocal l0)) as [pid'|] eqn:Dg; [| discriminate].
      destruct (find_op pl pid') as [xn|] eqn:Df; [| discriminate].
      destruct (replace_op pl pid (op_results xn)) as [pl'|] eqn:Dp; [| discriminate].
      assert (Hpa' : pre (rg_used sa') usedF) by (eapply pre_trans; [eapply map_value_le; exact Eb | exact Hpre1]).
      assert (Hpa : pre (rg_used sa) usedF) by exact Hpa'.
      destruct (map_value_sim _ _ _ _ _ _ _ _ HI (get_opid_key _ _ _ Dg) Ea Hpa) as (regs1 & S1 & I1 & Hr1 & X1).
      pose proof (Inv_tmp_none _ _ _ (OVals (op_results xn)) I1) as I1'. fold sa' in I1'.
      destruct (map_value_sim _ _ _ _ _ _ _ _ I1' (root_key _ _ _ I1') Eb Hpre1) as (regs2 & S2 & I2 & Hr2 & X2).
      rewrite <- !app_assoc. rewrite S1. simpl app. cbn [run_rewriter]. unfold rr_op at 1. rewrite Hr1, Df.
      rewrite <- !app_assoc. rewrite S2. simpl app. cbn [run_rewriter].
      destruct (replace_op_find _ _ _ _ Dp) as (x & Dx & Hid).
      unfold rr_op. rewrite Hr2, Dx. cbn [repl_values]. rewrite (X2 _ _ (rrlookup_cons_eq _ _ _)).
      rewrite app_nil_r, Hid, Dp.
      eapply IH; [exact I2 | exact E2 | exact Hpre | apply RI_gone; eapply find_after_replace; exact Dp | exact Hd].
    + (* pdl.erase *)
      destruct (map_value fx P inp st (KOp (op_id rootpat))) as [[[sa ca] rroot]|] eqn:Ea; [| discriminate].
      inversion E1; subst; clear E1.
      destruct (find_op pl pid) as [x|] eqn:Df; [| discriminate].
      destruct (erase_op pl pid) as [pl'|] eqn:De; [| discriminate].
      destruct (map_value_sim _ _ _ _ _ _ _ _ HI (root_key _ _ _ HI) Ea Hpre1) as (regs1 & S1 & I1 & Hr1 & X1).
      rewrite <- !app_assoc. rewrite S1. simpl app. cbn [run_rewriter]. rewrite Herase. unfold rr_op. rewrite Hr1, Df.
      rewrite (find_op_id _ _ _ Df), De.
      eapply IH; [exact I1 | exact E2 | exact Hpre | apply RI_gone; eapply find_after_erase; exact De | exact Hd].
Qed.

(* ------------------------------------------------------------------ one statement of the direct rewrite *)
Definition step_rw (s : stmt) (rest : list stmt) (e : env) (pl : payload) : option (env * payload) :=
  match s with
  | SAttr l c => Some ((KLocal l, OAttr c) :: e, pl)
  | SType l c => Some ((KLocal l, OType c) :: e, pl)
  | SOp l name operands attrs tys =>
      match all_some (map (fun v => get_val e (vref_key v)) operands),
            all_some (map (fun na : Z * aref => match get_attr e (aref_key (snd na)) with
                                     | Some a => Some (fst na, a) | None => None end) attrs),
            (match tys with
             | [] => if fx_infer fx && existsb (is_replace_with l) rest
                     then match find_op pl pid with Some x => Some (o_rtys x) | None => None end
                     else Some []
             | _ => all_some (map (fun t => get_type e (tref_key t)) tys)
             end) with
      | Some vs, Some ats, Some ts =>
          match create_op pl pid name vs ats ts with
          | Some (pl', id) => Some ((KLocal l, OOp id) :: e, pl')
          | None => None
          end
      | _, _, _ => None
      end
  | SResult l lop idx =>
      match get_opid e (KLocal lop) with
      | Some p => match find_op pl p with
                  | Some x => if (0 <=? idx) && (idx <? zlen (o_rtys x))
                              then Some ((KLocal l, OVal (VRes p idx)) :: e, pl) else None
                  | None => None
                  end
      | None => None
      end
  | SReplaceVals vs =>
      match vs with
      | [] => None
      | _ => match all_some (map (fun v => get_val e (vref_key v)) vs) with
             | Some news => match replace_op pl pid news with Some pl' => Some (e, pl') | None => None end
             | None => None
             end
      end
  | SReplaceOp l =>
      match get_opid e (KLocal l) with
      | Some p => match find_op pl p with
                  | Some x => match replace_op pl pid (op_results x) with Some pl' => Some (e, pl') | None => None end
                  | None => None
                  end
      | None => None
      end
  | SErase => match find_op pl pid with
              | Some _ => match erase_op pl pid with Some pl' => Some (e, pl') | None => None end
              | None => None
              end
  end.

Lemma run_rw_step : forall s rest e pl,
  run_rw fx pid (s :: rest) e pl =
  match step_rw s rest e pl with Some (e', pl') => run_rw fx pid rest e' pl' | None => RErr end.
Proof.
  intros s rest e pl. destruct s; cbn [run_rw step_rw]; try reflexivity;
    repeat match goal with
           | |- context [match ?x with _ => _ end] =>
               match x with
               | run_rw _ _ _ _ _ => fail 1
               | _ => destruct x
               end
           end; reflexivity.
Qed.
End Sim.
