(* C27/ProofsRewrite.v -- the rewriter function the conversion generates, run by the pdl_interp machine on the
   values record_match hands over, goes through the same payload edits as the direct rewrite
   (PDLRewriteFunctions) run on the matcher's bindings: statement-by-statement simulation.
   Stated for the configurations in which pdl_interp.erase exists and type ranges are handled (C27-4, C27-5). *)
From Coq Require Import ZArith List Bool Lia.
From XV Require Import C27.Model C27.ProofsChain C27.ProofsMatch.
Import ListNotations.
Local Open Scope Z_scope.

Definition localk (k : key) : Prop := match k with KLocal _ => True | _ => False end.
Definition pre {A} (a b : list A) : Prop := exists s, b = a ++ s.

Lemma pre_refl : forall A (a : list A), pre a a.
Proof. intros. exists []. rewrite app_nil_r. reflexivity. Qed.
Lemma pre_trans : forall A (a b c : list A), pre a b -> pre b c -> pre a c.
Proof. intros A a b c [s1 ->] [s2 ->]. exists (s1 ++ s2). rewrite app_assoc. reflexivity. Qed.
Lemma pre_app : forall A (a s : list A), pre a (a ++ s).
Proof. intros. exists s. reflexivity. Qed.

Lemma znth_app_l : forall A (a s : list A) j x, znth a j = Some x -> znth (a ++ s) j = Some x.
Proof.
  intros A a s j x H. unfold znth in *. destruct (j <? 0); [discriminate |].
  rewrite nth_error_app1; [exact H |]. apply nth_error_Some. congruence.
Qed.
Lemma znth_last : forall A (a : list A) x, znth (a ++ [x]) (zlen a) = Some x.
Proof.
  intros A a x. unfold znth, zlen. destruct (Z.of_nat (length a) <? 0) eqn:E; [apply Z.ltb_lt in E; lia |].
  rewrite Nat2Z.id. rewrite nth_error_app2 by lia. rewrite Nat.sub_diag. reflexivity.
Qed.
Lemma mem_pos_In : forall p l, mem_pos p l = true <-> In p l.
Proof.
  intros p l. induction l as [|q l IH]; simpl; [split; [discriminate | tauto] |].
  rewrite orb_true_iff, IH, pos_eqb_eq. split; intros [H|H]; auto.
Qed.

Lemma rreg_eqb_eq : forall a b, rreg_eqb a b = true <-> a = b.
Proof.
  destruct a, b; simpl; try (split; [discriminate | intro H; discriminate H]);
    rewrite Z.eqb_eq; split; [intros ->; reflexivity | intro H; inversion H; reflexivity
                              | intros ->; reflexivity | intro H; inversion H; reflexivity].
Qed.
Lemma rrlookup_cons_eq : forall l r v, rrlookup ((r, v) :: l) r = Some v.
Proof. intros. simpl. rewrite (proj2 (rreg_eqb_eq r r) eq_refl). reflexivity. Qed.
Lemma rrlookup_cons_neq : forall l r r' v, r <> r' -> rrlookup ((r, v) :: l) r' = rrlookup l r'.
Proof.
  intros l r r' v H. simpl. destruct (rreg_eqb r r') eqn:E; [apply rreg_eqb_eq in E; contradiction | reflexivity].
Qed.

(* ------------------------------------------------------------------ monotonicity of the generator state *)
Definition st_le (a b : rg) : Prop := pre (rg_used a) (rg_used b).

Lemma map_value_le : forall fx P inp st k st' c r, map_value fx P inp st k = Some (st', c, r) -> st_le st st'.
Proof.
  intros fx P inp st k st' c r E. unfold map_value in E.
  destruct (klookup (rg_vals st) k); [inversion E; subst; apply pre_refl |].
  match type of E with match ?cst with _ => _ end = _ => destruct cst as [mk|] end.
  - unfold rtmp in E. inversion E; subst. apply pre_refl.
  - destruct (klookup inp k) as [p|]; [| discriminate]. inversion E; subst. unfold st_le. simpl.
    destruct (mem_pos p (rg_used st)); [apply pre_refl | apply pre_app].
Qed.
Lemma map_values_le : forall fx P inp ks st st' c rs, map_values fx P inp st ks = Some (st', c, rs) -> st_le st st'.
Proof.
  induction ks as [|k ks IH]; intros st st' c rs E; simpl in E; [inversion E; subst; apply pre_refl |].
  destruct (map_value fx P inp st k) as [[[st1 c1] v]|] eqn:E1; [| discriminate].
  destruct (map_values fx P inp st1 ks) as [[[st2 c2] vs]|] eqn:E2; [| discriminate].
  inversion E; subst. eapply pre_trans; [eapply map_value_le; exact E1 | eapply IH; exact E2].
Qed.

Ltac le_step :=
  match goal with
  | E : context [map_values ?fx ?P ?inp ?st ?ks] |- _ =>
      let E1 := fresh "E" in let L := fresh "L" in
      destruct (map_values fx P inp st ks) as [[[? ?] ?]|] eqn:E1; [| cbv beta iota in E; discriminate E];
      pose proof (map_values_le _ _ _ _ _ _ _ _ E1) as L; clear E1
  | E : context [map_value ?fx ?P ?inp ?st ?k] |- _ =>
      let E1 := fresh "E" in let L := fresh "L" in
      destruct (map_value fx P inp st k) as [[[? ?] ?]|] eqn:E1; [| cbv beta iota in E; discriminate E];
      pose proof (map_value_le _ _ _ _ _ _ _ _ E1) as L; clear E1
  end.
Ltac le_done := unfold st_le in *; simpl in *; repeat (eapply pre_trans; [eassumption |]); try apply pre_refl.

Lemma gen_stmt_le : forall fx P inp root st s later st' c,
  gen_stmt fx P inp root st s later = Some (st', c) -> st_le st st'.
Proof.
  intros fx P inp root st s later st' c E. destruct s; cbn [gen_stmt] in E; cbv beta iota zeta delta [rtmp] in E.
  - inversion E; subst. apply pre_refl.
  - inversion E; subst. apply pre_refl.
  - repeat le_step. destruct tys as [|t tys].
    + destruct (existsb (is_replace_with l) later).
      * repeat le_step. cbv beta iota zeta delta [rtmp] in E. inversion E; subst. le_done.
      * inversion E; subst. le_done.
    + repeat le_step. inversion E; subst. le_done.
  - repeat le_step. inversion E; subst. le_done.
  - repeat le_step. inversion E; subst. le_done.
  - destruct (op_rtys root).
    + repeat le_step. inversion E; subst. le_done.
    + repeat le_step. inversion E; subst. le_done.
  - repeat le_step. inversion E; subst. le_done.
Qed.
Lemma gen_stmts_le : forall fx P inp root l st st' c,
  gen_stmts fx P inp root st l = Some (st', c) -> st_le st st'.
Proof.
  induction l as [|s l IH]; intros st st' c E; simpl in E; [inversion E; subst; apply pre_refl |].
  destruct (gen_stmt fx P inp root st s l) as [[st1 c1]|] eqn:E1; [| discriminate].
  destruct (gen_stmts fx P inp root st1 l) as [[st2 c2]|] eqn:E2; [| discriminate].
  inversion E; subst. eapply pre_trans; [eapply gen_stmt_le; exact E1 | eapply IH; exact E2].
Qed.

(* ================================================================== the simulation *)
Section Sim.
Variable fx : fixes.
Variable P : pattern.
Variable inp : inputs.
Variable rootpat : op_pat.
Variable pid : Z.            (* payload id of the matched root operation *)
Variable e0 : env.           (* bindings of the direct matcher *)
Variable regs0 : list (rreg * obj).   (* arguments of the rewriter function *)
Variable usedF : list pos.   (* positions handed over by record_match, in argument order *)

Hypothesis Herase : fx_erase fx = true.
Hypothesis Hrange : fx_range fx = true.
Hypothesis Hinfer : fx_infer fx = true.
Hypothesis Hnoloc : forall l, klookup inp (KLocal l) = None.
Hypothesis Hinj : forall k1 k2 p, klookup inp k1 = Some p -> klookup inp k2 = Some p -> k1 = k2.
(* argument j is the value the direct matcher bound to the pattern value recorded at the j-th used position *)
Hypothesis HArg : forall k p j, klookup inp k = Some p -> znth usedF j = Some p ->
                                exists v, klookup e0 k = Some v /\ rrlookup regs0 (RA j) = Some v.
(* a constant pdl.attribute / pdl.type is bound to its constant *)
Hypothesis HCa : forall a c v, p_aconst P a = Some c -> klookup e0 (KAttr a) = Some v -> v = OAttr c.
Hypothesis HCt : forall t c v, p_tconst P t = Some c -> klookup e0 (KType t) = Some v -> v = OType c.
Hypothesis Hroot : klookup e0 (KOp (op_id rootpat)) = Some (OOp pid).

Record Inv (e : env) (st : rg) (regs : list (rreg * obj)) : Prop := {
  I_vals : forall k r, klookup (rg_vals st) k = Some r -> exists v, klookup e k = Some v /\ rrlookup regs r = Some v;
  I_tmp : forall j v, rrlookup regs (RT j) = Some v -> j < rg_ntmp st;
  I_arg : forall j, rrlookup regs (RA j) = rrlookup regs0 (RA j);
  I_env : forall k, ~ localk k -> klookup e k = klookup e0 k;
  I_sync : rg_nargs st = zlen (rg_used st);
  I_used : forall p, In p (rg_used st) -> exists k j, klookup (rg_vals st) k = Some (RA j) /\ klookup inp k = Some p
}.

Definition steps (c : list rinstr) (regs regs' : list (rreg * obj)) : Prop :=
  forall rest pl, run_rewriter fx pid (c ++ rest) regs pl = run_rewriter fx pid rest regs' pl.
Lemma steps_nil : forall regs, steps [] regs regs.
Proof. intros regs rest pl. reflexivity. Qed.
Lemma steps_app : forall c1 c2 r1 r2 r3, steps c1 r1 r2 -> steps c2 r2 r3 -> steps (c1 ++ c2) r1 r3.
Proof. intros c1 c2 r1 r2 r3 H1 H2 rest pl. rewrite <- app_assoc, H1, H2. reflexivity. Qed.

(* a new operation of the rewriter function (register RT ntmp) whose result translates key k *)
Lemma Inv_cons : forall e e' st regs k w,
  Inv e st regs -> klookup e' k = Some w ->
  (forall k', k' <> k -> klookup e' k' = klookup e k') ->
  (forall k', ~ localk k' -> klookup e' k' = klookup e0 k') ->
  (klookup inp k = None \/ klookup (rg_vals st) k = None) ->
  Inv e' {| rg_vals := (k, RT (rg_ntmp st)) :: rg_vals st; rg_used := rg_used st; rg_nargs := rg_nargs st;
            rg_ntmp := rg_ntmp st + 1 |} ((RT (rg_ntmp st), w) :: regs).
Proof.
  intros e e' st regs k w [Hv Ht Ha He Hs Hu] Hk Hold Henv Hfr. constructor; cbn [rg_vals rg_used rg_nargs rg_ntmp].
  - intros k' r H. simpl in H. destruct (key_eqb k k') eqn:E.
    + apply key_eqb_eq in E. subst k'. inversion H; subst r. exists w. split; [exact Hk | apply rrlookup_cons_eq].
    + assert (Hne : k' <> k) by (intro X; subst; rewrite key_eqb_refl in E; discriminate).
      destruct (Hv _ _ H) as (v & H1 & H2). exists v. split; [rewrite Hold by exact Hne; exact H1 |].
      rewrite rrlookup_cons_neq; [exact H2 |]. intro Heq. subst r. apply Ht in H2. lia.
  - intros j v H. simpl in H. destruct (rg_ntmp st =? j) eqn:E; [apply Z.eqb_eq in E; lia | apply Ht in H; lia].
  - intros j. simpl. apply Ha.
  - exact Henv.
  - exact Hs.
  - intros p Hp. destruct (Hu p Hp) as (k' & j & H1 & H2). exists k', j. split; [| exact H2].
    simpl. destruct (key_eqb k k') eqn:E; [| exact H1].
    apply key_eqb_eq in E. subst k'. destruct Hfr as [Hfr | Hfr]; congruence.
Qed.
(* ... or translates nothing *)
Lemma Inv_tmp_none : forall e st regs w,
  Inv e st regs ->
  Inv e {| rg_vals := rg_vals st; rg_used := rg_used st; rg_nargs := rg_nargs st; rg_ntmp := rg_ntmp st + 1 |}
      ((RT (rg_ntmp st), w) :: regs).
Proof.
  intros e st regs w [Hv Ht Ha He Hs Hu]. constructor; cbn [rg_vals rg_used rg_nargs rg_ntmp]; auto.
  - intros k r H. destruct (Hv _ _ H) as (v & H1 & H2). exists v. split; [exact H1 |].
    rewrite rrlookup_cons_neq; [exact H2 |]. intro Heq. subst r. apply Ht in H2. lia.
  - intros j v H. simpl in H. destruct (rg_ntmp st =? j) eqn:E; [apply Z.eqb_eq in E; lia | apply Ht in H; lia].
Qed.

Definition ext (regs regs' : list (rreg * obj)) : Prop :=
  forall r v, rrlookup regs r = Some v -> rrlookup regs' r = Some v.
Lemma ext_refl : forall regs, ext regs regs.
Proof. intros regs r v H. exact H. Qed.
Lemma ext_trans : forall a b c, ext a b -> ext b c -> ext a c.
Proof. intros a b c H1 H2 r v H. apply H2, H1, H. Qed.
Lemma ext_tmp : forall e st regs w, Inv e st regs -> ext regs ((RT (rg_ntmp st), w) :: regs).
Proof.
  intros e st regs w HI r v H. rewrite rrlookup_cons_neq; [exact H |]. intro Heq. subst r.
  apply (I_tmp _ _ _ HI) in H. lia.
Qed.

(* map_rewrite_value for a key the direct rewrite finds bound to v *)
Lemma map_value_sim : forall e st regs k v st1 c r,
  Inv e st regs -> klookup e k = Some v ->
  map_value fx P inp st k = Some (st1, c, r) -> pre (rg_used st1) usedF ->
  exists regs1, steps c regs regs1 /\ Inv e st1 regs1 /\ rrlookup regs1 r = Some v /\ ext regs regs1.
Proof.
  intros e st regs k v st1 c r HI Hk E Hpre. unfold map_value in E.
  destruct (klookup (rg_vals st) k) as [r0|] eqn:Ev.
  { inversion E; subst. exists regs. split; [apply steps_nil | split; [exact HI | split; [| apply ext_refl]]].
    destruct (I_vals _ _ _ HI _ _ Ev) as (v' & H1 & H2). congruence. }
  match type of E with match ?cst with _ => _ end = _ => destruct cst as [mk|] eqn:Ec end.
  - (* constant: materialised in the rewriter *)
    unfold rtmp in E. inversion E; subst; clear E.
    assert (Hmk : exists w, mk (RT (rg_ntmp st)) = RCreateAttr (RT (rg_ntmp st)) w /\ v = OAttr w \/
                            mk (RT (rg_ntmp st)) = RCreateType (RT (rg_ntmp st)) w /\ v = OType w).
    { destruct k; try discriminate.
      - destruct (p_tconst P i) as [c0|] eqn:Et; [| discriminate]. inversion Ec; subst. exists c0. right. split; [reflexivity |].
        eapply HCt; [exact Et |]. rewrite <- (I_env _ _ _ HI (KType i)) by (intros []). exact Hk.
      - destruct (p_aconst P i) as [c0|] eqn:Ea; [| discriminate]. destruct (truthy c0 || fx_falsy fx); [| discriminate].
        inversion Ec; subst. exists c0. left. split; [reflexivity |].
        eapply HCa; [exact Ea |]. rewrite <- (I_env _ _ _ HI (KAttr i)) by (intros []). exact Hk. }
    destruct Hmk as (w & [[Hm ->] | [Hm ->]]).
    + eexists. split; [| split; [eapply Inv_cons; [exact HI | exact Hk | reflexivity | apply (I_env _ _ _ HI) | right; exact Ev] |
                                 split; [apply rrlookup_cons_eq | eapply ext_tmp; exact HI]]].
      intros rest pl. simpl app. rewrite Hm. reflexivity.
    + eexists. split; [| split; [eapply Inv_cons; [exact HI | exact Hk | reflexivity | apply (I_env _ _ _ HI) | right; exact Ev] |
                                 split; [apply rrlookup_cons_eq | eapply ext_tmp; exact HI]]].
      intros rest pl. simpl app. rewrite Hm. reflexivity.
  - (* an input from the matcher: a new function argument *)
    destruct (klookup inp k) as [p|] eqn:Ei; [| discriminate]. inversion E; subst; clear E.
    assert (Hnl : ~ localk k) by (intro H; destruct k; try contradiction; rewrite Hnoloc in Ei; discriminate).
    assert (Hnew : mem_pos p (rg_used st) = false).
    { destruct (mem_pos p (rg_used st)) eqn:Em; [| reflexivity]. apply mem_pos_In in Em.
      destruct (I_used _ _ _ HI _ Em) as (k' & j & H1 & H2). rewrite (Hinj _ _ _ H2 Ei) in H1. congruence. }
    cbn [rg_used] in Hpre. rewrite Hnew in Hpre.
    assert (Hz : znth usedF (rg_nargs st) = Some p).
    { destruct Hpre as [s ->]. apply znth_app_l. rewrite (I_sync _ _ _ HI). apply znth_last. }
    destruct (HArg _ _ _ Ei Hz) as (v' & H1 & H2).
    rewrite (I_env _ _ _ HI k Hnl) in Hk. assert (v' = v) by congruence. subst v'.
    exists regs. split; [apply steps_nil |]. split; [| split; [rewrite (I_arg _ _ _ HI); exact H2 | apply ext_refl]].
    + destruct HI as [Hv Ht Ha He Hs Hu]. constructor; cbn [rg_vals rg_used rg_nargs rg_ntmp].
      * intros k' r H. simpl in H. destruct (key_eqb k k') eqn:E.
        -- apply key_eqb_eq in E. subst k'. inversion H; subst r. exists v. split; [rewrite He by exact Hnl; exact H1 |].
           rewrite Ha. exact H2.
        -- apply Hv. exact H.
      * exact Ht.
      * exact Ha.
      * exact He.
      * rewrite Hnew. unfold zlen in *. rewrite app_length. simpl. lia.
      * rewrite Hnew. intros q Hq. apply in_app_iff in Hq. destruct Hq as [Hq | [<- | []]].
        -- destruct (Hu q Hq) as (k' & j & H3 & H4). exists k', j. split; [| exact H4].
           simpl. destruct (key_eqb k k') eqn:E; [apply key_eqb_eq in E; subst; congruence | exact H3].
        -- exists k, (rg_nargs st). split; [simpl; rewrite key_eqb_refl; reflexivity | exact Ei].
Qed.
Definition agree_kr (e : env) (regs : list (rreg * obj)) (k : key) (r : rreg) : Prop :=
  exists v, klookup e k = Some v /\ rrlookup regs r = Some v.

Lemma map_values_sim : forall ks e st regs st1 c rs,
  Inv e st regs -> Forall (fun k => klookup e k <> None) ks ->
  map_values fx P inp st ks = Some (st1, c, rs) -> pre (rg_used st1) usedF ->
  exists regs1, steps c regs regs1 /\ Inv e st1 regs1 /\ Forall2 (agree_kr e regs1) ks rs /\ ext regs regs1.
Proof.
  induction ks as [|k ks IH]; intros e st regs st1 c rs HI HF E Hpre; simpl in E.
  - inversion E; subst. exists regs. split; [apply steps_nil | split; [exact HI | split; [constructor | apply ext_refl]]].
  - destruct (map_value fx P inp st k) as [[[st2 c2] v]|] eqn:E1; [| discriminate].
    destruct (map_values fx P inp st2 ks) as [[[st3 c3] vs]|] eqn:E2; [| discriminate].
    inversion E; subst; clear E. inversion HF as [| ? ? Hk HF']; subst.
    destruct (klookup e k) as [w|] eqn:Ew; [| congruence].
    assert (Hpre2 : pre (rg_used st2) usedF) by (eapply pre_trans; [eapply map_values_le; exact E2 | exact Hpre]).
    destruct (map_value_sim _ _ _ _ _ _ _ _ HI Ew E1 Hpre2) as (regs2 & Hs2 & HI2 & Hr2 & Hx2).
    destruct (IH _ _ _ _ _ _ HI2 HF' E2 Hpre) as (regs3 & Hs3 & HI3 & HF3 & Hx3).
    exists regs3. split; [eapply steps_app; eassumption |]. split; [exact HI3 |]. split.
    + constructor; [| exact HF3]. exists w. split; [exact Ew | apply Hx3; exact Hr2].
    + eapply ext_trans; eassumption.
Qed.
Lemma all_some_nonnone : forall A B (f : A -> option B) l x,
  all_some (map f l) = Some x -> Forall (fun a => f a <> None) l.
Proof.
  intros A B f. induction l as [|a l IH]; intros x H; [constructor |]. simpl in H.
  destruct (f a) eqn:E; [| discriminate]. destruct (all_some (map f l)) eqn:E2; [| discriminate].
  constructor; [congruence | eapply IH; reflexivity].
Qed.
Lemma get_val_agree : forall e regs ks rs, Forall2 (agree_kr e regs) ks rs ->
  map (get_val e) ks = map (rr_val regs) rs.
Proof.
  intros e regs ks rs H. induction H as [| k r ks rs (v & H1 & H2) _ IH]; [reflexivity |].
  simpl. rewrite IH. unfold get_val, rr_val. rewrite H1, H2. reflexivity.
Qed.
Lemma get_type_agree : forall e regs ks rs ts, Forall2 (agree_kr e regs) ks rs ->
  all_some (map (get_type e) ks) = Some ts -> rr_types fx regs rs = Some ts.
Proof.
  intros e regs ks rs ts H. revert ts. induction H as [| k r ks rs (v & H1 & H2) _ IH]; intros ts Ha.
  - simpl in *. exact Ha.
  - simpl in Ha. unfold get_type in Ha at 1. rewrite H1 in Ha. destruct v; try discriminate.
    destruct (all_some (map (get_type e) ks)) as [ts'|] eqn:E; [| discriminate]. inversion Ha; subst.
    simpl. rewrite H2, (IH _ eq_refl). reflexivity.
Qed.
Lemma get_attr_agree : forall e regs (attrs : list (Z * aref)) ra,
  Forall2 (agree_kr e regs) (map (fun na => aref_key (snd na)) attrs) ra ->
  map (fun na : Z * rreg => match rr_attr regs (snd na) with Some a => Some (fst na, a) | None => None end)
      (combine (map fst attrs) ra) =
  map (fun na : Z * aref => match get_attr e (aref_key (snd na)) with Some a => Some (fst na, a) | None => None end) attrs.
Proof.
  intros e regs attrs. induction attrs as [|[n a] attrs IH]; intros ra H; [reflexivity |].
  simpl in H. inversion H as [| ? r ? ra' (v & H1 & H2) HF]; subst. simpl. rewrite (IH _ HF).
  unfold rr_attr, get_attr. simpl. rewrite H1, H2. reflexivity.
Qed.
Lemma key_bound_val : forall e ks x, all_some (map (get_val e) ks) = Some x -> Forall (fun k => klookup e k <> None) ks.
Proof.
  intros e ks x H. apply all_some_nonnone in H. eapply Forall_impl; [| exact H].
  intros k Hk. unfold get_val in Hk. destruct (klookup e k); congruence.
Qed.
Lemma key_bound_type : forall e ks x, all_some (map (get_type e) ks) = Some x -> Forall (fun k => klookup e k <> None) ks.
Proof.
  intros e ks x H. apply all_some_nonnone in H. eapply Forall_impl; [| exact H].
  intros k Hk. unfold get_type in Hk. destruct (klookup e k); congruence.
Qed.
Lemma key_bound_attr : forall e (attrs : list (Z * aref)) x,
  all_some (map (fun na : Z * aref => match get_attr e (aref_key (snd na)) with Some a => Some (fst na, a) | None => None end) attrs) = Some x ->
  Forall (fun k => klookup e k <> None) (map (fun na => aref_key (snd na)) attrs).
Proof.
  intros e attrs x H. apply all_some_nonnone in H. apply Forall_map. eapply Forall_impl; [| exact H].
  intros [n a] Hk. simpl in *. unfold get_attr in Hk. destruct (klookup e (aref_key a)); congruence.
Qed.

Lemma vtype_results_gen : forall pl x l k,
  find_op pl (o_id x) = Some x -> 0 <= k ->
  (forall j, 0 <= j -> znth l j = znth (o_rtys x) (k + j)) ->
  map (vtype pl) (results_of (o_id x) (length l) k) = l.
Proof.
  intros pl x. induction l as [|y l IH]; intros k Hx Hk Hl; [reflexivity |].
  simpl. rewrite Hx. rewrite <- (Z.add_0_r k), <- Hl by lia. simpl. f_equal.
  apply IH; [exact Hx | lia |]. intros j Hj. rewrite <- (znth_cons_S _ y l j Hj), Hl by lia. f_equal. lia.
Qed.
Lemma vtype_results : forall pl x, find_op pl (o_id x) = Some x -> map (vtype pl) (op_results x) = o_rtys x.
Proof. intros pl x Hx. unfold op_results. apply vtype_results_gen; [exact Hx | lia | intros j Hj; reflexivity]. Qed.
End Sim.
