(* C27/ProofsChain.v -- the matcher chain generated for ANY ordered predicate list, run by the pdl_interp
   abstract machine, computes the sequential evaluation of the predicates under the position semantics
   `eval_pos` (Spec of MatcherGenerator.get_value_at + generate_bool_node + the interpreter functions). *)
From Coq Require Import ZArith List Bool Lia.
From XV Require Import C27.Model.
Import ListNotations.
Local Open Scope Z_scope.

(* ------------------------------------------------------------------ Spec: what a position / predicate denotes *)
Section Sem.
Variable fx : fixes.
Variable pl : payload.
Variable root : Z.

(* None = the interpreter function asserts / raises *)
Fixpoint eval_pos (p : pos) : option obj :=
  match p with
  | PRoot => Some (OOp root)
  | POperand q i =>
      match as_op pl (eval_pos q) with
      | Some x => Some (match znth (o_operands x) i with Some v => OVal v | None => ONull end)
      | None => None
      end
  | PDefOp q =>
      match eval_pos q with
      | Some ONull => Some ONull
      | Some (OVal (VRes pid _)) => Some (match find_op pl pid with Some _ => OOp pid | None => ONull end)
      | Some (OVal (VArg _)) => Some ONull
      | _ => None
      end
  | PResult q i =>
      match as_op pl (eval_pos q) with
      | Some x => Some (if (0 <=? i) && (i <? zlen (o_rtys x)) then OVal (VRes (o_id x) i) else ONull)
      | None => None
      end
  | PAttr q n =>
      match as_op pl (eval_pos q) with
      | Some x => Some (match (if fx_attrorder fx then get_attr_or_prop x n else get_attr_then_prop x n) with
                        | Some a => OAttr a | None => ONull end)
      | None => None
      end
  | PType q =>
      match eval_pos q with
      | Some (OVal v) => Some (OType (vtype pl v))
      | _ => None
      end
  end.

Definition eval_quest (v : obj) (q : quest) : option bool :=
  match q with
  | QNotNull => Some (negb (obj_eqb v ONull))
  | QName n => match as_op pl (Some v) with Some x => Some (o_name x =? n) | None => None end
  | QOperandCount n => match as_op pl (Some v) with Some x => Some (zlen (o_operands x) =? n) | None => None end
  | QResultCount n => match as_op pl (Some v) with Some x => Some (zlen (o_rtys x) =? n) | None => None end
  | QEqual other => match eval_pos other with Some w => Some (obj_eqb v w) | None => None end
  | QAttr a => Some (obj_eqb v (OAttr a))
  | QType t => Some (obj_eqb v (OType t))
  end.
Definition eval_pred (pq : pred) : option bool :=
  match eval_pos (fst pq) with
  | Some v => eval_quest v (snd pq)
  | None => None
  end.

(* the predicates one after the other, then the values handed to the rewriter *)
Fixpoint seq_eval (preds : list pred) (used : list pos) : ires :=
  match preds with
  | [] => match all_some (map eval_pos used) with Some l => IMatch l | None => IErr end
  | pq :: r => match eval_pred pq with
               | Some true => seq_eval r used
               | Some false => INoMatch
               | None => IErr
               end
  end.

(* ------------------------------------------------------------------ basic facts *)
Lemma pos_eqb_eq : forall a b, pos_eqb a b = true <-> a = b.
Proof.
  induction a; destruct b; simpl; try (split; [discriminate | intro H; discriminate H]); try tauto.
  - rewrite andb_true_iff, Z.eqb_eq, IHa. split; [intros [-> ->]; reflexivity | intro H; inversion H; auto].
  - rewrite IHa. split; [intros ->; reflexivity | intro H; inversion H; auto].
  - rewrite andb_true_iff, Z.eqb_eq, IHa. split; [intros [-> ->]; reflexivity | intro H; inversion H; auto].
  - rewrite andb_true_iff, Z.eqb_eq, IHa. split; [intros [-> ->]; reflexivity | intro H; inversion H; auto].
  - rewrite IHa. split; [intros ->; reflexivity | intro H; inversion H; auto].
Qed.
Lemma pos_eqb_refl : forall a, pos_eqb a a = true.
Proof. intro a. apply pos_eqb_eq. reflexivity. Qed.

(* code generation invariant: every cached position holds its denotation in a register below cg_next *)
Definition cg_ok (st : cg) (regs : list (Z * obj)) : Prop :=
  plookup (cg_vals st) PRoot = Some 0 /\
  (forall p r, plookup (cg_vals st) p = Some r ->
               r < cg_next st /\ exists v, eval_pos p = Some v /\ rlookup regs r = Some v) /\
  (forall r v, rlookup regs r = Some v -> r < cg_next st).

Lemma plookup_cons_eq : forall l p r, plookup ((p, r) :: l) p = Some r.
Proof. intros. simpl. rewrite pos_eqb_refl. reflexivity. Qed.
Lemma plookup_cons_neq : forall l p q r, p <> q -> plookup ((p, r) :: l) q = plookup l q.
Proof.
  intros l p q r H. simpl. destruct (pos_eqb p q) eqn:E; [apply pos_eqb_eq in E; contradiction | reflexivity].
Qed.

Lemma cg_ok_alloc : forall st regs p v,
  cg_ok st regs -> eval_pos p = Some v -> p <> PRoot ->
  cg_ok {| cg_vals := (p, cg_next st) :: cg_vals st; cg_next := cg_next st + 1 |} ((cg_next st, v) :: regs).
Proof.
  intros st regs p v (Hroot & Hvals & Hregs) Hev Hp. unfold cg_ok. simpl cg_vals. simpl cg_next. split; [| split].
  - destruct (pos_eqb p PRoot) eqn:E.
    + apply pos_eqb_eq in E. contradiction.
    + simpl. rewrite E. exact Hroot.
  - intros q r Hq. simpl in Hq. destruct (pos_eqb p q) eqn:E.
    + apply pos_eqb_eq in E. subst q. inversion Hq; subst r. split; [lia |].
      exists v. split; [exact Hev |]. simpl. rewrite Z.eqb_refl. reflexivity.
    + destruct (Hvals _ _ Hq) as [Hlt (w & Hw & Hr)]. split; [lia |].
      exists w. split; [exact Hw |]. simpl. destruct (cg_next st =? r) eqn:E2; [apply Z.eqb_eq in E2; lia | exact Hr].
  - intros r w Hr. simpl in Hr. destruct (cg_next st =? r) eqn:E; [apply Z.eqb_eq in E; lia |].
    specialize (Hregs _ _ Hr). lia.
Qed.

(* running a block of "get" instructions *)
Lemma run_matcher_get : forall regs i rest,
  is_get i = true ->
  run_matcher fx pl regs (i :: rest) =
  match run_get fx pl regs i with Some b => run_matcher fx pl (b :: regs) rest | None => IErr end.
Proof. intros regs i rest H. destruct i; simpl in H; try discriminate; reflexivity. Qed.

Lemma run_matcher_check : forall regs i rest,
  is_get i = false -> (forall a, i <> IRecordMatch a) ->
  run_matcher fx pl regs (i :: rest) =
  match run_check pl regs i with
  | Some true => run_matcher fx pl regs rest | Some false => INoMatch | None => IErr end.
Proof.
  intros regs i rest H Hn. destruct i; simpl in H; try discriminate; try reflexivity.
  exfalso. eapply Hn. reflexivity.
Qed.

(* what one generation step guarantees about the execution of the code it emitted *)
Definition steps_to (regs : list (Z * obj)) (c : list instr) (regs' : list (Z * obj)) : Prop :=
  forall rest, run_matcher fx pl regs (c ++ rest) = run_matcher fx pl regs' rest.
Definition raises (regs : list (Z * obj)) (c : list instr) : Prop :=
  forall rest, run_matcher fx pl regs (c ++ rest) = IErr.

Lemma steps_to_nil : forall regs, steps_to regs [] regs.
Proof. intros regs rest. reflexivity. Qed.
Lemma steps_to_app : forall r1 c1 r2 c2 r3, steps_to r1 c1 r2 -> steps_to r2 c2 r3 -> steps_to r1 (c1 ++ c2) r3.
Proof. intros r1 c1 r2 c2 r3 H1 H2 rest. rewrite <- app_assoc, H1, H2. reflexivity. Qed.
Lemma raises_app_l : forall r1 c1 c2, raises r1 c1 -> raises r1 (c1 ++ c2).
Proof. intros r1 c1 c2 H rest. rewrite <- app_assoc. apply H. Qed.
Lemma raises_app_r : forall r1 c1 r2 c2, steps_to r1 c1 r2 -> raises r2 c2 -> raises r1 (c1 ++ c2).
Proof. intros r1 c1 r2 c2 H1 H2 rest. rewrite <- app_assoc, H1. apply H2. Qed.

Definition reg_ext (regs regs' : list (Z * obj)) : Prop :=
  forall r v, rlookup regs r = Some v -> rlookup regs' r = Some v.
Lemma reg_ext_refl : forall regs, reg_ext regs regs.
Proof. intros regs r v H. exact H. Qed.
Lemma reg_ext_trans : forall a b c, reg_ext a b -> reg_ext b c -> reg_ext a c.
Proof. intros a b c H1 H2 r v H. apply H2, H1, H. Qed.
Lemma reg_ext_cons : forall st regs regs1 w,
  cg_ok st regs1 -> reg_ext regs regs1 -> reg_ext regs ((cg_next st, w) :: regs1).
Proof.
  intros st regs regs1 w (_ & _ & Hregs) Hext r v H. apply Hext in H. simpl.
  destruct (cg_next st =? r) eqn:E; [apply Z.eqb_eq in E; apply Hregs in H; lia | exact H].
Qed.

(* get_value_at *)
Lemma get_value_at_ok : forall p st regs st' c r,
  cg_ok st regs -> get_value_at st p = (st', c, r) ->
  match eval_pos p with
  | Some v => exists regs', steps_to regs c regs' /\ cg_ok st' regs' /\ rlookup regs' r = Some v /\
                            plookup (cg_vals st') p = Some r /\ reg_ext regs regs'
  | None => raises regs c
  end.
Proof.
  induction p; intros st regs st' c r Hok Hg.
  - (* PRoot *)
    pose proof Hok as (Hroot & Hvals & Hregs). simpl in Hg. rewrite Hroot in Hg. inversion Hg; subst.
    simpl. destruct (Hvals _ _ Hroot) as [_ (v & Hv & Hr)]. simpl in Hv. inversion Hv; subst v.
    exists regs. split; [apply steps_to_nil | split; [exact Hok | split; [exact Hr | split; [exact Hroot | apply reg_ext_refl]]]].
  - (* POperand *)
    cbn [get_value_at] in Hg. destruct (plookup (cg_vals st) (POperand p i)) as [r0|] eqn:Hc.
    { inversion Hg; subst. pose proof Hok as (Hroot & Hvals & Hregs). destruct (Hvals _ _ Hc) as [_ (v & Hv & Hr)].
      rewrite Hv. exists regs. split; [apply steps_to_nil | split; [exact Hok | split; [exact Hr | split; [exact Hc | apply reg_ext_refl]]]]. }
    destruct (get_value_at st p) as [[st1 c1] rq] eqn:Hq. unfold alloc in Hg. inversion Hg; subst; clear Hg.
    specialize (IHp _ _ _ _ _ Hok Hq). cbn [eval_pos].
    destruct (eval_pos p) as [vq|] eqn:Evq; [| simpl; apply raises_app_l; exact IHp].
    destruct IHp as (regs1 & Hst & Hok1 & Hrq & _ & Hext).
    destruct (as_op pl (Some vq)) as [x|] eqn:Ex.
    + eexists. split; [| split; [apply cg_ok_alloc; [exact Hok1 | cbn [eval_pos]; rewrite Evq, Ex; reflexivity | discriminate] |]].
      * eapply steps_to_app; [exact Hst |]. intro rest. simpl app. rewrite run_matcher_get by reflexivity.
        simpl run_get. rewrite Hrq, Ex. reflexivity.
      * split; [simpl; rewrite Z.eqb_refl; reflexivity | split; [simpl; rewrite Z.eqb_refl, pos_eqb_refl; reflexivity | apply reg_ext_cons; assumption]].
    + eapply raises_app_r; [exact Hst |]. intro rest. simpl app. rewrite run_matcher_get by reflexivity.
      simpl run_get. rewrite Hrq, Ex. reflexivity.
  - (* PDefOp *)
    cbn [get_value_at] in Hg. destruct (plookup (cg_vals st) (PDefOp p)) as [r0|] eqn:Hc.
    { inversion Hg; subst. pose proof Hok as (Hroot & Hvals & Hregs). destruct (Hvals _ _ Hc) as [_ (v & Hv & Hr)].
      rewrite Hv. exists regs. split; [apply steps_to_nil | split; [exact Hok | split; [exact Hr | split; [exact Hc | apply reg_ext_refl]]]]. }
    destruct (get_value_at st p) as [[st1 c1] rq] eqn:Hq. unfold alloc in Hg. inversion Hg; subst; clear Hg.
    specialize (IHp _ _ _ _ _ Hok Hq). cbn [eval_pos].
    destruct (eval_pos p) as [vq|] eqn:Evq; [| simpl; apply raises_app_l; exact IHp].
    destruct IHp as (regs1 & Hst & Hok1 & Hrq & _ & Hext).
    assert (Hgen : forall w, eval_pos (PDefOp p) = Some w -> run_get fx pl regs1 (IGetDefOp (cg_next st1) rq) = Some (cg_next st1, w)).
    { intros w Hw. cbn [eval_pos] in Hw. rewrite Evq in Hw. simpl run_get. rewrite Hrq.
      destruct vq as [| | [k|pid k] | | | |]; try discriminate; inversion Hw; reflexivity. }
    assert (Hnone : eval_pos (PDefOp p) = None -> run_get fx pl regs1 (IGetDefOp (cg_next st1) rq) = None).
    { intros Hw. cbn [eval_pos] in Hw. rewrite Evq in Hw. simpl run_get. rewrite Hrq.
      destruct vq as [| | [k|pid k] | | | |]; try discriminate; reflexivity. }
    cbn [eval_pos] in Hgen, Hnone. rewrite Evq in Hgen, Hnone.
    match goal with |- match ?e with _ => _ end => destruct e as [w|] eqn:Ew end.
    + eexists. split; [| split; [apply cg_ok_alloc; [exact Hok1 | cbn [eval_pos]; rewrite Evq; exact Ew | discriminate] |]].
      * eapply steps_to_app; [exact Hst |]. intro rest. simpl app. rewrite run_matcher_get by reflexivity.
        rewrite (Hgen _ eq_refl). reflexivity.
      * split; [simpl; rewrite Z.eqb_refl; reflexivity | split; [simpl; rewrite pos_eqb_refl; reflexivity | apply reg_ext_cons; assumption]].
    + eapply raises_app_r; [exact Hst |]. intro rest. simpl app. rewrite run_matcher_get by reflexivity.
      rewrite (Hnone eq_refl). reflexivity.
  - (* PResult *)
    cbn [get_value_at] in Hg. destruct (plookup (cg_vals st) (PResult p i)) as [r0|] eqn:Hc.
    { inversion Hg; subst. pose proof Hok as (Hroot & Hvals & Hregs). destruct (Hvals _ _ Hc) as [_ (v & Hv & Hr)].
      rewrite Hv. exists regs. split; [apply steps_to_nil | split; [exact Hok | split; [exact Hr | split; [exact Hc | apply reg_ext_refl]]]]. }
    destruct (get_value_at st p) as [[st1 c1] rq] eqn:Hq. unfold alloc in Hg. inversion Hg; subst; clear Hg.
    specialize (IHp _ _ _ _ _ Hok Hq). cbn [eval_pos].
    destruct (eval_pos p) as [vq|] eqn:Evq; [| simpl; apply raises_app_l; exact IHp].
    destruct IHp as (regs1 & Hst & Hok1 & Hrq & _ & Hext).
    destruct (as_op pl (Some vq)) as [x|] eqn:Ex.
    + eexists. split; [| split; [apply cg_ok_alloc; [exact Hok1 | cbn [eval_pos]; rewrite Evq, Ex; reflexivity | discriminate] |]].
      * eapply steps_to_app; [exact Hst |]. intro rest. simpl app. rewrite run_matcher_get by reflexivity.
        simpl run_get. rewrite Hrq, Ex. reflexivity.
      * split; [simpl; rewrite Z.eqb_refl; reflexivity | split; [simpl; rewrite Z.eqb_refl, pos_eqb_refl; reflexivity | apply reg_ext_cons; assumption]].
    + eapply raises_app_r; [exact Hst |]. intro rest. simpl app. rewrite run_matcher_get by reflexivity.
      simpl run_get. rewrite Hrq, Ex. reflexivity.
  - (* PAttr *)
    cbn [get_value_at] in Hg. destruct (plookup (cg_vals st) (PAttr p n)) as [r0|] eqn:Hc.
    { inversion Hg; subst. pose proof Hok as (Hroot & Hvals & Hregs). destruct (Hvals _ _ Hc) as [_ (v & Hv & Hr)].
      rewrite Hv. exists regs. split; [apply steps_to_nil | split; [exact Hok | split; [exact Hr | split; [exact Hc | apply reg_ext_refl]]]]. }
    destruct (get_value_at st p) as [[st1 c1] rq] eqn:Hq. unfold alloc in Hg. inversion Hg; subst; clear Hg.
    specialize (IHp _ _ _ _ _ Hok Hq). cbn [eval_pos].
    destruct (eval_pos p) as [vq|] eqn:Evq; [| simpl; apply raises_app_l; exact IHp].
    destruct IHp as (regs1 & Hst & Hok1 & Hrq & _ & Hext).
    destruct (as_op pl (Some vq)) as [x|] eqn:Ex.
    + eexists. split; [| split; [apply cg_ok_alloc; [exact Hok1 | cbn [eval_pos]; rewrite Evq, Ex; reflexivity | discriminate] |]].
      * eapply steps_to_app; [exact Hst |]. intro rest. simpl app. rewrite run_matcher_get by reflexivity.
        simpl run_get. rewrite Hrq, Ex. reflexivity.
      * split; [simpl; rewrite Z.eqb_refl; reflexivity | split; [simpl; rewrite Z.eqb_refl, pos_eqb_refl; reflexivity | apply reg_ext_cons; assumption]].
    + eapply raises_app_r; [exact Hst |]. intro rest. simpl app. rewrite run_matcher_get by reflexivity.
      simpl run_get. rewrite Hrq, Ex. reflexivity.
  - (* PType *)
    cbn [get_value_at] in Hg. destruct (plookup (cg_vals st) (PType p)) as [r0|] eqn:Hc.
    { inversion Hg; subst. pose proof Hok as (Hroot & Hvals & Hregs). destruct (Hvals _ _ Hc) as [_ (v & Hv & Hr)].
      rewrite Hv. exists regs. split; [apply steps_to_nil | split; [exact Hok | split; [exact Hr | split; [exact Hc | apply reg_ext_refl]]]]. }
    destruct (get_value_at st p) as [[st1 c1] rq] eqn:Hq. unfold alloc in Hg. inversion Hg; subst; clear Hg.
    specialize (IHp _ _ _ _ _ Hok Hq). cbn [eval_pos].
    destruct (eval_pos p) as [vq|] eqn:Evq; [| simpl; apply raises_app_l; exact IHp].
    destruct IHp as (regs1 & Hst & Hok1 & Hrq & _ & Hext).
    destruct vq as [| | v | | | |];
      try (eapply raises_app_r; [exact Hst |]; intro rest; simpl app; rewrite run_matcher_get by reflexivity;
           simpl run_get; rewrite Hrq; reflexivity).
    eexists. split; [| split; [apply cg_ok_alloc; [exact Hok1 | cbn [eval_pos]; rewrite Evq; reflexivity | discriminate] |]].
    * eapply steps_to_app; [exact Hst |]. intro rest. simpl app. rewrite run_matcher_get by reflexivity.
      simpl run_get. rewrite Hrq. reflexivity.
    * split; [simpl; rewrite Z.eqb_refl; reflexivity | split; [simpl; rewrite pos_eqb_refl; reflexivity | apply reg_ext_cons; assumption]].
Qed.

(* a check instruction whose operand register holds v *)
Lemma check_step : forall regs i b rest,
  is_get i = false -> (forall a, i <> IRecordMatch a) -> run_check pl regs i = b ->
  run_matcher fx pl regs (i :: rest) =
  match b with Some true => run_matcher fx pl regs rest | Some false => INoMatch | None => IErr end.
Proof. intros regs i b rest H1 H2 <-. apply run_matcher_check; assumption. Qed.

Definition fails (regs : list (Z * obj)) (c : list instr) : Prop :=
  forall rest, run_matcher fx pl regs (c ++ rest) = INoMatch.

(* generate_bool_node *)
Lemma gen_pred_ok : forall pq st regs st' c,
  cg_ok st regs -> gen_pred st pq = (st', c) ->
  match eval_pred pq with
  | Some true => exists regs', steps_to regs c regs' /\ cg_ok st' regs'
  | Some false => fails regs c
  | None => raises regs c
  end.
Proof.
  intros [p q] st regs st' c Hok Hg. unfold gen_pred in Hg. cbn [fst snd] in Hg.
  destruct (get_value_at st p) as [[st1 c1] v] eqn:Hp.
  pose proof (get_value_at_ok _ _ _ _ _ _ Hok Hp) as H1.
  unfold eval_pred. cbn [fst snd].
  destruct (eval_pos p) as [vp|] eqn:Ep.
  2:{ destruct q; try (inversion Hg; subst; apply raises_app_l; exact H1).
      destruct (get_value_at st1 other) as [[st2 c2] w]. inversion Hg; subst. apply raises_app_l; exact H1. }
  destruct H1 as (regs1 & Hst1 & Hok1 & Hv & _ & _).
  assert (Hsimple : forall i b, is_get i = false -> (forall a, i <> IRecordMatch a) ->
            run_check pl regs1 i = b -> st' = st1 -> c = c1 ++ [i] ->
            match b with
            | Some true => exists regs', steps_to regs c regs' /\ cg_ok st' regs'
            | Some false => fails regs c
            | None => raises regs c
            end).
  { intros i b Hi1 Hi2 Hb -> ->. destruct b as [[|]|].
    - exists regs1. split; [| exact Hok1]. eapply steps_to_app; [exact Hst1 |].
      intro rest. simpl app. rewrite (check_step _ _ _ _ Hi1 Hi2 Hb). reflexivity.
    - intro rest. rewrite <- app_assoc, Hst1. simpl app. rewrite (check_step _ _ _ _ Hi1 Hi2 Hb). reflexivity.
    - intro rest. rewrite <- app_assoc, Hst1. simpl app. rewrite (check_step _ _ _ _ Hi1 Hi2 Hb). reflexivity. }
  destruct q; cbn [eval_quest].
  - inversion Hg; subst. apply (Hsimple (IIsNotNull v) (Some (negb (obj_eqb vp ONull)))); try reflexivity; try (intros a Ha; discriminate Ha).
    simpl. rewrite Hv. reflexivity.
  - inversion Hg; subst. apply (Hsimple (ICheckName v n) (match as_op pl (Some vp) with Some x => Some (o_name x =? n) | None => None end)); try reflexivity; try (intros a Ha; discriminate Ha).
    cbn [run_check]. rewrite Hv. reflexivity.
  - inversion Hg; subst. apply (Hsimple (ICheckOperandCount v n) (match as_op pl (Some vp) with Some x => Some (zlen (o_operands x) =? n) | None => None end)); try reflexivity; try (intros a Ha; discriminate Ha).
    cbn [run_check]. rewrite Hv. reflexivity.
  - inversion Hg; subst. apply (Hsimple (ICheckResultCount v n) (match as_op pl (Some vp) with Some x => Some (zlen (o_rtys x) =? n) | None => None end)); try reflexivity; try (intros a Ha; discriminate Ha).
    cbn [run_check]. rewrite Hv. reflexivity.
  - (* QEqual *)
    destruct (get_value_at st1 other) as [[st2 c2] w] eqn:Ho. inversion Hg; subst; clear Hg.
    pose proof (get_value_at_ok _ _ _ _ _ _ Hok1 Ho) as H2.
    destruct (eval_pos other) as [vo|] eqn:Eo.
    2:{ eapply raises_app_r; [exact Hst1 |]. apply raises_app_l. exact H2. }
    destruct H2 as (regs2 & Hst2 & Hok2 & Hw & _ & Hext2).
    assert (Hv2 : rlookup regs2 v = Some vp) by (apply Hext2; exact Hv).
    destruct (obj_eqb vp vo) eqn:Eq.
    + exists regs2. split; [| exact Hok2].
      eapply steps_to_app; [exact Hst1 |]. eapply steps_to_app; [exact Hst2 |].
      intro rest. simpl app. rewrite run_matcher_check; [| reflexivity | intros a Ha; discriminate Ha].
      simpl. rewrite Hv2, Hw, Eq. reflexivity.
    + intro rest. rewrite <- app_assoc, Hst1, <- app_assoc, Hst2. simpl app.
      rewrite run_matcher_check; [| reflexivity | intros a Ha; discriminate Ha].
      simpl. rewrite Hv2, Hw, Eq. reflexivity.
  - inversion Hg; subst. apply (Hsimple (ICheckAttr v a) (Some (obj_eqb vp (OAttr a)))); try reflexivity; try (intros b Hb; discriminate Hb).
    simpl. rewrite Hv. reflexivity.
  - inversion Hg; subst. apply (Hsimple (ICheckType v t) (Some (obj_eqb vp (OType t)))); try reflexivity; try (intros b Hb; discriminate Hb).
    simpl. rewrite Hv. reflexivity.
Qed.

Lemma fails_app_l : forall r1 c1 c2, fails r1 c1 -> fails r1 (c1 ++ c2).
Proof. intros r1 c1 c2 H rest. rewrite <- app_assoc. apply H. Qed.
Lemma fails_app_r : forall r1 c1 r2 c2, steps_to r1 c1 r2 -> fails r2 c2 -> fails r1 (c1 ++ c2).
Proof. intros r1 c1 r2 c2 H1 H2 rest. rewrite <- app_assoc, H1. apply H2. Qed.

(* the values handed to record_match *)
Lemma get_values_at_ok : forall ps st regs st' c rs,
  cg_ok st regs -> get_values_at st ps = (st', c, rs) ->
  match all_some (map eval_pos ps) with
  | Some vs => exists regs', steps_to regs c regs' /\ cg_ok st' regs' /\
                             all_some (map (rlookup regs') rs) = Some vs /\ reg_ext regs regs'
  | None => raises regs c
  end.
Proof.
  induction ps as [|p ps IH]; intros st regs st' c rs Hok Hg.
  - simpl in Hg. inversion Hg; subst. simpl. exists regs.
    split; [apply steps_to_nil | split; [exact Hok | split; [reflexivity | apply reg_ext_refl]]].
  - cbn [get_values_at] in Hg. destruct (get_value_at st p) as [[st1 c1] v] eqn:Hp.
    destruct (get_values_at st1 ps) as [[st2 c2] vs] eqn:Hps. inversion Hg; subst; clear Hg.
    pose proof (get_value_at_ok _ _ _ _ _ _ Hok Hp) as H1. cbn [map all_some].
    destruct (eval_pos p) as [vp|] eqn:Ep; [| apply raises_app_l; exact H1].
    destruct H1 as (regs1 & Hst1 & Hok1 & Hv & _ & Hext1).
    specialize (IH _ _ _ _ _ Hok1 Hps).
    destruct (all_some (map eval_pos ps)) as [ws|] eqn:Ews.
    + destruct IH as (regs2 & Hst2 & Hok2 & Hall & Hext2).
      exists regs2. split; [eapply steps_to_app; eassumption | split; [exact Hok2 | split]].
      * cbn [map all_some]. rewrite (Hext2 _ _ Hv), Hall. reflexivity.
      * eapply reg_ext_trans; eassumption.
    + eapply raises_app_r; eassumption.
Qed.

(* the whole predicate list *)
Lemma gen_preds_ok : forall preds st regs st' c used,
  cg_ok st regs -> gen_preds st preds = (st', c) ->
  forall c2 rs st2, get_values_at st' used = (st2, c2, rs) ->
  run_matcher fx pl regs (c ++ c2 ++ [IRecordMatch rs]) = seq_eval preds used.
Proof.
  induction preds as [|pq preds IH]; intros st regs st' c used Hok Hg c2 rs st2 Hu.
  - simpl in Hg. inversion Hg; subst. simpl app. cbn [seq_eval].
    pose proof (get_values_at_ok _ _ _ _ _ _ Hok Hu) as H.
    destruct (all_some (map eval_pos used)) as [vs|].
    + destruct H as (regs' & Hst & _ & Hall & _). rewrite Hst. simpl. rewrite Hall. reflexivity.
    + apply H.
  - cbn [gen_preds] in Hg. destruct (gen_pred st pq) as [st1 c1] eqn:H1.
    destruct (gen_preds st1 preds) as [st3 c3] eqn:H3. inversion Hg; subst; clear Hg.
    pose proof (gen_pred_ok _ _ _ _ _ Hok H1) as Hp. cbn [seq_eval]. rewrite <- app_assoc.
    destruct (eval_pred pq) as [[|]|].
    + destruct Hp as (regs1 & Hst1 & Hok1). rewrite Hst1. eapply IH; eassumption.
    + apply Hp.
    + apply Hp.
Qed.

Lemma cg_init_ok : cg_ok cg_init [(0, OOp root)].
Proof.
  unfold cg_ok, cg_init. simpl. split; [reflexivity | split].
  - intros p r H. destruct p; simpl in H; try discriminate. inversion H; subst. split; [lia |].
    exists (OOp root). split; reflexivity.
  - intros r v H. destruct r; simpl in H; try discriminate H. simpl. lia.
Qed.

(* T1: the generated chain, run by the machine, IS the sequential evaluation of the predicates *)
Theorem chain_sound : forall preds used,
  run_matcher fx pl [(0, OOp root)] (gen_matcher preds used) = seq_eval preds used.
Proof.
  intros preds used. unfold gen_matcher.
  destruct (gen_preds cg_init preds) as [st c1] eqn:H1.
  destruct (get_values_at st used) as [[st1 c2] args] eqn:H2.
  eapply gen_preds_ok; [apply cg_init_ok | exact H1 | exact H2].
Qed.

End Sem.
