(* C27/ProofsRewriteTop.v -- C27_rewrite_equiv (partial): whenever the direct application of a pattern rewrites the
   payload, the converted matcher + rewriter produce the same payload. *)
From Coq Require Import ZArith List Bool Lia.
From XV Require Import C27.Model C27.ProofsChain C27.ProofsOrder C27.ProofsMatch C27.ProofsEnv C27.ProofsRewrite C27.Proofs.
Import ListNotations.
Local Open Scope Z_scope.

(* ------------------------------------------------------------------ the executable static side condition *)
Fixpoint nodup_pos (l : list pos) : bool :=
  match l with [] => true | p :: r => negb (mem_pos p r) && nodup_pos r end.
Definition nonlocal_entry (kp : key * pos) : bool := match fst kp with KLocal _ => false | _ => true end.
(* - the conversion recorded every pattern value at its own position (what makes the argument list of the
     rewriter function line up with the positions handed over by record_match), no local value among them,
   - as many rewriter arguments as positions *)
Definition rewrite_static_ok (fx : fixes) (P : pattern) : bool :=
  let '(preds, inp) := extract fx P in
  nodup_pos (map snd inp) && forallb nonlocal_entry inp &&
  match gen_stmts fx P inp (p_root P) rg_init (p_rw P) with
  | Some (st, _) => rg_nargs st =? zlen (rg_used st)
  | None => false
  end.

Lemma klookup_In : forall A (l : list (key * A)) k v, klookup l k = Some v -> In (k, v) l.
Proof.
  intros A l k v. induction l as [|[k' v'] l IH]; simpl; [discriminate |].
  destruct (key_eqb k' k) eqn:E; [intro H; inversion H; subst; apply key_eqb_eq in E; subst; left; reflexivity | auto].
Qed.
Lemma nodup_pos_inj_in : forall (l : list (key * pos)) k1 k2 p,
  nodup_pos (map snd l) = true -> In (k1, p) l -> In (k2, p) l -> k1 = k2.
Proof.
  induction l as [|[k q] l IH]; intros k1 k2 p Hn H1 H2; [contradiction |].
  simpl in Hn. apply andb_true_iff in Hn. destruct Hn as [Hm Hn]. apply negb_true_iff in Hm.
  assert (Hnot : forall k', In (k', q) l -> False).
  { intros k' Hk'. assert (In q (map snd l)) by (apply in_map_iff; exists (k', q); auto).
    apply mem_pos_In in H. congruence. }
  destruct H1 as [H1 | H1], H2 as [H2 | H2].
  - congruence.
  - inversion H1; subst. exfalso. eapply Hnot; exact H2.
  - inversion H2; subst. exfalso. eapply Hnot; exact H1.
  - eapply IH; eassumption.
Qed.
Lemma nonlocal_lookup : forall (inp : inputs) l, forallb nonlocal_entry inp = true -> klookup inp (KLocal l) = None.
Proof.
  induction inp as [|[k p] inp IH]; intros l H; [reflexivity |]. simpl in H. apply andb_true_iff in H. destruct H as [H1 H2].
  simpl. destruct k; simpl in *; try (apply IH; exact H2). discriminate.
Qed.

Lemma bind_args_tmp : forall args k j, rrlookup (bind_args k args) (RT j) = None.
Proof. induction args as [|a args IH]; intros k j; [reflexivity | simpl; apply IH]. Qed.
Lemma bind_args_lookup : forall args k j v, 0 <= j -> znth args j = Some v -> rrlookup (bind_args k args) (RA (k + j)) = Some v.
Proof.
  induction args as [|a args IH]; intros k j v Hj H; [rewrite znth_nil in H; discriminate |].
  simpl. destruct (k =? k + j) eqn:E.
  - apply Z.eqb_eq in E. assert (j = 0) by lia. subst j. rewrite znth_cons_0 in H. exact H.
  - apply Z.eqb_neq in E. replace j with ((j - 1) + 1) in H by lia. rewrite znth_cons_S in H by lia.
    replace (k + j) with ((k + 1) + (j - 1)) by lia. apply IH; [lia | exact H].
Qed.
Lemma all_some_znth : forall A B (f : A -> option B) l vs j p,
  all_some (map f l) = Some vs -> znth l j = Some p -> exists v, f p = Some v /\ znth vs j = Some v.
Proof.
  intros A B f. induction l as [|a l IH]; intros vs j p H Hz; [rewrite znth_nil in Hz; discriminate |].
  simpl in H. destruct (f a) as [b|] eqn:Ea; [| discriminate].
  destruct (all_some (map f l)) as [vs'|] eqn:E; [| discriminate]. inversion H; subst.
  pose proof (znth_some_range _ _ _ _ Hz) as [Hj _].
  destruct (Z.eq_dec j 0) as [-> | Hne].
  - rewrite znth_cons_0 in Hz. inversion Hz; subst. exists b. split; [exact Ea | reflexivity].
  - replace j with ((j - 1) + 1) in Hz |- * by lia. rewrite znth_cons_S in Hz by lia.
    destruct (IH _ _ _ eq_refl Hz) as (v & H1 & H2). exists v. split; [exact H1 |]. rewrite znth_cons_S by lia. exact H2.
Qed.
Lemma all_some_length : forall A B (f : A -> option B) l vs, all_some (map f l) = Some vs -> length vs = length l.
Proof.
  intros A B f. induction l as [|a l IH]; intros vs H; simpl in H; [inversion H; reflexivity |].
  destruct (f a); [| discriminate]. destruct (all_some (map f l)) eqn:E; [| discriminate]. inversion H; subst.
  simpl. rewrite (IH _ eq_refl). reflexivity.
Qed.

Lemma root_bound : forall fx P pl o x e', match_op fx P pl [] o x = MOk e' -> klookup e' (KOp (op_id o)) = Some (OOp (o_id x)).
Proof.
  intros fx P pl [id name attrs operands rtys] x e' H. cbn [match_op op_id] in *. unfold bound_or in H. simpl klookup in H.
  destruct (match name with Some n => negb (o_name x =? n) | None => false end); [discriminate |].
  destruct (match_attrs P x [] attrs); try discriminate.
  destruct (negb (zlen operands =? zlen (o_operands x))); [discriminate |].
  destruct (match_operands_with _ e operands (o_operands x)); try discriminate.
  destruct (negb (zlen rtys =? zlen (o_rtys x))); [discriminate |].
  destruct (match_types P e0 rtys (o_rtys x)); try discriminate. inversion H; subst. apply klookup_cons_eq.
Qed.

Lemma root_rtys : forall fx P pl o x e', match_op fx P pl [] o x = MOk e' -> zlen (op_rtys o) = zlen (o_rtys x).
Proof.
  intros fx P pl [id name attrs operands rtys] x e' H. cbn [match_op op_rtys] in *. unfold bound_or in H. simpl klookup in H.
  destruct (match name with Some n => negb (o_name x =? n) | None => false end); [discriminate |].
  destruct (match_attrs P x [] attrs); try discriminate.
  destruct (negb (zlen operands =? zlen (o_operands x))); [discriminate |].
  destruct (match_operands_with _ e operands (o_operands x)); try discriminate.
  destruct (negb (zlen rtys =? zlen (o_rtys x))) eqn:E; [discriminate |].
  apply negb_false_iff, Z.eqb_eq in E. exact E.
Qed.

Theorem rewrite_equiv_partial : forall fx P pl x c plF,
  fx_erase fx = true -> fx_range fx = true -> fx_infer fx = true ->
  match_side_conditions fx P pl -> rewrite_static_ok fx P = true ->
  find_op pl (o_id x) = Some x -> compile fx P = Some c ->
  pdl_apply fx P pl (o_id x) = ROk plF -> interp_apply fx c pl (o_id x) = ROk plF.
Proof.
  intros fx P pl x c plF Her Hra Hin (Hf & Ha & Hr & (seen' & Hlin) & Hidx) Hst Hx Hc Hd.
  unfold pdl_apply in Hd. rewrite Hx in Hd. unfold interp_apply. rewrite Hx.
  unfold compile in Hc. unfold rewrite_static_ok in Hst. unfold pdl_match, extract in *.
  pose proof (sim_op fx P pl (o_id x) Hf Ha Hr (p_root P) [] [] [] seen' PRoot x (R_nil _ _ _) eq_refl Hx Hlin Hidx) as Hsim.
  destruct (extract_op fx P [] (p_root P) PRoot) as [preds inp] eqn:Eext. cbn [fst snd] in *.
  destruct (gen_stmts fx P inp (p_root P) rg_init (p_rw P)) as [[st code]|] eqn:Eg; [| discriminate].
  inversion Hc; subst c; clear Hc.
  apply andb_true_iff in Hst. destruct Hst as [Hst Hsync].
  apply andb_true_iff in Hst. destruct Hst as [Hnd Hnl]. apply Z.eqb_eq in Hsync.
  destruct (match_op fx P pl [] (p_root P) x) as [| |e] eqn:Em; try discriminate.
  cbn [agree] in Hsim. destruct Hsim as [Hall HR].
  destruct (env_good fx P pl (p_root P) [] x e [] seen' ltac:(intros k _ H; exfalso; apply H; reflexivity) Hlin Em)
    as [(Hmono & Hcinv & Hsd & Hnew) _].
  assert (Hused : used_ok inp st) by (eapply gen_stmts_used; [| exact Eg]; intros p []).
  destruct (all_some_map_some _ _ (eval_pos fx pl (o_id x)) (rg_used st)) as [args Hargs].
  { intros p Hp. destruct (Hused p Hp) as [k Hk]. eapply (R_ev _ _ _ _ _ _ HR); exact Hk. }
  assert (Him : interp_match fx {| c_matcher := gen_matcher (ordered preds) (rg_used st); c_nargs := rg_nargs st;
                                   c_rewriter := code ++ [RFinalize] |} pl x = IMatch args).
  { unfold interp_match. cbn [c_matcher]. rewrite chain_sound.
    apply (proj2 (ordered_match _ _ _ _ _ _)). apply (proj2 (seq_eval_match _ _ _ _ _ _)). split; [| exact Hargs].
    rewrite Forall_forall in Hall. exact Hall. }
  rewrite Him. cbn [c_nargs c_rewriter].
  assert (Hlen : zlen args = rg_nargs st).
  { rewrite Hsync. unfold zlen. rewrite (all_some_length _ _ _ _ _ Hargs). reflexivity. }
  rewrite Hlen, Z.eqb_refl.
  assert (Hclosed : forall k p, klookup inp k = Some p -> exists v, klookup e k = Some v /\ eval_pos fx pl (o_id x) p = Some v).
  { intros k p Hk. assert (Hb : klookup e k <> None).
    { destruct (klookup e k) eqn:Ev; [discriminate |]. exfalso.
      assert (Hs : structk k \/ ~ structk k) by (destruct k; simpl; tauto).
      destruct Hs as [Hs | Hs].
      - assert (Hin' : In k seen') by (eapply (R_seen _ _ _ _ _ _ HR); [exact Hs | congruence]).
        apply (Hnew k Hin' (fun H => H)). exact Ev.
      - apply (proj1 (R_dom _ _ _ _ _ _ HR k Hs)) in Ev. congruence. }
    destruct (klookup e k) as [v|] eqn:Ev; [| congruence]. exists v. split; [reflexivity |].
    eapply (R_val _ _ _ _ _ _ HR); eassumption. }
  assert (Hnoloc' : forall l, klookup inp (KLocal l) = None) by (intro l; apply nonlocal_lookup; exact Hnl).
  assert (Hinj' : forall k1 k2 p, klookup inp k1 = Some p -> klookup inp k2 = Some p -> k1 = k2).
  { intros k1 k2 p H1 H2. eapply nodup_pos_inj_in; [exact Hnd | apply klookup_In; exact H1 | apply klookup_In; exact H2]. }
  assert (HArg' : forall k p j, klookup inp k = Some p -> znth (rg_used st) j = Some p ->
                                exists v, klookup e k = Some v /\ rrlookup (bind_args 0 args) (RA j) = Some v).
  { intros k p j Hk Hz. destruct (Hclosed _ _ Hk) as (v & H1 & H2). exists v. split; [exact H1 |].
    destruct (all_some_znth _ _ _ _ _ _ _ Hargs Hz) as (v' & H3 & H4). assert (v' = v) by congruence. subst v'.
    pose proof (znth_some_range _ _ _ _ Hz) as [Hj _].
    replace j with (0 + j) by lia. apply bind_args_lookup; assumption. }
  assert (Hci : cinv P e) by (apply Hcinv; split; intros; discriminate).
  destruct Hci as [HCa' HCt'].
  pose proof (root_bound _ _ _ _ _ _ Em) as Hroot'.
  apply (stmts_sim fx P inp (p_root P) (o_id x) e (bind_args 0 args) (rg_used st) Her Hra Hin Hnoloc' Hinj' HArg' HCa' HCt' Hroot'
                   (p_rw P) rg_init st code e (bind_args 0 args) pl plF).
  - constructor; cbn [rg_vals rg_used rg_nargs rg_ntmp rg_init]; try discriminate; try reflexivity.
    + intros j v H. rewrite bind_args_tmp in H. discriminate.
    + intros p [].
  - exact Eg.
  - apply pre_refl.
  - intros Hnil x' Hx'. rewrite Hx in Hx'. inversion Hx'; subst x'.
    pose proof (root_rtys _ _ _ _ _ _ Em) as Hz. rewrite Hnil in Hz. unfold zlen in Hz. simpl in Hz.
    destruct (o_rtys x); [reflexivity | simpl in Hz; lia].
  - exact Hd.
Qed.

From XV Require Import C27.ProofsGuard.

Lemma run_rw_not_nomatch : forall fx root l e pl, run_rw fx root l e pl <> RNoMatch.
Proof.
  intros fx root. induction l as [|s l IH]; intros e pl; [discriminate |].
  destruct s; cbn [run_rw];
    repeat match goal with
           | |- context [match ?x with _ => _ end] => destruct x
           end; try discriminate; try apply IH.
Qed.

(* no match stays no match (the converted matcher neither records a match nor raises) *)
Theorem apply_nomatch : forall fx P pl x c,
  match_side_conditions fx P pl -> compile_guarded fx P = true ->
  find_op pl (o_id x) = Some x -> compile fx P = Some c ->
  pdl_apply fx P pl (o_id x) = RNoMatch -> interp_apply fx c pl (o_id x) = RNoMatch.
Proof.
  intros fx P pl x c Hsc Hg Hx Hc Hd. unfold pdl_apply in Hd. rewrite Hx in Hd. unfold interp_apply. rewrite Hx.
  pose proof (match_equiv fx P pl x c Hsc Hx Hc) as Hm.
  pose proof (compile_guarded_no_raise fx P pl x c Hg Hx Hc) as Hn.
  destruct (pdl_match fx P pl x) as [| |e] eqn:Em.
  - cbv beta iota in Hm. destruct (interp_match fx c pl x) as [| |args].
    + reflexivity.
    + exfalso. apply Hn. reflexivity.
    + exfalso. apply (Hm args). reflexivity.
  - discriminate Hd.
  - exfalso. eapply run_rw_not_nomatch. exact Hd.
Qed.

(* all repairs present: only static conditions on the pattern remain *)
Corollary rewrite_equiv_repaired : forall P pl x c seen',
  lin_op (p_root P) [] = Some seen' -> idx_op false (p_root P) ->
  rewrite_static_ok repaired P = true -> compile_guarded repaired P = true ->
  find_op pl (o_id x) = Some x -> compile repaired P = Some c ->
  (forall plF, pdl_apply repaired P pl (o_id x) = ROk plF -> interp_apply repaired c pl (o_id x) = ROk plF) /\
  (pdl_apply repaired P pl (o_id x) = RNoMatch -> interp_apply repaired c pl (o_id x) = RNoMatch).
Proof.
  intros P pl x c seen' Hlin Hidx Hs Hg Hx Hc.
  assert (Hsc : match_side_conditions repaired P pl).
  { repeat split; try (left; reflexivity); [exists seen'; exact Hlin | exact Hidx]. }
  split.
  - intros plF Hd. eapply rewrite_equiv_partial; try eassumption; reflexivity.
  - intro Hd. eapply apply_nomatch; eassumption.
Qed.

From XV Require Import C27.ProofsRewriteFull.

Lemma eval_pos_norange : forall fx pl root p v, eval_pos fx pl root p = Some v -> norange v.
Proof.
  intros fx pl root p v H. destruct p; cbn [eval_pos] in H.
  - inversion H; exact I.
  - destruct (as_op pl (eval_pos fx pl root p)); [| discriminate]. inversion H. destruct (znth (o_operands p0) i); exact I.
  - destruct (eval_pos fx pl root p) as [[| | [k|q k] | | | |]|]; try discriminate; inversion H; try exact I.
    destruct (find_op pl q); exact I.
  - destruct (as_op pl (eval_pos fx pl root p)); [| discriminate]. inversion H. destruct ((0 <=? i) && (i <? zlen (o_rtys p0))); exact I.
  - destruct (as_op pl (eval_pos fx pl root p)); [| discriminate]. inversion H.
    destruct (if fx_attrorder fx then get_attr_or_prop p0 n else get_attr_then_prop p0 n); exact I.
  - destruct (eval_pos fx pl root p) as [[]|]; try discriminate. inversion H. exact I.
Qed.

(* the fragment of ProofsRewriteFull, as an executable check: a pdl.result in the rewrite only of a new operation whose
   declared result types cover the index, no empty replacement list, replace-with-operation only for a root with
   declared result types, and every match-part value the rewrite reads is reached by the match tree *)
Definition key_reached (inp : inputs) (k : key) : bool :=
  match k with KLocal _ => true | _ => match klookup inp k with Some _ => true | None => false end end.
Definition rewrite_frag_ok (fx : fixes) (P : pattern) : bool :=
  let '(preds, inp) := extract fx P in
  frag_all (p_root P) [] (p_rw P) && forallb (fun s => forallb (key_reached inp) (stmt_keys s)) (p_rw P).

Theorem rewrite_equiv_full : forall fx P pl x c,
  fx_erase fx = true -> fx_range fx = true -> fx_infer fx = true ->
  match_side_conditions fx P pl -> rewrite_static_ok fx P = true -> compile_guarded fx P = true ->
  rewrite_frag_ok fx P = true ->
  find_op pl (o_id x) = Some x -> compile fx P = Some c ->
  pdl_apply fx P pl (o_id x) = interp_apply fx c pl (o_id x).
Proof.
  intros fx P pl x c Her Hra Hin Hsc Hst Hgd Hfrag Hx Hc.
  destruct (pdl_apply fx P pl (o_id x)) as [| |plF0] eqn:Hd0.
  { symmetry. eapply apply_nomatch; eassumption. }
  2:{ symmetry. eapply rewrite_equiv_partial; eassumption. }
  (* the direct application raises: then the converted one raises as well *)
  pose proof Hsc as (Hf & Ha & Hr & (seen' & Hlin) & Hidx).
  pose proof Hd0 as Hd. unfold pdl_apply in Hd. rewrite Hx in Hd. unfold interp_apply. rewrite Hx.
  unfold compile in Hc. unfold rewrite_static_ok in Hst. unfold rewrite_frag_ok in Hfrag. unfold pdl_match, extract in *.
  pose proof (sim_op fx P pl (o_id x) Hf Ha Hr (p_root P) [] [] [] seen' PRoot x (R_nil _ _ _) eq_refl Hx Hlin Hidx) as Hsim.
  destruct (extract_op fx P [] (p_root P) PRoot) as [preds inp] eqn:Eext. cbn [fst snd] in *.
  destruct (gen_stmts fx P inp (p_root P) rg_init (p_rw P)) as [[st code]|] eqn:Eg; [| discriminate].
  inversion Hc; subst c; clear Hc.
  apply andb_true_iff in Hst. destruct Hst as [Hst Hsync].
  apply andb_true_iff in Hst. destruct Hst as [Hnd Hnl]. apply Z.eqb_eq in Hsync.
  destruct (match_op fx P pl [] (p_root P) x) as [| |e] eqn:Em; try discriminate.
  { destruct Hsim. }
  cbn [agree] in Hsim. destruct Hsim as [Hall HR].
  destruct (env_good fx P pl (p_root P) [] x e [] seen' ltac:(intros k _ H; exfalso; apply H; reflexivity) Hlin Em)
    as [(Hmono & Hcinv & Hsd & Hnew) _].
  assert (Hused : used_ok inp st) by (eapply gen_stmts_used; [| exact Eg]; intros p []).
  destruct (all_some_map_some _ _ (eval_pos fx pl (o_id x)) (rg_used st)) as [args Hargs].
  { intros p Hp. destruct (Hused p Hp) as [k Hk]. eapply (R_ev _ _ _ _ _ _ HR); exact Hk. }
  assert (Him : interp_match fx {| c_matcher := gen_matcher (ordered preds) (rg_used st); c_nargs := rg_nargs st;
                                   c_rewriter := code ++ [RFinalize] |} pl x = IMatch args).
  { unfold interp_match. cbn [c_matcher]. rewrite chain_sound.
    apply (proj2 (ordered_match _ _ _ _ _ _)). apply (proj2 (seq_eval_match _ _ _ _ _ _)). split; [| exact Hargs].
    rewrite Forall_forall in Hall. exact Hall. }
  rewrite Him. cbn [c_nargs c_rewriter].
  assert (Hlen : zlen args = rg_nargs st).
  { rewrite Hsync. unfold zlen. rewrite (all_some_length _ _ _ _ _ Hargs). reflexivity. }
  rewrite Hlen, Z.eqb_refl.
  assert (Hclosed : forall k p, klookup inp k = Some p -> exists v, klookup e k = Some v /\ eval_pos fx pl (o_id x) p = Some v).
  { intros k p Hk. assert (Hb : klookup e k <> None).
    { destruct (klookup e k) eqn:Ev; [discriminate |]. exfalso.
      assert (Hs : structk k \/ ~ structk k) by (destruct k; simpl; tauto).
      destruct Hs as [Hs | Hs].
      - assert (Hin' : In k seen') by (eapply (R_seen _ _ _ _ _ _ HR); [exact Hs | congruence]).
        apply (Hnew k Hin' (fun H => H)). exact Ev.
      - apply (proj1 (R_dom _ _ _ _ _ _ HR k Hs)) in Ev. congruence. }
    destruct (klookup e k) as [v|] eqn:Ev; [| congruence]. exists v. split; [reflexivity |].
    eapply (R_val _ _ _ _ _ _ HR); eassumption. }
  assert (Hnoloc' : forall l, klookup inp (KLocal l) = None) by (intro l; apply nonlocal_lookup; exact Hnl).
  assert (Hinj' : forall k1 k2 p, klookup inp k1 = Some p -> klookup inp k2 = Some p -> k1 = k2).
  { intros k1 k2 p H1 H2. eapply nodup_pos_inj_in; [exact Hnd | apply klookup_In; exact H1 | apply klookup_In; exact H2]. }
  assert (HArg' : forall k p j, klookup inp k = Some p -> znth (rg_used st) j = Some p ->
                                exists v, klookup e k = Some v /\ rrlookup (bind_args 0 args) (RA j) = Some v).
  { intros k p j Hk Hz. destruct (Hclosed _ _ Hk) as (v & H1 & H2). exists v. split; [exact H1 |].
    destruct (all_some_znth _ _ _ _ _ _ _ Hargs Hz) as (v' & H3 & H4). assert (v' = v) by congruence. subst v'.
    pose proof (znth_some_range _ _ _ _ Hz) as [Hj _].
    replace j with (0 + j) by lia. apply bind_args_lookup; assumption. }
  assert (Hci : cinv P e) by (apply Hcinv; split; intros; discriminate).
  destruct Hci as [HCa' HCt'].
  pose proof (root_bound _ _ _ _ _ _ Em) as Hroot'.
  assert (HB' : forall k p, klookup inp k = Some p -> klookup e k <> None).
  { intros k p Hk. destruct (Hclosed _ _ Hk) as (v & H1 & _). congruence. }
  assert (HNR : NR e).
  { intros k v Hk. destruct (klookup inp k) as [p|] eqn:Ei.
    - eapply eval_pos_norange. eapply (R_val _ _ _ _ _ _ HR); eassumption.
    - exfalso. eapply (R_sub _ _ _ _ _ _ HR k); [congruence | exact Ei]. }
  apply andb_true_iff in Hfrag. destruct Hfrag as [Hfa Hfrag].
  rewrite <- Hd. symmetry.
  apply (stmts_full fx P inp (p_root P) (o_id x) e (bind_args 0 args) (rg_used st) Her Hra Hin Hnoloc' Hinj' HArg' HCa' HCt' Hroot' HB'
                    (p_rw P) [] rg_init st code e (bind_args 0 args) pl).
  - constructor; cbn [rg_vals rg_used rg_nargs rg_ntmp rg_init]; try discriminate; try reflexivity.
    + intros j v H. rewrite bind_args_tmp in H. discriminate.
    + intros p [].
  - exact HNR.
  - exact Eg.
  - apply pre_refl.
  - intros x' Hx'. rewrite Hx in Hx'. inversion Hx'; subst x'. symmetry. eapply root_rtys. exact Em.
  - apply TY_nil.
  - exact Hfa.
  - intros s Hs k Hk Hnl'. rewrite forallb_forall in Hfrag. specialize (Hfrag _ Hs).
    rename Hfrag into Hrb. rewrite forallb_forall in Hrb. specialize (Hrb _ Hk).
    unfold key_reached in Hrb. destruct k; try (destruct (klookup inp _); [discriminate | discriminate Hrb]).
    exfalso. apply Hnl'. exact I.
Qed.
