(* C27/ProofsTotal.v -- the conversion of the restricted language never fails when the rewrite part only refers
   to values that exist: local values defined by an earlier statement, constants, or values of the match part
   that the match tree reaches (`rw_ok`, an executable check). *)
From Coq Require Import ZArith List Bool Lia.
From XV Require Import C27.Model C27.ProofsChain C27.ProofsMatch.
Import ListNotations.
Local Open Scope Z_scope.

Section Total.
Variable fx : fixes.
Variable P : pattern.
Variable inp : inputs.
Variable root : op_pat.

Definition is_const (k : key) : bool :=
  match k with
  | KAttr a => match p_aconst P a with Some c => truthy c || fx_falsy fx | None => false end
  | KType t => match p_tconst P t with Some _ => true | None => false end
  | _ => false
  end.
Definition avail (defined : list key) (k : key) : bool :=
  kmem k defined || is_const k || match klookup inp k with Some _ => true | None => false end.

Fixpoint rw_ok (defined : list key) (l : list stmt) : bool :=
  match l with
  | [] => true
  | s :: r =>
      match s with
      | SAttr l _ | SType l _ => rw_ok (KLocal l :: defined) r
      | SOp l _ operands attrs tys =>
          forallb (avail defined) (map vref_key operands) &&
          forallb (avail defined) (map (fun na => aref_key (snd na)) attrs) &&
          match tys with
          | [] => if existsb (is_replace_with l) r then avail defined (KOp (op_id root)) else true
          | _ => forallb (avail defined) (map tref_key tys)
          end && rw_ok (KLocal l :: defined) r
      | SResult l lop _ => avail defined (KLocal lop) && rw_ok (KLocal l :: defined) r
      | SReplaceVals vs => forallb (avail defined) (map vref_key vs) && avail defined (KOp (op_id root)) && rw_ok defined r
      | SReplaceOp l =>
          match op_rtys root with [] => true | _ => avail defined (KLocal l) end &&
          avail defined (KOp (op_id root)) && rw_ok defined r
      | SErase => avail defined (KOp (op_id root)) && rw_ok defined r
      end
  end.

(* every key the check considers defined has a translation in the rewriter state *)
Definition covers (st : rg) (defined : list key) : Prop :=
  forall k, kmem k defined = true -> klookup (rg_vals st) k <> None.

Lemma covers_cons : forall vals defined k (r : rreg),
  (forall k', kmem k' defined = true -> klookup vals k' <> None) ->
  (forall k', kmem k' defined = true -> klookup ((k, r) :: vals) k' <> None).
Proof.
  intros vals defined k r H k' Hk'. simpl. destruct (key_eqb k k'); [discriminate | apply H; exact Hk'].
Qed.

Lemma map_value_total : forall st defined k,
  covers st defined -> avail defined k = true ->
  exists st' c r, map_value fx P inp st k = Some (st', c, r) /\ covers st' defined /\ klookup (rg_vals st') k <> None.
Proof.
  intros st defined k Hc Ha. unfold map_value.
  destruct (klookup (rg_vals st) k) as [r|] eqn:E.
  - exists st, [], r. split; [reflexivity | split; [exact Hc | rewrite E; discriminate]].
  - assert (Hnew : forall mk, exists st' c r, rtmp st (Some k) mk = (st', c, r) /\ covers st' defined /\
                                              klookup (rg_vals st') k <> None).
    { intro mk. unfold rtmp. eexists _, _, _. split; [reflexivity |]. split.
      - unfold covers. cbn [rg_vals]. apply covers_cons. exact Hc.
      - cbn [rg_vals]. rewrite klookup_cons_eq. discriminate. }
    match goal with |- context [match ?cst with Some mk => _ | None => _ end] => destruct cst as [mk|] eqn:Ecst end.
    + destruct (Hnew mk) as (st' & c & r & E1 & H1 & H2). rewrite E1. eauto 6.
    + unfold avail in Ha. apply orb_true_iff in Ha. destruct Ha as [Ha | Ha].
      { apply orb_true_iff in Ha. destruct Ha as [Ha | Ha]; [exfalso; apply (Hc k Ha); exact E |].
        exfalso. unfold is_const in Ha. destruct k; try discriminate.
        - destruct (p_tconst P i); discriminate.
        - destruct (p_aconst P i) as [c|]; [| discriminate]. rewrite Ha in Ecst. discriminate. }
      destruct (klookup inp k) as [p|] eqn:Ei; [| discriminate].
      eexists _, _, _. split; [reflexivity |]. split.
      * unfold covers. cbn [rg_vals]. apply covers_cons. exact Hc.
      * cbn [rg_vals]. rewrite klookup_cons_eq. discriminate.
Qed.

Lemma map_values_total : forall ks st defined,
  covers st defined -> forallb (avail defined) ks = true ->
  exists st' c rs, map_values fx P inp st ks = Some (st', c, rs) /\ covers st' defined.
Proof.
  induction ks as [|k ks IH]; intros st defined Hc Ha; simpl.
  - eexists _, _, _. split; [reflexivity | exact Hc].
  - simpl in Ha. apply andb_true_iff in Ha. destruct Ha as [H1 H2].
    destruct (map_value_total st defined k Hc H1) as (st1 & c1 & r1 & E1 & Hc1 & _). rewrite E1.
    destruct (IH st1 defined Hc1 H2) as (st2 & c2 & rs & E2 & Hc2). rewrite E2.
    eexists _, _, _. split; [reflexivity | exact Hc2].
Qed.

Lemma covers_key : forall vals defined k (r : rreg),
  (forall k', kmem k' defined = true -> klookup vals k' <> None) ->
  (forall k', kmem k' (k :: defined) = true -> klookup ((k, r) :: vals) k' <> None).
Proof.
  intros vals defined k r H k' Hk'. simpl in Hk'. simpl. destruct (key_eqb k k'); [discriminate | apply H; exact Hk'].
Qed.
Ltac solve_covers :=
  unfold covers in *; cbv beta iota zeta delta [rtmp fst snd]; cbn [rg_vals];
  first [assumption | apply covers_key; assumption].

Lemma gen_stmt_total : forall s later st defined,
  covers st defined -> rw_ok defined (s :: later) = true ->
  exists st' c defined', gen_stmt fx P inp root st s later = Some (st', c) /\ covers st' defined' /\
                         rw_ok defined' later = true.
Proof.
  intros s later st defined Hc Hok. destruct s; cbn [rw_ok] in Hok; cbn [gen_stmt].
  - eexists _, _, (KLocal l :: defined). split; [reflexivity | split; [solve_covers | exact Hok]].
  - eexists _, _, (KLocal l :: defined). split; [reflexivity | split; [solve_covers | exact Hok]].
  - apply andb_true_iff in Hok. destruct Hok as [Hok Hr]. apply andb_true_iff in Hok. destruct Hok as [Hok Ht].
    apply andb_true_iff in Hok. destruct Hok as [Ho Ha].
    destruct (map_values_total _ st defined Hc Ho) as (st1 & c1 & ro & E1 & Hc1). rewrite E1.
    destruct (map_values_total _ st1 defined Hc1 Ha) as (st2 & c2 & ra & E2 & Hc2). rewrite E2.
    destruct tys as [|t tys].
    + destruct (existsb (is_replace_with l) later).
      * destruct (map_value_total st2 defined _ Hc2 Ht) as (st3 & c3 & r3 & E3 & Hc3 & _). rewrite E3.
        eexists _, _, (KLocal l :: defined). split; [reflexivity | split; [solve_covers | exact Hr]].
      * eexists _, _, (KLocal l :: defined). split; [reflexivity | split; [solve_covers | exact Hr]].
    + destruct (map_values_total _ st2 defined Hc2 Ht) as (st3 & c3 & rt & E3 & Hc3). rewrite E3.
      eexists _, _, (KLocal l :: defined). split; [reflexivity | split; [solve_covers | exact Hr]].
  - apply andb_true_iff in Hok. destruct Hok as [Ha Hr].
    destruct (map_value_total st defined _ Hc Ha) as (st1 & c1 & r1 & E1 & Hc1 & _). rewrite E1.
    eexists _, _, (KLocal l :: defined). split; [reflexivity | split; [solve_covers | exact Hr]].
  - apply andb_true_iff in Hok. destruct Hok as [Hok Hr]. apply andb_true_iff in Hok. destruct Hok as [Hv Hroot].
    destruct (map_values_total _ st defined Hc Hv) as (st1 & c1 & rs & E1 & Hc1). rewrite E1.
    destruct (map_value_total st1 defined _ Hc1 Hroot) as (st2 & c2 & r2 & E2 & Hc2 & _). rewrite E2.
    eexists _, _, defined. split; [reflexivity | split; [exact Hc2 | exact Hr]].
  - apply andb_true_iff in Hok. destruct Hok as [Hok Hr]. apply andb_true_iff in Hok. destruct Hok as [Hl Hroot].
    destruct (op_rtys root) as [|t ts].
    + destruct (map_value_total st defined _ Hc Hroot) as (st1 & c1 & r1 & E1 & Hc1 & _). rewrite E1.
      eexists _, _, defined. split; [reflexivity | split; [exact Hc1 | exact Hr]].
    + destruct (map_value_total st defined _ Hc Hl) as (st1 & c1 & r1 & E1 & Hc1 & _). rewrite E1.
      cbv beta iota zeta delta [rtmp].
      match goal with |- context [map_value fx P inp ?s (KOp (op_id root))] =>
        destruct (map_value_total s defined (KOp (op_id root))) as (st2 & c2 & r2 & E2 & Hc2 & _);
          [exact Hc1 | exact Hroot |] end.
      rewrite E2. eexists _, _, defined. split; [reflexivity | split; [exact Hc2 | exact Hr]].
  - apply andb_true_iff in Hok. destruct Hok as [Hroot Hr].
    destruct (map_value_total st defined _ Hc Hroot) as (st1 & c1 & r1 & E1 & Hc1 & _). rewrite E1.
    eexists _, _, defined. split; [reflexivity | split; [exact Hc1 | exact Hr]].
Qed.

Lemma gen_stmts_total : forall l st defined,
  covers st defined -> rw_ok defined l = true -> exists st' c, gen_stmts fx P inp root st l = Some (st', c).
Proof.
  induction l as [|s l IH]; intros st defined Hc Hok; simpl; [eauto |].
  destruct (gen_stmt_total s l st defined Hc Hok) as (st1 & c1 & d1 & E1 & Hc1 & Hok1). rewrite E1.
  destruct (IH st1 d1 Hc1 Hok1) as (st2 & c2 & E2). rewrite E2. eauto.
Qed.
End Total.

(* the whole check on a pattern *)
Definition rewrite_refs_ok (fx : fixes) (P : pattern) : bool :=
  rw_ok fx P (snd (extract fx P)) (p_root P) [] (p_rw P).

Theorem compile_total : forall fx P, rewrite_refs_ok fx P = true -> exists c, compile fx P = Some c.
Proof.
  intros fx P H. unfold rewrite_refs_ok in H. unfold compile. destruct (extract fx P) as [preds inp]. cbn [snd] in H.
  destruct (gen_stmts_total fx P inp (p_root P) (p_rw P) rg_init [] ltac:(intros k Hk; discriminate Hk) H) as (st & c & E).
  rewrite E. eauto.
Qed.
