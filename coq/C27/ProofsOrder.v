(* C27/ProofsOrder.v -- the ordering step (dedupe + OrderedPredicate sort) keeps exactly the same set of
   predicates; hence a successful run of the chain does not depend on the order. *)
From Coq Require Import ZArith List Bool Lia.
From XV Require Import C27.Model C27.ProofsChain.
Import ListNotations.
Local Open Scope Z_scope.

Lemma quest_eqb_eq : forall a b, quest_eqb a b = true <-> a = b.
Proof.
  destruct a, b; simpl; try (split; [discriminate | intro H; discriminate H]); try tauto;
    try (rewrite Z.eqb_eq; split; [intros ->; reflexivity | intro H; inversion H; reflexivity]).
  rewrite pos_eqb_eq. split; [intros ->; reflexivity | intro H; inversion H; reflexivity].
Qed.
Lemma pred_eqb_eq : forall a b, pred_eqb a b = true <-> a = b.
Proof.
  intros [p q] [p' q']. unfold pred_eqb. simpl. rewrite andb_true_iff, pos_eqb_eq, quest_eqb_eq.
  split; [intros [-> ->]; reflexivity | intro H; inversion H; auto].
Qed.

Lemma mem_pred_In : forall x l, mem_pred x l = true <-> In x l.
Proof.
  intros x l. induction l as [|y l IH]; simpl; [split; [discriminate | tauto] |].
  rewrite orb_true_iff, IH, pred_eqb_eq. split; intros [H|H]; auto.
Qed.

Lemma uniq_acc_In : forall l seen x, In x (uniq_acc seen l) <-> (In x l /\ ~ In x seen).
Proof.
  induction l as [|y l IH]; intros seen x; simpl; [tauto |].
  destruct (mem_pred y seen) eqn:E.
  - apply mem_pred_In in E. rewrite IH. split.
    + intros [H1 H2]. auto.
    + intros [[H1|H1] H2]; [subst; contradiction | auto].
  - assert (Hn : ~ In y seen) by (intro H; apply mem_pred_In in H; congruence).
    simpl. rewrite IH. simpl. split.
    + intros [H | [H1 H2]]; [subst; auto | split; [auto | intro H3; apply H2; auto]].
    + intros [[H1|H1] H2]; [auto |].
      destruct (pred_eqb y x) eqn:E2; [apply pred_eqb_eq in E2; auto |].
      right. split; [exact H1 |]. intros [H3|H3]; [subst; rewrite (proj2 (pred_eqb_eq x x) eq_refl) in E2; discriminate | auto].
Qed.

Lemma number_map : forall all l i, map op_pred (number all i l) = l.
Proof. intros all l. induction l as [|x l IH]; intro i; simpl; [reflexivity | rewrite IH; reflexivity]. Qed.

Lemma insert_sorted_In : forall x l y, In y (insert_sorted x l) <-> (y = x \/ In y l).
Proof.
  intros x l. induction l as [|z l IH]; intro y; simpl; [split; intros [H|H]; auto; contradiction |].
  destruct (before z x); simpl; [rewrite IH |]; split; intros H; intuition auto.
Qed.
Lemma sort_preds_In : forall l y, In y (sort_preds l) <-> In y l.
Proof.
  induction l as [|x l IH]; intro y; simpl; [tauto |]. rewrite insert_sorted_In, IH. split; intros [H|H]; auto.
Qed.

Theorem ordered_In : forall preds x, In x (ordered preds) <-> In x preds.
Proof.
  intros preds x. unfold ordered. rewrite in_map_iff. split.
  - intros (o & <- & Ho). apply (proj1 (sort_preds_In _ _)) in Ho.
    assert (H : In (op_pred o) (map op_pred (number preds 0 (uniq_acc [] preds)))) by (apply in_map; exact Ho).
    rewrite number_map in H. apply (proj1 (uniq_acc_In _ _ _)) in H. tauto.
  - intro H. assert (H2 : In x (map op_pred (number preds 0 (uniq_acc [] preds)))).
    { rewrite number_map. apply (proj2 (uniq_acc_In _ _ _)). split; [exact H | tauto]. }
    apply (proj1 (in_map_iff _ _ _)) in H2. destruct H2 as (o & Ho1 & Ho2). exists o. split; [exact Ho1 |].
    apply (proj2 (sort_preds_In _ _)). exact Ho2.
Qed.

Section Sem.
Variable fx : fixes.
Variable pl : payload.
Variable root : Z.

Lemma seq_eval_match : forall preds used vs,
  seq_eval fx pl root preds used = IMatch vs <->
  ((forall x, In x preds -> eval_pred fx pl root x = Some true) /\
   all_some (map (eval_pos fx pl root) used) = Some vs).
Proof.
  induction preds as [|pq preds IH]; intros used vs; cbn [seq_eval].
  - destruct (all_some (map (eval_pos fx pl root) used)) as [l|]; split.
    + intro H. inversion H; subst. split; [intros x []| reflexivity].
    + intros [_ H]. inversion H; reflexivity.
    + discriminate.
    + intros [_ H]. discriminate.
  - destruct (eval_pred fx pl root pq) as [[|]|] eqn:E.
    + rewrite IH. split; intros [H1 H2]; split; auto.
      * intros x [<-|Hx]; auto.
      * intros x Hx. apply H1. right. exact Hx.
    + split; [discriminate | intros [H _]; specialize (H pq (or_introl eq_refl)); congruence].
    + split; [discriminate | intros [H _]; specialize (H pq (or_introl eq_refl)); congruence].
Qed.

(* T3: success of the chain is insensitive to the ordering step *)
Theorem ordered_match : forall preds used vs,
  seq_eval fx pl root (ordered preds) used = IMatch vs <-> seq_eval fx pl root preds used = IMatch vs.
Proof.
  intros preds used vs. rewrite !seq_eval_match. split; intros [H1 H2]; split; auto; intros x Hx; apply H1, ordered_In, Hx.
Qed.

(* the same for "no exception and no match" needs the ordering itself; the executable check below is what
   the ordering has to guarantee: evaluating the list left to right never raises *)
Fixpoint no_raise (preds : list pred) : bool :=
  match preds with
  | [] => true
  | pq :: r => match eval_pred fx pl root pq with
               | Some true => no_raise r
               | Some false => true
               | None => false
               end
  end.
Lemma seq_eval_no_raise : forall preds used,
  no_raise preds = true ->
  seq_eval fx pl root preds used = IErr -> 
  (forall x, In x preds -> eval_pred fx pl root x = Some true) /\ all_some (map (eval_pos fx pl root) used) = None.
Proof.
  induction preds as [|pq preds IH]; intros used Hn He; cbn [seq_eval no_raise] in *.
  - destruct (all_some (map (eval_pos fx pl root) used)); [discriminate | split; [intros x [] | reflexivity]].
  - destruct (eval_pred fx pl root pq) as [[|]|] eqn:E; try discriminate.
    destruct (IH used Hn He) as [H1 H2]. split; [| exact H2]. intros x [<-|Hx]; auto.
Qed.
End Sem.
