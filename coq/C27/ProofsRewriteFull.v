(* C27/ProofsRewriteFull.v -- for rewrites without pdl.result statements (replace with matched values / with a new
   operation built from matched values, erase, side operations) the converted rewriter and the direct rewrite agree
   on EVERY outcome, exceptions included: full equality of the two applications. *)
From Coq Require Import ZArith List Bool Lia.
From XV Require Import C27.Model C27.ProofsChain C27.ProofsMatch C27.ProofsRewrite.
Import ListNotations.
Local Open Scope Z_scope.

Definition norange (v : obj) : Prop := match v with OVals _ | OTypes _ => False | _ => True end.

(* keys a statement reads *)
Definition stmt_keys (s : stmt) : list key :=
  match s with
  | SOp _ _ operands attrs tys => map vref_key operands ++ map (fun na => aref_key (snd na)) attrs ++ map tref_key tys
  | SResult _ lop _ => [KLocal lop]
  | SReplaceVals vs => map vref_key vs
  | SReplaceOp l => [KLocal l]
  | _ => []
  end.
(* static result counts of the operations the rewrite creates: local id -> Some n (an operation with n results) or
   None (not an operation / count not known statically) *)
Definition tenv := list (Z * option Z).
Fixpoint tlook (t : tenv) (l : Z) : option (option Z) :=
  match t with [] => None | (l', c) :: r => if l' =? l then Some c else tlook r l end.
Definition tstep (rootpat : op_pat) (t : tenv) (s : stmt) (later : list stmt) : tenv :=
  match s with
  | SAttr l _ | SType l _ | SResult l _ _ => (l, None) :: t
  | SOp l _ _ _ tys =>
      (l, match tys with
          | [] => if existsb (is_replace_with l) later then Some (zlen (op_rtys rootpat)) else Some 0
          | _ => Some (zlen tys)
          end) :: t
  | SReplaceVals _ | SReplaceOp _ | SErase => []
  end.
(* the fragment: a pdl.result only of a new operation whose result count (declared, or inferred from the root) covers
   the index, no empty replacement list, a replacement operation without results for a root without result types *)
Definition frag (rootpat : op_pat) (t : tenv) (s : stmt) : bool :=
  match s with
  | SResult _ lop idx => match tlook t lop with Some (Some n) => (0 <=? idx) && (idx <? n) | _ => false end
  | SReplaceVals [] => false
  | SReplaceOp l => match op_rtys rootpat with
                    | [] => match tlook t l with Some (Some 0) => true | _ => false end
                    | _ => true
                    end
  | _ => true
  end.
Fixpoint frag_all (rootpat : op_pat) (t : tenv) (l : list stmt) : bool :=
  match l with
  | [] => true
  | s :: r => frag rootpat t s && frag_all rootpat (tstep rootpat t s r) r
  end.

(* facts about create_op *)
Lemma find_le : forall l p x, find_op_in l p = Some x -> p <= maxid l.
Proof.
  induction l as [|y l IH]; intros p x H; simpl in H; [discriminate |].
  destruct (o_id y =? p) eqn:E; [apply Z.eqb_eq in E; simpl; lia | specialize (IH _ _ H); simpl; lia].
Qed.
Lemma insert_before_new : forall l root n l', insert_before l root n = Some l' -> maxid l < o_id n ->
  find_op_in l' (o_id n) = Some n.
Proof.
  induction l as [|y l IH]; intros root n l' H Hm; simpl in H; [discriminate |].
  destruct (o_id y =? root) eqn:E.
  - inversion H; subst. simpl. rewrite Z.eqb_refl. reflexivity.
  - destruct (insert_before l root n) eqn:E2; [| discriminate]. inversion H; subst. simpl. simpl in Hm.
    destruct (o_id y =? o_id n) eqn:E3; [apply Z.eqb_eq in E3; lia | eapply IH; [exact E2 | lia]].
Qed.
Lemma create_op_old : forall pl root name vs ats ts pl' id p x,
  create_op pl root name vs ats ts = Some (pl', id) -> find_op pl p = Some x -> find_op pl' p = Some x.
Proof.
  intros pl root name vs ats ts pl' id p x H Hx. unfold create_op in H. destruct (split_attrs ats) as [as_ ps].
  match type of H with match ?ib with _ => _ end = _ => destruct ib as [l|] eqn:E end; [| discriminate].
  inversion H; subst. unfold find_op in *. simpl. rewrite (insert_before_find _ _ _ _ p E); [exact Hx |].
  simpl. pose proof (find_le _ _ _ Hx). unfold fresh. lia.
Qed.
Lemma create_op_new : forall pl root name vs ats ts pl' id,
  create_op pl root name vs ats ts = Some (pl', id) -> exists xn, find_op pl' id = Some xn /\ o_rtys xn = ts.
Proof.
  intros pl root name vs ats ts pl' id H. unfold create_op in H. destruct (split_attrs ats) as [as_ ps].
  match type of H with match ?ib with _ => _ end = _ => destruct ib as [l|] eqn:E end; [| discriminate].
  inversion H; subst.
  exists {| o_id := fresh pl; o_name := name; o_operands := vs; o_attrs := as_; o_props := ps; o_rtys := ts |}.
  split; [| reflexivity]. unfold find_op. simpl.
  apply (insert_before_new _ _ _ _ E). simpl. unfold fresh. lia.
Qed.

Section Full.
Variable fx : fixes.
Variable P : pattern.
Variable inp : inputs.
Variable rootpat : op_pat.
Variable pid : Z.
Variable e0 : env.
Variable regs0 : list (rreg * obj).
Variable usedF : list pos.

Hypothesis Herase : fx_erase fx = true.
Hypothesis Hrange : fx_range fx = true.
Hypothesis Hinfer : fx_infer fx = true.
Hypothesis Hnoloc : forall l, klookup inp (KLocal l) = None.
Hypothesis Hinj : forall k1 k2 p, klookup inp k1 = Some p -> klookup inp k2 = Some p -> k1 = k2.
Hypothesis HArg : forall k p j, klookup inp k = Some p -> znth usedF j = Some p ->
                                exists v, klookup e0 k = Some v /\ rrlookup regs0 (RA j) = Some v.
Hypothesis HCa : forall a c v, p_aconst P a = Some c -> klookup e0 (KAttr a) = Some v -> v = OAttr c.
Hypothesis HCt : forall t c v, p_tconst P t = Some c -> klookup e0 (KType t) = Some v -> v = OType c.
Hypothesis Hroot : klookup e0 (KOp (op_id rootpat)) = Some (OOp pid).
(* every recorded pattern value is bound by the matcher *)
Hypothesis HB : forall k p, klookup inp k = Some p -> klookup e0 k <> None.

Notation Inv' := (Inv inp e0 regs0).

Lemma map_value_bound : forall e st regs k st1 c r,
  Inv' e st regs -> map_value fx P inp st k = Some (st1, c, r) ->
  (~ localk k -> klookup inp k <> None) -> klookup e k <> None.
Proof.
  intros e st regs k st1 c r HI E Hk. unfold map_value in E.
  destruct (klookup (rg_vals st) k) as [r0|] eqn:Ev.
  { destruct (I_vals _ _ _ _ _ _ HI _ _ Ev) as (v & H1 & _). congruence. }
  assert (Hnl : ~ localk k).
  { intro Hl. destruct k; try contradiction. simpl in E. rewrite Hnoloc in E. discriminate. }
  rewrite (I_env _ _ _ _ _ _ HI k Hnl). destruct (klookup inp k) as [p|] eqn:Ei; [eapply HB; exact Ei | exfalso; apply (Hk Hnl); reflexivity].
Qed.

Lemma map_values_sim' : forall ks e st regs st1 c rs,
  Inv' e st regs -> (forall k, In k ks -> ~ localk k -> klookup inp k <> None) ->
  map_values fx P inp st ks = Some (st1, c, rs) -> pre (rg_used st1) usedF ->
  exists regs1, steps fx pid c regs regs1 /\ Inv' e st1 regs1 /\ Forall2 (agree_kr e regs1) ks rs /\ ext regs regs1.
Proof.
  induction ks as [|k ks IH]; intros e st regs st1 c rs HI Hk E Hpre; simpl in E.
  - inversion E; subst. exists regs. split; [apply steps_nil | split; [exact HI | split; [constructor | apply ext_refl]]].
  - destruct (map_value fx P inp st k) as [[[st2 c2] v]|] eqn:E1; [| discriminate].
    destruct (map_values fx P inp st2 ks) as [[[st3 c3] vs]|] eqn:E2; [| discriminate].
    inversion E; subst; clear E.
    assert (Hb : klookup e k <> None) by (eapply map_value_bound; [exact HI | exact E1 | apply Hk; left; reflexivity]).
    destruct (klookup e k) as [w|] eqn:Ew; [| congruence].
    assert (Hpre2 : pre (rg_used st2) usedF) by (eapply pre_trans; [eapply map_values_le; exact E2 | exact Hpre]).
    destruct (map_value_sim fx P inp pid e0 regs0 usedF Hnoloc Hinj HArg HCa HCt _ _ _ _ _ _ _ _ HI Ew E1 Hpre2)
      as (regs2 & Hs2 & HI2 & Hr2 & Hx2).
    destruct (IH _ _ _ _ _ _ HI2 (fun k' H => Hk k' (or_intror H)) E2 Hpre) as (regs3 & Hs3 & HI3 & HF3 & Hx3).
    exists regs3. split; [eapply steps_app; eassumption |]. split; [exact HI3 |]. split.
    + constructor; [| exact HF3]. exists w. split; [exact Ew | apply Hx3; exact Hr2].
    + eapply ext_trans; eassumption.
Qed.
Definition NR (e : env) : Prop := forall k v, klookup e k = Some v -> norange v.
Lemma NR_cons : forall e k v, NR e -> norange v -> NR ((k, v) :: e).
Proof.
  intros e k v H Hv k' v' Hk. simpl in Hk. destruct (key_eqb k k'); [inversion Hk; subst; exact Hv | eapply H; exact Hk].
Qed.

Lemma rr_types_agree : forall e regs ks rs, Forall2 (agree_kr e regs) ks rs -> NR e ->
  rr_types fx regs rs = all_some (map (get_type e) ks).
Proof.
  intros e regs ks rs H HN. induction H as [| k r ks rs (v & H1 & H2) _ IH]; [reflexivity |].
  simpl. rewrite H2, IH.
  replace (get_type e k) with (match v with OType t => Some t | _ => None end) by (unfold get_type; rewrite H1; reflexivity).
  specialize (HN _ _ H1).
  destruct v; try contradiction; destruct (all_some (map (get_type e) ks)); reflexivity.
Qed.

Definition TY (t : tenv) (e : env) (pl : payload) : Prop :=
  forall l n, tlook t l = Some (Some n) ->
    exists id xn, klookup e (KLocal l) = Some (OOp id) /\ find_op pl id = Some xn /\ zlen (o_rtys xn) = n.
Lemma TY_nil : forall e pl, TY [] e pl.
Proof. intros e pl l n H. discriminate H. Qed.
Lemma TY_shadow : forall t e pl l w, TY t e pl -> TY ((l, None) :: t) ((KLocal l, w) :: e) pl.
Proof.
  intros t e pl l w H l' n Hl. simpl in Hl. destruct (l =? l') eqn:E; [discriminate |].
  destruct (H _ _ Hl) as (id & xn & H1 & H2 & H3). exists id, xn. split; [| auto].
  rewrite klookup_cons_neq; [exact H1 |]. intro X. inversion X. subst. rewrite Z.eqb_refl in E. discriminate.
Qed.
Lemma TY_create : forall t e pl root name vs ats ts pl' id l cnt,
  create_op pl root name vs ats ts = Some (pl', id) -> TY t e pl ->
  (forall n, cnt = Some n -> zlen ts = n) ->
  TY ((l, cnt) :: t) ((KLocal l, OOp id) :: e) pl'.
Proof.
  intros t e pl root name vs ats ts pl' id l cnt Hc H Hcnt l' n Hl. simpl in Hl. destruct (l =? l') eqn:E.
  - apply Z.eqb_eq in E. subst l'. inversion Hl; subst cnt.
    destruct (create_op_new _ _ _ _ _ _ _ _ Hc) as (xn & H1 & H2). exists id, xn.
    split; [apply klookup_cons_eq | split; [exact H1 | rewrite H2; apply Hcnt; reflexivity]].
  - destruct (H _ _ Hl) as (id' & xn & H1 & H2 & H3). exists id', xn. split; [| split; [eapply create_op_old; eassumption | exact H3]].
    rewrite klookup_cons_neq; [exact H1 |]. intro X. inversion X. subst. rewrite Z.eqb_refl in E. discriminate.
Qed.
Lemma all_some_len : forall A B (f : A -> option B) l vs, all_some (map f l) = Some vs -> length vs = length l.
Proof.
  intros A B f. induction l as [|a l IH]; intros vs H; simpl in H; [inversion H; reflexivity |].
  destruct (f a); [| discriminate]. destruct (all_some (map f l)) eqn:E; [| discriminate]. inversion H; subst.
  simpl. rewrite (IH _ eq_refl). reflexivity.
Qed.

(* the payload root has as many results as the pattern root declares (until it is replaced / erased) *)
Definition RL (pl : payload) : Prop := forall x, find_op pl pid = Some x -> zlen (o_rtys x) = zlen (op_rtys rootpat).
Lemma RL_gone : forall pl, find_op pl pid = None -> RL pl.
Proof. intros pl H x Hx. congruence. Qed.
Lemma RL_create : forall pl name vs ats ts pl' id, create_op pl pid name vs ats ts = Some (pl', id) -> RL pl -> RL pl'.
Proof. intros pl name vs ats ts pl' id H HR x Hx. rewrite (create_op_find _ _ _ _ _ _ _ _ H) in Hx. apply HR. exact Hx. Qed.

Definition outcome (c1 : list rinstr) (st1 : rg) (t' : tenv) (regs : list (rreg * obj)) (pl : payload)
                   (r : option (env * payload)) : Prop :=
  match r with
  | Some (e', pl') => exists regs', (forall rest, run_rewriter fx pid (c1 ++ rest) regs pl = run_rewriter fx pid rest regs' pl') /\
                                    Inv' e' st1 regs' /\ NR e' /\ RL pl' /\ TY t' e' pl'
  | None => forall rest, run_rewriter fx pid (c1 ++ rest) regs pl = RErr
  end.

Lemma root_key' : forall e st regs, Inv' e st regs -> klookup e (KOp (op_id rootpat)) = Some (OOp pid).
Proof. intros e st regs HI. rewrite (I_env _ _ _ _ _ _ HI) by (intros []). exact Hroot. Qed.

Lemma Inv_local' : forall e st regs l w, Inv' e st regs ->
  Inv' ((KLocal l, w) :: e)
      {| rg_vals := (KLocal l, RT (rg_ntmp st)) :: rg_vals st; rg_used := rg_used st; rg_nargs := rg_nargs st;
         rg_ntmp := rg_ntmp st + 1 |} ((RT (rg_ntmp st), w) :: regs).
Proof. intros. eapply Inv_local; eassumption. Qed.

Lemma stmt_full : forall s later t st st1 c1 e regs pl,
  Inv' e st regs -> NR e -> gen_stmt fx P inp rootpat st s later = Some (st1, c1) -> pre (rg_used st1) usedF ->
  RL pl -> TY t e pl -> frag rootpat t s = true ->
  (forall k, In k (stmt_keys s) -> ~ localk k -> klookup inp k <> None) ->
  outcome c1 st1 (tstep rootpat t s later) regs pl (step_rw fx pid s later e pl).
Proof.
  intros s later t st st1 c1 e regs pl HI HN E1 Hpre1 HRI HTY Hfr Hk.
  destruct s; cbn [gen_stmt] in E1; cbn [step_rw outcome tstep]; cbn [frag] in Hfr; cbn [stmt_keys] in Hk.
  - (* pdl.attribute *)
    cbv beta iota zeta delta [rtmp] in E1. inversion E1; subst; clear E1. eexists. split; [intro rest; reflexivity |].
    split; [apply Inv_local'; exact HI | split; [apply NR_cons; [exact HN | exact I] | split; [exact HRI | apply TY_shadow; exact HTY]]].
  - cbv beta iota zeta delta [rtmp] in E1. inversion E1; subst; clear E1. eexists. split; [intro rest; reflexivity |].
    split; [apply Inv_local'; exact HI | split; [apply NR_cons; [exact HN | exact I] | split; [exact HRI | apply TY_shadow; exact HTY]]].
  - (* pdl.operation *)
    destruct (map_values fx P inp st (map vref_key operands)) as [[[sa ca] ro]|] eqn:Ea; [| discriminate].
    destruct (map_values fx P inp sa (map (fun na => aref_key (snd na)) attrs)) as [[[sb cb] ra]|] eqn:Eb; [| discriminate].
    assert (Hpa : pre (rg_used sb) usedF -> exists regs2, steps fx pid (ca ++ cb) regs regs2 /\ Inv' e sb regs2 /\ ext regs regs2 /\
              Forall2 (agree_kr e regs2) (map vref_key operands) ro /\
              Forall2 (agree_kr e regs2) (map (fun na => aref_key (snd na)) attrs) ra).
    { intro Hpb.
      assert (Hpa : pre (rg_used sa) usedF) by (eapply pre_trans; [eapply map_values_le; exact Eb | exact Hpb]).
      destruct (map_values_sim' _ _ _ _ _ _ _ HI (fun k H => Hk k (in_or_app _ _ _ (or_introl H))) Ea Hpa)
        as (regs1 & S1 & I1 & F1 & X1).
      destruct (map_values_sim' _ _ _ _ _ _ _ I1
                  (fun k H => Hk k (in_or_app _ _ _ (or_intror (in_or_app _ _ _ (or_introl H))))) Eb Hpb)
        as (regs2 & S2 & I2 & F2 & X2).
      exists regs2. split; [eapply steps_app; eassumption |]. split; [exact I2 |]. split; [eapply ext_trans; eassumption |].
      split; [eapply agree_ext; eassumption | exact F2]. }
    assert (Hfin : forall sc cc rt regs3 tyexpr cnt,
              (forall ts n, tyexpr = Some ts -> cnt = Some n -> zlen ts = n) ->
              Inv' e sc regs3 -> steps_at fx pid pl (ca ++ cb ++ cc) regs regs3 ->
              Forall2 (agree_kr e regs3) (map vref_key operands) ro ->
              Forall2 (agree_kr e regs3) (map (fun na => aref_key (snd na)) attrs) ra ->
              rr_types fx regs3 rt = tyexpr ->
              st1 = {| rg_vals := (KLocal l, RT (rg_ntmp sc)) :: rg_vals sc; rg_used := rg_used sc;
                       rg_nargs := rg_nargs sc; rg_ntmp := rg_ntmp sc + 1 |} ->
              c1 = ca ++ cb ++ cc ++ [RCreateOp (RT (rg_ntmp sc)) name ro (combine (map fst attrs) ra) rt] ->
              outcome c1 st1 ((l, cnt) :: t) regs pl
                (match all_some (map (fun v => get_val e (vref_key v)) operands),
                       all_some (map (fun na : Z * aref => match get_attr e (aref_key (snd na)) with
                                                           | Some a => Some (fst na, a) | None => None end) attrs),
                       tyexpr with
                 | Some vs, Some ats, Some ts =>
                     match create_op pl pid name vs ats ts with
                     | Some (pl', id) => Some ((KLocal l, OOp id) :: e, pl')
                     | None => None
                     end
                 | _, _, _ => None
                 end)).
    { intros sc cc rt regs3 tyexpr cnt Hcnt HI3 Hst Fo Fa Hty -> ->.
      assert (Hrun : forall rest,
                run_rewriter fx pid ((ca ++ cb ++ cc ++ [RCreateOp (RT (rg_ntmp sc)) name ro (combine (map fst attrs) ra) rt]) ++ rest) regs pl =
                match all_some (map (fun v => get_val e (vref_key v)) operands),
                      all_some (map (fun na : Z * aref => match get_attr e (aref_key (snd na)) with
                                                          | Some a => Some (fst na, a) | None => None end) attrs),
                      tyexpr with
                | Some vs, Some ats, Some ts =>
                    match create_op pl pid name vs ats ts with
                    | Some (pl', id) => run_rewriter fx pid rest ((RT (rg_ntmp sc), OOp id) :: regs3) pl'
                    | None => RErr
                    end
                | _, _, _ => RErr
                end).
      { intro rest.
        replace ((ca ++ cb ++ cc ++ [RCreateOp (RT (rg_ntmp sc)) name ro (combine (map fst attrs) ra) rt]) ++ rest)
          with ((ca ++ cb ++ cc) ++ [RCreateOp (RT (rg_ntmp sc)) name ro (combine (map fst attrs) ra) rt] ++ rest)
          by (rewrite <- !app_assoc; reflexivity).
        rewrite Hst. simpl app. cbn [run_rewriter].
        rewrite <- (get_val_agree _ _ _ _ Fo), map_map, (get_attr_agree _ _ _ _ Fa), Hty. reflexivity. }
      destruct (all_some (map (fun v => get_val e (vref_key v)) operands)) as [vs|];
        [| cbn [outcome]; intro rest; rewrite Hrun; reflexivity].
      destruct (all_some (map (fun na : Z * aref => match get_attr e (aref_key (snd na)) with
                                                    | Some a => Some (fst na, a) | None => None end) attrs)) as [ats|];
        [| cbn [outcome]; intro rest; rewrite Hrun; reflexivity].
      destruct tyexpr as [ts|]; [| cbn [outcome]; intro rest; rewrite Hrun; reflexivity].
      destruct (create_op pl pid name vs ats ts) as [[pl' id]|] eqn:Dc; [| cbn [outcome]; intro rest; rewrite Hrun; reflexivity].
      cbn [outcome]. eexists. split; [intro rest; rewrite Hrun; reflexivity |].
      split; [apply Inv_local'; exact HI3 | split; [apply NR_cons; [exact HN | exact I] | split; [eapply RL_create; eassumption |]]].
      eapply TY_create; [exact Dc | exact HTY | intros n Hn; eapply Hcnt; [reflexivity | exact Hn]]. }
    destruct tys as [|t0 tys].
    + destruct (existsb (is_replace_with l) later) eqn:Ex.
      * destruct (map_value fx P inp sb (KOp (op_id rootpat))) as [[[sc cc] rroot]|] eqn:Ec; [| discriminate].
        cbv beta iota zeta delta [rtmp] in E1. inversion E1; subst; clear E1. cbn [rg_used] in Hpre1.
        rewrite Hinfer. cbn [andb].
        destruct Hpa as (regs2 & S2 & I2 & X2 & Fo & Fa); [eapply pre_trans; [eapply map_value_le; exact Ec | exact Hpre1] |].
        destruct (map_value_sim fx P inp pid e0 regs0 usedF Hnoloc Hinj HArg HCa HCt _ _ _ _ _ _ _ _ I2 (root_key' _ _ _ I2) Ec Hpre1)
          as (regs3 & S3 & I3 & Hr3 & X3).
        destruct (find_op pl pid) as [x|] eqn:Df.
        -- pose proof (find_op_id _ _ _ Df) as Hid.
           set (n := rg_ntmp sc).
           pose proof (Inv_tmp_none _ _ _ _ _ _ (OVals (op_results x)) I3) as I4.
           pose proof (Inv_tmp_none _ _ _ _ _ _ (OTypes (map (vtype pl) (op_results x))) I4) as I5.
           cbn [rg_ntmp rg_vals rg_used rg_nargs] in I5.
           assert (X5 : ext regs3 ((RT (n + 1), OTypes (map (vtype pl) (op_results x))) :: (RT n, OVals (op_results x)) :: regs3)).
           { eapply ext_trans; [eapply ext_tmp; exact I3 | eapply (ext_tmp _ _ _ _ _ _ _ I4)]. }
           eapply (Hfin _ (cc ++ [RGetResults (RT n) rroot] ++ [RGetValueType (RT (n + 1)) (RT n)]) [RT (n + 1)] _ (Some (o_rtys x)) (Some (zlen (op_rtys rootpat)))
                     ltac:(intros ts1 n1 H1 H2; inversion H1; inversion H2; subst; apply HRI; exact Df) I5).
           ++ replace (ca ++ cb ++ cc ++ [RGetResults (RT n) rroot] ++ [RGetValueType (RT (n + 1)) (RT n)])
                with ((ca ++ cb) ++ cc ++ ([RGetResults (RT n) rroot] ++ [RGetValueType (RT (n + 1)) (RT n)]))
                by (rewrite <- app_assoc; reflexivity).
              eapply steps_at_app; [apply steps_at_of; exact S2 |]. eapply steps_at_app; [apply steps_at_of; exact S3 |].
              intros rest. simpl app. cbn [run_rewriter]. unfold rr_op. rewrite Hr3, Df.
              rewrite rrlookup_cons_eq, Hrange. reflexivity.
           ++ eapply agree_ext; [| exact Fo]. eapply ext_trans; [exact X3 | exact X5].
           ++ eapply agree_ext; [| exact Fa]. eapply ext_trans; [exact X3 | exact X5].
           ++ cbn [rr_types]. rewrite rrlookup_cons_eq, Hrange.
              rewrite vtype_results by (rewrite Hid; exact Df). rewrite app_nil_r. reflexivity.
           ++ subst n. cbn [rg_ntmp]. f_equal; try lia.
           ++ subst n. cbn [rg_ntmp]. rewrite <- !app_assoc. simpl. repeat (f_equal; try lia).
        -- (* the root is gone: both raise *)
           assert (Hnone : forall rest, run_rewriter fx pid ((ca ++ cb ++ (cc ++ [RGetResults (RT (rg_ntmp sc)) rroot] ++
                       [RGetValueType (RT (rg_ntmp sc + 1)) (RT (rg_ntmp sc))]) ++
                       [RCreateOp (RT (rg_ntmp sc + 1 + 1)) name ro (combine (map fst attrs) ra) [RT (rg_ntmp sc + 1)]]) ++ rest) regs pl = RErr).
           { intro rest.
             replace ((ca ++ cb ++ (cc ++ [RGetResults (RT (rg_ntmp sc)) rroot] ++
                       [RGetValueType (RT (rg_ntmp sc + 1)) (RT (rg_ntmp sc))]) ++
                       [RCreateOp (RT (rg_ntmp sc + 1 + 1)) name ro (combine (map fst attrs) ra) [RT (rg_ntmp sc + 1)]]) ++ rest)
               with ((ca ++ cb) ++ cc ++ ([RGetResults (RT (rg_ntmp sc)) rroot] ++
                       [RGetValueType (RT (rg_ntmp sc + 1)) (RT (rg_ntmp sc))] ++
                       [RCreateOp (RT (rg_ntmp sc + 1 + 1)) name ro (combine (map fst attrs) ra) [RT (rg_ntmp sc + 1)]] ++ rest))
               by (rewrite <- !app_assoc; reflexivity).
             rewrite S2, S3. simpl app. cbn [run_rewriter]. unfold rr_op. rewrite Hr3, Df. reflexivity. }
           destruct (all_some (map (fun v => get_val e (vref_key v)) operands));
             [| cbn [outcome]; exact Hnone].
           destruct (all_some (map (fun na : Z * aref => match get_attr e (aref_key (snd na)) with
                                                         | Some a => Some (fst na, a) | None => None end) attrs));
             cbn [outcome]; exact Hnone.
      * cbv beta iota zeta delta [rtmp] in E1. inversion E1; subst; clear E1. cbn [rg_used] in Hpre1.
        rewrite andb_false_r.
        destruct Hpa as (regs2 & S2 & I2 & X2 & Fo & Fa); [exact Hpre1 |].
        eapply (Hfin sb [] [] regs2 (Some []) (Some 0)); try reflexivity; try assumption;
          try (intros ts0 n0 H1 H2; inversion H1; inversion H2; reflexivity).
        rewrite app_nil_r. apply steps_at_of. exact S2.
    + destruct (map_values fx P inp sb (map tref_key (t0 :: tys))) as [[[sc cc] rt]|] eqn:Ec; [| discriminate].
      cbv beta iota zeta delta [rtmp] in E1. inversion E1; subst; clear E1. cbn [rg_used] in Hpre1.
      destruct Hpa as (regs2 & S2 & I2 & X2 & Fo & Fa); [eapply pre_trans; [eapply map_values_le; exact Ec | exact Hpre1] |].
      destruct (map_values_sim' _ _ _ _ _ _ _ I2
                  (fun k H => Hk k (in_or_app _ _ _ (or_intror (in_or_app _ _ _ (or_intror H))))) Ec Hpre1)
        as (regs3 & S3 & I3 & F3 & X3).
      eapply (Hfin sc cc rt regs3 (all_some (map (fun t1 => get_type e (tref_key t1)) (t0 :: tys))) (Some (zlen (t0 :: tys))));
        try reflexivity.
      * intros ts n H1 H2. inversion H2; subst. apply all_some_len in H1. unfold zlen. rewrite H1. reflexivity.
      * exact I3.
      * rewrite app_assoc. eapply steps_at_app; apply steps_at_of; eassumption.
      * eapply agree_ext; eassumption.
      * eapply agree_ext; eassumption.
      * rewrite (rr_types_agree _ _ _ _ F3 HN), map_map. reflexivity.
  - (* pdl.result of a new operation whose result count is known *)
    destruct (tlook t lop) as [[n|]|] eqn:Et; try discriminate.
    apply andb_true_iff in Hfr. destruct Hfr as [Hr1 Hr2]. apply Z.leb_le in Hr1. apply Z.ltb_lt in Hr2.
    destruct (HTY _ _ Et) as (id & xn & Hl & Hf & Hz).
    destruct (map_value fx P inp st (KLocal lop)) as [[[sa ca] r]|] eqn:Ea; [| discriminate].
    cbv beta iota zeta delta [rtmp] in E1. inversion E1; subst; clear E1. cbn [rg_used] in Hpre1.
    destruct (map_value_sim fx P inp pid e0 regs0 usedF Hnoloc Hinj HArg HCa HCt _ _ _ _ _ _ _ _ HI Hl Ea Hpre1)
      as (regs1 & S1 & I1 & Hr & X1).
    unfold get_opid. rewrite Hl, Hf.
    assert (Hin : (0 <=? idx) && (idx <? zlen (o_rtys xn)) = true).
    { apply andb_true_iff. split; [apply Z.leb_le | apply Z.ltb_lt]; lia. }
    rewrite Hin. cbn [outcome]. eexists. split.
    + intro rest. rewrite <- app_assoc. rewrite S1. simpl app. cbn [run_rewriter]. unfold rr_op. rewrite Hr, Hf, Hin.
      rewrite (find_op_id _ _ _ Hf). reflexivity.
    + split; [apply Inv_local'; exact I1 | split; [apply NR_cons; [exact HN | exact I] | split; [exact HRI | apply TY_shadow; exact HTY]]].
  - (* pdl.replace with values *)
    destruct (map_values fx P inp st (map vref_key vs)) as [[[sa ca] rs]|] eqn:Ea; [| discriminate].
    destruct (map_value fx P inp sa (KOp (op_id rootpat))) as [[[sb cb] rroot]|] eqn:Eb; [| discriminate].
    inversion E1; subst; clear E1.
    destruct vs as [|v0 vs]; [discriminate |].
    assert (Hpa : pre (rg_used sa) usedF) by (eapply pre_trans; [eapply map_value_le; exact Eb | exact Hpre1]).
    destruct (map_values_sim' _ _ _ _ _ _ _ HI Hk Ea Hpa) as (regs1 & S1 & I1 & F1 & X1).
    destruct (map_value_sim fx P inp pid e0 regs0 usedF Hnoloc Hinj HArg HCa HCt _ _ _ _ _ _ _ _ I1 (root_key' _ _ _ I1) Eb Hpre1)
      as (regs2 & S2 & I2 & Hr2 & X2).
    inversion F1 as [| k0 r0 ks0 rs0 _ F1' Hk0 Hr0]; subst.
    assert (Hrun : forall rest,
              run_rewriter fx pid ((ca ++ cb ++ [RReplace rroot (map (fun r => (false, r)) (r0 :: rs0))]) ++ rest) regs pl =
              match all_some (map (fun v => get_val e (vref_key v)) (v0 :: vs)) with
              | Some news => match find_op pl pid with
                             | Some x => match replace_op pl (o_id x) news with
                                         | Some pl' => run_rewriter fx pid rest regs2 pl'
                                         | None => RErr
                                         end
                             | None => RErr
                             end
              | None => match find_op pl pid with Some _ => RErr | None => RErr end
              end).
    { intro rest. rewrite <- !app_assoc. rewrite S1, S2. simpl app. cbn [run_rewriter]. unfold rr_op. rewrite Hr2.
      change ((false, r0) :: map (fun r => (false, r)) rs0) with (map (fun r : rreg => (false, r)) (r0 :: rs0)).
      rewrite repl_values_false.
      rewrite <- (get_val_agree e regs2 (map vref_key (v0 :: vs)) (r0 :: rs0)) by (eapply agree_ext; eassumption).
      rewrite map_map. destruct (find_op pl pid); destruct (all_some (map (fun v => get_val e (vref_key v)) (v0 :: vs))); reflexivity. }
    destruct (all_some (map (fun v => get_val e (vref_key v)) (v0 :: vs))) as [news|].
    + destruct (replace_op pl pid news) as [pl'|] eqn:Dp.
      * destruct (replace_op_find _ _ _ _ Dp) as (x & Dx & Hid). cbn [outcome]. exists regs2.
        split; [intro rest; rewrite Hrun, Dx, Hid, Dp; reflexivity |].
        split; [exact I2 | split; [exact HN | split; [apply RL_gone; eapply find_after_replace; exact Dp | apply TY_nil]]].
      * cbn [outcome]. intro rest. rewrite Hrun. destruct (find_op pl pid) as [x|] eqn:Dx; [| reflexivity].
        rewrite (find_op_id _ _ _ Dx), Dp. reflexivity.
    + cbn [outcome]. intro rest. rewrite Hrun. destruct (find_op pl pid); reflexivity.
  - (* pdl.replace with an operation, root with declared result types *)
    destruct (op_rtys rootpat) as [|t0 ts0] eqn:Ert.
    { (* root without result types: the lowering erases it; the replacement is known to have no results *)
      destruct (tlook t l) as [[[| |]|]|] eqn:Et; try discriminate.
      destruct (HTY _ _ Et) as (id & xn & Hl & Hf & Hz).
      destruct (map_value fx P inp st (KOp (op_id rootpat))) as [[[sa ca] rroot]|] eqn:Ea; [| discriminate].
      inversion E1; subst; clear E1.
      destruct (map_value_sim fx P inp pid e0 regs0 usedF Hnoloc Hinj HArg HCa HCt _ _ _ _ _ _ _ _ HI (root_key' _ _ _ HI) Ea Hpre1)
        as (regs1 & S1 & I1 & Hr1 & X1).
      assert (Hnil : op_results xn = []).
      { unfold op_results. unfold zlen in Hz. destruct (o_rtys xn); [reflexivity | simpl in Hz; lia]. }
      unfold get_opid. rewrite Hl, Hf, Hnil.
      assert (Hrun : forall rest, run_rewriter fx pid ((ca ++ [RErase rroot]) ++ rest) regs pl =
                match find_op pl pid with
                | Some x => match erase_op pl (o_id x) with Some pl' => run_rewriter fx pid rest regs1 pl' | None => RErr end
                | None => RErr
                end).
      { intro rest. rewrite <- !app_assoc. rewrite S1. simpl app. cbn [run_rewriter]. rewrite Herase. unfold rr_op. rewrite Hr1.
        reflexivity. }
      destruct (find_op pl pid) as [x|] eqn:Df.
      - assert (Hx0 : o_rtys x = []).
        { pose proof (HRI _ Df) as Hz0. rewrite Ert in Hz0. unfold zlen in Hz0. destruct (o_rtys x); [reflexivity | simpl in Hz0; lia]. }
        rewrite (replace_nil_erase _ _ _ Df Hx0).
        destruct (erase_op pl pid) as [pl'|] eqn:De.
        + cbn [outcome]. exists regs1. split; [intro rest; rewrite Hrun, (find_op_id _ _ _ Df), De; reflexivity |].
          split; [exact I1 | split; [exact HN | split; [apply RL_gone; eapply find_after_erase; exact De | apply TY_nil]]].
        + cbn [outcome]. intro rest. rewrite Hrun, (find_op_id _ _ _ Df), De. reflexivity.
      - unfold replace_op. rewrite Df. cbn [outcome]. intro rest. rewrite Hrun. reflexivity. }
    destruct (map_value fx P inp st (KLocal l)) as [[[sa ca] r]|] eqn:Ea; [| discriminate].
    cbv beta iota zeta delta [rtmp] in E1.
    match type of E1 with context [map_value fx P inp ?s0 (KOp (op_id rootpat))] => set (sa' := s0) in * end.
    destruct (map_value fx P inp sa' (KOp (op_id rootpat))) as [[[sb cb] rroot]|] eqn:Eb; [| discriminate].
    inversion E1; subst; clear E1.
    assert (Hpa : pre (rg_used sa) usedF).
    { change (rg_used sa) with (rg_used sa'). eapply pre_trans; [eapply map_value_le; exact Eb | exact Hpre1]. }
    assert (Hb : klookup e (KLocal l) <> None).
    { eapply map_value_bound; [exact HI | exact Ea | intro Hl; exfalso; apply Hl; exact I]. }
    destruct (klookup e (KLocal l)) as [w|] eqn:Ew; [| congruence].
    destruct (map_value_sim fx P inp pid e0 regs0 usedF Hnoloc Hinj HArg HCa HCt _ _ _ _ _ _ _ _ HI Ew Ea Hpa)
      as (regs1 & S1 & I1 & Hr1 & X1).
    unfold get_opid. rewrite Ew.
    assert (Hcase : (exists p xn, w = OOp p /\ find_op pl p = Some xn) \/
                    (forall rest, run_rewriter fx pid ((ca ++ [RGetResults (RT (rg_ntmp sa)) r] ++ cb ++
                                   [RReplace rroot [(true, RT (rg_ntmp sa))]]) ++ rest) regs pl = RErr) /\
                    match w with OOp p => find_op pl p = None | _ => True end).
    { destruct w as [| p | | | | |]; try (right; split; [| exact I]; intro rest; rewrite <- !app_assoc; rewrite S1; simpl app;
                                            cbn [run_rewriter]; unfold rr_op; rewrite Hr1; reflexivity).
      destruct (find_op pl p) as [xn|] eqn:Df; [left; eauto |].
      right. split; [| reflexivity]. intro rest. rewrite <- !app_assoc. rewrite S1. simpl app. cbn [run_rewriter].
      unfold rr_op. rewrite Hr1, Df. reflexivity. }
    destruct Hcase as [(p & xn & -> & Df) | [Herr Hw]].
    2:{ destruct w; try (cbn [outcome]; exact Herr). rewrite Hw. cbn [outcome]. exact Herr. }
    rewrite Df.
    pose proof (Inv_tmp_none _ _ _ _ _ _ (OVals (op_results xn)) I1) as I1'. fold sa' in I1'.
    destruct (map_value_sim fx P inp pid e0 regs0 usedF Hnoloc Hinj HArg HCa HCt _ _ _ _ _ _ _ _ I1' (root_key' _ _ _ I1') Eb Hpre1)
      as (regs2 & S2 & I2 & Hr2 & X2).
    assert (Hrun : forall rest,
              run_rewriter fx pid ((ca ++ [RGetResults (RT (rg_ntmp sa)) r] ++ cb ++ [RReplace rroot [(true, RT (rg_ntmp sa))]]) ++ rest) regs pl =
              match find_op pl pid with
              | Some x => match replace_op pl (o_id x) (op_results xn) with
                          | Some pl' => run_rewriter fx pid rest regs2 pl'
                          | None => RErr
                          end
              | None => RErr
              end).
    { intro rest. rewrite <- !app_assoc. rewrite S1. simpl app. cbn [run_rewriter]. unfold rr_op at 1. rewrite Hr1, Df.
      rewrite S2. simpl app. cbn [run_rewriter]. unfold rr_op. rewrite Hr2. cbn [repl_values].
      rewrite (X2 _ _ (rrlookup_cons_eq _ _ _)), app_nil_r. reflexivity. }
    destruct (replace_op pl pid (op_results xn)) as [pl'|] eqn:Dp.
    + destruct (replace_op_find _ _ _ _ Dp) as (x & Dx & Hid). cbn [outcome]. exists regs2.
      split; [intro rest; rewrite Hrun, Dx, Hid, Dp; reflexivity |].
      split; [exact I2 | split; [exact HN | split; [apply RL_gone; eapply find_after_replace; exact Dp | apply TY_nil]]].
    + cbn [outcome]. intro rest. rewrite Hrun. destruct (find_op pl pid) as [x|] eqn:Dx; [| reflexivity].
      rewrite (find_op_id _ _ _ Dx), Dp. reflexivity.
  - (* pdl.erase *)
    destruct (map_value fx P inp st (KOp (op_id rootpat))) as [[[sa ca] rroot]|] eqn:Ea; [| discriminate].
    inversion E1; subst; clear E1.
    destruct (map_value_sim fx P inp pid e0 regs0 usedF Hnoloc Hinj HArg HCa HCt _ _ _ _ _ _ _ _ HI (root_key' _ _ _ HI) Ea Hpre1)
      as (regs1 & S1 & I1 & Hr1 & X1).
    assert (Hrun : forall rest, run_rewriter fx pid ((ca ++ [RErase rroot]) ++ rest) regs pl =
              match find_op pl pid with
              | Some x => match erase_op pl (o_id x) with Some pl' => run_rewriter fx pid rest regs1 pl' | None => RErr end
              | None => RErr
              end).
    { intro rest. rewrite <- !app_assoc. rewrite S1. simpl app. cbn [run_rewriter]. rewrite Herase. unfold rr_op. rewrite Hr1.
      reflexivity. }
    destruct (find_op pl pid) as [x|] eqn:Df; [| cbn [outcome]; intro rest; rewrite Hrun; reflexivity].
    destruct (erase_op pl pid) as [pl'|] eqn:De.
    + cbn [outcome]. exists regs1. split; [intro rest; rewrite Hrun, (find_op_id _ _ _ Df), De; reflexivity |].
      split; [exact I1 | split; [exact HN | split; [apply RL_gone; eapply find_after_erase; exact De | apply TY_nil]]].
    + cbn [outcome]. intro rest. rewrite Hrun, (find_op_id _ _ _ Df), De. reflexivity.
Qed.
Theorem stmts_full : forall l t st stF code e regs pl,
  Inv' e st regs -> NR e -> gen_stmts fx P inp rootpat st l = Some (stF, code) -> pre (rg_used stF) usedF ->
  RL pl -> TY t e pl -> frag_all rootpat t l = true ->
  (forall s, In s l -> forall k, In k (stmt_keys s) -> ~ localk k -> klookup inp k <> None) ->
  run_rewriter fx pid (code ++ [RFinalize]) regs pl = run_rw fx pid l e pl.
Proof.
  induction l as [|s l IH]; intros t st stF code e regs pl HI HN Hg Hpre HRI HTY Hfr Hk.
  - simpl in Hg. inversion Hg; subst. reflexivity.
  - cbn [gen_stmts] in Hg. destruct (gen_stmt fx P inp rootpat st s l) as [[st1 c1]|] eqn:E1; [| discriminate].
    destruct (gen_stmts fx P inp rootpat st1 l) as [[st2 c2]|] eqn:E2; [| discriminate]. inversion Hg; subst; clear Hg.
    assert (Hpre1 : pre (rg_used st1) usedF) by (eapply pre_trans; [eapply gen_stmts_le; exact E2 | exact Hpre]).
    cbn [frag_all] in Hfr. apply andb_true_iff in Hfr. destruct Hfr as [Hfs Hfl].
    pose proof (stmt_full s l t st st1 c1 e regs pl HI HN E1 Hpre1 HRI HTY Hfs (Hk s (or_introl eq_refl))) as Ho.
    rewrite run_rw_step. rewrite <- app_assoc.
    destruct (step_rw fx pid s l e pl) as [[e' pl']|]; cbn [outcome] in Ho.
    + destruct Ho as (regs' & Hrun & HI' & HN' & HRI' & HTY'). rewrite Hrun.
      eapply IH; try eassumption. intros s' Hs'. apply Hk. right. exact Hs'.
    + apply Ho.
Qed.
End Full.
