(* C27/ProofsEnv.v -- facts about the environment the direct matcher returns: it only grows, constants are
   bound to their constant, and every pdl.operation / pdl.result value of the (linear) tree is bound at the end. *)
From Coq Require Import ZArith List Bool Lia.
From XV Require Import C27.Model C27.ProofsChain C27.ProofsMatch.
Import ListNotations.
Local Open Scope Z_scope.

Section Env.
Variable fx : fixes.
Variable P : pattern.
Variable pl : payload.

Definition mono_e (e e' : env) : Prop := forall k, klookup e k <> None -> klookup e' k <> None.
Definition cinv (e : env) : Prop :=
  (forall a c v, p_aconst P a = Some c -> klookup e (KAttr a) = Some v -> v = OAttr c) /\
  (forall t c v, p_tconst P t = Some c -> klookup e (KType t) = Some v -> v = OType c).
Definition sdom (e : env) (seen : list key) : Prop := forall k, structk k -> klookup e k <> None -> In k seen.

(* what one successful matching step guarantees *)
Definition good (e e' : env) (seen seen' : list key) : Prop :=
  mono_e e e' /\ (cinv e -> cinv e') /\ sdom e' seen' /\
  (forall k, In k seen' -> ~ In k seen -> klookup e' k <> None).

Lemma mono_refl : forall e, mono_e e e.
Proof. intros e k H. exact H. Qed.
Lemma mono_cons : forall e k v, mono_e e ((k, v) :: e).
Proof. intros e k v k' H. simpl. destruct (key_eqb k k'); [discriminate | exact H]. Qed.
Lemma mono_trans : forall a b c, mono_e a b -> mono_e b c -> mono_e a c.
Proof. intros a b c H1 H2 k H. apply H2, H1, H. Qed.

Lemma good_refl : forall e seen, sdom e seen -> good e e seen seen.
Proof. intros e seen H. split; [apply mono_refl | split; [tauto | split; [exact H | intros k H1 H2; contradiction]]]. Qed.
Lemma good_trans : forall e1 e2 e3 s1 s2 s3,
  (forall k, In k s1 -> In k s2) ->
  good e1 e2 s1 s2 -> good e2 e3 s2 s3 -> good e1 e3 s1 s3.
Proof.
  intros e1 e2 e3 s1 s2 s3 Hsub (M1 & C1 & D1 & N1) (M2 & C2 & D2 & N2).
  split; [eapply mono_trans; eassumption |]. split; [tauto |]. split; [exact D2 |].
  intros k H3 Hn1. destruct (in_dec (fun a b => match Bool.bool_dec (key_eqb a b) true with
                                                 | left H => left (proj1 (key_eqb_eq a b) H)
                                                 | right H => right (fun E => H (proj2 (key_eqb_eq a b) E)) end) k s2) as [H2 | H2].
  - apply M2. apply N1; assumption.
  - apply N2; assumption.
Qed.

(* binding a non-structural key whose value respects the constants *)
Lemma good_bind : forall e seen k v,
  sdom e seen -> ~ structk k ->
  (forall a c, k = KAttr a -> p_aconst P a = Some c -> v = OAttr c) ->
  (forall t c, k = KType t -> p_tconst P t = Some c -> v = OType c) ->
  good e ((k, v) :: e) seen seen.
Proof.
  intros e seen k v Hd Hk Ha Ht. split; [apply mono_cons |]. split; [| split].
  - intros [C1 C2]. split.
    + intros a c w Hc H. simpl in H. destruct (key_eqb k (KAttr a)) eqn:E; [| eapply C1; eassumption].
      apply key_eqb_eq in E. inversion H; subst w. eapply Ha; eassumption.
    + intros t c w Hc H. simpl in H. destruct (key_eqb k (KType t)) eqn:E; [| eapply C2; eassumption].
      apply key_eqb_eq in E. inversion H; subst w. eapply Ht; eassumption.
  - intros k' Hs H. simpl in H. destruct (key_eqb k k') eqn:E; [apply key_eqb_eq in E; subst; contradiction | apply Hd; assumption].
  - intros k' H1 H2. contradiction.
Qed.

Lemma match_type_good : forall e seen t xty e', sdom e seen -> match_type P e t xty = MOk e' -> good e e' seen seen.
Proof.
  intros e seen t xty e' Hd H. unfold match_type, bound_or in H.
  destruct (klookup e (KType t)) as [b|].
  - destruct (obj_eqb b (OType xty)); inversion H; subst. apply good_refl. exact Hd.
  - destruct (p_tconst P t) as [c|] eqn:Ec.
    + destruct (c =? xty) eqn:E; inversion H; subst. apply Z.eqb_eq in E. subst.
      apply good_bind; [exact Hd | intros [] | intros; discriminate | intros t' c' Hk Hc; inversion Hk; subst; congruence].
    + inversion H; subst.
      apply good_bind; [exact Hd | intros [] | intros; discriminate | intros t' c' Hk Hc; inversion Hk; subst; congruence].
Qed.
Lemma match_attribute_good : forall e seen a xa e', sdom e seen -> match_attribute P e a xa = MOk e' -> good e e' seen seen.
Proof.
  intros e seen a xa e' Hd H. unfold match_attribute, bound_or in H.
  destruct (klookup e (KAttr a)) as [b|].
  - destruct (obj_eqb b (OAttr xa)); inversion H; subst. apply good_refl. exact Hd.
  - destruct (p_aconst P a) as [c|] eqn:Ec.
    + destruct (c =? xa) eqn:E; inversion H; subst. apply Z.eqb_eq in E. subst.
      apply good_bind; [exact Hd | intros [] | intros a' c' Hk Hc; inversion Hk; subst; congruence | intros; discriminate].
    + inversion H; subst.
      apply good_bind; [exact Hd | intros [] | intros a' c' Hk Hc; inversion Hk; subst; congruence | intros; discriminate].
Qed.
Lemma good_sdom : forall e e' s s', good e e' s s' -> sdom e' s'.
Proof. intros e e' s s' (_ & _ & H & _). exact H. Qed.
Lemma sub_refl : forall (s : list key) k, In k s -> In k s.
Proof. auto. Qed.

Lemma match_free_good : forall e seen ov v e', sdom e seen -> match_free_operand P pl e ov v = MOk e' -> good e e' seen seen.
Proof.
  intros e seen ov v e' Hd H. unfold match_free_operand, bound_or in H.
  destruct (klookup e (KOperand ov)) as [b|].
  - destruct (obj_eqb b (OVal v)); inversion H; subst. apply good_refl. exact Hd.
  - destruct (p_otype P ov) as [t|].
    + destruct (match_type P e t (vtype pl v)) as [| |e1] eqn:E1; try discriminate. inversion H; subst.
      pose proof (match_type_good _ _ _ _ _ Hd E1) as G1.
      eapply good_trans; [apply sub_refl | exact G1 |].
      apply good_bind; [eapply good_sdom; exact G1 | intros [] | intros; discriminate | intros; discriminate].
    + inversion H; subst. apply good_bind; [exact Hd | intros [] | intros; discriminate | intros; discriminate].
Qed.
Lemma match_attrs_good : forall attrs e seen x e', sdom e seen -> match_attrs P x e attrs = MOk e' -> good e e' seen seen.
Proof.
  induction attrs as [|[n a] attrs IH]; intros e seen x e' Hd H; simpl in H.
  - inversion H; subst. apply good_refl. exact Hd.
  - destruct (get_attr_or_prop x n) as [xa|]; [| discriminate].
    destruct (match_attribute P e a xa) as [| |e1] eqn:E1; try discriminate.
    pose proof (match_attribute_good _ _ _ _ _ Hd E1) as G1.
    eapply good_trans; [apply sub_refl | exact G1 | eapply IH; [eapply good_sdom; exact G1 | exact H]].
Qed.
Lemma match_types_good : forall ts xs e seen e', sdom e seen -> match_types P e ts xs = MOk e' -> good e e' seen seen.
Proof.
  induction ts as [|t ts IH]; intros xs e seen e' Hd H; simpl in H.
  - inversion H; subst. apply good_refl. exact Hd.
  - destruct xs as [|y xs]; [inversion H; subst; apply good_refl; exact Hd |].
    destruct (match_type P e t y) as [| |e1] eqn:E1; try discriminate.
    pose proof (match_type_good _ _ _ _ _ Hd E1) as G1.
    eapply good_trans; [apply sub_refl | exact G1 | eapply IH; [eapply good_sdom; exact G1 | exact H]].
Qed.
Lemma sdom_weaken : forall e seen k, sdom e seen -> sdom e (k :: seen).
Proof. intros e seen k H k' Hs Hb. right. apply H; assumption. Qed.

Lemma good_close : forall e e1 seen seen' k v,
  structk k ->
  good e e1 (k :: seen) seen' -> (forall k', In k' (k :: seen) -> In k' seen') ->
  good e ((k, v) :: e1) seen seen'.
Proof.
  intros e e1 seen seen' k v Hk (M & C & D & N) Hsub. split; [eapply mono_trans; [exact M | apply mono_cons] |].
  split; [| split].
  - intros Hc. destruct (C Hc) as [C1 C2]. split.
    + intros a c w Hac H. simpl in H. destruct (key_eqb k (KAttr a)) eqn:E;
        [apply key_eqb_eq in E; subst; contradiction | eapply C1; eassumption].
    + intros t c w Htc H. simpl in H. destruct (key_eqb k (KType t)) eqn:E;
        [apply key_eqb_eq in E; subst; contradiction | eapply C2; eassumption].
  - intros k' Hs H. simpl in H. destruct (key_eqb k k') eqn:E.
    + apply key_eqb_eq in E. subst. apply Hsub. left. reflexivity.
    + apply D; assumption.
  - intros k' H1 H2. simpl. destruct (key_eqb k k') eqn:E; [discriminate |].
    apply N; [exact H1 |]. intros [H3 | H3]; [subst; rewrite key_eqb_refl in E; discriminate | contradiction].
Qed.

Definition E_operand (x : operand_pat) : Prop :=
  forall e v e' seen seen', sdom e seen -> lin_operand x seen = Some seen' ->
    match_operand fx P pl e x v = MOk e' -> good e e' seen seen' /\ (forall k, In k seen -> In k seen').
Definition E_op (o : op_pat) : Prop :=
  forall e x e' seen seen', sdom e seen -> lin_op o seen = Some seen' ->
    match_op fx P pl e o x = MOk e' -> good e e' seen seen' /\ (forall k, In k seen -> In k seen').

Lemma operands_good : forall ops, Forall E_operand ops ->
  forall vals e e' seen seen', sdom e seen -> length ops = length vals ->
    lin_with (fun x s => lin_operand x s) ops seen = Some seen' ->
    match_operands_with (fun e op v => match_operand fx P pl e op v) e ops vals = MOk e' ->
    good e e' seen seen' /\ (forall k, In k seen -> In k seen').
Proof.
  induction ops as [|op ops IH]; intros HF vals e e' seen seen' Hd Hlen Hlin H.
  - simpl in Hlin. inversion Hlin; subst. destruct vals; simpl in H; inversion H; subst.
    split; [apply good_refl; exact Hd | auto]. split; [apply good_refl; exact Hd | auto].
  - destruct vals as [|v vals]; [discriminate |]. inversion HF as [| ? ? Hop HF']; subst.
    cbn [lin_with] in Hlin. destruct (lin_operand op seen) as [s1|] eqn:El; [| discriminate].
    cbn [match_operands_with] in H. destruct (match_operand fx P pl e op v) as [| |e1] eqn:E1; try discriminate.
    destruct (Hop _ _ _ _ _ Hd El E1) as [G1 S1].
    destruct (IH HF' vals e1 e' s1 seen' (good_sdom _ _ _ _ G1) ltac:(simpl in Hlen; lia) Hlin H) as [G2 S2].
    split; [eapply good_trans; [exact S1 | exact G1 | exact G2] | auto].
Qed.

Lemma sdom_fresh : forall e seen k, sdom e seen -> structk k -> kmem k seen = false -> klookup e k = None.
Proof.
  intros e seen k Hd Hk Hm. destruct (klookup e k) eqn:E; [| reflexivity]. exfalso.
  assert (In k seen) by (apply Hd; [exact Hk | congruence]). apply kmem_In in H. congruence.
Qed.

Theorem env_good : forall o, E_op o.
Proof.
  apply (op_pat_ind2 E_op E_operand).
  - intros id name attrs operands rtys HF e x e' seen seen' Hd Hlin H.
    cbn [lin_op] in Hlin. destruct (kmem (KOp id) seen) eqn:Ek; [discriminate |].
    cbn [match_op] in H. unfold bound_or in H. rewrite (sdom_fresh _ _ (KOp id) Hd I Ek) in H.
    destruct (match name with Some n => negb (o_name x =? n) | None => false end); [discriminate |].
    destruct (match_attrs P x e attrs) as [| |e1] eqn:E1; try discriminate.
    destruct (negb (zlen operands =? zlen (o_operands x))) eqn:Eo; [discriminate |].
    destruct (match_operands_with (fun e op v => match_operand fx P pl e op v) e1 operands (o_operands x)) as [| |e2] eqn:E2; try discriminate.
    destruct (negb (zlen rtys =? zlen (o_rtys x))); [discriminate |].
    destruct (match_types P e2 rtys (o_rtys x)) as [| |e3] eqn:E3; try discriminate. inversion H; subst; clear H.
    pose proof (match_attrs_good _ _ _ _ _ (sdom_weaken _ _ (KOp id) Hd) E1) as G1.
    assert (Hlen : length operands = length (o_operands x)).
    { apply negb_false_iff, Z.eqb_eq in Eo. unfold zlen in Eo. lia. }
    destruct (operands_good operands HF _ _ _ _ _ (good_sdom _ _ _ _ G1) Hlen Hlin E2) as [G2 S2].
    pose proof (match_types_good _ _ _ _ _ (good_sdom _ _ _ _ G2) E3) as G3.
    split; [| intros k Hk; apply S2; right; exact Hk].
    apply good_close; [exact I | | exact S2].
    eapply good_trans; [apply sub_refl | exact G1 |]. eapply good_trans; [exact S2 | exact G2 | exact G3].
  - intros v e x e' seen seen' Hd Hlin H. cbn [lin_operand] in Hlin. inversion Hlin; subst.
    cbn [match_operand] in H. split; [eapply match_free_good; eassumption | auto].
  - intros rid idx o IH e v e' seen seen' Hd Hlin H.
    cbn [lin_operand] in Hlin. destruct (kmem (KResult rid) seen) eqn:Ek; [discriminate |].
    cbn [match_operand] in H. unfold bound_or in H. rewrite (sdom_fresh _ _ (KResult rid) Hd I Ek) in H.
    destruct v as [a | pid k]; [discriminate |]. destruct (find_op pl pid) as [y|]; [| discriminate].
    destruct (match_op fx P pl e o y) as [| |e1] eqn:E1; try discriminate.
    destruct (IH _ _ _ _ _ (sdom_weaken _ _ (KResult rid) Hd) Hlin E1) as [G1 S1].
    destruct (negb (zlen (op_rtys o) =? 0) && (zlen (op_rtys o) <=? idx)); [discriminate |].
    assert (He' : exists w, e' = (KResult rid, w) :: e1).
    { destruct (fx_resindex fx).
      - destruct ((0 <=? idx) && (idx <? zlen (o_rtys y)) && (k =? idx)); inversion H; eauto.
      - destruct ((0 <=? idx) && (idx <? zlen (o_rtys y))); inversion H; eauto. }
    destruct He' as [w ->].
    split; [apply good_close; [exact I | exact G1 | exact S1] | intros k' Hk'; apply S1; right; exact Hk'].
  - intros rid e v e' seen seen' _ Hlin. discriminate Hlin.
Qed.
End Env.
