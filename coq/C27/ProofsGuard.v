(* C27/ProofsGuard.v -- a static, executable check on the ordered predicate list ("every dereference is
   preceded by the is_not_null check that protects it") and the proof that a chain passing it never raises. *)
From Coq Require Import ZArith List Bool Lia.
From XV Require Import C27.Model C27.ProofsChain C27.ProofsOrder.
Import ListNotations.
Local Open Scope Z_scope.

Definition is_value_pos (p : pos) : bool := match p with POperand _ _ | PResult _ _ => true | _ => false end.
(* the operation at position q is known to be present once the predicates in `seen` hold *)
Definition op_guarded (seen : list pred) (q : pos) : bool :=
  match q with
  | PRoot => true
  | PDefOp _ => mem_pred (q, QNotNull) seen
  | _ => false
  end.
Fixpoint guarded_pos (seen : list pred) (p : pos) : bool :=
  match p with
  | PRoot => true
  | POperand q _ | PResult q _ | PAttr q _ => guarded_pos seen q && op_guarded seen q
  | PDefOp q => guarded_pos seen q && is_value_pos q
  | PType q => guarded_pos seen q && is_value_pos q && mem_pred (q, QNotNull) seen
  end.
Definition guarded_pred (seen : list pred) (pq : pred) : bool :=
  guarded_pos seen (fst pq) &&
  match snd pq with
  | QName _ | QOperandCount _ | QResultCount _ => op_guarded seen (fst pq)
  | QEqual other => guarded_pos seen other
  | _ => true
  end.
Fixpoint guarded_list (seen : list pred) (l : list pred) : bool :=
  match l with
  | [] => true
  | x :: r => guarded_pred seen x && guarded_list (x :: seen) r
  end.
(* the whole compiled matcher of a pattern: predicates in chain order, then the positions handed to the rewriter *)
Definition compile_guarded (fx : fixes) (P : pattern) : bool :=
  let '(preds, inp) := extract fx P in
  match gen_stmts fx P inp (p_root P) rg_init (p_rw P) with
  | Some (st, _) => guarded_list [] (ordered preds) &&
                    forallb (guarded_pos (rev (ordered preds))) (rg_used st)
  | None => false
  end.

Section Sem.
Variable fx : fixes.
Variable pl : payload.
Variable root : Z.
Hypothesis Hroot : find_op pl root <> None.
Notation ev := (eval_pos fx pl root).

Definition op_like (v : obj) : Prop := v = ONull \/ exists pid, v = OOp pid /\ find_op pl pid <> None.
Definition val_like (v : obj) : Prop := v = ONull \/ exists w, v = OVal w.

Lemma kind_op : forall p v, ev p = Some v -> match p with PRoot | PDefOp _ => op_like v | _ => True end.
Proof.
  intros p v H. destruct p; try exact I.
  - simpl in H. inversion H; subst. right. eexists. split; [reflexivity | exact Hroot].
  - cbn [eval_pos] in H. destruct (ev p) as [[| | [k|pid k] | | | |]|]; try discriminate.
    + inversion H. left. reflexivity.
    + inversion H. left. reflexivity.
    + inversion H. destruct (find_op pl pid) eqn:E; [right; eexists; split; [reflexivity | congruence] | left; reflexivity].
Qed.
Lemma kind_val : forall p v, ev p = Some v -> is_value_pos p = true -> val_like v.
Proof.
  intros p v H Hp. destruct p; try discriminate; cbn [eval_pos] in H;
    destruct (as_op pl (ev p)) as [x|]; try discriminate; inversion H.
  - destruct (znth (o_operands x) i); [right; eauto | left; reflexivity].
  - destruct ((0 <=? i) && (i <? zlen (o_rtys x))); [right; eauto | left; reflexivity].
Qed.

Definition all_hold (seen : list pred) : Prop := forall x, In x seen -> eval_pred fx pl root x = Some true.

Lemma mem_pred_holds : forall seen x, all_hold seen -> mem_pred x seen = true -> eval_pred fx pl root x = Some true.
Proof. intros seen x H Hm. apply H. apply mem_pred_In. exact Hm. Qed.

Lemma op_guarded_sound : forall seen q v,
  all_hold seen -> op_guarded seen q = true -> ev q = Some v -> exists x, as_op pl (Some v) = Some x.
Proof.
  intros seen q v Hall Hg Hv. pose proof (kind_op q v Hv) as Hk. destruct q; try discriminate.
  - destruct Hk as [-> | (pid & -> & Hf)]; [simpl in Hv; discriminate |].
    simpl. destruct (find_op pl pid); [eauto | congruence].
  - simpl in Hg. pose proof (mem_pred_holds _ _ Hall Hg) as Hh. unfold eval_pred in Hh. simpl fst in Hh.
    rewrite Hv in Hh. simpl in Hh.
    destruct Hk as [-> | (pid & -> & Hf)]; [simpl in Hh; discriminate |].
    simpl. destruct (find_op pl pid); [eauto | congruence].
Qed.

Lemma guarded_pos_sound : forall seen p, all_hold seen -> guarded_pos seen p = true -> exists v, ev p = Some v.
Proof.
  intros seen p Hall. induction p; intro Hg; cbn [guarded_pos] in Hg.
  - eexists. reflexivity.
  - apply andb_true_iff in Hg. destruct Hg as [H1 H2]. destruct (IHp H1) as [v Hv].
    destruct (op_guarded_sound _ _ _ Hall H2 Hv) as [x Hx]. cbn [eval_pos]. rewrite Hv, Hx. eauto.
  - apply andb_true_iff in Hg. destruct Hg as [H1 H2]. destruct (IHp H1) as [v Hv].
    cbn [eval_pos]. rewrite Hv. destruct (kind_val _ _ Hv H2) as [-> | (w & ->)]; [eauto |]. destruct w; eauto.
  - apply andb_true_iff in Hg. destruct Hg as [H1 H2]. destruct (IHp H1) as [v Hv].
    destruct (op_guarded_sound _ _ _ Hall H2 Hv) as [x Hx]. cbn [eval_pos]. rewrite Hv, Hx. eauto.
  - apply andb_true_iff in Hg. destruct Hg as [H1 H2]. destruct (IHp H1) as [v Hv].
    destruct (op_guarded_sound _ _ _ Hall H2 Hv) as [x Hx]. cbn [eval_pos]. rewrite Hv, Hx. eauto.
  - apply andb_true_iff in Hg. destruct Hg as [H12 H3]. apply andb_true_iff in H12. destruct H12 as [H1 H2].
    destruct (IHp H1) as [v Hv]. pose proof (mem_pred_holds _ _ Hall H3) as Hh.
    unfold eval_pred in Hh. simpl fst in Hh. rewrite Hv in Hh. simpl in Hh.
    cbn [eval_pos]. rewrite Hv. destruct (kind_val _ _ Hv H2) as [-> | (w & ->)]; [simpl in Hh; discriminate | eauto].
Qed.

Lemma guarded_pred_sound : forall seen pq, all_hold seen -> guarded_pred seen pq = true -> eval_pred fx pl root pq <> None.
Proof.
  intros seen [p q] Hall Hg. unfold guarded_pred in Hg. cbn [fst snd] in Hg. apply andb_true_iff in Hg.
  destruct Hg as [H1 H2]. destruct (guarded_pos_sound _ _ Hall H1) as [v Hv]. unfold eval_pred. cbn [fst snd]. rewrite Hv.
  destruct q; cbn [eval_quest]; try discriminate.
  - destruct (op_guarded_sound _ _ _ Hall H2 Hv) as [x ->]. discriminate.
  - destruct (op_guarded_sound _ _ _ Hall H2 Hv) as [x ->]. discriminate.
  - destruct (op_guarded_sound _ _ _ Hall H2 Hv) as [x ->]. discriminate.
  - destruct (guarded_pos_sound _ _ Hall H2) as [w ->]. discriminate.
Qed.

Lemma guarded_pos_mono : forall seen seen' p,
  (forall x, mem_pred x seen = true -> mem_pred x seen' = true) -> guarded_pos seen p = true -> guarded_pos seen' p = true.
Proof.
  intros seen seen' p Hsub. induction p; cbn [guarded_pos]; intro H; try reflexivity;
    repeat (apply andb_true_iff in H; destruct H as [H ?]); repeat (apply andb_true_iff; split); auto;
    try (match goal with H : op_guarded seen ?q = true |- op_guarded seen' ?q = true => destruct q; simpl in *; auto end).
Qed.

(* a guarded list never raises; if all its predicates hold, they all hold in the accumulated `seen` *)
Lemma guarded_list_sound : forall l seen used,
  all_hold seen -> guarded_list seen l = true ->
  forallb (guarded_pos (rev l ++ seen)) used = true ->
  seq_eval fx pl root l used <> IErr.
Proof.
  induction l as [|x l IH]; intros seen used Hall Hg Hu; cbn [seq_eval].
  - simpl in Hu. destruct (all_some (map ev used)) eqn:E; [discriminate |]. exfalso.
    clear Hg. induction used as [|p used IHu]; [discriminate |].
    simpl in Hu. apply andb_true_iff in Hu. destruct Hu as [H1 H2]. destruct (guarded_pos_sound _ _ Hall H1) as [v Hv].
    simpl in E. rewrite Hv in E. destruct (all_some (map ev used)); [discriminate | auto].
  - cbn [guarded_list] in Hg. apply andb_true_iff in Hg. destruct Hg as [H1 H2].
    pose proof (guarded_pred_sound _ _ Hall H1) as Hx.
    destruct (eval_pred fx pl root x) as [[|]|] eqn:E; try discriminate; [| congruence].
    apply (IH (x :: seen)).
    + intros y [<- | Hy]; [exact E | apply Hall; exact Hy].
    + exact H2.
    + simpl rev in Hu. rewrite <- app_assoc in Hu. exact Hu.
Qed.
End Sem.

Theorem compile_guarded_no_raise : forall fx P pl x c,
  compile_guarded fx P = true -> find_op pl (o_id x) = Some x -> compile fx P = Some c ->
  interp_match fx c pl x <> IErr.
Proof.
  intros fx P pl x c Hg Hx Hc. unfold compile_guarded, compile in *.
  destruct (extract fx P) as [preds inp].
  destruct (gen_stmts fx P inp (p_root P) rg_init (p_rw P)) as [[st code]|]; [| discriminate].
  inversion Hc; subst c; clear Hc. apply andb_true_iff in Hg. destruct Hg as [H1 H2].
  unfold interp_match. cbn [c_matcher]. rewrite chain_sound.
  apply (guarded_list_sound fx pl (o_id x) ltac:(congruence) (ordered preds) [] (rg_used st)).
  - intros y [].
  - exact H1.
  - rewrite app_nil_r. exact H2.
Qed.
